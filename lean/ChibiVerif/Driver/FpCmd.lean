/-
Command loops of `drv_c02` (core Lean only):

  drv_c02 seq        `cast <from> <to>` | `bin <op> <t1> <t2>` | `neg <t>` | `not <t>` | `cond <t> <c>` | `if <t> <c>`
                     | `while <t> <c>` | `do <t> <c>` | `and <t1> <t2> <c>` | `or <t1> <t2> <c>`
                     | `num f32|f64|f80 <bits, decimal>`
                     | `chainret <t0> <t1> … <tn> <ret>`     R f(void) { return (Tn)…(T1)a; }          (Model/FpChain)
                     | `chainasg <t0> <t1> … <tn> <tg>`      G g; int f(void) { g = (Tn)…(T1)a; return 0; }
                     | `chaincond <ta> <t1> <tb> <t2> <ret> <c>`   R f(void) { return c ? (T1)a : (T2)b; }
                                                                            → rendered lines joined by `;;` | `none`
  drv_c02 ctype      `<t1> <t2>`                                            → kind of Gen.getCommonType
  drv_c02 contract   `<name> <decimal operands…>`                           → `ok` | `bad <what the contract requires>` | `unknown`
        decides one FpuSpec contract on an (input, output) pair observed on the CPU, with `val*` read as IEEE decoding:
        cvttss2si32|cvttss2si64|cvttsd2si32|cvttsd2si64 <in> <out>      fistp16|fistp32|fistp64 <in80> <out>   (RC = 11b)
        cvtsi2ss32|cvtsi2ss64|cvtsi2sd32|cvtsi2sd64 <in> <out>          fild16|fild32|fild64 <in> <out80>
        ucomiss|ucomisd|fcomi <a> <b> <zf> <pf> <cf>                    cvtss2sd|fld32|fld64 <in> <out>   fchs <in> <out>
        roundnat <p> <n> <r>     (the rounding function itself against an independent implementation)
        comiss|comisd <a> <b> <zf> <pf> <cf>      two63 32|64|80 <bits>   (the constants of the fp → unsigned long cells denote 2^63)
        subss63|subsd63|fsub63 <a> <out>          (x − 2^63 is exact for 2^63 ≤ x < 2^64; fsub63 under PC = 11b)
        fadd64 <v> <out80>                        (fildq of v ≥ 2^63, fadds 2^64, PC = 11b: the datum of v)
        addss2|addsd2 <k> <out>                   (cvtsi2ss/sd of the signed k, added to itself: the datum of 2·round(k))
        fstfld32|fstfld64 <x> <out>               (flds/fldl then fstps/fstpl, any control word: the same bits, unless NaN)
        the integer → floating contracts (cvtsi2s*, fild*) are also compared bit for bit with `Ieee.ofInt32/64/80`
  drv_c02 chainval   `<t0> <value, decimal, possibly negative> <t1> … <tn>`   → `int <v>` | `ub` | `fp` | `bad`
        Spec.FpC11.convertChain (the right-hand side of C02_cast_chain) evaluated on the toy FPU of Lemmas/FpToy.lean, which meets every
        contract of FpuSpec: the C11 value of `(Tn)…(T1)x` for an integer `x : t0`.  Meaningful (the same on every FPU that meets
        the contract) when no link narrows a floating type (the contract says nothing about the value of a narrowing); `fp`: the
        final type is floating (toy data are not IEEE bit patterns, so they are not printed)
  drv_c02 lit        `<byte at *end> <bytes of the token after end>`       → `float|double|ldouble strtof|strtod|strtold` | `invalid`
        Model/FpLiteral.convertPpNumberFp over the regenerated suffix ladder: type and the libc function whose result is kept
-/
import ChibiVerif.Spec.FpuSpec
import ChibiVerif.Model.FpCodegen
import ChibiVerif.Model.FpLiteral
import ChibiVerif.Model.FpChain
import ChibiVerif.Spec.FpChainSpec
import ChibiVerif.Lemmas.FpToy

namespace ChibiVerif.Driver.Fp
open ChibiVerif.Gen.CommonType ChibiVerif.FpCodegen ChibiVerif.Asm ChibiVerif.Spec.Fpu

def words (s : String) : List String := (s.trimAscii.toString.splitOn " ").filter (· ≠ "")

def tydOf? : String → Option TyD
  | "bool" => some ty_bool | "i8" => some ty_char | "i16" => some ty_short | "i32" => some ty_int | "i64" => some ty_long
  | "u8" => some ty_uchar | "u16" => some ty_ushort | "u32" => some ty_uint | "u64" => some ty_ulong
  | "enum" => some ty_enum
  | "f32" => some ty_float | "f64" => some ty_double | "f80" => some ty_ldouble
  | _ => none

def srcOpOf? : String → Option SrcOp
  | "add" => some .add | "sub" => some .sub | "mul" => some .mul | "div" => some .div | "eq" => some .eq
  | "ne" => some .ne | "lt" => some .lt | "le" => some .le | "gt" => some .gt | "ge" => some .ge
  | _ => none

def specLines (ws : List String) : Option (List Line) :=
  match ws with
  | ["cast", f, t] => do some (fnCast (← tydOf? f) (← tydOf? t))
  | ["bin", op, t1, t2] => do fnBinary (← srcOpOf? op) (← tydOf? t1) (← tydOf? t2)
  | ["neg", t] => do fnNeg (← tydOf? t)
  | ["not", t] => do some (fnNot (← tydOf? t))
  | ["cond", t, c] => do some (fnCond (← tydOf? t) (← c.toNat?))
  | ["if", t, c] => do some (fnIf (← tydOf? t) (← c.toNat?))
  | ["while", t, c] => do some (fnWhile (← tydOf? t) (← c.toNat?))
  | ["do", t, c] => do some (fnDo (← tydOf? t) (← c.toNat?))
  | ["and", t1, t2, c] => do some (fnLogAnd (← tydOf? t1) (← tydOf? t2) (← c.toNat?))
  | ["or", t1, t2, c] => do some (fnLogOr (← tydOf? t1) (← tydOf? t2) (← c.toNat?))
  | ["num", "f32", b] => do some (numF32 (BitVec.ofNat 32 (← b.toNat?)))
  | ["num", "f64", b] => do some (numF64 (BitVec.ofNat 64 (← b.toNat?)))
  | ["num", "f80", b] => do some (numF80 (BitVec.ofNat 80 (← b.toNat?)))
  | "chainret" :: t0 :: rest => do
      let ts ← rest.mapM tydOf?
      match ts.reverse with
      | ret :: mid => some (ChibiVerif.FpChain.fnChainRet (← tydOf? t0) mid.reverse ret)
      | [] => none
  | "chainasg" :: t0 :: rest => do
      let ts ← rest.mapM tydOf?
      match ts.reverse with
      | tg :: mid => some (ChibiVerif.FpChain.fnChainAssign (← tydOf? t0) mid.reverse tg)
      | [] => none
  | ["chaincond", ta, t1, tb, t2, ret, c] => do
      ChibiVerif.FpChain.fnChainCond (← tydOf? ta) (← tydOf? t1) (← tydOf? tb) (← tydOf? t2) (← tydOf? ret) (← c.toNat?)
  | _ => none

def seqLine (line : String) : String :=
  match specLines (words line) with
  | some ls => if ls.isEmpty then "empty" else ";;".intercalate (ls.map Line.render)
  | none => "none"

def kindName : Kind → String
  | .TY_VOID => "void" | .TY_BOOL => "bool" | .TY_CHAR => "char" | .TY_SHORT => "short" | .TY_INT => "int"
  | .TY_LONG => "long" | .TY_FLOAT => "float" | .TY_DOUBLE => "double" | .TY_LDOUBLE => "ldouble" | .TY_ENUM => "enum"
  | .TY_PTR => "ptr" | .TY_FUNC => "func" | .TY_ARRAY => "array" | .TY_VLA => "vla" | .TY_STRUCT => "struct"
  | .TY_UNION => "union"

def ctypeLine (line : String) : String :=
  match (words line).map tydOf? with
  | [some a, some b] =>
    match getCommonType a b with
    | .ty t => s!"ty {kindName t.kind} {t.size} {if t.isUnsigned then 1 else 0}"
    | .ptrToBaseOf _ => "ptr-to-base-of-1"
    | .ptrTo t => s!"ptr-to {kindName t.kind}"
  | _ => "bad"

/-! ### contracts on observed pairs -/

open Ieee in
def valOf (fmt : Nat) (n : Nat) : Val :=
  if fmt = 32 then decode32 (BitVec.ofNat 32 n) else if fmt = 64 then decode64 (BitVec.ofNat 64 n) else decode80 (BitVec.ofNat 80 n)

def okIf (b : Bool) (want : String) : String := if b then "ok" else "bad " ++ want

def truncCheck (n : Nat) (fmt : Nat) (i o : Nat) : String :=
  let want := (truncTo n (valOf fmt i)).toNat
  okIf (want == o) s!"{want}"

/-- the intended reading of `ofInt32/64/80`: the IEEE / x87 encoding of the rounded integer -/
def ieeeOfInt (fmt : Nat) (v : Int) : Nat :=
  if fmt = 32 then (Ieee.ofInt32 v).toNat else if fmt = 64 then (Ieee.ofInt64 v).toNat else (Ieee.ofInt80 v).toNat

/-- integer (given as the unsigned reading of `w` bits) → format with precision `p`: value and sign, and the bits -/
def ofIntCheck (w p fmt : Nat) (i o : Nat) : String :=
  let v : Int := (BitVec.ofNat w i).toInt
  let out := valOf fmt o
  let sign := o / 2 ^ (fmt - 1) % 2 = 1
  okIf (out.toInt? == some (roundInt p v) && sign == decide (v < 0) && o == ieeeOfInt fmt v) s!"value {roundInt p v} bits {ieeeOfInt fmt v}"

/-- x − 2^63 exact: if the input's integral part t lies in [2^63, 2^64), the output's integral part is t − 2^63 -/
def sub63Check (fmt : Nat) (a o : Nat) : String :=
  match (valOf fmt a).trunc? with
  | some t =>
    if 9223372036854775808 ≤ t ∧ t < 18446744073709551616 then
      okIf ((valOf fmt o).trunc? == some (t - 9223372036854775808)) s!"trunc {t - 9223372036854775808}"
    else "ok"     -- outside the contract's hypothesis
  | none => "ok"

def two63Check (fmt : Nat) (bits : Nat) : String :=
  let want : Val := if fmt = 32 then .fin false 8388608 40 else if fmt = 64 then .fin false 4503599627370496 11
                    else .fin false 9223372036854775808 0
  okIf (valOf fmt bits == want) s!"{repr want}"

def ftyName : ChibiVerif.Gen.FpLiteral.FTy → String
  | .ty_float => "float" | .ty_double => "double" | .ty_ldouble => "ldouble"

def parserName : ChibiVerif.Gen.FpLiteral.Parser → String
  | .strtof => "strtof" | .strtod => "strtod" | .strtold => "strtold"

def litLine (line : String) : String :=
  match (words line).map String.toNat? with
  | [some sfx, some rest] =>
    -- the three libc results do not influence the type / parser selection: any data will do
    match ChibiVerif.FpLiteral.selectArm sfx ChibiVerif.Gen.FpLiteral.suffixArms with
    | some (t, q) => if rest = 1 then s!"{ftyName t} {parserName q}" else "invalid"
    | none => if rest = 0 then s!"{ftyName ChibiVerif.Gen.FpLiteral.defaultArm.1} {parserName ChibiVerif.Gen.FpLiteral.defaultArm.2}" else "invalid"
  | _ => "bad"

def flagsCheck (fmt : Nat) (a b zf pf cf : Nat) : String :=
  let r := Val.cmp (valOf fmt a) (valOf fmt b)
  let f := r.flags
  okIf (f == (zf == 1, pf == 1, cf == 1)) s!"{repr r}"

def exactCheck (fi fo : Nat) (i o : Nat) : String :=
  let vi := valOf fi i
  if vi.isNaN then okIf (valOf fo o).isNaN "nan" else okIf (Val.same (valOf fo o) vi) "same value"

def contractLine (line : String) : String :=
  match words line with
  | name :: rest =>
    match name, rest.map String.toNat? with
    | "cvttss2si32", [some i, some o] => truncCheck 32 32 i o
    | "cvttss2si64", [some i, some o] => truncCheck 64 32 i o
    | "cvttsd2si32", [some i, some o] => truncCheck 32 64 i o
    | "cvttsd2si64", [some i, some o] => truncCheck 64 64 i o
    | "fistp16", [some i, some o] => truncCheck 16 80 i o
    | "fistp32", [some i, some o] => truncCheck 32 80 i o
    | "fistp64", [some i, some o] => truncCheck 64 80 i o
    | "cvtsi2ss32", [some i, some o] => ofIntCheck 32 24 32 i o
    | "cvtsi2ss64", [some i, some o] => ofIntCheck 64 24 32 i o
    | "cvtsi2sd32", [some i, some o] => ofIntCheck 32 53 64 i o
    | "cvtsi2sd64", [some i, some o] => ofIntCheck 64 53 64 i o
    | "fild16", [some i, some o] => ofIntCheck 16 64 80 i o
    | "fild32", [some i, some o] => ofIntCheck 32 64 80 i o
    | "fild64", [some i, some o] => ofIntCheck 64 64 80 i o
    | "ucomiss", [some a, some b, some z, some p, some c] => flagsCheck 32 a b z p c
    | "ucomisd", [some a, some b, some z, some p, some c] => flagsCheck 64 a b z p c
    | "fcomi", [some a, some b, some z, some p, some c] => flagsCheck 80 a b z p c
    | "cvtss2sd", [some i, some o] => exactCheck 32 64 i o
    | "fld32", [some i, some o] => exactCheck 32 80 i o
    | "fld64", [some i, some o] => exactCheck 64 80 i o
    | "fchs", [some i, some o] => okIf ((BitVec.ofNat 80 i ^^^ (1#80 <<< 79)).toNat == o) "sign bit flipped"
    | "roundnat", [some p, some n, some r] => okIf (roundNat p n == r) s!"{roundNat p n}"
    | "comiss", [some a, some b, some z, some p, some c] => flagsCheck 32 a b z p c
    | "comisd", [some a, some b, some z, some p, some c] => flagsCheck 64 a b z p c
    | "two63", [some f, some b] => two63Check f b
    | "subss63", [some a, some o] => sub63Check 32 a o
    | "subsd63", [some a, some o] => sub63Check 64 a o
    | "fsub63", [some a, some o] => sub63Check 80 a o
    | "fadd64", [some v, some o] =>
        if 9223372036854775808 ≤ v ∧ v < 18446744073709551616 then okIf (o == ieeeOfInt 80 (v : Int)) s!"bits {ieeeOfInt 80 (v : Int)}"
        else "ok"
    | "addss2", [some k, some o] =>
        let kv : Int := (BitVec.ofNat 64 k).toInt
        if kv.natAbs < 2 ^ 63 then okIf (o == ieeeOfInt 32 (2 * roundInt 24 kv)) s!"bits {ieeeOfInt 32 (2 * roundInt 24 kv)}" else "ok"
    | "addsd2", [some k, some o] =>
        let kv : Int := (BitVec.ofNat 64 k).toInt
        if kv.natAbs < 2 ^ 63 then okIf (o == ieeeOfInt 64 (2 * roundInt 53 kv)) s!"bits {ieeeOfInt 64 (2 * roundInt 53 kv)}" else "ok"
    | "fstfld32", [some x, some o] => if (valOf 32 x).isNaN then "ok" else okIf (x == o) "the same bits"
    | "fstfld64", [some x, some o] => if (valOf 64 x).isNaN then "ok" else okIf (x == o) "the same bits"
    | _, _ => "unknown"
  | [] => "unknown"

/-! ### the value of a chain of conversions (Spec/FpChainSpec) on the toy FPU -/

open ChibiVerif.Spec.FpC11 ChibiVerif.Spec.IntSpec in
def atyOf? : String → Option ATy
  | "bool" => some (.int .bool) | "i8" => some (.int .i8) | "i16" => some (.int .i16) | "i32" => some (.int .i32)
  | "i64" => some (.int .i64) | "u8" => some (.int .u8) | "u16" => some (.int .u16) | "u32" => some (.int .u32)
  | "u64" => some (.int .u64) | "f32" => some .f32 | "f64" => some .f64 | "f80" => some .f80
  | _ => none

open ChibiVerif.Spec.FpC11 in
def chainvalLine (line : String) : String :=
  match words line with
  | t0 :: v :: rest =>
    match atyOf? t0, v.toInt?, rest.mapM atyOf? with
    | some (.int _), some n, some ts =>
      match convertChain Toy.toy 0x37f#16 ts (.int n) with
      | some (.int r) => s!"int {r}"
      | some _ => "fp"
      | none => "ub"
    | _, _, _ => "bad"
  | _ => "bad"

partial def loop (h : IO.FS.Stream) (f : String → String) : IO UInt32 := do
  let line ← h.getLine
  if line.isEmpty then return 0
  if line.trimAscii.toString.isEmpty then loop h f else
  IO.println (f line)
  loop h f

def main (args : List String) : IO UInt32 := do
  let stdin ← IO.getStdin
  match args with
  | "seq" :: _ => loop stdin seqLine
  | "ctype" :: _ => loop stdin ctypeLine
  | "contract" :: _ => loop stdin contractLine
  | "lit" :: _ => loop stdin litLine
  | "chainval" :: _ => loop stdin chainvalLine
  | _ =>
    IO.eprintln "usage: drv_c02 seq|ctype|contract|lit|chainval"
    return 2

end ChibiVerif.Driver.Fp
