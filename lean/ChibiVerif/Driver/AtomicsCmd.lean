/-
`drv_c16 <sub>`: line protocol over Model/Atomics.lean, one answer line per input line.

seq   `rmw <bytes> <kind> <ro 0|1>` | `cas <bytes> <kind>` | `xchg <bytes> <kind>` | `load <bytes> <kind>` | `store <bytes> <kind>`
        kind = s | u | f.  Answer: the instruction lines of the model's sequence, blanks trimmed, joined by " | ".
opfn  `<bytes> <signed 0|1> <op> <val> <old>`      answer: `(T)(old op val)` as an unsigned decimal, or `trap`
fold  `<bytes> <signed 0|1> <init> (<count> <op> <val>)*`   apply each operation `count` times in sequence; answer value or `trap`
run   `<bytes> <kind> <init> ; <ops of thread 0> ; <ops of thread 1> ; ... ; sched <items>`
        op   = rmw:<op>:<val>:<ro> | cas:<expected>:<desired> | xchg:<v> | load | store:<v>
        item = <t> (one instruction of thread t) | <t>x<n> (n instructions) | <t>! (until thread t has completed one more operation)
      answer: `cell=<v> done=<0|1> | <results of thread 0> | ... | log <tid><R|C>...`
Values are unsigned decimals (register values: 64-bit).  Anything malformed: `bad-op`.
-/
import ChibiVerif.Model.Atomics

namespace ChibiVerif.Driver
open ChibiVerif.Atomics ChibiVerif.Asm

def awords (line : String) : List String := (line.trimAscii.toString.splitOn " ").filter (· ≠ "")

def kindOf : String → Option Kind
  | "s" => some .signed | "u" => some .unsigned | "f" => some .flo | _ => none

def widthOf (s : String) : Option Width := s.toNat? >>= Width.ofBytes?

def showLines (ls : List Line) : String :=
  " | ".intercalate (ls.map fun l => l.render.trimAscii.toString)

def seqAnswer : List String → Option String
  | ["rmw", b, k, ro] => do
    let w ← widthOf b; let k ← kindOf k
    pure (showLines (rmwPcs.flatMap (rmwLines w k (ro == "1"))))
  | ["cas", b, k] => do
    let w ← widthOf b; let k ← kindOf k
    pure (showLines (casArmLines w k))
  | ["xchg", b, k] => do
    let w ← widthOf b; let k ← kindOf k
    pure (showLines (xchgLines w k))
  | ["load", b, k] => do
    let w ← widthOf b; let k ← kindOf k
    pure (showLines (aloadLines w k))
  | ["store", b, k] => do
    let w ← widthOf b; let k ← kindOf k
    pure (showLines (astoreLines w k))
  | _ => none

def showOpt {w : Width} : Option (Word w) → String
  | some v => toString v.toNat
  | none => "trap"

def opfnAnswer : List String → Option String
  | [b, sg, op, val, old] => do
    let w ← widthOf b; let op ← Op.ofString? op
    let val ← val.toNat?; let old ← old.toNat?
    pure (showOpt (Op.fn w (sg == "1") op (BitVec.ofNat _ val) (BitVec.ofNat _ old)))
  | _ => none

def iter {α : Type} (f : α → Option α) : Nat → α → Option α
  | 0, a => some a
  | n+1, a => match f a with
    | some a' => iter f n a'
    | none => none

def foldGo (w : Width) (sg : Bool) : List String → Option (Word w) → Option (Option (Word w))
  | [], acc => some acc
  | cnt :: op :: val :: rest, acc => do
    let n ← cnt.toNat?; let op ← Op.ofString? op; let v ← val.toNat?
    foldGo w sg rest (acc >>= iter (Op.fn w sg op (BitVec.ofNat _ v)) n)
  | _, _ => none

def foldAnswer : List String → Option String
  | b :: sg :: init :: rest => do
    let w ← widthOf b; let i ← init.toNat?
    let r ← foldGo w (sg == "1") rest (some (BitVec.ofNat _ i))
    pure (showOpt r)
  | _ => none

def parseOper (w : Width) (sg : Bool) (s : String) : Option (Oper w) :=
  match s.splitOn ":" with
  | ["rmw", op, val, ro] => do
    let op ← Op.ofString? op; let v ← val.toNat?
    pure (.rmw (Op.fn w sg op (BitVec.ofNat _ v)) (ro == "1"))
  | ["cas", e, d] => do
    let e ← e.toNat?; let d ← d.toNat?
    pure (.cas (BitVec.ofNat _ e) (BitVec.ofNat 64 d))
  | ["xchg", v] => do let v ← v.toNat?; pure (.xchg (BitVec.ofNat 64 v))
  | ["load"] => some .load
  | ["store", v] => do let v ← v.toNat?; pure (.store (BitVec.ofNat 64 v))
  | _ => none

def showResult {w : Width} : Result w → String
  | .val v => s!"val:{v.toNat}"
  | .cas ok e => s!"cas:{if ok then 1 else 0}:{e.toNat}"
  | .unit => "unit"

def completed {w : Width} (s : Sys w) (t : Nat) : Nat :=
  match s.threads[t]? with
  | some th => th.results.length
  | none => 0

def stuckOrDone {w : Width} (s : Sys w) (t : Nat) : Bool :=
  match s.threads[t]? with
  | some th => th.todo.isEmpty || th.pc == .trap || th.pc == .stuck
  | none => true

/-- run thread `t` until it has completed one more operation (bounded) -/
def runUntil {w : Width} (t : Nat) : Nat → Nat → Sys w → Sys w
  | 0, _, s => s
  | fuel+1, target, s =>
    if completed s t ≥ target || stuckOrDone s t then s else runUntil t fuel target (step t s)

def schedItem {w : Width} (s : Sys w) (item : String) : Option (Sys w) :=
  if item.endsWith "!" then do
    let t ← (item.dropEnd 1).toString.toNat?
    pure (runUntil t 100000 (completed s t + 1) s)
  else
    match item.splitOn "x" with
    | [t] => do let t ← t.toNat?; pure (step t s)
    | [t, n] => do let t ← t.toNat?; let n ← n.toNat?; pure (exec (List.replicate n t) s)
    | _ => none

def splitOnWord (sep : String) (ws : List String) : List (List String) :=
  let (acc, cur) := ws.foldl (fun (p : List (List String) × List String) x =>
    if x == sep then (p.1 ++ [p.2], []) else (p.1, p.2 ++ [x])) ([], [])
  acc ++ [cur]

def runAnswer (ws : List String) : Option String := do
  match splitOnWord ";" ws with
  | [b, k, init] :: rest =>
    let w ← widthOf b; let k ← kindOf k; let i ← init.toNat?
    let sg := k == .signed
    let progsW := rest.dropLast
    let schedW ← rest.getLast?
    let progs ← progsW.mapM (fun p => p.mapM (parseOper w sg))
    match schedW with
    | "sched" :: items =>
      let s ← items.foldlM schedItem (initSys w k (BitVec.ofNat _ i) progs)
      let res := s.threads.map fun th => " ".intercalate (th.results.map showResult)
      let log := "".intercalate (s.log.map fun e => s!"{e.tid}{if e.kind.isCommit then "C" else "R"} ")
      pure (s!"cell={s.cell.toNat} done={if s.terminated then 1 else 0} | " ++ " | ".intercalate res ++ " | log " ++ log.trimAscii.toString)
    | _ => none
  | _ => none

partial def atomicsLoop (sub : String) (h : IO.FS.Stream) : IO UInt32 := do
  let line ← h.getLine
  if line.isEmpty then return 0
  let ws := awords line
  if ws.isEmpty then atomicsLoop sub h
  else
    let ans := match sub with
      | "seq" => seqAnswer ws
      | "opfn" => opfnAnswer ws
      | "fold" => foldAnswer ws
      | "run" => runAnswer ws
      | _ => none
    IO.println (ans.getD "bad-op")
    atomicsLoop sub h

def atomicsMain (sub : String) : IO UInt32 := do atomicsLoop sub (← IO.getStdin)

end ChibiVerif.Driver
