/- line protocol of drv_c13, sub-command `lextotal`: one file per input line, bytes as decimal numbers separated by
   blanks (an empty line is the empty file); one output line: `ok tokens=N` | `diag LINE MSGID` | `overread WHY` | `fuel` -/
import ChibiVerif.Model.LexTotal

namespace ChibiVerif.Driver.LexTotalCmd
open ChibiVerif.LexTotal

def msgId : Msg → String
  | .unclosedString => "unclosed_string"
  | .unclosedChar => "unclosed_char"
  | .unclosedComment => "unclosed_comment"
  | .invalidToken => "invalid_token"
  | .invalidHexEscape => "invalid_hex_escape"
  | .invalidUtf8 => "invalid_utf8"

def whyId : Why → String
  | .universalBackslash => "universal_backslash"

def render : Outcome → String
  | .ok n => s!"ok tokens={n}"
  | .diag l m => s!"diag {l} {msgId m}"
  | .overread w => s!"overread {whyId w}"
  | .fuel => "fuel"

def parseLine (line : String) : List Nat :=
  (line.splitOn " ").filterMap (fun w => if w.isEmpty then none else w.toNat?)

partial def run (h : IO.FS.Stream) (out : IO.FS.Stream) : IO Unit := do
  let line ← h.getLine
  if line.isEmpty then return
  let l := line.trimAscii.toString
  out.putStrLn (render (lexFile (parseLine l)))
  run h out

end ChibiVerif.Driver.LexTotalCmd
