/- line-protocol driver for C06: `drv_c06 callconv` (see Driver/CallConvCmd.lean).
   Core Lean only (nothing imported here may import Mathlib, or the executable will not link). -/
import ChibiVerif.Driver.CallConvCmd

def main (args : List String) : IO UInt32 := do
  match args with
  | "callconv" :: _ => ChibiVerif.Driver.CallConvCmd.main
  | _ =>
    IO.eprintln "usage: drv_c06 callconv"
    return 2
