/- line-protocol driver for C06: `drv_c06 callconv` (see Driver/CallConvCmd.lean), `drv_c06 args` (Driver/C06ArgsCmd.lean),
   `drv_c06 ret` (Driver/C06RetCmd.lean).
   Core Lean only (nothing imported here may import Mathlib, or the executable will not link). -/
import ChibiVerif.Driver.CallConvCmd
import ChibiVerif.Driver.C06ArgsCmd
import ChibiVerif.Driver.C06RetCmd

def main (args : List String) : IO UInt32 := do
  match args with
  | "callconv" :: _ => ChibiVerif.Driver.CallConvCmd.main
  | "args" :: _ => ChibiVerif.Driver.C06ArgsCmd.main
  | "ret" :: _ => ChibiVerif.Driver.C06RetCmd.main
  | _ =>
    IO.eprintln "usage: drv_c06 callconv | args | ret"
    return 2
