/-
`drv_c10 ifunparse` (core Lean only): the printer of Model/IfUnparse.lean run on the trees of generated `#if` lines.

One macro-free controlling expression per input line, as tokens (format of `drv_c10 ifline`).  Answer, one line each:
  skip:<reason>                 the line has no tree in the model (err:…), or a constant of the tree has no spelling as a
                                plain literal (a `long` constant with bit 63 set – it came from a character constant)
  rt=<0|1> wf=<0|1> comma=<0|1> shift=<0|1> undef=<0|1> val=<t|f|err> toks=<spellings separated by blanks>
     toks  = `unparseTop t` for the tree `t` of the line (minimal parentheses), constants as decimal literals (suffix u for
             unsigned long),  rt = `ifParse (unparseTop t) = .ok t` (C10_ifparse_unparse, re-run),  wf = `t.WF`,
     val   = chibicc's evaluation of `t` as modelled (`evC`),  flags as in `tree` of `drv_c10 ifline`.
checklib/C10.py feeds `#if <toks>` to chibicc -E and gcc -E -P and compares the group selected with `val`.
-/
import ChibiVerif.Driver.IfLineCmd
import ChibiVerif.Model.IfUnparse

namespace ChibiVerif.Driver.C10
open ChibiVerif.CondIncl ChibiVerif.PPExpr ChibiVerif.IfParse

def spellPTok : PTok → Option String
  | .num v u => if u then some s!"{v}u" else if v < 2^63 then some s!"{v}" else none
  | .punct s => some s
  | .other => none

def unparseOut (line : List Tok) : String :=
  let d : Defs (List Tok) := []
  match ifTree d.isDef (xpObj d) cvTok line with
  | .error e => "skip:" ++ showPErr e
  | .ok t =>
    let ts := unparseTop t
    match ts.mapM spellPTok with
    | none => "skip:spelling"
    | some ws =>
      let e := t.toExpr
      let rt := decide (ifParse ts = .ok t)
      let val := match evC e [] with
        | .ok true => "t"
        | .ok false => "f"
        | .error _ => "err"
      s!"rt={b01 rt} wf={b01 t.WF} comma={b01 t.hasComma} shift={b01 (intResultOverflows [] e)} undef={b01 (decide ((evalN false [] FUEL [] e).1 = .error .undefinedBeh))} val={val} toks={" ".intercalate ws}"

partial def ifunparseLoop (h : IO.FS.Stream) : IO UInt32 := do
  let line ← h.getLine
  if line.isEmpty then return 0
  match (words line).mapM readTok with
  | some ts => IO.println (unparseOut ts)
  | none => IO.println "bad-input"
  ifunparseLoop h

def ifunparseMain : IO UInt32 := do ifunparseLoop (← IO.getStdin)

end ChibiVerif.Driver.C10
