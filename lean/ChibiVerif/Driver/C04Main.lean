/- line-protocol driver for C04: `drv_c04 bfseq|bfmodel|frame|alloca|path` reads operations on stdin, prints one canonical
   line per operation.  Core Lean only (nothing imported here may import Mathlib, or the executable will not link). -/
import ChibiVerif.Driver.C04Cmd

def main (args : List String) : IO UInt32 := do
  match args with
  | sub :: _ => ChibiVerif.Driver.C04.run sub
  | _ =>
    IO.eprintln "usage: drv_c04 bfseq|bfmodel|frame|alloca|path"
    return 2
