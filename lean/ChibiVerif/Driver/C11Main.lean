/- line-protocol driver for C11: `drv_c11 literals` (protocol in Driver/LiteralsCmd.lean).
   Core Lean only (nothing imported here may import Mathlib, or the executable will not link). -/
import ChibiVerif.Driver.LiteralsCmd

def main (args : List String) : IO UInt32 := do
  match args with
  | "literals" :: _ => ChibiVerif.Driver.literalsMain
  | _ =>
    IO.eprintln "usage: drv_c11 literals"
    return 2
