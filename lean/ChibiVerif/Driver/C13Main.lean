/- line-protocol driver for C13: `drv_c13 <sub-command>` reads operations on stdin, prints one canonical line per operation.
   Core Lean only (nothing imported here may import Mathlib, or the executable will not link). -/
import ChibiVerif.Driver.LexTotalCmd
import ChibiVerif.Driver.C13SitesCmd
import ChibiVerif.Driver.C13InitFuelCmd

def main (args : List String) : IO UInt32 := do
  match args with
  | ["lextotal"] =>
    ChibiVerif.Driver.LexTotalCmd.run (← IO.getStdin) (← IO.getStdout)
    return 0
  | ["literal"] =>
    ChibiVerif.Driver.C13SitesCmd.run (← IO.getStdin) (← IO.getStdout)
    return 0
  | ["initfuel"] =>
    ChibiVerif.Driver.C13InitFuelCmd.run (← IO.getStdin) (← IO.getStdout)
    return 0
  | _ =>
    IO.eprintln s!"drv_c13: unknown sub-command {args} (known: lextotal, literal, initfuel)"
    return 2
