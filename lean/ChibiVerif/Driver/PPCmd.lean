/- command loop of drv_c09: one test case per input line, one canonical output line per case.

   input   `<fuel> <tok> <tok> ...`     tok = `<k><b><s>.<line>.<hex of the spelling>`
           k = i|n|s|p|o (ident, pp-number, string, punctuator, other), b = at_bol, s = has_space
   output  `ok <tok> ...` (tok = `<k><b><s>.<hex>`)  |  `err <constructor of PP.Err>`
   sub-commands: `expand` (model of preprocess2 from the table of init_macros), `spec` (Spec.PPSpec.expand),
   `expandh` (the model again, every output token with its hide set: `ok <hex spelling>@<name>,<name>,... ...` — the
   line format of tools/harness/pp_harness.c, which prints the same for the real preprocess2), `strz` (the tokens of the line
   are ONE argument of `#`: `<hex of stringize's text> <hex of stringizeSpec's text> <what Lex.lexOne makes of the model's
   text: one<k>|many|none|error> <1|0: every token literal-safe and without new-line, the hypothesis of
   C09_stringize_wellformed>`) -/
import ChibiVerif.Model.PP
import ChibiVerif.Spec.PPSpec

namespace ChibiVerif.Driver
open ChibiVerif.PP

def hexVal (c : Char) : Nat :=
  if c.isDigit then c.toNat - '0'.toNat
  else if 'a' ≤ c && c ≤ 'f' then c.toNat - 'a'.toNat + 10
  else c.toNat - 'A'.toNat + 10

def unhex : List Char → List Char
  | a :: b :: rest => Char.ofNat (hexVal a * 16 + hexVal b) :: unhex rest
  | _ => []

def hexDigit (n : Nat) : Char := if n < 10 then Char.ofNat (48 + n) else Char.ofNat (87 + n)

def hex (s : String) : String :=
  String.ofList (s.toList.flatMap fun c => [hexDigit (c.toNat / 16 % 16), hexDigit (c.toNat % 16)])

def kindOf (c : Char) : Kind :=
  match c with
  | 'i' => .ident | 'n' => .num | 's' => .str | 'p' => .punct | _ => .other

def kindChar : Kind → Char
  | .ident => 'i' | .num => 'n' | .str => 's' | .punct => 'p' | .other => 'o'

def parseTok (w : String) : Option Tok :=
  match w.splitOn "." with
  | [f, ln, hx] =>
    match f.toList with
    | [k, b, s] => some { kind := kindOf k, text := String.ofList (unhex hx.toList), atBol := b == '1', hasSpace := s == '1',
                           line := ln.toNat?.getD 1 }
    | _ => none
  | _ => none

def showTok (t : Tok) : String :=
  String.ofList [kindChar t.kind, (if t.atBol then '1' else '0'), (if t.hasSpace then '1' else '0')] ++ "." ++ hex t.text

def errName : Err → String
  | .fuel => "fuel"
  | .prematureEnd => "prematureEnd"
  | .expected s => "expected" ++ hex s
  | .hashNotParam => "hashNotParam"
  | .pasteAtStart => "pasteAtStart"
  | .pasteAtEnd => "pasteAtEnd"
  | .pasteInvalid => "pasteInvalid"
  | .lexError => "lexError"
  | .macroNameNotIdent => "macroNameNotIdent"
  | .expectedIdent => "expectedIdent"
  | .errorDirective => "errorDirective"
  | .invalidDirective => "invalidDirective"
  | .unsupportedDirective => "unsupportedDirective"

def showRes (r : Except Err (List Tok)) : String :=
  match r with
  | .ok ts => " ".intercalate ("ok" :: ts.map showTok)
  | .error e => "err " ++ errName e

def runLine (spec : Bool) (line : String) : String :=
  let ws := (line.trimAscii.toString.splitOn " ").filter (· ≠ "")
  match ws with
  | [] => "bad-op"
  | f :: rest =>
    match f.toNat?, rest.mapM parseTok with
    | some fuel, some ts =>
      if spec then
        match ChibiVerif.Spec.PPSpec.expandFileX fuel ts with
        | .ok (out, crossed, gap) =>
          " ".intercalate (("ok" ++ (if crossed then "x" else "") ++ (if gap then "v" else "")) :: out.map showTok)
        | .error e => "err " ++ errName e
      else
        match preprocessX fuel ts with
        | .ok (out, pm, bs) =>
          " ".intercalate (("ok" ++ (if pm || bs then ":" else "") ++ (if pm then "p" else "") ++ (if bs then "b" else "")) :: out.map showTok)
        | .error e => "err " ++ errName e
    | _, _ => "bad-op"

partial def ppLoop (spec : Bool) (h : IO.FS.Stream) : IO UInt32 := do
  let line ← h.getLine
  if line.isEmpty then return 0
  IO.println (runLine spec line)
  ppLoop spec h

def ppMain (spec : Bool) : IO UInt32 := do ppLoop spec (← IO.getStdin)

/-! `expandh`: spellings and hide sets (names in the order of the C linked list) -/

def showTokH (t : Tok) : String := hex t.text ++ "@" ++ ",".intercalate t.hide

def runLineH (line : String) : String :=
  let ws := (line.trimAscii.toString.splitOn " ").filter (· ≠ "")
  match ws with
  | [] => "bad-op"
  | f :: rest =>
    match f.toNat?, rest.mapM parseTok with
    | some fuel, some ts =>
      match preprocess fuel ts with
      | .ok out => " ".intercalate ("ok" :: out.map showTokH)
      | .error e => "err " ++ errName e
    | _, _ => "bad-op"

partial def ppLoopH (h : IO.FS.Stream) : IO UInt32 := do
  let line ← h.getLine
  if line.isEmpty then return 0
  IO.println (runLineH line)
  ppLoopH h

def ppMainH : IO UInt32 := do ppLoopH (← IO.getStdin)

/-! `strz`: the `#` operator on one argument -/

def lexOneName : LexOne → String
  | .one k => "one" ++ String.ofList [kindChar k]
  | .many => "many"
  | .none => "none"
  | .error => "error"

def runLineStrz (line : String) : String :=
  let ws := (line.trimAscii.toString.splitOn " ").filter (· ≠ "")
  match ws.mapM parseTok with
  | some ts =>
    let hash : Tok := { kind := .punct, text := "#" }
    let m := (stringize hash ts).text
    let ok := ts.all fun t => strSafeTok t && t.text.toList.all (· != '\n')
    " ".intercalate [hex m, hex (ChibiVerif.Spec.PPSpec.stringizeSpec hash ts).text, lexOneName (Lex.lexOne m), if ok then "1" else "0"]
  | none => "bad-op"

partial def ppLoopStrz (h : IO.FS.Stream) : IO UInt32 := do
  let line ← h.getLine
  if line.isEmpty then return 0
  IO.println (runLineStrz line)
  ppLoopStrz h

def ppMainStrz : IO UInt32 := do ppLoopStrz (← IO.getStdin)

end ChibiVerif.Driver
