/- line-protocol driver for C10: `drv_c10 cond` (conditional nests), `drv_c10 incl` (include graphs), `drv_c10 ifline` (controlling expressions as token lines),
   `drv_c10 ifunparse` (trees printed with minimal parentheses).
   Core Lean only (nothing imported here may import Mathlib, or the executable will not link). -/
import ChibiVerif.Driver.CondInclCmd
import ChibiVerif.Driver.IfLineCmd
import ChibiVerif.Driver.IfUnparseCmd

def main (args : List String) : IO UInt32 := do
  match args with
  | "cond" :: _ => ChibiVerif.Driver.C10.condMain
  | "incl" :: _ => ChibiVerif.Driver.C10.inclMain
  | "ifline" :: _ => ChibiVerif.Driver.C10.iflineMain
  | "ifunparse" :: _ => ChibiVerif.Driver.C10.ifunparseMain
  | _ =>
    IO.eprintln "usage: drv_c10 cond|incl|ifline|ifunparse"
    return 2
