/- line-protocol driver for C10: `drv_c10 <sub-command>` reads operations on stdin, prints one canonical line per operation.
   Core Lean only (nothing imported here may import Mathlib, or the executable will not link). -/

def main (args : List String) : IO UInt32 := do
  IO.eprintln s!"drv_c10: no sub-commands yet (args {args})"
  return 2
