/-
Line-protocol driver for the driver-process model (C14): `drv_c14 trace`.

One case per input line, `key=value` tokens separated by blanks:

  mode=<E|S|c|link> out=<path|-> in=<arg>,<arg>,… files=<path>:<tag>,… faults=<prog>:<k>:<exit|sig>:<n>:<w|n|r>,… mkfail=<k|-> [il=<0|1>… other=<index>]

* `in`     the input arguments as written on the command line (kind by `get_file_type` / the `-l` test)
* `files`  the initial file system: path and origin tag of every existing file
* `faults` outcome of the k-th (0-based) invocation of cc1/as/ld: exit code n or signal n; a failing as/ld
           leaves junk in its output (`w`), removes it (`r`) or does not touch it (`n`)
* `mkfail` index of the mkstemp call that fails (`-`: none)

Output: one line `status=<n> trace=<event>|<event>|… files=<path>=<cls>[<tag>,…];…` with the temporaries
named `tmp#k` in creation order, files sorted by path, origin tags sorted without duplicates.

`drv_c14 pair` reads two consecutive case lines and a third line `il=<0|1>…` (an interleaving: `1` = first
driver moves) and prints the two results of the joint run on one shared file system (after the given
prefix the remaining steps are taken round-robin); temporaries of the second driver are `tmq#k`.
-/
import ChibiVerif.Model.DriverProc

namespace ChibiVerif.Driver.DriverProcCmd
open ChibiVerif.DriverProc

def basename (s : String) : String :=
  match (s.splitOn "/").getLast? with
  | some b => b
  | none => s

/-- main.c `replace_extn`: basename, cut at the last `.`, append the extension -/
def replaceExtn (s ext : String) : String :=
  let b := basename s
  let parts := b.splitOn "."
  if parts.length ≤ 1 then b ++ ext else ".".intercalate parts.dropLast ++ ext

/-- the `-l` test of the loop and `get_file_type` -/
def kindOf (s : String) : Kind :=
  if s.startsWith "-l" then .lib
  else if s.endsWith ".a" then .obj
  else if s.endsWith ".so" then .obj
  else if s.endsWith ".o" then .obj
  else if s.endsWith ".c" then .C
  else if s.endsWith ".s" then .asm
  else .unknown

def mkInput (s : String) : Input String :=
  { path := s, kind := kindOf s, sOut := replaceExtn s ".s", oOut := replaceExtn s ".o" }

structure Case where
  cmd : Cmd String
  fs : FS String
  faults : List (Prog × Nat × Outcome)
  mkfail : Option Nat
  tmpPrefix : String := "tmp#"

def parseMode : String → Option Mode
  | "E" => some .E | "S" => some .S | "c" => some .c | "link" => some .link | _ => none

def parseProg : String → Option Prog
  | "cc1" => some .cc1 | "as" => some .as | "ld" => some .ld | _ => none

def splitList (s : String) : List String :=
  if s = "-" || s = "" then [] else (s.splitOn ",").filter (· ≠ "")

def parseFault (s : String) : Option (Prog × Nat × Outcome) :=
  match s.splitOn ":" with
  | [p, k, how, n, w] => do
    let p ← parseProg p
    let k ← k.toNat?
    let n ← n.toNat?
    let st ← match how with
      | "exit" => some (Status.exit n)
      | "sig" => if n = 0 then none else some (Status.signal (n - 1))
      | _ => none
    some (p, k, ⟨st, if w = "w" then .junk else if w = "r" then .removed else if w = "c" then .complete else .untouched⟩)
  | _ => none

def parseFile (s : String) : Option (String × Content) :=
  match s.splitOn ":" with
  | [p, t] => t.toNat?.map (fun n => (p, ⟨.orig, [n]⟩))
  | _ => none

def kv (toks : List String) (key : String) : Option String :=
  toks.findSome? (fun t => if t.startsWith (key ++ "=") then some ((t.drop (key.length + 1)).toString) else none)

def parseCase (line : String) : Except String Case := do
  let toks := (line.trimAscii.toString.splitOn " ").filter (· ≠ "")
  let need (k : String) : Except String String :=
    match kv toks k with | some v => .ok v | none => .error s!"missing {k}"
  let mode ← match parseMode (← need "mode") with | some m => pure m | none => throw "bad mode"
  let out ← need "out"
  let ins := splitList (← need "in")
  let files ← (splitList (← need "files")).mapM (fun f =>
    match parseFile f with | some x => pure x | none => throw s!"bad file {f}")
  let faults ← (splitList (← need "faults")).mapM (fun f =>
    match parseFault f with | some x => pure x | none => throw s!"bad fault {f}")
  let mkfail := match kv toks "mkfail" with | some v => v.toNat? | none => none
  pure { cmd := { mode := mode, out := if out = "-" then none else some out, inputs := ins.map mkInput,
                  aout := "a.out" },
         fs := files, faults := faults, mkfail := mkfail }

def Case.env (c : Case) : Env String :=
  { mode := c.cmd.mode,
    sched := fun p k =>
      match c.faults.find? (fun f => f.1 = p && f.2.1 = k) with
      | some f => f.2.2
      | none => Outcome.ok,
    fresh := fun k => if c.mkfail = some k then none else some s!"{c.tmpPrefix}{k}" }

def showProg : Prog → String | .cc1 => "cc1" | .as => "as" | .ld => "ld"
def showStatus : Status → String
  | .exit k => s!"exit:{k % 256}"
  | .signal n => s!"sig:{n % 127 + 1}"
def showErr : DrvErr → String
  | .multiO => "multi-o" | .unknownExt => "unknown-ext" | .noInput => "no-input"
  | .usage => "usage" | .unknownArg => "unknown-arg" | .unknownX => "unknown-x"
def showOpt : Option String → String | some p => p | none => "-"

def showEvent : Event String → String
  | .mkstemp p => s!"mkstemp {p}"
  | .mkstempFailed => "mkstemp-failed"
  | .spawn .ld inp out => s!"spawn ld out={showOpt out} args={",".intercalate inp}"
  | .spawn p inp out => s!"spawn {showProg p} in={",".intercalate inp} out={showOpt out}"
  | .wait p st => s!"wait {showProg p} {showStatus st}"
  | .error w => s!"error {showErr w}"
  | .unlink p => s!"unlink {p}"
  | .exit c => s!"exit {c}"

def showCls : Cls → String
  | .orig => "orig" | .empty => "empty" | .pp => "pp" | .asm => "asm" | .obj => "obj" | .exe => "exe" | .junk => "junk"
  | .deps => "deps"

def insertSorted (n : Nat) : List Nat → List Nat
  | [] => [n]
  | m :: r => if n < m then n :: m :: r else if n = m then m :: r else m :: insertSorted n r

def showContent (c : Content) : String :=
  let o := c.origins.foldl (fun acc n => insertSorted n acc) []
  s!"{showCls c.cls}[{",".intercalate (o.map toString)}]"

def insertFile (e : String × Content) : List (String × Content) → List (String × Content)
  | [] => [e]
  | f :: r => if e.1 < f.1 then e :: f :: r else f :: insertFile e r

def showFS (fs : FS String) : String :=
  let sorted := fs.foldl (fun acc e => insertFile e acc) []
  ";".intercalate (sorted.map (fun e => s!"{e.1}={showContent e.2}"))

def showResult (s : DState String) (fs : FS String) (withFiles : Bool := true) : String :=
  let st := match s.phase with
    | .done c => toString c
    | .stuck => "stuck"
    | _ => "running"
  let base := s!"status={st} trace={"|".intercalate (s.log.map showEvent)}"
  if withFiles then base ++ s!" files={showFS fs}" else base

partial def traceLoop (h : IO.FS.Stream) : IO UInt32 := do
  let line ← h.getLine
  if line.isEmpty then return 0
  if line.trimAscii.toString.isEmpty then traceLoop h else
  match parseCase line with
  | .error e => IO.println s!"bad-case {e}"; traceLoop h
  | .ok c =>
    let r := runCmd c.env c.cmd c.fs
    IO.println (showResult r.1 r.2)
    traceLoop h

/-- joint run of two drivers on one file system under an interleaving prefix, then round-robin -/
def jointRun (a b : Case) (il : List Bool) : DState String × DState String × FS String :=
  let x0 : DState String × DState String × FS String := (init a.cmd, init b.cmd, a.fs)
  let x1 := irun a.env b.env il x0
  let n := fuel (init a.cmd) + fuel (init b.cmd)
  let rr := (List.range (2 * n)).map (fun i => i % 2 == 0)
  irun a.env b.env rr x1

partial def pairLoop (h : IO.FS.Stream) : IO UInt32 := do
  let l1 ← h.getLine
  if l1.isEmpty then return 0
  if l1.trimAscii.toString.isEmpty then pairLoop h else
  let l2 ← h.getLine
  let l3 ← h.getLine
  match parseCase l1, parseCase l2 with
  | .ok a, .ok b =>
    let b := { b with tmpPrefix := "tmq#" }
    let ilS := match kv ((l3.trimAscii.toString.splitOn " ").filter (· ≠ "")) "il" with | some v => v | none => ""
    let il := ilS.toList.map (· == '1')
    let r := jointRun a b il
    IO.println (showResult r.1 r.2.2 false ++ " || " ++ showResult r.2.1 r.2.2 false ++ s!" || files={showFS r.2.2}")
    pairLoop h
  | _, _ => IO.println "bad-case"; pairLoop h

def traceMain : IO UInt32 := do traceLoop (← IO.getStdin)
def pairMain : IO UInt32 := do pairLoop (← IO.getStdin)

end ChibiVerif.Driver.DriverProcCmd
