/- `drv_c13 initfuel`: the recursion budget of the initializer parser on one declaration per line (C05's line syntax
   `<type> | <tokens>`, Driver/InitCmd).  Answer: outcome class of `parseInit`, length of the rest, `needFuel` (the proved
   bound of Lemmas/C13InitFuel), `stdFuel`, the smallest budget that is not exhausted (searched from 0 up to `needFuel`;
   `over` if there is none — that would refute C13_init_fuel_bound), and whether the answer at `needFuel` is the answer of
   `parseInit`.  Core Lean only. -/
import ChibiVerif.Driver.InitCmd
import ChibiVerif.Lemmas.C13InitFuel

namespace ChibiVerif.Driver.C13InitFuelCmd
open ChibiVerif.Init ChibiVerif.Driver.InitCmd ChibiVerif.C13InitFuel

def cls (x : Except Fail (Init × List ITok)) : String :=
  match x with
  | .ok (_, r) => s!"ok rest={r.length}"
  | .error (.diag m) => s!"diag rest=- msg={m.replace " " "_"}"
  | .error (.crash m) => s!"crash rest=- msg={m.replace " " "_"}"
  | .error .fuel => "fuel rest=-"

def isFuel (x : Except Fail (Init × List ITok)) : Bool :=
  match x with
  | .error .fuel => true
  | _ => false

def minFuel (ty : Ty) (toks : List ITok) (bound : Nat) : Option Nat :=
  (List.range (bound + 1)).find? (fun f => !isFuel (initializer2 f ty toks (newInit ty true)))

def answer (ty : Ty) (toks : List ITok) : String :=
  let need := needFuel ty toks
  let r := parseInit ty toks
  let rn := initializer2 need ty toks (newInit ty true)
  let mn := match minFuel ty toks need with
    | some f => toString f
    | none => "over"
  s!"{cls r} need={need} std={stdFuel ty toks} min={mn} stable={if cls r == cls rn then 1 else 0}"

partial def loop (h : IO.FS.Stream) : IO Unit := do
  let line ← h.getLine
  if line.isEmpty then return
  let ws := words line
  if ws.isEmpty then loop h else
  let (tyW, tokW) := ws.span (· ≠ "|")
  match parseTy tyW, parseToks (tokW.drop 1) with
  | some (ty, []), some toks => IO.println (answer ty toks); loop h
  | _, _ => IO.println "bad-op"; loop h

def run (i : IO.FS.Stream) (_o : IO.FS.Stream) : IO Unit := loop i

end ChibiVerif.Driver.C13InitFuelCmd
