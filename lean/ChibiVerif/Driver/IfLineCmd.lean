/-
`drv_c10 ifline` (core Lean only): conditional nests whose controlling expressions are *token lines*.

Lines of one translation unit, then `end`:
  t <marker>                    text line
  if <T>… | elif <T>…           controlling expression as tokens; T = I<name> identifier | N<spelling> pp-number |
                                P<spelling> punctuator | O<hex of the spelling> character constant / string literal
  else | endif
  define <name> <T>…            object-like macro
  undef <name>
  tree <T>…                     answered at once with one line  comma=<0|1> shift=<0|1> undef=<0|1> tree=<X>  under the macro table of
                                the define/undef lines read so far in this unit (flags: the tree has a comma operator / lies in the
                                region of C10-ppif-int-result-shift / has behaviour C11 leaves undefined):  X = prefix form of the tree (n <v> <u|s> | u <op> X | b <op> X X |
                                c X X X | k X X)  or  err:<class>[@<token index>]
  end                           → model=<R> spec=<R> region=<0|1>
     model = condMachine with `ifEval true` (eval_const_expr as modelled: defined → expansion → identifiers 0 → conversion →
     parse → chibicc's evaluation), spec = Spec.groups with `ifEval false` (same tree, C11 6.10.1p4 evaluation),
     region = an evaluated condition lies in `ifRegion`.   R as in `drv_c10 cond`.
-/
import ChibiVerif.Driver.CondInclCmd
import ChibiVerif.Model.IfLineConv

namespace ChibiVerif.Driver.C10
open ChibiVerif.CondIncl ChibiVerif.PPExpr ChibiVerif.IfParse

abbrev TL := Line (List Tok) (List Tok)

def hexVal (c : Char) : Nat :=
  if '0' ≤ c ∧ c ≤ '9' then c.toNat - 48 else if 'a' ≤ c ∧ c ≤ 'f' then c.toNat - 87 else 0

def unhex : List Char → List Char
  | a :: b :: r => Char.ofNat (hexVal a * 16 + hexVal b) :: unhex r
  | _ => []

def readTok (w : String) : Option Tok :=
  match w.toList with
  | 'I' :: r => some (.ident (String.ofList r))
  | 'N' :: r => some (.num (String.ofList r))
  | 'P' :: r => some (.punct (String.ofList r))
  | 'O' :: r => some (.other (String.ofList (unhex r)))
  | _ => none

def unName : UnOp → String
  | .neg => "neg" | .plus => "plus" | .bnot => "bnot" | .lnot => "lnot"

def binName : BinOp → String
  | .mul => "mul" | .div => "div" | .mod => "mod" | .add => "add" | .sub => "sub" | .shl => "shl" | .shr => "shr"
  | .lt => "lt" | .le => "le" | .gt => "gt" | .ge => "ge" | .eq => "eq" | .ne => "ne" | .band => "band" | .bxor => "bxor"
  | .bor => "bor" | .land => "land" | .lor => "lor"

def showPT : PT → String
  | .num v u => s!"n {v} {if u then "u" else "s"}"
  | .un op e => s!"u {unName op} {showPT e}"
  | .bin op a b => s!"b {binName op} {showPT a} {showPT b}"
  | .cond c a b => s!"c {showPT c} {showPT a} {showPT b}"
  | .comma a b => s!"k {showPT a} {showPT b}"

def showPErr : PErr → String
  | .badDefined => "err:defined"
  | .expand _ => "err:expand"
  | .noExpr => "err:noexpr"
  | .expectedExpr i => s!"err:expected-expr@{i}"
  | .expected s i => s!"err:expected{s}@{i}"
  | .extraToken i => s!"err:extra@{i}"
  | .divZeroFirst i => s!"err:divzero@{i}"
  | .unmodelled i => s!"err:unmodelled@{i}"
  | .fuel => "err:fuel"

def treeOut (d : Defs (List Tok)) (line : List Tok) : String :=
  match ifTree d.isDef (xpObj d) cvTok line with
  | .ok t =>
    let e := t.toExpr
    s!"comma={b01 t.hasComma} shift={b01 (intResultOverflows [] e)} undef={b01 (decide ((evalN false [] FUEL [] e).1 = .error .undefinedBeh))} tree={showPT t}"
  | .error e => "comma=0 shift=0 undef=0 tree=" ++ showPErr e

def showResT (r : Except Diag (Obs (List Tok))) : String :=
  match r with
  | .ok o => "ok:" ++ ",".intercalate (o.out.map (fun l => " ".intercalate l)) ++ ":" ++
      ",".intercalate ((o.defs.map (·.1)).foldl (fun acc n => insertSorted n acc) [])
  | .error e => "err:" ++ showDiag e

def isErrT (r : Except Diag (Obs (List Tok))) (d : Diag) : Bool :=
  match r with
  | .error e => e == d
  | .ok _ => false

def iflineOut (ls : List TL) : String :=
  let model := condMachine (ifEval true xpObj cvTok) ls []
  let spec := Spec.CondIncl.groups (ifEval false xpObj cvTok) ls []
  let region := isErrT (condMachine (fun c d => if ifRegion xpObj cvTok c d then .error .badDirective else ifEval true xpObj cvTok c d) ls [])
    .badDirective
  s!"model={showResT model} spec={showResT spec} region={b01 region}"

partial def iflineLoop (h : IO.FS.Stream) (acc : List TL) (defs : Defs (List Tok)) (bad : Bool) : IO UInt32 := do
  let line ← h.getLine
  if line.isEmpty then return 0
  match words line with
  | [] => iflineLoop h acc defs bad
  | ["end"] =>
    if bad then IO.println "bad-input" else IO.println (iflineOut acc.reverse)
    iflineLoop h [] [] false
  | "t" :: toks => iflineLoop h (.plain (.text toks) :: acc) defs bad
  | "if" :: ws =>
    match ws.mapM readTok with
    | some ts => iflineLoop h (.opens (.ifE ts) :: acc) defs bad
    | none => iflineLoop h acc defs true
  | "elif" :: ws =>
    match ws.mapM readTok with
    | some ts => iflineLoop h (.part (.elif ts) :: acc) defs bad
    | none => iflineLoop h acc defs true
  | ["else"] => iflineLoop h (.part (.els false) :: acc) defs bad
  | ["endif"] => iflineLoop h (.endif false :: acc) defs bad
  | "define" :: n :: ws =>
    match ws.mapM readTok with
    | some ts => iflineLoop h (.plain (.define n ts) :: acc) (defs.define n ts) bad
    | none => iflineLoop h acc defs true
  | ["undef", n] => iflineLoop h (.plain (.undef n false) :: acc) (defs.undef n) bad
  | "tree" :: ws =>
    match ws.mapM readTok with
    | some ts => IO.println (treeOut defs ts); iflineLoop h acc defs bad
    | none => IO.println "bad-input"; iflineLoop h acc defs bad
  | _ => iflineLoop h acc defs true

def iflineMain : IO UInt32 := do iflineLoop (← IO.getStdin) [] [] false

end ChibiVerif.Driver.C10
