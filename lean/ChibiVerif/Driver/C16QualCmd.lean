/-
`drv_c16 qual`      one case per input line (an S-expression, grammar below); answer, tab-separated:
                      `C=<the C translation unit, on one line>`  `types=<name=type;...>`  `path=<path>`  `spec=<...>`
                    The C text is printed by THIS program from the parse tree the model works on; checklib/C16.py feeds
                    it to the hooked chibicc and compares the dump with the model's answer.
`drv_c16 qualdump <dumpfile> <names,comma-separated>`
                    the same `types=` and `path=` fields read off the AST dump of the real parser (function `f`).
`drv_c16 casnodes <dumpfile>`
                    every ND_CAS / ND_EXCH node of the dump: result of the typing model (Model/C16Typing.lean), the width,
                    whether `Codegen.casArm` / `exchArm` print the interleaving model's lines for that width; and whether
                    every type of the table satisfies `SizeWf`.
`drv_c16 castype`   `<addr> <old>` operand type descriptions per line → `ok <bytes>` or the diagnostic tag.

case  := (case (decls D*) (upd OP E))
D     := (typedef NAME DS DECLR) | (var STO NAME DS DECLR) | (struct TAG M*) | (union TAG M*)
M     := (NAME DS DECLR BF)                    BF = 0 | 1
DS    := (KW SPEC)                             KW = 0 | 1   (`_Atomic` keyword among the specifiers)
SPEC  := bool|char|uchar|short|ushort|int|uint|long|ulong|float|double|ldouble|void|enum
       | (tdef NAME) | (struct TAG) | (union TAG) | (typeofT DS DECLR) | (typeofE E) | (atomicOf DS DECLR)
DECLR := n | (p DECLR Q*) | (a DECLR N) | (f DECLR) | (g DECLR)       p = `* Q* D`, a = `D[N]`, f = `D(void)`, g = `(D)`
Q     := const | volatile | restrict | __restrict | __restrict__ | _Atomic      (type qualifiers after the `*`)
E     := (v NAME) | (par E) | (deref E) | (addr E) | (mem E NAME) | (arrow E NAME) | (idx E N) | (add E N)
       | (cast DS DECLR E) | (call E)
STO   := global | static | extern | tls | local | slocal | param
OP    := add|sub|mul|div|mod|and|or|xor|shl|shr|preinc|predec|postinc|postdec
-/
import ChibiVerif.Model.C16Qual
import ChibiVerif.Model.C16Declr
import ChibiVerif.Spec.C16QualSpec
import ChibiVerif.Model.C16Typing
import ChibiVerif.Model.Codegen

namespace ChibiVerif.Driver.C16Q
open ChibiVerif ChibiVerif.C16Qual ChibiVerif.Ast

/-! ### reading a case -/

def primOf? : String → Option Prim
  | "bool" => some .bool | "char" => some .char | "uchar" => some .uchar | "short" => some .short
  | "ushort" => some .ushort | "int" => some .int | "uint" => some .uint | "long" => some .long
  | "ulong" => some .ulong | "float" => some .float | "double" => some .double | "ldouble" => some .ldouble
  | _ => none

def opOf? : String → Option UpdOp
  | "add" => some .add | "sub" => some .sub | "mul" => some .mul | "div" => some .div | "mod" => some .mod
  | "and" => some .band | "or" => some .bor | "xor" => some .bxor | "shl" => some .shl | "shr" => some .shr
  | "preinc" => some .preInc | "predec" => some .preDec | "postinc" => some .postInc | "postdec" => some .postDec
  | _ => none

def asBool01 : Sexp → Except String Bool
  | .atom "0" => .ok false
  | .atom "1" => .ok true
  | _ => .error "expected 0 or 1"

def asName : Sexp → Except String String
  | .atom a => .ok a
  | _ => .error "expected a name"

def pqualOf? : Sexp → Except String PQual
  | .atom "const" => .ok .const | .atom "volatile" => .ok .volatile | .atom "restrict" => .ok .restrict
  | .atom "__restrict" => .ok .restrict2 | .atom "__restrict__" => .ok .restrict3 | .atom "_Atomic" => .ok .atomic
  | _ => .error "bad pointer qualifier"

def readDeclr : Nat → Sexp → Except String Declr
  | 0, _ => .error "fuel"
  | _, .atom "n" => .ok .name
  | k + 1, .list (.atom "p" :: d :: qs) => do pure (.ptr (← readDeclr k d) (← qs.mapM pqualOf?))
  | k + 1, .list [.atom "a", d, n] => do pure (.arr (← readDeclr k d) (← asNat n))
  | k + 1, .list [.atom "f", d] => do pure (.fn (← readDeclr k d))
  | k + 1, .list [.atom "g", d] => do pure (.paren (← readDeclr k d))
  | _, _ => .error "bad declarator"

mutual
def readSpec : Nat → Sexp → Except String TSpec
  | 0, _ => .error "fuel"
  | _, .atom "void" => .ok .void
  | _, .atom "enum" => .ok .enum
  | _, .atom a => match primOf? a with
    | some p => .ok (.prim p)
    | none => .error s!"bad specifier {a}"
  | _, .list [.atom "tdef", n] => do pure (.tdef (← asName n))
  | _, .list [.atom "struct", t] => do pure (.agg false (← asName t))
  | _, .list [.atom "union", t] => do pure (.agg true (← asName t))
  | k + 1, .list [.atom "typeofT", .list [kw, s], d] => do
    pure (.typeofT (← readSpec k s) (← asBool01 kw) (← readDeclr (k + 1) d))
  | k + 1, .list [.atom "atomicOf", .list [kw, s], d] => do
    pure (.atomicOf (← readSpec k s) (← asBool01 kw) (← readDeclr (k + 1) d))
  | k + 1, .list [.atom "typeofE", e] => do pure (.typeofE (← readExpr k e))
  | _, _ => .error "bad specifier"
def readExpr : Nat → Sexp → Except String Expr
  | 0, _ => .error "fuel"
  | _, .list [.atom "v", n] => do pure (.var (← asName n))
  | k + 1, .list [.atom "par", e] => do pure (.par (← readExpr k e))
  | k + 1, .list [.atom "deref", e] => do pure (.deref (← readExpr k e))
  | k + 1, .list [.atom "addr", e] => do pure (.addr (← readExpr k e))
  | k + 1, .list [.atom "mem", e, m] => do pure (.mem (← readExpr k e) (← asName m))
  | k + 1, .list [.atom "arrow", e, m] => do pure (.arrow (← readExpr k e) (← asName m))
  | k + 1, .list [.atom "idx", e, n] => do pure (.idx (← readExpr k e) (← asNat n))
  | k + 1, .list [.atom "add", e, n] => do pure (.add (← readExpr k e) (← asNat n))
  | k + 1, .list [.atom "cast", .list [kw, s], d, e] => do
    pure (.cast (← readSpec k s) (← asBool01 kw) (← readDeclr (k + 1) d) (← readExpr k e))
  | k + 1, .list [.atom "call", e] => do pure (.call (← readExpr k e))
  | _, _ => .error "bad expression"
end

def FUEL : Nat := 200

/-- a declaration with what only the printer needs (the storage class) -/
structure RDecl where
  decl : Decl
  sto : String := ""
  deriving Inhabited

def readMember : Sexp → Except String MemberDecl
  | .list [n, .list [kw, s], d, bf] => do
    pure { name := ← asName n, spec := ← readSpec FUEL s, kw := ← asBool01 kw, d := ← readDeclr FUEL d,
           bitfield := ← asBool01 bf }
  | _ => .error "bad member"

def readDecl : Sexp → Except String RDecl
  | .list [.atom "typedef", n, .list [kw, s], d] => do
    pure { decl := .typedef_ (← asName n) (← readSpec FUEL s) (← asBool01 kw) (← readDeclr FUEL d) }
  | .list [.atom "var", .atom sto, n, .list [kw, s], d] => do
    let nm ← asName n
    let sp ← readSpec FUEL s
    let k ← asBool01 kw
    let dd ← readDeclr FUEL d
    pure { decl := if sto == "param" then .param nm sp k dd else .var nm sp k dd, sto }
  | .list (.atom "struct" :: t :: ms) => do pure { decl := .aggDef false (← asName t) (← ms.mapM readMember) }
  | .list (.atom "union" :: t :: ms) => do pure { decl := .aggDef true (← asName t) (← ms.mapM readMember) }
  | _ => .error "bad declaration"

structure Case where
  decls : List RDecl
  op : UpdOp
  e : Expr

def readCase (line : String) : Except String Case := do
  match ← parseSexps line with
  | [.list [.atom "case", .list (.atom "decls" :: ds), .list [.atom "upd", .atom op, e]]] =>
    let some o := opOf? op | .error "bad operator"
    pure { decls := ← ds.mapM readDecl, op := o, e := ← readExpr FUEL e }
  | _ => .error "bad case"

/-! ### printing the case as C -/

def primC : Prim → String
  | .bool => "_Bool" | .char => "char" | .uchar => "unsigned char" | .short => "short" | .ushort => "unsigned short"
  | .int => "int" | .uint => "unsigned int" | .long => "long" | .ulong => "unsigned long" | .float => "float"
  | .double => "double" | .ldouble => "long double"

def pqualC : PQual → String
  | .const => "const" | .volatile => "volatile" | .restrict => "restrict" | .restrict2 => "__restrict"
  | .restrict3 => "__restrict__" | .atomic => "_Atomic"

/-- a qualifier is printed with a blank on either side (it is a keyword; every other token is a punctuator, a number
    or the identifier, which is only ever preceded by a punctuator or a qualifier) -/
def tokC (name : String) : C16Declr.DTok → String
  | .star => "*" | .lp => "(" | .rp => ")" | .ident => name | .lb => "[" | .num n => toString n | .rb => "]" | .void_ => "void"
  | .qual q => " " ++ pqualC q ++ " "

/-- the declarator around `name` (empty for a type name): the text of the token list `C16Declr.toks d`, the very list
    theorem `C16_declarator_tokens` is about -/
def declrC (name : String) (d : Declr) : String := String.join ((C16Declr.toks d).map (tokC name))

mutual
def specC : TSpec → String
  | .prim p => primC p
  | .void => "void"
  | .enum => "enum E0"
  | .tdef n => n
  | .agg u t => (if u then "union " else "struct ") ++ t
  | .typeofT s kw d => "typeof(" ++ (if kw then "_Atomic " else "") ++ specC s ++ " " ++ declrC "" d ++ ")"
  | .typeofE e => "typeof(" ++ exprC e ++ ")"
  | .atomicOf s kw d => "_Atomic(" ++ (if kw then "_Atomic " else "") ++ specC s ++ " " ++ declrC "" d ++ ")"
def exprC : Expr → String
  | .var x => x
  | .par e => "(" ++ exprC e ++ ")"
  | .deref e => "(*" ++ exprC e ++ ")"
  | .addr e => "(&" ++ exprC e ++ ")"
  | .mem e m => exprC e ++ "." ++ m
  | .arrow e m => exprC e ++ "->" ++ m
  | .idx e i => exprC e ++ "[" ++ toString i ++ "]"
  | .add e i => "(" ++ exprC e ++ " + " ++ toString i ++ ")"
  | .cast s kw d e => "((" ++ (if kw then "_Atomic " else "") ++ specC s ++ " " ++ declrC "" d ++ ")" ++ exprC e ++ ")"
  | .call e => exprC e ++ "()"
end

def dsC (s : TSpec) (kw : Bool) : String := (if kw then "_Atomic " else "") ++ specC s

def memberC (m : MemberDecl) : String :=
  dsC m.spec m.kw ++ " " ++ declrC m.name m.d ++ (if m.bitfield then " : 3" else "") ++ "; "

def stoC : String → String
  | "static" | "slocal" => "static "
  | "extern" => "extern "
  | "tls" => "_Thread_local "
  | _ => ""

def declC (r : RDecl) : String :=
  match r.decl with
  | .typedef_ n s kw d => "typedef " ++ dsC s kw ++ " " ++ declrC n d ++ "; "
  | .var n s kw d => stoC r.sto ++ dsC s kw ++ " " ++ declrC n d ++ "; "
  | .param n s kw d => dsC s kw ++ " " ++ declrC n d
  | .aggDef u t ms => (if u then "union " else "struct ") ++ t ++ " { " ++ String.join (ms.map memberC) ++ "}; "

def updC (op : UpdOp) (e : Expr) : String :=
  let x := exprC e
  match op with
  | .add => x ++ " += 1" | .sub => x ++ " -= 1" | .mul => x ++ " *= 3" | .div => x ++ " /= 1" | .mod => x ++ " %= 5"
  | .band => x ++ " &= 6" | .bor => x ++ " |= 4" | .bxor => x ++ " ^= 5" | .shl => x ++ " <<= 1" | .shr => x ++ " >>= 1"
  | .preInc => "++" ++ x | .preDec => "--" ++ x | .postInc => x ++ "++" | .postDec => x ++ "--"

def isFileScope (r : RDecl) : Bool :=
  match r.decl with
  | .typedef_ .. | .aggDef .. => true
  | .var .. => r.sto == "global" || r.sto == "static" || r.sto == "extern" || r.sto == "tls"
  | .param .. => false

def isParam (r : RDecl) : Bool :=
  match r.decl with
  | .param .. => true
  | _ => false

def caseC (c : Case) : String :=
  let file := c.decls.filter isFileScope
  let params := c.decls.filter isParam
  let locals := c.decls.filter fun r => !isFileScope r && !isParam r
  "enum E0 { E0A, E0B }; " ++ String.join (file.map declC) ++
  "void f(" ++ (if params.isEmpty then "void" else ", ".intercalate (params.map declC)) ++ ") { " ++
  String.join (locals.map declC) ++ updC c.op c.e ++ "; }"

/-! ### canonical type strings -/

def primS : Prim → String
  | .bool => "bool" | .char => "char" | .uchar => "uchar" | .short => "short" | .ushort => "ushort" | .int => "int"
  | .uint => "uint" | .long => "long" | .ulong => "ulong" | .float => "float" | .double => "double" | .ldouble => "ldouble"

def at_ (a : Bool) : String := if a then "@" else ""

/-- `under` = below a pointer (aggregates are then not expanded: they may be recursive) -/
def tyS (env : Env) : Nat → Bool → C16Qual.Ty → String
  | 0, _, _ => "..."
  | _, _, .num p a => primS p ++ at_ a
  | _, _, .enum a => "enum" ++ at_ a
  | _, _, .void a => "void" ++ at_ a
  | k + 1, _, .ptr b a => "ptr" ++ at_ a ++ "(" ++ tyS env k true b ++ ")"
  | k + 1, u, .arr b n a => "arr" ++ toString n ++ at_ a ++ "(" ++ tyS env k u b ++ ")"
  | k + 1, u, .fn r a => "fn" ++ at_ a ++ "(" ++ tyS env k u r ++ ")"
  | k + 1, u, .agg un tag a =>
    let kw := if un then "union" else "struct"
    match env.tags.lookup tag with
    | some (_, ms) =>
      if u then kw ++ "#" ++ toString ms.length ++ at_ a
      else kw ++ "{" ++ ",".intercalate (ms.map fun m => m.name ++ ":" ++ tyS env k false m.ty ++ (if m.bitfield then ":bf" else "")) ++ "}" ++ at_ a
    | none => kw ++ "?" ++ at_ a

def pathS : Except Diag Path → String
  | .ok (.casLoop n) => s!"cas:{n}"
  | .ok .plainMember => "member"
  | .ok .plainDeref => "deref"
  | .ok .plainIncDec => "incdec"
  | .error d => "diag:" ++ d.tag

def declName (r : RDecl) : Option String :=
  match r.decl with
  | .var n .. => if r.sto == "slocal" then none else some n
  | .param n .. => some n
  | _ => none

def specSide (c : Case) : String :=
  match C16QualSpec.specDecls {} (c.decls.map (·.decl)) with
  | none => "spec=decls-none"
  | some senv =>
    match C16QualSpec.typeOf senv c.e with
    | none => "spec=expr-none"
    | some r => s!"spec={if r.lv then "lv" else "rv"}{if r.ty.isAtomic then ":atomic" else ""}{if r.bf then ":bf" else ""}" ++
        (match r.ty.rmwSize? with | some n => s!":rmw{n}" | none => "")

def qualAnswer (line : String) : String :=
  match readCase line with
  | .error e => "bad-case " ++ e
  | .ok c =>
    let ctext := caseC c
    match elabDecls {} (c.decls.map (·.decl)) with
    | .error d => s!"C={ctext}\ttypes=\tpath=diag:{d.tag}\t{specSide c}"
    | .ok env =>
      let names := c.decls.filterMap declName
      let types := names.map fun n => n ++ "=" ++ (match env.vars.lookup n with | some t => tyS env 40 false t | none => "?")
      s!"C={ctext}\ttypes={";".intercalate types}\tpath={pathS (elabUpdate env c.op c.e)}\t{specSide c}"

/-! ### the same fields from the AST dump of the real parser -/

def primOfTy (t : Ast.Ty) : String :=
  match t.kind with
  | .bool => "bool"
  | .char => if t.isUnsigned then "uchar" else "char"
  | .short => if t.isUnsigned then "ushort" else "short"
  | .int => if t.isUnsigned then "uint" else "int"
  | .long => if t.isUnsigned then "ulong" else "long"
  | .float => "float" | .double => "double" | .ldouble => "ldouble" | .enum => "enum" | .void => "void"
  | _ => "?"

def dumpTyS (types : List Ast.Ty) : Nat → Bool → Int → String
  | 0, _, _ => "..."
  | k + 1, u, id =>
    match (if id < 0 then none else types[id.toNat]?) with
    | none => "NULL"
    | some t =>
      match t.kind with
      | .ptr => "ptr" ++ at_ t.isAtomic ++ "(" ++ dumpTyS types k true t.base ++ ")"
      | .array => "arr" ++ toString t.arrayLen ++ at_ t.isAtomic ++ "(" ++ dumpTyS types k u t.base ++ ")"
      | .func => "fn" ++ at_ t.isAtomic ++ "(" ++ dumpTyS types k u t.returnTy ++ ")"
      | .vla => "vla"
      | .struct | .union =>
        let kw := if t.kind == .union then "union" else "struct"
        if u then kw ++ "#" ++ toString t.members.length ++ at_ t.isAtomic
        else kw ++ "{" ++ ",".intercalate (t.members.map fun m =>
          m.name.getD "" ++ ":" ++ dumpTyS types k false m.ty ++ (if m.isBitfield then ":bf" else "")) ++ "}" ++ at_ t.isAtomic
      | _ => primOfTy t ++ at_ t.isAtomic

def hasCas : Nat → Node → Bool
  | 0, _ => false
  | k + 1, n =>
    match n with
    | .cas .. => true
    | .not _ a | .exprStmt _ a | .cast _ a => hasCas k a
    | .do_ _ t c _ _ => hasCas k t || hasCas k c
    | _ => false

def casWidth (types : List Ast.Ty) : Nat → Node → Option Int
  | 0, _ => none
  | k + 1, n =>
    match n with
    | .cas _ addr _ _ =>
      (addr.ty?).bind fun a => (if a.base < 0 then none else types[a.base.toNat]?).map (·.size)
    | .not _ a | .exprStmt _ a | .cast _ a => casWidth types k a
    | .do_ _ _ c _ _ => casWidth types k c
    | _ => none

/-- the shape of the node an update expression was rewritten to -/
def classify (types : List Ast.Ty) : Nat → Node → String
  | 0, _ => "?"
  | k + 1, n =>
    match n with
    | .cast _ a => classify types k a                       -- `(typeof A)(... )` of new_inc_dec, conversions
    | .binop _ _ a _ => classify types k a                  -- `(A += 1) - 1`
    | .stmtExpr _ body =>
      match body.toList.find? (fun s => match s with | .do_ .. => true | _ => false) with
      | some d => if hasCas 8 d then (match casWidth types 8 d with | some w => s!"cas:{w}" | none => "cas:?") else "stmtexpr"
      | none => "stmtexpr"
    | .comma _ (.assign _ (.var ..) _) rest =>
      match rest with
      | .assign _ (.deref _ (.var ..)) _ => "deref"
      | .assign _ (.member _ (.deref _ (.var ..)) _) _ => "member"
      | .comma _ (.assign _ (.var ..) _) (.comma _ (.assign _ (.deref ..) _) (.var ..)) => "incdec"
      | _ => "comma?"
    | _ => "?"

def lastStmt : Node → Option Node
  | .block _ body => body.toList.getLast?
  | _ => none

def qualDumpLine (path : String) (names : List String) : IO String := do
  let text ← IO.FS.readFile path
  match parseDump text with
  | .error e => return s!"dump-error {e}"
  | .ok prog =>
    let some f := prog.prog.find? (fun o => o.v.name == some "f" && o.v.isFunction) | return "no-function-f"
    let globals := prog.prog.map (·.v)
    let scope := f.params ++ f.locals ++ globals
    let types := names.map fun n =>
      n ++ "=" ++ (match scope.find? (fun v => v.name == some n) with
        | some v => (match v.ty with | some t => dumpTyS prog.types 40 false t.id | none => "NULL")
        | none => "?")
    let path := match lastStmt f.body with
      | some (.exprStmt _ x) => classify prog.types 12 x
      | _ => "no-update-statement"
    return s!"types={";".intercalate types}\tpath={path}"

def qualDump (path : String) (names : List String) : IO UInt32 := do
  IO.println (← qualDumpLine path names)
  return 0

/-- `qualdumps`: one `<dumpfile> <names>` per input line -/
partial def qualDumps (h : IO.FS.Stream) : IO UInt32 := do
  let line ← h.getLine
  if line.isEmpty then return 0
  match (line.trimAscii.toString.splitOn " ").filter (· ≠ "") with
  | [path, names] => IO.println (← qualDumpLine path ((names.splitOn ",").filter (· ≠ "")))
  | [path] => IO.println (← qualDumpLine path [])
  | _ => IO.println "bad-op"
  qualDumps h

/-! ### ND_CAS / ND_EXCH nodes of a dump against Model/C16Typing and the two code-generation models -/

mutual
def collect : Nat → Node → List Node
  | 0, _ => []
  | k + 1, n =>
    (match n with | .cas .. | .exch .. => [n] | _ => []) ++
    (match n with
     | .binop _ _ a b | .assign _ a b | .comma _ a b | .logand _ a b | .logor _ a b | .exch _ a b | .do_ _ a b _ _ => collect k a ++ collect k b
     | .neg _ a | .member _ a _ | .addr _ a | .deref _ a | .not _ a | .bitnot _ a | .ret _ a | .gotoExpr _ a
     | .exprStmt _ a | .cast _ a | .case_ _ _ _ _ a | .label _ _ _ a => collect k a
     | .cond _ a b c | .if_ _ a b c | .cas _ a b c => collect k a ++ collect k b ++ collect k c
     | .for_ _ a b c d _ _ => collect k a ++ collect k b ++ collect k c ++ collect k d
     | .switch_ _ a b _ _ _ => collect k a ++ collect k b
     | .block _ l | .stmtExpr _ l => collectL k l
     | .funcall _ a _ _ l => collect k a ++ collectL k l
     | _ => [])
def collectL : Nat → NodeList → List Node
  | 0, _ => []
  | _, .nil => []
  | k + 1, .cons n r => collect k n ++ collectL k r
end

def linesS (ls : List Asm.Line) : String := " | ".intercalate (ls.map fun l => l.render.trimAscii.toString)

def envOf (prog : Program) : Codegen.Env := { fpic := prog.fpic, types := prog.types }

def casNodeLine (prog : Program) : Node → String
  | .cas _ addr old new =>
    match C16Typing.casCheck prog.types addr.ty? old.ty? with
    | .error d => "cas check=" ++ d.tag
    | .ok (ab, ob) =>
      let wf := C16Typing.SizeWf ab && C16Typing.SizeWf ob
      match C16Typing.widthOf ab with
      | none => s!"cas check=ok wf={wf} width=none"
      | some w =>
        let arm := Codegen.casArm (envOf prog) (pure ()) addr.ty? (pure ()) old.ty? (pure ()) new.ty? {}
        let want := [Atomics.pushRax] ++ Atomics.flonumToRax w (C16Typing.kindOf ab) ++ [Atomics.pushRax] ++
          Atomics.casArmLines w (C16Typing.kindOf ob)
        let same := match arm with | .ok (_, _, ls) => decide (ls = want) | .error _ => false
        s!"cas check=ok wf={wf} bytes={w.bytes} oldbytes={ob.size} newkind-ok={(new.ty?.map (·.kind)) == some ab.kind} arm={same} :: {linesS want}"
  | .exch _ lhs _ =>
    match C16Typing.exchCheck prog.types lhs.ty? with
    | .error d => "exch check=" ++ d.tag
    | .ok ab =>
      match C16Typing.widthOf ab with
      | none => s!"exch check=ok wf={C16Typing.SizeWf ab} width=none"
      | some w =>
        let arm := Codegen.exchArm (envOf prog) (pure ()) lhs.ty? (pure ()) {}
        let want := [Atomics.pushRax] ++ Atomics.xchgLines w (C16Typing.kindOf ab)
        let same := match arm with | .ok (_, _, ls) => decide (ls = want) | .error _ => false
        s!"exch check=ok wf={C16Typing.SizeWf ab} bytes={w.bytes} arm={same} :: {linesS want}"
  | _ => "?"

def casNodes (path : String) : IO UInt32 := do
  let text ← IO.FS.readFile path
  match parseDump text with
  | .error e => IO.println s!"dump-error {e}"; return 0
  | .ok prog =>
    let badWf := prog.types.filter fun t => !C16Typing.SizeWf t
    IO.println s!"types={prog.types.length} sizewf-violations={badWf.length}"
    for o in prog.prog do
      for n in collect 400 o.body do
        IO.println s!"{o.v.name.getD "?"} {casNodeLine prog n}"
    return 0

/-! ### described operand types against `casCheck` -/

/-- `int`, `p:int`, `p:ldouble`, `p:struct4`, `p:arr3`, `p:void`, `p:p` (pointer to pointer) ... → a tiny type table;
    returns (table, id of the type) -/
def mkTy (id : Int) (kind : TyKind) (size : Int) (uns : Bool := false) (base : Int := -1) : Ast.Ty :=
  { id, kind, size, align := 1, isUnsigned := uns, isAtomic := false, base, arrayLen := 0, returnTy := -1,
    isVariadic := false, isFlexible := false, isPacked := false, vlaSize := -1, params := [], members := [] }

def scalarDesc (id : Int) : String → Option Ast.Ty
  | "bool" => some (mkTy id .bool 1) | "char" => some (mkTy id .char 1) | "uchar" => some (mkTy id .char 1 true)
  | "short" => some (mkTy id .short 2) | "ushort" => some (mkTy id .short 2 true) | "int" => some (mkTy id .int 4)
  | "uint" => some (mkTy id .int 4 true) | "long" => some (mkTy id .long 8) | "ulong" => some (mkTy id .long 8 true)
  | "float" => some (mkTy id .float 4) | "double" => some (mkTy id .double 8) | "ldouble" => some (mkTy id .ldouble 16)
  | "enum" => some (mkTy id .enum 4) | "void" => some (mkTy id .void 1)
  | "p" => some (mkTy id .ptr 8 true 0)       -- a pointer (to whatever type 0 is)
  | s =>
    if s.startsWith "struct" then (s.drop 6).toString.toNat?.map fun n => mkTy id .struct n
    else if s.startsWith "union" then (s.drop 5).toString.toNat?.map fun n => mkTy id .union n
    else if s.startsWith "arr" then (s.drop 3).toString.toNat?.map fun n => mkTy id .array n false 0
    else none

/-- the argument `p:T` is a pointer to T (type 2k+1 → base 2k+2 ...); `T` alone is a non-pointer argument -/
def descTy (slot : Int) (d : String) : Option (List Ast.Ty × Ast.Ty) :=
  match d.splitOn ":" with
  | ["p", t] => (scalarDesc (slot + 1) t).map fun b => ([mkTy slot .ptr 8 true (slot + 1), b], mkTy slot .ptr 8 true (slot + 1))
  | [t] => (scalarDesc slot t).map fun b => ([b, mkTy (slot + 1) .void 1], b)
  | _ => none

def casTypeAnswer (ws : List String) : String :=
  match ws with
  | [a, o] =>
    match descTy 1 a, descTy 3 o with
    | some (ta, aty), some (to, oty) =>
      let table := [mkTy 0 .int 4] ++ ta ++ to
      (match C16Typing.casCheck table (some aty) (some oty) with
       | .ok (ab, _) => s!"ok {ab.size}"
       | .error d => d.tag) ++ " / " ++
      (match C16Typing.exchCheck table (some aty) with
       | .ok ab => s!"ok {ab.size}"
       | .error d => d.tag)
    | _, _ => "bad-op"
  | _ => "bad-op"

partial def lineLoop (f : String → String) (h : IO.FS.Stream) : IO UInt32 := do
  let line ← h.getLine
  if line.isEmpty then return 0
  let l := line.trimAscii.toString
  if l.isEmpty then lineLoop f h
  else
    IO.println (f l)
    lineLoop f h

def main (sub : String) (args : List String) : IO UInt32 := do
  match sub, args with
  | "qual", _ => lineLoop qualAnswer (← IO.getStdin)
  | "castype", _ => lineLoop (fun l => casTypeAnswer ((l.splitOn " ").filter (· ≠ ""))) (← IO.getStdin)
  | "qualdump", [path, names] => qualDump path ((names.splitOn ",").filter (· ≠ ""))
  | "qualdump", [path] => qualDump path []
  | "qualdumps", _ => qualDumps (← IO.getStdin)
  | "casnodes", [path] => casNodes path
  | _, _ => IO.eprintln "usage: drv_c16 qual | castype | qualdump <dump> <names> | casnodes <dump>"; return 2

end ChibiVerif.Driver.C16Q
