/- `drv_c20 scope <dumpfile>`: evaluate the hypotheses of the C20 theorems on a real AST dump.
   One line per function that gets code:
     fn <name> typed <0|1> stmts <n> in_scope <k> depth_scope <0|1>
   `typed` = `typedS` (the typing side condition of the full statements) holds for the body;
   `stmts` = number of statements in the body, `in_scope` = those the `_partial` theorems cover;
   `depth_scope` = `okN` (the scope of C20_depth_partial / C20_assert) holds for the body. -/
import ChibiVerif.Model.Codegen
import ChibiVerif.Model.C20Scope

namespace ChibiVerif.Driver
open ChibiVerif ChibiVerif.C20Scope

def scopeMain (args : List String) : IO UInt32 := do
  match args with
  | [path] =>
    let text ← IO.FS.readFile path
    match Ast.parseDump text with
    | .error e =>
      IO.eprintln s!"parse error: {e}"
      return 3
    | .ok prog =>
      for fn in prog.prog do
        if Codegen.emitsCode fn then
          match Codegen.fnEnv prog fn with
          | .error e => IO.println s!"fn {Codegen.cstr fn.v.name} env-failure {e}"
          | .ok (env, _) =>
            let (n, k) := countStmts env fn.body
            IO.println s!"fn {Codegen.cstr fn.v.name} typed {if typedS env fn.body then 1 else 0} stmts {n} in_scope {k} depth_scope {if okN fn.body then 1 else 0}"
      return 0
  | _ =>
    IO.eprintln "usage: drv_c20 scope <dumpfile>"
    return 2

end ChibiVerif.Driver
