/- line-protocol driver for C16: `drv_c16 seq|opfn|fold|run` (see Driver/AtomicsCmd.lean) and
   `drv_c16 qual|castype|qualdump|qualdumps|casnodes` (see Driver/C16QualCmd.lean).
   Core Lean only (nothing imported here may import Mathlib, or the executable will not link). -/
import ChibiVerif.Driver.AtomicsCmd
import ChibiVerif.Driver.C16QualCmd

def main (args : List String) : IO UInt32 := do
  match args with
  | sub :: rest =>
    if sub == "qual" || sub == "castype" || sub == "qualdump" || sub == "qualdumps" || sub == "casnodes" then
      ChibiVerif.Driver.C16Q.main sub rest
    else ChibiVerif.Driver.atomicsMain sub
  | _ =>
    IO.eprintln "usage: drv_c16 seq|opfn|fold|run|qual|castype|qualdump|casnodes"
    return 2
