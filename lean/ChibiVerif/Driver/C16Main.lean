/- line-protocol driver for C16: `drv_c16 seq|opfn|fold|run` (see Driver/AtomicsCmd.lean).
   Core Lean only (nothing imported here may import Mathlib, or the executable will not link). -/
import ChibiVerif.Driver.AtomicsCmd

def main (args : List String) : IO UInt32 := do
  match args with
  | sub :: _ => ChibiVerif.Driver.atomicsMain sub
  | _ =>
    IO.eprintln "usage: drv_c16 seq|opfn|fold|run"
    return 2
