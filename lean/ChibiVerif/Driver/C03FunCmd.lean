/-
`drv_c03 fun`: whole functions of the integer fragment (Model/C03Fun.lean, theorem `C03_function_correct_partial`).
Core Lean only.

One function per input line:

  `<tys> <offs> <toffs|-> <N> <R> <c0> <u0> <fname> <vals> <fuel> | <statement in prefix notation>`

  tys / offs : types and frame offsets of the variables `v0 v1 …` (comma separated);  toffs : offsets of the hidden
  temporaries in order of creation;  N : `sub $N, %rsp`;  R : return type;  c0 / u0 : `count()` / `new_unique_name()` at the
  first line of the body;  vals : initial values;  fuel : fuel of the abstract machine.

  statements: `SKIP` | `X e` | `S s s` | `IF e s s` | `WHILE e s` | `FOR e|- e e|- s` (first clause or `-`, condition, third clause or `-`) | `DO s e` | `SW e s` | `CASE lo hi s` | `DEF s` | `BRK` |
  `CONT` | `RET e`  with expressions in the prefix notation of drv_c01 (`parseE`).

Answer: `ok <K> <c1> <u1> <noConflict> <layoutOK> <fresh> <depth> | <text of the code, lines joined by ;;> | <abstract machine> | <machine>`
  abstract machine (`execF`):  `ret <v> <vals>` | `normal <vals>` | `timeout` | `ub` | `stray`
  machine (`runF` on the code from a frame holding the initial values, `%rsp` = 0x100000, `%rbp` = `%rsp + N`):
                               `ok <%rax> <vals read back from the frame>` | `fault`
or `none <noConflict> | - | <abstract machine> | fault` (not compiled: the abstract machine's answer is still given) / `bad …`.
-/
import ChibiVerif.Model.C03Fun
import ChibiVerif.Driver.C01Cmd

namespace ChibiVerif.Driver.C03Fun
open ChibiVerif.Spec.IntSpec ChibiVerif.C03Fun ChibiVerif.X86 ChibiVerif.Driver.C01

/-- prefix-notation parser for statements; fuel = number of tokens -/
def parseS : Nat → List String → Option (FStmt × List String)
  | 0, _ => none
  | fuel + 1, toks =>
    match toks with
    | "SKIP" :: rest => some (.skip, rest)
    | "BRK" :: rest => some (.brk, rest)
    | "CONT" :: rest => some (.cont, rest)
    | "X" :: rest => do
        let (e, r) ← parseE (rest.length + 1) rest
        some (.expr e, r)
    | "RET" :: rest => do
        let (e, r) ← parseE (rest.length + 1) rest
        some (.ret e, r)
    | "S" :: rest => do
        let (a, r1) ← parseS fuel rest
        let (b, r2) ← parseS fuel r1
        some (.seq a b, r2)
    | "IF" :: rest => do
        let (e, r0) ← parseE (rest.length + 1) rest
        let (a, r1) ← parseS fuel r0
        let (b, r2) ← parseS fuel r1
        some (.ifte e a b, r2)
    | "WHILE" :: rest => do
        let (e, r0) ← parseE (rest.length + 1) rest
        let (b, r1) ← parseS fuel r0
        some (.for_ none e none b, r1)
    | "FOR" :: rest => do
        -- `FOR <init|-> <cond> <inc|-> <body>`
        let (i0, ra) ← (match rest with
          | "-" :: r => some (none, r)
          | _ => (parseE (rest.length + 1) rest).map fun (x, r) => (some x, r))
        let (e, r0) ← parseE (ra.length + 1) ra
        let (i, r1) ← (match r0 with
          | "-" :: r => some (none, r)
          | _ => (parseE (r0.length + 1) r0).map fun (x, r) => (some x, r))
        let (b, r2) ← parseS fuel r1
        some (.for_ i0 e i b, r2)
    | "SW" :: rest => do
        let (e, r0) ← parseE (rest.length + 1) rest
        let (b, r1) ← parseS fuel r0
        some (.switch_ e b, r1)
    | "CASE" :: lo :: hi :: rest => do
        let (b, r1) ← parseS fuel rest
        some (.case_ (← lo.toInt?) (← hi.toInt?) b, r1)
    | "DEF" :: rest => do
        let (b, r1) ← parseS fuel rest
        some (.default_ b, r1)
    | "DO" :: rest => do
        let (b, r0) ← parseS fuel rest
        let (e, r1) ← parseE (r0.length + 1) r0
        some (.doWhile b e, r1)
    | _ => none

def valsText (vs : List Int) : String := if vs.isEmpty then "-" else ",".intercalate (vs.map toString)

/-- store the value `v` of type `t` at address `a` (little endian, two's complement) -/
def writeVal (s : State) (t : ITy) (a : BitVec 64) (v : Int) : State :=
  match t.size with
  | 1 => s.write8 a (BitVec.ofInt 8 v)
  | 2 => s.write16 a (BitVec.ofInt 16 v)
  | 4 => s.write32 a (BitVec.ofInt 32 v)
  | _ => s.write64 a (BitVec.ofInt 64 v)

def readVal (s : State) (t : ITy) (a : BitVec 64) : Int :=
  match t.size with
  | 1 => ofBits t (s.read8 a).toNat
  | 2 => ofBits t (s.read16 a).toNat
  | 4 => ofBits t (s.read32 a).toNat
  | _ => ofBits t (s.read64 a).toNat

def SP0 : Nat := 0x100000

def funLine (line : String) : String :=
  match line.splitOn "|" with
  | [hd, st] =>
    match words hd with
    | [ts, os, tos, ns, rs, cs, us, fname, vs, fs] =>
      let tys := (csv ts).map ITy.ofString?
      let offs := (csv os).map String.toInt?
      let toffs := (csv tos).map String.toInt?
      let vals := (csv vs).map String.toInt?
      if tys.any Option.isNone || offs.any Option.isNone || toffs.any Option.isNone || vals.any Option.isNone ||
          tys.length ≠ offs.length || tys.length ≠ vals.length then "bad env" else
      let tl := tys.filterMap id
      let ol := offs.filterMap id
      let tol := toffs.filterMap id
      let vl := vals.filterMap id
      let off : Nat → Int := fun i => ol.getD i 0
      let toff : Nat → Int := fun k => tol.getD k 0
      let toks := words st
      match parseS (toks.length + 1) toks, ITy.ofString? rs, cs.toNat?, us.toNat?, ns.toInt?, fs.toNat? with
      | some (body, []), some R, some c0, some u0, some N, some fuel =>
        let σ : Env := ⟨tl, vl⟩
        let spec := match execF R fuel body σ with
          | .done (.ret v) σ' => s!"ret {v} {valsText σ'.vals}"
          | .done .normal σ' => s!"normal {valsText σ'.vals}"
          | .done _ _ => "stray"
          | .timeout => "timeout"
          | .undef => "ub"
          | .unsupported => "unsupported"
        match compileFn tl off toff R c0 u0 body with
        | none => s!"none {b01 (noConflictF body)} | - | {spec} | fault"
        | some (prog, K, c1, u1) =>
          let nc := noConflictF body
          let lay := ChibiVerif.C01.layoutOK tl off toff K N
          let fresh := decide (defsF prog).Nodup
          let text := ";;".intercalate (prog.map (FI.text fname))
          let bp : BitVec 64 := BitVec.ofInt 64 (SP0 + N)
          let base : State := { regs := fun r => match r with
                                          | .rsp => BitVec.ofNat 64 SP0 | .rbp => bp | _ => 0#64,
                                mem := fun _ => 0#8 }
          let m0 := (List.range tl.length).foldl
            (fun s i => writeVal s (tl.getD i .i32) (bp + BitVec.ofInt 64 (off i)) (vl.getD i 0)) base
          let mach := match runF (64 * fuel + 100000) prog 0 m0 with
            | none => "fault"
            | some m =>
              let back := (List.range tl.length).map fun i => readVal m (tl.getD i .i32) (bp + BitVec.ofInt 64 (off i))
              s!"ok {(m.get .rax).toNat} {valsText back}"
          s!"ok {K} {c1} {u1} {b01 nc} {b01 lay} {b01 fresh} {depthF body} | {text} | {spec} | {mach}"
      | _, _, _, _, _, _ => "bad stmt"
    | _ => "bad header"
  | _ => "bad line"

def main (args : List String) : IO UInt32 := do
  let stdin ← IO.getStdin
  match args with
  | "fun" :: _ => loop stdin funLine
  | _ =>
    IO.eprintln "usage: drv_c03 fun"
    return 2

end ChibiVerif.Driver.C03Fun
