import ChibiVerif.Model.LineNo
import ChibiVerif.Spec.LineSpec

/-! line protocol of `drv_c18 lineno` (bytes and names are lower-case hex strings, `-` = empty; ids are small numbers):
  file <id> <name> <bytes>      enter a file (a `tokenize_file` call): → `file <id> no=<file_no> len=<text length> lf=<'\n' in text> text=<hex of the text tokenize() numbers, after convert_universal_chars>`
  dir <id> <off> <end> <N> [<name>]   `#line`-family directive whose first operand token (`start` in read_line_marker) is at file offset off and whose
                                terminating newline is at file offset end; N is the value of the (macro-expanded) operand: a LineMarker is pushed
                                → `dir line=<line_no of start> delta=<new line_delta> name=<display_name> markers=<number of markers of the file>`
  tok <id> <off>                ordinary token at file offset off, passed on now (line_marker_at its own line): → `tok line=<final line_no> name=<filename> fileno=<file_no> pos=<offset in text> byte=<byte there|-> raw=<line_no before delta> phys=<Spec.physLine> pend=<Spec.pendingSplices> start=<0|1> pline=<Spec.presumedLineAt over the directives given so far, by physical line> pfile=<Spec.presumedFileAt>`
  linemac <id> <off>            `__LINE__` whose outermost origin token is at off: → `line <value>`
  filemac <id> <off>            `__FILE__` likewise: → `file <display name>`
  synth <id> <off>              token synthesised (##, #, builtin) from the template token at off: → `synth line=<final line_no> fileno=<file_no> name=<file name>`
  addln <id> <off> <off> …      run add_line_numbers on these token starts (ascending) + the EOF token: → `addln <n> <n> … <n_eof>` | `crash null-tok`
  addlnt <id> <loc> <loc> …     run add_line_numbers on these token locs (offsets into the TEXT, as the tokenizer found them, EOF included): → `addln …` | `crash null-tok`
  errat <id> <off>              error_at's recount at the image of off → `errat <n> shown=<hex of the source line verror_at prints>`
  table                         → `table <no>:<name> …`   (the `.file` directives)
  reset                         → `reset` -/
namespace ChibiVerif.Driver.LineNoCmd
open ChibiVerif.LineNo

structure LnFile where
  id : Nat
  idx : Nat            -- index in `input_files`
  bytes : List Nat
  text : List Nat
  sdirs : List Spec.Line.Dir := []   -- the directives of the file for the SPEC: physical line where the directive ends, operand, name

structure LnState where
  files : Files := []
  ents : List LnFile := []

def hexDigit (c : Char) : Option Nat :=
  if '0' ≤ c ∧ c ≤ '9' then some (c.toNat - '0'.toNat)
  else if 'a' ≤ c ∧ c ≤ 'f' then some (c.toNat - 'a'.toNat + 10)
  else none

def parseHexAux : List Char → List Nat → Option (List Nat)
  | [], acc => some acc.reverse
  | [_], _ => none
  | a :: b :: r, acc =>
    match hexDigit a, hexDigit b with
    | some x, some y => parseHexAux r ((x * 16 + y) :: acc)
    | _, _ => none

def parseHex (s : String) : Option (List Nat) := if s = "-" then some [] else parseHexAux s.toList []

def hexOf (l : List Nat) : String :=
  if l.isEmpty then "-" else
  let d (n : Nat) : Char := if n < 10 then Char.ofNat (48 + n) else Char.ofNat (87 + n)
  String.ofList (l.flatMap (fun b => [d (b / 16), d (b % 16)]))

def strOfBytes (l : List Nat) : String := String.ofList (l.map Char.ofNat)
def bytesOfStr (s : String) : List Nat := s.toUTF8.toList.map (·.toNat)
def hexStr (s : String) : String := hexOf (bytesOfStr s)

def findEnt (st : LnState) (id : Nat) : Option LnFile := st.ents.find? (·.id == id)

def curFile (st : LnState) (e : LnFile) : File := getFile st.files (.input e.idx)

def lnStep (st : LnState) (ws : List String) : LnState × String :=
  match ws with
  | ["reset"] => ({}, "reset")
  | ["table"] => (st, "table " ++ " ".intercalate ((fileTable st.files).map (fun p => s!"{p.1}:{hexStr p.2}")))
  | ["file", id, name, hex] =>
    match id.toNat?, parseHex name, parseHex hex with
    | some id, some nm, some bytes =>
      let (fs, idx) := enterFile st.files (strOfBytes nm)
      let text := tokenizerText bytes
      ({ files := fs, ents := ⟨id, idx, bytes, text, []⟩ :: st.ents },
       s!"file {id} no={(getFile fs (.input idx)).fileNo} len={text.length} lf={countLF text} text={hexOf text}")
    | _, _, _ => (st, "bad-op")
  | "dir" :: id :: off :: eoff :: n :: rest =>
    match id.toNat?, off.toNat?, eoff.toNat?, n.toInt?, (match rest with | [] => some none | [h] => (parseHex h).map some | _ => none) with
    | some id, some off, some eoff, some n, some nm =>
      match findEnt st id with
      | none => (st, "bad-id")
      | some e =>
        let f := curFile st e
        let ln := lineNoOf e.text (finalPos e.bytes off)
        let f' := readLineMarker f ln n (nm.map strOfBytes)
        let e' := { e with sdirs := e.sdirs ++ [⟨Spec.Line.physLine e.bytes eoff, n, nm.map strOfBytes⟩] }
        ({ st with files := st.files.set e.idx f', ents := st.ents.map (fun x => if x.id == id then e' else x) },
         s!"dir line={ln} delta={f'.lineDelta} name={hexStr f'.displayName} markers={f'.markers.length}")
    | _, _, _, _, _ => (st, "bad-op")
  | "addln" :: id :: offs =>
    match id.toNat?, offs.mapM (·.toNat?) with
    | some id, some offs =>
      match findEnt st id with
      | none => (st, "bad-id")
      | some e =>
        match addLineNumbers e.text (offs.map (finalPos e.bytes) ++ [e.text.length]) with
        | .ok ls => (st, "addln " ++ " ".intercalate (ls.map toString))
        | .error _ => (st, "crash null-tok")
    | _, _ => (st, "bad-op")
  | "addlnt" :: id :: locs =>
    match id.toNat?, locs.mapM (·.toNat?) with
    | some id, some locs =>
      match findEnt st id with
      | none => (st, "bad-id")
      | some e =>
        match addLineNumbers e.text locs with
        | .ok ls => (st, "addln " ++ " ".intercalate (ls.map toString))
        | .error _ => (st, "crash null-tok")
    | _, _ => (st, "bad-op")
  | [cmd, id, off] =>
    match id.toNat?, off.toNat? with
    | some id, some off =>
      match findEnt st id with
      | none => (st, "bad-id")
      | some e =>
        let f := curFile st e
        let pos := finalPos e.bytes off
        match cmd with
        | "tok" =>
          match runFile e.text f [.tok pos] with
          | [.tok line name] =>
            let byte := match e.text[pos]? with | some b => toString b | none => "-"
            (st, s!"tok line={line} name={hexStr name} fileno={f.fileNo} pos={pos} byte={byte} raw={lineNoOf e.text pos} phys={Spec.Line.physLine e.bytes off} pend={Spec.Line.pendingSplices e.bytes off} start={if tokenStart e.bytes off then 1 else 0} pline={Spec.Line.presumedLineAt e.sdirs (Spec.Line.physLine e.bytes off)} pfile={hexStr (Spec.Line.presumedFileAt f.name e.sdirs (Spec.Line.physLine e.bytes off))}")
          | _ => (st, "internal")
        | "linemac" =>
          match runFile e.text f [.lineMac pos] with
          | [.line v] => (st, s!"line {v}")
          | _ => (st, "internal")
        | "filemac" =>
          match runFile e.text f [.fileMac pos] with
          | [.file s] => (st, s!"file {hexStr s}")
          | _ => (st, "internal")
        | "synth" =>
          let t := synthTok { file := .input e.idx, lineNo := lineNoOf e.text pos }
          let t' := finalize (passThrough st.files t)
          let (no, line) := locRecord st.files t'
          (st, s!"synth line={line} fileno={no} name={hexStr (diagPrefix st.files t').1}")
        | "errat" => (st, s!"errat {errorAtLine e.text pos} shown={hexOf (shownLine e.text pos)}")
        | _ => (st, "bad-op")
    | _, _ => (st, "bad-op")
  | _ => (st, "bad-op")

partial def lnLoop (h : IO.FS.Stream) (st : LnState) : IO UInt32 := do
  let line ← h.getLine
  if line.isEmpty then return 0
  let ws := (line.trimAscii.toString.splitOn " ").filter (· ≠ "")
  if ws.isEmpty then lnLoop h st
  else
    let (st', out) := lnStep st ws
    IO.println out
    lnLoop h st'

def linenoMain : IO UInt32 := do lnLoop (← IO.getStdin) {}

end ChibiVerif.Driver.LineNoCmd
