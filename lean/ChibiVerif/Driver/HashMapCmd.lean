import ChibiVerif.Model.HashMap

namespace ChibiVerif.Driver
open ChibiVerif.HashMap

def hmHash (k : String) : Nat := (ChibiVerif.Gen.HashMap.fnvHash k.toUTF8.toList).toNat

def showSlot : Slot String Nat → String
  | .empty => "E"
  | .tomb => "T"
  | .full k v => s!"{k}={v}"

/-- state line; the bucket dump is printed only for tables of at most 64 buckets
    (same rule in the C harness) -/
def showState (m : HM String Nat) : String :=
  let hd := s!"used={m.used} cap={m.buckets.length}"
  if m.buckets.length ≤ 64 then hd ++ " [" ++ " ".intercalate (m.buckets.map showSlot) ++ "]"
  else
    let live := (HM.liveEntries m.buckets).length
    let tombs := (m.buckets.filter (fun s => match s with | .tomb => true | _ => false)).length
    hd ++ s!" live={live} tombs={tombs}"

def showCrash : Crash → String
  | .unreachable => "crash unreachable"
  | .assertUsed => "crash assert-used"
  | .assertCap => "crash assert-cap"
  | .nestedRehash => "crash nested-rehash"

partial def hmLoop (h : IO.FS.Stream) (m : HM String Nat) : IO UInt32 := do
  let line ← h.getLine
  if line.isEmpty then return 0
  let ws := (line.trimAscii.toString.splitOn " ").filter (· ≠ "")
  match ws with
  | [] => hmLoop h m
  | ["put", k, v] =>
    match v.toNat? with
    | none => IO.println "bad-op"; hmLoop h m
    | some n =>
      match m.put hmHash k n with
      | .ok m' => IO.println s!"put {showState m'}"; hmLoop h m'
      | .error c => IO.println (showCrash c); return 0
  | ["del", k] =>
    match m.delete hmHash k with
    | .ok m' => IO.println s!"del {showState m'}"; hmLoop h m'
    | .error c => IO.println (showCrash c); return 0
  | ["get", k] =>
    match m.get hmHash k with
    | .ok (some v) => IO.println s!"get {v}"; hmLoop h m
    | .ok none => IO.println "get NULL"; hmLoop h m
    | .error c => IO.println (showCrash c); return 0
  | ["rehash"] =>
    -- `rehash(map)` called directly (the harness reaches the static function): any state, not only
    -- the ones in which the load test of get_or_insert_entry fires.  Not offered on the
    -- zero-initialised map (the C code would divide by a zero capacity).
    if m.buckets.isEmpty then do IO.println "bad-op"; hmLoop h m
    else match HM.rehash hmHash m with
      | .ok m' => IO.println s!"rehash {showState m'}"; hmLoop h m'
      | .error c => IO.println (showCrash c); return 0
  | ["reset"] => IO.println "reset"; hmLoop h HM.empty
  | _ => IO.println "bad-op"; hmLoop h m

def hashmapMain : IO UInt32 := do hmLoop (← IO.getStdin) HM.empty

end ChibiVerif.Driver
