/- line-protocol driver for C14: `drv_c14 trace` / `drv_c14 pair` (see Driver/DriverProcCmd.lean),
   `drv_c14 argv` / `drv_c14 deptext` / `drv_c14 parse` (see Driver/C14ArgvCmd.lean).
   Core Lean only (nothing imported here may import Mathlib, or the executable will not link). -/
import ChibiVerif.Driver.DriverProcCmd
import ChibiVerif.Driver.C14ArgvCmd

def main (args : List String) : IO UInt32 := do
  match args with
  | "trace" :: _ => ChibiVerif.Driver.DriverProcCmd.traceMain
  | "pair" :: _ => ChibiVerif.Driver.DriverProcCmd.pairMain
  | "argv" :: _ => ChibiVerif.Driver.C14ArgvCmd.argvMain
  | "deptext" :: _ => ChibiVerif.Driver.C14ArgvCmd.depMain
  | "parse" :: _ => ChibiVerif.Driver.C14ArgvCmd.parseMain
  | _ =>
    IO.eprintln "usage: drv_c14 trace|pair|argv|deptext|parse"
    return 2
