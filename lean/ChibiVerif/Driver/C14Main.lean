/- line-protocol driver for C14: `drv_c14 trace` / `drv_c14 pair` (see Driver/DriverProcCmd.lean).
   Core Lean only (nothing imported here may import Mathlib, or the executable will not link). -/
import ChibiVerif.Driver.DriverProcCmd

def main (args : List String) : IO UInt32 := do
  match args with
  | "trace" :: _ => ChibiVerif.Driver.DriverProcCmd.traceMain
  | "pair" :: _ => ChibiVerif.Driver.DriverProcCmd.pairMain
  | _ =>
    IO.eprintln "usage: drv_c14 trace|pair"
    return 2
