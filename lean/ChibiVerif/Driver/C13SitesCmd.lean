/- line protocol of drv_c13, sub-command `literal`: one text per input line, bytes as decimal numbers separated by blanks;
   the instrumented literal reader of Model/C13Sites.lean is run on it.  One output line:
   `ok int|flt|chr|str LEN` | `diag MSGID` | `overread INDEX` -/
import ChibiVerif.Model.C13Sites

namespace ChibiVerif.Driver.C13SitesCmd
open ChibiVerif.C13Sites ChibiVerif.Literals

def msgId : LitErr → String
  | .invalidUtf8 => "invalid_utf8"
  | .invalidHexEscape => "invalid_hex_escape"
  | .unclosedString => "unclosed_string"
  | .unclosedChar => "unclosed_char"
  | .invalidNumber => "invalid_number"
  | .nonStandardConcat => "non_standard_concat"
  | .unreachable => "unreachable"
  | .notALiteral => "not_a_literal"
  | .fuel => "fuel"

def render : R LitTok → String
  | .ok (.int _ _ n) => s!"ok int {n}"
  | .ok (.flt n) => s!"ok flt {n}"
  | .ok (.chr _ _ n) => s!"ok chr {n}"
  | .ok (.str t) => s!"ok str {t.len}"
  | .error (.lit e) => s!"diag {msgId e}"
  | .error (.overread i) => s!"overread {i}"

def parseLine (line : String) : List Byte :=
  (line.splitOn " ").filterMap (fun w => if w.isEmpty then none else w.toNat?.map (BitVec.ofNat 8))

partial def run (h : IO.FS.Stream) (out : IO.FS.Stream) : IO Unit := do
  let line ← h.getLine
  if line.isEmpty then return
  let l := line.trimAscii.toString
  out.putStrLn (render (lexLiteralI (parseLine l)))
  run h out

end ChibiVerif.Driver.C13SitesCmd
