/-
`drv_c08 declspec` / `drv_c08 layout` (model) and `drv_c08 specdecl` / `drv_c08 speclayout` (specification).

declspec / specdecl : one line = built-in type keywords separated by blanks (C spelling); answer `ok ty_long` | `diag`
layout / speclayout : one line = a type in prefix syntax
     T ::= p <ty_name> | e | ptr | a <len> T | f T | s <packed 0|1> <aligned n|-> <k> M*k | u <packed> <aligned> <k> M*k
     M ::= m <alignas n (0 = none)> <bit width|-> <named 0|1> T   |   M <bit width|-> <named 0|1> Ta T     (`_Alignas(Ta)`)
         | G <k> A*k <bit width|-> <named 0|1> T      with A ::= c <n> | t T     (k `_Alignas` specifiers in source order)
  layout32 / layout32strict : as `layout`, with every `int` operation of struct_decl / union_decl / array_of explicit
                      (Model/Layout32.lean): wrap-around (what the compiled code does; also `diag incomplete` for a member whose
                      aggregate type has a wrapped, negative size) / signed overflow reported as `fail overflow`
  regions           : one line = a type; answer `regions <k>*` / `regions -`: the known-finding regions (Spec/LayoutRegions
                      `Ty.inRegion`) some aggregate of the type lies in
  var / specvar     : one line = `<k> A*k T` : alignment of an object declared `_Alignas(..)* T x;`  answer `ok <align>`
  answer `ok <size> <align>` followed, for struct/union, by ` | <offset> <bit_offset>` per member
  (speclayout: ` | <first bit> <unit offset> <bit in unit>`), or `fail divzero`, or `diag align` / `diag bitfield`
  (model: the diagnostic of attribute_list / struct_members that comes first in source order; speclayout: `diag` when the
  specification rejects the declaration), or `bad-op`.
-/
import ChibiVerif.Model.Layout
import ChibiVerif.Spec.LayoutSpec
import ChibiVerif.Spec.LayoutRegions
import ChibiVerif.Model.Layout32

namespace ChibiVerif.Driver
open ChibiVerif.Layout ChibiVerif.Gen.Declspec

def kwOfString (s : String) : Option Kw := Kw.all.find? (fun k => k.spelling == s)
def tyOfString (s : String) : Option TyName := TyName.all.find? (fun t => t.cName == s)

def words (line : String) : List String := (line.trimAscii.toString.splitOn " ").filter (· ≠ "")

def optInt (s : String) : Option (Option Int) :=
  if s == "-" then some none else (s.toInt?).map some

mutual
  partial def parseTy : List String → Option (Ty × List String)
    | "p" :: n :: r => (tyOfString n).map fun t => (.prim t, r)
    | "e" :: r => some (.enum, r)
    | "ptr" :: r => some (.ptr, r)
    | "a" :: n :: r => do
      let len ← n.toInt?
      let (e, r') ← parseTy r
      pure (.arr e len, r')
    | "f" :: r => do
      let (e, r') ← parseTy r
      pure (.flex e, r')
    | "s" :: p :: al :: k :: r => do
      let al ← optInt al
      let k ← k.toNat?
      let (ms, r') ← parseMembers k r
      pure (.struct (p == "1") al ms, r')
    | "u" :: p :: al :: k :: r => do
      let al ← optInt al
      let k ← k.toNat?
      let (ms, r') ← parseMembers k r
      pure (.union (p == "1") al ms, r')
    | _ => none
  partial def parseAligns : Nat → List String → Option (Aligns × List String)
    | 0, r => some (.nil, r)
    | k+1, "c" :: n :: r => do
      let n ← n.toInt?
      let (rest, r') ← parseAligns k r
      pure (.const n rest, r')
    | k+1, "t" :: r => do
      let (t, r1) ← parseTy r
      let (rest, r') ← parseAligns k r1
      pure (.type t rest, r')
    | _, _ => none
  partial def parseMembers : Nat → List String → Option (Members × List String)
    | 0, r => some (.nil, r)
    | k+1, "m" :: aa :: w :: nm :: r => do
      let aa ← aa.toInt?
      let w ← optInt w
      let (t, r') ← parseTy r
      let (rest, r'') ← parseMembers k r'
      pure (.cons { bitWidth := w, named := nm == "1" } (if aa = 0 then .nil else .const aa .nil) t rest, r'')
    | k+1, "M" :: w :: nm :: r => do
      let w ← optInt w
      let (ta, r1) ← parseTy r
      let (t, r') ← parseTy r1
      let (rest, r'') ← parseMembers k r'
      pure (.cons { bitWidth := w, named := nm == "1" } (.type ta .nil) t rest, r'')
    | k+1, "G" :: n :: r => do
      let n ← n.toNat?
      let (as, r0) ← parseAligns n r
      match r0 with
      | w :: nm :: r1 => do
        let w ← optInt w
        let (t, r') ← parseTy r1
        let (rest, r'') ← parseMembers k r'
        pure (.cons { bitWidth := w, named := nm == "1" } as t rest, r'')
      | _ => none
    | _, _ => none
end

def showLayout (l : Layout) : String :=
  s!"ok {l.size} {l.align}" ++ String.join (l.placed.map fun p => s!" | {p.offset} {p.bitOffset}")

/-- `fail divzero` (SIGFPE in cc1) | `diag align` | `diag bitfield` (the two located diagnostics) -/
def showTyFail : TyFail → String
  | .divByZero => "fail divzero"
  | .badAlign => "diag align"
  | .bitfieldType => "diag bitfield"

def showSpecLayout (l : ChibiVerif.Spec.Layout.SLayout) : String :=
  s!"ok {l.size} {l.align}" ++ String.join (l.placed.map fun p => s!" | {p.firstBit} {p.unitOffset} {p.bitInUnit}")

partial def lineLoop (h : IO.FS.Stream) (f : String → String) : IO UInt32 := do
  let line ← h.getLine
  if line.isEmpty then return 0
  IO.println (f line)
  lineLoop h f

def declspecLine (line : String) : String :=
  match (words line).mapM kwOfString with
  | none => "bad-op"
  | some ks =>
    match declspecDecode ks with
    | .ok t => s!"ok {t.cName}"
    | .error .invalidType => "diag"

def specdeclLine (line : String) : String :=
  match (words line).mapM kwOfString with
  | none => "bad-op"
  | some ks =>
    match ChibiVerif.Spec.Layout.c11Type ks with
    | some t => s!"ok {t.cName}"
    | none => "diag"

def layoutLine (line : String) : String :=
  match parseTy (words line) with
  | some (t, []) =>
    match t.layout with
    | .ok l => showLayout l
    | .error e => showTyFail e
  | _ => "bad-op"

def showTyFail32 : TyFail32 → String
  | .divByZero => "fail divzero"
  | .overflow => "fail overflow"
  | .badAlign => "diag align"
  | .bitfieldType => "diag bitfield"
  | .incompleteField => "diag incomplete"

/-- the layout computed with explicit `int` arithmetic (Model/Layout32.lean), two's complement wrap-around (`wrap`, what the
    compiled parse.c does) or with signed overflow as an outcome (`strict`) -/
def layout32Line (md : IntMode) (line : String) : String :=
  match parseTy (words line) with
  | some (t, []) =>
    match t.layout32 md with
    | .ok l => showLayout l
    | .error e => showTyFail32 e
  | _ => "bad-op"

def speclayoutLine (line : String) : String :=
  match parseTy (words line) with
  | some (t, []) =>
    if ChibiVerif.Spec.Layout.specAccepted t then showSpecLayout (ChibiVerif.Spec.Layout.specTy t) else "diag"
  | _ => "bad-op"

/-- which known-finding regions the description touches: `regions` followed by the region numbers
    (0 packed-bitfield-straddle, 1 packed-member-alignas, 2 packed-union-bitfield), e.g. `regions 0 1`, or `regions -` -/
def regionsLine (line : String) : String :=
  match parseTy (words line) with
  | some (t, []) =>
    let ks := [0, 1, 2].filter fun k => t.inRegion k
    if ks.isEmpty then "regions -" else "regions" ++ String.join (ks.map fun k => s!" {k}")
  | _ => "bad-op"

def varLine (spec : Bool) (line : String) : String :=
  match words line with
  | n :: r =>
    match n.toNat? with
    | none => "bad-op"
    | some n =>
      match parseAligns n r with
      | some (as, r1) =>
        match parseTy r1 with
        | some (t, []) =>
          if spec then s!"ok {ChibiVerif.Spec.Layout.specVarAlign as t}"
          else match varAlign as t with
            | .ok a => s!"ok {a}"
            | .error e => showTyFail e
        | _ => "bad-op"
      | none => "bad-op"
  | _ => "bad-op"

def layoutMain (sub : String) : IO UInt32 := do
  let h ← IO.getStdin
  match sub with
  | "declspec" => lineLoop h declspecLine
  | "specdecl" => lineLoop h specdeclLine
  | "layout" => lineLoop h layoutLine
  | "speclayout" => lineLoop h speclayoutLine
  | "layout32" => lineLoop h (layout32Line .wrap)
  | "layout32strict" => lineLoop h (layout32Line .strict)
  | "regions" => lineLoop h regionsLine
  | "var" => lineLoop h (varLine false)
  | "specvar" => lineLoop h (varLine true)
  | _ => IO.eprintln "usage: drv_c08 declspec|specdecl|layout|layout32|layout32strict|speclayout|regions|var|specvar"; return 2

end ChibiVerif.Driver
