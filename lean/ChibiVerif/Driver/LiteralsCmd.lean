/- `drv_c11 literals`: line protocol for the literal models (Gen/LiteralsGen, Model/Literals, Model/Text).
   One operation per input line, one output line per operation; the C harness
   tools/harness/literals_harness.c prints the same lines from the real code.

     enc <hex c>          -> enc <n> <hex bytes>                    encode_utf8
     dec <hex bytes>      -> dec ok <hex c> <len> | dec err         decode_utf8
     id <hex c>           -> id <0|1> <0|1>                         is_ident1 is_ident2
     u16 <hex c>          -> u16 <hex unit> ...                     units stored by read_utf16_string_literal
     int <hex bytes>      -> int <hex val> <ty> | int no            convert_pp_int on the token text; runs the *translated* function
                                                                    (Gen/PpNumGen.lean) with the Lean model of glibc strtoul
     inta <loc> <len> <hex> -> inta <hex val> <ty> | inta no        convert_pp_int on the token text[loc, loc+len) inside its text (translated)
     stl <base> <hex>     -> stl <hex val> <end>                    libc strtoul(text, &end, base) against Model/PpNumber.lean `strtoulC`
     ppn <start> <hex>    -> ppn <end> | ppn no                     tokenize(): the pp-number arm at text + start (translated start test and scan)
     esc <hex bytes>      -> esc <hex val32> <consumed> | esc err   read_escaped_char (text after the backslash); runs the
                                                                    *translated* function (Gen/LitReadersGen.lean)
     fhex <hex byte>      -> fhex <hex val32>                       from_hex (translated)
     ruc <len> <hex bytes>-> ruc <hex val32>                        read_universal_char(p, len) (translated)
     sle <start> <hex>    -> sle <index> | sle err                  string_literal_end(text + start) (translated)
     rsl n|u16|u32 <quote> <hex> -> rsl <n> <units> <end> | rsl err <e>   read_string_literal / read_utf16_… / read_utf32_…(text, text + quote) (translated)
     rcl <quote> <hex>    -> rcl <hex c> <index of closing quote> | rcl err <e>   read_char_literal(text, text + quote, ty) (translated)
     lit <hex bytes>      -> lit int|flt|chr|str ... | lit err <e>  tokenize() on a text that starts with a literal
     text <hex bytes>     -> text <hex bytes> | text oob            read_file's final newline + tokenize_file as *translated* from clang's AST
                                                                    (Gen/PpNumGen.lean `tokenizeFileText`: BOM test, the three in-place loops
                                                                    of Gen/LitReadersGen.lean in the order of the calls); oob = a store outside the text
     join <hex> <hex> ... -> join <ty> <n> <hex units> | join err   join_adjacent_string_literals on adjacent literals
     file <hex bytes>     -> file <hex text> int|flt|chr|str ... | file <hex text> other | file err <e>
                                                                    tokenize_file: read_file's tail as *translated* (Gen/StrJoinGen.lean
                                                                    `readFileBuf`), the C string in its array, the phases, then the first token
     rdf <hex bytes>      -> rdf <hex bytes>                        read_file on a file with these bytes: the returned C string and its
                                                                    terminator (translated tail of read_file)
     filej <hex bytes>    -> filej <tok> <tok> ... | filej err <e>  the bytes of a file through read_file, tokenize_file (phases: UCNs become
                                                                    UTF-8 before the tokenizer), tokenize, join_adjacent_string_literals
     joinb <hex> <hex> ... -> joinb <tok> <tok> ... | joinb err <e> join_adjacent_string_literals on a whole token list: every argument is the
                                                                    text of one token (string literals and other tokens, separated by one
                                                                    space in the text); runs the *translated* passes (Gen/StrJoinGen.lean)
                                                                    under the hand-written iteration over runs (Model/StrJoin.lean);
                                                                    <tok> = S:<ty>:<array_len>:<hex of the ty->size bytes at str> | O
-/
import ChibiVerif.Model.Literals
import ChibiVerif.Model.Text
import ChibiVerif.Model.LitReaders
import ChibiVerif.Model.PpNumber
import ChibiVerif.Model.StrJoin

namespace ChibiVerif.Driver
open ChibiVerif.Gen.Literals
open ChibiVerif.Literals

def hexDigit (c : Char) : Option Nat :=
  if '0' ≤ c ∧ c ≤ '9' then some (c.toNat - 48)
  else if 'a' ≤ c ∧ c ≤ 'f' then some (c.toNat - 87)
  else if 'A' ≤ c ∧ c ≤ 'F' then some (c.toNat - 55)
  else none

def parseHex (s : String) : Option Nat :=
  if s.isEmpty then none else
  s.toList.foldl (fun acc c => match acc, hexDigit c with
    | some a, some d => some (a * 16 + d)
    | _, _ => none) (some 0)

def parseBytes (s : String) : Option (List Byte) :=
  if s = "-" then some [] else
  let rec go : List Char → List Byte → Option (List Byte)
    | [], acc => some acc.reverse
    | [_], _ => none
    | a :: b :: rest, acc =>
      match hexDigit a, hexDigit b with
      | some x, some y => go rest (BitVec.ofNat 8 (x * 16 + y) :: acc)
      | _, _ => none
  go s.toList []

def hexOf (n : Nat) : String := String.ofList (Nat.toDigits 16 n)

def hex2 (n : Nat) : String :=
  let d := Nat.toDigits 16 n
  String.ofList (if d.length < 2 then '0' :: d else d)

def bytesHex (l : List Byte) : String :=
  if l.isEmpty then "-" else String.join (l.map (fun b => hex2 b.toNat))

def tyName : Ty → String
  | .ty_bool => "bool" | .ty_char => "char" | .ty_short => "short" | .ty_int => "int" | .ty_long => "long"
  | .ty_uchar => "uchar" | .ty_ushort => "ushort" | .ty_uint => "uint" | .ty_ulong => "ulong"
  | .ty_float => "float" | .ty_double => "double" | .ty_ldouble => "ldouble"

def errName : LitErr → String
  | .invalidUtf8 => "invalid-utf8" | .invalidHexEscape => "invalid-hex-escape" | .unclosedString => "unclosed-string"
  | .unclosedChar => "unclosed-char" | .invalidNumber => "invalid-number" | .nonStandardConcat => "non-standard-concat"
  | .unreachable => "unreachable" | .notALiteral => "not-a-literal" | .fuel => "model-fuel"

def unitsStr (l : List Nat) : String := if l.isEmpty then "-" else " ".intercalate (l.map hexOf)

def showStr (t : StrTok) : String :=
  s!"{tyName t.elem} {t.units.length + 1} {unitsStr t.units}"

def litLine (p : List Byte) : String :=
  match ChibiVerif.PpNumber.lexLiteralC p with
  | .ok (.int v ty n) => s!"lit int {hexOf v.toNat} {tyName ty} {n}"
  | .ok (.flt n) => s!"lit flt {n}"
  | .ok (.chr v ty n) => s!"lit chr {hexOf v.toNat} {tyName ty} {n}"
  | .ok (.str t) => s!"lit str {showStr t} {t.len}"
  | .error e => s!"lit err {errName e}"

def fileLine (bytes : List Byte) : String :=
  -- (`phase12 bytes` = `fileText bytes` for every NUL-free content: C11_phase_order; a store outside the text would be `none`)
  let y := (ChibiVerif.StrJoin.sourceText bytes).getD []
  match ChibiVerif.PpNumber.lexLiteralC y with
  | .ok (.int v ty n) => s!"file {bytesHex y} int {hexOf v.toNat} {tyName ty} {n}"
  | .ok (.flt n) => s!"file {bytesHex y} flt {n}"
  | .ok (.chr v ty n) => s!"file {bytesHex y} chr {hexOf v.toNat} {tyName ty} {n}"
  | .ok (.str t) => s!"file {bytesHex y} str {showStr t} {t.len}"
  | .error .notALiteral => s!"file {bytesHex y} other"
  | .error e => s!"file err {errName e}"

def joinLine (srcs : List (List Byte)) : String :=
  let toks := srcs.mapM (fun p => match lexLiteral p with
    | .ok (.str t) => if t.len = p.length then Except.ok t else .error LitErr.notALiteral
    | .ok _ => .error LitErr.notALiteral
    | .error e => .error e)
  match toks >>= joinStrings with
  | .ok t => s!"join {showStr t}"
  | .error e => s!"join err {errName e}"

def joinErrName : ChibiVerif.Gen.StrJoin.JoinErr → String
  | .unsupported_non_standard_concatenation_of_string_literals => "non-standard-concat"
  | .unreachable => "unreachable"
  | .read e => errName (ChibiVerif.LitReaders.ofReadErr e)
  | .store_outside => "store-outside"

/-- the tokens of a text as `tokenize()` makes them, as far as `join_adjacent_string_literals` looks at them (driver only, not
    part of any theorem): white space is skipped; a string literal read by `lexLiteralC` is a TK_STR token (`tok->loc` = the text from
    its first byte to the end); any other literal, and any other run of bytes up to the next white space, is some other token (the
    generator separates tokens by white space) -/
def lexAll (text : List Byte) : Nat → Nat → Except LitErr (List ChibiVerif.Gen.StrJoin.Tok)
  | 0, _ => .ok []
  | fuel + 1, pos =>
    if pos ≥ text.length then .ok []
    else if byteAt text pos = 32#8 ∨ byteAt text pos = 10#8 then lexAll text fuel (pos + 1)
    else
      let loc := text.drop pos
      let other : ChibiVerif.Gen.StrJoin.Tok := ⟨false, loc, .ty_char, 0, []⟩
      let word := (loc.takeWhile (fun b => b ≠ 32#8 ∧ b ≠ 10#8)).length
      let step : Except LitErr (ChibiVerif.Gen.StrJoin.Tok × Nat) :=
        match ChibiVerif.PpNumber.lexLiteralC loc with
        | .ok (.str t) => .ok (ChibiVerif.Gen.StrJoin.readerTok loc t.elem t.units, t.len)
        | .ok (.int _ _ n) => .ok (other, n)
        | .ok (.flt n) => .ok (other, n)
        | .ok (.chr _ _ n) => .ok (other, n)
        | .error .notALiteral => .ok (other, word)
        | .error e => .error e
      match step with
      | .error e => .error e
      | .ok (t, n) =>
        match lexAll text fuel (pos + (if n = 0 then 1 else n)) with
        | .error e => .error e
        | .ok ts => .ok (t :: ts)

def joinedLine (tag : String) (text : List Byte) : String :=
  match lexAll text (text.length + 1) 0 with
  | .error e => s!"{tag} err {errName e}"
  | .ok toks =>
    match ChibiVerif.StrJoin.joinTokens toks with
    | .error e => s!"{tag} err {joinErrName e}"
    | .ok out =>
      tag ++ " " ++ " ".intercalate (out.map (fun t =>
        if t.isStr then s!"S:{tyName t.base}:{t.arrayLen}:{bytesHex t.str}" else "O"))

def joinbLine (chunks : List (List Byte)) : String :=
  joinedLine "joinb" (chunks.foldr (fun x acc => x ++ (if acc.isEmpty then [10#8] else 32#8 :: acc)) [])

/-- `filej`: the bytes of a file through `read_file`'s tail and `tokenize_file` as translated, then `tokenize()` and
    `join_adjacent_string_literals` -/
def filejLine (bytes : List Byte) : String :=
  match ChibiVerif.StrJoin.sourceText bytes with
  | none => "filej oob"
  | some y => joinedLine "filej" y

def literalsLine (ws : List String) : String :=
  match ws with
  | ["enc", h] =>
    match parseHex h with
    | some c => let bs := encodeUtf8 (BitVec.ofNat 32 c); s!"enc {bs.length} {bytesHex bs}"
    | none => "bad-op"
  | ["dec", h] =>
    match parseBytes h with
    | some p =>
      match decodeUtf8 p with
      | .ok (c, n) => s!"dec ok {hexOf c.toNat} {n}"
      | .error _ => "dec err"
    | none => "bad-op"
  | ["id", h] =>
    match parseHex h with
    | some c => s!"id {if isIdent1 c then 1 else 0} {if isIdent2 c then 1 else 0}"
    | none => "bad-op"
  | ["u16", h] =>
    match parseHex h with
    | some c => s!"u16 {unitsStr ((utf16Units (BitVec.ofNat 32 c)).map BitVec.toNat)}"
    | none => "bad-op"
  | ["int", h] =>
    match parseBytes h with
    | some p =>
      match ChibiVerif.PpNumber.convertPpIntC p 0 p.length with
      | some (v, ty) => s!"int {hexOf v.toNat} {tyName ty}"
      | none => "int no"
    | none => "bad-op"
  | ["inta", a, b, h] =>
    match a.toNat?, b.toNat?, parseBytes h with
    | some loc, some len, some p =>
      match ChibiVerif.PpNumber.convertPpIntC p loc len with
      | some (v, ty) => s!"inta {hexOf v.toNat} {tyName ty}"
      | none => "inta no"
    | _, _, _ => "bad-op"
  | ["stl", b, h] =>
    match b.toNat?, parseBytes h with
    | some base, some p => let r := ChibiVerif.PpNumber.strtoulC p 0 base; s!"stl {hexOf r.1.toNat} {r.2}"
    | _, _ => "bad-op"
  | ["ppn", a, h] =>
    match a.toNat?, parseBytes h with
    | some start, some p =>
      if ChibiVerif.Gen.PpNum.ppNumberStart p start then s!"ppn {ChibiVerif.Gen.PpNum.ppNumberEnd p start}" else "ppn no"
    | _, _ => "bad-op"
  | ["esc", h] =>
    match parseBytes h with
    | some p =>
      match ChibiVerif.Gen.LitReaders.readEscapedChar p with
      | .ok (c, n) => s!"esc {hexOf c.toNat} {n}"
      | .error _ => "esc err"
    | none => "bad-op"
  | ["fhex", h] =>
    match parseBytes h with
    | some [b] => s!"fhex {hexOf (ChibiVerif.Gen.LitReaders.fromHex b).toNat}"
    | _ => "bad-op"
  | ["ruc", n, h] =>
    match n.toNat?, parseBytes h with
    | some len, some p => s!"ruc {hexOf (ChibiVerif.Gen.LitReaders.readUniversalChar p len).toNat}"
    | _, _ => "bad-op"
  | ["sle", n, h] =>
    match n.toNat?, parseBytes h with
    | some start, some p =>
      match ChibiVerif.Gen.LitReaders.stringLiteralEnd p start with
      | .ok i => s!"sle {i}"
      | .error _ => "sle err"
    | _, _ => "bad-op"
  | ["rsl", k, n, h] =>
    match n.toNat?, parseBytes h with
    | some quote, some p =>
      let r := match k with
        | "n" => ChibiVerif.Gen.LitReaders.readStringLiteral p quote
        | "u16" => ChibiVerif.Gen.LitReaders.readUtf16StringLiteral p quote
        | _ => ChibiVerif.Gen.LitReaders.readUtf32StringLiteral p quote
      match r with
      | .ok (units, e) => s!"rsl {units.length + 1} {unitsStr units} {e}"
      | .error e => s!"rsl err {errName (ChibiVerif.LitReaders.ofReadErr e)}"
    | _, _ => "bad-op"
  | ["rcl", n, h] =>
    match n.toNat?, parseBytes h with
    | some quote, some p =>
      match ChibiVerif.Gen.LitReaders.readCharLiteral p quote with
      | .ok (c, e) => s!"rcl {hexOf c.toNat} {e}"
      | .error e => s!"rcl err {errName (ChibiVerif.LitReaders.ofReadErr e)}"
    | _, _ => "bad-op"
  | ["lit", h] =>
    match parseBytes h with
    | some p => litLine p
    | none => "bad-op"
  | ["text", h] =>
    match parseBytes h with
    | some p =>
      match ChibiVerif.PpNumber.fileText p with
      | some y => s!"text {bytesHex y}"
      | none => "text oob"
    | none => "bad-op"
  | ["file", h] =>
    match parseBytes h with
    | some p => fileLine p
    | none => "bad-op"
  | "join" :: hs =>
    match hs.mapM parseBytes with
    | some ps => joinLine ps
    | none => "bad-op"
  | "joinb" :: hs =>
    match hs.mapM parseBytes with
    | some ps => joinbLine ps
    | none => "bad-op"
  | ["filej", h] =>
    match parseBytes h with
    | some p => filejLine p
    | none => "bad-op"
  | ["rdf", h] =>
    match parseBytes h with
    | some p => s!"rdf {bytesHex (ChibiVerif.Gen.StrJoin.cString (ChibiVerif.Gen.StrJoin.readFileBuf p) ++ [0#8])}"
    | none => "bad-op"
  | _ => "bad-op"

partial def literalsLoop (h : IO.FS.Stream) (out : IO.FS.Stream) : IO UInt32 := do
  let line ← h.getLine
  if line.isEmpty then
    out.flush
    return 0
  let ws := (line.trimAscii.toString.splitOn " ").filter (· ≠ "")
  if !ws.isEmpty then out.putStrLn (literalsLine ws)
  literalsLoop h out

def literalsMain : IO UInt32 := do
  literalsLoop (← IO.getStdin) (← IO.getStdout)

end ChibiVerif.Driver
