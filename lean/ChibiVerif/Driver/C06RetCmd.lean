/- `drv_c06 ret`: return values (Model/C06Ret.lean).  One request per input line, one answer line each.

   rettext var|call <fname> <ret> | <expr>
        types as in `drv_c06 args` (b i1 u1 i2 u2 i4 u4 i8 u8 f d ld p e, `{ s|u size align (off ty)* }`, `[ n ty ]` = array expression)
        var:  the lines of `T fname(void) { return g; }` between the prologue and `.L.return.fname:` (`@g` = address of g)
        call: the lines of `T fname(void) { return h(); }` (`@f` = address of h)
        answer: lines joined by `|`, then ` # ` and the inserted casts;  or `error:<message>`
   retnorm <ty>          the instruction `case ND_FUNCALL` prints after the call for this return type, or `-`
   retimage <from> <to> <value>
        what %rax holds when a chibicc-compiled `to f(void) { return x; }` (x of integer type `from`, value `value`) returns, as far as
        `C06_return_extension` determines it:  `<mask-hex> <bits-hex>`  (mask: low 32 bits, or 64 for long / _Bool)
-/
import ChibiVerif.Model.C06Ret
import ChibiVerif.Driver.C06ArgsCmd

namespace ChibiVerif.Driver.C06RetCmd
open ChibiVerif.C06Ret ChibiVerif.C06Args ChibiVerif.CallConv ChibiVerif.Gen.CommonType ChibiVerif.Gen.ReturnStmt
open ChibiVerif.Driver.CallConvCmd (splitOn retBufOff)
open ChibiVerif.Driver.C06ArgsCmd (parseC showTyD)
open ChibiVerif.Spec.IntSpec (ITy)

def hex (n : Nat) : String := String.ofList (Nat.toDigits 16 n)

def answerText (form fname : String) (rest : List String) : String :=
  match splitOn "|" rest with
  | [left, right] =>
    match parseC left, parseC right with
    | some rt, some e =>
      let casts := retStep rt.descr e.descr
      let castText := if casts.isEmpty then "-" else "+".intercalate (casts.map showTyD)
      if form == "var" then "|".intercalate (returnText fname rt e) ++ " # " ++ castText
      else
        let off : Int := retBufOff { ret := some (atyOf e), params := [], nNamed := 0, variadic := false }
        match returnCallText fname rt e off with
        | .ok ls => "|".intercalate ls ++ " # " ++ castText
        | .error m => "error:" ++ m
    | _, _ => "bad-input"
  | _ => "bad-input"

partial def loop (h : IO.FS.Stream) : IO UInt32 := do
  let line ← h.getLine
  if line.isEmpty then return 0
  let ws := (line.trimAscii.toString.splitOn " ").filter (· ≠ "")
  match ws with
  | [] => loop h
  | "rettext" :: form :: fname :: rest =>
    IO.println (if form == "var" || form == "call" then answerText form fname rest else "bad-input")
    loop h
  | "retnorm" :: rest =>
    match parseC rest with
    | some t => IO.println (match retNorm t.descr with | some i => i.render | none => "-")
    | none => IO.println "bad-input"
    loop h
  | ["retimage", f, t, v] =>
    match ITy.ofString? f, ITy.ofString? t, v.toInt? with
    | some _, some t, some v =>
      let w := ChibiVerif.Spec.IntSpec.convert t v
      let bits := if t.size = 8 ∨ t = .bool then 64 else 32
      IO.println (hex (2 ^ bits - 1) ++ " " ++ hex (w % (2 ^ bits : Nat)).toNat)
    | _, _, _ => IO.println "bad-input"
    loop h
  | _ => IO.println "bad-op"; loop h

def main : IO UInt32 := do loop (← IO.getStdin)

end ChibiVerif.Driver.C06RetCmd
