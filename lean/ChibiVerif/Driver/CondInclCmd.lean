/-
Line protocol of `drv_c10` (core Lean only).

Common line syntax (words separated by blanks):
  t <marker>…                 text line
  if <E> | elif <E>           E = prefix expression:  n <nat> <u|s> | i <name> | d <name> | u <op> E | b <op> E E | c E E E
  ifdef <name> <0|1> | ifndef <name> <0|1> | else <0|1> | endif <0|1> | undef <name> <0|1>      (flag = extra tokens on the line)
  define <name> <E> | define <name> -         (`-` = a body that is not an expression)
  error | other | bad | ifdef-noname          (bad = a directive rejected when reached; ifdef-noname = #ifdef/#ifndef without a name)
  include <q|a> <name> | include_next <name> | once                    (only in `incl`)
  includem <T>… | include_nextm <T>…       (only in `incl`) #include / #include_next whose operand starts with an identifier;
                                            T = <S|I|O><0|1><text>: string literal (text between the quotes) / identifier / other
                                            token, has_space flag, spelling
  definet <name> <T>…                       (only in `incl`) object-like macro whose body is the given tokens (usable as an
                                            #include operand; not an #if expression)

`drv_c10 cond`:  lines of one translation unit, then `end`  →  one output line
     model=<R> spec=<R> region=<0|1> undef=<0|1>
  model  = condMachine with chibicc's evaluator (`evC`), spec = Spec.groups with the C11 evaluator (`ev`),
  region = an evaluated condition lies in the region of C10-ppif-int-result-shift,
  undef  = an evaluated condition has behaviour C11 leaves undefined (such inputs are dropped by the check).
  R = ok:<markers joined by ,>:<defined names, sorted, joined by ,>  |  err:<diag>

`drv_c10 incl`:  `sys <dir>`*, `opt D <name> <E|->` | `opt U <name>` | `opt I <dir>` | `opt after <dir>` | `opt include <file>` (command-line order),
     `file <path>` followed by that file's lines, …, `main <path>`, [`limit <n>`], then `end`  →  one output line
     model=<R> plain=<R> region=<0|1> undef=<0|1>
  model = IncludeDepth.includeRun (the total include machine, nesting limit = Gen.includeDepthLimit unless `limit` is given)
  with the include-guard shortcut, plain = the same machine without it (textual inclusion).  No step budget (`fuel <n>` is
  accepted and ignored).  R may also be  err:nested-too-deeply@<file>:<line>.
-/
import ChibiVerif.Model.PPExpr
import ChibiVerif.Model.IncludeSearch
import ChibiVerif.Model.IncludeDepth
import ChibiVerif.Spec.CondInclSpec

namespace ChibiVerif.Driver.C10
open ChibiVerif.CondIncl ChibiVerif.PPExpr ChibiVerif.IncludeSearch ChibiVerif.IncludeDepth ChibiVerif.IncludeOperand

abbrev L := Line Expr Body
abbrev IL := ILine Expr Body

def unOpOf : String → Option UnOp
  | "neg" => some .neg | "plus" => some .plus | "bnot" => some .bnot | "lnot" => some .lnot | _ => none

def binOpOf : String → Option BinOp
  | "mul" => some .mul | "div" => some .div | "mod" => some .mod | "add" => some .add | "sub" => some .sub
  | "shl" => some .shl | "shr" => some .shr | "lt" => some .lt | "le" => some .le | "gt" => some .gt
  | "ge" => some .ge | "eq" => some .eq | "ne" => some .ne | "band" => some .band | "bxor" => some .bxor
  | "bor" => some .bor | "land" => some .land | "lor" => some .lor | _ => none

/-- prefix expression reader -/
def readExpr : Nat → List String → Option (Expr × List String)
  | 0, _ => none
  | _+1, "n" :: v :: s :: r => v.toNat?.map (fun n => (Expr.num n (s == "u"), r))
  | _+1, "i" :: x :: r => some (.ident x, r)
  | _+1, "d" :: x :: r => some (.defined x, r)
  | f+1, "u" :: op :: r => do
    let o ← unOpOf op
    let (e, r') ← readExpr f r
    pure (.un o e, r')
  | f+1, "b" :: op :: r => do
    let o ← binOpOf op
    let (a, r1) ← readExpr f r
    let (b, r2) ← readExpr f r1
    pure (.bin o a b, r2)
  | f+1, "c" :: r => do
    let (c, r1) ← readExpr f r
    let (a, r2) ← readExpr f r1
    let (b, r3) ← readExpr f r2
    pure (.cond c a b, r3)
  | _, _ => none

def readWholeExpr (ws : List String) : Option Expr :=
  match readExpr 10000 ws with
  | some (e, []) => some e
  | _ => none

def flag (s : String) : Bool := s == "1"

def readBody (ws : List String) : Option Body :=
  match ws with
  | ["-"] => some none
  | _ => (readWholeExpr ws).map some

def readLine (ws : List String) : Option IL :=
  match ws with
  | "t" :: toks => some (.c (.plain (.text toks)))
  | "if" :: e => (readWholeExpr e).map (fun x => .c (.opens (.ifE x)))
  | "elif" :: e => (readWholeExpr e).map (fun x => .c (.part (.elif x)))
  | ["ifdef", n, x] => some (.c (.opens (.ifdef n (flag x))))
  | ["ifndef", n, x] => some (.c (.opens (.ifndef n (flag x))))
  | ["else", x] => some (.c (.part (.els (flag x))))
  | ["endif", x] => some (.c (.endif (flag x)))
  | ["undef", n, x] => some (.c (.plain (.undef n (flag x))))
  | "define" :: n :: b => (readBody b).map (fun x => .c (.plain (.define n x)))
  | ["error"] => some (.c (.plain .error))
  | ["bad"] => some (.c (.plain .bad))
  | ["ifdef-noname"] => some (.c (.opens .noName))
  | ["other"] => some (.c (.plain .other))
  | ["include", "q", n] => some (.incl true n)
  | ["include", "a", n] => some (.incl false n)
  | ["include_next", n] => some (.includeNext n)
  | ["once"] => some .pragmaOnce
  | _ => none

/-- macro bodies of the include driver: the #if view (`Body`) and, for `definet`, the tokens -/
structure DBody where
  e : Body
  toks : Option (List OTok) := none

abbrev XL := XLine Expr DBody

def liftPlain : Plain Body → Plain DBody
  | .text t => .text t
  | .define n b => .define n ⟨b, none⟩
  | .undef n x => .undef n x
  | .error => .error
  | .bad => .bad
  | .other => .other

def liftLine : Line Expr Body → Line Expr DBody
  | .plain p => .plain (liftPlain p)
  | .opens h => .opens h
  | .part h => .part h
  | .endif x => .endif x

def liftILine : ILine Expr Body → ILine Expr DBody
  | .c l => .c (liftLine l)
  | .incl dq n => .incl dq n
  | .includeNext n => .includeNext n
  | .pragmaOnce => .pragmaOnce

def readOTok (w : String) : Option OTok :=
  match w.toList with
  | k :: sp :: txt =>
    let kind? : Option OKind := if k == 'S' then some .str else if k == 'I' then some .ident else if k == 'O' then some .other else none
    kind?.map (fun kd => { kind := kd, text := String.ofList txt, hasSpace := sp == '1' })
  | _ => none

def readOToks (ws : List String) : Option (List OTok) := ws.mapM readOTok

def readXLine (ws : List String) : Option XL :=
  match ws with
  | "includem" :: ts => (readOToks ts).map (.inclMacro false)
  | "include_nextm" :: ts => (readOToks ts).map (.inclMacro true)
  | "definet" :: n :: ts => (readOToks ts).map (fun b => .base (.c (.plain (.define n ⟨none, some b⟩))))
  | _ => (readLine ws).map (fun l => .base (liftILine l))

/-- the file system the driver runs the model in: the table of generated files (paths normalised the way the kernel
    resolves `.`, `..` and empty components), and `open`/`stat` fail with ENAMETOOLONG for a path of PATH_MAX = 4096
    bytes or more (reached by `#include __FILE__`, whose path roughly doubles with every level) -/
def osFS (files : List (String × List XL)) : XFS Expr DBody :=
  fun p => if p.utf8ByteSize ≥ 4096 then none else XFS.ofTableNorm files p

/-- the #if view of the driver's macro table -/
def bodies (d : Defs DBody) : Defs Body := d.map (fun p => (p.1, p.2.e))

/-- the expander of #include operands: object-like macros given by `definet`, and `__FILE__` -/
def xpD : Xp DBody := fun d file ts =>
  expandObjT (("__FILE__", [{ kind := .str, text := file }]) :: d.filterMap (fun p => p.2.toks.map (fun b => (p.1, b)))) ts

def showDiag : Diag → String
  | .strayElif => "stray-elif" | .strayElse => "stray-else" | .strayEndif => "stray-endif"
  | .unterminated => "unterminated" | .errorDirective => "error-directive" | .badExpr => "bad-expr"
  | .cannotOpen => "cannot-open" | .badDirective => "bad-directive" | .outOfFuel => "out-of-fuel"

def insertSorted (x : String) : List String → List String
  | [] => [x]
  | y :: ys => if x < y then x :: y :: ys else if x == y then y :: ys else y :: insertSorted x ys

def showRes (r : Except Diag (Obs Body)) : String :=
  match r with
  | .error d => "err:" ++ showDiag d
  | .ok o =>
    let names := (o.defs.map (·.1)).foldl (fun acc n => insertSorted n acc) []
    "ok:" ++ ",".intercalate (o.out.map (" ".intercalate ·)) ++ ":" ++ ",".intercalate names

def showResD (r : Except IDiag (Obs Body)) : String :=
  match r with
  | .error (.diag d) => "err:" ++ showDiag d
  | .error (.nestedTooDeeply f l) => s!"err:nested-too-deeply@{f}:{l}"
  | .ok o => showRes (.ok o)

def isErrD (r : Except IDiag (Obs Body)) (d : Diag) : Bool :=
  match r with
  | .error (.diag e) => e == d
  | _ => false

/-- evaluator that turns "an evaluated condition lies in the region of the known finding" into the
    marker diagnostic `badDirective` -/
def evRegion (e : Expr) (d : Defs Body) : Except Diag Bool :=
  if intResultOverflows d e then .error .badDirective else ev e d

/-- evaluator that turns "C11 leaves the behaviour of an evaluated condition undefined" into the
    marker diagnostic `outOfFuel` -/
def evUndef (e : Expr) (d : Defs Body) : Except Diag Bool :=
  match evalTop d e with
  | .error .divZero => .error .badExpr
  | .error _ => .error .outOfFuel
  | .ok v => .ok v.truth

def isErr (r : Except Diag (Obs Body)) (d : Diag) : Bool :=
  match r with
  | .error e => e == d
  | .ok _ => false

def b01 (b : Bool) : String := if b then "1" else "0"

structure Acc where
  cur : List XL := []                        -- lines of the file being read (reversed)
  curName : Option String := none
  files : List (String × List XL) := []
  sys : List String := []
  opts : List (Opt DBody) := []
  main : String := ""
  limit : Nat := ChibiVerif.Gen.C10Incl.includeDepthLimit
  bad : Bool := false

def Acc.flush (a : Acc) : Acc :=
  match a.curName with
  | none => a
  | some n => { a with files := a.files ++ [(n, a.cur.reverse)], cur := [], curName := none }

def words (line : String) : List String :=
  (line.trimAscii.toString.splitOn " ").filter (· ≠ "")

def condOut (ls : List L) : String :=
  let model := condMachine evC ls []
  let spec := Spec.CondIncl.groups ev ls []
  let region := isErr (condMachine evRegion ls []) .badDirective
  let undef := isErr (condMachine evUndef ls []) .outOfFuel
  s!"model={showRes model} spec={showRes spec} region={b01 region} undef={b01 undef}"

partial def condLoop (h : IO.FS.Stream) (acc : List L) (bad : Bool) : IO UInt32 := do
  let line ← h.getLine
  if line.isEmpty then return 0
  match words line with
  | [] => condLoop h acc bad
  | ["end"] =>
    if bad then IO.println "bad-input" else IO.println (condOut acc.reverse)
    condLoop h [] false
  | ws =>
    match readLine ws with
    | some (.c l) => condLoop h (l :: acc) bad
    | _ => condLoop h acc true

def inclOut (a : Acc) : String :=
  let run (evf : Expr → Defs Body → Except Diag Bool) (g : Bool) : Except IDiag (Obs Body) :=
    match includeRun (fun e d => evf e (bodies d)) xpD (osFS a.files) a.sys [] a.opts a.main g a.limit with
    | .error e => .error e
    | .ok o => .ok ⟨bodies o.defs, o.out⟩
  let model := run evC true
  let plain := run evC false
  let region := isErrD (run evRegion true) .badDirective
  let undef := isErrD (run evUndef true) .outOfFuel
  s!"model={showResD model} plain={showResD plain} region={b01 region} undef={b01 undef}"

partial def inclLoop (h : IO.FS.Stream) (a : Acc) : IO UInt32 := do
  let line ← h.getLine
  if line.isEmpty then return 0
  match words line with
  | [] => inclLoop h a
  | ["end"] =>
    let a := a.flush
    if a.bad then IO.println "bad-input" else IO.println (inclOut a)
    inclLoop h {}
  | ["sys", d] => inclLoop h { a with sys := a.sys ++ [d] }
  | ["main", p] => inclLoop h { a.flush with main := p }
  | ["fuel", _] => inclLoop h a
  | ["limit", n] => inclLoop h { a with limit := n.toNat?.getD a.limit }
  | ["file", p] => inclLoop h { a.flush with curName := some p }
  | "opt" :: "D" :: n :: b =>
    match readBody b with
    | some x => inclLoop h { a with opts := a.opts ++ [.D n ⟨x, none⟩] }
    | none => inclLoop h { a with bad := true }
  | ["opt", "U", n] => inclLoop h { a with opts := a.opts ++ [.U n] }
  | ["opt", "I", d] => inclLoop h { a with opts := a.opts ++ [.I d] }
  | ["opt", "after", d] => inclLoop h { a with opts := a.opts ++ [.idirafter d] }
  | ["opt", "include", f] => inclLoop h { a with opts := a.opts ++ [.inc f] }
  | ws =>
    match readXLine ws with
    | some l => inclLoop h { a with cur := l :: a.cur }
    | none => inclLoop h { a with bad := true }

def condMain : IO UInt32 := do condLoop (← IO.getStdin) [] false
def inclMain : IO UInt32 := do inclLoop (← IO.getStdin) {}

end ChibiVerif.Driver.C10
