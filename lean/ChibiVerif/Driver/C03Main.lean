/- line-protocol driver for C03: `drv_c03 gen|exec|mrun|scope|fun` reads operations on stdin, prints one canonical line per
   operation.  Core Lean only (nothing imported here may import Mathlib, or the executable will not link). -/
import ChibiVerif.Driver.CtlCmd
import ChibiVerif.Driver.C03FunCmd

def main (args : List String) : IO UInt32 :=
  match args with
  | "fun" :: _ => ChibiVerif.Driver.C03Fun.main args
  | _ => ChibiVerif.Driver.CtlCmd.main args
