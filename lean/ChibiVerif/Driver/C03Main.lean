/- line-protocol driver for C03: `drv_c03 gen|exec|mrun|scope` reads operations on stdin, prints one canonical line per
   operation.  Core Lean only (nothing imported here may import Mathlib, or the executable will not link). -/
import ChibiVerif.Driver.CtlCmd

def main (args : List String) : IO UInt32 := ChibiVerif.Driver.CtlCmd.main args
