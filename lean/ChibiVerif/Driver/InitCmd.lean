/-
`drv_c05 init`: one line = a declared type and the abstract token list of its initializer

   line ::= T "|" tok*
   T    ::= "s" <size> <i|f|p|b> | "a" <len> T | "inc" T | ("st"|"un") <size> <flex 0|1> <k> M*k
   M    ::= "m" <name|-> <offset> <bit_offset|-> <bit_width|-> T
   tok  ::= "{" | "}" | "," | "=" | "."<name> | "i" <a> | "r" <a> <b>
          | "e" <ival> <nz 0|1> <f32> <f64> <f80>          (constant expression, its value after conversion to each scalar type)
          | "ea" <label> <addend>                          (address constant)
          | "es" <id>                                      (expression of struct type)
          | "str" <id> <elemsize> <hex bytes of tok->str, terminator included>

answer (one line, parts separated by " | "):
   parse ok size=<sizeof after initializer()> rest=<tokens left> | static <cells> | auto <cells> | emit <directives>
   | spec <cells> over=<BraceOverride> xover=<AggExprOverride> wide=<WideRange> reinit=<FlexReinit>
     tyok=<type covered by C05_parse_spec_partial> same=<model tree = spec tree> | cover <byte masks> | flex <n|-> <size>
     (flex: the number of elements `flexResolved` finds in the flexible member's node and sizeof(struct) + n * sizeof(elem))
 a failing part prints `fail diag|crash|fuel <text>` instead.  cells: two hex digits, `@label+addend#k`, `??`.
-/
import ChibiVerif.Model.Init
import ChibiVerif.Spec.InitSpec
import ChibiVerif.Model.InitCursor

namespace ChibiVerif.Driver.InitCmd
open ChibiVerif.Init

def words (line : String) : List String := (line.trimAscii.toString.splitOn " ").filter (· ≠ "")

def optNat (s : String) : Option (Option Nat) := if s == "-" then some none else s.toNat?.map some

def kindOf : String → Option SKind
  | "i" => some .int | "f" => some .flt | "p" => some .ptr | "b" => some .bool | _ => none

mutual
  partial def parseTy : List String → Option (Ty × List String)
    | "s" :: n :: k :: r => do
      let n ← n.toNat?
      let k ← kindOf k
      pure (.scalar n k, r)
    | "a" :: n :: r => do
      let n ← n.toNat?
      let (e, r) ← parseTy r
      pure (.array e n, r)
    | "inc" :: r => do
      let (e, r) ← parseTy r
      pure (.inc e, r)
    | "st" :: sz :: fl :: k :: r => do
      let (ms, r) ← parseMs (← k.toNat?) r
      pure (.struct ms (← sz.toNat?) (fl == "1"), r)
    | "un" :: sz :: fl :: k :: r => do
      let (ms, r) ← parseMs (← k.toNat?) r
      pure (.union ms (← sz.toNat?) (fl == "1"), r)
    | _ => none
  partial def parseMs : Nat → List String → Option (Members × List String)
    | 0, r => some ([], r)
    | k+1, "m" :: nm :: off :: bo :: bw :: r => do
      let off ← off.toNat?
      let bo ← optNat bo
      let bw ← optNat bw
      let (t, r) ← parseTy r
      let (ms, r) ← parseMs k r
      let bf := match bo, bw with | some a, some b => some (a, b) | _, _ => none
      pure (({ name := if nm == "-" then none else some nm, offset := off, bf := bf }, t) :: ms, r)
    | _, _ => none
end

def hexVal (c : Char) : Option Nat :=
  if '0' ≤ c ∧ c ≤ '9' then some (c.toNat - '0'.toNat)
  else if 'a' ≤ c ∧ c ≤ 'f' then some (c.toNat - 'a'.toNat + 10)
  else none

partial def hexBytes : List Char → Option (List Nat)
  | [] => some []
  | a :: b :: r => do
    let x ← hexVal a
    let y ← hexVal b
    let rest ← hexBytes r
    pure ((x * 16 + y) :: rest)
  | _ => none

partial def parseToks : List String → Option (List ITok)
  | [] => some []
  | "{" :: r => (parseToks r).map (.lbrace :: ·)
  | "}" :: r => (parseToks r).map (.rbrace :: ·)
  | "," :: r => (parseToks r).map (.comma :: ·)
  | "=" :: r => (parseToks r).map (.eq :: ·)
  | "i" :: a :: r => do pure (.idx (← a.toInt?) :: (← parseToks r))
  | "r" :: a :: b :: r => do pure (.range (← a.toInt?) (← b.toInt?) :: (← parseToks r))
  | "e" :: v :: nz :: f32 :: f64 :: f80 :: r => do
    pure (.expr { ival := ← v.toInt?, nz := nz == "1", f32 := ← f32.toNat?, f64 := ← f64.toNat?, f80 := ← f80.toNat? }
          :: (← parseToks r))
  | "ea" :: l :: a :: r => do
    pure (.expr { ival := ← a.toInt?, nz := true, f32 := 0, f64 := 0, f80 := 0, label := some l } :: (← parseToks r))
  | "es" :: id :: r => do
    pure (.expr { ival := ← id.toInt?, nz := true, f32 := 0, f64 := 0, f80 := 0, isStruct := true } :: (← parseToks r))
  | "str" :: id :: esz :: hex :: r => do
    let bytes ← if hex == "-" then some [] else hexBytes hex.toList
    pure (.str (← id.toNat?) bytes (← esz.toNat?) :: (← parseToks r))
  | w :: r =>
    if w.startsWith "." then (parseToks r).map (.dot (w.drop 1).toString :: ·) else none

def hex2 (n : Nat) : String :=
  let d := "0123456789abcdef".toList
  String.ofList [d.getD (n / 16 % 16) '?', d.getD (n % 16) '?']

def showAddend (a : Int) : String := if a < 0 then toString a else "+" ++ toString a

def showCell : Cell → String
  | .byte b => hex2 b
  | .sym l a k => s!"@{l}{showAddend a}#{k}"
  | .junk => "??"

def showCells (cs : List Cell) : String := " ".intercalate (cs.map showCell)

def showFail : Fail → String
  | .diag m => "fail diag " ++ m
  | .crash m => "fail crash " ++ m
  | .fuel => "fail fuel"

def showDir : Directive → String
  | .quad l a => s!"q:{l}{showAddend a}"
  | .byte b => s!"b{b}"
  | .zero n => s!"z{n}"

/-- byte masks of the bits that belong to a member (active union member only); everything else is padding -/
def setBits (m : List Nat) (lo n : Nat) : List Nat :=
  m.mapIdx fun i b =>
    if 8 * i + 8 ≤ lo ∨ lo + n ≤ 8 * i then b
    else (List.range 8).foldl (fun acc j => if lo ≤ 8 * i + j ∧ 8 * i + j < lo + n then acc ||| (1 <<< j) else acc) b

mutual
  partial def cover : Init → Ty → Nat → List Nat → List Nat
    | .arr cs, .array e _, off, m => coverArr cs e off m
    | .struct _ cs, .struct ms _ _, off, m => coverMs cs ms off m
    | .union _ mem cs, .union ms _ _, off, m =>
      let k := match mem with
        | some k => k
        | none => (InitSpec.nextNamed ms ms.length 0).getD 0
      match cs[k]?, ms[k]? with
      | some c, some (mi, t) =>
        match mi.bf with
        | some (bo, bw) => setBits m (8 * (off + mi.offset) + bo) bw
        | none => cover c t (off + mi.offset) m
      | _, _ => m
    | _, .scalar sz .flt, off, m => setBits m (8 * off) (if sz = 16 then 80 else 8 * sz)
    | _, .scalar sz _, off, m => setBits m (8 * off) (8 * sz)
    | _, _, _, m => m
  partial def coverArr : List Init → Ty → Nat → List Nat → List Nat
    | [], _, _, m => m
    | c :: cs, e, off, m => coverArr cs e (off + e.size.toNat) (cover c e off m)
  partial def coverMs : List Init → Members → Nat → List Nat → List Nat
    | c :: cs, (mi, t) :: ms, off, m =>
      match mi.bf with
      | some (bo, bw) =>
        coverMs cs ms off (if mi.name.isSome then setBits m (8 * (off + mi.offset) + bo) bw else m)
      | none => coverMs cs ms off (cover c t (off + mi.offset) m)
    | _, _, _, m => m
end

def part {α : Type} (x : Except Fail α) (f : α → String) : String :=
  match x with
  | .ok a => f a
  | .error e => showFail e

def answer (parse : Nat → Ty → List ITok → Except Fail (Init × Ty × List ITok)) (ty : Ty) (toks : List ITok) : String :=
  let fuel := stdFuel ty toks
  let spec := InitSpec.initFull ty toks
  let specPart := match spec with
    | .ok r =>
      let rty := resolveTy ty r.obj
      -- rendered with the conversions of simple assignment (6.7.9p11): the automatic back end's leaf stores
      let cells := part (autoObject r.obj rty) showCells
      (r.obj, rty, s!"spec {cells} over={if r.over then 1 else 0} xover={if r.fl.xover then 1 else 0} wide={if r.fl.wide then 1 else 0} reinit={if r.fl.reinit then 1 else 0} tyok={if InitSpec.tyOk ty then 1 else 0}")
    | .error e => (Init.flex, ty, "spec " ++ showFail e)
  match parse fuel ty toks with
  | .error e => s!"parse {showFail e} | {specPart.2.2}"
  | .ok (init, rty, rest) =>
    let st := gvarInit init rty
    let same := match spec with | .ok r => if r.obj == init then "1" else "0" | .error _ => "-"
    let coverTree := match spec with | .ok r => (r.obj, resolveTy ty r.obj) | .error _ => (init, rty)
    let mask := cover coverTree.1 coverTree.2 0 (List.replicate coverTree.2.size.toNat 0)
    s!"parse ok size={rty.size} rest={rest.length} | static {part st (fun im => showCells im.cells)} | " ++
    s!"auto {part (autoObject init rty) showCells} | " ++
    s!"emit {part st (fun im => " ".intercalate ((emitData im rty.size.toNat).map showDir))} | " ++
    let flexPart := match ty with
      | .struct ms sz true =>
        (match flexResolved ms init.children with
         | some (el, n) => s!"{n} {(sz : Int) + el.size * n}"
         | none => "- -")
      | _ => "- -"
    let cursorOk := match gvarInitC Arms.code init rty, st with
      | .ok a, .ok b => if a == b then "1" else "0"
      | .error _, .error _ => "1"
      | _, _ => "0"
    s!"{specPart.2.2} same={same} | cover {"".intercalate (mask.map hex2)} | flex {flexPart} cursor={cursorOk}"

partial def loop (parse : Nat → Ty → List ITok → Except Fail (Init × Ty × List ITok)) (h : IO.FS.Stream) : IO UInt32 := do
  let line ← h.getLine
  if line.isEmpty then return 0
  let ws := words line
  if ws.isEmpty then loop parse h else
  let (tyW, tokW) := ws.span (· ≠ "|")
  match parseTy tyW, parseToks (tokW.drop 1) with
  | some (ty, []), some toks => IO.println (answer parse ty toks); loop parse h
  | _, _ => IO.println "bad-op"; loop parse h

def initMain : IO UInt32 := do loop initializer (← IO.getStdin)

end ChibiVerif.Driver.InitCmd
