/- line-protocol driver for C15: `drv_c15 symbols` (declaration sequences → symbol tables of model and spec),
   `drv_c15 addr` (the address-form table of gen_addr's ND_VAR arm).
   Core Lean only (nothing imported here may import Mathlib, or the executable will not link). -/
import ChibiVerif.Driver.LinkageCmd

def main (args : List String) : IO UInt32 := do
  match args with
  | "symbols" :: _ => ChibiVerif.Driver.LinkageCmd.symbolsMain
  | "addr" :: _ => ChibiVerif.Driver.LinkageCmd.addrMain
  | _ =>
    IO.eprintln "usage: drv_c15 symbols | addr"
    return 2
