/- `drv_c12 sites`   : one line per site of the compiled-in Gen/C12AuditGen list: file:line, function, kind, verdict, text
   `drv_c12 verdict` : stdin: one site per line (tab-separated: file, fn, text, io locations, store locations, operands);
                       operands are `;`-separated, each `ed/ei/writes/reads/bare` with comma-separated location ids.
                       stdout: the verdict of Model/C12Audit.verdict for that site (`NONE` when there is none).
   Core Lean only. -/
import ChibiVerif.Gen.C12AuditGen
import ChibiVerif.Model.C12Audit

namespace ChibiVerif.Driver.C12
open ChibiVerif.C12Audit

def showWhy : Option Why → String
  | none => "NONE"
  | some .disjoint => "disjoint"
  | some .disjointUpToInternal => "disjointUpToInternal"
  | some (.reviewed _) => "reviewed"

def nats (s : String) : List Nat :=
  (s.splitOn ",").filterMap (fun x => let t := x.trimAscii.toString; if t.isEmpty then none else t.toNat?)

def parseOp (s : String) : Option Eff :=
  match s.splitOn "/" with
  | [ed, ei, w, r, b] => some ⟨ed.trimAscii.toString == "1", ei.trimAscii.toString == "1", nats w, nats r, nats b⟩
  | _ => none

def sitesMain : IO UInt32 := do
  let io := mask ChibiVerif.Gen.C12Audit.ioLocs
  for s in ChibiVerif.Gen.C12Audit.sites do
    IO.println s!"{s.file}:{s.line}\t{s.fn}\t{s.kind}\t{showWhy (verdict io s)}\t{s.text}"
  return 0

/-- every entry of the regenerated audit lists that has no verdict (empty on a tree for which the theorems of Props/C12 hold) -/
def unaccountedMain : IO UInt32 := do
  let io := mask ChibiVerif.Gen.C12Audit.ioLocs
  for s in ChibiVerif.Gen.C12Audit.sites do
    if (verdict io s).isNone then IO.println s!"unsequenced\t{s.file}:{s.line}\t{s.fn}\t{s.text}"
  let clean := ChibiVerif.Gen.C12Audit.clangWarnings.isEmpty
  for v in ChibiVerif.Gen.C12Audit.uninitLocals do
    if (uninitVerdict clean v).isNone then IO.println s!"uninitialised-local\t{v.1}\t{v.2.1}\t{v.2.2.1} : {v.2.2.2.1}"
  for a in ChibiVerif.Gen.C12Audit.rawAllocs do
    if (reviewedAlloc a.1 a.2.1).isNone then IO.println s!"raw-alloc\t{a.1}\t{a.2.1}\t{a.2.2}"
  for p in ChibiVerif.Gen.C12Audit.pointerOps do
    if !(p.2.2.2.1 == "char" && (reviewedPointerOp p.1 p.2.1 p.2.2.2.2).isSome) then
      IO.println s!"pointer-order\t{p.1}\t{p.2.1}\t{p.2.2.1} of {p.2.2.2.1}: {p.2.2.2.2}"
  for p in ChibiVerif.Gen.C12Audit.pointerToInt do
    if !(p.1 == "hashmap.c" && p.2.1 == "hashmap_test") then IO.println s!"pointer-to-integer\t{p.1}\t{p.2.1}\t{p.2.2}"
  for c in ChibiVerif.Gen.C12Audit.sortCalls do
    IO.println s!"unstable-order-call\t{c.1}\t{c.2.1}\t{c.2.2}"
  for w in ChibiVerif.Gen.C12Audit.clangWarnings do
    IO.println s!"clang-warning\t{w}"
  return 0

partial def verdictLoop (h : IO.FS.Stream) : IO Unit := do
  let line ← h.getLine
  if line.isEmpty then return
  let l : String := line.trimAscii.toString
  match l.splitOn "\t" with
  | [file, fn, text, io, store, ops] =>
    let effs := (ops.splitOn ";").filterMap parseOp
    if effs.length != (ops.splitOn ";").length then IO.println "BAD-OPERAND"
    else IO.println (showWhy (verdict (mask (nats io)) ⟨file, fn, 0, "", text, nats store, effs⟩))
  | _ => IO.println "BAD-LINE"
  verdictLoop h

def verdictMain : IO UInt32 := do
  verdictLoop (← IO.getStdin)
  return 0

end ChibiVerif.Driver.C12
