/- line-protocol driver for C05: `drv_c05 init` (see Driver/InitCmd.lean for the protocol).
   Core Lean only (nothing imported here may import Mathlib, or the executable will not link). -/
import ChibiVerif.Driver.InitCmd

def main (args : List String) : IO UInt32 := do
  match args with
  | "init" :: _ => ChibiVerif.Driver.InitCmd.initMain
  | _ =>
    IO.eprintln "usage: drv_c05 init"
    return 2
