/- `drv_c20 effect <dumpfile>`: run `Effect.checkBody` (one height per label, no residue on any
   path) on the code the model generates for every function body of an AST dump.
   Output: one line per function, `fn <name> ok <lines>` or `fn <name> VIOLATION <why>`. -/
import ChibiVerif.Model.Codegen
import ChibiVerif.Model.Effect
import ChibiVerif.Gen.CastTableGen

namespace ChibiVerif.Driver
open ChibiVerif

def effectMain (args : List String) : IO UInt32 := do
  match args with
  | [path] =>
    let text ← IO.FS.readFile path
    match Ast.parseDump text with
    | .error e =>
      IO.eprintln s!"parse error: {e}"
      return 3
    | .ok prog =>
      match Codegen.fnBodies prog prog.prog {} with
      | .error e =>
        IO.println s!"codegen-failure {e}"
        return 0
      | .ok bodies =>
        for (name, ls) in bodies do
          match Effect.checkBody ls with
          | .ok () => IO.println s!"fn {name} ok {ls.length}"
          | .error why => IO.println s!"fn {name} VIOLATION {why}"
        return 0
  | _ =>
    IO.eprintln "usage: drv_c20 effect <dumpfile>"
    return 2


/-- `drv_c20 cells`: the effect of every cell of the regenerated cast_table, by path analysis:
      cell <from> <to> ok <rsp> <x87> | cell <from> <to> UNBALANCED <two paths that disagree> -/
def cellsMain : IO UInt32 := do
  let names := Gen.CastTable.typeIdNames
  let mut t1 := 0
  for row in Gen.CastTable.castTable do
    let mut t2 := 0
    for cell in row do
      match cell with
      | none => pure ()
      | some l =>
        let is := l.instrs
        match Effect.lineDelta l with
        | some d => IO.println s!"cell {names.getD t1 "?"} {names.getD t2 "?"} ok {d.rsp} {d.x87}"
        | none => IO.println s!"cell {names.getD t1 "?"} {names.getD t2 "?"} UNBALANCED {Effect.multiWhy is}"
      t2 := t2 + 1
    t1 := t1 + 1
  return 0

end ChibiVerif.Driver
