/- `drv_c20 effect <dumpfile>`: run `Effect.checkBody` (one height per label, no residue on any
   path) on the code the model generates for every function body of an AST dump.
   Output: one line per function, `fn <name> ok <lines>` or `fn <name> VIOLATION <why>`. -/
import ChibiVerif.Model.Codegen
import ChibiVerif.Model.Effect

namespace ChibiVerif.Driver
open ChibiVerif

def effectMain (args : List String) : IO UInt32 := do
  match args with
  | [path] =>
    let text ← IO.FS.readFile path
    match Ast.parseDump text with
    | .error e =>
      IO.eprintln s!"parse error: {e}"
      return 3
    | .ok prog =>
      match Codegen.fnBodies prog prog.prog {} with
      | .error e =>
        IO.println s!"codegen-failure {e}"
        return 0
      | .ok bodies =>
        for (name, ls) in bodies do
          match Effect.checkBody ls with
          | .ok () => IO.println s!"fn {name} ok {ls.length}"
          | .error why => IO.println s!"fn {name} VIOLATION {why}"
        return 0
  | _ =>
    IO.eprintln "usage: drv_c20 effect <dumpfile>"
    return 2

end ChibiVerif.Driver
