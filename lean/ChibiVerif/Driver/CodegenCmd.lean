/- `drv_c20 codegen <dumpfile>`: run the code-generation model on an AST dump written by
   `chibicc -verif-dump-ast` and print the assembly text (one byte per character: the model's
   strings are byte strings, see Model/Ast.lean). -/
import ChibiVerif.Model.Codegen

namespace ChibiVerif.Driver
open ChibiVerif

def bytesOf (s : String) : ByteArray :=
  s.foldl (fun ba c => ba.push c.toNat.toUInt8) (ByteArray.emptyWithCapacity s.length)

def codegenMain (args : List String) : IO UInt32 := do
  match args with
  | [path] =>
    let text ← IO.FS.readFile path
    match Ast.parseDump text with
    | .error e =>
      IO.eprintln s!"parse error: {e}"
      return 3
    | .ok prog =>
      match Codegen.codegen prog with
      | .error e =>
        IO.eprintln s!"codegen failure: {e}"
        return 4
      | .ok lines =>
        let out ← IO.getStdout
        out.write (bytesOf (Asm.render lines))
        out.flush
        return 0
  | _ =>
    IO.eprintln "usage: drv_c20 codegen <dumpfile>"
    return 2

end ChibiVerif.Driver
