/- drv_c03 sub-commands: gen / unit / exec / execg / mrun / scope.  Core Lean only. -/
import ChibiVerif.Model.Stmt
import ChibiVerif.Spec.ControlSpecG
import ChibiVerif.Model.Scope

namespace ChibiVerif.Driver.CtlCmd
open ChibiVerif.Spec.Ctl
open ChibiVerif.Ctl

/-! ### S-expression reader for `SStmt`

  skip | (m k) | (seq a b) | (block s) | (if c t e) | (for i c n body)   (`-` = absent)
  (do body c) | (switch 32|64 s|u k body) | (case lo hi s) | (default s) | break | continue
  (goto l) | (gotoval l) | (label l s) | ret                 integers in signed decimal -/

def tokenize (s : String) : List String :=
  let s := s.replace "(" " ( " |>.replace ")" " ) "
  (s.splitOn " ").filter (· ≠ "")

def optNat (t : String) : Option (Option Nat) :=
  if t == "-" then some none else t.toNat?.map some

def valOf (t : String) : Option Val := t.toInt?.map (BitVec.ofInt 64)

partial def parseS : List String → Option (SStmt × List String)
  | "skip" :: r => some (.skip, r)
  | "break" :: r => some (.break_, r)
  | "continue" :: r => some (.continue_, r)
  | "ret" :: r => some (.ret, r)
  | "(" :: "m" :: k :: ")" :: r => k.toNat?.map fun k => (.marker k, r)
  | "(" :: "goto" :: l :: ")" :: r => l.toNat?.map fun l => (.goto_ l, r)
  | "(" :: "gotoval" :: l :: ")" :: r => l.toNat?.map fun l => (.gotoVal l, r)
  | "(" :: "seq" :: r => do
    let (a, r) ← parseS r
    let (b, r) ← parseS r
    match r with | ")" :: r => some (.seq a b, r) | _ => none
  | "(" :: "block" :: r => do
    let (a, r) ← parseS r
    match r with | ")" :: r => some (.block a, r) | _ => none
  | "(" :: "if" :: c :: r => do
    let c ← c.toNat?
    let (t, r) ← parseS r
    let (e, r) ← parseS r
    match r with | ")" :: r => some (.ifte c t e, r) | _ => none
  | "(" :: "for" :: i :: c :: n :: r => do
    let i ← optNat i
    let c ← optNat c
    let n ← optNat n
    let (b, r) ← parseS r
    match r with | ")" :: r => some (.for_ i c n b, r) | _ => none
  | "(" :: "do" :: r => do
    let (b, r) ← parseS r
    match r with
    | c :: ")" :: r => c.toNat?.map fun c => (.doWhile b c, r)
    | _ => none
  | "(" :: "switch" :: w :: u :: k :: r => do
    let w ← if w == "64" then some true else if w == "32" then some false else none
    let u ← if u == "u" then some true else if u == "s" then some false else none
    let k ← k.toNat?
    let (b, r) ← parseS r
    match r with | ")" :: r => some (.switch_ w u k b, r) | _ => none
  | "(" :: "case" :: lo :: hi :: r => do
    let lo ← valOf lo
    let hi ← valOf hi
    let (s, r) ← parseS r
    match r with | ")" :: r => some (.case_ lo hi s, r) | _ => none
  | "(" :: "default" :: r => do
    let (s, r) ← parseS r
    match r with | ")" :: r => some (.default_ s, r) | _ => none
  | "(" :: "label" :: l :: r => do
    let l ← l.toNat?
    let (s, r) ← parseS r
    match r with | ")" :: r => some (.label l s, r) | _ => none
  | _ => none

def readS (toks : List String) : Option SStmt :=
  match parseS toks with
  | some (s, []) => some s
  | _ => none

def showErr : PErr → String
  | .strayCase => "stray-case" | .strayDefault => "stray-default" | .strayBreak => "stray-break"
  | .strayContinue => "stray-continue" | .emptyRange => "empty-range"
  | .undeclaredLabel => "undeclared-label" | .lostSwitch => "lost-switch"

def showOutcome : Outcome → String
  | .normal => "normal" | .brk => "break" | .cont => "continue" | .ret => "return"

def showTrace (tr : List Event) : String := ";".intercalate (tr.map eventRender)

def oracleOf (t : String) : Nat → Val :=
  let vs : List Val := if t == "-" then [] else (t.splitOn ",").filterMap valOf
  fun i => vs.getD i 0

def showRes : Res → String
  | .done o σ => s!"done {showOutcome o} oi={σ.oi} : {showTrace σ.tr}"
  | .timeout σ => s!"timeout oi={σ.oi} : {showTrace σ.tr}"
  | .unsupported => "unsupported"

def genLine (ws : List String) : String :=
  match ws with
  | u0 :: c0 :: rest =>
    match u0.toNat?, c0.toNat?, readS rest with
    | some u0, some c0, some s =>
      match parseFn u0 s with
      | .error e => "err " ++ showErr e
      | .ok (st, u1) =>
        let ls := genLines "f" st c0
        s!"ok uniq={u1} " ++ "|".intercalate (ls.map fun l => (Asm.Line.render l).trimAscii.toString)
    | _, _, _ => "bad-op"
  | _ => "bad-op"

/-- stateful translation-unit protocol: `unit uniq0 count0`, then `fn <sexpr>` per function
    definition in source order, then `end`: prints one `code <i> <skeleton>` line per function
    (or `err <why>` for the unit) -/
partial def genLoop (h : IO.FS.Stream) (u0 c0 : Nat) (fs : List SStmt) : IO UInt32 := do
  let line ← h.getLine
  if line.isEmpty then return 0
  let ws := tokenize line.trimAscii.toString
  match ws with
  | [] => genLoop h u0 c0 fs
  | ["unit", u, c] =>
    match u.toNat?, c.toNat? with
    | some u, some c => IO.println "unit"; genLoop h u c []
    | _, _ => IO.println "bad-op"; genLoop h u0 c0 fs
  | "fn" :: rest =>
    match readS rest with
    | some s => IO.println "fn"; genLoop h u0 c0 (fs ++ [s])
    | none => IO.println "bad-op"; genLoop h u0 c0 fs
  | ["end"] =>
    match parseUnit u0 fs with
    | .error e => IO.println ("err " ++ showErr e)
    | .ok (sts, u1) =>
      let codes := genUnit sts c0
      let mut i := 0
      for code in codes do
        let ls := code.map (CIns.toLine s!"f{i}")
        IO.println (s!"code {i} " ++ "|".intercalate (ls.map fun l => (Asm.Line.render l).trimAscii.toString))
        i := i + 1
      IO.println s!"end uniq={u1}"
    genLoop h u0 c0 []
  | _ => IO.println "bad-op"; genLoop h u0 c0 fs

def execLine (ws : List String) : String :=
  match ws with
  | fuel :: vals :: rest =>
    match fuel.toNat?, readS rest with
    | some fuel, some s =>
      s!"structured={structured s} " ++ showRes (exec (oracleOf vals) fuel s ⟨0, []⟩)
    | _, _ => "bad-op"
  | _ => "bad-op"

/-- `Spec.Ctl.run` (the iteration of `Spec.Ctl.step` that defines `execG`) with two additions that do not change
    the answer: it counts the `goto` / `goto *&&L` steps taken (evidence: how many generated jumps are executed),
    and it stops with `timeout` once the trace has `lim` events (the harness on the C side stops at an event budget
    too; without the cut a non-terminating program costs time quadratic in the fuel, the trace being a list). -/
def runLim (ω : Nat → Val) (fb : SStmt) (lim : Nat) : Nat → SStmt → Cont → SState → Nat → Res × Nat
  | 0, _, _, σ, j => (.timeout σ, j)
  | n + 1, s, k, σ, j =>
    if n % 64 == 0 && σ.tr.length ≥ lim then (.timeout σ, j)
    else
      let j := j + (match s with | .goto_ _ => 1 | .gotoVal _ => 1 | _ => 0)
      match Spec.Ctl.step ω fb s k σ with
      | .next s' k' σ' => runLim ω fb lim n s' k' σ' j
      | .fin o σ' => (.done o σ', j)
      | .stuck => (.unsupported, j)

/-- the small-step abstract machine for all statements (goto, computed goto, nested case labels):
    `fuel evlimit vals sexpr` → `valid=<constraints hold> gotoval=<has computed goto> jumps=<gotos executed> <result>` -/
def execgLine (ws : List String) : String :=
  match ws with
  | fuel :: lim :: vals :: rest =>
    match fuel.toNat?, lim.toNat?, readS rest with
    | some fuel, some lim, some s =>
      let r := runLim (oracleOf vals) s lim fuel s .stop ⟨0, []⟩ 0
      s!"valid={validG s} gotoval={hasGotoVal s} jumps={r.2} " ++ showRes r.1
    | _, _, _ => "bad-op"
  | _ => "bad-op"

/-- the model's code run on the model's machine: the trace up to the point where control
    reaches the end of the code (after `.L.return.f:`) -/
def mrunLine (ws : List String) : String :=
  match ws with
  | fuel :: vals :: u0 :: c0 :: rest =>
    match fuel.toNat?, u0.toNat?, c0.toNat?, readS rest with
    | some fuel, some u0, some c0, some s =>
      match parseFn u0 s with
      | .error e => "err " ++ showErr e
      | .ok (st, _) =>
        let P := genFn st c0
        let fin := runM (oracleOf vals) P fuel (MState.init ⟨0, []⟩)
        let how := if fin.pc == P.length then "end" else if fin.pc < P.length then "running" else "wild"
        s!"{how} oi={fin.σ.oi} : {showTrace fin.σ.tr}"
    | _, _, _, _ => "bad-op"
  | _ => "bad-op"

partial def loop (h : IO.FS.Stream) (f : List String → String) : IO UInt32 := do
  let line ← h.getLine
  if line.isEmpty then return 0
  let ws := tokenize line.trimAscii.toString
  if ws.isEmpty then loop h f
  else
    IO.println (f ws)
    loop h f

/-! ### scope histories:  enter | leave | var n id | typedef n id | enum n id | tag n id |
    use n | usetag n | istype n | reset -/

open ChibiVerif.Scope in
def showEnt : Option Ent → String
  | none => "none"
  | some (.obj i) => s!"obj {i}"
  | some (.tdef i) => s!"typedef {i}"
  | some (.enumc i) => s!"enum {i}"

open ChibiVerif.Scope in
partial def scopeLoop (h : IO.FS.Stream) (s : Stack Ent Nat) : IO UInt32 := do
  let line ← h.getLine
  if line.isEmpty then return 0
  let ws := (line.trimAscii.toString.splitOn " ").filter (· ≠ "")
  let fail (m : String) : IO UInt32 := do IO.println m; return 0
  let decl (n : String) (e : Ent) : IO UInt32 :=
    match declareVar s n e with
    | .ok s' => do IO.println "ok"; scopeLoop h s'
    | .error _ => fail "crash null-scope"
  match ws with
  | [] => scopeLoop h s
  | ["reset"] => IO.println "reset"; scopeLoop h Stack.init
  | ["enter"] => IO.println "ok"; scopeLoop h (enter s)
  | ["leave"] =>
    match leave s with
    | .ok s' => IO.println "ok"; scopeLoop h s'
    | .error _ => fail "crash null-scope"
  | ["var", n, i] => decl n (.obj i.toNat!)
  | ["typedef", n, i] => decl n (.tdef i.toNat!)
  | ["enum", n, i] => decl n (.enumc i.toNat!)
  | ["tag", n, i] =>
    match declareTag s n i.toNat! with
    | .ok s' => IO.println "ok"; scopeLoop h s'
    | .error _ => fail "crash null-scope"
  | ["use", n] => IO.println ("use " ++ showEnt (findVar s n)); scopeLoop h s
  | ["usetag", n] =>
    IO.println ("usetag " ++ (match findTag s n with | some i => toString i | none => "none"))
    scopeLoop h s
  | ["istype", n] =>
    IO.println ("istype " ++ (match findTypedef s n with | some i => toString i | none => "no"))
    scopeLoop h s
  | _ => IO.println "bad-op"; scopeLoop h s

def main (args : List String) : IO UInt32 := do
  let h ← IO.getStdin
  match args with
  | "gen" :: _ => loop h genLine
  | "unit" :: _ => genLoop h 0 1 []
  | "exec" :: _ => loop h execLine
  | "execg" :: _ => loop h execgLine
  | "mrun" :: _ => loop h mrunLine
  | "scope" :: _ => scopeLoop h ChibiVerif.Scope.Stack.init
  | _ =>
    IO.eprintln "usage: drv_c03 gen|unit|exec|execg|mrun|scope"
    return 2

end ChibiVerif.Driver.CtlCmd
