/- line-protocol driver for C12: `drv_c12 <sub-command>` reads operations on stdin, prints one canonical line per operation.
   Core Lean only (nothing imported here may import Mathlib, or the executable will not link). -/
import ChibiVerif.Driver.C12AuditCmd

def main (args : List String) : IO UInt32 := do
  match args with
  | "sites" :: _ => ChibiVerif.Driver.C12.sitesMain
  | "verdict" :: _ => ChibiVerif.Driver.C12.verdictMain
  | "unaccounted" :: _ => ChibiVerif.Driver.C12.unaccountedMain
  | _ =>
    IO.eprintln "usage: drv_c12 sites|verdict|unaccounted"
    return 2
