/- line-protocol driver for C08: `drv_c08 declspec|specdecl|layout|speclayout` (see Driver/LayoutCmd.lean).
   Core Lean only (nothing imported here may import Mathlib, or the executable will not link). -/
import ChibiVerif.Driver.LayoutCmd

def main (args : List String) : IO UInt32 := do
  match args with
  | sub :: _ => ChibiVerif.Driver.layoutMain sub
  | _ =>
    IO.eprintln "usage: drv_c08 declspec|specdecl|layout|speclayout"
    return 2
