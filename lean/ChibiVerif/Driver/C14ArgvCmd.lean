/-
Line-protocol driver for the argv-level model of the driver (C14): `drv_c14 argv`, `drv_c14 deptext`, `drv_c14 parse`.

`argv`: one case per input line, TAB-separated `key=value` fields; list elements are separated by U+001F:

  argv=<word>␟<word>…   files=<path>:<tag>␟…   faults=<prog>:<k>:<exit|sig>:<n>:<w|n|r|c>,…   mkfail=<k|->
  lib=<libpath>   gcclib=<gcc_libpath>

Output: `status=<n> trace=<event>|… files=<path>=<cls>[<tag>,…];… cmds=<word> <word>…|…`
  * every path / word is percent-encoded (`enc`): anything outside `[A-Za-z0-9_./#+-]` becomes `%XX`;
  * `cmds` lists the command line of every child in spawn order; the cc1 child's `argv[0]` is printed as `CC`;
  * the file system includes the dependency files the cc1 children write (`runArgvD`), class `deps`;
  * `-cc1` among the option words: `not-driver`.

`deptext`: fields `argv=…  input=<base_file>  incl=<file>␟…  std=<dir>␟…` → `deps=<enc text>` (what `print_dependencies`
writes) and `path=<enc path|->` (`dependency_path()`).

`parse`: field `argv=…` → a canonical rendering of the outcome of `parse_args` (all option variables).
-/
import ChibiVerif.Model.C14Compose
import ChibiVerif.Driver.DriverProcCmd

namespace ChibiVerif.Driver.C14ArgvCmd
open ChibiVerif.C14Args ChibiVerif.C14Compose ChibiVerif.DriverProc
open ChibiVerif.Driver.DriverProcCmd (parseFault showProg showStatus insertSorted insertFile)

def usep : Char := Char.ofNat 0x1f

def hexDigit (n : Nat) : Char := if n < 10 then Char.ofNat (48 + n) else Char.ofNat (55 + n)

def plainChar (c : Char) : Bool :=
  c.isAlphanum || c == '_' || c == '.' || c == '/' || c == '#' || c == '+' || c == '-'

def enc (s : String) : String :=
  String.join (s.toUTF8.toList.map (fun b =>
    let c := Char.ofNat b.toNat
    if b.toNat < 128 && plainChar c then c.toString
    else String.ofList ['%', hexDigit (b.toNat / 16), hexDigit (b.toNat % 16)]))

def splitU (s : String) : List String :=
  if s = "" then [] else (s.splitOn (String.singleton usep))

def fields (line : String) : List (String × String) :=
  ((line.dropRightWhile (fun c => c == '\n' || c == '\r')).splitOn "\t").filterMap (fun f =>
    match f.splitOn "=" with
    | k :: v :: r => some (k, "=".intercalate (v :: r))
    | _ => none)

def field (fs : List (String × String)) (k : String) : String :=
  match fs.find? (·.1 == k) with
  | some p => p.2
  | none => ""

def parseFileU (s : String) : Option (String × Content) :=
  match (s.splitOn ":").reverse with
  | t :: r@(_ :: _) => t.toNat?.map (fun n => (":".intercalate r.reverse, ⟨.orig, [n]⟩))
  | _ => none

def parseFaultX (s : String) : Option (Prog × Nat × DriverProc.Outcome) := parseFault s

def showErrX : DrvErr → String
  | .multiO => "multi-o" | .unknownExt => "unknown-ext" | .noInput => "no-input"
  | .usage => "usage" | .unknownArg => "unknown-arg" | .unknownX => "unknown-x"

def showOptE : Option String → String | some p => enc p | none => "-"

/-- `cc1NoOut`: the command runs cc1 without `-cc1-output` (`-E`, `-M`): the event shows what is on the command line -/
def showEventE (cc1NoOut : Bool) : Event String → String
  | .mkstemp p => s!"mkstemp {enc p}"
  | .mkstempFailed => "mkstemp-failed"
  | .spawn .ld _ out => s!"spawn ld out={showOptE out}"
  | .spawn .cc1 inp out => s!"spawn cc1 in={",".intercalate (inp.map enc)} out={if cc1NoOut then "-" else showOptE out}"
  | .spawn p inp out => s!"spawn {showProg p} in={",".intercalate (inp.map enc)} out={showOptE out}"
  | .wait p st => s!"wait {showProg p} {showStatus st}"
  | .error w => s!"error {showErrX w}"
  | .unlink p => s!"unlink {enc p}"
  | .exit c => s!"exit {c}"

def showClsX : Cls → String
  | .orig => "orig" | .empty => "empty" | .pp => "pp" | .asm => "asm" | .obj => "obj" | .exe => "exe" | .junk => "junk"
  | .deps => "deps"

def showContentX (c : Content) : String :=
  let o := c.origins.foldl (fun acc n => insertSorted n acc) []
  s!"{showClsX c.cls}[{",".intercalate (o.map toString)}]"

def showFSX (fs : FS String) : String :=
  let sorted := fs.foldl (fun acc e => insertFile e acc) []
  ";".intercalate (sorted.map (fun e => s!"{enc e.1}={showContentX e.2}"))

/-- command lines of the children, from the spawn events -/
def childCmds (st : St) (args : List String) (lib gcclib : String) (log : List (Event String)) : List (List String) :=
  log.filterMap (fun e =>
    match e with
    | .spawn .cc1 [i] o =>
      let cmd := toCmd st
      some (cc1Argv "CC" args i (if cmd.mode = .E ∨ cmd.depsOnly then none else o))
    | .spawn .as [i] (some o) => some (asArgv i o)
    | .spawn .ld inp (some o) => some (ldArgv st lib gcclib inp o)
    | _ => none)

def runLine (line : String) : String :=
  let fs := fields line
  let args := splitU (field fs "argv")
  let files := (splitU (field fs "files")).filterMap parseFileU
  let faults := ((field fs "faults").splitOn ",").filterMap parseFaultX
  let mkfail := (field fs "mkfail").toNat?
  if !isDriver args then "not-driver" else
  let mode := match parseArgs args with
    | .ok st => (toCmd st).mode
    | _ => Mode.link
  let env : Env String :=
    { mode := mode,
      sched := fun p k =>
        match faults.find? (fun f => f.1 = p && f.2.1 = k) with
        | some f => f.2.2
        | none => Outcome.ok,
      fresh := fun k => if mkfail = some k then none else some s!"tmp#{k}" }
  let r := runArgvD env args files
  let st := match r.1.phase with
    | .done c => toString c
    | .stuck => "stuck"
    | _ => "running"
  let cmds := match parseArgs args with
    | .ok s => childCmds s args (field fs "lib") (field fs "gcclib") r.1.log
    | _ => []
  let cc1NoOut := match parseArgs args with
    | .ok s => decide ((toCmd s).mode = .E) || (toCmd s).depsOnly
    | _ => false
  s!"status={st} trace={"|".intercalate (r.1.log.map (showEventE cc1NoOut))} files={showFSX r.2} " ++
    s!"cmds={"|".intercalate (cmds.map (fun c => " ".intercalate (c.map enc)))}"

def depLine (line : String) : String :=
  let fs := fields line
  let args := splitU (field fs "argv")
  match parseArgs args with
  | .ok st =>
    let input := field fs "input"
    let t := depText st input (splitU (field fs "incl")) (splitU (field fs "std"))
    s!"deps={enc t} path={showOptE (depPath st input)}"
  | _ => "no-parse"

def showOptS : Option String → String | some s => "S" ++ enc s | none => "N"

def parseLine (line : String) : String :=
  let fs := fields line
  let args := splitU (field fs "argv")
  match parseArgs args with
  | .ok st =>
    let fl := " ".intercalate (st.flags.map (fun f => s!"{f.1}={if f.2 then 1 else 0}"))
    let ss := " ".intercalate (st.strs.map (fun f => s!"{f.1}={showOptS f.2}"))
    let ar := " ".intercalate (st.arrs.map (fun f => s!"{f.1}=[{",".intercalate (f.2.map showOptS)}]"))
    let x := match st.x with | .none => "none" | .c => "c" | .asm => "asm" | .obj => "obj" | .ar => "ar" | .dso => "dso"
    s!"ok {fl} {ss} {ar} opt_x={x}"
  | .usage n => s!"usage {n}"
  | .exit0 => "exit0"
  | .diag (.unknownArg s) => s!"unknown-arg {enc s}"
  | .diag (.unknownX s) => s!"unknown-x {enc s}"
  | .diag .noInput => "no-input"
  | .nullDeref s => s!"null-deref {s}"

partial def loop (f : String → String) (h : IO.FS.Stream) : IO UInt32 := do
  let line ← h.getLine
  if line.isEmpty then return 0
  if line.trimAscii.toString.isEmpty then loop f h else
  IO.println (f line)
  loop f h

def argvMain : IO UInt32 := do loop runLine (← IO.getStdin)
def depMain : IO UInt32 := do loop depLine (← IO.getStdin)
def parseMain : IO UInt32 := do loop parseLine (← IO.getStdin)

end ChibiVerif.Driver.C14ArgvCmd
