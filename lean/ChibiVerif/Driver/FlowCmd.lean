/- `drv_c20 flow <dumpfile>`: evaluate the hypotheses of the label-height theorems
   (C20_function_flow_partial, C20_function_check_partial, Props/C20.lean) on every function of a real
   AST dump, and the conclusions on the code the model generates for it.  One line per function that
   gets code:
     fn <name> typed <0|1> flow <0|1> tdistinct <0|1> udistinct <0|1> distinct <0|1> x87need <n> check <ok|range|FAIL> <why>
   `typed`     = `typedS env body`           (typing side condition)
   `flow`      = `flowFn env body`           (scope: jumps stay in their region, return agrees with
                                              the return type, no empty struct argument, label spelling)
   `tdistinct` = `treeDistinct body`         (the labels parse.c gave the loops, switches, cases and
                                              labelled statements of the TREE are pairwise distinct:
                                              the last hypothesis of the theorems — about the tree, not
                                              about the emitted lines)
   `udistinct` = `userDistinct code`         (the parser's labels occur once each in the code: PROVED from
                                              flow and tdistinct — C20_parser_labels_distinct)
   `distinct`  = `labelsDistinct (retLabel env) code`   (all labels of the code are pairwise distinct:
                                              PROVED from typed, flow, udistinct — Lemmas/C20Fresh.lean)
   `x87need`   = `x87Need body`              (x87 registers the evaluation needs; > 8 is the region of
                                              known finding C20-x87-depth-overflow)
   `check`     = `Effect.checkBody code`: ok, `range` (a height left the range `rsp ≤ 0`, `0 ≤ x87 ≤ 8`:
                 outside what the label-height theorem states), or FAIL with the reason.
   When typed, flow and tdistinct are all 1 the theorems say udistinct = 1, distinct = 1 and check is ok
   or range (C20_function_check_partial: no other complaint is possible); anything else on such a
   function would contradict them. -/
import ChibiVerif.Model.Codegen
import ChibiVerif.Model.Effect
import ChibiVerif.Model.C20Scope
import ChibiVerif.Model.C20Flow

namespace ChibiVerif.Driver
open ChibiVerif ChibiVerif.C20Scope

private def isRange (why : String) : Bool := "height out of range".toList.isPrefixOf why.toList

def flowFns (p : Ast.Program) : List Ast.Obj → Codegen.St → IO Unit
  | [], _ => pure ()
  | fn :: rest, s => do
    if !Codegen.emitsCode fn then flowFns p rest s else
    match Codegen.fnEnv p fn with
    | .error e =>
      IO.println s!"fn {Codegen.cstr fn.v.name} env-failure {e}"
      flowFns p rest s
    | .ok (env, _) =>
      match Codegen.fnBody env fn s with
      | .error e => IO.println s!"fn {Codegen.cstr fn.v.name} codegen-failure {e}"
      | .ok (_, s', ls) =>
        let b (x : Bool) : Nat := if x then 1 else 0
        let chk := match Effect.checkBody ls with
          | .ok () => "ok"
          | .error why => if isRange why then s!"range {why}" else s!"FAIL {why}"
        IO.println s!"fn {Codegen.cstr fn.v.name} typed {b (typedS env fn.body)} flow {b (flowFn env fn.body)} tdistinct {b (treeDistinct fn.body)} udistinct {b (userDistinct ls)} distinct {b (labelsDistinct (retLabel env) ls)} x87need {x87Need fn.body} check {chk}"
        flowFns p rest s'

def flowMain (args : List String) : IO UInt32 := do
  match args with
  | [path] =>
    let text ← IO.FS.readFile path
    match Ast.parseDump text with
    | .error e =>
      IO.eprintln s!"parse error: {e}"
      return 3
    | .ok prog =>
      flowFns prog prog.prog {}
      return 0
  | _ =>
    IO.eprintln "usage: drv_c20 flow <dumpfile>"
    return 2

end ChibiVerif.Driver
