/- line-protocol driver for C18: `drv_c18 lineno` (protocol in Driver/LineNoCmd.lean).
   Core Lean only (nothing imported here may import Mathlib, or the executable will not link). -/
import ChibiVerif.Driver.LineNoCmd

def main (args : List String) : IO UInt32 := do
  match args with
  | "lineno" :: _ => ChibiVerif.Driver.linenoMain
  | _ =>
    IO.eprintln "usage: drv_c18 lineno"
    return 2
