/- line-protocol driver for C18: `drv_c18 lineno` (protocol in Driver/LineNoCmd.lean) | `drv_c18 ppexpand` (the macro-expansion
   model Model/PP.lean from the table of init_macros, protocol of `drv_c09 expand` in Driver/PPCmd.lean; C18 reads the values
   `__LINE__` expands to: `C18_macro_origin_pp`).
   Core Lean only (nothing imported here may import Mathlib, or the executable will not link). -/
import ChibiVerif.Driver.LineNoCmd
import ChibiVerif.Driver.PPCmd

def main (args : List String) : IO UInt32 := do
  match args with
  | "lineno" :: _ => ChibiVerif.Driver.LineNoCmd.linenoMain
  | "ppexpand" :: _ => ChibiVerif.Driver.ppMain false
  | _ =>
    IO.eprintln "usage: drv_c18 lineno|ppexpand"
    return 2
