/- `drv_c17 hashmapx`: the key conventions of Model/C17Clients.lean over byte-string keys.

   lines:  kput <conv> <hexobj> <len> <val> | kdel <conv> <hexobj> <len> | kget <conv> <hexobj> <len>
           hash <hex> | reset
   <conv> = span | dup | cstr;  <hexobj> = the bytes of the object from the key pointer to its end
   ("-" for none).  One output line per input line, same form as tools/harness/hashmap_harness.c. -/
import ChibiVerif.Model.C17Clients

namespace ChibiVerif.Driver
open ChibiVerif.HashMap ChibiVerif.C17Clients

def hexVal (c : Char) : Option Nat :=
  if '0' ≤ c ∧ c ≤ '9' then some (c.toNat - 48)
  else if 'a' ≤ c ∧ c ≤ 'f' then some (c.toNat - 87)
  else if 'A' ≤ c ∧ c ≤ 'F' then some (c.toNat - 55)
  else none

def parseHex (s : String) : Option Bytes :=
  if s == "-" then some [] else
  let rec go : List Char → Option Bytes
    | [] => some []
    | [_] => none
    | a :: b :: rest => do
      let x ← hexVal a
      let y ← hexVal b
      let r ← go rest
      pure (UInt8.ofNat (x * 16 + y) :: r)
  go s.toList

def hexDigit (n : Nat) : Char := if n < 10 then Char.ofNat (48 + n) else Char.ofNat (87 + n)

def showHex (b : Bytes) : String :=
  if b.isEmpty then "-" else
  String.ofList (b.flatMap fun x => [hexDigit (x.toNat / 16), hexDigit (x.toNat % 16)])

def showSlotX : Slot Bytes Nat → String
  | .empty => "E"
  | .tomb => "T"
  | .full k v => s!"{showHex k}={v}"

def showStateX (m : HM Bytes Nat) : String :=
  let hd := s!"used={m.used} cap={m.buckets.length}"
  if m.buckets.length ≤ 64 then hd ++ " [" ++ " ".intercalate (m.buckets.map showSlotX) ++ "]"
  else
    let live := (HM.liveEntries m.buckets).length
    let tombs := (m.buckets.filter (fun s => match s with | .tomb => true | _ => false)).length
    hd ++ s!" live={live} tombs={tombs}"

def mkSrc (conv : String) (obj : Bytes) (len : Nat) : Option Src :=
  match conv with
  | "span" => some (.span obj len)
  | "dup" => some (.dup obj len)
  | "cstr" => some (.cstr obj)
  | _ => none

def showCrashX : Crash → String
  | .unreachable => "crash unreachable"
  | .assertUsed => "crash assert-used"
  | .assertCap => "crash assert-cap"
  | .nestedRehash => "crash nested-rehash"

partial def hmxLoop (h : IO.FS.Stream) (m : HM Bytes Nat) : IO UInt32 := do
  let line ← h.getLine
  if line.isEmpty then return 0
  let ws := (line.trimAscii.toString.splitOn " ").filter (· ≠ "")
  let src? (conv hex len : String) : Option Src := do
    let obj ← parseHex hex
    let n ← len.toNat?
    mkSrc conv obj n
  match ws with
  | [] => hmxLoop h m
  | ["kput", conv, hex, len, v] =>
    match src? conv hex len, v.toNat? with
    | some s, some n =>
      match s.key with
      | .error _ => IO.println "crash overread"; return 0
      | .ok k =>
        match m.put fnv k n with
        | .ok m' => IO.println s!"put {showStateX m'}"; hmxLoop h m'
        | .error c => IO.println (showCrashX c); return 0
    | _, _ => IO.println "bad-op"; hmxLoop h m
  | ["kdel", conv, hex, len] =>
    match src? conv hex len with
    | some s =>
      match s.key with
      | .error _ => IO.println "crash overread"; return 0
      | .ok k =>
        match m.delete fnv k with
        | .ok m' => IO.println s!"del {showStateX m'}"; hmxLoop h m'
        | .error c => IO.println (showCrashX c); return 0
    | none => IO.println "bad-op"; hmxLoop h m
  | ["kget", conv, hex, len] =>
    match src? conv hex len with
    | some s =>
      match s.key with
      | .error _ => IO.println "crash overread"; return 0
      | .ok k =>
        match m.get fnv k with
        | .ok (some v) => IO.println s!"get {v}"; hmxLoop h m
        | .ok none => IO.println "get NULL"; hmxLoop h m
        | .error c => IO.println (showCrashX c); return 0
    | none => IO.println "bad-op"; hmxLoop h m
  | ["hash", hex] =>
    match parseHex hex with
    | some b => IO.println s!"hash {fnv b}"; hmxLoop h m
    | none => IO.println "bad-op"; hmxLoop h m
  | ["reset"] => IO.println "reset"; hmxLoop h HM.empty
  | _ => IO.println "bad-op"; hmxLoop h m

def hashmapxMain : IO UInt32 := do hmxLoop (← IO.getStdin) HM.empty

end ChibiVerif.Driver
