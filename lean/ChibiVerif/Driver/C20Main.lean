/- line-protocol driver for C20: `drv_c20 <sub-command>`.
   Core Lean only (nothing imported here may import Mathlib, or the executable will not link).
     drv_c20 codegen <dumpfile>     assembly text of the code-generation model for an AST dump
     drv_c20 effect <dumpfile>      Effect.checkBody on the code of every function body
     drv_c20 cells                  effect of every cast_table cell, by path analysis
     drv_c20 scope <dumpfile>       typing side condition and theorem coverage of every function
     drv_c20 flow <dumpfile>        hypotheses and conclusion of the label-height theorems, per function -/
import ChibiVerif.Driver.CodegenCmd
import ChibiVerif.Driver.EffectCmd
import ChibiVerif.Driver.ScopeCmd
import ChibiVerif.Driver.FlowCmd

def main (args : List String) : IO UInt32 := do
  match args with
  | "codegen" :: rest => ChibiVerif.Driver.codegenMain rest
  | "effect" :: rest => ChibiVerif.Driver.effectMain rest
  | "scope" :: rest => ChibiVerif.Driver.scopeMain rest
  | "flow" :: rest => ChibiVerif.Driver.flowMain rest
  | "cells" :: _ => ChibiVerif.Driver.cellsMain
  | _ =>
    IO.eprintln "usage: drv_c20 codegen|effect|scope|flow <dumpfile> | drv_c20 cells"
    return 2
