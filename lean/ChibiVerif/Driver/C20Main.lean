/- line-protocol driver for C20: `drv_c20 <sub-command>`.
   Core Lean only (nothing imported here may import Mathlib, or the executable will not link).
     drv_c20 codegen <dumpfile>     assembly text of the code-generation model for an AST dump -/
import ChibiVerif.Driver.CodegenCmd

def main (args : List String) : IO UInt32 := do
  match args with
  | "codegen" :: rest => ChibiVerif.Driver.codegenMain rest
  | _ =>
    IO.eprintln "usage: drv_c20 codegen <dumpfile>"
    return 2
