/- line-protocol driver for C07: `drv_c07 eval` reads operations on stdin, prints one canonical line per operation.
   Core Lean only (nothing imported here may import Mathlib, or the executable will not link). -/
import ChibiVerif.Driver.ConstEvalCmd

def main (args : List String) : IO UInt32 := do
  match args with
  | "eval" :: _ => ChibiVerif.Driver.ConstEval.main
  | _ =>
    IO.eprintln "usage: drv_c07 eval"
    return 2
