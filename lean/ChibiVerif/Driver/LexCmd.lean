import ChibiVerif.Model.PrintTokens

/-! line protocol of `drv_c19` (characters are decimal code points separated by blanks):
  lex <cps>                → `ok K:b:s:cp,cp,…|K:b:s:…`   or `err <name>`     (K ∈ I P S C N; b,s ∈ 0 1)
  relex <cps>              → `ok <cps of printTokens (lex cps)>`  or `err <name>`
  print b:s:cp,cp… b:s:…   → `ok <cps of printTokens>`
  needspace <cps> ; <cps>  → `true` | `false`
  selflex <cps>            → `true` | `false`    (lexes alone to exactly one token with that spelling) -/
namespace ChibiVerif.Driver
open ChibiVerif.Lex ChibiVerif.Gen.Lex

def showKind : Kind → String
  | .ident => "I" | .punct => "P" | .str => "S" | .chr => "C" | .ppnum => "N"

def showErr : Err → String
  | .unclosedComment => "unclosed-comment" | .unclosedString => "unclosed-string"
  | .unclosedChar => "unclosed-char" | .badHexEscape => "bad-hex-escape"
  | .invalidToken => "invalid-token" | .fuel => "fuel"

def b01 (b : Bool) : String := if b then "1" else "0"

def showCps (l : List Nat) (sep : String) : String := sep.intercalate (l.map toString)

def showTok (t : Tok) : String :=
  s!"{showKind t.kind}:{b01 t.atBol}:{b01 t.hasSpace}:{showCps t.text ","}"

def parseCps (ws : List String) : Option (List Nat) := ws.mapM (·.toNat?)

def parseTok (w : String) : Option Tok :=
  match w.splitOn ":" with
  | [b, s, cps] =>
    match parseCps ((cps.splitOn ",").filter (· ≠ "")) with
    | some l => some ⟨.punct, l, b == "1", s == "1"⟩
    | none => none
  | _ => none

def lexLine (ws : List String) : String :=
  match ws with
  | "lex" :: r =>
    match parseCps r with
    | none => "bad-op"
    | some l =>
      match lex l with
      | .ok ts => "ok " ++ "|".intercalate (ts.map showTok)
      | .error e => "err " ++ showErr e
  | "relex" :: r =>
    match parseCps r with
    | none => "bad-op"
    | some l =>
      match lex l with
      | .ok ts => "ok " ++ showCps (printTokens ts) " "
      | .error e => "err " ++ showErr e
  | "print" :: r =>
    match r.mapM parseTok with
    | none => "bad-op"
    | some ts => "ok " ++ showCps (printTokens ts) " "
  | "needspace" :: r =>
    let a := r.takeWhile (· ≠ ";")
    let b := (r.dropWhile (· ≠ ";")).drop 1
    match parseCps a, parseCps b with
    | some x, some y => toString (needSpace x y)
    | _, _ => "bad-op"
  | "selflex" :: r =>
    match parseCps r with
    | none => "bad-op"
    | some l => toString (selfLexing l)
  | _ => "bad-op"

partial def lexCmdLoop (h : IO.FS.Stream) : IO UInt32 := do
  let line ← h.getLine
  if line.isEmpty then return 0
  let ws := (line.trimAscii.toString.splitOn " ").filter (· ≠ "")
  if ws.isEmpty then lexCmdLoop h
  else
    IO.println (lexLine ws)
    lexCmdLoop h

def lexMain : IO UInt32 := do lexCmdLoop (← IO.getStdin)

end ChibiVerif.Driver
