/-
Command loops of `drv_c04` (one operation per input line, one canonical output line per operation).

  bfseq    `<type> <w> <o>`                        → `L: l1 | l2 | l3 ## A: a1 | a2 | …`   (text of the two sequences)
  bfmodel  `<type> <w> <o> <old hex> <v hex>`      → `unit=<hex> rax=<hex> load=<hex> spec=<hex>`
  frame    `<body> / <params>`  with entries `size,align,isArray,byStack` separated by `;`
                                                   → `stack=<n> offs=<o1>,<o2>,…`   (order of fn->locals)
  alloca   `<frameLow> <op> <op> …`  ops: `push` `pop` `a<n>`
                                                   → `rsp=<n> bottom=<n> blocks=<addr>:<size>,…` or `underflow`
  path     `<type> | <step> <step> …`              → `addr=<n> spec=<n>` | `error <e> spec=none` …
             type:  S<size> | P(<type>) | A<len>(<type>) | V<len>(<type>) | G<size>{<name>@<off>:<type>;…}  (`_` = anonymous)
             step:  .name | >name | [i]            the object is at address 1000000, every stored pointer is 2000000
  pathb    `<type> | <steps> | <addr>=<ptr> …`     → `addr=<n> size=<n> ok=<0|1> encl=<base>:<size> in=<0|1> sum=<n|none>`
             (the object is at 1000000; the pointer stored at <addr> is <ptr>, every other stored pointer is 0):
             designated address and size, `pathOk`, the enclosing object, containment, Σ `offsetTerms` if pointer-free
  boolseq  `<small 0|1>`                           → the lines of `cast(from, _Bool); store(_Bool)`
  x86bf    `<type> <w> <o> <buf hex, 24 bytes> <v hex>`
                                                   → `assign=<hex> load=<hex> buf=<hex> rsp=<delta>`: `X86.run` of the assign sequence
             (unit at byte 8 of the buffer, its address on the stack) followed by the load sequence, or `fault`
  x86bool  `<small 0|1> <buf hex, 24 bytes> <v hex>` → `rax=<hex> buf=<hex> rsp=<delta>` for cast-to-_Bool + store at byte 8
  structseq `<size>`                               → the lines of `store` for a struct / union of that size
  pushseq  `<size>`                                → the lines of `push_struct`;   retseq `<off> <size>` → those of `copy_struct_mem`
  x86push  `<size> <dstoff> <srcoff> <buf hex>`    → `buf=<hex> rax=<srcoff> rsp=<new rsp - dst>`: push_struct with the copy landing at dstoff
  x86ret   `<size> <dstoff> <srcoff> <buf hex>`    → `buf=<hex> rax=<dstoff>`: copy_struct_mem with the hidden pointer at -8(%rbp)
  bfstmt   `<d> <k> <c> <type> <w> <o>`            → the lines of `local.member = c` (gen_addr, push, constant, bit-field arm)
  x86copy  `<size> <dstoff> <srcoff> <buf hex>`    → `buf=<hex>`: `X86.run` of the struct-store loop inside one buffer
-/
import ChibiVerif.Model.BitField
import ChibiVerif.Spec.C04Spec
import ChibiVerif.Model.Frame
import ChibiVerif.Model.Alloca
import ChibiVerif.Model.Lval
import ChibiVerif.Model.LvalBounds
import ChibiVerif.Model.X86

namespace ChibiVerif.Driver.C04
open ChibiVerif.Asm ChibiVerif.BitField

def words (line : String) : List String := (line.trimAscii.toString.splitOn " ").filter (· ≠ "")

def bfTypeOf : String → Option BfType
  | "bool" => some .bool | "char" => some .char | "uchar" => some .uchar | "short" => some .short
  | "ushort" => some .ushort | "int" => some .int | "uint" => some .uint | "long" => some .long | "ulong" => some .ulong
  | _ => none

def lineText (l : Line) : String := (l.render.trimAscii).toString

def hexDigit (c : Char) : Option Nat :=
  if '0' ≤ c ∧ c ≤ '9' then some (c.toNat - '0'.toNat)
  else if 'a' ≤ c ∧ c ≤ 'f' then some (c.toNat - 'a'.toNat + 10)
  else none

def parseHex (s : String) : Option Nat :=
  s.toList.foldl (fun acc c => match acc, hexDigit c with
    | some a, some d => some (a * 16 + d)
    | _, _ => none) (some 0)

def toHex (n : Nat) : String := String.ofList (Nat.toDigits 16 n)

def parseInt (s : String) : Option Int :=
  if s.startsWith "-" then (s.drop 1).toNat?.map fun n => -(n : Int) else s.toNat?.map fun n => (n : Int)

def bfseqLine (ws : List String) : String :=
  match ws with
  | [t, w, o] =>
    match bfTypeOf t, w.toNat?, o.toNat? with
    | some t, some w, some o =>
      "L: " ++ " | ".intercalate ((loadSeq t w o).map lineText) ++ " ## A: " ++ " | ".intercalate ((assignSeq t w o).map lineText)
    | _, _, _ => "bad-op"
  | _ => "bad-op"

def bfmodelLine (ws : List String) : String :=
  match ws with
  | [t, w, o, old, v] =>
    match bfTypeOf t, w.toNat?, o.toNat?, parseHex old, parseHex v with
    | some t, some w, some o, some old, some v =>
      let r := bfAssignT t w o (BitVec.ofNat _ old) (BitVec.ofNat 64 v)
      s!"unit={toHex r.unit.toNat} rax={toHex r.rax.toNat} load={toHex (bfLoadT t w o r.unit).toNat} spec={toHex (Spec.C04.fieldValue t w (BitVec.ofNat 64 v)).toNat}"
    | _, _, _, _, _ => "bad-op"
  | _ => "bad-op"

/-! frame -/
def parseVar (s : String) : Option Frame.Var :=
  match s.splitOn "," with
  | [sz, al, arr, st] =>
    match parseInt sz, parseInt al with
    | some sz, some al => some { size := sz, align := al, isArray := arr == "1", byStack := st == "1" }
    | _, _ => none
  | _ => none

def parseVars (s : String) : Option (List Frame.Var) :=
  ((s.trimAscii.toString.splitOn ";").filter (· ≠ "")).mapM fun e => parseVar e.trimAscii.toString

def frameLine (line : String) : String :=
  match line.splitOn "/" with
  | [b, p] =>
    match parseVars b, parseVars p with
    | some b, some p =>
      let l := Frame.assignLvarOffsets b p
      s!"stack={l.stackSize} offs=" ++ ",".intercalate (l.offsets.map toString)
    | _, _ => "bad-op"
  | _ => "bad-op"

/-! alloca -/
def parseOp (s : String) : Option Alloca.Op :=
  if s == "push" then some (.push 0)
  else if s == "pop" then some .pop
  else if s.startsWith "a" then (s.drop 1).toNat?.map fun n => .alloca (BitVec.ofNat 64 n)
  else none

def allocaLine (ws : List String) : String :=
  match ws with
  | fl :: ops =>
    match parseInt fl, ops.mapM parseOp with
    | some fl, some ops =>
      match Alloca.run (Alloca.init fl (fun _ => 0)) ops with
      | .ok (s, bs) => s!"rsp={s.rsp} bottom={s.bottom} blocks=" ++ ",".intercalate (bs.map fun b => s!"{b.addr}:{b.size}")
      | .error _ => "underflow"
    | _, _ => "bad-op"
  | _ => "bad-op"

/-! paths -/
open Lval in
mutual
  partial def parseTy (cs : List Char) : Option (Ty × List Char) :=
    match cs with
    | 'S' :: r => let (n, r) := takeNat r; some (.scalar n, r)
    | 'P' :: '(' :: r => do let (t, r) ← parseTy r; match r with | ')' :: r => some (.ptr t, r) | _ => none
    | 'A' :: r =>
      let (n, r) := takeNat r
      match r with
      | '(' :: r => do let (t, r) ← parseTy r; match r with | ')' :: r => some (.arr t n, r) | _ => none
      | _ => none
    | 'V' :: r =>
      let (n, r) := takeNat r
      match r with
      | '(' :: r => do let (t, r) ← parseTy r; match r with | ')' :: r => some (.vla t n, r) | _ => none
      | _ => none
    | 'G' :: r =>
      let (n, r) := takeNat r
      match r with
      | '{' :: r => do let (ms, r) ← parseMembers r; some (.agg n ms, r)
      | _ => none
    | _ => none
  partial def parseMembers (cs : List Char) : Option (Members × List Char) :=
    match cs with
    | '}' :: r => some (.nil, r)
    | _ =>
      let nm := cs.takeWhile (· ≠ '@')
      match cs.dropWhile (· ≠ '@') with
      | '@' :: r =>
        let (off, r) := takeNat r
        match r with
        | ':' :: r => do
          let (t, r) ← parseTy r
          match r with
          | ';' :: r => do
            let (rest, r) ← parseMembers r
            some (.cons (if nm == ['_'] then none else some (String.ofList nm)) off t rest, r)
          | _ => none
        | _ => none
      | _ => none
  partial def takeNat (cs : List Char) : Nat × List Char :=
    let ds := cs.takeWhile Char.isDigit
    ((String.ofList ds).toNat?.getD 0, cs.dropWhile Char.isDigit)
end

def parseStep (s : String) : Option Lval.Step :=
  if s.startsWith "." then some (.dot (s.drop 1).toString)
  else if s.startsWith ">" then some (.arrow (s.drop 1).toString)
  else if s.startsWith "[" ∧ s.endsWith "]" then (parseInt ((s.drop 1).dropEnd 1).toString).map .index
  else none

def showFail : Lval.Fail → String
  | .notLvalue => "not-lvalue" | .notStruct => "not-struct" | .noSuchMember => "no-such-member"
  | .invalidOperands => "invalid-operands" | .fuel => "fuel"

def pathLine (line : String) : String :=
  match line.splitOn "|" with
  | [t, p] =>
    match parseTy t.trimAscii.toString.toList, (words p).mapM parseStep with
    | some (ty, []), some steps =>
      let env : Lval.Env := ⟨fun _ => 2000000⟩
      let spec := match Lval.designate env 1000000 ty steps with
        | some (a, t) => s!"spec={a} size={t.sizeof}"
        | none => "spec=none"
      let root : Lval.Node := match ty with
        | .vla _ _ => .vlaVar 1000000 ty     -- the slot holds 2000000
        | _ => .var 1000000 ty
      let spec := match ty with
        | .vla _ _ => (match Lval.designate env 2000000 ty steps with
            | some (a, t) => s!"spec={a} size={t.sizeof}"
            | none => "spec=none")
        | _ => spec
      match Lval.elabPath root steps with
      | .ok n =>
        match Lval.genAddr env n with
        | .ok a => s!"addr={a} {spec} wf={ty.allWf}"
        | .error e => s!"error {showFail e} {spec}"
      | .error e => s!"error {showFail e} {spec}"
    | _, _ => "bad-op"
  | _ => "bad-op"

/-! bounds of paths -/
def parseEnvPairs (s : String) : Option (List (Int × Int)) :=
  (words s).mapM fun w =>
    match w.splitOn "=" with
    | [a, b] => (do let a ← parseInt a; let b ← parseInt b; pure (a, b))
    | _ => none

def pathbLine (line : String) : String :=
  match line.splitOn "|" with
  | [t, p, e] =>
    match parseTy t.trimAscii.toString.toList, (words p).mapM parseStep, parseEnvPairs e with
    | some (ty, []), some steps, some pairs =>
      let env : Lval.Env := ⟨fun a => match pairs.find? (fun q => q.1 == a) with | some q => q.2 | none => 0⟩
      let a0 : Int := 1000000
      let root : Lval.Node := .var a0 ty
      match Lval.elabPath root steps, Lval.designate env a0 ty steps with
      | .ok n, some (a', t') =>
        match Lval.genAddr env n with
        | .ok a =>
          let ok := Lval.pathOk env a0 ty steps
          let enc := Lval.enclosing env a0 ty.sizeof a0 ty steps
          let inside := decide (enc.1 ≤ a') && decide (a' + (t'.sizeof : Int) ≤ enc.1 + (enc.2 : Int))
          let sum := match Lval.offsetTerms ty steps with
            | some (ks, _) => toString (a0 + ks.sum)
            | none => "none"
          s!"addr={a} spec={a'} size={t'.sizeof} ok={if ok then 1 else 0} encl={enc.1}:{enc.2} in={if inside then 1 else 0} sum={sum} fits={if ty.fits then 1 else 0} wf={if ty.allWf then 1 else 0}"
        | .error e => s!"error {showFail e}"
      | .error e, _ => s!"error {showFail e}"
      | .ok _, none => "error spec-none"
    | _, _, _ => "bad-op"
  | _ => "bad-op"

/-! `_Bool` stores and the machine runs -/
def boolseqLine (ws : List String) : String :=
  match ws with
  | [sm] => " | ".intercalate ((Gen.C04.boolCastLines (sm == "1") ++ Gen.C04.storeIntLines (BfType.bool).implSize).map lineText)
  | _ => "bad-op"

def structseqLine (ws : List String) : String :=
  match ws with
  | [sz] => match sz.toNat? with
    | some n => " | ".intercalate ((Gen.C04.storeStructLines n).map lineText)
    | none => "bad-op"
  | _ => "bad-op"

def insOf (ls : List Line) : List Ins := ls.flatMap Line.instrs

def hexBytes (s : String) : Option (List Nat) :=
  let rec go : List Char → Option (List Nat)
    | [] => some []
    | a :: b :: r => do
      let x ← hexDigit a; let y ← hexDigit b; let t ← go r
      pure ((x * 16 + y) :: t)
    | _ => none
  go s.toList

def hex2 (n : Nat) : String := String.ofList ((Nat.toDigits 16 (n / 16 % 16)) ++ (Nat.toDigits 16 (n % 16)))

def BUF : Nat := 0x100000
def STK : Nat := 0x800000

/-- machine state: a buffer at `BUF`, an 8-byte stack slot at `STK` holding `top`, %rsp = STK, %rax = v, %rdi = rdi -/
def mkState (buf : List Nat) (top v rdi : Nat) : X86.State :=
  { regs := fun r => if r = .rax then BitVec.ofNat 64 v else if r = .rsp then BitVec.ofNat 64 STK
                     else if r = .rdi then BitVec.ofNat 64 rdi else 0
    mem := fun a =>
      let n := a.toNat
      if BUF ≤ n ∧ n < BUF + buf.length then BitVec.ofNat 8 (buf.getD (n - BUF) 0)
      else if STK ≤ n ∧ n < STK + 8 then BitVec.ofNat 8 (top / 256 ^ (n - STK) % 256)
      else 0 }

def dumpBuf (s : X86.State) (len : Nat) : String :=
  String.join ((List.range len).map fun i => hex2 (s.mem (BitVec.ofNat 64 (BUF + i))).toNat)

def x86bfLine (ws : List String) : String :=
  match ws with
  | [t, w, o, buf, v] =>
    match bfTypeOf t, w.toNat?, o.toNat?, hexBytes buf, parseHex v with
    | some t, some w, some o, some buf, some v =>
      let s0 := mkState buf (BUF + 8) v 0
      match X86.run (insOf (assignSeq t w o)) s0 with
      | none => "fault"
      | some s1 =>
        let s2 := s1.set .rax (BitVec.ofNat 64 (BUF + 8))
        match X86.run (insOf (loadSeq t w o)) s2 with
        | none => "fault"
        | some s3 =>
          s!"assign={toHex (s1.get .rax).toNat} load={toHex (s3.get .rax).toNat} buf={dumpBuf s3 buf.length} rsp={(s1.get .rsp).toNat - STK}"
    | _, _, _, _, _ => "bad-op"
  | _ => "bad-op"

def x86boolLine (ws : List String) : String :=
  match ws with
  | [sm, buf, v] =>
    match hexBytes buf, parseHex v with
    | some buf, some v =>
      let s0 := mkState buf (BUF + 8) v 0
      match X86.run (insOf (Gen.C04.boolCastLines (sm == "1") ++ Gen.C04.storeIntLines (BfType.bool).implSize)) s0 with
      | none => "fault"
      | some s1 => s!"rax={toHex (s1.get .rax).toNat} buf={dumpBuf s1 buf.length} rsp={(s1.get .rsp).toNat - STK}"
    | _, _ => "bad-op"
  | _ => "bad-op"

def x86copyLine (ws : List String) : String :=
  match ws with
  | [sz, d, sr, buf] =>
    match sz.toNat?, d.toNat?, sr.toNat?, hexBytes buf with
    | some sz, some d, some sr, some buf =>
      let s0 := mkState buf (BUF + d) (BUF + sr) 0
      match X86.run (insOf (Gen.C04.storeStructLines sz)) s0 with
      | none => "fault"
      | some s1 => s!"buf={dumpBuf s1 buf.length} rax={(s1.get .rax).toNat - BUF} rsp={(s1.get .rsp).toNat - STK}"
    | _, _, _, _ => "bad-op"
  | _ => "bad-op"

def bfstmtLine (ws : List String) : String :=
  match ws with
  | [d, k, c, t, w, o] =>
    match parseInt d, parseInt k, parseInt c, bfTypeOf t, w.toNat?, o.toNat? with
    | some d, some k, some c, some t, some w, some o =>
      " | ".intercalate ((assignLocalSeq d k c t w o).map lineText)
    | _, _, _, _, _, _ => "bad-op"
  | _ => "bad-op"

def pushseqLine (ws : List String) : String :=
  match ws with
  | [sz] => match sz.toNat? with
    | some n => " | ".intercalate ((Gen.C04.pushStructLines n).map lineText)
    | none => "bad-op"
  | _ => "bad-op"

def retseqLine (ws : List String) : String :=
  match ws with
  | [off, sz] => match parseInt off, sz.toNat? with
    | some o, some n => " | ".intercalate ((Gen.C04.copyStructMemLines o n).map lineText)
    | _, _ => "bad-op"
  | _ => "bad-op"

def x86pushLine (ws : List String) : String :=
  match ws with
  | [sz, d, sr, buf] =>
    match sz.toNat?, d.toNat?, sr.toNat?, hexBytes buf with
    | some sz, some d, some sr, some buf =>
      let n8 := (Gen.Declspec.alignTo (sz : Int) 8).toNat
      let s0 := (mkState buf 0 (BUF + sr) 0).set .rsp (BitVec.ofNat 64 (BUF + d + n8))
      match X86.run (insOf (Gen.C04.pushStructLines sz)) s0 with
      | none => "fault"
      | some s1 => s!"buf={dumpBuf s1 buf.length} rax={(s1.get .rax).toNat - BUF} rsp={((s1.get .rsp).toNat : Int) - ((BUF + d + n8 : Nat) : Int)}"
    | _, _, _, _ => "bad-op"
  | _ => "bad-op"

def x86retLine (ws : List String) : String :=
  match ws with
  | [sz, d, sr, buf] =>
    match sz.toNat?, d.toNat?, sr.toNat?, hexBytes buf with
    | some sz, some d, some sr, some buf =>
      let s0 := (mkState buf (BUF + d) (BUF + sr) 0).set .rbp (BitVec.ofNat 64 (STK + 8))
      match X86.run (insOf (Gen.C04.copyStructMemLines (-8) sz)) s0 with
      | none => "fault"
      | some s1 => s!"buf={dumpBuf s1 buf.length} rax={(s1.get .rax).toNat - BUF}"
    | _, _, _, _ => "bad-op"
  | _ => "bad-op"

partial def loop (h : IO.FS.Stream) (f : String → String) : IO UInt32 := do
  let line ← h.getLine
  if line.isEmpty then return 0
  if line.trimAscii.toString.isEmpty then loop h f
  else
    IO.println (f line)
    loop h f

def run (sub : String) : IO UInt32 := do
  let h ← IO.getStdin
  match sub with
  | "bfseq" => loop h (fun l => bfseqLine (words l))
  | "bfmodel" => loop h (fun l => bfmodelLine (words l))
  | "frame" => loop h frameLine
  | "alloca" => loop h (fun l => allocaLine (words l))
  | "path" => loop h pathLine
  | "pathb" => loop h pathbLine
  | "boolseq" => loop h (fun l => boolseqLine (words l))
  | "structseq" => loop h (fun l => structseqLine (words l))
  | "x86bf" => loop h (fun l => x86bfLine (words l))
  | "x86bool" => loop h (fun l => x86boolLine (words l))
  | "x86copy" => loop h (fun l => x86copyLine (words l))
  | "pushseq" => loop h (fun l => pushseqLine (words l))
  | "bfstmt" => loop h (fun l => bfstmtLine (words l))
  | "retseq" => loop h (fun l => retseqLine (words l))
  | "x86push" => loop h (fun l => x86pushLine (words l))
  | "x86ret" => loop h (fun l => x86retLine (words l))
  | _ => IO.eprintln "usage: drv_c04 bfseq|bfmodel|frame|alloca|path|pathb|boolseq|structseq|pushseq|retseq|bfstmt|x86bf|x86bool|x86copy|x86push|x86ret"; return 2

end ChibiVerif.Driver.C04
