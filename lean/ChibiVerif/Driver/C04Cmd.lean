/-
Command loops of `drv_c04` (one operation per input line, one canonical output line per operation).

  bfseq    `<type> <w> <o>`                        → `L: l1 | l2 | l3 ## A: a1 | a2 | …`   (text of the two sequences)
  bfmodel  `<type> <w> <o> <old hex> <v hex>`      → `unit=<hex> rax=<hex> load=<hex> spec=<hex>`
  frame    `<body> / <params>`  with entries `size,align,isArray,byStack` separated by `;`
                                                   → `stack=<n> offs=<o1>,<o2>,…`   (order of fn->locals)
  alloca   `<frameLow> <op> <op> …`  ops: `push` `pop` `a<n>`
                                                   → `rsp=<n> bottom=<n> blocks=<addr>:<size>,…` or `underflow`
  path     `<type> | <step> <step> …`              → `addr=<n> spec=<n>` | `error <e> spec=none` …
             type:  S<size> | P(<type>) | A<len>(<type>) | V<len>(<type>) | G<size>{<name>@<off>:<type>;…}  (`_` = anonymous)
             step:  .name | >name | [i]            the object is at address 1000000, every stored pointer is 2000000
-/
import ChibiVerif.Model.BitField
import ChibiVerif.Spec.C04Spec
import ChibiVerif.Model.Frame
import ChibiVerif.Model.Alloca
import ChibiVerif.Model.Lval

namespace ChibiVerif.Driver.C04
open ChibiVerif.Asm ChibiVerif.BitField

def words (line : String) : List String := (line.trimAscii.toString.splitOn " ").filter (· ≠ "")

def bfTypeOf : String → Option BfType
  | "bool" => some .bool | "char" => some .char | "uchar" => some .uchar | "short" => some .short
  | "ushort" => some .ushort | "int" => some .int | "uint" => some .uint | "long" => some .long | "ulong" => some .ulong
  | _ => none

def lineText (l : Line) : String := (l.render.trimAscii).toString

def hexDigit (c : Char) : Option Nat :=
  if '0' ≤ c ∧ c ≤ '9' then some (c.toNat - '0'.toNat)
  else if 'a' ≤ c ∧ c ≤ 'f' then some (c.toNat - 'a'.toNat + 10)
  else none

def parseHex (s : String) : Option Nat :=
  s.toList.foldl (fun acc c => match acc, hexDigit c with
    | some a, some d => some (a * 16 + d)
    | _, _ => none) (some 0)

def toHex (n : Nat) : String := String.ofList (Nat.toDigits 16 n)

def parseInt (s : String) : Option Int :=
  if s.startsWith "-" then (s.drop 1).toNat?.map fun n => -(n : Int) else s.toNat?.map fun n => (n : Int)

def bfseqLine (ws : List String) : String :=
  match ws with
  | [t, w, o] =>
    match bfTypeOf t, w.toNat?, o.toNat? with
    | some t, some w, some o =>
      "L: " ++ " | ".intercalate ((loadSeq t w o).map lineText) ++ " ## A: " ++ " | ".intercalate ((assignSeq t w o).map lineText)
    | _, _, _ => "bad-op"
  | _ => "bad-op"

def bfmodelLine (ws : List String) : String :=
  match ws with
  | [t, w, o, old, v] =>
    match bfTypeOf t, w.toNat?, o.toNat?, parseHex old, parseHex v with
    | some t, some w, some o, some old, some v =>
      let r := bfAssignT t w o (BitVec.ofNat _ old) (BitVec.ofNat 64 v)
      s!"unit={toHex r.unit.toNat} rax={toHex r.rax.toNat} load={toHex (bfLoadT t w o r.unit).toNat} spec={toHex (Spec.C04.fieldValue t w (BitVec.ofNat 64 v)).toNat}"
    | _, _, _, _, _ => "bad-op"
  | _ => "bad-op"

/-! frame -/
def parseVar (s : String) : Option Frame.Var :=
  match s.splitOn "," with
  | [sz, al, arr, st] =>
    match parseInt sz, parseInt al with
    | some sz, some al => some { size := sz, align := al, isArray := arr == "1", byStack := st == "1" }
    | _, _ => none
  | _ => none

def parseVars (s : String) : Option (List Frame.Var) :=
  ((s.trimAscii.toString.splitOn ";").filter (· ≠ "")).mapM fun e => parseVar e.trimAscii.toString

def frameLine (line : String) : String :=
  match line.splitOn "/" with
  | [b, p] =>
    match parseVars b, parseVars p with
    | some b, some p =>
      let l := Frame.assignLvarOffsets b p
      s!"stack={l.stackSize} offs=" ++ ",".intercalate (l.offsets.map toString)
    | _, _ => "bad-op"
  | _ => "bad-op"

/-! alloca -/
def parseOp (s : String) : Option Alloca.Op :=
  if s == "push" then some (.push 0)
  else if s == "pop" then some .pop
  else if s.startsWith "a" then (s.drop 1).toNat?.map fun n => .alloca (BitVec.ofNat 64 n)
  else none

def allocaLine (ws : List String) : String :=
  match ws with
  | fl :: ops =>
    match parseInt fl, ops.mapM parseOp with
    | some fl, some ops =>
      match Alloca.run (Alloca.init fl (fun _ => 0)) ops with
      | .ok (s, bs) => s!"rsp={s.rsp} bottom={s.bottom} blocks=" ++ ",".intercalate (bs.map fun b => s!"{b.addr}:{b.size}")
      | .error _ => "underflow"
    | _, _ => "bad-op"
  | _ => "bad-op"

/-! paths -/
open Lval in
mutual
  partial def parseTy (cs : List Char) : Option (Ty × List Char) :=
    match cs with
    | 'S' :: r => let (n, r) := takeNat r; some (.scalar n, r)
    | 'P' :: '(' :: r => do let (t, r) ← parseTy r; match r with | ')' :: r => some (.ptr t, r) | _ => none
    | 'A' :: r =>
      let (n, r) := takeNat r
      match r with
      | '(' :: r => do let (t, r) ← parseTy r; match r with | ')' :: r => some (.arr t n, r) | _ => none
      | _ => none
    | 'V' :: r =>
      let (n, r) := takeNat r
      match r with
      | '(' :: r => do let (t, r) ← parseTy r; match r with | ')' :: r => some (.vla t n, r) | _ => none
      | _ => none
    | 'G' :: r =>
      let (n, r) := takeNat r
      match r with
      | '{' :: r => do let (ms, r) ← parseMembers r; some (.agg n ms, r)
      | _ => none
    | _ => none
  partial def parseMembers (cs : List Char) : Option (Members × List Char) :=
    match cs with
    | '}' :: r => some (.nil, r)
    | _ =>
      let nm := cs.takeWhile (· ≠ '@')
      match cs.dropWhile (· ≠ '@') with
      | '@' :: r =>
        let (off, r) := takeNat r
        match r with
        | ':' :: r => do
          let (t, r) ← parseTy r
          match r with
          | ';' :: r => do
            let (rest, r) ← parseMembers r
            some (.cons (if nm == ['_'] then none else some (String.ofList nm)) off t rest, r)
          | _ => none
        | _ => none
      | _ => none
  partial def takeNat (cs : List Char) : Nat × List Char :=
    let ds := cs.takeWhile Char.isDigit
    ((String.ofList ds).toNat?.getD 0, cs.dropWhile Char.isDigit)
end

def parseStep (s : String) : Option Lval.Step :=
  if s.startsWith "." then some (.dot (s.drop 1).toString)
  else if s.startsWith ">" then some (.arrow (s.drop 1).toString)
  else if s.startsWith "[" ∧ s.endsWith "]" then (parseInt ((s.drop 1).dropEnd 1).toString).map .index
  else none

def showFail : Lval.Fail → String
  | .notLvalue => "not-lvalue" | .notStruct => "not-struct" | .noSuchMember => "no-such-member"
  | .invalidOperands => "invalid-operands" | .fuel => "fuel"

def pathLine (line : String) : String :=
  match line.splitOn "|" with
  | [t, p] =>
    match parseTy t.trimAscii.toString.toList, (words p).mapM parseStep with
    | some (ty, []), some steps =>
      let env : Lval.Env := ⟨fun _ => 2000000⟩
      let spec := match Lval.designate env 1000000 ty steps with
        | some (a, t) => s!"spec={a} size={t.sizeof}"
        | none => "spec=none"
      let root : Lval.Node := match ty with
        | .vla _ _ => .vlaVar 1000000 ty     -- the slot holds 2000000
        | _ => .var 1000000 ty
      let spec := match ty with
        | .vla _ _ => (match Lval.designate env 2000000 ty steps with
            | some (a, t) => s!"spec={a} size={t.sizeof}"
            | none => "spec=none")
        | _ => spec
      match Lval.elabPath root steps with
      | .ok n =>
        match Lval.genAddr env n with
        | .ok a => s!"addr={a} {spec} wf={ty.allWf}"
        | .error e => s!"error {showFail e} {spec}"
      | .error e => s!"error {showFail e} {spec}"
    | _, _ => "bad-op"
  | _ => "bad-op"

partial def loop (h : IO.FS.Stream) (f : String → String) : IO UInt32 := do
  let line ← h.getLine
  if line.isEmpty then return 0
  if line.trimAscii.toString.isEmpty then loop h f
  else
    IO.println (f line)
    loop h f

def run (sub : String) : IO UInt32 := do
  let h ← IO.getStdin
  match sub with
  | "bfseq" => loop h (fun l => bfseqLine (words l))
  | "bfmodel" => loop h (fun l => bfmodelLine (words l))
  | "frame" => loop h frameLine
  | "alloca" => loop h (fun l => allocaLine (words l))
  | "path" => loop h pathLine
  | _ => IO.eprintln "usage: drv_c04 bfseq|bfmodel|frame|alloca|path"; return 2

end ChibiVerif.Driver.C04
