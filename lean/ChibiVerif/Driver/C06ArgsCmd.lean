/- `drv_c06 args`: argument conversions (Model/C06Args.lean).  One request per input line, one answer line each.

   calltext <depth> <decl> <ret> ; <param> ; .. | <arg> ; ..
        decl  := v (`f(void)`) | e (`f()`) | l0 (`f(T..)`) | l1 (`f(T.., ...)`)
        types := those of `drv_c06 callconv` plus  p (pointer)  e (enumeration);  `[ n ty ]` at top level is an array argument
        answer: the lines of the call (Model `callText`) joined by `|`, then ` # ` and per argument the inserted casts
                (`-` none) joined by `,`;  or  `diag:<message>`
   conv <from> <to> <value>      Spec.IntSpec.convert: the C11 conversion of an integer value (types: bool i8 .. u64)
   promote <ty>                  Spec.IntSpec.promote
-/
import ChibiVerif.Model.C06Args
import ChibiVerif.Driver.CallConvCmd

namespace ChibiVerif.Driver.C06ArgsCmd
open ChibiVerif.C06Args ChibiVerif.CallConv ChibiVerif.Gen.CommonType
open ChibiVerif.Driver.CallConvCmd (parseTy splitOn retBufOff)
open ChibiVerif.Spec.IntSpec (ITy)

def scalarOf : String → Option TyD
  | "b" => some ty_bool | "i1" => some ty_char | "u1" => some ty_uchar | "i2" => some ty_short | "u2" => some ty_ushort
  | "i4" => some ty_int | "u4" => some ty_uint | "i8" => some ty_long | "u8" => some ty_ulong
  | "f" => some ty_float | "d" => some ty_double | "ld" => some ty_ldouble
  | "p" => some ty_ptr | "e" => some ty_enum
  | _ => none

def parseC (ws : List String) : Option CTy :=
  match ws with
  | [w] => (scalarOf w).map CTy.scalar
  | "[" :: _ =>
    match parseTy ws with
    | some (.arr e n, []) => some (.scalar ⟨.TY_ARRAY, e.size * n, false, true⟩)
    | _ => none
  | "{" :: _ =>
    match parseTy ws with
    | some (t, []) => some (.agg t)
    | _ => none
  | _ => none

def showTyD (t : TyD) : String :=
  let k := match t.kind with
    | .TY_VOID => "void" | .TY_BOOL => "bool" | .TY_CHAR => "char" | .TY_SHORT => "short" | .TY_INT => "int"
    | .TY_LONG => "long" | .TY_FLOAT => "float" | .TY_DOUBLE => "double" | .TY_LDOUBLE => "ldouble" | .TY_ENUM => "enum"
    | .TY_PTR => "ptr" | .TY_FUNC => "func" | .TY_ARRAY => "array" | .TY_VLA => "vla" | .TY_STRUCT => "struct"
    | .TY_UNION => "union"
  (if t.isUnsigned && t.kind != .TY_PTR then "u" else "") ++ k

def declOf (d : String) (ps : List CTy) : Option (List CTy × Bool) :=
  match d with
  | "v" => if ps.isEmpty then some ([], (fnTyOf .void).variadic) else none
  | "e" => if ps.isEmpty then some ([], (fnTyOf .empty).variadic) else none
  | "l0" => if ps.isEmpty then none else some (ps, false)
  | "l1" => if ps.isEmpty then none else some (ps, true)
  | _ => none

def answerCall (depth : Nat) (decl : String) (rest : List String) : String :=
  match splitOn "|" rest with
  | [left, right] =>
    let lg := (splitOn ";" left).filter (· ≠ [])
    let rg := (splitOn ";" right).filter (· ≠ [])
    match lg with
    | [] => "bad-input"
    | retg :: pg =>
      let ret? : Option (Option ATy) := if retg == ["v"] then some none else
        (match retg with
         | [w] => (scalarOf w).map (fun d => some (atyOfDescr d))
         | _ => (parseTy retg).map (fun x => some x.1))
      match ret?, pg.mapM parseC, rg.mapM parseC with
      | some ret, some ps, some as =>
        match declOf decl ps with
        | none => "bad-input"
        | some (ps, variadic) =>
          -- `func_params()` adjusts array parameters
          let ps := ps.map fun p => match p with
            | .scalar d => CTy.scalar (adjustParam d)
            | p => p
          let c : Call := { ret := ret, params := ps, variadic := variadic, args := as }
          let off : Int := match callSig c with
            | .ok s => retBufOff s
            | .error _ => 0
          match callText depth c off, c.casts with
          | .ok ls, .ok cs =>
            "|".intercalate ls ++ " # " ++
              ",".intercalate (cs.map fun k => if k.isEmpty then "-" else "+".intercalate (k.map showTyD))
          | .error m, _ => "diag:" ++ m
          | _, .error m => "diag:" ++ m
      | _, _, _ => "bad-input"
  | _ => "bad-input"

partial def loop (h : IO.FS.Stream) : IO UInt32 := do
  let line ← h.getLine
  if line.isEmpty then return 0
  let ws := (line.trimAscii.toString.splitOn " ").filter (· ≠ "")
  match ws with
  | [] => loop h
  | "calltext" :: depth :: decl :: rest =>
    match depth.toNat? with
    | some d => IO.println (answerCall d decl rest)
    | none => IO.println "bad-input"
    loop h
  | ["conv", f, t, v] =>
    match ITy.ofString? f, ITy.ofString? t, v.toInt? with
    | some _, some t, some v => IO.println (toString (ChibiVerif.Spec.IntSpec.convert t v))
    | _, _, _ => IO.println "bad-input"
    loop h
  | ["promote", t] =>
    match ITy.ofString? t with
    | some t => IO.println (ChibiVerif.Spec.IntSpec.promote t).toString
    | none => IO.println "bad-input"
    loop h
  | _ => IO.println "bad-op"; loop h

def main : IO UInt32 := do loop (← IO.getStdin)

end ChibiVerif.Driver.C06ArgsCmd
