/-
Command loops of `drv_c01` (core Lean only):

  drv_c01 eval      `<t0,t1,..> <v0,v1,..> | <prefix expression>`        → `ok <type> <value> <v0,v1,..>` | `ub` | `bad`
  drv_c01 seq       `bin <NK> <t1> <t2> <ret>` | `un <NK> <t> <ret>` | `cast <t> <ret>`
                    | `op <NK> <lhs> <node>` | `uop <NK> <t>` | `cell <from> <to>` | `tobool <from>`
                    | `jcc <cc> <cmp|test> <32|64> <n>` | `cmpz <t> <e|ne> <n>`   (programs with labels and jumps, Model/X86Jump `runJ`)
                                                                             → rendered lines joined by `;;`  | `none`
  drv_c01 x86exec   `<op|uop|cell|tobool spec> | rax rdi rcx rdx` (decimal, unsigned 64-bit)
                                                                             → `ok rax rdi rcx rdx zf sf cf of pf valid` | `fault` | `undecodable`
  drv_c01 ctype     `<t1> <t2>`                                            → result of Gen.getCommonType as (kind,size,unsigned)
  drv_c01 compile   `<t0,t1,..> <off0,off1,..> | <prefix expression>`      → `ok <type> <stack slots> <ins;;ins;;…>` | `none`
                    (Model/C01Expr `compileE`: the code of a whole side-effect-free expression tree, variable i at offi(%rbp))
  drv_c01 compilex  `<t0,..> <off0,..> <toff0,..> <N> | <prefix expression>` → `ok <type> <stack slots> <temporaries> <nc 0|1> <pure 0|1> <lay 0|1> <ins;;…>` | `none`
                    (`compileX`: also `,` `=` `op=` `++` `--` on variables; hidden temporary k at toffk(%rbp);
                     nc = the C11 no-conflict side condition of theorem C01_value_effects holds; pure = `compileE` gives the same code;
                     lay = `layoutOK`: variables and temporaries lie inside the N-byte frame, pairwise disjoint)
  drv_c01 compilej  `<t0,..> <off0,..> <toff0,..> <N> <c0> | <prefix expression>` → `ok <type> <stack slots> <temporaries> <c1> <nc 0|1> <isx 0|1> <lay 0|1> <line;;…>` | `none`
                    (Model/C01ExprJ `compileJ`: the full expression type incl. `&&` `||` `?:`; labels numbered from c0 (the value
                     `count()` returns next), c1 = the counter afterwards; lines are instructions, `label:` and jumps;
                     isx = `compileX` accepts the expression and gives the same (jump-free) code)
  drv_c01 lvalue    `<t0,..> <off0,..> <toff0,..> <c0> <ret> | <root form>`     → `ok <type> <temporaries> <c1> <line;;…>` | `none`
                    (Model/C01Lvalue `compileL`: an lvalue other than a variable read / assigned / compound-assigned at the root:
                     root = `LOAD <t> <lval>` | `LSET <t> <lval> <expr>` | `LOP <op> <t> <lval> <expr>`;
                     lval = `LV <i>` | `LM <d> <lval>` | `LI <i0> <esz> <expr>` | `LD <j>` | `LP <j> <esz> <expr>`)
  drv_c01 compilea  `<t0,..> <off0,..> <toff0,..> <c0> | <lval> ; <lval> ; … | <prefix expression>`
                                                                             → `ok <type> <temporaries> <c1> <nc 0|1> <side 0|1> <line;;…>` | `none`
                    (Model/C01ExprA `compileA`: the variables are the scalar objects, object i is designated by the i-th lvalue of the
                     table (objects beyond it are plain variables); side = the side conditions of theorem C01_value_lvalues hold: every
                     accessed object's lvalue passes `lvOK` and the expression assigns none of the variables addresses depend on)
  drv_c01 ptrseq    `<form> <index type> <element size> <offP> <offI> <tmp>`   → `<ins;;…>` | `none`
                    (pointer arithmetic of parse.c new_add / new_sub on a pointer variable at offP(%rbp) and an index (or second
                     pointer) at offI(%rbp): add | sub | diff | addassign | subassign | preinc | predec | postinc | postdec)
-/
import ChibiVerif.Spec.IntSpec
import ChibiVerif.Model.X86
import ChibiVerif.Model.C01Codegen
import ChibiVerif.Model.C01Expr
import ChibiVerif.Model.C01ExprJ
import ChibiVerif.Model.C01Lvalue
import ChibiVerif.Model.C01ExprA

namespace ChibiVerif.Driver.C01
open ChibiVerif.Spec.IntSpec ChibiVerif.Gen.CommonType ChibiVerif.C01Codegen ChibiVerif.Asm ChibiVerif.X86J

def words (s : String) : List String := (s.trimAscii.toString.splitOn " ").filter (· ≠ "")

def binOpOf? : String → Option BinOp
  | "add" => some .add | "sub" => some .sub | "mul" => some .mul | "div" => some .div | "mod" => some .mod
  | "band" => some .band | "bor" => some .bor | "bxor" => some .bxor | "shl" => some .shl | "shr" => some .shr
  | "eq" => some .eq | "ne" => some .ne | "lt" => some .lt | "le" => some .le | "gt" => some .gt | "ge" => some .ge
  | _ => none

def unOpOf? : String → Option UnOp
  | "neg" => some .neg | "bitnot" => some .bitnot | "lognot" => some .lognot | "plus" => some .plus
  | _ => none

/-- prefix-notation parser; fuel = number of tokens -/
def parseE : Nat → List String → Option (E × List String)
  | 0, _ => none
  | fuel + 1, toks =>
    match toks with
    | "L" :: t :: v :: rest => do some (.lit (← ITy.ofString? t) (← v.toInt?), rest)
    | "V" :: i :: rest => do some (.var (← i.toNat?), rest)
    | "U" :: op :: rest => do
        let o ← unOpOf? op
        let (e, r) ← parseE fuel rest
        some (.un o e, r)
    | "B" :: op :: rest => do
        let o ← binOpOf? op
        let (a, r1) ← parseE fuel rest
        let (b, r2) ← parseE fuel r1
        some (.bin o a b, r2)
    | "AND" :: rest => do
        let (a, r1) ← parseE fuel rest
        let (b, r2) ← parseE fuel r1
        some (.land a b, r2)
    | "OR" :: rest => do
        let (a, r1) ← parseE fuel rest
        let (b, r2) ← parseE fuel r1
        some (.lor a b, r2)
    | "C" :: rest => do
        let (c, r0) ← parseE fuel rest
        let (a, r1) ← parseE fuel r0
        let (b, r2) ← parseE fuel r1
        some (.cond c a b, r2)
    | "SEQ" :: rest => do
        let (a, r1) ← parseE fuel rest
        let (b, r2) ← parseE fuel r1
        some (.comma a b, r2)
    | "CAST" :: t :: rest => do
        let ty ← ITy.ofString? t
        let (e, r) ← parseE fuel rest
        some (.cast ty e, r)
    | "SET" :: i :: rest => do
        let (e, r) ← parseE fuel rest
        some (.assign (← i.toNat?) e, r)
    | "OPSET" :: op :: i :: rest => do
        let o ← binOpOf? op
        let (e, r) ← parseE fuel rest
        some (.opassign o (← i.toNat?) e, r)
    | "PREINC" :: i :: rest => do some (.preinc (← i.toNat?), rest)
    | "PREDEC" :: i :: rest => do some (.predec (← i.toNat?), rest)
    | "POSTINC" :: i :: rest => do some (.postinc (← i.toNat?), rest)
    | "POSTDEC" :: i :: rest => do some (.postdec (← i.toNat?), rest)
    | _ => none

def csv (s : String) : List String := if s = "-" then [] else (s.splitOn ",").filter (· ≠ "")

def evalLine (line : String) : String :=
  match line.splitOn "|" with
  | [hd, ex] =>
    match words hd with
    | [ts, vs] =>
      let tys := (csv ts).map ITy.ofString?
      let vals := (csv vs).map String.toInt?
      if tys.any Option.isNone || vals.any Option.isNone || tys.length ≠ vals.length then "bad env" else
      let σ : Env := ⟨tys.filterMap id, vals.filterMap id⟩
      let toks := words ex
      match parseE (toks.length + 1) toks with
      | some (e, []) =>
        match typeOf σ e, evalE σ e with
        | some t, some (v, σ') =>
            s!"ok {t.toString} {v} " ++ (if σ'.vals.isEmpty then "-" else ",".intercalate (σ'.vals.map toString))
        | none, _ => "bad type"
        | _, none => "ub"
      | _ => "bad expr"
    | _ => "bad env"
  | _ => "bad line"

/-! ### type names → chibicc descriptors -/

def tydOf? : String → Option TyD
  | "bool" => some ty_bool | "i8" => some ty_char | "i16" => some ty_short | "i32" => some ty_int | "i64" => some ty_long
  | "u8" => some ty_uchar | "u16" => some ty_ushort | "u32" => some ty_uint | "u64" => some ty_ulong
  | "enum" => some ty_enum | "ptr" => some ty_ptr
  | "f32" => some ty_float | "f64" => some ty_double | "f80" => some ty_ldouble | "void" => some ty_void
  | _ => none

def nkOf? : String → Option NK
  | "ND_ADD" => some .ND_ADD | "ND_SUB" => some .ND_SUB | "ND_MUL" => some .ND_MUL | "ND_DIV" => some .ND_DIV
  | "ND_MOD" => some .ND_MOD | "ND_BITAND" => some .ND_BITAND | "ND_BITOR" => some .ND_BITOR
  | "ND_BITXOR" => some .ND_BITXOR | "ND_SHL" => some .ND_SHL | "ND_SHR" => some .ND_SHR | "ND_EQ" => some .ND_EQ
  | "ND_NE" => some .ND_NE | "ND_LT" => some .ND_LT | "ND_LE" => some .ND_LE | "ND_NEG" => some .ND_NEG
  | "ND_BITNOT" => some .ND_BITNOT | "ND_NOT" => some .ND_NOT
  | _ => none

/-- the lines a `seq` / `x86exec` spec denotes -/
def specLines (ws : List String) : Option (List Line) :=
  match ws with
  | ["bin", k, t1, t2, r] => do fnBinary (← nkOf? k) (← tydOf? t1) (← tydOf? t2) (← tydOf? r)
  | ["un", k, t, r] => do fnUnary (← nkOf? k) (← tydOf? t) (← tydOf? r)
  | ["cast", t, r] => do some (fnCast (← tydOf? t) (← tydOf? r))
  | ["op", k, l, n] => do genBinop (← nkOf? k) (← tydOf? l) (← tydOf? n)
  | ["uop", k, t] => do genUnop (← nkOf? k) (← tydOf? t)
  | ["cell", f, t] => do some (cast (← tydOf? f) (← tydOf? t))
  | ["tobool", f] => do some (cast (← tydOf? f) ty_bool)
  | ["load", t] => do some (load (← tydOf? t))
  | ["store", t] => do some (store (← tydOf? t))
  | ["push"] => some [ins1 "push" (.r "%rax"), ins1 "pop" (.r "%rdi")]
  | ["lea", d] => do some [.ins (ChibiVerif.C01.iLea (← d.toInt?))]
  | ["imm", v] => do some [.ins (ChibiVerif.C01.iMovImm (← v.toInt?))]
  | _ => none

/-- the text of one program line as chibicc prints it (without indentation) -/
def jiText : JI → String
  | .ins i => i.render
  | .lbl l => l.render ++ ":"
  | .jmp l => "jmp " ++ l.render
  | .jcc c l => "j" ++ ccSuffix c ++ " " ++ l.render

/-- programs with jumps for the CPU leg:
    `jcc <cc> <cmp|test> <32|64> <n>`: `cmp/test %edi, %eax; jCC .L.true.n; mov $0, %rcx; jmp .L.end.n; .L.true.n: mov $1, %rcx; .L.end.n:`
    `cmpz <type> <e|ne> <n>`: `cmp_zero(type); je/jne .L.true.n; mov $0, %rcx; jmp .L.end.n; .L.true.n: mov $1, %rcx; .L.end.n:`
    (`%rcx` = 1 iff the jump was taken) -/
def specJ (ws : List String) : Option (List JI) :=
  let tail (c : X86.CC) (n : Nat) : List JI :=
    [.jcc c ⟨.true_, n⟩, .ins ⟨"mov", [.i 0, .r "%rcx"]⟩, .jmp ⟨.end_, n⟩, .lbl ⟨.true_, n⟩, .ins ⟨"mov", [.i 1, .r "%rcx"]⟩,
     .lbl ⟨.end_, n⟩]
  match ws with
  | ["jcc", cc, op, w, n] => do
      let c ← ccOfSuffix? cc
      let k ← n.toNat?
      let (a, d) ← (if w = "32" then some ("%eax", "%edi") else if w = "64" then some ("%rax", "%rdi") else none)
      if op = "cmp" ∨ op = "test" then some (JI.ins ⟨op, [.r d, .r a]⟩ :: tail c k) else none
  | ["cmpz", t, cc, n] => do
      let ty ← ITy.ofString? t
      let c ← (if cc = "e" then some X86.CC.e else if cc = "ne" then some X86.CC.ne else none)
      let k ← n.toNat?
      some (J (ChibiVerif.C01.cmpZeroSeq ty) ++ tail c k)
  | _ => none

def seqLine (line : String) : String :=
  match specJ (words line) with
  | some p => ";;".intercalate (p.map jiText)
  | none =>
  match specLines (words line) with
  | some ls => if ls.isEmpty then "empty" else ";;".intercalate (ls.map Line.render)
  | none => "none"

def b01 (b : Bool) : String := if b then "1" else "0"

/-- little-endian bytes of a quadword placed at address `a` -/
def memWith (a : Nat) (q : Nat) (rest : BitVec 64 → BitVec 8) : BitVec 64 → BitVec 8 :=
  fun x => if a ≤ x.toNat ∧ x.toNat < a + 8 then BitVec.ofNat 8 (q >>> (8 * (x.toNat - a))) else rest x

/-- `spec | rax rdi rcx rdx [mem]`.  With the optional 5th number the state has the quadword `mem` at address 0x1000;
    for `load` specs `%rax` = 0x1000 on entry; for `lea` specs `%rbp` = the second number; for `store` specs `%rsp` = 0x2000 and the quadword at 0x2000 is 0x1000
    (the object's address on top of the stack); for `push` `%rsp` = 0x2008.  The quadword at 0x1000 afterwards and `%rsp`
    are printed as 11th and 12th field. -/
def x86Line (line : String) : String :=
  match line.splitOn "|" with
  | [spec, regs] =>
    let ws := words spec
    match specJ ws, (words regs).map String.toNat? with
    | some p, (some a :: some d :: some c :: some x :: rest) =>
      let q : Nat := match rest with | [some q] => q | _ => 0
      let s0 : X86.State := { regs := fun r => match r with
                                | .rax => BitVec.ofNat 64 a | .rdi => BitVec.ofNat 64 d
                                | .rcx => BitVec.ofNat 64 c | .rdx => BitVec.ofNat 64 x | _ => 0#64,
                              mem := memWith 0x1000 q (fun _ => 0#8) }
      (match runJ p.length p 0 s0 with
       | none => "fault"
       | some s =>
          s!"ok {(s.get .rax).toNat} {(s.get .rdi).toNat} {(s.get .rcx).toNat} {(s.get .rdx).toNat} " ++
          s!"{b01 s.zf} {b01 s.sf} {b01 s.cf} {b01 s.of} {b01 s.pf} {b01 s.flagsValid} " ++
          s!"{(s.read64 0x1000#64).toNat} {(s.get .rsp).toNat}")
    | _, _ =>
    match specLines ws, (words regs).map String.toNat? with
    | some ls, (some a :: some d :: some c :: some x :: rest) =>
      let q : Nat := match rest with | [some q] => q | _ => 0
      let kind := ws.headD ""
      let rax := if kind = "load" then 0x1000 else a
      let rsp := if kind = "store" then 0x2000 else if kind = "push" then 0x2008 else 0
      let rbp := if kind = "lea" then d else 0       -- `lea` specs: %rbp = the second number
      let s0 : X86.State := { regs := fun r => match r with
                                | .rax => BitVec.ofNat 64 rax | .rdi => BitVec.ofNat 64 d
                                | .rcx => BitVec.ofNat 64 c | .rdx => BitVec.ofNat 64 x
                                | .rsp => BitVec.ofNat 64 rsp | .rbp => BitVec.ofNat 64 rbp | _ => 0#64,
                              mem := memWith 0x1000 q (memWith 0x2000 0x1000 (fun _ => 0#8)) }
      let is := ls.flatMap Line.instrs
      match X86.decodeAll is with
      | none => "undecodable"
      | some _ =>
        match X86.run is s0 with
        | none => "fault"
        | some s =>
          s!"ok {(s.get .rax).toNat} {(s.get .rdi).toNat} {(s.get .rcx).toNat} {(s.get .rdx).toNat} " ++
          s!"{b01 s.zf} {b01 s.sf} {b01 s.cf} {b01 s.of} {b01 s.pf} {b01 s.flagsValid} " ++
          s!"{(s.read64 0x1000#64).toNat} {(s.get .rsp).toNat}"
    | _, _ => "bad"
  | _ => "bad"

def kindName : Kind → String
  | .TY_VOID => "void" | .TY_BOOL => "bool" | .TY_CHAR => "char" | .TY_SHORT => "short" | .TY_INT => "int"
  | .TY_LONG => "long" | .TY_FLOAT => "float" | .TY_DOUBLE => "double" | .TY_LDOUBLE => "ldouble" | .TY_ENUM => "enum"
  | .TY_PTR => "ptr" | .TY_FUNC => "func" | .TY_ARRAY => "array" | .TY_VLA => "vla" | .TY_STRUCT => "struct"
  | .TY_UNION => "union"

def ctypeLine (line : String) : String :=
  match (words line).map tydOf? with
  | [some a, some b] =>
    match getCommonType a b with
    | .ty t => s!"ty {kindName t.kind} {t.size} {b01 t.isUnsigned}"
    | .ptrToBaseOf _ => "ptr-to-base-of-1"
    | .ptrTo t => s!"ptr-to {kindName t.kind}"
  | _ => "bad"

/-- `compileE` on a whole expression tree; variable `i` lives at `offs[i](%rbp)` -/
def compileLine (line : String) : String :=
  match line.splitOn "|" with
  | [hd, ex] =>
    match words hd with
    | [ts, os] =>
      let tys := (csv ts).map ITy.ofString?
      let offs := (csv os).map String.toInt?
      if tys.any Option.isNone || offs.any Option.isNone || tys.length ≠ offs.length then "bad env" else
      let tl := tys.filterMap id
      let ol := offs.filterMap id
      let toks := words ex
      match parseE (toks.length + 1) toks with
      | some (e, []) =>
        match ChibiVerif.C01.compileE tl (fun i => ol.getD i 0) e with
        | some (t, code) =>
            s!"ok {t.toString} {ChibiVerif.C01.depthE e} " ++ (if code.isEmpty then "empty" else ";;".intercalate (code.map Ins.render))
        | none => "none"
      | _ => "bad expr"
    | _ => "bad env"
  | _ => "bad line"

def compileXLine (line : String) : String :=
  match line.splitOn "|" with
  | [hd, ex] =>
    match words hd with
    | [ts, os, tos, ns] =>
      let tys := (csv ts).map ITy.ofString?
      let offs := (csv os).map String.toInt?
      let toffs := (csv tos).map String.toInt?
      if tys.any Option.isNone || offs.any Option.isNone || toffs.any Option.isNone || tys.length ≠ offs.length then "bad env" else
      let tl := tys.filterMap id
      let ol := offs.filterMap id
      let tol := toffs.filterMap id
      let toks := words ex
      match parseE (toks.length + 1) toks with
      | some (e, []) =>
        match ChibiVerif.C01.compileX tl (fun i => ol.getD i 0) (fun k => tol.getD k 0) 0 e with
        | some (t, code, k) =>
            let pure := match ChibiVerif.C01.compileE tl (fun i => ol.getD i 0) e with
              | some (t', code') => t' == t && code' == code
              | none => false
            let lay := match ns.toInt? with
              | some n => ChibiVerif.C01.layoutOK tl (fun i => ol.getD i 0) (fun k => tol.getD k 0) k n
              | none => false
            s!"ok {t.toString} {ChibiVerif.C01.depthX e} {k} {b01 (ChibiVerif.C01.noConflict e)} {b01 pure} {b01 lay} " ++
              (if code.isEmpty then "empty" else ";;".intercalate (code.map Ins.render))
        | none => "none"
      | _ => "bad expr"
    | _ => "bad env"
  | _ => "bad line"

def compileJLine (line : String) : String :=
  match line.splitOn "|" with
  | [hd, ex] =>
    match words hd with
    | [ts, os, tos, ns, cs] =>
      let tys := (csv ts).map ITy.ofString?
      let offs := (csv os).map String.toInt?
      let toffs := (csv tos).map String.toInt?
      if tys.any Option.isNone || offs.any Option.isNone || toffs.any Option.isNone || tys.length ≠ offs.length then "bad env" else
      let tl := tys.filterMap id
      let ol := offs.filterMap id
      let tol := toffs.filterMap id
      let toks := words ex
      match parseE (toks.length + 1) toks, cs.toNat? with
      | some (e, []), some c0 =>
        match ChibiVerif.C01.compileJ tl (fun i => ol.getD i 0) (fun k => tol.getD k 0) 0 c0 e with
        | some (t, code, k, c1) =>
            let isx := match ChibiVerif.C01.compileX tl (fun i => ol.getD i 0) (fun k => tol.getD k 0) 0 e with
              | some (t', code', k') => t' == t && J code' == code && k' == k
              | none => false
            let lay := match ns.toInt? with
              | some n => ChibiVerif.C01.layoutOK tl (fun i => ol.getD i 0) (fun k => tol.getD k 0) k n
              | none => false
            s!"ok {t.toString} {ChibiVerif.C01.depthJ e} {k} {c1} {b01 (ChibiVerif.C01.noConflict e)} {b01 isx} {b01 lay} " ++
              (if code.isEmpty then "empty" else ";;".intercalate (code.map jiText))
        | none => "none"
      | _, _ => "bad expr"
    | _ => "bad env"
  | _ => "bad line"

open ChibiVerif.C01 in
/-- lvalue in prefix notation; fuel = number of tokens -/
def parseLV : Nat → List String → Option (LVal × List String)
  | 0, _ => none
  | fuel + 1, toks =>
    match toks with
    | "LV" :: i :: rest => do some (.var (← i.toNat?), rest)
    | "LD" :: j :: rest => do some (.deref (← j.toNat?), rest)
    | "LM" :: d :: rest => do
        let (l, r) ← parseLV fuel rest
        some (.member l (← d.toInt?), r)
    | "LI" :: i0 :: esz :: rest => do
        let (e, r) ← parseE (rest.length + 1) rest
        some (.index (← i0.toNat?) (← esz.toInt?) e, r)
    | "LP" :: j :: esz :: rest => do
        let (e, r) ← parseE (rest.length + 1) rest
        some (.pindex (← j.toNat?) (← esz.toInt?) e, r)
    | _ => none

open ChibiVerif.C01 in
def parseRoot (toks : List String) : Option RootL :=
  match toks with
  | "LOAD" :: t :: rest => do
      let (l, r) ← parseLV (rest.length + 1) rest
      if r.isEmpty then some (.load l (← ITy.ofString? t)) else none
  | "LSET" :: t :: rest => do
      let (l, r) ← parseLV (rest.length + 1) rest
      let (e, r2) ← parseE (r.length + 1) r
      if r2.isEmpty then some (.assign l (← ITy.ofString? t) e) else none
  | "LOP" :: op :: t :: rest => do
      let (l, r) ← parseLV (rest.length + 1) rest
      let (e, r2) ← parseE (r.length + 1) r
      if r2.isEmpty then some (.opassign (← binOpOf? op) l (← ITy.ofString? t) e) else none
  | _ => none

def lvalueLine (line : String) : String :=
  match line.splitOn "|" with
  | [hd, ex] =>
    match words hd with
    | [ts, os, tos, cs, rt] =>
      let tys := (csv ts).map ITy.ofString?
      let offs := (csv os).map String.toInt?
      let toffs := (csv tos).map String.toInt?
      if tys.any Option.isNone || offs.any Option.isNone || toffs.any Option.isNone || tys.length ≠ offs.length then "bad env" else
      let tl := tys.filterMap id
      let ol := offs.filterMap id
      let tol := toffs.filterMap id
      match parseRoot (words ex), cs.toNat?, ITy.ofString? rt with
      | some r, some c0, some ret =>
        match ChibiVerif.C01.compileL tl (fun i => ol.getD i 0) (fun k => tol.getD k 0) 0 c0 r with
        | some (t, code, k, c1) =>
            -- the function returns the value: `return` converts it to the return type
            s!"ok {t.toString} {k} {c1} " ++ ";;".intercalate ((code ++ J (ChibiVerif.C01.castSeq t ret)).map jiText)
        | none => "none"
      | _, _, _ => "bad expr"
    | _ => "bad env"
  | _ => "bad line"

open ChibiVerif.C01 in
def compileALine (line : String) : String :=
  match line.splitOn "|" with
  | [hd, tb, ex] =>
    match words hd with
    | [ts, os, tos, cs] =>
      let tys := (csv ts).map ITy.ofString?
      let offs := (csv os).map String.toInt?
      let toffs := (csv tos).map String.toInt?
      if tys.any Option.isNone || offs.any Option.isNone || toffs.any Option.isNone || tys.length ≠ offs.length then "bad env" else
      let tl := tys.filterMap id
      let ol := offs.filterMap id
      let tol := toffs.filterMap id
      let off : Nat → Int := fun i => ol.getD i 0
      let lvs := ((tb.splitOn ";").filter (fun x => !x.trimAscii.toString.isEmpty)).map fun x =>
        match parseLV ((words x).length + 1) (words x) with
        | some (l, []) => some l
        | _ => none
      if lvs.any Option.isNone then "bad table" else
      let table := lvs.filterMap id
      let toks := words ex
      match parseE (toks.length + 1) toks, cs.toNat? with
      | some (e, []), some c0 =>
        let A := accOfL tl off table
        match compileA tl (fun k => tol.getD k 0) A 0 c0 e with
        | some (t, code, k, c1) =>
            let os := objs e
            let D := os.flatMap fun i => rdL (lvOf table i)
            let side := os.all (fun i => lvOK tl off D (lvOf table i)) && (wr e).all (fun i => !D.contains i)
            s!"ok {t.toString} {k} {c1} {b01 (noConflict e)} {b01 side} " ++ ";;".intercalate (code.map jiText)
        | none => "none"
      | _, _ => "bad expr"
    | _ => "bad env"
  | _ => "bad line"

def ptrSeqLine (line : String) : String :=
  match words line with
  | [form, ti, sz, op, oi, tmp] =>
    match ITy.ofString? ti, sz.toInt?, op.toInt?, oi.toInt?, tmp.toInt? with
    | some t, some size, some offP, some offI, some tmpOff =>
      let cidx := ChibiVerif.C01.iLea offI :: ChibiVerif.C01.loadSeq t
      let code : Option (List Ins) :=
        match form with
        | "add" => some (ChibiVerif.C01.ptrAddCode false t size cidx (ChibiVerif.C01.ptrVarCode offP))
        | "sub" => some (ChibiVerif.C01.ptrAddCode true t size cidx (ChibiVerif.C01.ptrVarCode offP))
        | "diff" => some (ChibiVerif.C01.ptrDiffCode size (ChibiVerif.C01.ptrVarCode offP) (ChibiVerif.C01.ptrVarCode offI))
        | "addassign" => some (ChibiVerif.C01.ptrOpAssignCode false t size offP tmpOff cidx)
        | "subassign" => some (ChibiVerif.C01.ptrOpAssignCode true t size offP tmpOff cidx)
        | "preinc" => some (ChibiVerif.C01.ptrOpAssignCode false .i32 size offP tmpOff [ChibiVerif.C01.iMovImm 1])
        | "predec" => some (ChibiVerif.C01.ptrOpAssignCode true .i32 size offP tmpOff [ChibiVerif.C01.iMovImm 1])
        | "postinc" => some (ChibiVerif.C01.ptrPostCode false size offP tmpOff)
        | "postdec" => some (ChibiVerif.C01.ptrPostCode true size offP tmpOff)
        | _ => none
      match code with
      | some c => ";;".intercalate (c.map Ins.render)
      | none => "none"
    | _, _, _, _, _ => "bad"
  | _ => "bad"

partial def loop (h : IO.FS.Stream) (f : String → String) : IO UInt32 := do
  let line ← h.getLine
  if line.isEmpty then return 0
  if line.trimAscii.toString.isEmpty then loop h f else
  IO.println (f line)
  loop h f

def main (args : List String) : IO UInt32 := do
  let stdin ← IO.getStdin
  match args with
  | "eval" :: _ => loop stdin evalLine
  | "seq" :: _ => loop stdin seqLine
  | "x86exec" :: _ => loop stdin x86Line
  | "ctype" :: _ => loop stdin ctypeLine
  | "compile" :: _ => loop stdin compileLine
  | "compilex" :: _ => loop stdin compileXLine
  | "compilej" :: _ => loop stdin compileJLine
  | "lvalue" :: _ => loop stdin lvalueLine
  | "compilea" :: _ => loop stdin compileALine
  | "ptrseq" :: _ => loop stdin ptrSeqLine
  | _ =>
    IO.eprintln "usage: drv_c01 eval|seq|x86exec|ctype|compile|compilex|compilej|lvalue|compilea|ptrseq"
    return 2

end ChibiVerif.Driver.C01
