/- line-protocol driver for C02: `drv_c02 seq|ctype|contract` (see Driver/FpCmd.lean).
   Core Lean only (nothing imported here may import Mathlib, or the executable will not link). -/
import ChibiVerif.Driver.FpCmd

def main (args : List String) : IO UInt32 := ChibiVerif.Driver.Fp.main args
