/- line-protocol driver for C01: `drv_c01 eval|seq|x86exec|ctype` (see Driver/C01Cmd.lean).
   Core Lean only (nothing imported here may import Mathlib, or the executable will not link). -/
import ChibiVerif.Driver.C01Cmd

def main (args : List String) : IO UInt32 := ChibiVerif.Driver.C01.main args
