/- line-protocol driver for C09: `drv_c09 expand` (model of preprocess.c) | `drv_c09 spec` (C11 6.10.3 specification) |
   `drv_c09 expandh` (model, output tokens with their hide sets) | `drv_c09 strz` (the `#` operator on one argument: model,
   specification, and whether the model's text is one string literal for the lexer) | `drv_c09 subst` (one invocation through
   `subst` alone: present model, model before `fix:` 5a15c0f, specification; Driver/C09SubstCmd.lean).
   Core Lean only (nothing imported here may import Mathlib, or the executable will not link). -/
import ChibiVerif.Driver.PPCmd
import ChibiVerif.Driver.C09SubstCmd

def main (args : List String) : IO UInt32 := do
  match args with
  | "expand" :: _ => ChibiVerif.Driver.ppMain false
  | "spec" :: _ => ChibiVerif.Driver.ppMain true
  | "expandh" :: _ => ChibiVerif.Driver.ppMainH
  | "strz" :: _ => ChibiVerif.Driver.ppMainStrz
  | "subst" :: _ => ChibiVerif.Driver.ppMainSubst
  | _ =>
    IO.eprintln "usage: drv_c09 expand|spec|expandh|strz|subst"
    return 2
