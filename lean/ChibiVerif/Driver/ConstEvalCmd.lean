/- `drv_c07 eval`: one constant expression per line (prefix syntax), one canonical line out:

     (lit i32 5) (un neg E) (bin add A B) (land A B) (lor A B) (cond C A B) (cast u8 E)

   output:  ty=<ITy> spec=<int|none> wrap=<res> strict=<res> const=<true|false|res>
   where <res> is  ok:<int64 as signed decimal> | diag:<message> | hostUB | crash | unmodelled -/
import ChibiVerif.Model.ConstElab

namespace ChibiVerif.Driver.ConstEval
open ChibiVerif.Host ChibiVerif.Gen.ConstEval ChibiVerif.Spec.Const ChibiVerif.ConstElab

def tokens (s : String) : List String :=
  let spaced := s.foldl (fun acc c => if c == '(' || c == ')' then acc ++ " " ++ c.toString ++ " " else acc.push c) ""
  (spaced.splitOn " ").filter (· ≠ "")

def ity? : String → Option ITy
  | "bool" => some .bool | "i8" => some .i8 | "u8" => some .u8 | "i16" => some .i16 | "u16" => some .u16
  | "i32" => some .i32 | "u32" => some .u32 | "i64" => some .i64 | "u64" => some .u64 | _ => none

def unop? : String → Option UnOp
  | "neg" => some .neg | "bitnot" => some .bitnot | "lognot" => some .lognot | "plus" => some .plus | _ => none

def binop? : String → Option BinOp
  | "add" => some .add | "sub" => some .sub | "mul" => some .mul | "div" => some .div | "mod" => some .mod
  | "band" => some .band | "bor" => some .bor | "bxor" => some .bxor | "shl" => some .shl | "shr" => some .shr
  | "eq" => some .eq | "ne" => some .ne | "lt" => some .lt | "le" => some .le | "gt" => some .gt | "ge" => some .ge
  | _ => none

/-- recursive descent with fuel (the token count bounds the depth) -/
def parse : Nat → List String → Option (CExpr × List String)
  | 0, _ => none
  | fuel + 1, "(" :: "lit" :: t :: v :: ")" :: rest => do
    let t ← ity? t
    let v ← v.toInt?
    let _ := fuel
    some (.lit t v, rest)
  | fuel + 1, "(" :: "un" :: op :: rest => do
    let op ← unop? op
    let (e, rest) ← parse fuel rest
    match rest with
    | ")" :: rest => some (.un op e, rest)
    | _ => none
  | fuel + 1, "(" :: "bin" :: op :: rest => do
    let op ← binop? op
    let (a, rest) ← parse fuel rest
    let (b, rest) ← parse fuel rest
    match rest with
    | ")" :: rest => some (.bin op a b, rest)
    | _ => none
  | fuel + 1, "(" :: "land" :: rest => do
    let (a, rest) ← parse fuel rest
    let (b, rest) ← parse fuel rest
    match rest with
    | ")" :: rest => some (.land a b, rest)
    | _ => none
  | fuel + 1, "(" :: "lor" :: rest => do
    let (a, rest) ← parse fuel rest
    let (b, rest) ← parse fuel rest
    match rest with
    | ")" :: rest => some (.lor a b, rest)
    | _ => none
  | fuel + 1, "(" :: "cond" :: rest => do
    let (c, rest) ← parse fuel rest
    let (a, rest) ← parse fuel rest
    let (b, rest) ← parse fuel rest
    match rest with
    | ")" :: rest => some (.cond c a b, rest)
    | _ => none
  | fuel + 1, "(" :: "cast" :: t :: rest => do
    let t ← ity? t
    let (e, rest) ← parse fuel rest
    match rest with
    | ")" :: rest => some (.cast t e, rest)
    | _ => none
  | _, _ => none

def showITy : ITy → String
  | .bool => "bool" | .i8 => "i8" | .u8 => "u8" | .i16 => "i16" | .u16 => "u16"
  | .i32 => "i32" | .u32 => "u32" | .i64 => "i64" | .u64 => "u64"

def showFail : Fail → String
  | .diag m => "diag:" ++ m.replace " " "_"
  | .hostUB _ => "hostUB"
  | .crash _ => "crash"
  | .unmodelled _ => "unmodelled"

def showRes : Except Fail (BitVec 64) → String
  | .ok v => s!"ok:{v.toInt}"
  | .error f => showFail f

def showConst : Except Fail Bool → String
  | .ok b => toString b
  | .error f => showFail f

def evalLine (toks : List String) : String :=
  match parse (toks.length + 1) toks with
  | some (e, []) =>
    let n := elabE e
    let spec := match Spec.Const.eval e with | some v => toString v | none => "none"
    s!"ty={showITy (typeOf e)} spec={spec} wrap={showRes (eval2 .wrapping noFp n false)} " ++
    s!"strict={showRes (eval2 .strict noFp n false)} const={showConst (isConstExpr .wrapping noFp n)}"
  | _ => "bad-expr"

/-- `store <function> <dest> <int64>`: what a consumer keeps of a folded value -/
def storeLine : List String → String
  | [f, d, v] =>
    match v.toInt? with
    | none => "bad-op"
    | some i =>
      let x := BitVec.ofInt 64 i
      let r32 (b : BitVec 32) := toString b.toInt
      match f, d with
      | "array_designator", "*begin" => r32 (store_array_designator_begin x)
      | "array_designator", "*end" => r32 (store_array_designator_end x)
      | "array_dimensions", "array_of(len)" => r32 (store_array_dimensions_array_of_len x)
      | "attribute_list", "ty->align" => r32 (store_attribute_list_ty_align x)
      | "count_array_init_elements", "i" => r32 (store_count_array_init_elements_i x)
      | "declspec", "align" => r32 (store_declspec_align x)
      | "enum_specifier", "val" => r32 (store_enum_specifier_val x)
      | "stmt", "begin" => toString (store_stmt_begin x).toInt
      | "stmt", "end" => toString (store_stmt_end x).toInt
      | "struct_members", "mem->bit_width" => r32 (store_struct_members_mem_bit_width x)
      | "write_gvar_data", "val" => toString (store_write_gvar_data_val x).toNat
      | "write_gvar_data", "newval" => toString (store_write_gvar_data_newval x).toNat
      | _, _ => "unknown-consumer"
  | _ => "bad-op"

def writeBufLine : List String → String
  | [v, sz] =>
    match v.toInt?, sz.toNat? with
    | some i, some s =>
      match writeBuf (BitVec.ofInt 64 i) (BitVec.ofNat 32 s) with
      | .ok b => toString b.toNat
      | .error f => showFail f
    | _, _ => "bad-op"
  | _ => "bad-op"

/-- `gvar <ity> <sexpr>`: the object bits `static T x = E;` stores: storeGvar (descr T) (elabE E) (eval2 (elabE E)) -/
def gvarLine : List String → String
  | t :: toks =>
    match ity? t, parse (toks.length + 1) toks with
    | some t, some (e, []) =>
      let n := elabE e
      match eval2 .wrapping noFp n true with
      | .error f => showFail f
      | .ok v =>
        match storeGvar noFp (descr t) n v with
        | .ok b => toString b.toNat
        | .error f => showFail f
    | _, _ => "bad-op"
  | _ => "bad-op"

partial def loop (h : IO.FS.Stream) : IO UInt32 := do
  let line ← h.getLine
  if line.isEmpty then return 0
  let words := (line.trimAscii.toString.splitOn " ").filter (· ≠ "")
  match words with
  | [] => loop h
  | "eval" :: _ => IO.println (evalLine ((tokens line.trimAscii.toString).drop 1)); loop h
  | "store" :: rest => IO.println (storeLine rest); loop h
  | "gvar" :: _ => IO.println (gvarLine ((tokens line.trimAscii.toString).drop 1)); loop h
  | "writebuf" :: rest => IO.println (writeBufLine rest); loop h
  | _ => IO.println "bad-op"; loop h

def main : IO UInt32 := do loop (← IO.getStdin)

end ChibiVerif.Driver.ConstEval
