/- `drv_c07 eval`: one operation per line, one canonical line out.

   `feval E` / `fgvar <aty> E` (arithmetic constant expressions with floating operands, over the software FPU Model/SoftFp.lean):

     E ::= (lit i32 5) | (flit f64 <20 hex digits: the 80-bit long double>) | (un neg E) | (bin add A B) | (land A B) | (lor A B)
         | (cond C A B) | (cast <aty> E)            <aty> ::= bool i8 … u64 f32 f64 f80

   feval:  ty=<aty> spec=<val|none> model=<val|failure> const=<true|false|failure>
           <val> is int:<decimal> | f32:<8 hex> | f64:<16 hex> | f80:<20 hex>; `model` is `Gen.eval2 (elabA E)` (integer type, as the
           signed int64) or `Gen.evalDouble (elabA E)` converted to the expression's type (floating type)
   fgvar:  the object bits `static T x = E;` stores (hex, 2·sizeof digits; long double: 20)

   `eval E` (integer constant expressions):

     (lit i32 5) (un neg E) (bin add A B) (land A B) (lor A B) (cond C A B) (cast u8 E)

   output:  ty=<ITy> spec=<int|none> wrap=<res> strict=<res> const=<true|false|res>
   where <res> is  ok:<int64 as signed decimal> | diag:<message> | hostUB | crash | unmodelled -/
import ChibiVerif.Model.ConstElab
import ChibiVerif.Model.ConstElabF
import ChibiVerif.Model.HostFpX86

namespace ChibiVerif.Driver.ConstEval
open ChibiVerif.Host ChibiVerif.Gen.ConstEval ChibiVerif.Spec.Const ChibiVerif.ConstElab

def tokens (s : String) : List String :=
  let spaced := s.foldl (fun acc c => if c == '(' || c == ')' then acc ++ " " ++ c.toString ++ " " else acc.push c) ""
  (spaced.splitOn " ").filter (· ≠ "")

def ity? : String → Option ITy
  | "bool" => some .bool | "i8" => some .i8 | "u8" => some .u8 | "i16" => some .i16 | "u16" => some .u16
  | "i32" => some .i32 | "u32" => some .u32 | "i64" => some .i64 | "u64" => some .u64 | _ => none

def unop? : String → Option UnOp
  | "neg" => some .neg | "bitnot" => some .bitnot | "lognot" => some .lognot | "plus" => some .plus | _ => none

def binop? : String → Option BinOp
  | "add" => some .add | "sub" => some .sub | "mul" => some .mul | "div" => some .div | "mod" => some .mod
  | "band" => some .band | "bor" => some .bor | "bxor" => some .bxor | "shl" => some .shl | "shr" => some .shr
  | "eq" => some .eq | "ne" => some .ne | "lt" => some .lt | "le" => some .le | "gt" => some .gt | "ge" => some .ge
  | _ => none

/-- recursive descent with fuel (the token count bounds the depth) -/
def parse : Nat → List String → Option (CExpr × List String)
  | 0, _ => none
  | fuel + 1, "(" :: "lit" :: t :: v :: ")" :: rest => do
    let t ← ity? t
    let v ← v.toInt?
    let _ := fuel
    some (.lit t v, rest)
  | fuel + 1, "(" :: "un" :: op :: rest => do
    let op ← unop? op
    let (e, rest) ← parse fuel rest
    match rest with
    | ")" :: rest => some (.un op e, rest)
    | _ => none
  | fuel + 1, "(" :: "bin" :: op :: rest => do
    let op ← binop? op
    let (a, rest) ← parse fuel rest
    let (b, rest) ← parse fuel rest
    match rest with
    | ")" :: rest => some (.bin op a b, rest)
    | _ => none
  | fuel + 1, "(" :: "land" :: rest => do
    let (a, rest) ← parse fuel rest
    let (b, rest) ← parse fuel rest
    match rest with
    | ")" :: rest => some (.land a b, rest)
    | _ => none
  | fuel + 1, "(" :: "lor" :: rest => do
    let (a, rest) ← parse fuel rest
    let (b, rest) ← parse fuel rest
    match rest with
    | ")" :: rest => some (.lor a b, rest)
    | _ => none
  | fuel + 1, "(" :: "cond" :: rest => do
    let (c, rest) ← parse fuel rest
    let (a, rest) ← parse fuel rest
    let (b, rest) ← parse fuel rest
    match rest with
    | ")" :: rest => some (.cond c a b, rest)
    | _ => none
  | fuel + 1, "(" :: "cast" :: t :: rest => do
    let t ← ity? t
    let (e, rest) ← parse fuel rest
    match rest with
    | ")" :: rest => some (.cast t e, rest)
    | _ => none
  | _, _ => none

def showITy : ITy → String
  | .bool => "bool" | .i8 => "i8" | .u8 => "u8" | .i16 => "i16" | .u16 => "u16"
  | .i32 => "i32" | .u32 => "u32" | .i64 => "i64" | .u64 => "u64"

def showFail : Fail → String
  | .diag m => "diag:" ++ m.replace " " "_"
  | .hostUB _ => "hostUB"
  | .crash _ => "crash"
  | .unmodelled _ => "unmodelled"

def showRes : Except Fail (BitVec 64) → String
  | .ok v => s!"ok:{v.toInt}"
  | .error f => showFail f

def showConst : Except Fail Bool → String
  | .ok b => toString b
  | .error f => showFail f

def evalLine (toks : List String) : String :=
  match parse (toks.length + 1) toks with
  | some (e, []) =>
    let n := elabE e
    let spec := match Spec.Const.eval e with | some v => toString v | none => "none"
    s!"ty={showITy (typeOf e)} spec={spec} wrap={showRes (eval2 .wrapping noFp n false)} " ++
    s!"strict={showRes (eval2 .strict noFp n false)} const={showConst (isConstExpr .wrapping noFp n)}"
  | _ => "bad-expr"

/-- `store <function> <dest> <int64>`: what a consumer keeps of a folded value -/
def storeLine : List String → String
  | [f, d, v] =>
    match v.toInt? with
    | none => "bad-op"
    | some i =>
      let x := BitVec.ofInt 64 i
      let r32 (b : BitVec 32) := toString b.toInt
      let a32 (r : Except Fail (BitVec 32)) := match r with | .ok b => toString b.toInt | .error f => showFail f
      match f, d with
      | "array_designator", "*begin" => r32 (store_array_designator_begin x)
      | "array_designator", "*end" => r32 (store_array_designator_end x)
      | "array_dimensions", "array_of(len)" => r32 (store_array_dimensions_array_of_len x)
      | "attribute_list", "ty->align" => a32 (store_attribute_list_ty_align .wrapping x)
      | "count_array_init_elements", "i" => r32 (store_count_array_init_elements_i x)
      | "declspec", "align" => a32 (store_declspec_align .wrapping x)
      | "enum_specifier", "val" => r32 (store_enum_specifier_val x)
      | "stmt", "begin" => toString (store_stmt_begin x).toInt
      | "stmt", "end" => toString (store_stmt_end x).toInt
      | "struct_members", "mem->bit_width" => r32 (store_struct_members_mem_bit_width x)
      | "write_gvar_data", "val" => toString (store_write_gvar_data_val x).toNat
      | "write_gvar_data", "newval" => toString (store_write_gvar_data_newval x).toNat
      | _, _ => "unknown-consumer"
  | _ => "bad-op"

def writeBufLine : List String → String
  | [v, sz] =>
    match v.toInt?, sz.toNat? with
    | some i, some s =>
      match writeBuf (BitVec.ofInt 64 i) (BitVec.ofNat 32 s) with
      | .ok b => toString b.toNat
      | .error f => showFail f
    | _, _ => "bad-op"
  | _ => "bad-op"

/-- `gvar <ity> <sexpr>`: the object bits `static T x = E;` stores: storeGvar (descr T) (elabE E) (eval2 (elabE E)) -/
def gvarLine : List String → String
  | t :: toks =>
    match ity? t, parse (toks.length + 1) toks with
    | some t, some (e, []) =>
      let n := elabE e
      match storeGvarScalar .wrapping noFp (descr t) n with
      | .ok b => toString b.toNat
      | .error f => showFail f
    | _, _ => "bad-op"
  | _ => "bad-op"

/-! ### arithmetic constant expressions with floating operands -/

open ChibiVerif.Spec.ConstF in
def aty? : String → Option ATy
  | "f32" => some (.flt .f32) | "f64" => some (.flt .f64) | "f80" => some (.flt .f80)
  | s => (ity? s).map .int

def hexVal (c : Char) : Option Nat :=
  if c.isDigit then some (c.toNat - '0'.toNat)
  else if 'a' ≤ c ∧ c ≤ 'f' then some (c.toNat - 'a'.toNat + 10)
  else if 'A' ≤ c ∧ c ≤ 'F' then some (c.toNat - 'A'.toNat + 10)
  else none

def parseHex (s : String) : Option Nat :=
  s.foldl (fun acc c => match acc, hexVal c with | some a, some d => some (a * 16 + d) | _, _ => none) (some 0)

def toHex (digits : Nat) (n : Nat) : String :=
  String.mk ((List.range digits).reverse.map fun i => "0123456789abcdef".get ⟨(n / 16 ^ i) % 16⟩)

open ChibiVerif.Spec.ConstF in
def parseA : Nat → List String → Option (AExpr × List String)
  | 0, _ => none
  | fuel + 1, "(" :: "lit" :: t :: v :: ")" :: rest => do
    let t ← ity? t
    let v ← v.toInt?
    let _ := fuel
    some (.ilit t v, rest)
  | fuel + 1, "(" :: "flit" :: t :: v :: ")" :: rest => do
    let t ← match t with | "f32" => some FTy.f32 | "f64" => some FTy.f64 | "f80" => some FTy.f80 | _ => none
    let v ← parseHex v
    let _ := fuel
    some (.flit t (BitVec.ofNat 80 v), rest)
  | fuel + 1, "(" :: "un" :: op :: rest => do
    let op ← unop? op
    let (e, rest) ← parseA fuel rest
    match rest with
    | ")" :: rest => some (.un op e, rest)
    | _ => none
  | fuel + 1, "(" :: "bin" :: op :: rest => do
    let op ← binop? op
    let (a, rest) ← parseA fuel rest
    let (b, rest) ← parseA fuel rest
    match rest with
    | ")" :: rest => some (.bin op a b, rest)
    | _ => none
  | fuel + 1, "(" :: "land" :: rest => do
    let (a, rest) ← parseA fuel rest
    let (b, rest) ← parseA fuel rest
    match rest with
    | ")" :: rest => some (.land a b, rest)
    | _ => none
  | fuel + 1, "(" :: "lor" :: rest => do
    let (a, rest) ← parseA fuel rest
    let (b, rest) ← parseA fuel rest
    match rest with
    | ")" :: rest => some (.lor a b, rest)
    | _ => none
  | fuel + 1, "(" :: "cond" :: rest => do
    let (c, rest) ← parseA fuel rest
    let (a, rest) ← parseA fuel rest
    let (b, rest) ← parseA fuel rest
    match rest with
    | ")" :: rest => some (.cond c a b, rest)
    | _ => none
  | fuel + 1, "(" :: "cast" :: t :: rest => do
    let t ← aty? t
    let (e, rest) ← parseA fuel rest
    match rest with
    | ")" :: rest => some (.cast t e, rest)
    | _ => none
  | _, _ => none

open ChibiVerif.Spec.ConstF in
def showATy : ATy → String
  | .int t => showITy t
  | .flt .f32 => "f32" | .flt .f64 => "f64" | .flt .f80 => "f80"

open ChibiVerif.Spec.ConstF in
def showAVal : AVal → String
  | .int v => s!"int:{v}"
  | .f32 b => "f32:" ++ toHex 8 b.toNat
  | .f64 b => "f64:" ++ toHex 16 b.toNat
  | .f80 b => "f80:" ++ toHex 20 b.toNat

open ChibiVerif.SoftFp (softHost)

def showBits {n : Nat} (digits : Nat) : Except Fail (BitVec n) → String
  | .ok b => toHex digits b.toNat
  | .error f => showFail f

open ChibiVerif.Spec.ConstF in
def fevalLine (toks : List String) : String :=
  match parseA (toks.length + 1) toks with
  | some (e, []) =>
    let n := elabA e
    let spec := match Spec.ConstF.eval ChibiVerif.SoftFp.ops e with | some v => showAVal v | none => "none"
    let model := match typeOf e with
      | .int _ => (match eval2 .wrapping softHost n false with | .ok v => s!"int:{v.toInt}" | .error f => showFail f)
      | .flt .f32 => (match storeGvarF32 .wrapping softHost n with | .ok b => "f32:" ++ toHex 8 b.toNat | .error f => showFail f)
      | .flt .f64 => (match storeGvarF64 .wrapping softHost n with | .ok b => "f64:" ++ toHex 16 b.toNat | .error f => showFail f)
      | .flt .f80 => (match storeGvarF80 .wrapping softHost n with | .ok b => "f80:" ++ toHex 20 b.toNat | .error f => showFail f)
    s!"ty={showATy (typeOf e)} spec={spec} model={model} const={showConst (isConstExpr .wrapping softHost n)}"
  | _ => "bad-expr"

open ChibiVerif.Spec.ConstF in
/-- `fgvar <aty> <sexpr>`: the object bits `static T x = E;` stores -/
def fgvarLine : List String → String
  | t :: toks =>
    match aty? t, parseA (toks.length + 1) toks with
    | some t, some (e, []) =>
      let n := elabA e
      match t with
      | .flt .f32 => showBits 8 (storeGvarF32 .wrapping softHost n)
      | .flt .f64 => showBits 16 (storeGvarF64 .wrapping softHost n)
      | .flt .f80 => showBits 20 (storeGvarF80 .wrapping softHost n)
      | .int ti => showBits (2 * ti.size) (storeGvarScalar .wrapping softHost (descr ti) n)
    | _, _ => "bad-op"
  | _ => "bad-op"

partial def loop (h : IO.FS.Stream) : IO UInt32 := do
  let line ← h.getLine
  if line.isEmpty then return 0
  let words := (line.trimAscii.toString.splitOn " ").filter (· ≠ "")
  match words with
  | [] => loop h
  | "eval" :: _ => IO.println (evalLine ((tokens line.trimAscii.toString).drop 1)); loop h
  | "store" :: rest => IO.println (storeLine rest); loop h
  | "gvar" :: _ => IO.println (gvarLine ((tokens line.trimAscii.toString).drop 1)); loop h
  | "feval" :: _ => IO.println (fevalLine ((tokens line.trimAscii.toString).drop 1)); loop h
  | "fgvar" :: _ => IO.println (fgvarLine ((tokens line.trimAscii.toString).drop 1)); loop h
  | "writebuf" :: rest => IO.println (writeBufLine rest); loop h
  | _ => IO.println "bad-op"; loop h

def main : IO UInt32 := do loop (← IO.getStdin)

end ChibiVerif.Driver.ConstEval
