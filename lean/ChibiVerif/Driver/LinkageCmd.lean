/-
Line protocol for C15 (`drv_c15 symbols` / `drv_c15 addr`).

`symbols` mode, one command per line:
  unit                                   start a new translation unit
  fn NAME S E I decl                     `[static][extern][inline] int NAME(void);`          (S,E,I ∈ 0/1)
  fn NAME S E I def ITEM*                the same with a body; ITEM ::= rf:NAME | ro:NAME | st:SIZE
                                            | sl:TLS:SIZE:ALIGN:ARR:UNK:INIT | ex:NAME:TLS:SIZE:ALIGN:ARR:UNK
  obj NAME S E T SIZE ALIGN ARR UNK INIT `[static][extern][_Thread_local] T NAME [= ...];`
     INIT ::= -   (no initializer)  |  =ITEM,ITEM,...  with ITEM ::= rf:NAME | ro:NAME | st:SIZE  (may be empty: `=`)
  emit FCOMMON                           model: every defined label in output order, then the undefined ones
  objsyms FCOMMON                        model: ELF symbol table of the object (named symbols)
  spec FCOMMON                           Spec.symbols
  flags                                  model: the Obj list after parse (flags)
  regions                                which known-finding regions the unit lies in; Spec.valid and its parts; the rules
                                         in force and the scope (Spec.symbolsScope) of C15_symbols_partial under them
  rules A B C D                          use these rules (externInherits flagsFollow compositeFromDecls ownedData, 0/1) for
                                         the following queries instead of `Rules.asBuilt` (the flags regenerated from /repo);
                                         `rules asbuilt` switches back
Every query prints its lines followed by `end`.
-/
import ChibiVerif.Model.Linkage
import ChibiVerif.Spec.LinkageSpec

namespace ChibiVerif.Driver.LinkageCmd
open ChibiVerif.Linkage

structure St where
  names : List String := []      -- index = Name
  decls : List Decl := []        -- reversed
  bad : Bool := false
  rules : Rules := Rules.asBuilt

def intern (st : St) (s : String) : St × Name :=
  match st.names.idxOf? s with
  | some i => (st, i)
  | none => ({ st with names := st.names ++ [s] }, st.names.length)

def b01 (s : String) : Bool := s == "1"

def parseTy (size align arr unk : String) : Option ObjTy := do
  let sz ← size.toNat?
  let al ← align.toNat?
  pure ⟨sz, al, b01 arr, b01 unk⟩

def parseInitItem (st : St) (tok : String) : Option (St × InitItem) :=
  match tok.splitOn ":" with
  | ["rf", n] => let (st, i) := intern st n; some (st, .ref (.fn i))
  | ["ro", n] => let (st, i) := intern st n; some (st, .ref (.obj i))
  | ["st", k] => k.toNat?.map (fun k => (st, .str k))
  | _ => none

def parseInitItems (st : St) : List String → Option (St × List InitItem)
  | [] => some (st, [])
  | t :: ts => do
    let (st, i) ← parseInitItem st t
    let (st, is) ← parseInitItems st ts
    pure (st, i :: is)

/-- `-` or `=a,b,c` -/
def parseInit (st : St) (tok : String) : Option (St × Option (List InitItem)) :=
  if tok == "-" then some (st, none)
  else if tok.startsWith "=" then do
    let body := (tok.drop 1).toString
    let toks := (body.splitOn ",").filter (· ≠ "")
    let (st, is) ← parseInitItems st toks
    pure (st, some is)
  else none

def parseBodyItem (st : St) (tok : String) : Option (St × BodyItem) :=
  match tok.splitOn ":" with
  | ["rf", n] => let (st, i) := intern st n; some (st, .ref (.fn i))
  | ["ro", n] => let (st, i) := intern st n; some (st, .ref (.obj i))
  | ["st", k] => k.toNat?.map (fun k => (st, .str k))
  | "sl" :: tls :: size :: align :: arr :: unk :: rest => do
    let ty ← parseTy size align arr unk
    -- the INIT field may itself contain ':' (items), so it was split: join it again
    let (st, init) ← parseInit st (":".intercalate rest)
    pure (st, .staticLocal (b01 tls) ty init)
  | ["ex", n, tls, size, align, arr, unk] => do
    let ty ← parseTy size align arr unk
    let (st, i) := intern st n
    pure (st, .externObj i (b01 tls) ty)
  | _ => none

def parseBodyItems (st : St) : List String → Option (St × List BodyItem)
  | [] => some (st, [])
  | t :: ts => do
    let (st, i) ← parseBodyItem st t
    let (st, is) ← parseBodyItems st ts
    pure (st, i :: is)

def showSym (st : St) : Sym → String
  | .named n => st.names.getD n s!"?{n}"
  | .anon k => s!".L..{k}"

def showKind : Kind → String
  | .text => "text" | .data => "data" | .bss => "bss" | .tdata => "tdata" | .tbss => "tbss"
  | .common => "common" | .undef => "undef"

def showEntry (st : St) (e : SymEntry) : String :=
  let b := match e.binding with | .global => "global" | .local => "local"
  let sz := match e.size with | some n => toString n | none => "-"
  s!"sym {showSym st e.sym} {b} {showKind e.kind} {sz} {e.align}"

def showErr (st : St) : ParseErr → String
  | .redefinition f => s!"error redefinition {showSym st (.named f)}"
  | .staticAfterNonStatic f => s!"error static-after-non-static {showSym st (.named f)}"
  | .undeclared (.fn f) => s!"error undeclared {showSym st (.named f)}"
  | .undeclared (.obj x) => s!"error undeclared {showSym st (.named x)}"
  | .markLiveFuel => "error mark-live-fuel"

def bit (b : Bool) : String := if b then "1" else "0"

def showClass : Spec.Linkage.FnClass → String
  | .globalAlways => "globalAlways" | .localAlways => "localAlways" | .localIfNeeded => "localIfNeeded"

def showObj (st : St) (o : Obj) : String :=
  s!"obj {showSym st o.sym} fn={bit o.isFunction} def={bit o.isDefinition} static={bit o.isStatic} " ++
  s!"inline={bit o.isInline} tent={bit o.isTentative} tls={bit o.isTls} root={bit o.isRoot} live={bit o.isLive} " ++
  s!"init={bit o.hasInit} size={o.ty.size} align={o.ty.align} refs=[{",".intercalate (o.refs.map (fun n => showSym st (.named n)))}]"

def query (st : St) (cmd : String) (arg : String) : List String :=
  let ds := st.decls.reverse
  let fc := b01 arg
  if st.bad then ["bad-unit"] else
  match cmd with
  | "spec" => (Spec.Linkage.symbols fc ds).map (showEntry st)
  | "regions" =>
    [s!"rules {bit st.rules.externInherits} {bit st.rules.flagsFollow} {bit st.rules.compositeFromDecls} {bit st.rules.ownedData}",
     s!"valid {bit (Spec.Linkage.valid ds)}",
     s!"valid-core {bit (Spec.Linkage.validCore ds)}",
     s!"flags-frozen {bit (Spec.Linkage.flagsFrozenRegion ds)}",
     s!"inline-frozen-finding {bit (Spec.Linkage.inlineFrozenFinding ds)}",
     s!"dead-static-local {bit (Spec.Linkage.deadStaticLocalRegion ds)}",
     s!"composite-size {bit (Spec.Linkage.compositeSizeRegion ds)}",
     s!"extern-init-after-static {bit (Spec.Linkage.externInitAfterStaticRegion ds)}",
     s!"flags-frozen-def {bit (Spec.Linkage.flagsFrozenDefRegion ds)}",
     s!"dead-static-local-visible {bit (Spec.Linkage.deadStaticLocalVisibleRegion ds)}",
     s!"refs-ordered {bit (Spec.Linkage.refsOrdered ds [] [])}",
     s!"types-agree {bit ((Spec.Linkage.objNames ds).all (fun x => Spec.Linkage.tysAgree (Spec.Linkage.objDecls ds x)))}",
     s!"block-externs-agree {bit (Spec.Linkage.blockExternsAgree ds)}",
     s!"theorem-scope {bit (@Spec.Linkage.symbolsScope st.rules ds)}"] ++
    ((Spec.Linkage.fnNames ds).filterMap (fun f =>
      let D := Spec.Linkage.fnDecls ds f
      if Spec.Linkage.fnClass D != Spec.Linkage.fnClassFirst D then
        some s!"frozen-fn {showSym st (.named f)} {showClass (Spec.Linkage.fnClass D)} {showClass (Spec.Linkage.fnClassFirst D)}"
      else none)) ++
    ((Spec.Linkage.fnNames ds).filterMap (fun f =>
      let D := Spec.Linkage.fnDecls ds f
      if !Spec.Linkage.fnInternal D && Spec.Linkage.fnInlineDefOnly D then some s!"inline-def-only {showSym st (.named f)}"
      else none))
  | _ =>
    match @parseUnit st.rules ds with
    | .error e => [showErr st e]
    | .ok gs =>
      match cmd with
      | "emit" => (emit fc gs).map (showEntry st) ++ (undefs fc gs).map (fun s => s!"und {showSym st s}")
      | "objsyms" => (objectSymbols fc gs).map (showEntry st)
      | "flags" => gs.map (showObj st)
      | _ => ["bad-op"]

partial def loop (h : IO.FS.Stream) (st : St) : IO UInt32 := do
  let line ← h.getLine
  if line.isEmpty then return 0
  let ws := (line.trimAscii.toString.splitOn " ").filter (· ≠ "")
  match ws with
  | [] => loop h st
  | ["unit"] => loop h { rules := st.rules }
  | ["rules", "asbuilt"] => loop h { st with rules := Rules.asBuilt }
  | ["rules", a, b, c, d] => loop h { st with rules := ⟨b01 a, b01 b, b01 c, b01 d⟩ }
  | "fn" :: name :: s :: e :: i :: kind :: items =>
    let (st, f) := intern st name
    if kind == "decl" then
      loop h { st with decls := .func f name.length (b01 s) (b01 e) (b01 i) none :: st.decls }
    else
      match parseBodyItems st items with
      | some (st, body) => loop h { st with decls := .func f name.length (b01 s) (b01 e) (b01 i) (some body) :: st.decls }
      | none => loop h { st with bad := true }
  | ["obj", name, s, e, t, size, align, arr, unk, init] =>
    let (st, x) := intern st name
    match parseTy size align arr unk, parseInit st init with
    | some ty, some (st, init) => loop h { st with decls := .obj x (b01 s) (b01 e) (b01 t) ty init :: st.decls }
    | _, _ => loop h { st with bad := true }
  | [cmd] =>
    for l in query st cmd "0" do IO.println l
    IO.println "end"
    loop h st
  | [cmd, arg] =>
    for l in query st cmd arg do IO.println l
    IO.println "end"
    loop h st
  | _ =>
    IO.println "bad-op"
    loop h { st with bad := true }

def symbolsMain : IO UInt32 := do loop (← IO.getStdin) {}

/-- `drv_c15 addr`: the whole table of gen_addr's ND_VAR arm -/
def addrMain : IO UInt32 := do
  let bs := [false, true]
  for vla in bs do for loc in bs do for pic in bs do for tls in bs do for fn in bs do for d in bs do
    let c : Gen.AddrForms.VarCtx := ⟨vla, loc, pic, tls, fn, d⟩
    let form := match addrForm c with
      | some .rbpRel => "rbpRel" | some .rbpLoad => "rbpLoad" | some .ripRel => "ripRel" | some .got => "got"
      | some .tlsGD => "tlsGD" | some .tlsLE => "tlsLE" | some .tlsIE => "tlsIE" | none => "unknown"
    let ok := match addrForm c with
      | some f => Spec.Linkage.validForm (Spec.Linkage.refCtxOf c) f
      | none => false
    IO.println s!"ctx vla={bit vla} local={bit loc} pic={bit pic} tls={bit tls} func={bit fn} def={bit d} consistent={bit (Spec.Linkage.ctxConsistent c)} form={form} valid={bit ok} text={" | ".intercalate (Gen.AddrForms.genAddrVar c)}"
  return 0

end ChibiVerif.Driver.LinkageCmd
