/- line-protocol driver for C19: `drv_c19 lex` (see Driver/LexCmd.lean for the operations).
   Core Lean only (nothing imported here may import Mathlib, or the executable will not link). -/
import ChibiVerif.Driver.LexCmd

def main (args : List String) : IO UInt32 := do
  match args with
  | "lex" :: _ => ChibiVerif.Driver.lexMain
  | _ =>
    IO.eprintln "usage: drv_c19 lex"
    return 2
