/- line-protocol driver for C19: `drv_c19 lex` (Driver/LexCmd.lean: tokenize / print_tokens / need_space) and
   `drv_c19 pass` (Driver/C19PassCmd.lean: a whole -E run over the models, used for the second pass).
   Core Lean only (nothing imported here may import Mathlib, or the executable will not link). -/
import ChibiVerif.Driver.LexCmd
import ChibiVerif.Driver.C19PassCmd

def main (args : List String) : IO UInt32 := do
  match args with
  | "lex" :: _ => ChibiVerif.Driver.lexMain
  | "pass" :: _ => ChibiVerif.Driver.passMain
  | _ =>
    IO.eprintln "usage: drv_c19 lex | pass"
    return 2
