/- `drv_c06 callconv`: one signature per input line, one answer line per input line.

   input:   <op> <depth> <variadic 0|1> <nNamed> <ret> ; <ty> ; <ty> ...
            ty  := b | i1 u1 i2 u2 i4 u4 i8 u8 | f | d | ld | v (void, return only)
                 | { s|u <size> <align> (<offset> ty)* }        struct / union
                 | [ <n> ty ]                                   array (inside aggregates)
   op = assign    caller=.. callee=.. spec=.. al=.. specal=.. ret=caller/callee/spec stack=.. specstack=.. va=.. vaspec=.. regions=..
   op = callasm   the lines of the call (Model.callLines), joined by `|`; the return buffer offset is computed for a
                  caller whose only locals are the return buffer and __alloca_size__
   op = calleeasm prologue lines `#` parameter offsets `#` return-sequence lines
-/
import ChibiVerif.Model.CallConv
import ChibiVerif.Spec.PsABI
import ChibiVerif.Spec.CallRegions

namespace ChibiVerif.Driver.CallConvCmd
open ChibiVerif.CallConv
open ChibiVerif.Spec

partial def parseTy : List String → Option (ATy × List String)
  | "b" :: r => some (.int 1 true true, r)
  | "i1" :: r => some (.int 1 false false, r)
  | "u1" :: r => some (.int 1 true false, r)
  | "i2" :: r => some (.int 2 false false, r)
  | "u2" :: r => some (.int 2 true false, r)
  | "i4" :: r => some (.int 4 false false, r)
  | "u4" :: r => some (.int 4 true false, r)
  | "i8" :: r => some (.int 8 false false, r)
  | "u8" :: r => some (.int 8 true false, r)
  | "f" :: r => some (.flt, r)
  | "d" :: r => some (.dbl, r)
  | "ld" :: r => some (.ldbl, r)
  | "[" :: n :: r => do
    let n ← n.toNat?
    let (e, r) ← parseTy r
    match r with
    | "]" :: r => some (.arr e n, r)
    | _ => none
  | "{" :: k :: sz :: al :: r => do
    let sz ← sz.toNat?
    let al ← al.toNat?
    let rec members (r : List String) (acc : List (Nat × ATy)) : Option (List (Nat × ATy) × List String) :=
      match r with
      | "}" :: r => some (acc.reverse, r)
      | o :: r => do
        let o ← o.toNat?
        let (t, r) ← parseTy r
        members r ((o, t) :: acc)
      | [] => none
    let (ms, r) ← members r []
    let mem := ms.foldr (fun (o, t) acc => Members.cons o t acc) Members.nil
    some (.agg (k == "u") sz al mem, r)
  | _ => none

def splitOn (sep : String) : List String → List (List String)
  | [] => [[]]
  | x :: xs =>
    match splitOn sep xs with
    | [] => [[x]]
    | g :: gs => if x == sep then [] :: g :: gs else (x :: g) :: gs

def parseSig (ws : List String) : Option (Nat × Sig) :=
  match ws with
  | depth :: va :: nn :: rest => do
    let depth ← depth.toNat?
    let nn ← nn.toNat?
    let groups := (splitOn ";" rest).filter (· ≠ [])
    match groups with
    | [] => none
    | retg :: ps => do
      let ret ← (if retg == ["v"] then some none else (parseTy retg).map (fun x => some x.1))
      let params ← ps.mapM (fun g => (parseTy g).bind (fun (t, r) => if r.isEmpty then some t else none))
      some (depth, { ret := ret, params := params, nNamed := nn, variadic := va == "1" })
  | _ => none

def showReg : Reg → String
  | .gp n => s!"gp{n}"
  | .sse n => s!"sse{n}"

def showLoc : ArgLoc → String
  | .regs ps => "r:" ++ ",".intercalate (ps.map showReg)
  | .stack o => s!"s:{o}"

def showAbort : Abort → String
  | .stackImbalance => "abort:stack-imbalance"
  | .regIndex => "abort:reg-index"
  | .storeSize => "abort:store-size"
  | .assertSize => "abort:assert-size"

def showLocs : Except Abort (List ArgLoc) → String
  | .ok ls => if ls.isEmpty then "-" else "/".intercalate (ls.map showLoc)
  | .error a => showAbort a

def showRetReg : RetReg → String
  | .rax => "rax" | .rdx => "rdx" | .xmm0 => "xmm0" | .xmm1 => "xmm1" | .st0 => "st0"

def showRet : RetLoc → String
  | .void => "void"
  | .regs rs => "r:" ++ ",".intercalate (rs.map showRetReg)
  | .memory b => if b then "mem:rax" else "mem:norax"

def showRetE : Except Abort RetLoc → String
  | .ok r => showRet r
  | .error a => showAbort a

def showVa : VaLoc → String
  | .saveArea o => s!"a:{o}"
  | .overflow o => s!"o:{o}"

def showVaO : Option VaLoc → String
  | some v => showVa v
  | none => "regs2"

/-- return-buffer offset in a caller whose locals are [ret_buffer, __alloca_size__] -/
def retBufOff (s : Sig) : Int :=
  match s.ret with
  | some t => (lvarOffsets 0 [(t.size, t.align)]).getD 0 0
  | none => 0

def answer (op : String) (depth : Nat) (s : Sig) : String :=
  match op with
  | "assign" =>
    let spec := PsABI.assign s
    let vaspec := (spec.drop s.nNamed).map PsABI.vaLoc
    let regions := CallRegions.regionTags s
    s!"caller={showLocs (callerAssign s)} callee={showLocs (calleeAssign s)} spec={showLocs (.ok spec)} " ++
    s!"al={callerAl s} specal={PsABI.al s} ret={showRetE (retCaller s.ret)};{showRetE (retCallee s.ret)};{showRet (PsABI.ret s.ret)} " ++
    s!"stack={stackArgs depth s} specstack={PsABI.stackBytes s} " ++
    s!"va={if s.variadic then "/".intercalate ((calleeVa s).map showVa) else "-"} " ++
    s!"vaspec={if s.variadic then "/".intercalate (vaspec.map showVaO) else "-"} " ++
    s!"regions={if regions.isEmpty then "-" else ",".intercalate regions}"
  | "callasm" => "|".intercalate (callLines depth s (retBufOff s))
  | "calleeasm" =>
    match prologueLines s with
    | .ok ls => "|".intercalate ls ++ "#" ++ ",".intercalate ((paramOffsets s).map toString) ++ "#" ++ "|".intercalate (returnLines s)
    | .error a => showAbort a
  | _ => "bad-op"

partial def loop (h : IO.FS.Stream) : IO UInt32 := do
  let line ← h.getLine
  if line.isEmpty then return 0
  let ws := (line.trimAscii.toString.splitOn " ").filter (· ≠ "")
  match ws with
  | [] => loop h
  | op :: rest =>
    match parseSig rest with
    | some (depth, s) => IO.println (answer op depth s)
    | none => IO.println "bad-input"
    loop h

def main : IO UInt32 := do loop (← IO.getStdin)

end ChibiVerif.Driver.CallConvCmd
