import ChibiVerif.Driver.LexCmd
import ChibiVerif.Model.C19Bridge
import ChibiVerif.Model.C19Convert

/-! second sub-command of `drv_c19`: a whole `chibicc -E` run over the models (Model/C19Bridge.lean `passText`: `tokenize`,
    `preprocess2` of Model/PP.lean from the table of `init_macros`, `print_tokens`).  Characters are decimal code points.
  pass <fuel> <file: cp,cp,…> <cps of the text>  → `ok <cps of the -E text>` | `err lex <name>` | `err pp <name>`
  region <cps of a text>                         → `inert=<b> valid=<b> tokens=<n> hashbol=<n> initnames=<n>` for the token list
                                                   `tokenize` reads from the text (`inertInit`, `validText`: the hypotheses of
                                                   C19_idempotent; how many tokens break each half) | `err lex <name>`
  cc1 <fuel> <file: cp,cp,…> <cps of the text>   → the token list `parse` receives when cc1 compiles the text (Model/C19Convert.lean
                                                   `cc1Tokens`: tokenize, preprocess2 from init_macros, convert_pp_tokens; libc's verdict
                                                   on pp-numbers is not modelled: every pp-number counts as a number):
                                                   `ok K:S:cp,cp,…|…`  K ∈ I P K S N (kind for parse)  S ∈ I P S C N (kind tokenize gave)
                                                   | `err lex <name>` | `err pp <name>`
  conv <cps of the text>                         → the same without preprocess2 (tokenize, convert_pp_tokens) -/
namespace ChibiVerif.Driver
open ChibiVerif ChibiVerif.C19Bridge

def ppErrName : PP.Err → String
  | .fuel => "fuel"
  | .prematureEnd => "prematureEnd"
  | .expected _ => "expected"
  | .hashNotParam => "hashNotParam"
  | .pasteAtStart => "pasteAtStart"
  | .pasteAtEnd => "pasteAtEnd"
  | .pasteInvalid => "pasteInvalid"
  | .lexError => "lexError"
  | .macroNameNotIdent => "macroNameNotIdent"
  | .expectedIdent => "expectedIdent"
  | .errorDirective => "errorDirective"
  | .invalidDirective => "invalidDirective"
  | .unsupportedDirective => "unsupportedDirective"

def passLine (ws : List String) : String :=
  match ws with
  | "pass" :: fuel :: file :: r =>
    match fuel.toNat?, parseCps ((file.splitOn ",").filter (· ≠ "")), parseCps r with
    | some n, some f, some text =>
      match passText n (str f) text with
      | .ok out => "ok " ++ showCps out " "
      | .error (.lex e) => "err lex " ++ showErr e
      | .error (.pp e) => "err pp " ++ ppErrName e
    | _, _, _ => "bad-op"
  | "region" :: r =>
    match parseCps r with
    | none => "bad-op"
    | some text =>
      match Lex.lex text with
      | .error e => "err lex " ++ showErr e
      | .ok ts =>
        let hashes := (ts.filter fun t => t.atBol && t.text == [35]).length
        let names := (ts.filter fun t => isInitMacro t.text).length
        s!"inert={b01 (inertInit ts)} valid={b01 (validText ts)} tokens={ts.length} hashbol={hashes} initnames={names}"
  | _ => "bad-op"

def showCKind : C19Convert.CKind → String
  | .ident => "I" | .punct => "P" | .keyword => "K" | .str => "S" | .num => "N"

def showCToks (cs : List C19Convert.CTok) : String :=
  "ok " ++ "|".intercalate (cs.map fun c => s!"{showCKind c.kind}:{showKind c.src}:{showCps c.text ","}")

def cc1Line (ws : List String) : String :=
  match ws with
  | "cc1" :: fuel :: file :: r =>
    match fuel.toNat?, parseCps ((file.splitOn ",").filter (· ≠ "")), parseCps r with
    | some n, some f, some text =>
      match C19Convert.cc1Tokens (fun _ => true) n (str f) text with
      | .ok cs => showCToks cs
      | .error (.pass (.lex e)) => "err lex " ++ showErr e
      | .error (.pass (.pp e)) => "err pp " ++ ppErrName e
      | .error (.conv (.invalidNumber a)) => "err num " ++ showCps a ","
    | _, _, _ => "bad-op"
  | "conv" :: r =>
    match parseCps r with
    | none => "bad-op"
    | some text =>
      match Lex.lex text with
      | .error e => "err lex " ++ showErr e
      | .ok ts =>
        match C19Convert.convertPP (fun _ => true) ts with
        | .ok cs => showCToks cs
        | .error (.invalidNumber a) => "err num " ++ showCps a ","
  | _ => passLine ws

partial def passCmdLoop (h : IO.FS.Stream) : IO UInt32 := do
  let line ← h.getLine
  if line.isEmpty then return 0
  let ws := (line.trimAscii.toString.splitOn " ").filter (· ≠ "")
  if ws.isEmpty then passCmdLoop h
  else
    IO.println (cc1Line ws)
    passCmdLoop h

def passMain : IO UInt32 := do passCmdLoop (← IO.getStdin)

end ChibiVerif.Driver
