import ChibiVerif.Driver.LexCmd
import ChibiVerif.Model.C19Bridge

/-! second sub-command of `drv_c19`: a whole `chibicc -E` run over the models (Model/C19Bridge.lean `passText`: `tokenize`,
    `preprocess2` of Model/PP.lean from the table of `init_macros`, `print_tokens`).  Characters are decimal code points.
  pass <fuel> <file: cp,cp,…> <cps of the text>  → `ok <cps of the -E text>` | `err lex <name>` | `err pp <name>`
  region <cps of a text>                         → `inert=<b> valid=<b> tokens=<n> hashbol=<n> initnames=<n>` for the token list
                                                   `tokenize` reads from the text (`inertInit`, `validText`: the hypotheses of
                                                   C19_idempotent; how many tokens break each half) | `err lex <name>` -/
namespace ChibiVerif.Driver
open ChibiVerif ChibiVerif.C19Bridge

def ppErrName : PP.Err → String
  | .fuel => "fuel"
  | .prematureEnd => "prematureEnd"
  | .expected _ => "expected"
  | .hashNotParam => "hashNotParam"
  | .pasteAtStart => "pasteAtStart"
  | .pasteAtEnd => "pasteAtEnd"
  | .pasteInvalid => "pasteInvalid"
  | .lexError => "lexError"
  | .macroNameNotIdent => "macroNameNotIdent"
  | .expectedIdent => "expectedIdent"
  | .errorDirective => "errorDirective"
  | .invalidDirective => "invalidDirective"
  | .unsupportedDirective => "unsupportedDirective"

def passLine (ws : List String) : String :=
  match ws with
  | "pass" :: fuel :: file :: r =>
    match fuel.toNat?, parseCps ((file.splitOn ",").filter (· ≠ "")), parseCps r with
    | some n, some f, some text =>
      match passText n (str f) text with
      | .ok out => "ok " ++ showCps out " "
      | .error (.lex e) => "err lex " ++ showErr e
      | .error (.pp e) => "err pp " ++ ppErrName e
    | _, _, _ => "bad-op"
  | "region" :: r =>
    match parseCps r with
    | none => "bad-op"
    | some text =>
      match Lex.lex text with
      | .error e => "err lex " ++ showErr e
      | .ok ts =>
        let hashes := (ts.filter fun t => t.atBol && t.text == [35]).length
        let names := (ts.filter fun t => isInitMacro t.text).length
        s!"inert={b01 (inertInit ts)} valid={b01 (validText ts)} tokens={ts.length} hashbol={hashes} initnames={names}"
  | _ => "bad-op"

partial def passCmdLoop (h : IO.FS.Stream) : IO UInt32 := do
  let line ← h.getLine
  if line.isEmpty then return 0
  let ws := (line.trimAscii.toString.splitOn " ").filter (· ≠ "")
  if ws.isEmpty then passCmdLoop h
  else
    IO.println (passLine ws)
    passCmdLoop h

def passMain : IO UInt32 := do passCmdLoop (← IO.getStdin)

end ChibiVerif.Driver
