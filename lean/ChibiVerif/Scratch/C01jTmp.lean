import ChibiVerif.Props.C01
import ChibiVerif.Lemmas.C01AccTable

namespace ChibiVerif.Props.C01
open ChibiVerif.C01 ChibiVerif.X86 ChibiVerif.Asm ChibiVerif.Spec.IntSpec ChibiVerif.Gen.CommonType ChibiVerif.C01Codegen
open ChibiVerif.X86J

/-- **value and side effects of every expression of the type `E` whose objects are reached through lvalues other than plain
    variables** — `s.m`, `p->m`, `*p`, `a[c]`, `p[c]`, … *anywhere* in the expression: as operands, assigned, compound-assigned,
    incremented.  The variables of the store are the scalar objects of the program; `lvs[i]` is the lvalue by which the program
    designates object `i` (objects beyond the table are plain variables), `accOfL` the `gen_addr` code of these lvalues
    (side-effect-free: index expressions in the `compileE` fragment) and `compileA` the code `gen_expr` emits with them
    (Model/C01ExprA).  Hypotheses: every object the expression accesses is designated by its lvalue in the initial store
    (`lvAddr` = the address of `i`), the lvalue passes the syntactic check `lvOK`, and the variables on which addresses depend
    (`D`: the pointers dereferenced, the index variables) are not assigned by the expression — so every lvalue designates the
    same object whenever it is evaluated.  Conclusion as in `C01_value_full`: termination within the code length, `%rax`
    represents the C11 value in the C11 type, the frame holds the C11 store.  By the induction of `C01_value_full` over the
    lvalue combinators (`EvJ.loadL`, `EvJ.assignL`, `EvJ.opassignL` incl. the member rewriting of `op=`). -/
theorem C01_value_lvalues (σ : Env) (off toff : Nat → Int) (lvs : List LVal) (D : List Nat) (e : E) (t : ITy) (code : List JI)
    (K c0 c1 : Nat) (v : Int) (σ' : Env) (m : State)
    (hc : compileA σ.tys toff (accOfL σ.tys off lvs) 0 c0 e = some (t, code, K, c1))
    (hv : evalE σ e = some (v, σ')) (hnc : noConflict e = true)
    (hobj : ∀ i, i ∈ objs e → lvOK σ.tys off D (lvOf lvs i) = true ∧
      ∃ σx, lvAddr (m.get .rbp) off σ (lvOf lvs i) = some (frameAddr (m.get .rbp) (off i), σx))
    (hD : ∀ i, i ∈ wr e → i ∉ D)
    (hf : FrameX σ off toff K (depthA (accOfL σ.tys off lvs) e) m) :
    ∃ m', runJ code.length code 0 m = some m' ∧ Represents t (m'.get .rax) v ∧ typeOf σ e = some t ∧
      m'.get .rsp = m.get .rsp ∧ m'.get .rbp = m.get .rbp ∧ FrameX σ' off toff K (depthA (accOfL σ.tys off lvs) e) m' ∧
      (∀ a : BitVec 64, (m.get .rsp).toNat ≤ a.toNat → ¬ inVar σ.tys off (m.get .rbp) (wr e) a →
        ¬ inTmp toff (m.get .rbp) 0 K a → m'.mem a = m.mem a) := by
  have fc := compileA_facts σ.tys toff _ e 0 c0 t code K c1 hc
  have hA : ∀ i, i ∈ objs e → AccOK (m.get .rbp) off toff K (accOfL σ.tys off lvs) D σ i := by
    intro i hi
    obtain ⟨hok, σx, hdes⟩ := hobj i hi
    exact accOK_of_table (m.get .rbp) off toff K D σ lvs i σx hok hdes
  obtain ⟨hty, hE⟩ := value_a (m.get .rbp) off toff K _ D σ e σ t code v σ' 0 K c0 c1 ⟨rfl, rfl, fun _ _ => rfl⟩ hD hA hc hv hnc
    (Nat.le_refl _)
  obtain ⟨m', hrun, hrep, hH, hu⟩ := hE m _ _ rfl hf.2.1 (Nat.le_refl _) hf.1 (Nat.le_refl _) hf.2.2
  refine ⟨m', hrun.runJ fc.nodup, hrep, fc.ty σ rfl, hu.rsp, hu.rbp, ?_, hu.mem⟩
  exact ⟨by rw [hu.rsp]; exact hf.1, by rw [hty, hu.rsp, hu.rbp]; exact hf.2.1, hH⟩

/-- the expression of the non-vacuity example: `*p = *p * 3 + 1` with `p = &x` (object 1 is designated by `*p`) -/
def exLE : E := .assign 1 (.bin .add (.bin .mul (.var 1) (.lit .i32 3)) (.lit .i32 1))

/-- non-vacuity: `int x = 7; int *p = &x; *p = *p * 3 + 1` in a concrete frame: the hypotheses hold, `x` becomes 22 -/
example : ∃ code, compileA lvEnv.tys ptrToff (accOfL lvEnv.tys exOff [.var 0, .deref 0]) 0 1 exLE = some (.i32, code, 0, 1) ∧
    evalE lvEnv exLE = some (22, ⟨[.u64, .i32], [0x1ff0, 22]⟩) ∧ noConflict exLE = true ∧
    (∀ i, i ∈ objs exLE → lvOK lvEnv.tys exOff [0] (lvOf [.var 0, .deref 0] i) = true ∧
      ∃ σx, lvAddr (lvState.get .rbp) exOff lvEnv (lvOf [.var 0, .deref 0] i) = some (frameAddr (lvState.get .rbp) (exOff i), σx)) ∧
    (∀ i, i ∈ wr exLE → i ∉ [0]) ∧
    FrameX lvEnv exOff ptrToff 0 (depthA (accOfL lvEnv.tys exOff [.var 0, .deref 0]) exLE) lvState := by
  refine ⟨_, rfl, rfl, rfl, ?_, ?_, lvFrameX 0 _ (by omega) (by decide)⟩
  · intro i hi
    have : i = 1 := by simpa [objs, exLE] using hi
    subst this
    exact ⟨by decide, lvEnv, lvAddr_ex⟩
  · intro i hi
    have : i = 1 := by simpa [wr, exLE] using hi
    subst this
    decide

/-- with every object a plain variable `compileA` is `compileJ`: `C01_value_lvalues` extends `C01_value_full` -/
theorem C01_value_lvalues_extends (tys : List ITy) (off toff : Nat → Int) (e : E) (k c : Nat) :
    compileA tys toff (Acc.direct off) k c e = compileJ tys off toff k c e :=
  compileA_direct tys off toff e k c

example : compileJ exEnv.tys exXOff exXToff 0 1 exJE ≠ none := by decide

end ChibiVerif.Props.C01
