/-
C05, back-end agreement, part 2: memory.  `writeAt`, `overlay`, little-endian units and single bits.
-/
import ChibiVerif.Lemmas.InitEmitLemmas

namespace ChibiVerif.Init

/-! ### writeAt -/

theorem writeAt_getElem? {α : Type} (m : List α) (o : Nat) (vs : List α) (h : o + vs.length ≤ m.length) (i : Nat) :
    (writeAt m o vs)[i]? = if o ≤ i ∧ i < o + vs.length then vs[i - o]? else m[i]? := by
  have h1 : vs.take (m.length - o) = vs := List.take_of_length_le (by omega)
  simp only [writeAt, h1]
  by_cases h2 : i < o
  · have : ¬ (o ≤ i ∧ i < o + vs.length) := by omega
    simp only [this, ↓reduceIte]
    rw [List.append_assoc, List.getElem?_append_left (by simp; omega)]
    simp [h2]
  · by_cases h3 : i < o + vs.length
    · have : o ≤ i ∧ i < o + vs.length := by omega
      simp only [this, and_self, ↓reduceIte]
      rw [List.append_assoc, List.getElem?_append_right (by simp; omega)]
      rw [List.getElem?_append_left (by simp; omega)]
      simp; congr 1; omega
    · have : ¬ (o ≤ i ∧ i < o + vs.length) := by omega
      simp only [this, ↓reduceIte]
      rw [List.getElem?_append_right (by simp; omega)]
      simp
      congr 1
      have : min o m.length = o := by omega
      omega

theorem writeAt_comm {α : Type} (m : List α) (o1 o2 : Nat) (v1 v2 : List α)
    (h1 : o1 + v1.length ≤ m.length) (h2 : o2 + v2.length ≤ m.length)
    (hd : o1 + v1.length ≤ o2 ∨ o2 + v2.length ≤ o1) :
    writeAt (writeAt m o1 v1) o2 v2 = writeAt (writeAt m o2 v2) o1 v1 := by
  apply List.ext_getElem?
  intro i
  have e1 := writeAt_getElem? (writeAt m o1 v1) o2 v2 (by rw [writeAt_length _ _ _ h1]; exact h2) i
  have e2 := writeAt_getElem? (writeAt m o2 v2) o1 v1 (by rw [writeAt_length _ _ _ h2]; exact h1) i
  have e3 := writeAt_getElem? m o1 v1 h1 i
  have e4 := writeAt_getElem? m o2 v2 h2 i
  rw [e1, e2, e3, e4]
  by_cases a : o1 ≤ i ∧ i < o1 + v1.length <;> by_cases b : o2 ≤ i ∧ i < o2 + v2.length <;> simp [a, b]
  omega

theorem writeAt_map {α β : Type} (f : α → β) (m : List α) (o : Nat) (vs : List α) :
    (writeAt m o vs).map f = writeAt (m.map f) o (vs.map f) := by
  simp [writeAt, List.map_take, List.map_drop]

/-! ### overlay -/

theorem overlay_append (c : List Cell) (rs : List Reloc) (r : Reloc) :
    overlay c (rs ++ [r]) = writeAt (overlay c rs) r.offset (symCells r.label r.addend) := by
  induction rs generalizing c with
  | nil => simp [overlay, symCells]
  | cons r' rs ih => simp only [List.cons_append, overlay]; exact ih _

theorem overlay_len (rs : List Reloc) : ∀ (c : List Cell), (∀ r ∈ rs, r.offset + 8 ≤ c.length) →
    (overlay c rs).length = c.length := by
  induction rs with
  | nil => intro c _; rfl
  | cons r rs ih =>
    intro c h
    simp only [overlay]
    have hr := h r (List.mem_cons_self ..)
    have hl : (writeAt c r.offset ((List.range 8).map fun k => Cell.sym r.label r.addend k)).length = c.length :=
      writeAt_length _ _ _ (by simp; omega)
    rw [ih _ (by intro r' hr'; rw [hl]; exact h r' (List.mem_cons_of_mem _ hr')), hl]

/-- a write to a range no relocation touches commutes with laying the relocations over the bytes -/
theorem overlay_writeAt (rs : List Reloc) : ∀ (c : List Cell) (o : Nat) (vs : List Cell),
    o + vs.length ≤ c.length → (∀ r ∈ rs, r.offset + 8 ≤ c.length) →
    (∀ r ∈ rs, r.offset + 8 ≤ o ∨ o + vs.length ≤ r.offset) →
    overlay (writeAt c o vs) rs = writeAt (overlay c rs) o vs := by
  induction rs with
  | nil => intro c o vs _ _ _; rfl
  | cons r rs ih =>
    intro c o vs h hb hd
    simp only [overlay]
    have hr := hb r (List.mem_cons_self ..)
    have hdr := hd r (List.mem_cons_self ..)
    have hs : ((List.range 8).map fun k => Cell.sym r.label r.addend k).length = 8 := by simp
    rw [writeAt_comm c o r.offset vs _ h (by rw [hs]; exact hr) (by rw [hs]; omega)]
    have hl : (writeAt c r.offset ((List.range 8).map fun k => Cell.sym r.label r.addend k)).length = c.length :=
      writeAt_length _ _ _ (by rw [hs]; exact hr)
    exact ih _ o vs (by rw [hl]; exact h) (by intro r' hr'; rw [hl]; exact hb r' (List.mem_cons_of_mem _ hr'))
      (fun r' hr' => hd r' (List.mem_cons_of_mem _ hr'))

/-- where no relocation reaches, the image shows the byte of `init_data` -/
theorem overlay_getElem? (rs : List Reloc) : ∀ (c : List Cell) (i : Nat), (∀ r ∈ rs, r.offset + 8 ≤ c.length) →
    (∀ r ∈ rs, i < r.offset ∨ r.offset + 8 ≤ i) → (overlay c rs)[i]? = c[i]? := by
  induction rs with
  | nil => intro c i _ _; rfl
  | cons r rs ih =>
    intro c i hb hd
    simp only [overlay]
    have hr := hb r (List.mem_cons_self ..)
    have hdr := hd r (List.mem_cons_self ..)
    have hs : ((List.range 8).map fun k => Cell.sym r.label r.addend k).length = 8 := by simp
    have hl : (writeAt c r.offset ((List.range 8).map fun k => Cell.sym r.label r.addend k)).length = c.length :=
      writeAt_length _ _ _ (by rw [hs]; exact hr)
    rw [ih _ i (by intro r' hr'; rw [hl]; exact hb r' (List.mem_cons_of_mem _ hr')) (fun r' hr' => hd r' (List.mem_cons_of_mem _ hr'))]
    rw [writeAt_getElem? _ _ _ (by rw [hs]; exact hr)]
    have : ¬ (r.offset ≤ i ∧ i < r.offset + ((List.range 8).map fun k => Cell.sym r.label r.addend k).length) := by
      rw [hs]; omega
    simp only [this, ↓reduceIte]

/-! ### bits -/

/-- bit `p` (little-endian numbering over the whole buffer) of `init_data` -/
def bitOf (bytes : List Nat) (p : Nat) : Bool := ((bytes.getD (p / 8) 0) % 256).testBit (p % 8)

theorem fromLE_testBit : ∀ (bs : List Nat) (j : Nat), (fromLE bs).testBit j = ((bs.getD (j / 8) 0) % 256).testBit (j % 8)
  | [], j => by simp [fromLE]
  | b :: r, j => by
    have h : b % 256 < 2 ^ 8 := by omega
    have e : fromLE (b :: r) = 2 ^ 8 * fromLE r + b % 256 := by simp [fromLE]; omega
    rw [e, Nat.testBit_two_pow_mul_add _ h]
    by_cases hj : j < 8
    · simp only [hj, ↓reduceIte]
      have : j / 8 = 0 := by omega
      have h2 : j % 8 = j := by omega
      simp [this, h2]
    · simp only [hj, ↓reduceIte]
      rw [fromLE_testBit r (j - 8)]
      have h1 : j / 8 = (j - 8) / 8 + 1 := by omega
      have h2 : (j - 8) % 8 = j % 8 := by omega
      simp [h1, h2]

theorem leBytes_length (v n : Nat) : (leBytes v n).length = n := by
  induction n generalizing v with
  | zero => rfl
  | succ n ih => simp [leBytes, ih]

theorem leBytes_getD : ∀ (n v i : Nat), i < n → (leBytes v n).getD i 0 = (v / 256 ^ i) % 256
  | 0, _, _, h => by omega
  | n+1, v, 0, _ => by simp [leBytes]
  | n+1, v, i+1, h => by
    simp only [leBytes, List.getD_cons_succ]
    rw [leBytes_getD n (v / 256) i (by omega), Nat.div_div_eq_div_mul, Nat.pow_succ, Nat.mul_comm]

theorem leBytes_bit (n v p : Nat) (h : p < 8 * n) : bitOf (leBytes v n) p = v.testBit p := by
  simp only [bitOf]
  rw [leBytes_getD n v (p / 8) (by omega)]
  have : (256 : Nat) ^ (p / 8) = 2 ^ (8 * (p / 8)) := by rw [Nat.pow_mul]
  rw [Nat.mod_mod, this, show (256 : Nat) = 2 ^ 8 from rfl, Nat.testBit_mod_two_pow, Nat.testBit_div_two_pow]
  have h1 : p % 8 < 8 := Nat.mod_lt _ (by omega)
  have h2 : p % 8 + 8 * (p / 8) = p := by omega
  simp [h1, h2]


theorem leBytes_lt (n v : Nat) : ∀ b ∈ leBytes v n, b < 256 := by
  induction n generalizing v with
  | zero => simp [leBytes]
  | succ n ih =>
    intro b hb
    simp only [leBytes, List.mem_cons] at hb
    rcases hb with rfl | hb
    · omega
    · exact ih _ b hb

theorem writeAt_getD {α : Type} (m : List α) (o : Nat) (vs : List α) (h : o + vs.length ≤ m.length) (i : Nat) (d : α) :
    (writeAt m o vs).getD i d = if o ≤ i ∧ i < o + vs.length then vs.getD (i - o) d else m.getD i d := by
  simp only [List.getD_eq_getElem?_getD, writeAt_getElem? m o vs h i]
  split <;> rfl

theorem bitOf_writeAt_outside (bytes : List Nat) (o : Nat) (vs : List Nat) (h : o + vs.length ≤ bytes.length) (p : Nat)
    (hp : p < 8 * o ∨ 8 * (o + vs.length) ≤ p) : bitOf (writeAt bytes o vs) p = bitOf bytes p := by
  simp only [bitOf, writeAt_getD _ _ _ h]
  have : ¬ (o ≤ p / 8 ∧ p / 8 < o + vs.length) := by omega
  simp only [this, ↓reduceIte]

theorem bitOf_writeAt_inside (bytes : List Nat) (o : Nat) (vs : List Nat) (h : o + vs.length ≤ bytes.length) (p : Nat)
    (hp : 8 * o ≤ p ∧ p < 8 * (o + vs.length)) : bitOf (writeAt bytes o vs) p = bitOf vs (p - 8 * o) := by
  simp only [bitOf, writeAt_getD _ _ _ h]
  have : o ≤ p / 8 ∧ p / 8 < o + vs.length := by omega
  simp only [this, and_self, ↓reduceIte]
  have h1 : (p - 8 * o) / 8 = p / 8 - o := by omega
  have h2 : (p - 8 * o) % 8 = p % 8 := by omega
  rw [h1, h2]

end ChibiVerif.Init
