/-
Helper lemmas for the scope model (C03): the chain walk agrees with the backward reading of
the history; a balanced block leaves the bindings unchanged; the chain of hashmap.c tables
refines the chain of dictionaries (through C17's `Inv.put_spec` / `Inv.get_eq`).
Core Lean only.
-/
import ChibiVerif.Model.Scope
import ChibiVerif.Lemmas.HashMapLemmas

set_option linter.unusedSectionVars false

namespace ChibiVerif.Scope
open ChibiVerif.HashMap (AMap HM Crash Inv absGet)

variable {V T : Type}

theorem run_append (ops1 ops2 : List (Op V T)) : ∀ s : Stack V T,
    run s (ops1 ++ ops2) = match run s ops1 with
      | .ok s' => run s' ops2
      | .error e => .error e := by
  induction ops1 with
  | nil => intro s; rfl
  | cons op ops ih =>
    intro s
    simp only [List.cons_append, run]
    cases step s op with
    | ok s' => exact ih s'
    | error e => rfl

theorem run_snoc (ops : List (Op V T)) (op : Op V T) (s s' : Stack V T)
    (h : run s (ops ++ [op]) = .ok s') :
    ∃ s1, run s ops = .ok s1 ∧ step s1 op = .ok s' := by
  rw [run_append] at h
  cases h1 : run s ops with
  | error e => rw [h1] at h; cases h
  | ok s1 =>
    rw [h1] at h
    refine ⟨s1, rfl, ?_⟩
    simp only [run] at h
    cases h2 : step s1 op with
    | error e => rw [h2] at h; cases h
    | ok s2 => rw [h2] at h; exact h

theorem findVar_init_drop (k : Nat) (name : String) :
    findVar ((Stack.init : Stack V T).drop k) name = none := by
  cases k with
  | zero => rfl
  | succ k => simp [Stack.init, findVar]

theorem findVar_eq_specVar_rev (name : String) (r : List (Op V T)) :
    ∀ (s : Stack V T), run Stack.init r.reverse = .ok s → ∀ k,
      findVar (s.drop k) name = specVar name r k := by
  induction r with
  | nil =>
    intro s h k
    change Except.ok Stack.init = Except.ok s at h
    cases h
    simp [specVar, findVar_init_drop]
  | cons op r ih =>
    intro s h k
    rw [List.reverse_cons] at h
    obtain ⟨s1, h1, hstep⟩ := run_snoc _ op _ s h
    have ih1 := ih s1 h1
    cases op with
    | enter =>
      simp only [step, enter] at hstep
      cases hstep
      cases k with
      | zero =>
        have := ih1 0
        simp only [List.drop_zero] at this
        simp only [specVar, List.drop_zero, findVar, Frame.empty, AMap.get_empty, this]
      | succ k => simpa [specVar] using ih1 k
    | leave =>
      cases s1 with
      | nil => simp [step, leave] at hstep
      | cons f rest =>
        simp only [step, leave] at hstep
        cases hstep
        simpa [specVar] using ih1 (k + 1)
    | declVar n v =>
      cases s1 with
      | nil => simp [step, declareVar] at hstep
      | cons f rest =>
        simp only [step, declareVar] at hstep
        cases hstep
        cases k with
        | zero =>
          have := ih1 0
          simp only [List.drop_zero] at this
          simp only [specVar, List.drop_zero, findVar, AMap.get_put]
          by_cases hn : name = n
          · subst hn; simp
          · have hn' : ¬ n = name := fun e => hn e.symm
            simp only [hn, hn', if_false]
            rw [← this]; rfl
        | succ k => simpa [specVar] using ih1 (k + 1)
    | declTag n t =>
      cases s1 with
      | nil => simp [step, declareTag] at hstep
      | cons f rest =>
        simp only [step, declareTag] at hstep
        cases hstep
        cases k with
        | zero =>
          have := ih1 0
          simp only [List.drop_zero] at this
          simp only [specVar, List.drop_zero]
          rw [← this]; rfl
        | succ k => simpa [specVar] using ih1 (k + 1)
theorem findTag_init_drop (k : Nat) (name : String) :
    findTag ((Stack.init : Stack V T).drop k) name = none := by
  cases k with
  | zero => rfl
  | succ k => simp [Stack.init, findTag]

theorem findTag_eq_specTag_rev (name : String) (r : List (Op V T)) :
    ∀ (s : Stack V T), run Stack.init r.reverse = .ok s → ∀ k,
      findTag (s.drop k) name = specTag name r k := by
  induction r with
  | nil =>
    intro s h k
    change Except.ok Stack.init = Except.ok s at h
    cases h
    simp [specTag, findTag_init_drop]
  | cons op r ih =>
    intro s h k
    rw [List.reverse_cons] at h
    obtain ⟨s1, h1, hstep⟩ := run_snoc _ op _ s h
    have ih1 := ih s1 h1
    cases op with
    | enter =>
      simp only [step, enter] at hstep
      cases hstep
      cases k with
      | zero =>
        have := ih1 0
        simp only [List.drop_zero] at this
        simp only [specTag, List.drop_zero, findTag, Frame.empty, AMap.get_empty, this]
      | succ k => simpa [specTag] using ih1 k
    | leave =>
      cases s1 with
      | nil => simp [step, leave] at hstep
      | cons f rest =>
        simp only [step, leave] at hstep
        cases hstep
        simpa [specTag] using ih1 (k + 1)
    | declTag n v0 =>
      cases s1 with
      | nil => simp [step, declareTag] at hstep
      | cons f rest =>
        simp only [step, declareTag] at hstep
        cases hstep
        cases k with
        | zero =>
          have := ih1 0
          simp only [List.drop_zero] at this
          simp only [specTag, List.drop_zero, findTag, AMap.get_put]
          by_cases hn : name = n
          · subst hn; simp
          · have hn' : ¬ n = name := fun e => hn e.symm
            simp only [hn, hn', if_false]
            rw [← this]; rfl
        | succ k => simpa [specTag] using ih1 (k + 1)
    | declVar n t0 =>
      cases s1 with
      | nil => simp [step, declareVar] at hstep
      | cons f rest =>
        simp only [step, declareVar] at hstep
        cases hstep
        cases k with
        | zero =>
          have := ih1 0
          simp only [List.drop_zero] at this
          simp only [specTag, List.drop_zero]
          rw [← this]; rfl
        | succ k => simpa [specTag] using ih1 (k + 1)


/-! ### a complete block leaves the chain below it unchanged -/

theorem run_balancedFrom (ops : List (Op V T)) :
    ∀ (d : Nat) (pre s s' : Stack V T), pre.length = d + 1 → balancedFrom d ops = true →
      run (pre ++ s) ops = .ok s' → ∃ f, s' = f :: s := by
  induction ops with
  | nil =>
    intro d pre s s' hd hb h
    simp only [balancedFrom, beq_iff_eq] at hb
    subst hb
    cases pre with
    | nil => simp at hd
    | cons f pre =>
      have : pre = [] := List.eq_nil_of_length_eq_zero (by simpa using hd)
      subst this
      change Except.ok _ = Except.ok s' at h
      cases h
      exact ⟨f, rfl⟩
  | cons op ops ih =>
    intro d pre s s' hd hb h
    simp only [run] at h
    cases pre with
    | nil => simp at hd
    | cons f pre =>
      cases op with
      | enter =>
        simp only [balancedFrom] at hb
        simp only [step, enter] at h
        exact ih (d + 1) (Frame.empty :: f :: pre) s s' (by simp at hd ⊢; omega) hb h
      | leave =>
        cases d with
        | zero => simp [balancedFrom] at hb
        | succ d =>
          simp only [balancedFrom] at hb
          simp only [step, leave, List.cons_append] at h
          exact ih d pre s s' (by simpa using hd) hb h
      | declVar n v =>
        have hb' : balancedFrom d ops = true := by
          cases d <;> simpa [balancedFrom] using hb
        simp only [step, declareVar, List.cons_append] at h
        exact ih d (_ :: pre) s s' (by simpa using hd) hb' h
      | declTag n t =>
        have hb' : balancedFrom d ops = true := by
          cases d <;> simpa [balancedFrom] using hb
        simp only [step, declareTag, List.cons_append] at h
        exact ih d (_ :: pre) s s' (by simpa using hd) hb' h

theorem run_block (body : List (Op V T)) (hb : balanced body = true) (s s' : Stack V T)
    (h : run s ([Op.enter] ++ body ++ [Op.leave]) = .ok s') : s' = s := by
  rw [run_append] at h
  cases h1 : run s ([Op.enter] ++ body) with
  | error e => rw [h1] at h; cases h
  | ok s1 =>
    rw [h1] at h
    simp only [List.singleton_append, run, step, enter] at h1
    obtain ⟨f, hf⟩ := run_balancedFrom body 0 [Frame.empty] s s1 rfl hb h1
    subst hf
    simp only [run, step, leave] at h
    cases h; rfl

/-! ### the chain of hashmap.c tables refines the chain of dictionaries -/

/-- per-scope representation relation: both tables satisfy C17's invariant and denote the
    dictionaries of the abstract frame -/
def FrameRel (h : String → Nat) (c : CFrame V T) (a : Frame V T) : Prop :=
  Inv h c.vars ∧ (∀ k, absGet c.vars k = a.vars.get k) ∧
  Inv h c.tags ∧ (∀ k, absGet c.tags k = a.tags.get k)

def StackRel (h : String → Nat) : CStack V T → Stack V T → Prop
  | [], [] => True
  | c :: cs, a :: as => FrameRel h c a ∧ StackRel h cs as
  | _, _ => False

theorem FrameRel_empty (h : String → Nat) :
    FrameRel h (CFrame.empty : CFrame V T) (Frame.empty : Frame V T) := by
  refine ⟨HashMap.Inv_empty h, ?_, HashMap.Inv_empty h, ?_⟩ <;>
  · intro k
    rw [HashMap.absGet_of_length_zero rfl]
    rfl

theorem StackRel_init (h : String → Nat) :
    StackRel h (CStack.init : CStack V T) (Stack.init : Stack V T) :=
  ⟨FrameRel_empty h, trivial⟩

theorem cstep_refines (h : String → Nat) (op : Op V T) :
    ∀ (cs : CStack V T) (s s' : Stack V T), StackRel h cs s → step s op = .ok s' →
      ∃ cs', cstep h cs op = .ok cs' ∧ StackRel h cs' s' := by
  intro cs s s' hr hs
  cases op with
  | enter =>
    simp only [step, enter] at hs
    cases hs
    exact ⟨_, rfl, FrameRel_empty h, hr⟩
  | leave =>
    cases s with
    | nil => simp [step, leave] at hs
    | cons a as =>
      cases cs with
      | nil => exact absurd hr (by simp [StackRel])
      | cons c cs =>
        simp only [step, leave] at hs
        cases hs
        exact ⟨cs, rfl, hr.2⟩
  | declVar n v =>
    cases s with
    | nil => simp [step, declareVar] at hs
    | cons a as =>
      cases cs with
      | nil => exact absurd hr (by simp [StackRel])
      | cons c cs =>
        simp only [step, declareVar] at hs
        cases hs
        obtain ⟨⟨hv, hva, ht, hta⟩, hrest⟩ := hr
        obtain ⟨m', hm', w', habs'⟩ := hv.put_spec n v
        refine ⟨{ c with vars := m' } :: cs, ?_, ⟨Or.inr w', ?_, ht, hta⟩, hrest⟩
        · simp [cstep, hm', liftC, bind, Except.bind, pure, Except.pure]
        · intro k
          rw [habs', HashMap.AMap.get_put, hva]
  | declTag n t =>
    cases s with
    | nil => simp [step, declareTag] at hs
    | cons a as =>
      cases cs with
      | nil => exact absurd hr (by simp [StackRel])
      | cons c cs =>
        simp only [step, declareTag] at hs
        cases hs
        obtain ⟨⟨hv, hva, ht, hta⟩, hrest⟩ := hr
        obtain ⟨m', hm', w', habs'⟩ := ht.put_spec n t
        refine ⟨{ c with tags := m' } :: cs, ?_, ⟨hv, hva, Or.inr w', ?_⟩, hrest⟩
        · simp [cstep, hm', liftC, bind, Except.bind, pure, Except.pure]
        · intro k
          rw [habs', HashMap.AMap.get_put, hta]

theorem crun_refines (h : String → Nat) (ops : List (Op V T)) :
    ∀ (cs : CStack V T) (s s' : Stack V T), StackRel h cs s → run s ops = .ok s' →
      ∃ cs', crun h cs ops = .ok cs' ∧ StackRel h cs' s' := by
  induction ops with
  | nil =>
    intro cs s s' hr hs
    change Except.ok s = Except.ok s' at hs
    cases hs
    exact ⟨cs, rfl, hr⟩
  | cons op ops ih =>
    intro cs s s' hr hs
    simp only [run] at hs
    cases h1 : step s op with
    | error e => rw [h1] at hs; cases hs
    | ok s1 =>
      rw [h1] at hs
      obtain ⟨cs1, hc1, hr1⟩ := cstep_refines h op cs s s1 hr h1
      obtain ⟨cs', hc', hr'⟩ := ih cs1 s1 s' hr1 hs
      exact ⟨cs', by simp only [crun, hc1, hc'], hr'⟩

theorem cfindVar_refines (h : String → Nat) (name : String) :
    ∀ (cs : CStack V T) (s : Stack V T), StackRel h cs s →
      cfindVar h cs name = .ok (findVar s name) := by
  intro cs
  induction cs with
  | nil =>
    intro s hr
    cases s with
    | nil => rfl
    | cons a as => exact absurd hr (by simp [StackRel])
  | cons c cs ih =>
    intro s hr
    cases s with
    | nil => exact absurd hr (by simp [StackRel])
    | cons a as =>
      obtain ⟨⟨hv, hva, _, _⟩, hrest⟩ := hr
      simp only [cfindVar, findVar, hv.get_eq name, hva name]
      cases a.vars.get name with
      | some v => rfl
      | none => exact ih as hrest

theorem cfindTag_refines (h : String → Nat) (name : String) :
    ∀ (cs : CStack V T) (s : Stack V T), StackRel h cs s →
      cfindTag h cs name = .ok (findTag s name) := by
  intro cs
  induction cs with
  | nil =>
    intro s hr
    cases s with
    | nil => rfl
    | cons a as => exact absurd hr (by simp [StackRel])
  | cons c cs ih =>
    intro s hr
    cases s with
    | nil => exact absurd hr (by simp [StackRel])
    | cons a as =>
      obtain ⟨⟨_, _, ht, hta⟩, hrest⟩ := hr
      simp only [cfindTag, findTag, ht.get_eq name, hta name]
      cases a.tags.get name with
      | some v => rfl
      | none => exact ih as hrest

end ChibiVerif.Scope
