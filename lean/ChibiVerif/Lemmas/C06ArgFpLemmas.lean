/-
C06, argument conversions with a floating side: the conversion is C02's (`select_partial`), the transfer is `pushf()` /
`sub $16, %rsp; fstpt (%rsp)` of `push_args2`.  What the 8-byte (16-byte) slot holds afterwards is what the pop phase moves into
%xmmN with `movsd (%rsp), %xmmN` or what the callee reads in place.
-/
import ChibiVerif.Lemmas.C06ArgLemmas
import ChibiVerif.Lemmas.FpCastLemmas

namespace ChibiVerif.C06Args
open ChibiVerif.X86 ChibiVerif.Asm ChibiVerif.Fp ChibiVerif.Spec.Fpu ChibiVerif.Spec.FpC11 ChibiVerif.Spec.IntSpec
open ChibiVerif.Gen.CommonType ChibiVerif.Gen.Funcall ChibiVerif.C01

/-- C02's descriptors are the ones of the model -/
theorem descrA_eq (a : ATy) : descrA a = Fp.descr a := by
  cases a with
  | int t => cases t <;> rfl
  | f32 => rfl
  | f64 => rfl
  | f80 => rfl

/-- a label-free continuation runs from where the first part stopped -/
theorem runFrom_append_some (F : FpuSpec) (a b : List Ins) (k : Option String) (s s1 : FState)
    (h : runFrom F a k s = some s1) : runFrom F (a ++ b) k s = runFrom F b none s1 := by
  induction a generalizing k s with
  | nil =>
    cases k with
    | none => simp [runFrom] at h; subst h; rfl
    | some l => simp [runFrom] at h
  | cons i is ih =>
    cases k with
    | some l =>
      simp only [List.cons_append, runFrom] at h ⊢
      split
      · rename_i hc; simp only [hc, and_self, if_true] at h; exact ih _ _ h
      · rename_i hc; simp only [hc, if_false] at h; exact ih _ _ h
    | none =>
      simp only [List.cons_append, runFrom] at h ⊢
      split
      · rename_i hc; simp only [hc, if_true] at h; exact ih _ _ h
      · rename_i hc
        simp only [hc, if_false] at h
        cases hj : jumpOf i s with
        | some j =>
          obtain ⟨nf, tk, l⟩ := j
          simp only [hj] at h ⊢
          split
          · rename_i hv; simp only [hv, if_true] at h; cases h
          · rename_i hv
            simp only [hv, if_false] at h
            split
            · rename_i ht
              simp only [ht, if_true] at h
              cases hl : labelOfRef l with
              | none => simp [hl] at h
              | some t => simp only [hl] at h ⊢; exact ih _ _ h
            · rename_i ht; simp only [ht, if_false] at h; exact ih _ _ h
        | none =>
          simp only [hj] at h ⊢
          cases hs : Fp.step F i s with
          | none => simp [hs] at h
          | some s' => simp only [hs] at h ⊢; exact ih _ _ h

theorem fp_run_append_some (F : FpuSpec) (a b : List Ins) (s s1 : FState) (h : Fp.run F a s = some s1) :
    Fp.run F (a ++ b) s = Fp.run F b s1 := runFrom_append_some F a b none s s1 h

/-- `pushf()`: the 8-byte slot at the new %rsp holds the low quadword of %xmm0 -/
theorem pushf_ok (F : FpuSpec) (s : FState) :
    ∃ s', Fp.run F pushfSeq s = some s' ∧ s'.x.read64 (s'.x.get .rsp) = s.xmm0 ∧ s'.x.get .rsp = s.x.get .rsp - 8 ∧
      s'.st = s.st ∧ s'.cw = s.cw := by
  obtain ⟨x, xmm0, xmm1, st, cw⟩ := s
  refine ⟨_, rfl, ?_, ?_, rfl, rfl⟩
  · simp only [State.ea]
    have : ∀ (y : State), (y.write64 (y.get .rsp + BitVec.ofInt 64 0) xmm0).read64
        ((y.write64 (y.get .rsp + BitVec.ofInt 64 0) xmm0).get .rsp) = xmm0 := by
      intro y
      rw [get_write64]
      have : y.get .rsp + BitVec.ofInt 64 0 = y.get .rsp := by simp
      rw [this]; exact read64_write64 _ _ _
    exact this _
  · simp only [State.ea]
    rw [get_write64]
    simp [State.dst, State.src, State.setW, State.getW, aluExec, Alu.writes, State.flags, State.get, State.set]

theorem mem_write16_ne (s : State) (a b : BitVec 64) (v : BitVec 16) (h1 : b ≠ a) (h2 : b ≠ a + 1) :
    (s.write16 a v).mem b = s.mem b := by
  have h2' : ¬ (b = a + 1#64) := h2
  simp [State.write16, State.write8, h1, h2']

/-- the two bytes `fstpt` writes above the low quadword do not disturb it -/
theorem read64_write16_above (s : State) (a : BitVec 64) (v : BitVec 16) :
    (s.write16 (a + 8) v).read64 a = s.read64 a := by
  have e : ∀ k : BitVec 64, k.toNat < 8 → (s.write16 (a + 8) v).mem (a + k) = s.mem (a + k) := by
    intro k hk
    apply mem_write16_ne <;> bv_omega
  have e0 := e 0#64 (by decide)
  have e1 := e 1#64 (by decide)
  have e2 := e 2#64 (by decide)
  have e3 := e 3#64 (by decide)
  have e4 := e 4#64 (by decide)
  have e5 := e 5#64 (by decide)
  have e6 := e 6#64 (by decide)
  have e7 := e 7#64 (by decide)
  have z : a + 0#64 = a := by simp
  rw [z] at e0
  simp only [State.read64, State.read32, State.read16, BitVec.add_assoc, BitVec.reduceAdd]
  simp only [BitVec.ofNat_eq_ofNat] at e0 e1 e2 e3 e4 e5 e6 e7 ⊢
  rw [e0, e1, e2, e3, e4, e5, e6, e7]

theorem split80 (v : BitVec 80) : ((v >>> 64).setWidth 16 ++ v.setWidth 64 : BitVec 80) = v := by
  apply BitVec.eq_of_getLsbD_eq
  intro i hi
  simp only [BitVec.getLsbD_append, BitVec.getLsbD_setWidth, BitVec.getLsbD_ushiftRight]
  by_cases h : i < 64
  · simp [h]
  · have e : 64 + (i - 64) = i := by omega
    have e2 : i - 64 < 16 := by omega
    simp [h, e, e2]

theorem read80_write80 (s : State) (a : BitVec 64) (v : BitVec 80) : read80 (write80 s a v) a = v := by
  simp only [read80, write80, read16_write16, read64_write16_above, read64_write64, split80]

/-- `sub $16, %rsp; fstpt (%rsp)`: the ten bytes at the new %rsp are %st(0), which is popped -/
theorem pushld_ok (F : FpuSpec) (s : FState) (b : BitVec 80) (rest : List (BitVec 80)) (h : s.st = b :: rest) :
    ∃ s', Fp.run F pushLdSeq s = some s' ∧ read80 s'.x (s'.x.get .rsp) = b ∧ s'.x.get .rsp = s.x.get .rsp - 16 ∧
      s'.st = rest ∧ s'.cw = s.cw := by
  obtain ⟨x, xmm0, xmm1, st, cw⟩ := s
  simp only at h
  subst h
  have hg : ∀ (y : State) (a : BitVec 64) (v : BitVec 80), (write80 y a v).get .rsp = y.get .rsp := by
    intro y a v; simp only [write80, get_write16, get_write64]
  refine ⟨_, rfl, ?_, ?_, rfl, rfl⟩
  · simp only [State.ea]
    rw [hg]
    have : ∀ (y : State), read80 (write80 y (y.get .rsp + BitVec.ofInt 64 0) b) (y.get .rsp) = b := by
      intro y
      have : y.get .rsp + BitVec.ofInt 64 0 = y.get .rsp := by simp
      rw [this]; exact read80_write80 _ _ _
    exact this _
  · simp only [State.ea]
    rw [hg]
    simp [State.src, State.setW, State.getW, State.flags, State.get, State.set]

/-- prototyped parameter and argument of arithmetic types: exactly the sequence C02's theorems are about -/
theorem argSeq_arith (frm to : ATy) (variadic : Bool) :
    argSeq variadic (some (descrA to)) (descrA frm) = some (Fp.castSeq frm to) := by
  have h : ∀ f t : ATy, argSeq variadic (some (descrA t)) (descrA f)
      = some (instrsOf (FpCodegen.cast (descrA f) (descrA t))) := by
    intro f t
    have hk : ((descrA t).kind != Kind.TY_STRUCT && (descrA t).kind != Kind.TY_UNION) = true := by
      cases t with
      | int t => cases t <;> rfl
      | f32 => rfl
      | f64 => rfl
      | f80 => rfl
    simp [argSeq, argStep, hk, castChain, instrsOf]
  rw [h, Fp.castSeq, descrA_eq, descrA_eq]

/-- trailing `float` argument: the `float → double` cell -/
theorem argSeq_tail_f32 : argSeq true none (descrA .f32) = some (Fp.castSeq .f32 .f64) := rfl
theorem argSeq_tail_f64 : argSeq true none (descrA .f64) = some [] := rfl
theorem argSeq_tail_f80 : argSeq true none (descrA .f80) = some [] := rfl

end ChibiVerif.C06Args
