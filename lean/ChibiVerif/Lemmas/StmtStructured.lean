/-
C03 — the statically checkable fragment: `structured s` implies that `Spec.exec` gives `s` a
meaning (never answers `unsupported`); label uniqueness as needed by the machine.
-/
import ChibiVerif.Lemmas.StmtLabels
import ChibiVerif.Lemmas.StmtMachine

set_option linter.unusedSimpArgs false
namespace ChibiVerif.Ctl
open ChibiVerif.Spec.Ctl

theorem structured_items (s : SStmt) : structured s = true → ∀ it ∈ items s, structured it = true := by
  induction s with
  | skip => intro _ it h; simp [items] at h
  | seq a b iha ihb =>
    intro h it hit
    simp only [structured, Bool.and_eq_true] at h
    simp only [items, List.mem_append] at hit
    rcases hit with hit | hit
    · exact iha h.1 it hit
    · exact ihb h.2 it hit
  | block s ih => intro h it hit; exact ih h it hit
  | _ => intro h it hit; simp only [items, List.mem_singleton] at hit; subst hit; exact h

theorem structured_seqOf (l : List SStmt) (h : ∀ it ∈ l, structured it = true) : structured (seqOf l) = true := by
  induction l with
  | nil => rfl
  | cons a r ih =>
    simp only [seqOf, structured, Bool.and_eq_true]
    exact ⟨h a (by simp), ih (fun it hit => h it (List.mem_cons_of_mem _ hit))⟩

theorem dropUntil_sub (p : SStmt → Bool) : ∀ (l r : List SStmt), dropUntil p l = some r → ∀ x ∈ r, x ∈ l := by
  intro l
  induction l with
  | nil => intro r h; simp [dropUntil] at h
  | cons a t ih =>
    intro r h x hx
    simp only [dropUntil] at h
    by_cases hp : p a = true
    · simp only [hp, if_true, Option.some.injEq] at h; subst h; exact hx
    · simp only [hp] at h
      exact List.mem_cons_of_mem _ (ih r h x hx)

theorem select_sub (w u : Bool) (v : Val) (l r : List SStmt) (h : select w u v l = some r) : ∀ x ∈ r, x ∈ l := by
  unfold select at h
  cases h1 : dropUntil (hasCase w u v) l with
  | some r1 => rw [h1] at h; simp only [Option.some.injEq] at h; subst h; exact dropUntil_sub _ l r1 h1
  | none => rw [h1] at h; exact dropUntil_sub _ l r h

theorem structured_supported (ω : Nat → Val) : ∀ (n : Nat) (s : SStmt) (σ : SState),
    structured s = true → exec ω n s σ ≠ .unsupported := by
  intro n
  induction n with
  | zero => intro s σ _; cases s <;> simp [exec]
  | succ n ih =>
    intro s σ hs
    cases s with
    | skip => simp [exec]
    | marker k => simp [exec]
    | break_ => simp [exec]
    | continue_ => simp [exec]
    | ret => simp [exec]
    | goto_ l => simp [structured] at hs
    | gotoVal l => simp [structured] at hs
    | block s => simp only [exec]; exact ih s σ hs
    | case_ lo hi s => simp only [exec]; exact ih s σ hs
    | default_ s => simp only [exec]; exact ih s σ hs
    | label l s => simp only [exec]; exact ih s σ hs
    | seq a b =>
      simp only [structured, Bool.and_eq_true] at hs
      simp only [exec]
      cases hr : exec ω n a σ with
      | unsupported => exact absurd hr (ih a σ hs.1)
      | timeout σ' => simp
      | done o σ1 => cases o <;> simp <;> exact ih b σ1 hs.2
    | ifte c t e =>
      simp only [structured, Bool.and_eq_true] at hs
      simp only [exec]
      split
      · exact ih t _ hs.1
      · exact ih e _ hs.2
    | for_ i c inc body =>
      cases i with
      | some i => simp only [exec]; exact ih _ _ hs
      | none =>
        have hb : structured body = true := hs
        have hgo : ∀ σ1, (match exec ω n body σ1 with
            | .done .normal σ2 => exec ω n (.for_ none c inc body) (σ2.emitOpt inc)
            | .done .cont σ2 => exec ω n (.for_ none c inc body) (σ2.emitOpt inc)
            | .done .brk σ2 => .done .normal σ2
            | r => r) ≠ .unsupported := by
          intro σ1
          cases hr : exec ω n body σ1 with
          | unsupported => exact absurd hr (ih body σ1 hb)
          | timeout σ' => simp
          | done o σ2 => cases o <;> simp <;> exact ih _ _ hs
        simp only [exec]
        cases c with
        | none => exact hgo σ
        | some k =>
          simp only
          split
          · exact hgo _
          · simp
    | doWhile body c =>
      have hb : structured body = true := hs
      simp only [exec]
      have htest : ∀ σ2 : SState, (if truth (σ2.call ω (.c c)).1 then exec ω n (.doWhile body c) (σ2.call ω (.c c)).2
          else .done .normal (σ2.call ω (.c c)).2) ≠ .unsupported := by
        intro σ2
        split
        · exact ih _ _ hs
        · simp
      cases hr : exec ω n body σ with
      | unsupported => exact absurd hr (ih body σ hb)
      | timeout σ' => simp
      | done o σ2 => cases o <;> simp <;> exact htest σ2
    | switch_ w u k body =>
      simp only [structured, Bool.and_eq_true] at hs
      simp only [exec, hs.1, if_true]
      cases hsel : select w u (σ.call ω (.inp k)).1 (items body) with
      | none => simp
      | some rest =>
        simp only
        have hstr : structured (seqOf rest) = true :=
          structured_seqOf rest (fun it hit => structured_items body hs.2 it (select_sub w u _ _ rest hsel it hit))
        cases hr : exec ω n (seqOf rest) (σ.call ω (.inp k)).2 with
        | unsupported => exact absurd hr (ih _ _ hstr)
        | timeout σ' => simp
        | done o σ2 => cases o <;> simp

/-- pairwise distinct label definitions: every label has one position -/
theorem unique_of_nodup : ∀ P : Prog, (labelsOf P).Nodup → UniqueLabels P := by
  intro P
  induction P with
  | nil => intro _ i j l h; simp at h
  | cons a r ih =>
    intro hn i j l hi hj
    rw [labelsOf_cons, List.nodup_append] at hn
    have hmem : ∀ k : Nat, r[k]? = some (CIns.label l) → l ∈ labelsOf r := by
      intro k hk
      unfold labelsOf
      rw [List.mem_filterMap]
      exact ⟨CIns.label l, List.mem_of_getElem? hk, rfl⟩
    cases i with
    | zero =>
      cases j with
      | zero => rfl
      | succ j =>
        simp only [List.getElem?_cons_zero, Option.some.injEq] at hi
        simp only [List.getElem?_cons_succ] at hj
        subst hi
        exact absurd rfl (hn.2.2 l (by simp) l (hmem j hj))
    | succ i =>
      cases j with
      | zero =>
        simp only [List.getElem?_cons_zero, Option.some.injEq] at hj
        simp only [List.getElem?_cons_succ] at hi
        subst hj
        exact absurd rfl (hn.2.2 l (by simp) l (hmem i hi))
      | succ j =>
        simp only [List.getElem?_cons_succ] at hi hj
        rw [ih hn.2.1 i j l hi hj]

end ChibiVerif.Ctl
