/-
Helper lemmas for C15_symbols_partial: the symbol-table entry of an object.

Part 1 is about the declarations `D` of one object alone: what `objValid` / `tysAgree` say about any one of
them, and that `objAlign`/`objSize` are `emit_data`'s alignment rule applied to the composite type.
Part 2 reads the entry `emit_data` prints for a defined data object of the list `parse` returns and finds the
Spec's `objSymbol`.
-/
import ChibiVerif.Lemmas.LinkageFinal
import ChibiVerif.Lemmas.LinkageScanTy
import ChibiVerif.Lemmas.LinkageDecls

namespace ChibiVerif.Linkage
open ChibiVerif.Spec.Linkage

/-! ### part 1: the declarations of one object -/

def objEntry (fc : Bool) (x : Name) (D : List ObjDecl) : SymEntry :=
  ⟨.named x, if objInternal D then .local else .global, objKind fc D, some (objSize D), objAlign D⟩

theorem objSymbol_defined {fc : Bool} {ds : List Decl} {x : Name} (h : objDefined (objDecls ds x) = true) :
    objSymbol fc ds x = some (objEntry fc x (objDecls ds x)) := by
  simp [objSymbol, h, objEntry]

/-- the type parameters of the composite type -/
def tyP (D : List ObjDecl) : TyParams := ⟨objSize D, (D.headD default).ty.align, (D.headD default).ty.isArray⟩

section
variable {D : List ObjDecl} (hv : objValid D = true) {d : ObjDecl} (hd : d ∈ D)
include hv hd

theorem objValid_static (hx : objInternal D = true → d.isExtern = false) : d.isStatic = objInternal D := by
  simp only [objValid, Bool.and_eq_true] at hv
  have hl := hv.1.1.2
  cases hi : objInternal D
  · simp only [hi, Bool.false_eq_true, if_false, List.all_eq_true, Bool.not_eq_true'] at hl
    exact hl d hd
  · simp only [hi, if_true, List.all_eq_true, Bool.or_eq_true] at hl
    rcases hl d hd with h | h
    · exact h
    · rw [hx hi] at h; cases h

theorem objValid_tls : objTls D = d.isTls := by
  simp only [objValid, Bool.and_eq_true] at hv
  have ht := hv.1.2
  simp only [Bool.or_eq_true, List.all_eq_true, Bool.not_eq_true'] at ht
  unfold objTls
  cases hdt : d.isTls
  · rw [List.any_eq_false]
    intro y hy
    rcases ht with h | h
    · have := h d hd; rw [hdt] at this; cases this
    · simp [h y hy]
  · rw [List.any_eq_true]
    exact ⟨d, hd, hdt⟩

theorem objValid_ty : WTy (tyP D) d.ty ∧ (d.ty.unknownLen = false → d.ty.size = objSize D) ∧
    (d.ty.unknownLen = true → d.init = none) := by
  simp only [objValid, Bool.and_eq_true] at hv
  have ht := hv.2
  rw [List.all_eq_true] at ht
  have := ht d hd
  simp only [Bool.and_eq_true, beq_iff_eq, Bool.or_eq_true, Bool.not_eq_true', Option.isNone_iff_eq_none] at this
  obtain ⟨⟨⟨⟨h1, h2⟩, h3⟩, h4⟩, h5⟩ := this
  refine ⟨⟨h1, h2, fun hu => ?_⟩, fun hk => ?_, fun hu => ?_⟩
  · rcases h3 with h | h
    · rw [hu] at h; cases h
    · exact h
  · rcases h4 with h | h
    · rw [hk] at h; cases h
    · exact h
  · rcases h5 with h | h
    · rw [hu] at h; cases h
    · exact h

end

theorem foldl_max_const (A : Nat) : ∀ (D : List ObjDecl) (a0 : Nat), (∀ d, d ∈ D → d.ty.align = A) → D ≠ [] →
    D.foldl (fun a d => max a d.ty.align) a0 = max a0 A
  | [], _, _, h => absurd rfl h
  | [d], a0, hA, _ => by simp [hA d List.mem_cons_self]
  | d :: d2 :: r, a0, hA, _ => by
    rw [List.foldl_cons, foldl_max_const A (d2 :: r) _ (fun y hy => hA y (List.mem_cons_of_mem _ hy)) (by simp),
      hA d List.mem_cons_self]
    omega

/-- `objAlign` is `emit_data`'s alignment rule applied to a type with the composite type's parameters -/
theorem emitAlign_good {D : List ObjDecl} (hv : objValid D = true) (ha : ∀ d, d ∈ D → 1 ≤ d.ty.align) (hne : D ≠ [])
    {T : ObjTy} (hT : GoodTy (tyP D) T) : emitAlign T = objAlign D ∧ T.size = objSize D := by
  obtain ⟨⟨hTa, hTr, _⟩, _, hTs⟩ := hT
  refine ⟨?_, hTs⟩
  have hall : ∀ d, d ∈ D → d.ty.align = (D.headD default).ty.align ∧ d.ty.isArray = (D.headD default).ty.isArray :=
    fun d hd => ⟨(objValid_ty hv hd).1.1, (objValid_ty hv hd).1.2.1⟩
  obtain ⟨h0, hh0⟩ : ∃ h0, h0 ∈ D := List.exists_mem_of_ne_nil _ hne
  have hA1 : 1 ≤ (D.headD default).ty.align := by rw [← (hall h0 hh0).1]; exact ha h0 hh0
  unfold objAlign emitAlign
  rw [foldl_max_const _ D 1 (fun d hd => (hall d hd).1) hne]
  have hany : D.any (fun d => d.ty.isArray) = (D.headD default).ty.isArray := by
    cases hr : (D.headD default).ty.isArray
    · rw [List.any_eq_false]
      intro y hy
      rw [(hall y hy).2, hr]; simp
    · rw [List.any_eq_true]
      exact ⟨h0, hh0, by rw [(hall h0 hh0).2, hr]⟩
  simp only [tyP] at hTa hTr hTs
  rw [hany, hTa, hTr, hTs]
  have : max 1 (D.headD default).ty.align = (D.headD default).ty.align := by omega
  rw [this]

/-! ### part 2: the objects of the result -/

/-- what the theorem assumes about the unit, per object name -/
structure ObjOK (ds : List Decl) (x : Name) : Prop where
  valid : objValid (objDecls ds x) = true
  agree : tysAgree (objDecls ds x) = true
  noFn : x ∉ fnNames ds
  noExternInit : ¬ (objInternal (objDecls ds x) = true ∧ (objDecls ds x).any (fun d => d.isExtern && d.init.isSome) = true)
  noComposite : ¬ (objHasInit (objDecls ds x) = false ∧ objDefined (objDecls ds x) = true ∧
    ((objDecls ds x).filter (fun d => !d.isExtern)).all (fun d => d.ty.unknownLen) = true ∧
    (objDecls ds x).any (fun e => !e.ty.unknownLen) = true)

section
variable {ds : List Decl} {st : PState} {gs1 gs : List Obj} (p : Parsed ds st gs1 gs) {x : Name} (ok : ObjOK ds x)
include p ok

omit p in
theorem ObjOK.align_pos {d : ObjDecl} (hd : d ∈ objDecls ds x) : 1 ≤ d.ty.align := by
  have := ok.agree
  simp only [tysAgree, Bool.and_eq_true, List.all_eq_true, decide_eq_true_eq] at this
  exact this.1 d hd

/-- a non-tentative definition of `x` exists in the list iff some declaration of `x` has an initializer -/
theorem realDef_iff : gs1.any (realDefOf (.named x)) = objHasInit (objDecls ds x) := by
  rw [Bool.eq_iff_iff, List.any_eq_true]
  constructor
  · rintro ⟨o, ho, hr⟩
    simp only [realDefOf, Bool.and_eq_true, beq_iff_eq, Bool.not_eq_true'] at hr
    obtain ⟨⟨hdef, hnt⟩, hs⟩ := hr
    cases hf : o.isFunction
    · have ha : o ∈ allNews 0 ds := by rw [← p.data1]; exact mem_dataOf.mpr ⟨ho, hf⟩
      rcases (allNews_kind ds 0 o ha).named hs with ⟨s, e, t, ty, init, k, hd, rfl⟩ | ⟨f, n, s, e, i, b, tls, ty, _, _, rfl⟩
      · rw [varObj_isDefinition] at hdef
        rw [varObj_isTentative] at hnt
        have hinit : init.isSome = true := by cases init <;> simp_all
        unfold objHasInit
        rw [List.any_eq_true]
        exact ⟨⟨s, e, t, ty, init⟩, mem_objDecls.mpr hd, hinit⟩
      · cases hdef
    · exfalso
      have := p.fn_declared ho hf hs
      exact ok.noFn (firstFlags_isSome.mp this)
  · intro h
    unfold objHasInit at h
    rw [List.any_eq_true] at h
    obtain ⟨d, hd, hi⟩ := h
    obtain ⟨k, hk⟩ := var_mem_allNews ds 0 (mem_objDecls.mp hd)
    rw [← p.data1] at hk
    refine ⟨_, (mem_dataOf.mp hk).1, ?_⟩
    simp only [realDefOf, varObj_isDefinition, varObj_isTentative, varObj_sym, hi]
    cases hdi : d.init <;> simp_all

omit ok in
/-- a tentative definition of `x` in the list comes from a declaration without `extern` and without initializer -/
theorem tent_decl {a : Obj} (ha : a ∈ gs1) (ht : isTentOf (.named x) a = true) :
    ∃ d, d ∈ objDecls ds x ∧ d.isExtern = false ∧ d.init = none ∧ a.ty = d.ty ∧ a.isStatic = d.isStatic ∧
      a.isTls = d.isTls ∧ a.isFunction = false ∧ a.isDefinition = true ∧ a.hasInit = false := by
  have htt := isTentOf_tent ht
  have hs := isTentOf_sym ht
  have hf : a.isFunction = false := by
    cases hf : a.isFunction
    · rfl
    · rw [p.fnNotTent1 a ha hf] at htt; cases htt
  have ha' : a ∈ allNews 0 ds := by rw [← p.data1]; exact mem_dataOf.mpr ⟨ha, hf⟩
  rcases (allNews_kind ds 0 a ha').named hs with ⟨s, e, t, ty, init, k, hd, rfl⟩ | ⟨f, n, s, e, i, b, tls, ty, _, _, rfl⟩
  · rw [varObj_isTentative] at htt
    simp only [Bool.and_eq_true, Bool.not_eq_true', Option.isNone_iff_eq_none] at htt
    obtain ⟨rfl, rfl⟩ := htt
    exact ⟨⟨s, false, t, ty, none⟩, mem_objDecls.mpr hd, rfl, rfl, rfl, rfl, rfl, rfl, rfl, rfl⟩
  · cases htt

/-- the invariant of the walk holds for the tentative definitions of `x` -/
theorem chain_of_valid (hno : objHasInit (objDecls ds x) = false) : ChainOK (tyP (objDecls ds x)) (tysOf (.named x) gs1) := by
  have src : ∀ t, t ∈ tysOf (.named x) gs1 → ∃ d, d ∈ objDecls ds x ∧ d.ty = t := by
    intro t ht
    simp only [tysOf, List.mem_map, List.mem_filter] at ht
    obtain ⟨a, ⟨ha, hta⟩, rfl⟩ := ht
    obtain ⟨d, hd, _, _, hty, _⟩ := tent_decl p ha hta
    exact ⟨d, hd, hty.symm⟩
  apply chain_initial
  · intro t ht
    obtain ⟨d, hd, rfl⟩ := src t ht
    exact ⟨(objValid_ty ok.valid hd).1, (objValid_ty ok.valid hd).2.1⟩
  · by_cases hk : ∃ d, d ∈ objDecls ds x ∧ d.isExtern = false ∧ d.ty.unknownLen = false
    · -- a tentative definition gives the length
      left
      obtain ⟨d, hd, he, hu⟩ := hk
      have hin : d.init = none := by
        unfold objHasInit at hno
        rw [List.any_eq_false] at hno
        have := hno d hd
        cases hdi : d.init <;> simp_all
      obtain ⟨k, hk⟩ := var_mem_allNews ds 0 (mem_objDecls.mp hd)
      rw [← p.data1] at hk
      refine ⟨d.ty, ?_, hu⟩
      simp only [tysOf, List.mem_map, List.mem_filter]
      refine ⟨_, ⟨(mem_dataOf.mp hk).1, ?_⟩, varObj_ty _ _ _ _ _ _ _⟩
      simp [isTentOf, varObj_isTentative, varObj_sym, hin, he]
    · -- no declaration at all gives the length: all element sizes agree
      right
      have hdef : ∀ t, t ∈ tysOf (.named x) gs1 → objDefined (objDecls ds x) = true := by
        intro t ht
        simp only [tysOf, List.mem_map, List.mem_filter] at ht
        obtain ⟨a, ⟨ha, hta⟩, _⟩ := ht
        obtain ⟨d, hd, he, _⟩ := tent_decl p ha hta
        unfold objDefined
        rw [List.any_eq_true]
        exact ⟨d, hd, by simp [he]⟩
      intro t ht
      have hallU : ∀ d, d ∈ objDecls ds x → d.ty.unknownLen = true := by
        intro d hd
        cases hu : d.ty.unknownLen
        · exfalso
          apply ok.noComposite
          refine ⟨hno, hdef t ht, ?_, ?_⟩
          · rw [List.all_eq_true]
            intro y hy
            rw [List.mem_filter] at hy
            cases hyu : y.ty.unknownLen
            · exact absurd ⟨y, hy.1, by simpa using hy.2, hyu⟩ hk
            · rfl
          · rw [List.any_eq_true]
            exact ⟨d, hd, by simp [hu]⟩
        · rfl
      obtain ⟨d, hd, rfl⟩ := src t ht
      -- objSize D is the head's size; tysAgree: every size is that of the first open declaration, the head
      cases hD : objDecls ds x with
      | nil => rw [hD] at hd; cases hd
      | cons h0 rest =>
        have hh0 : h0.ty.unknownLen = true := hallU h0 (by rw [hD]; exact List.mem_cons_self)
        have hsize : objSize (h0 :: rest) = h0.ty.size := by
          unfold objSize
          have : (h0 :: rest).find? (fun d => !d.ty.unknownLen) = none := by
            rw [List.find?_eq_none]
            intro y hy
            have := hallU y (by rw [hD]; exact hy)
            simp [this]
          rw [this]
        have hag := ok.agree
        rw [hD] at hag hd
        simp only [tysAgree, Bool.and_eq_true] at hag
        have hfind : (h0 :: rest).find? (fun d => d.ty.unknownLen) = some h0 := by simp [List.find?, hh0]
        rw [hfind] at hag
        have := hag.2
        rw [List.all_eq_true] at this
        have hd' := this d hd
        simp only [Bool.or_eq_true, Bool.not_eq_true', beq_iff_eq] at hd'
        show d.ty.size = (tyP (h0 :: rest)).size
        simp only [tyP, hsize]
        rcases hd' with h | h
        · rw [hallU d (by rw [hD]; exact hd)] at h; cases h
        · exact h

/-- **the entry of a defined data object.**  Whatever defined data object named `x` the result contains,
    `emit_data` prints for it (and `as` records) exactly the Spec's entry for `x`. -/
theorem data_entry (fc : Bool) {o : Obj} (ho : o ∈ gs) (hf : o.isFunction = false) (hdef : o.isDefinition = true)
    (hs : o.sym = .named x) :
    objDefined (objDecls ds x) = true ∧ (emitDataVar fc o).map asmView = some (objEntry fc x (objDecls ds x)) := by
  cases ht : o.isTentative
  · -- a definition with initializer
    have ha := p.data_nt_of_mem ho hf ht
    rcases (allNews_kind ds 0 o ha).named hs with ⟨s, e, t, ty, init, k, hd, rfl⟩ | ⟨f, n, s, e, i, b, tls, ty, _, _, rfl⟩
    · rw [varObj_isDefinition] at hdef
      rw [varObj_isTentative] at ht
      cases init with
      | none => simp_all
      | some items =>
        have hmem : (⟨s, e, t, ty, some items⟩ : ObjDecl) ∈ objDecls ds x := mem_objDecls.mpr hd
        have hD : objDefined (objDecls ds x) = true := by
          unfold objDefined; rw [List.any_eq_true]; exact ⟨_, hmem, rfl⟩
        have hI : objHasInit (objDecls ds x) = true := by
          unfold objHasInit; rw [List.any_eq_true]; exact ⟨_, hmem, rfl⟩
        refine ⟨hD, ?_⟩
        have hstat := objValid_static ok.valid hmem (fun hi => by
          cases he : e
          · rfl
          · exfalso
            apply ok.noExternInit
            refine ⟨hi, ?_⟩
            rw [List.any_eq_true]
            exact ⟨_, hmem, by simp [he]⟩)
        have htls := objValid_tls ok.valid hmem
        obtain ⟨hw, hk, hu⟩ := objValid_ty ok.valid hmem
        have hknown : ty.unknownLen = false := by
          cases h : ty.unknownLen
          · rfl
          · have := hu h; cases this
        have hgood : GoodTy (tyP (objDecls ds x)) ty := ⟨hw, hknown, hk hknown⟩
        obtain ⟨hal, _⟩ := emitAlign_good ok.valid (fun d hd => ok.align_pos hd)
          (by intro h0; rw [h0] at hmem; cases hmem) hgood
        simp only at hstat htls
        simp only [objEntry, objKind, hI, htls, ← hstat, ← hal, ← hk hknown]
        cases s <;> cases t <;> simp [emitDataVar, varObj, asmView, bindingOf]
    · cases hdef
  · -- a tentative definition
    obtain ⟨a, ha, hkept, hsame⟩ := p.data_of_mem ho hf
    obtain ⟨T, rfl⟩ := hsame
    have hsa : a.sym = .named x := hs
    have hta : a.isTentative = true := ht
    have hda : a.isDefinition = true := hdef
    have hreal : gs1.any (realDefOf (.named x)) = false := (scanPure_kept_tent hkept hsa hda).mp hta
    have hno : objHasInit (objDecls ds x) = false := by rw [← realDef_iff p ok]; exact hreal
    have ha1 : a ∈ gs1 := scanPure_sub gs1 gs1 a hkept
    obtain ⟨d, hd, he, hin, _, hst, htl, _, _, hhi⟩ := tent_decl (x := x) p ha1 (by simp [isTentOf, hta, hsa])
    have hD : objDefined (objDecls ds x) = true := by
      unfold objDefined; rw [List.any_eq_true]; exact ⟨d, hd, by simp [he]⟩
    refine ⟨hD, ?_⟩
    have hgood : GoodTy (tyP (objDecls ds x)) T := by
      have := scanGlobals_good hreal (chain_of_valid p ok hno) ({ a with ty := T }) (by rw [← p.hgs]; exact ho)
        (by simp [isTentOf, hta, hsa])
      exact this
    obtain ⟨hal, hsz⟩ := emitAlign_good ok.valid (fun d hd => ok.align_pos hd)
      (by intro h0; rw [h0] at hd; cases hd) hgood
    have hstat := objValid_static ok.valid hd (fun _ => he)
    have htls := objValid_tls ok.valid hd
    have hfa : a.isFunction = false := hf
    simp only [objEntry, objKind, hno, htls, ← hstat, ← hal, ← hsz, ← hst, ← htl]
    cases hfc : fc <;> cases hs' : a.isStatic <;> cases ht' : a.isTls <;>
      simp [emitDataVar, asmView, bindingOf, hfa, hda, hta, hhi, hsa]

/-- **every defined object has its definition in the result** -/
theorem data_exists (hD : objDefined (objDecls ds x) = true) :
    ∃ o, o ∈ gs ∧ o.isFunction = false ∧ o.isDefinition = true ∧ o.sym = .named x := by
  cases hI : objHasInit (objDecls ds x)
  · -- only tentative definitions: one survives
    unfold objDefined at hD
    rw [List.any_eq_true] at hD
    obtain ⟨d, hd, hdd⟩ := hD
    have hin : d.init = none := by
      unfold objHasInit at hI
      rw [List.any_eq_false] at hI
      have := hI d hd
      cases hdi : d.init <;> simp_all
    have he : d.isExtern = false := by
      rw [hin] at hdd
      simpa using hdd
    obtain ⟨k, hk⟩ := var_mem_allNews ds 0 (mem_objDecls.mp hd)
    rw [← p.data1] at hk
    have hany : gs1.any (isTentOf (.named x)) = true := by
      rw [List.any_eq_true]
      exact ⟨_, (mem_dataOf.mp hk).1, by simp [isTentOf, varObj_isTentative, varObj_sym, hin, he]⟩
    have hreal : gs1.any (realDefOf (.named x)) = false := by rw [realDef_iff p ok]; exact hI
    have hs := scanPure_tent_some gs1 (.named x) hreal gs1 hany
    have hs' : (scanGlobals gs1).any (isTentOf (.named x)) = true := by
      rw [(scanGlobals_tyRel gs1).any (tyBlind_isTentOf _)]; exact hs
    rw [List.any_eq_true] at hs'
    obtain ⟨o, ho, hto⟩ := hs'
    obtain ⟨a, ha, T, rfl⟩ := (scanGlobals_tyRel gs1).mem ho
    have ha1 : a ∈ gs1 := scanPure_sub gs1 gs1 a ha
    obtain ⟨_, _, _, _, _, _, _, hfa, hda, _⟩ := tent_decl p ha1 hto
    exact ⟨{ a with ty := T }, by rw [p.hgs]; exact ho, hfa, hda, isTentOf_sym hto⟩
  · unfold objHasInit at hI
    rw [List.any_eq_true] at hI
    obtain ⟨d, hd, hi⟩ := hI
    obtain ⟨k, hk⟩ := var_mem_allNews ds 0 (mem_objDecls.mp hd)
    have hnt : (varObj k x d.isStatic d.isExtern d.isTls d.ty d.init).isTentative = false := by
      rw [varObj_isTentative]; cases hdi : d.init <;> simp_all
    refine ⟨_, p.mem_of_data_nt hk hnt, varObj_isFunction _ _ _ _ _ _ _, ?_, varObj_sym _ _ _ _ _ _ _⟩
    rw [varObj_isDefinition, hi]; rfl

omit ok in
/-- a data object named `x` comes from a declaration of `x` -/
theorem data_named_src {o : Obj} (ho : o ∈ gs) (hf : o.isFunction = false) (hs : o.sym = .named x) :
    (∃ d, d ∈ objDecls ds x) ∨ x ∈ blockExternNames ds := by
  obtain ⟨a, ha, _, T, rfl⟩ := p.data_of_mem ho hf
  rcases (allNews_kind ds 0 a ha).named hs with ⟨s, e, t, ty, init, k, hd, _⟩ | ⟨f, n, s, e, i, b, tls, ty, hd, hb, _⟩
  · exact Or.inl ⟨⟨s, e, t, ty, init⟩, mem_objDecls.mpr hd⟩
  · exact Or.inr (mem_blockExternNames.mpr ⟨f, n, s, e, i, b, tls, ty, hd, hb⟩)

end

end ChibiVerif.Linkage
