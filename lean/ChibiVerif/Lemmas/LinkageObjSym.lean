/-
Helper lemmas for C15_symbols_partial: the symbol-table entry of an object.

Part 1 is about the declarations `D` of one object alone: what `objValid` / `tysAgree` say about any one of
them, and that `objAlign`/`objSize` are `emit_data`'s alignment rule applied to the composite type.
Part 2 reads the entry `emit_data` prints for a defined data object of the list `parse` returns and finds the
Spec's `objSymbol`.
-/
import ChibiVerif.Lemmas.LinkageFinal
import ChibiVerif.Lemmas.LinkageScanTy
import ChibiVerif.Lemmas.LinkageDecls

namespace ChibiVerif.Linkage
open ChibiVerif.Spec.Linkage

variable [Rules]

/-! ### part 1: the declarations of one object -/

def objEntry (fc : Bool) (x : Name) (D : List ObjDecl) : SymEntry :=
  ⟨.named x, if objInternal D then .local else .global, objKind fc D, some (objSize D), objAlign D⟩

omit [Rules] in
theorem objSymbol_defined {fc : Bool} {ds : List Decl} {x : Name} (h : objDefined (objDecls ds x) = true) :
    objSymbol fc ds x = some (objEntry fc x (objDecls ds x)) := by
  simp [objSymbol, h, objEntry]

/-- the type parameters of the composite type -/
def tyP (D : List ObjDecl) : TyParams := ⟨objSize D, (D.headD default).ty.align, (D.headD default).ty.isArray⟩

section
variable {D : List ObjDecl} (hv : objValid D = true) {d : ObjDecl} (hd : d ∈ D)
include hv hd

omit [Rules] in
theorem objValid_static (hx : objInternal D = true → d.isExtern = false) : d.isStatic = objInternal D := by
  simp only [objValid, Bool.and_eq_true] at hv
  have hl := hv.1.1.1.2
  cases hi : objInternal D
  · simp only [hi, Bool.false_eq_true, if_false, List.all_eq_true, Bool.not_eq_true'] at hl
    exact hl d hd
  · simp only [hi, if_true, List.all_eq_true, Bool.or_eq_true] at hl
    rcases hl d hd with h | h
    · exact h
    · rw [hx hi] at h; cases h

omit [Rules] in
theorem objValid_tls : objTls D = d.isTls := by
  simp only [objValid, Bool.and_eq_true] at hv
  have ht := hv.1.1.2
  simp only [Bool.or_eq_true, List.all_eq_true, Bool.not_eq_true'] at ht
  unfold objTls
  cases hdt : d.isTls
  · rw [List.any_eq_false]
    intro y hy
    rcases ht with h | h
    · have := h d hd; rw [hdt] at this; cases this
    · simp [h y hy]
  · rw [List.any_eq_true]
    exact ⟨d, hd, hdt⟩

omit [Rules] in
theorem objValid_ty : WTy (tyP D) d.ty ∧ (d.ty.unknownLen = false → d.ty.size = objSize D) ∧
    (d.ty.unknownLen = true → d.init = none) := by
  simp only [objValid, Bool.and_eq_true] at hv
  have ht := hv.1.2
  rw [List.all_eq_true] at ht
  have := ht d hd
  simp only [Bool.and_eq_true, beq_iff_eq, Bool.or_eq_true, Bool.not_eq_true', Option.isNone_iff_eq_none] at this
  obtain ⟨⟨⟨⟨h1, h2⟩, h3⟩, h4⟩, h5⟩ := this
  refine ⟨⟨h1, h2, fun hu => ?_⟩, fun hk => ?_, fun hu => ?_⟩
  · rcases h3 with h | h
    · rw [hu] at h; cases h
    · exact h
  · rcases h4 with h | h
    · rw [hk] at h; cases h
    · exact h
  · rcases h5 with h | h
    · rw [hu] at h; cases h
    · exact h

end

omit [Rules] in
theorem foldl_max_const (A : Nat) : ∀ (D : List ObjDecl) (a0 : Nat), (∀ d, d ∈ D → d.ty.align = A) → D ≠ [] →
    D.foldl (fun a d => max a d.ty.align) a0 = max a0 A
  | [], _, _, h => absurd rfl h
  | [d], a0, hA, _ => by simp [hA d List.mem_cons_self]
  | d :: d2 :: r, a0, hA, _ => by
    rw [List.foldl_cons, foldl_max_const A (d2 :: r) _ (fun y hy => hA y (List.mem_cons_of_mem _ hy)) (by simp),
      hA d List.mem_cons_self]
    omega

omit [Rules] in
/-- `objAlign` is `emit_data`'s alignment rule applied to a type with the composite type's parameters -/
theorem emitAlign_good {D : List ObjDecl} (hv : objValid D = true) (ha : ∀ d, d ∈ D → 1 ≤ d.ty.align) (hne : D ≠ [])
    {T : ObjTy} (hT : GoodTy (tyP D) T) : emitAlign T = objAlign D ∧ T.size = objSize D := by
  obtain ⟨⟨hTa, hTr, _⟩, _, hTs⟩ := hT
  refine ⟨?_, hTs⟩
  have hall : ∀ d, d ∈ D → d.ty.align = (D.headD default).ty.align ∧ d.ty.isArray = (D.headD default).ty.isArray :=
    fun d hd => ⟨(objValid_ty hv hd).1.1, (objValid_ty hv hd).1.2.1⟩
  obtain ⟨h0, hh0⟩ : ∃ h0, h0 ∈ D := List.exists_mem_of_ne_nil _ hne
  have hA1 : 1 ≤ (D.headD default).ty.align := by rw [← (hall h0 hh0).1]; exact ha h0 hh0
  unfold objAlign emitAlign
  rw [foldl_max_const _ D 1 (fun d hd => (hall d hd).1) hne]
  have hany : D.any (fun d => d.ty.isArray) = (D.headD default).ty.isArray := by
    cases hr : (D.headD default).ty.isArray
    · rw [List.any_eq_false]
      intro y hy
      rw [(hall y hy).2, hr]; simp
    · rw [List.any_eq_true]
      exact ⟨h0, hh0, by rw [(hall h0 hh0).2, hr]⟩
  simp only [tyP] at hTa hTr hTs
  rw [hany, hTa, hTr, hTs]
  have : max 1 (D.headD default).ty.align = (D.headD default).ty.align := by omega
  rw [this]

omit [Rules] in
theorem objValid_agree {D : List ObjDecl} (hv : objValid D = true) : tysAgree D = true := by
  simp only [objValid, Bool.and_eq_true] at hv
  exact hv.2

omit [Rules] in
theorem objValid_align_pos {D : List ObjDecl} (hv : objValid D = true) {d : ObjDecl} (hd : d ∈ D) : 1 ≤ d.ty.align := by
  have := objValid_agree hv
  simp only [tysAgree, Bool.and_eq_true, List.all_eq_true, decide_eq_true_eq] at this
  exact this.1 d hd

omit [Rules] in
/-- all declarations leave the array length open: each has the element size the composite type has -/
theorem size_of_allUnknown {D : List ObjDecl} (hv : objValid D = true) (hallU : ∀ d, d ∈ D → d.ty.unknownLen = true)
    {d : ObjDecl} (hd : d ∈ D) : d.ty.size = (tyP D).size := by
  cases hD : D with
  | nil => rw [hD] at hd; cases hd
  | cons h0 rest =>
    have hh0 : h0.ty.unknownLen = true := hallU h0 (by rw [hD]; exact List.mem_cons_self)
    have hsize : objSize (h0 :: rest) = h0.ty.size := by
      unfold objSize
      have : (h0 :: rest).find? (fun d => !d.ty.unknownLen) = none := by
        rw [List.find?_eq_none]
        intro y hy
        have := hallU y (by rw [hD]; exact hy)
        simp [this]
      rw [this]
    have hag := objValid_agree hv
    rw [hD] at hag hd
    simp only [tysAgree, Bool.and_eq_true] at hag
    have hfind : (h0 :: rest).find? (fun d => d.ty.unknownLen) = some h0 := by simp [List.find?, hh0]
    rw [hfind] at hag
    have := hag.2
    rw [List.all_eq_true] at this
    have hd' := this d hd
    simp only [Bool.or_eq_true, Bool.not_eq_true', beq_iff_eq] at hd'
    show d.ty.size = (tyP (h0 :: rest)).size
    simp only [tyP, hsize]
    rcases hd' with h | h
    · rw [hallU d (by rw [hD]; exact hd)] at h; cases h
    · exact h

/-! ### part 1b: `is_static` of an `extern` declaration that inherits (repaired `global_variable`) -/

omit [Rules] in
theorem objDecls_cons_obj (y : Name) (s e t : Bool) (ty : ObjTy) (init : Option (List InitItem)) (ds : List Decl) (x : Name) :
    objDecls (.obj y s e t ty init :: ds) x = if y = x then ⟨s, e, t, ty, init⟩ :: objDecls ds x else objDecls ds x := by
  simp only [objDecls, List.filterMap_cons]
  by_cases h : y = x <;> simp [h]

omit [Rules] in
theorem objDecls_cons_func (f : Name) (n : Nat) (s e i : Bool) (b : Option (List BodyItem)) (ds : List Decl) (x : Name) :
    objDecls (.func f n s e i b :: ds) x = objDecls ds x := by
  simp [objDecls]

omit [Rules] in
theorem objDecls_append (a b : List Decl) (x : Name) : objDecls (a ++ b) x = objDecls a x ++ objDecls b x := by
  simp [objDecls, List.filterMap_append]

theorem envBody_false (x : Name) : ∀ (b : List BodyItem) (env : SEnv), env x = false → envBody env b x = false
  | [], _, h => h
  | i :: r, env, h => by
    simp only [envBody]
    apply envBody_false x r
    cases i with
    | externObj y tls ty =>
      simp only [envItem, envSet, extStatic]
      by_cases hy : x = y
      · subst hy; simp [h]
      · simp [hy, h]
    | ref _ => exact h
    | staticLocal _ _ _ => exact h
    | str _ => exact h

theorem envBody_true (hA : Rules.externInherits = true) (x : Name) : ∀ (b : List BodyItem) (env : SEnv), env x = true → envBody env b x = true
  | [], _, h => h
  | i :: r, env, h => by
    simp only [envBody]
    apply envBody_true hA x r
    cases i with
    | externObj y tls ty =>
      simp only [envItem, envSet, extStatic]
      by_cases hy : x = y
      · subst hy; simp [h, hA]
      · simp [hy, h]
    | ref _ => exact h
    | staticLocal _ _ _ => exact h
    | str _ => exact h

/-- no declaration of `x` says `static`: nothing to inherit -/
theorem envAfter_false (x : Name) : ∀ (pre : List Decl) (env : SEnv), env x = false →
    (∀ d, d ∈ objDecls pre x → d.isStatic = false) → envAfter env pre x = false
  | [], _, h, _ => h
  | d :: r, env, h, hall => by
    simp only [envAfter, List.foldl_cons]
    cases d with
    | func f n s e i body =>
      rw [objDecls_cons_func] at hall
      apply envAfter_false x r _ _ hall
      cases body with
      | none => exact h
      | some b => exact envBody_false x b env h
    | obj y s e t ty init =>
      rw [objDecls_cons_obj] at hall
      by_cases hy : y = x
      · subst hy
        simp only [if_true] at hall
        apply envAfter_false y r _ _ (fun d hd => hall d (List.mem_cons_of_mem _ hd))
        have hs : s = false := hall ⟨s, e, t, ty, init⟩ List.mem_cons_self
        simp [envDecl, envSet, varStatic, hs, h]
      · simp only [hy, if_false] at hall
        apply envAfter_false x r _ _ hall
        have : ¬ x = y := fun e' => hy e'.symm
        simp [envDecl, envSet, this, h]

/-- the object has internal linkage and every declaration so far says `static` or `extern`: the visible declaration is static -/
theorem envAfter_true (hA : Rules.externInherits = true) (x : Name) : ∀ (pre : List Decl) (env : SEnv),
    (env x = true ∨ ∃ d0 r, objDecls pre x = d0 :: r ∧ d0.isStatic = true) →
    (∀ d, d ∈ objDecls pre x → d.isStatic = true ∨ d.isExtern = true) → envAfter env pre x = true
  | [], env, h, _ => by
    rcases h with h | ⟨d0, r, h, _⟩
    · exact h
    · simp [objDecls] at h
  | d :: r, env, h, hall => by
    simp only [envAfter, List.foldl_cons]
    cases d with
    | func f n s e i body =>
      rw [objDecls_cons_func] at hall h
      apply envAfter_true hA x r _ _ hall
      rcases h with h | h
      · left
        cases body with
        | none => exact h
        | some b => exact envBody_true hA x b env h
      · exact Or.inr h
    | obj y s e t ty init =>
      rw [objDecls_cons_obj] at hall h
      by_cases hy : y = x
      · subst hy
        simp only [if_true] at hall h
        apply envAfter_true hA y r _ _ (fun d hd => hall d (List.mem_cons_of_mem _ hd))
        left
        have hse := hall ⟨s, e, t, ty, init⟩ List.mem_cons_self
        simp only at hse
        rcases h with h | ⟨d0, r0, h, hs0⟩
        · rcases hse with hs | he
          · simp [envDecl, envSet, varStatic, hs]
          · simp [envDecl, envSet, varStatic, he, h, hA]
        · simp only [List.cons.injEq] at h
          have hs : s = true := by rw [← h.1] at hs0; exact hs0
          simp [envDecl, envSet, varStatic, hs]
      · simp only [hy, if_false] at hall h
        apply envAfter_true hA x r _ _ hall
        have hxy : ¬ x = y := fun e' => hy e'.symm
        rcases h with h | h
        · left; simp [envDecl, envSet, hxy, h]
        · exact Or.inr h

/-- **`var->is_static` of a file-scope declaration** of a valid object is the linkage C11 gives the object, provided the
    declaration is not an `extern` declaration of an internal object - or `extern` declarations inherit (repaired code) -/
theorem varStatic_eq {ds pre post : List Decl} {x : Name} {s e t : Bool} {ty : ObjTy} {init : Option (List InitItem)}
    (hds : ds = pre ++ Decl.obj x s e t ty init :: post) (hv : objValid (objDecls ds x) = true)
    (hx : Rules.externInherits = false → objInternal (objDecls ds x) = true → e = false) :
    varStatic (envAfter env0 pre) x s e = objInternal (objDecls ds x) := by
  have hD : objDecls ds x = objDecls pre x ++ ⟨s, e, t, ty, init⟩ :: objDecls post x := by
    rw [hds, objDecls_append, objDecls_cons_obj]; simp
  have hmem : (⟨s, e, t, ty, init⟩ : ObjDecl) ∈ objDecls ds x := by rw [hD]; simp
  cases hA : Rules.externInherits
  · have := objValid_static hv hmem (hx hA)
    simp only at this
    simp [varStatic, hA, this]
  · have hv' := hv
    simp only [objValid, Bool.and_eq_true] at hv'
    have hl := hv'.1.1.1.2
    cases hi : objInternal (objDecls ds x)
    · simp only [hi, Bool.false_eq_true, if_false, List.all_eq_true, Bool.not_eq_true'] at hl
      have hs : s = false := hl _ hmem
      have henv : envAfter env0 pre x = false :=
        envAfter_false x pre env0 rfl (fun d hd => hl d (by rw [hD]; exact List.mem_append_left _ hd))
      simp [varStatic, hs, henv]
    · simp only [hi, if_true, List.all_eq_true, Bool.or_eq_true] at hl
      cases hs : s
      · -- not `static`: an `extern` declaration behind the first one
        have he : e = true := by
          rcases hl _ hmem with h | h
          · simp only at h; rw [hs] at h; cases h
          · exact h
        have hpre : ∃ d0 r, objDecls pre x = d0 :: r ∧ d0.isStatic = true := by
          cases hp : objDecls pre x with
          | nil =>
            rw [hD, hp] at hi
            simp only [List.nil_append, objInternal] at hi
            rw [hs] at hi; cases hi
          | cons d0 r =>
            rw [hD, hp] at hi
            exact ⟨d0, r, rfl, by simpa [objInternal] using hi⟩
        have henv : envAfter env0 pre x = true :=
          envAfter_true hA x pre env0 (Or.inr hpre) (fun d hd => hl d (by rw [hD]; exact List.mem_append_left _ hd))
        simp [varStatic, he, henv, hA]
      · simp [varStatic]

/-! ### part 2: the objects of the result -/

omit [Rules] in
theorem mem_blockExterns {y : Name} {ty : ObjTy} : (y, ty) ∈ blockExterns ds ↔
    ∃ f n s e i b tls, Decl.func f n s e i (some b) ∈ ds ∧ BodyItem.externObj y tls ty ∈ b := by
  unfold blockExterns
  rw [List.mem_flatMap]
  constructor
  · rintro ⟨d, hd, hm⟩
    cases d with
    | obj => simp at hm
    | func f n s e i body =>
      cases body with
      | none => simp at hm
      | some b =>
        rw [List.mem_filterMap] at hm
        obtain ⟨it, hit, hh⟩ := hm
        cases it with
        | externObj z tls ty' =>
          simp only [Option.some.injEq, Prod.mk.injEq] at hh
          obtain ⟨rfl, rfl⟩ := hh
          exact ⟨f, n, s, e, i, b, tls, hd, hit⟩
        | ref => cases hh
        | staticLocal => cases hh
        | str => cases hh
  · rintro ⟨f, n, s, e, i, b, tls, hd, hb⟩
    exact ⟨_, hd, List.mem_filterMap.mpr ⟨_, hb, rfl⟩⟩

/-- what the theorem assumes about the unit, per object name -/
structure ObjOK (ds : List Decl) (x : Name) : Prop where
  valid : objValid (objDecls ds x) = true
  noFn : x ∉ fnNames ds
  blockAgree : ∀ ty, (x, ty) ∈ blockExterns ds → ty.unknownLen = false → ty.size = objSize (objDecls ds x)
  noExternInit : Rules.externInherits = true ∨
    ¬ (objInternal (objDecls ds x) = true ∧ (objDecls ds x).any (fun d => d.isExtern && d.init.isSome) = true)
  noComposite : Rules.compositeFromDecls = true ∨
    ¬ (objHasInit (objDecls ds x) = false ∧ objDefined (objDecls ds x) = true ∧
      ((objDecls ds x).filter (fun d => !d.isExtern)).all (fun d => d.ty.unknownLen) = true ∧
      (objDecls ds x).any (fun e => !e.ty.unknownLen) = true)

section
variable {ds : List Decl} {st : PState} {gs1 gs : List Obj} (p : Parsed ds st gs1 gs) {x : Name} (ok : ObjOK ds x)
include p ok

omit p in
theorem ObjOK.align_pos {d : ObjDecl} (hd : d ∈ objDecls ds x) : 1 ≤ d.ty.align := objValid_align_pos ok.valid hd

omit ok in
/-- a named data object of the list the root loop left -/
theorem named_src {a : Obj} (ha : a ∈ gs1) (hf : a.isFunction = false) (hs : a.sym = .named x) :
    (∃ s e t ty init k pre post, ds = pre ++ Decl.obj x s e t ty init :: post ∧
      a = varObj k x (varStatic (envAfter env0 pre) x s e) e t ty init) ∨
    (∃ f n s e i b tls ty stc, Decl.func f n s e i (some b) ∈ ds ∧ BodyItem.externObj x tls ty ∈ b ∧ a = externO x tls ty stc) := by
  have ha' : a ∈ allNews 0 env0 ds := by rw [← p.data1]; exact mem_dataOf.mpr ⟨ha, hf⟩
  exact (allNews_kind ds 0 a ha').named hs

/-- a non-tentative definition of `x` exists in the list iff some declaration of `x` has an initializer -/
theorem realDef_iff : gs1.any (realDefOf (.named x)) = objHasInit (objDecls ds x) := by
  rw [Bool.eq_iff_iff, List.any_eq_true]
  constructor
  · rintro ⟨o, ho, hr⟩
    simp only [realDefOf, Bool.and_eq_true, beq_iff_eq, Bool.not_eq_true'] at hr
    obtain ⟨⟨hdef, hnt⟩, hs⟩ := hr
    cases hf : o.isFunction
    · rcases named_src p ho hf hs with ⟨s, e, t, ty, init, k, pre, post, hd, rfl⟩ | ⟨f, n, s, e, i, b, tls, ty, stc, _, _, rfl⟩
      · rw [varObj_isDefinition] at hdef
        rw [varObj_isTentative] at hnt
        have hinit : init.isSome = true := by cases init <;> simp_all
        unfold objHasInit
        rw [List.any_eq_true]
        exact ⟨⟨s, e, t, ty, init⟩, mem_objDecls.mpr (mem_of_split hd), hinit⟩
      · cases hdef
    · exfalso
      have := p.fn_declared ho hf hs
      exact ok.noFn (firstFlags_isSome.mp this)
  · intro h
    unfold objHasInit at h
    rw [List.any_eq_true] at h
    obtain ⟨d, hd, hi⟩ := h
    obtain ⟨k, stc, hk⟩ := var_mem_allNews ds 0 env0 (mem_objDecls.mp hd)
    rw [← p.data1] at hk
    refine ⟨_, (mem_dataOf.mp hk).1, ?_⟩
    simp only [realDefOf, varObj_isDefinition, varObj_isTentative, varObj_sym, hi]
    cases hdi : d.init <;> simp_all

theorem realDef_iff2 : (preScan gs1).any (realDefOf (.named x)) = objHasInit (objDecls ds x) := by
  rw [(preScan_tyRel gs1).any (tyBlind_realDefOf _)]
  exact realDef_iff p ok

omit ok in
/-- a tentative definition of `x` in the list comes from a declaration without `extern` and without initializer -/
theorem tent_decl {a : Obj} (ha : a ∈ gs1) (ht : isTentOf (.named x) a = true) :
    ∃ d, d ∈ objDecls ds x ∧ d.isExtern = false ∧ d.init = none ∧ a.ty = d.ty ∧ a.isStatic = d.isStatic ∧
      a.isTls = d.isTls ∧ a.isFunction = false ∧ a.isDefinition = true ∧ a.hasInit = false ∧ a.owner = none := by
  have htt := isTentOf_tent ht
  have hs := isTentOf_sym ht
  have hf : a.isFunction = false := by
    cases hf : a.isFunction
    · rfl
    · rw [p.fnNotTent1 a ha hf] at htt; cases htt
  rcases named_src p ha hf hs with ⟨s, e, t, ty, init, k, pre, post, hd, rfl⟩ | ⟨f, n, s, e, i, b, tls, ty, stc, _, _, rfl⟩
  · rw [varObj_isTentative] at htt
    simp only [Bool.and_eq_true, Bool.not_eq_true', Option.isNone_iff_eq_none] at htt
    obtain ⟨rfl, rfl⟩ := htt
    refine ⟨⟨s, false, t, ty, none⟩, mem_objDecls.mpr (mem_of_split hd), rfl, rfl, rfl, ?_, rfl, rfl, rfl, rfl, rfl⟩
    simp [varObj, varStatic]
  · cases htt

omit ok in
/-- an array object of known length named `x` in the list the root loop left comes from a declaration of `x` that states
    the length: at file scope or in a block -/
theorem known_src {k : Obj} (hk : k ∈ gs1) (hka : knownArr (.named x) k = true) :
    (∃ d, d ∈ objDecls ds x ∧ d.ty = k.ty) ∨ (x, k.ty) ∈ blockExterns ds := by
  simp only [knownArr, Bool.and_eq_true, Bool.not_eq_true', beq_iff_eq] at hka
  obtain ⟨⟨⟨hf, _⟩, _⟩, hs⟩ := hka
  rcases named_src p hk hf hs with ⟨s, e, t, ty, init, j, pre, post, hd, rfl⟩ | ⟨f, n, s, e, i, b, tls, ty, stc, hd, hb, rfl⟩
  · exact Or.inl ⟨⟨s, e, t, ty, init⟩, mem_objDecls.mpr (mem_of_split hd), (varObj_ty _ _ _ _ _ _ _).symm⟩
  · exact Or.inr (mem_blockExterns.mpr ⟨f, n, s, e, i, b, tls, hd, hb⟩)

/-- the size a declaration that states the array length gives is the size of the composite type -/
theorem known_size {k : Obj} (hk : k ∈ gs1) (hka : knownArr (.named x) k = true) : k.ty.size = objSize (objDecls ds x) := by
  have hku : k.ty.unknownLen = false := by
    simp only [knownArr, Bool.and_eq_true, Bool.not_eq_true'] at hka
    exact hka.1.2
  rcases known_src p hk hka with ⟨d, hd, hty⟩ | hb
  · rw [← hty]
    exact (objValid_ty ok.valid hd).2.1 (by rw [hty]; exact hku)
  · exact ok.blockAgree _ hb hku

/-- the invariant of the walk holds for the tentative definitions of `x` after the pass in front of `scan_globals` -/
theorem chain_of_valid (hno : objHasInit (objDecls ds x) = false) :
    ChainOK (tyP (objDecls ds x)) (tysOf (.named x) (preScan gs1)) := by
  -- a tentative definition of `x` in `preScan gs1` and where it comes from
  have src : ∀ t, t ∈ tysOf (.named x) (preScan gs1) →
      ∃ a d, a ∈ gs1 ∧ isTentOf (.named x) a = true ∧ d ∈ objDecls ds x ∧ d.isExtern = false ∧ a.ty = d.ty ∧
        t = (preOne gs1 a).ty := by
    intro t ht
    simp only [tysOf, List.mem_map, List.mem_filter] at ht
    obtain ⟨a2, ⟨ha2, hta2⟩, rfl⟩ := ht
    obtain ⟨a, ha, rfl⟩ := mem_preScan.mp ha2
    have hta : isTentOf (.named x) a = true := by
      obtain ⟨T, hT⟩ := preOne_same gs1 a
      rw [hT] at hta2; exact hta2
    obtain ⟨d, hd, he, _, hty, _⟩ := tent_decl p ha hta
    exact ⟨a, d, ha, hta, hd, he, hty, rfl⟩
  have wty : ∀ d, d ∈ objDecls ds x → WTy (tyP (objDecls ds x)) d.ty ∧ (d.ty.unknownLen = false → d.ty.size = objSize (objDecls ds x)) :=
    fun d hd => ⟨(objValid_ty ok.valid hd).1, (objValid_ty ok.valid hd).2.1⟩
  cases hC : Rules.compositeFromDecls
  · -- the code as it was: `preScan` does nothing
    have hoff : ∀ a, preOne gs1 a = a := preOne_off hC gs1
    apply chain_initial
    · intro t ht
      obtain ⟨a, d, _, _, hd, _, hty, rfl⟩ := src t ht
      rw [hoff, hty]; exact wty d hd
    · by_cases hk : ∃ d, d ∈ objDecls ds x ∧ d.isExtern = false ∧ d.ty.unknownLen = false
      · -- a tentative definition gives the length
        left
        obtain ⟨d, hd, he, hu⟩ := hk
        have hin : d.init = none := by
          unfold objHasInit at hno
          rw [List.any_eq_false] at hno
          have := hno d hd
          cases hdi : d.init <;> simp_all
        obtain ⟨k, stc, hk⟩ := var_mem_allNews ds 0 env0 (mem_objDecls.mp hd)
        rw [← p.data1] at hk
        refine ⟨d.ty, ?_, hu⟩
        simp only [tysOf, List.mem_map, List.mem_filter]
        refine ⟨_, ⟨mem_preScan.mpr ⟨_, (mem_dataOf.mp hk).1, rfl⟩, ?_⟩, ?_⟩
        · rw [hoff]; simp [isTentOf, varObj_isTentative, varObj_sym, hin, he]
        · rw [hoff]; exact varObj_ty _ _ _ _ _ _ _
      · -- no declaration at all gives the length: all element sizes agree
        right
        intro t ht
        obtain ⟨a, d, ha, hta, hd, he, hty, rfl⟩ := src t ht
        rw [hoff, hty]
        have hdefd : objDefined (objDecls ds x) = true := by
          unfold objDefined
          rw [List.any_eq_true]
          exact ⟨d, hd, by simp [he]⟩
        have hnoC : ¬ (objHasInit (objDecls ds x) = false ∧ objDefined (objDecls ds x) = true ∧
            ((objDecls ds x).filter (fun d => !d.isExtern)).all (fun d => d.ty.unknownLen) = true ∧
            (objDecls ds x).any (fun e => !e.ty.unknownLen) = true) := by
          rcases ok.noComposite with h | h
          · rw [hC] at h; cases h
          · exact h
        have hallU : ∀ d, d ∈ objDecls ds x → d.ty.unknownLen = true := by
          intro d' hd'
          cases hu : d'.ty.unknownLen
          · exfalso
            apply hnoC
            refine ⟨hno, hdefd, ?_, ?_⟩
            · rw [List.all_eq_true]
              intro y hy
              rw [List.mem_filter] at hy
              cases hyu : y.ty.unknownLen
              · exact absurd ⟨y, hy.1, by simpa using hy.2, hyu⟩ hk
              · rfl
            · rw [List.any_eq_true]
              exact ⟨d', hd', by simp [hu]⟩
          · rfl
        exact size_of_allUnknown ok.valid hallU hd
  · -- the repaired code: every array of unknown length has taken the length some declaration states
    have hon : ∀ a, preOne gs1 a = completeOne gs1 a := fun a => by simp [preOne, hC]
    cases hK : gs1.find? (knownArr (.named x)) with
    | some k =>
      have hkm : k ∈ gs1 := List.mem_of_find?_eq_some hK
      have hkp := List.find?_some hK
      have hksz := known_size p ok hkm hkp
      -- every tentative definition of `x` now has the composite type
      have good : ∀ t, t ∈ tysOf (.named x) (preScan gs1) → GoodTy (tyP (objDecls ds x)) t := by
        intro t ht
        obtain ⟨a, d, ha, hta, hd, he, hty, rfl⟩ := src t ht
        have hsa : a.sym = .named x := isTentOf_sym hta
        obtain ⟨hw, hsz⟩ := wty d hd
        rw [hon]
        obtain ⟨_, _, _, _, _, _, _, hfa, _⟩ := tent_decl p ha hta
        cases hu : a.ty.unknownLen
        · rw [completeOne_known gs1 hu, hty]
          rw [hty] at hu
          exact ⟨hw, hu, hsz hu⟩
        · have harr : a.ty.isArray = true := by rw [hty] at hu ⊢; exact hw.2.2 hu
          rw [completeOne_hit gs1 hfa harr hu (by rw [hsa]; exact hK)]
          show GoodTy _ { a.ty with size := k.ty.size, unknownLen := false }
          rw [hty]
          exact ⟨⟨hw.1, hw.2.1, fun h => by cases h⟩, rfl, hksz⟩
      refine ⟨fun t ht => (good t ht).1, Or.inl (fun t ht => ?_)⟩
      have hg := good t ht
      rw [complete_of_known hg.2.1]; exact hg
    | none =>
      -- nothing states the length: `preScan` leaves the objects of `x` alone
      have hid : ∀ a, a.sym = .named x → preOne gs1 a = a := by
        intro a hsa
        rw [hon]
        exact completeOne_miss gs1 (by rw [hsa]; exact hK)
      have hnone := List.find?_eq_none.mp hK
      apply chain_initial
      · intro t ht
        obtain ⟨a, d, _, hta, hd, _, hty, rfl⟩ := src t ht
        rw [hid a (isTentOf_sym hta), hty]; exact wty d hd
      · by_cases hk : ∃ d, d ∈ objDecls ds x ∧ d.isExtern = false ∧ d.ty.unknownLen = false
        · left
          obtain ⟨d, hd, he, hu⟩ := hk
          have hin : d.init = none := by
            unfold objHasInit at hno
            rw [List.any_eq_false] at hno
            have := hno d hd
            cases hdi : d.init <;> simp_all
          obtain ⟨k, stc, hk⟩ := var_mem_allNews ds 0 env0 (mem_objDecls.mp hd)
          rw [← p.data1] at hk
          refine ⟨d.ty, ?_, hu⟩
          simp only [tysOf, List.mem_map, List.mem_filter]
          refine ⟨_, ⟨mem_preScan.mpr ⟨_, (mem_dataOf.mp hk).1, rfl⟩, ?_⟩, ?_⟩
          · rw [hid _ (varObj_sym _ _ _ _ _ _ _)]; simp [isTentOf, varObj_isTentative, varObj_sym, hin, he]
          · rw [hid _ (varObj_sym _ _ _ _ _ _ _)]; exact varObj_ty _ _ _ _ _ _ _
        · right
          intro t ht
          obtain ⟨a, d, ha, hta, hd, he, hty, rfl⟩ := src t ht
          rw [hid a (isTentOf_sym hta), hty]
          -- every declaration leaves the length open: one that states it would be a `knownArr`
          have hallU : ∀ d', d' ∈ objDecls ds x → d'.ty.unknownLen = true := by
            intro d' hd'
            cases hu : d'.ty.unknownLen
            · exfalso
              cases harr : d'.ty.isArray
              · -- not an array: then no declaration is one, and all state their size - also the tentative `d`
                have hdarr : d.ty.isArray = false := by
                  rw [(objValid_ty ok.valid hd).1.2.1, ← (objValid_ty ok.valid hd').1.2.1]; exact harr
                have hdu : d.ty.unknownLen = false := by
                  cases h : d.ty.unknownLen
                  · rfl
                  · have := (objValid_ty ok.valid hd).1.2.2 h
                    rw [hdarr] at this; cases this
                exact hk ⟨d, hd, he, hdu⟩
              · obtain ⟨j, stc, hj⟩ := var_mem_allNews ds 0 env0 (mem_objDecls.mp hd')
                rw [← p.data1] at hj
                have := hnone _ (mem_dataOf.mp hj).1
                simp [knownArr, varObj_isFunction, varObj_ty, varObj_sym, harr, hu] at this
            · rfl
          exact size_of_allUnknown ok.valid hallU hd

/-- **the entry of a defined data object.**  Whatever defined data object named `x` the result contains,
    `emit_data` prints for it (and `as` records) exactly the Spec's entry for `x`. -/
theorem data_entry (fc : Bool) {o : Obj} (ho : o ∈ gs) (hf : o.isFunction = false) (hdef : o.isDefinition = true)
    (hs : o.sym = .named x) :
    objDefined (objDecls ds x) = true ∧ o.owner = none ∧ (emitDataVar fc o).map asmView = some (objEntry fc x (objDecls ds x)) := by
  cases ht : o.isTentative
  · -- a definition with initializer
    obtain ⟨a, ha, rfl⟩ := p.data_nt_of_mem ho hf ht
    obtain ⟨T0, hT0⟩ := preOne_same gs1 a
    have hsa : a.sym = .named x := by rw [hT0] at hs; exact hs
    have hda : a.isDefinition = true := by rw [hT0] at hdef; exact hdef
    have hta : a.isTentative = false := by rw [hT0] at ht; exact ht
    rcases (allNews_kind ds 0 a ha).named hsa with ⟨s, e, t, ty, init, k, pre, post, hd, rfl⟩ | ⟨f, n, s, e, i, b, tls, ty, stc, _, _, rfl⟩
    · rw [varObj_isDefinition] at hda
      rw [varObj_isTentative] at hta
      cases init with
      | none => simp_all
      | some items =>
        have hmem : (⟨s, e, t, ty, some items⟩ : ObjDecl) ∈ objDecls ds x := mem_objDecls.mpr (mem_of_split hd)
        have hD : objDefined (objDecls ds x) = true := by
          unfold objDefined; rw [List.any_eq_true]; exact ⟨_, hmem, rfl⟩
        have hI : objHasInit (objDecls ds x) = true := by
          unfold objHasInit; rw [List.any_eq_true]; exact ⟨_, hmem, rfl⟩
        have hstat := varStatic_eq hd ok.valid (fun hA hi => by
          cases he : e
          · rfl
          · exfalso
            rcases ok.noExternInit with h | h
            · rw [hA] at h; cases h
            · apply h
              refine ⟨hi, ?_⟩
              rw [List.any_eq_true]
              exact ⟨_, hmem, by simp [he]⟩)
        have htls := objValid_tls ok.valid hmem
        obtain ⟨hw, hk, hu⟩ := objValid_ty ok.valid hmem
        have hknown : ty.unknownLen = false := by
          cases h : ty.unknownLen
          · rfl
          · have := hu h; cases this
        have hgood : GoodTy (tyP (objDecls ds x)) ty := ⟨hw, hknown, hk hknown⟩
        obtain ⟨hal, _⟩ := emitAlign_good ok.valid (fun d hd => ok.align_pos hd)
          (by intro h0; rw [h0] at hmem; cases hmem) hgood
        rw [preOne_known gs1 (by rw [varObj_ty]; exact hknown)]
        refine ⟨hD, rfl, ?_⟩
        simp only at htls
        simp only [objEntry, objKind, hI, htls, ← hstat, ← hal, ← hk hknown]
        generalize varStatic (envAfter env0 pre) x s e = sst
        cases sst <;> cases t <;> simp [emitDataVar, varObj, asmView, bindingOf]
    · cases hda
  · -- a tentative definition
    obtain ⟨a, ha, hkept, hsame2, hsame⟩ := p.data_of_mem ho hf
    obtain ⟨T, rfl⟩ := hsame
    obtain ⟨T2, hT2⟩ := preOne_same gs1 a
    have hsa : a.sym = .named x := hs
    have hta : a.isTentative = true := ht
    have hda : a.isDefinition = true := hdef
    have hreal : (preScan gs1).any (realDefOf (.named x)) = false :=
      (scanPure_kept_tent hkept (by rw [hT2]; exact hsa) (by rw [hT2]; exact hda)).mp (by rw [hT2]; exact hta)
    have hno : objHasInit (objDecls ds x) = false := by rw [← realDef_iff2 p ok]; exact hreal
    have ha1 : a ∈ gs1 := by
      have := ha; rw [← p.data1] at this; exact (mem_dataOf.mp this).1
    obtain ⟨d, hd, he, hin, _, hst, htl, _, _, hhi, hown⟩ := tent_decl (x := x) p ha1 (by simp [isTentOf, hta, hsa])
    have hD : objDefined (objDecls ds x) = true := by
      unfold objDefined; rw [List.any_eq_true]; exact ⟨d, hd, by simp [he]⟩
    refine ⟨hD, hown, ?_⟩
    have hgood : GoodTy (tyP (objDecls ds x)) T := by
      have := scanCore_good hreal (chain_of_valid p ok hno) ({ a with ty := T }) (by
        have := ho; rw [p.hgs] at this; exact this)
        (by simp [isTentOf, hta, hsa])
      exact this
    obtain ⟨hal, hsz⟩ := emitAlign_good ok.valid (fun d hd => ok.align_pos hd)
      (by intro h0; rw [h0] at hd; cases hd) hgood
    have hstat := objValid_static ok.valid hd (fun _ => he)
    have htls := objValid_tls ok.valid hd
    have hfa : a.isFunction = false := hf
    simp only [objEntry, objKind, hno, htls, ← hstat, ← hal, ← hsz, ← hst, ← htl]
    cases hfc : fc <;> cases hs' : a.isStatic <;> cases ht' : a.isTls <;>
      simp [emitDataVar, asmView, bindingOf, hfa, hda, hta, hhi, hsa]

/-- **every defined object has its definition in the result** -/
theorem data_exists (hD : objDefined (objDecls ds x) = true) :
    ∃ o, o ∈ gs ∧ o.isFunction = false ∧ o.isDefinition = true ∧ o.sym = .named x := by
  cases hI : objHasInit (objDecls ds x)
  · -- only tentative definitions: one survives
    unfold objDefined at hD
    rw [List.any_eq_true] at hD
    obtain ⟨d, hd, hdd⟩ := hD
    have hin : d.init = none := by
      unfold objHasInit at hI
      rw [List.any_eq_false] at hI
      have := hI d hd
      cases hdi : d.init <;> simp_all
    have he : d.isExtern = false := by
      rw [hin] at hdd
      simpa using hdd
    obtain ⟨k, stc, hk⟩ := var_mem_allNews ds 0 env0 (mem_objDecls.mp hd)
    rw [← p.data1] at hk
    have hany1 : gs1.any (isTentOf (.named x)) = true := by
      rw [List.any_eq_true]
      exact ⟨_, (mem_dataOf.mp hk).1, by simp [isTentOf, varObj_isTentative, varObj_sym, hin, he]⟩
    have hany : (preScan gs1).any (isTentOf (.named x)) = true := by
      rw [(preScan_tyRel gs1).any (tyBlind_isTentOf _)]; exact hany1
    have hreal : (preScan gs1).any (realDefOf (.named x)) = false := by rw [realDef_iff2 p ok]; exact hI
    have hs := scanPure_tent_some (preScan gs1) (.named x) hreal (preScan gs1) hany
    have hs' : (scanCore (preScan gs1)).any (isTentOf (.named x)) = true := by
      rw [(scanCore_tyRel (preScan gs1)).any (tyBlind_isTentOf _)]; exact hs
    rw [List.any_eq_true] at hs'
    obtain ⟨o, ho, hto⟩ := hs'
    obtain ⟨a2, ha2, T, rfl⟩ := (scanCore_tyRel (preScan gs1)).mem ho
    obtain ⟨a, ha, rfl⟩ := mem_preScan.mp (scanPure_sub _ _ a2 ha2)
    obtain ⟨T2, hT2⟩ := preOne_same gs1 a
    have hta : isTentOf (.named x) a = true := by rw [hT2] at hto; exact hto
    obtain ⟨_, _, _, _, _, _, _, hfa, hda, _⟩ := tent_decl p ha hta
    refine ⟨_, by rw [p.hgs]; exact ho, ?_, ?_, isTentOf_sym hto⟩
    · rw [hT2]; exact hfa
    · rw [hT2]; exact hda
  · unfold objHasInit at hI
    rw [List.any_eq_true] at hI
    obtain ⟨d, hd, hi⟩ := hI
    obtain ⟨k, stc, hk⟩ := var_mem_allNews ds 0 env0 (mem_objDecls.mp hd)
    have hnt : (varObj k x stc d.isExtern d.isTls d.ty d.init).isTentative = false := by
      rw [varObj_isTentative]; cases hdi : d.init <;> simp_all
    obtain ⟨T2, hT2⟩ := preOne_same gs1 (varObj k x stc d.isExtern d.isTls d.ty d.init)
    refine ⟨_, p.mem_of_data_nt hk hnt, ?_, ?_, ?_⟩
    · rw [hT2]; exact varObj_isFunction _ _ _ _ _ _ _
    · rw [hT2]; show (varObj k x stc d.isExtern d.isTls d.ty d.init).isDefinition = true
      rw [varObj_isDefinition, hi]; rfl
    · rw [hT2]; exact varObj_sym _ _ _ _ _ _ _

omit ok in
/-- a data object named `x` comes from a declaration of `x` -/
theorem data_named_src {o : Obj} (ho : o ∈ gs) (hf : o.isFunction = false) (hs : o.sym = .named x) :
    (∃ d, d ∈ objDecls ds x) ∨ x ∈ blockExternNames ds := by
  obtain ⟨a, ha, _, _, T, rfl⟩ := p.data_of_mem ho hf
  rcases (allNews_kind ds 0 a ha).named hs with ⟨s, e, t, ty, init, k, pre, post, hdd, _⟩ | ⟨f, n, s, e, i, b, tls, ty, stc, hd, hb, _⟩
  · exact Or.inl ⟨⟨s, e, t, ty, init⟩, mem_objDecls.mpr (mem_of_split hdd)⟩
  · exact Or.inr (mem_blockExternNames.mpr ⟨f, n, s, e, i, b, tls, ty, hd, hb⟩)

end

end ChibiVerif.Linkage
