/-
`tokenize_file` as translated from clang's AST of tokenize.c (Gen/PpNumGen.lean `tokenizeFileText`: the BOM test and the three
phase functions in the order of the calls) equals the composition `phase12` of Model/Text.lean that every `C11_text_*`
theorem is about.
-/
import ChibiVerif.Model.PpNumber
import ChibiVerif.Lemmas.C11Rewrite

set_option linter.unusedSimpArgs false

namespace ChibiVerif.Lemmas.Phases
open ChibiVerif.Gen.Literals
open ChibiVerif.Literals
open ChibiVerif.Text
open ChibiVerif.PpNumber
open ChibiVerif.Lemmas.Literals
open ChibiVerif.Lemmas.Rewrite

/-- `if (!memcmp(p, "\xef\xbb\xbf", 3)) p += 3;` on a NUL-terminated text is `skipBOM`: a text shorter than three bytes
    differs from the mark at its terminator at the latest -/
theorem bom_test (b : List Byte) :
    (if (byteAt b 0 = 0xEF#8 ∧ byteAt b 1 = 0xBB#8 ∧ byteAt b 2 = 0xBF#8) then b.drop 3 else b) = skipBOM b := by
  match b with
  | [] => simp [skipBOM, byteAt]
  | [x] => simp [skipBOM, byteAt]
  | [x, y] => simp [skipBOM, byteAt]
  | x :: y :: z :: r => simp [skipBOM, byteAt]

/-- the translated `tokenize_file` is the bind chain of the translated phases after `skipBOM` -/
theorem tokenizeFileText_eq (b : List Byte) :
    ChibiVerif.Gen.PpNum.tokenizeFileText b =
      (ChibiVerif.Gen.LitReaders.canonicalizeNewline (skipBOM b) >>= ChibiVerif.Gen.LitReaders.removeBackslashNewline >>=
        ChibiVerif.Gen.LitReaders.convertUniversalChars) := by
  unfold ChibiVerif.Gen.PpNum.tokenizeFileText
  simp only [bom_test]
  cases ChibiVerif.Gen.LitReaders.canonicalizeNewline (skipBOM b) with
  | none => rfl
  | some b1 =>
    show (match ChibiVerif.Gen.LitReaders.removeBackslashNewline b1 with
      | none => none
      | some buf => match ChibiVerif.Gen.LitReaders.convertUniversalChars buf with
        | none => none
        | some buf => some buf) = (ChibiVerif.Gen.LitReaders.removeBackslashNewline b1 >>= ChibiVerif.Gen.LitReaders.convertUniversalChars)
    cases ChibiVerif.Gen.LitReaders.removeBackslashNewline b1 with
    | none => rfl
    | some b2 =>
      show (match ChibiVerif.Gen.LitReaders.convertUniversalChars b2 with
        | none => none
        | some buf => some buf) = ChibiVerif.Gen.LitReaders.convertUniversalChars b2
      cases ChibiVerif.Gen.LitReaders.convertUniversalChars b2 <;> rfl

/-- **phase order**: for every file content without NUL, `read_file`'s final newline followed by the translated
    `tokenize_file` gives `tokenize()` the text `phase12 s` -/
theorem phase_order (s : List Byte) (h0 : (0#8 : Byte) ∉ s) : fileText s = some (phase12 s) := by
  unfold fileText
  rw [tokenizeFileText_eq]
  exact translated_pipeline s h0

end ChibiVerif.Lemmas.Phases
