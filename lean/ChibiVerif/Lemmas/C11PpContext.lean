/-
`convert_pp_int` is called on the token inside its text; the hand model (`lexLiteral`) calls its model on a copy of the token.
For the token the pp-number scan delimits, the two agree: the byte after the token is not alphanumeric, and no test of
`convert_pp_int` (as translated), nor the digit loop of `strtoul`, accepts such a byte — it behaves like the terminator.
Consequence: `lexLiteral` (Model/Literals.lean, the function of the `C11_text_*` theorems) is `lexLiteralC` (translated
pp-number arm, translated `convert_pp_int` called in context with the libc model of `strtoul`) on every text that does not
begin with a doubled `0x` prefix.
-/
import ChibiVerif.Lemmas.C11PpInt
import ChibiVerif.Lemmas.C11PpNumber

set_option linter.unusedSimpArgs false
set_option linter.unusedVariables false

namespace ChibiVerif.Lemmas.PpContext
open ChibiVerif.Gen.Literals
open ChibiVerif.Spec.Literals
open ChibiVerif.Literals
open ChibiVerif.PpNumber
open ChibiVerif.Lemmas.Literals
open ChibiVerif.Lemmas.Readers
open ChibiVerif.Lemmas.PpInt
open ChibiVerif.Lemmas.PpNum (scanLen cont end_eq scanLen_le)

theorem byteAt_take (p : List Byte) (n k : Nat) : byteAt (p.take n) k = if k < n then byteAt p k else 0#8 := by
  simp only [byteAt, List.getD_eq_getElem?_getD, List.getElem?_take]
  split <;> simp

-- ------------------------------------------------------------------ the byte after the token

/-- where the greedy scan stops, the next byte does not continue a pp-number -/
theorem scan_stops : ∀ t : List Byte, cont (byteAt t (scanLen t)) = false := by
  intro t
  induction t using scanLen.induct with
  | case1 => decide
  | case2 c hc => simp [scanLen, hc, byteAt]; decide
  | case3 c hc => simp [scanLen, hc, byteAt]
  | case4 c d t hcd ih =>
    simp only [scanLen, hcd, if_true]
    rw [show 2 + scanLen t = scanLen t + 1 + 1 by omega, byteAt_succ, byteAt_succ]; exact ih
  | case5 c d t hcd hc ih =>
    simp only [scanLen, hcd, hc, if_true, if_false, Bool.false_eq_true]
    rw [show 1 + scanLen (d :: t) = scanLen (d :: t) + 1 by omega, byteAt_succ]; exact ih
  | case6 c d t hcd hc => simp [scanLen, hcd, hc, byteAt]

theorem not_cont_not_alnum (c : Byte) : cont c = false → isAlnum c = false := by
  revert c; apply forall_byte; decide +kernel

/-- the byte after the token `[0, ppNumberEnd p 0)` is not alphanumeric -/
theorem after_token (p : List Byte) : isAlnum (byteAt p (ChibiVerif.Gen.PpNum.ppNumberEnd p 0)) = false := by
  apply not_cont_not_alnum
  rw [end_eq]
  have := scan_stops (p.drop (0 + 1))
  rw [byteAt_drop] at this
  exact this

-- ------------------------------------------------------------------ the digit loop of `strtoul` stops at the end of the token

theorem digitVal_nonalnum (c : Byte) : isAlnum c = false → digitVal c = none := by
  revert c; apply forall_byte; decide +kernel

theorem digits_context (p : List Byte) (n base : Nat) (hc : isAlnum (byteAt p n) = false) :
    ∀ (k i v f1 f2 : Nat), n - i = k → i ≤ n → n - i < f1 → n - i < f2 →
      strtoulDigits p base f1 i v = strtoulDigits (p.take n) base f2 i v ∧
      i ≤ (strtoulDigits p base f1 i v).2 ∧ (strtoulDigits p base f1 i v).2 ≤ n ∧
      ((strtoulDigits p base f1 i v).2 = i → (strtoulDigits p base f1 i v).1 = v) := by
  intro k
  induction k with
  | zero =>
    intro i v f1 f2 hk hi h1 h2
    have hin : i = n := by omega
    subst hin
    cases f1 with
    | zero => omega
    | succ f1 =>
      cases f2 with
      | zero => omega
      | succ f2 =>
        have e0 : byteAt (p.take i) i = 0#8 := by rw [byteAt_take]; simp
        have d0 : digitVal (0#8 : Byte) = none := by decide
        simp only [strtoulDigits, digitVal_nonalnum _ hc, e0, d0]
        exact ⟨trivial, Nat.le_refl _, Nat.le_refl _, fun _ => trivial⟩
  | succ k ih =>
    intro i v f1 f2 hk hi h1 h2
    have hlt : i < n := by omega
    cases f1 with
    | zero => omega
    | succ f1 =>
      cases f2 with
      | zero => omega
      | succ f2 =>
        have e0 : byteAt (p.take n) i = byteAt p i := by rw [byteAt_take]; simp [hlt]
        simp only [strtoulDigits, e0]
        cases hd : digitVal (byteAt p i) with
        | none => exact ⟨rfl, Nat.le_refl _, Nat.le_of_lt hlt, fun _ => rfl⟩
        | some d =>
          simp only
          by_cases hb : d < base
          · simp only [hb, if_true]
            obtain ⟨a1, a2, a3, _⟩ := ih (i + 1) (v * base + d) f1 f2 (by omega) (by omega) (by omega) (by omega)
            exact ⟨a1, by omega, a3, fun h => by omega⟩
          · simp only [hb, if_false]
            exact ⟨trivial, Nat.le_refl _, Nat.le_of_lt hlt, fun _ => trivial⟩

/-- libc model in context = digit loop on the copy of the token, outside a second `0x` prefix -/
theorem strtoul_context (p : List Byte) (n i base : Nat) (hc : isAlnum (byteAt p n) = false) (hi : i ≤ n) (hn : n ≤ p.length)
    (hpre : ¬ (base = 16 ∧ byteAt p i = 48#8 ∧ (byteAt p (i + 1) = 120#8 ∨ byteAt p (i + 1) = 88#8))) :
    strtoulC p i base = strtoulH (p.take n) i base ∧ (strtoulC p i base).2 ≤ n := by
  have hl : (p.take n).length = n := by simp [Nat.min_eq_left hn]
  obtain ⟨a1, a2, a3, a4⟩ := digits_context p n base hc (n - i) i 0 (p.length + 1) ((p.take n).length + 1) rfl hi (by omega) (by omega)
  unfold strtoulC strtoulH ChibiVerif.Literals.strtoul saturate
  simp only [hpre, if_false, ← a1]
  by_cases he : (strtoulDigits p base (p.length + 1) i 0).2 = i
  · have hz := a4 he
    simp only [he, if_true, hz]
    exact ⟨by simp, hi⟩
  · simp only [he, if_false]
    exact ⟨trivial, a3⟩

-- ------------------------------------------------------------------ the two ladders do not accept the byte after the token

theorem nonalnum_sext (b : Byte) : isAlnum b = false → b.signExtend 32 ≠ 0x30#32 ∧ b.signExtend 32 ≠ 0x31#32 := by
  revert b; apply forall_byte; decide +kernel

theorem zero_nonalnum : isAlnum (0#8 : Byte) = false := by decide

/-- the suffix ladder on a three-byte window -/
def W (a b c : Byte) : Nat × Bool × Bool := G.convertPpInt_sel2 [a, b, c] 0

theorem sel2_W (p : List Byte) (q : Nat) :
    G.convertPpInt_sel2 p q = (q + (W (byteAt p q) (byteAt p (q + 1)) (byteAt p (q + 2))).1,
      (W (byteAt p q) (byteAt p (q + 1)) (byteAt p (q + 2))).2) := by
  rw [sel2_drop, sel2_window]
  simp only [byteAt_drop, Nat.add_zero, W]

theorem W_third (a b x y : Byte) (hx : isAlnum x = false) (hy : isAlnum y = false) : W a b x = W a b y := by
  obtain ⟨x1, x2, x3, x4, _, _⟩ := nonalnum_facts2 _ hx
  obtain ⟨y1, y2, y3, y4, _, _⟩ := nonalnum_facts2 _ hy
  simp [W, ChibiVerif.Gen.PpNum.convertPpInt_sel2, byteAt_zero, byteAt_succ, x1, x2, x3, x4, y1, y2, y3, y4]

theorem W_second (a x y c c' : Byte) (hx : isAlnum x = false) (hy : isAlnum y = false) : W a x c = W a y c' := by
  obtain ⟨x1, x2, x3, x4, _, _⟩ := nonalnum_facts2 _ hx
  obtain ⟨y1, y2, y3, y4, _, _⟩ := nonalnum_facts2 _ hy
  obtain ⟨_, _, _, _, x5, x6⟩ := nonalnum_facts1 _ hx
  obtain ⟨_, _, _, _, y5, y6⟩ := nonalnum_facts1 _ hy
  simp [W, ChibiVerif.Gen.PpNum.convertPpInt_sel2, byteAt_zero, byteAt_succ, x1, x2, x3, x4, y1, y2, y3, y4, x5, x6, y5, y6]

theorem W_first (x y b b' c c' : Byte) (hx : isAlnum x = false) (hy : isAlnum y = false) : W x b c = W y b' c' := by
  obtain ⟨x1, x2, x3, x4, _, _⟩ := nonalnum_facts2 _ hx
  obtain ⟨y1, y2, y3, y4, _, _⟩ := nonalnum_facts2 _ hy
  obtain ⟨_, _, _, _, x5, x6⟩ := nonalnum_facts1 _ hx
  obtain ⟨_, _, _, _, y5, y6⟩ := nonalnum_facts1 _ hy
  obtain ⟨x7, x8, x9, x10⟩ := nonalnum_facts3 _ hx
  obtain ⟨y7, y8, y9, y10⟩ := nonalnum_facts3 _ hy
  simp [W, ChibiVerif.Gen.PpNum.convertPpInt_sel2, byteAt_zero, byteAt_succ, x1, x2, x3, x4, y1, y2, y3, y4, x5, x6, y5, y6,
    x7, x8, x9, x10, y7, y8, y9, y10]

theorem sel2_context (p : List Byte) (n q : Nat) (hq : q ≤ n) (hc : isAlnum (byteAt p n) = false) :
    G.convertPpInt_sel2 (p.take n) q = G.convertPpInt_sel2 p q := by
  rw [sel2_W, sel2_W p q]
  simp only [byteAt_take]
  by_cases h3 : q + 2 < n
  · have h1 : q < n := by omega
    have h2 : q + 1 < n := by omega
    simp only [h1, h2, h3, if_true]
  · by_cases h2 : q + 1 < n
    · have h1 : q < n := by omega
      have e : n = q + 2 := by omega
      simp only [h1, h2, h3, if_true, if_false]
      rw [W_third _ _ _ (byteAt p (q + 2)) zero_nonalnum (by rw [← e]; exact hc)]
    · by_cases h1 : q < n
      · have e : n = q + 1 := by omega
        simp only [h1, h2, h3, if_true, if_false]
        rw [W_second _ _ (byteAt p (q + 1)) _ (byteAt p (q + 2)) zero_nonalnum (by rw [← e]; exact hc)]
      · have e : n = q := by omega
        simp only [h1, h2, h3, if_false]
        rw [W_first _ (byteAt p q) _ (byteAt p (q + 1)) _ (byteAt p (q + 2)) zero_nonalnum (by rw [← e]; exact hc)]

theorem sel1_context (p : List Byte) (n : Nat) (hn : 1 ≤ n) (hc : isAlnum (byteAt p n) = false) :
    G.convertPpInt_sel1 (p.take n) 0 = G.convertPpInt_sel1 p 0 := by
  obtain ⟨_, z2, z3, z4, _, _⟩ := nonalnum_facts1 _ zero_nonalnum
  obtain ⟨z5, z6⟩ := nonalnum_sext _ zero_nonalnum
  have z2' : ChibiVerif.Gen.LitReaders.isxdigit (0#8 : Byte) = false := z2
  unfold ChibiVerif.Gen.PpNum.convertPpInt_sel1
  simp only [byteAt_take, Nat.zero_add]
  have h0 : 0 < n := by omega
  simp only [h0, if_true]
  by_cases h2 : 2 < n
  · have h1 : 1 < n := by omega
    simp only [h1, h2, if_true]
  · by_cases h1 : 1 < n
    · have e : n = 2 := by omega
      subst e
      obtain ⟨_, c2, _, _, _, _⟩ := nonalnum_facts1 _ hc
      obtain ⟨c5, c6⟩ := nonalnum_sext _ hc
      have c2' : ChibiVerif.Gen.LitReaders.isxdigit (byteAt p 2) = false := c2
      simp [z2', z5, z6, c2', c5, c6]
    · have e : n = 1 := by omega
      subst e
      obtain ⟨_, _, c3, c4, _, _⟩ := nonalnum_facts1 _ hc
      simp [z3, z4, c3, c4]

-- ------------------------------------------------------------------ the whole function, and `lexLiteral`

theorem sel1_shape (r : List Byte) :
    (G.convertPpInt_sel1 r 0).1 ≤ r.length ∧ ((G.convertPpInt_sel1 r 0).2 = 16 → (G.convertPpInt_sel1 r 0).1 = 2) := by
  have hx : ∀ b : Byte, ChibiVerif.Gen.LitReaders.isxdigit b = true → b ≠ 0#8 := by
    apply forall_byte; decide +kernel
  have h01 : ∀ b : Byte, (b.signExtend 32 = 0x30#32 ∨ b.signExtend 32 = 0x31#32) → b ≠ 0#8 := by
    apply forall_byte; decide +kernel
  unfold ChibiVerif.Gen.PpNum.convertPpInt_sel1
  simp only [Nat.zero_add]
  split
  · rename_i h
    have := byteAt_ne_zero_lt r 2 (hx _ h.2)
    exact ⟨by simp; omega, fun _ => rfl⟩
  · split
    · rename_i h
      have := byteAt_ne_zero_lt r 2 (h01 _ h.2)
      exact ⟨by simp; omega, fun h => by simp at h⟩
    · split
      · exact ⟨by simp, fun h => by simp at h⟩
      · exact ⟨by simp, fun h => by simp at h⟩

/-- `convert_pp_int` (translated) in context with the libc model = on the copy of the token with the digit loop -/
theorem convertPpInt_context (p : List Byte) (n : Nat) (hn1 : 1 ≤ n) (hnl : n ≤ p.length)
    (hc : isAlnum (byteAt p n) = false) (hsp : ¬ SecondPrefix p) :
    G.convertPpInt strtoulC p 0 n = G.convertPpInt strtoulH (p.take n) 0 (p.take n).length := by
  have hl : (p.take n).length = n := by simp [Nat.min_eq_left hnl]
  have hs1 := sel1_context p n hn1 hc
  obtain ⟨sh1, sh2⟩ := sel1_shape (p.take n)
  rw [hs1, hl] at sh1
  rw [hs1] at sh2
  unfold ChibiVerif.Gen.PpNum.convertPpInt
  rw [hs1, hl]
  generalize hg : G.convertPpInt_sel1 p 0 = s1 at sh1 sh2
  obtain ⟨q1, base⟩ := s1
  simp only at sh1 sh2 ⊢
  have hpre : ¬ (base = 16 ∧ byteAt p q1 = 48#8 ∧ (byteAt p (q1 + 1) = 120#8 ∨ byteAt p (q1 + 1) = 88#8)) := by
    intro h
    apply hsp
    have hq : q1 = 2 := sh2 h.1
    subst hq
    unfold SecondPrefix
    rw [hg]
    exact ⟨h.1, h.2.1, h.2.2⟩
  obtain ⟨e1, e2⟩ := strtoul_context p n q1 base hc sh1 hnl hpre
  rw [← e1]
  generalize strtoulC p q1 base = r at e2
  obtain ⟨v, q2⟩ := r
  simp only at e2 ⊢
  rw [sel2_context p n q2 e2 hc]

theorem start_nonempty (p : List Byte) (h : ChibiVerif.Gen.PpNum.ppNumberStart p 0 = true) :
    1 ≤ ChibiVerif.Gen.PpNum.ppNumberEnd p 0 ∧ ChibiVerif.Gen.PpNum.ppNumberEnd p 0 ≤ p.length := by
  have := (ChibiVerif.Lemmas.PpNum.ppnumber_maximal p 0).2 h
  exact ⟨by omega, this.2.1⟩

/-- **`lexLiteral` is `lexLiteralC`** outside the doubled-prefix shape -/
theorem lexLiteral_eq (p : List Byte) (hsp : ¬ SecondPrefix p) : lexLiteralC p = lexLiteral p := by
  unfold lexLiteralC
  by_cases hs : ChibiVerif.Gen.PpNum.ppNumberStart p 0 = true
  · simp only [hs, if_true]
    obtain ⟨h1, h2⟩ := start_nonempty p hs
    unfold convertPpIntC
    rw [convertPpInt_context p _ h1 h2 (after_token p) hsp]
    unfold lexLiteral
    rw [ChibiVerif.Lemmas.PpNum.ppStart_eq, hs]
    simp only [if_true, ChibiVerif.Lemmas.PpNum.ppNumberLen_eq, translated_int]
    generalize G.convertPpInt strtoulH (p.take (ChibiVerif.Gen.PpNum.ppNumberEnd p 0)) 0
      (p.take (ChibiVerif.Gen.PpNum.ppNumberEnd p 0)).length = r
    cases r with
    | none => rfl
    | some x => cases x; rfl
  · simp only [hs, Bool.false_eq_true, if_false]

end ChibiVerif.Lemmas.PpContext
