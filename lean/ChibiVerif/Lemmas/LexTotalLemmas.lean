/-
Helper lemmas for Props/C13.lean about Model/LexTotal.lean (C13's byte-level scanner):
  * line arithmetic (`countLF`), the bound on diagnostic lines,
  * progress of every step (the fuel `length + 1` is never exhausted),
  * a text that ends in '\n' is never left (no `overread`),
  * the passes of tokenize_file turn a NUL-free file into a text that ends in '\n'.
Core Lean only.
-/
import ChibiVerif.Model.LexTotal

namespace ChibiVerif.LexTotal
open ChibiVerif.Gen.Literals


theorem countLF_append (a b : List Nat) : countLF (a ++ b) = countLF a + countLF b := by
  induction a with
  | nil => simp [countLF]
  | cons c t ih => simp [countLF, ih]; omega

theorem countLF_take_drop (s : List Nat) (k : Nat) : countLF (s.take k) + countLF (s.drop k) = countLF s := by
  rw [← countLF_append, List.take_append_drop]

theorem countLF_take_le (s : List Nat) (k : Nat) : countLF (s.take k) ≤ countLF s := by
  have := countLF_take_drop s k; omega

/-- every diagnostic line lies between the line of the current position and the last line of the rest -/
theorem loop_diag_bound : ∀ (fuel : Nat) (s : List Nat) (line n l : Nat) (m : Msg),
    loop fuel s line n = .diag l m → line ≤ l ∧ l ≤ line + countLF s := by
  intro fuel
  induction fuel with
  | zero => intro s line n l m h; simp [loop] at h
  | succ f ih =>
    intro s line n l m h
    cases s with
    | nil => simp [loop] at h
    | cons c t =>
      simp only [loop] at h
      split at h
      · rename_i k _
        have := ih _ _ _ _ _ h
        have e := countLF_take_drop (c :: t) k
        omega
      · rename_i k _
        have := ih _ _ _ _ _ h
        have e := countLF_take_drop (c :: t) k
        omega
      · rename_i off mm _
        injection h with h1 h2
        have e := countLF_take_le (c :: t) off
        omega

open ChibiVerif.Gen.Literals

/-- a step that goes on consumes at least one byte -/
def Step.Progress : Step → Prop
  | .skip k => 1 ≤ k
  | .tok k => 1 ≤ k
  | _ => True

theorem decode_pos (s : List Nat) (cp n : Nat) (h : decode s = .ok (cp, n)) : 1 ≤ n := by
  unfold decode at h
  split at h
  · rename_i c n' heq
    injection h with h; injection h with h1 h2; subst h2
    unfold decodeUtf8 at heq
    split at heq
    · injection heq with heq; injection heq with _ h2; omega
    · split at heq
      · simp at heq
      · rename_i len c0 hl
        have : 2 ≤ len := by
          unfold decodeLead at hl
          split at hl
          · injection hl with hl; injection hl with h1 _; omega
          · split at hl
            · injection hl with hl; injection hl with h1 _; omega
            · split at hl
              · injection hl with hl; injection hl with h1 _; omega
              · simp at hl
        cases hd : decodeCont (List.map (BitVec.ofNat 8) (List.take 4 s)) (len - 1) 1 c0 with
        | error e => rw [hd] at heq; simp [Except.map] at heq
        | ok v => rw [hd] at heq; simp [Except.map] at heq; omega
  · simp at h

theorem identRest_ge : ∀ (fuel : Nat) (s : List Nat) (off len : Nat), identRest fuel s off = .ok len → off ≤ len := by
  intro fuel
  induction fuel with
  | zero => intro s off len h; simp [identRest] at h; omega
  | succ f ih =>
    intro s off len h
    cases s with
    | nil => simp [identRest] at h; omega
    | cons c t =>
      simp only [identRest] at h
      split at h
      · simp at h
      · split at h
        · have := ih _ _ _ h; omega
        · injection h with h; omega

theorem strTok_progress (w : Bool) (s : List Nat) (q : Nat) : (strTok w s q).Progress := by
  unfold strTok
  split
  · trivial
  · split
    · trivial
    · simp [Step.Progress]

theorem chrTok_progress (s : List Nat) (q : Nat) : (chrTok s q).Progress := by
  unfold chrTok
  split
  · trivial
  · split
    · trivial
    · simp [Step.Progress]
theorem stepWord_progress (s : List Nat) : (stepWord s).Progress := by
  unfold stepWord
  split
  · trivial
  · rename_i cp n hd
    split
    · split
      · trivial
      · rename_i len hr
        have h1 := identRest_ge _ _ _ _ hr
        have h2 := decode_pos _ _ _ hd
        simp only [Step.Progress]; omega
    · split
      · trivial
      · simp only [Step.Progress]; omega

theorem stepChr_progress (c : Nat) (s : List Nat) : (stepChr c s).Progress := by
  unfold stepChr
  repeat' split
  all_goals first | exact chrTok_progress _ _ | exact stepWord_progress _

theorem stepStr_progress (c : Nat) (s : List Nat) : (stepStr c s).Progress := by
  unfold stepStr
  repeat' split
  all_goals first | exact strTok_progress _ _ _ | exact stepChr_progress _ _

theorem step_progress (c : Nat) (t : List Nat) : (step (c :: t)).Progress := by
  unfold step
  repeat' split
  all_goals first
    | trivial
    | exact stepStr_progress _ _
    | (simp only [Step.Progress]; omega)

theorem loop_no_fuel : ∀ (fuel : Nat) (s : List Nat) (line n : Nat),
    s.length < fuel → loop fuel s line n ≠ .fuel := by
  intro fuel
  induction fuel with
  | zero => intro s line n h; omega
  | succ f ih =>
    intro s line n h
    cases s with
    | nil => simp [loop]
    | cons c t =>
      simp only [loop]
      have hp := step_progress c t
      split
      · rename_i k heq
        rw [heq] at hp
        apply ih
        simp only [List.length_drop, List.length_cons] at *
        simp only [Step.Progress] at hp
        omega
      · rename_i k heq
        rw [heq] at hp
        apply ih
        simp only [List.length_drop, List.length_cons] at *
        simp only [Step.Progress] at hp
        omega
      · simp


theorem EndsLF_ne_nil {l : List Nat} (h : EndsLF l) : l ≠ [] := by
  intro e; subst e; simp [EndsLF] at h

theorem EndsLF_cons {x : Nat} {l : List Nat} (h : EndsLF l) : EndsLF (x :: l) := by
  cases l with
  | nil => simp [EndsLF] at h
  | cons y t => simpa [EndsLF, List.getLast?_cons_cons] using h

theorem EndsLF_tail {x y : Nat} {l : List Nat} (h : EndsLF (x :: y :: l)) : EndsLF (y :: l) := by
  simpa [EndsLF, List.getLast?_cons_cons] using h

theorem EndsLF_append {a l : List Nat} (h : EndsLF l) : EndsLF (a ++ l) := by
  induction a with
  | nil => simpa using h
  | cons x t ih => exact EndsLF_cons ih

theorem EndsLF_drop {l : List Nat} (h : EndsLF l) (k : Nat) : l.drop k = [] ∨ EndsLF (l.drop k) := by
  induction k generalizing l with
  | zero => right; simpa using h
  | succ k ih =>
    cases l with
    | nil => left; rfl
    | cons x t =>
      cases t with
      | nil => left; simp
      | cons y t' =>
        simp only [List.drop_succ_cons]
        exact ih (EndsLF_tail h)

theorem getLast?_cons_ne {x : Nat} {l : List Nat} (h : l ≠ []) : (x :: l).getLast? = l.getLast? := by
  cases l with
  | nil => exact absurd rfl h
  | cons y t => simp [List.getLast?_cons_cons]

/-- the scanner proper has no over-read outcome (repaired code): only the passes before it can produce one -/
theorem loop_no_overread : ∀ (fuel : Nat) (s : List Nat) (line n : Nat) (w : Why),
    loop fuel s line n ≠ .overread w := by
  intro fuel
  induction fuel with
  | zero => intro s line n w; simp [loop]
  | succ f ih =>
    intro s line n w
    cases s with
    | nil => simp [loop]
    | cons c t =>
      simp only [loop]
      split
      · exact ih _ _ _ _
      · exact ih _ _ _ _
      · simp

theorem getLast?_drop_of_ne {l : List Nat} {k : Nat} (h : l.drop k ≠ []) : (l.drop k).getLast? = l.getLast? := by
  induction k generalizing l with
  | zero => simp
  | succ k ih =>
    cases l with
    | nil => simp at h
    | cons x t =>
      simp only [List.drop_succ_cons] at h ⊢
      rw [ih h]
      have : t ≠ [] := by intro e; subst e; simp at h
      exact (getLast?_cons_ne this).symm

theorem EndsLF_singleton : EndsLF [10] := rfl

theorem readFile_ends (b : List Nat) : EndsLF (readFile b) := by
  unfold readFile
  split
  · assumption
  · simp [EndsLF]

theorem cstr_id : ∀ (b : List Nat), 0 ∉ b → cstr b = b := by
  intro b
  induction b with
  | nil => intro _; rfl
  | cons c t ih =>
    intro h
    simp only [List.mem_cons, not_or] at h
    simp only [cstr]
    rw [if_neg (fun e => h.1 e.symm), ih h.2]

theorem readFile_nonul (b : List Nat) (h : 0 ∉ b) : 0 ∉ readFile b := by
  unfold readFile
  split
  · exact h
  · simp [h]

theorem skipBOM_ends {l : List Nat} (h : EndsLF l) : EndsLF (skipBOM l) := by
  unfold skipBOM
  split
  · rename_i a b c rest
    split
    · cases rest with
      | nil => rename_i hc; simp [EndsLF] at h; omega
      | cons y r => exact EndsLF_tail (EndsLF_tail (EndsLF_tail h))
    · exact h
  · exact h

theorem canonNL_ends : ∀ (l : List Nat), EndsLF l → EndsLF (canonNL l) := by
  intro l
  induction l using canonNL.induct with
  | case1 => intro h; exact h
  | case2 => intro _; rfl
  | case3 a ha => intro h; simp only [canonNL, ha, if_false]; exact h
  | case4 rest ih =>
    intro h
    simp only [canonNL, if_true]
    cases rest with
    | nil => rfl
    | cons y r => exact EndsLF_cons (ih (EndsLF_tail (EndsLF_tail h)))
  | case5 b rest hb ih =>
    intro h
    simp only [canonNL, if_true, hb, if_false]
    exact EndsLF_cons (ih (EndsLF_tail h))
  | case6 a b rest ha ih =>
    intro h
    simp only [canonNL, ha, if_false]
    exact EndsLF_cons (ih (EndsLF_tail h))

theorem EndsLF_replicate (n : Nat) (h : 1 ≤ n) : EndsLF (List.replicate n 10) := by
  induction n with
  | zero => omega
  | succ k ih =>
    cases k with
    | zero => rfl
    | succ j => rw [List.replicate_succ]; exact EndsLF_cons (ih (by omega))

theorem rmBsNlAux_ends : ∀ (l : List Nat) (n : Nat), (l = [] ∧ 1 ≤ n) ∨ EndsLF l → EndsLF (rmBsNlAux l n) := by
  intro l n
  induction l, n using rmBsNlAux.induct with
  | case1 n =>
    intro h
    rcases h with ⟨_, h⟩ | h
    · simp only [rmBsNlAux]; exact EndsLF_replicate n h
    · simp [EndsLF] at h
  | case2 a n =>
    intro h
    rcases h with ⟨h, _⟩ | h
    · simp at h
    · simp only [rmBsNlAux]
      cases n with
      | zero => simpa using h
      | succ k => exact EndsLF_cons (EndsLF_replicate _ (by omega))
  | case3 a b rest n hab ih =>
    intro h
    rcases h with ⟨h, _⟩ | h
    · simp at h
    · simp only [rmBsNlAux, hab, and_self, if_true]
      apply ih
      cases rest with
      | nil => left; exact ⟨rfl, by omega⟩
      | cons y r => right; exact EndsLF_tail (EndsLF_tail h)
  | case4 b rest n hab ih =>
    intro h
    rcases h with ⟨h, _⟩ | h
    · simp at h
    · unfold rmBsNlAux
      simp only [hab, if_false, if_true]
      exact EndsLF_cons (EndsLF_append (ih (Or.inr (EndsLF_tail h))))
  | case5 a b rest n hab ha ih =>
    intro h
    rcases h with ⟨h, _⟩ | h
    · simp at h
    · simp only [rmBsNlAux, hab, ha, if_false]
      exact EndsLF_cons (ih (Or.inr (EndsLF_tail h)))

theorem rmBsNl_ends {l : List Nat} (h : EndsLF l) : EndsLF (rmBsNl l) := rmBsNlAux_ends l 0 (Or.inr h)

theorem mem_of_EndsLF {l : List Nat} (h : EndsLF l) : 10 ∈ l := by
  induction l with
  | nil => simp [EndsLF] at h
  | cons x t ih =>
    cases t with
    | nil => simp [EndsLF] at h; simp [h]
    | cons y r => exact List.mem_cons_of_mem _ (ih (EndsLF_tail h))

theorem readUC_ne_zero : ∀ (len : Nat) (p : List Nat) (c : Nat), readUC p len c ≠ 0 →
    len = 0 ∨ (len ≤ p.length ∧ ∀ x ∈ p.take len, isXDigitN x = true) := by
  intro len
  induction len with
  | zero => intro p c _; left; rfl
  | succ k ih =>
    intro p c h
    right
    cases p with
    | nil => simp [readUC] at h
    | cons b rest =>
      simp only [readUC] at h
      split at h
      · rename_i hx
        rcases ih rest _ h with h0 | ⟨hl, hall⟩
        · subst h0; simp [hx]
        · refine ⟨by simp; omega, ?_⟩
          intro x hxm
          simp only [List.take_succ_cons, List.mem_cons] at hxm
          rcases hxm with e | e
          · rw [e]; exact hx
          · exact hall x e
      · exact absurd rfl h

/-- after a universal character name the text goes on and still ends in a newline -/
theorem drop_ucn_ends {t : List Nat} {len : Nat} (hlen : 1 ≤ len) (h : EndsLF t) (hr : readUC t len 0 ≠ 0) :
    EndsLF (t.drop len) := by
  rcases readUC_ne_zero len t 0 hr with h0 | ⟨hl, hall⟩
  · omega
  · rcases EndsLF_drop h len with hd | hd
    · exfalso
      have ht : t.take len = t := by
        have := List.take_append_drop len t
        rw [hd, List.append_nil] at this; exact this
      have := hall 10 (by rw [ht]; exact mem_of_EndsLF h)
      simp [isXDigitN, LexChar.isXDigit, LexChar.isDigit] at this
    · exact hd

theorem convUCAux_nil (fuel : Nat) : convUCAux fuel [] = .ok [] := by
  cases fuel <;> rfl

theorem convUCAux_ends : ∀ (fuel : Nat) (l : List Nat), l.length < fuel → EndsLF l →
    ∃ r, convUCAux fuel l = .ok r ∧ EndsLF r := by
  intro fuel l
  induction fuel, l using convUCAux.induct with
  | case1 p => intro h _; omega
  | case2 n => intro _ h; simp [EndsLF] at h
  | case3 fuel => intro _ h; simp [EndsLF] at h
  | case4 fuel c t hc ih =>
    intro hl he
    have ht : EndsLF t := by
      cases t with
      | nil => simp [readUC] at hc
      | cons y r => exact EndsLF_tail (EndsLF_tail he)
    obtain ⟨r, hr, her⟩ := ih (by simp only [List.length_drop, List.length_cons] at *; omega) (drop_ucn_ends (by omega) ht hc.2.1)
    refine ⟨encodeU (readUC t 4 0) ++ r, ?_, EndsLF_append her⟩
    unfold convUCAux
    simp only [if_true, hc, ne_eq, not_false_eq_true, and_self, hr, Except.map]
  | case5 fuel c t hn hc ih =>
    intro hl he
    have ht : EndsLF t := by
      cases t with
      | nil => simp [readUC] at hc
      | cons y r => exact EndsLF_tail (EndsLF_tail he)
    obtain ⟨r, hr, her⟩ := ih (by simp only [List.length_drop, List.length_cons] at *; omega) (drop_ucn_ends (by omega) ht hc.2.1)
    refine ⟨encodeU (readUC t 8 0) ++ r, ?_, EndsLF_append her⟩
    unfold convUCAux
    simp only [if_true, hc, ne_eq, not_false_eq_true, and_self, hr, Except.map]
    rw [if_neg (by omega)]
  | case6 fuel c t hn1 hn2 hc ih =>
    intro hl he
    obtain ⟨r, hr, her⟩ := ih (by simp only [List.length_cons] at *; omega) (EndsLF_tail he)
    refine ⟨92 :: r, ?_, EndsLF_cons her⟩
    unfold convUCAux
    simp only [if_true, hn1, hn2, if_false, hc, hr, Except.map]
  | case7 fuel c t hn1 hn2 hn3 ih =>
    intro hl he
    cases t with
    | nil =>
      refine ⟨[92, c], ?_, he⟩
      unfold convUCAux
      simp only [if_true, hn1, hn2, hn3, if_false, convUCAux_nil, Except.map]
    | cons y r0 =>
      obtain ⟨r, hr, her⟩ := ih (by simp only [List.length_cons] at *; omega) (EndsLF_tail (EndsLF_tail he))
      refine ⟨92 :: c :: r, ?_, EndsLF_cons (EndsLF_cons her)⟩
      unfold convUCAux
      simp only [if_true, hn1, hn2, hn3, if_false, hr, Except.map]
  | case8 fuel a rest ha ih =>
    intro hl he
    cases rest with
    | nil =>
      refine ⟨[a], ?_, he⟩
      unfold convUCAux
      simp only [ha, if_false, convUCAux_nil, Except.map]
    | cons y r0 =>
      obtain ⟨r, hr, her⟩ := ih (by simp only [List.length_cons] at *; omega) (EndsLF_tail he)
      refine ⟨a :: r, ?_, EndsLF_cons her⟩
      unfold convUCAux
      simp only [ha, if_false, hr, Except.map]

theorem convUC_ends {l : List Nat} (h : EndsLF l) : ∃ r, convUC l = .ok r ∧ EndsLF r :=
  convUCAux_ends _ _ (Nat.lt_succ_self _) h

/-- the passes of `tokenize_file` on a file without NUL bytes succeed and yield a text that ends in '\n' -/
theorem phases_ends (bytes : List Nat) (h : 0 ∉ bytes) : ∃ t, phases bytes = .ok t ∧ EndsLF t := by
  unfold phases
  rw [cstr_id _ (readFile_nonul bytes h)]
  exact convUC_ends (rmBsNl_ends (canonNL_ends _ (skipBOM_ends (readFile_ends bytes))))

-- ------------------------------------------------------------------ lines of the raw file

theorem canonNL_count : ∀ (l : List Nat), countLF (canonNL l) = terminators l := by
  intro l
  induction l using canonNL.induct with
  | case1 => rfl
  | case2 => rfl
  | case3 a ha => simp [canonNL, terminators, countLF, ha]
  | case4 rest ih => simp [canonNL, terminators, countLF, ih]
  | case5 b rest hb ih => simp [canonNL, terminators, countLF, hb, ih]
  | case6 a b rest ha ih => simp [canonNL, terminators, countLF, ha, ih]

theorem countLF_replicate (n : Nat) : countLF (List.replicate n 10) = n := by
  induction n with
  | zero => rfl
  | succ k ih => simp [List.replicate_succ, countLF, ih]; omega

theorem rmBsNlAux_count : ∀ (l : List Nat) (n : Nat), countLF (rmBsNlAux l n) = countLF l + n := by
  intro l n
  induction l, n using rmBsNlAux.induct with
  | case1 n => simp [rmBsNlAux, countLF, countLF_replicate]
  | case2 a n => simp [rmBsNlAux, countLF, countLF_replicate]
  | case3 a b rest n hab ih => simp [rmBsNlAux, hab, countLF, ih]; omega
  | case4 b rest n hab ih =>
    unfold rmBsNlAux
    simp [countLF, countLF_append, countLF_replicate, ih]
    omega
  | case5 a b rest n hab ha ih => simp [rmBsNlAux, hab, ha, countLF, ih]

theorem skipBOM_terminators (l : List Nat) : terminators (skipBOM l) = terminators l := by
  unfold skipBOM
  split
  · rename_i a b c rest
    split
    · rename_i h
      obtain ⟨h1, h2, h3⟩ := h
      subst h1 h2 h3
      cases rest with
      | nil => simp [terminators]
      | cons y r => simp [terminators]
    · rfl
  · rfl

theorem text_lines (bytes : List Nat) (h : 0 ∉ bytes) :
    countLF (rmBsNl (canonNL (skipBOM (cstr (readFile bytes))))) = terminators (readFile bytes) := by
  rw [cstr_id _ (readFile_nonul bytes h)]
  unfold rmBsNl
  rw [rmBsNlAux_count, canonNL_count, skipBOM_terminators]; rfl

theorem hi_ne_lf (k y : BitVec 32) (hk : k[7] = true) : ((k ||| y).setWidth 8) ≠ 10#8 := by
  intro h
  have h7 := congrArg (fun b => b.getLsbD 7) h
  simp at h7
  rw [hk] at h7
  exact absurd h7.1 (by decide)

theorem encodeUtf8_no_lf (v : BitVec 32) (hv : v ≠ 10#32) : ∀ b ∈ encodeUtf8 v, b ≠ 10#8 := by
  intro b hb
  unfold encodeUtf8 at hb
  split at hb
  · rename_i hle
    simp only [List.mem_singleton] at hb
    subst hb
    intro h
    apply hv
    have h1 : v.toNat ≤ 127 := by simpa [BitVec.le_def] using hle
    have h2 := congrArg BitVec.toNat h
    simp [BitVec.toNat_setWidth] at h2
    apply BitVec.eq_of_toNat_eq
    simp; omega
  · split at hb
    · simp only [List.mem_cons, List.not_mem_nil, or_false] at hb
      rcases hb with e | e <;> subst e <;> exact hi_ne_lf _ _ (by decide)
    · split at hb
      · simp only [List.mem_cons, List.not_mem_nil, or_false] at hb
        rcases hb with e | e | e <;> subst e <;> exact hi_ne_lf _ _ (by decide)
      · simp only [List.mem_cons, List.not_mem_nil, or_false] at hb
        rcases hb with e | e | e | e <;> subst e <;> exact hi_ne_lf _ _ (by decide)

theorem countLF_eq_zero_of_not_mem : ∀ (l : List Nat), 10 ∉ l → countLF l = 0 := by
  intro l
  induction l with
  | nil => intro _; rfl
  | cons c t ih =>
    intro h
    simp only [List.mem_cons, not_or] at h
    simp only [countLF]
    rw [if_neg (fun e => h.1 e.symm), ih h.2]

theorem countLF_encodeU (c : Nat) (h0 : c ≠ 10) (hlt : c < 4294967296) : countLF (encodeU c) = 0 := by
  apply countLF_eq_zero_of_not_mem
  intro hm
  unfold encodeU at hm
  simp only [List.mem_map] at hm
  obtain ⟨b, hb, hbe⟩ := hm
  have hv : BitVec.ofNat 32 c ≠ 10#32 := by
    intro e
    have := congrArg BitVec.toNat e
    simp at this
    omega
  apply encodeUtf8_no_lf _ hv b hb
  apply BitVec.eq_of_toNat_eq
  simpa using hbe

theorem readUC_lt : ∀ (len : Nat) (p : List Nat) (c : Nat), c < 4294967296 → readUC p len c < 4294967296 := by
  intro len
  induction len with
  | zero => intro p c h; simpa [readUC] using h
  | succ k ih =>
    intro p c h
    cases p with
    | nil => simp [readUC]
    | cons b rest =>
      simp only [readUC]
      split
      · exact ih _ _ (Nat.mod_lt _ (by decide))
      · decide

theorem countLF_take_ucn {t : List Nat} {len : Nat} (hlen : 1 ≤ len) (hr : readUC t len 0 ≠ 0) :
    countLF (t.drop len) = countLF t := by
  rcases readUC_ne_zero len t 0 hr with h0 | ⟨_, hall⟩
  · omega
  · have h1 := countLF_take_drop t len
    have h2 : countLF (t.take len) = 0 := by
      apply countLF_eq_zero_of_not_mem
      intro hm
      have := hall 10 hm
      simp [isXDigitN, LexChar.isXDigit, LexChar.isDigit] at this
    omega

theorem convUCAux_count : ∀ (fuel : Nat) (l r : List Nat), convUCAux fuel l = .ok r → countLF r = countLF l := by
  intro fuel l
  induction fuel, l using convUCAux.induct with
  | case1 p => intro r h; simp [convUCAux] at h; rw [h]
  | case2 n => intro r h; simp [convUCAux] at h; rw [← h]
  | case3 fuel => intro r h; simp [convUCAux] at h
  | case4 fuel c t hc ih =>
    intro r h
    unfold convUCAux at h
    simp only [if_true, hc, ne_eq, not_false_eq_true, and_self] at h
    cases hq : convUCAux fuel (List.drop 4 t) with
    | error e => rw [hq] at h; simp [Except.map] at h
    | ok r' =>
      rw [hq] at h; simp only [Except.map] at h
      injection h with h; subst h
      rw [countLF_append, countLF_encodeU _ hc.2.2 (readUC_lt _ _ _ (by decide)), ih _ hq,
        countLF_take_ucn (by omega) hc.2.1]
      simp [countLF, hc.1]
  | case5 fuel c t hn hc ih =>
    intro r h
    unfold convUCAux at h
    simp only [if_true, hc, ne_eq, not_false_eq_true, and_self] at h
    rw [if_neg (by omega)] at h
    cases hq : convUCAux fuel (List.drop 8 t) with
    | error e => rw [hq] at h; simp [Except.map] at h
    | ok r' =>
      rw [hq] at h; simp only [Except.map] at h
      injection h with h; subst h
      rw [countLF_append, countLF_encodeU _ hc.2.2 (readUC_lt _ _ _ (by decide)), ih _ hq,
        countLF_take_ucn (by omega) hc.2.1]
      simp [countLF, hc.1]
  | case6 fuel c t hn1 hn2 hc ih =>
    intro r h
    unfold convUCAux at h
    simp only [if_true, hn1, hn2, if_false, hc] at h
    cases hq : convUCAux fuel (c :: t) with
    | error e => rw [hq] at h; simp [Except.map] at h
    | ok r' =>
      rw [hq] at h; simp only [Except.map] at h
      injection h with h; subst h
      simp [countLF, ih _ hq]
  | case7 fuel c t hn1 hn2 hn3 ih =>
    intro r h
    unfold convUCAux at h
    simp only [if_true, hn1, hn2, hn3, if_false] at h
    cases hq : convUCAux fuel t with
    | error e => rw [hq] at h; simp [Except.map] at h
    | ok r' =>
      rw [hq] at h; simp only [Except.map] at h
      injection h with h; subst h
      simp [countLF, ih _ hq]
  | case8 fuel a rest ha ih =>
    intro r h
    unfold convUCAux at h
    simp only [ha, if_false] at h
    cases hq : convUCAux fuel rest with
    | error e => rw [hq] at h; simp [Except.map] at h
    | ok r' =>
      rw [hq] at h; simp only [Except.map] at h
      injection h with h; subst h
      simp [countLF, ih _ hq]

theorem convUC_count (l r : List Nat) (h : convUC l = .ok r) : countLF r = countLF l := convUCAux_count _ _ _ h

/-- for a file without NUL bytes the last line of the text is the last line of the file -/
theorem lastLine_eq (bytes : List Nat) (h : 0 ∉ bytes) : lastLine bytes = terminators (readFile bytes) + 1 := by
  obtain ⟨t, ht, _⟩ := phases_ends bytes h
  unfold lastLine
  rw [ht]
  simp only
  unfold phases at ht
  rw [convUC_count _ _ ht, text_lines bytes h]

end ChibiVerif.LexTotal
