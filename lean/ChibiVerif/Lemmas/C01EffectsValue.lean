/-
C01: the composition theorem with side effects (`C01_value_effects` in Props/C01.lean): `value_x`, by induction on the
expression over the combinators of Lemmas/C01Machine.lean, with `swap_eval` (Lemmas/C01Effects.lean) bridging the
evaluation order of `evalE` (left operand first) and of `gen_expr` (right operand first).
-/
import ChibiVerif.Lemmas.C01Machine

namespace ChibiVerif.C01
open ChibiVerif.X86 ChibiVerif.Asm ChibiVerif.Spec.IntSpec ChibiVerif.Gen.CommonType ChibiVerif.C01Codegen

/-! ### operator steps -/

theorem arith_step (k : NK) (op : BinOp) (hop : specOp k = some op) (hns : op.isShift = false) (ta tb : ITy)
    (va vb x : Int) (hx : binop op ta tb va vb = some x) (s : State)
    (ha : Represents (binopOperandType op ta tb) (s.get .rax) (convert (binopOperandType op ta tb) va))
    (hb : Represents (binopOperandType op ta tb) (s.get .rdi) (convert (binopOperandType op ta tb) vb)) :
    ∃ s', X86.run (opSeq k (binopOperandType op ta tb)) s = some s' ∧ Represents (binopType op ta tb) (s'.get .rax) x ∧
      Same s s' := by
  have ht : binopOperandType op ta tb = usualArith ta tb := by simp [binopOperandType, hns]
  simp only [binop, hns, Bool.false_eq_true, if_false] at hx
  rw [ht] at hx ha hb ⊢
  have hres : binopType op (usualArith ta tb) (usualArith ta tb) = binopType op ta tb := by
    simp only [binopType, binopOperandType, hns, Bool.false_eq_true, if_false, usualArith_idem]
  have := binop_run k op hop hns _ (usualArith_mem ta tb) s _ _ x ha hb hx
  rw [hres] at this
  exact this

theorem shift_step (k : NK) (op : BinOp) (hop : specOp k = some op) (hs : op.isShift = true) (ta tb : ITy)
    (va vb x : Int) (hx : binop op ta tb va vb = some x) (s : State)
    (ha : Represents (binopOperandType op ta tb) (s.get .rax) (convert (binopOperandType op ta tb) va))
    (hb : Represents tb (s.get .rdi) vb) :
    ∃ s', X86.run (opSeq k (binopOperandType op ta tb)) s = some s' ∧ Represents (binopType op ta tb) (s'.get .rax) x ∧
      Same s s' := by
  have ht : binopOperandType op ta tb = promote ta := by simp [binopOperandType, hs]
  have hrel : op.isRel = false := by cases op <;> simp [BinOp.isShift] at hs <;> rfl
  simp only [binop, hs, if_true] at hx
  have hres : binopType op ta tb = promote ta := by simp [binopType, hrel, ht]
  rw [ht] at hx ha ⊢
  rw [hres]
  rw [convert_promote_of_inRange tb vb hb.1] at hx
  exact shift_run k op hop hs _ (promote_mem ta) tb s _ _ x ha hb hx

/-! ### facts about `compileX` -/

theorem compileX_facts (tys : List ITy) (off toff : Nat → Int) (e : E) : ∀ (k0 : Nat) (t : ITy) (code : List Ins) (k1 : Nat),
    compileX tys off toff k0 e = some (t, code, k1) →
    straight e = true ∧ k0 ≤ k1 ∧ ∀ σ : Env, σ.tys = tys → typeOf σ e = some t := by
  induction e with
  | lit t0 v0 =>
    intro k0 t code k1 h
    simp only [compileX, Option.some.injEq, Prod.mk.injEq] at h
    exact ⟨rfl, by omega, fun σ _ => by simp [typeOf, h.1]⟩
  | var i =>
    intro k0 t code k1 h
    simp only [compileX, Option.map_eq_some_iff, Prod.mk.injEq] at h
    obtain ⟨t0, h0, h1, _, h3⟩ := h
    exact ⟨rfl, by omega, fun σ hσ => by simp [typeOf, Env.ty?, hσ, h0, h1]⟩
  | cast t0 e ih =>
    intro k0 t code k1 h
    simp only [compileX, Option.map_eq_some_iff, Prod.mk.injEq] at h
    obtain ⟨⟨te, c, k⟩, h0, h1, _, h3⟩ := h
    obtain ⟨s, hk, _⟩ := ih k0 te c k h0
    exact ⟨s, by simp only at h3; omega, fun σ _ => by simp [typeOf, h1]⟩
  | un op e ih =>
    intro k0 t code k1 h
    simp only [compileX, Option.map_eq_some_iff] at h
    obtain ⟨⟨te, c, k⟩, h0, h1⟩ := h
    obtain ⟨s, hk, hty⟩ := ih k0 te c k h0
    cases op <;> simp only [Prod.mk.injEq] at h1 <;>
      exact ⟨s, by omega, fun σ hσ => by simp [typeOf, hty σ hσ, unopType, h1.1]⟩
  | bin op a b iha ihb =>
    intro k0 t code k1 h
    simp only [compileX] at h
    cases ha : compileX tys off toff k0 a with
    | none => simp [ha] at h
    | some pa =>
      obtain ⟨ta, ca, ka⟩ := pa
      simp only [ha] at h
      cases hb : compileX tys off toff ka b with
      | none => simp [hb] at h
      | some pb =>
        obtain ⟨tb, cb, kb⟩ := pb
        simp only [hb, Option.some.injEq, Prod.mk.injEq] at h
        obtain ⟨sa, hka, htya⟩ := iha k0 ta ca ka ha
        obtain ⟨sb, hkb, htyb⟩ := ihb ka tb cb kb hb
        exact ⟨by simp [straight, sa, sb], by omega, fun σ hσ => by simp [typeOf, htya σ hσ, htyb σ hσ, h.1]⟩
  | comma a b iha ihb =>
    intro k0 t code k1 h
    simp only [compileX] at h
    cases ha : compileX tys off toff k0 a with
    | none => simp [ha] at h
    | some pa =>
      obtain ⟨ta, ca, ka⟩ := pa
      simp only [ha, Option.map_eq_some_iff, Prod.mk.injEq] at h
      obtain ⟨⟨tb, cb, kb⟩, hb, h1, _, h3⟩ := h
      obtain ⟨sa, hka, _⟩ := iha k0 ta ca ka ha
      obtain ⟨sb, hkb, htyb⟩ := ihb ka tb cb kb hb
      simp only at h1 h3
      exact ⟨by simp [straight, sa, sb], by omega, fun σ hσ => by simp [typeOf, htyb σ hσ, h1]⟩
  | assign i e ih =>
    intro k0 t code k1 h
    simp only [compileX] at h
    cases hti : tys[i]? with
    | none => simp [hti] at h
    | some ti =>
      cases he : compileX tys off toff k0 e with
      | none => simp [hti, he] at h
      | some pe =>
        obtain ⟨te, c, k⟩ := pe
        simp only [hti, he, Option.some.injEq, Prod.mk.injEq] at h
        obtain ⟨s, hk, _⟩ := ih k0 te c k he
        exact ⟨s, by omega, fun σ hσ => by simp [typeOf, Env.ty?, hσ, hti, h.1]⟩
  | opassign op i e ih =>
    intro k0 t code k1 h
    simp only [compileX] at h
    cases hti : tys[i]? with
    | none => simp [hti] at h
    | some ti =>
      cases he : compileX tys off toff k0 e with
      | none => simp [hti, he] at h
      | some pe =>
        obtain ⟨te, c, k⟩ := pe
        simp only [hti, he] at h
        split at h
        · simp only [Option.some.injEq, Prod.mk.injEq] at h
          obtain ⟨s, hk, _⟩ := ih k0 te c k he
          exact ⟨s, by omega, fun σ hσ => by simp [typeOf, Env.ty?, hσ, hti, h.1]⟩
        · simp at h
  | preinc i =>
    intro k0 t code k1 h
    simp only [compileX, Option.map_eq_some_iff, Prod.mk.injEq] at h
    obtain ⟨ti, hti, h1, _, h3⟩ := h
    exact ⟨rfl, by omega, fun σ hσ => by simp [typeOf, Env.ty?, hσ, hti, h1]⟩
  | predec i =>
    intro k0 t code k1 h
    simp only [compileX, Option.map_eq_some_iff, Prod.mk.injEq] at h
    obtain ⟨ti, hti, h1, _, h3⟩ := h
    exact ⟨rfl, by omega, fun σ hσ => by simp [typeOf, Env.ty?, hσ, hti, h1]⟩
  | postinc i =>
    intro k0 t code k1 h
    simp only [compileX] at h
    cases hti : tys[i]? with
    | none => simp [hti] at h
    | some ti =>
      simp only [hti] at h
      split at h
      · simp at h
      · simp only [Option.some.injEq, Prod.mk.injEq] at h
        exact ⟨rfl, by omega, fun σ hσ => by simp [typeOf, Env.ty?, hσ, hti, h.1]⟩
  | postdec i =>
    intro k0 t code k1 h
    simp only [compileX] at h
    cases hti : tys[i]? with
    | none => simp [hti] at h
    | some ti =>
      simp only [hti] at h
      split at h
      · simp at h
      · simp only [Option.some.injEq, Prod.mk.injEq] at h
        exact ⟨rfl, by omega, fun σ hσ => by simp [typeOf, Env.ty?, hσ, hti, h.1]⟩
  | land a b => intro k0 t code k1 h; simp [compileX] at h
  | lor a b => intro k0 t code k1 h; simp [compileX] at h
  | cond c a b => intro k0 t code k1 h; simp [compileX] at h

/-! ### postfix `++` / `--` -/

/-- `(T)((x += a) - a)` gives back `x` (`new_inc_dec`, non-`_Bool` operands): the facts the postfix case needs -/
theorem postfix_key (T : ITy) (hT : T ≠ .bool) (x addend r : Int) (hx : T.inRange x) (ha : addend = 1 ∨ addend = -1)
    (hr : compound .add T .i32 x addend = some r) :
    ∃ y, binop .add T .i32 r (-addend) = some y ∧ convert T y = x := by
  have h := incdec_value T hT x addend hx ha (x, r) (by simp [specPostfix, hr])
  simp only [postfixBySubtraction, hr] at h
  cases hb : binop .add T .i32 r (-addend) with
  | none => simp [hb] at h
  | some y =>
    simp only [hb, Option.some.injEq, Prod.mk.injEq] at h
    exact ⟨y, rfl, h.1⟩

/-- `x -= 1` and `x += -1` store the same value -/
theorem compound_sub_one (T : ITy) (x : Int) (hx : T.inRange x) :
    compound .sub T .i32 x 1 = compound .add T .i32 x (-1) := by
  cases T <;>
    simp [compound, binop, binopOperandType, BinOp.isShift, usualArith, promote, ITy.rank,
      ITy.signed, ITy.min, ITy.max, ITy.bits, arith, fit, ITy.inRange, convert, wrap,
      Int.bmod_def] at hx ⊢ <;>
    first
    | rfl
    | (simp only [Int.sub_eq_add_neg]; done)
    | ((repeat' split) <;> first | rfl | omega | (simp at *; omega))

theorem perm_mem {a b : List Nat} : ∀ i, i ∈ b ++ a → i ∈ a ++ b := by
  intro i hi; simp only [List.mem_append] at hi ⊢; exact hi.symm

section
variable {off toff : Nat → Int} {K : Nat}

/-- a binary node that is not a shift, right node `b` (evaluated first), left node `a` -/
theorem EvX.bin_arith {op : BinOp} {ta tb : ITy} {va vb x : Int} (hx : binop op ta tb va vb = some x) (k : NK)
    (hop : specOp k = some op) (hns : op.isShift = false)
    {cr cl : List Ins} {σ σr σl : Env} {Wr Wl : List Nat} {k0 k1 kr0 kr1 kl0 kl1 dr dl : Nat}
    (Er : EvX off toff K cr σ σr (fun r => Represents tb r vb) Wr kr0 kr1 dr)
    (El : EvX off toff K cl σr σl (fun r => Represents ta r va) Wl kl0 kl1 dl)
    (hk : k0 ≤ kr0 ∧ kr1 ≤ k1 ∧ k0 ≤ kl0 ∧ kl1 ≤ k1) (hK : k1 ≤ K) :
    EvX off toff K ((cr ++ castSeq tb (binopOperandType op ta tb)) ++ (iPush :: ((cl ++ castSeq ta (binopOperandType op ta tb)) ++
      (iPopRdi :: opSeq k (binopOperandType op ta tb))))) σ σl (fun r => Represents (binopType op ta tb) r x) (Wr ++ Wl)
      k0 k1 (max dr (dl + 1)) :=
  EvX.bin
    (Er.then_same (R2 := fun r => Represents (binopOperandType op ta tb) r (convert (binopOperandType op ta tb) vb))
      (fun s hs => cast_run tb _ s vb hs))
    (El.then_same (R2 := fun r => Represents (binopOperandType op ta tb) r (convert (binopOperandType op ta tb) va))
      (fun s hs => cast_run ta _ s va hs))
    (Rres := fun r => Represents (binopType op ta tb) r x)
    (fun s h1 h2 => arith_step k op hop hns ta tb va vb x hx s h1 h2) hk hK

/-- a shift: the right node is not converted -/
theorem EvX.bin_shift {op : BinOp} {ta tb : ITy} {va vb x : Int} (hx : binop op ta tb va vb = some x) (k : NK)
    (hop : specOp k = some op) (hs : op.isShift = true)
    {cr cl : List Ins} {σ σr σl : Env} {Wr Wl : List Nat} {k0 k1 kr0 kr1 kl0 kl1 dr dl : Nat}
    (Er : EvX off toff K cr σ σr (fun r => Represents tb r vb) Wr kr0 kr1 dr)
    (El : EvX off toff K cl σr σl (fun r => Represents ta r va) Wl kl0 kl1 dl)
    (hk : k0 ≤ kr0 ∧ kr1 ≤ k1 ∧ k0 ≤ kl0 ∧ kl1 ≤ k1) (hK : k1 ≤ K) :
    EvX off toff K (cr ++ (iPush :: ((cl ++ castSeq ta (binopOperandType op ta tb)) ++
      (iPopRdi :: opSeq k (binopOperandType op ta tb))))) σ σl (fun r => Represents (binopType op ta tb) r x) (Wr ++ Wl)
      k0 k1 (max dr (dl + 1)) :=
  EvX.bin Er
    (El.then_same (R2 := fun r => Represents (binopOperandType op ta tb) r (convert (binopOperandType op ta tb) va))
      (fun s hs => cast_run ta _ s va hs))
    (Rres := fun r => Represents (binopType op ta tb) r x)
    (fun s h1 h2 => shift_step k op hop hs ta tb va vb x hx s h1 h2) hk hK

end

theorem value_x (off toff : Nat → Int) (K : Nat) (e : E) :
    ∀ (σ : Env) (t : ITy) (code : List Ins) (v : Int) (σ' : Env) (k0 k1 : Nat),
      compileX σ.tys off toff k0 e = some (t, code, k1) → evalE σ e = some (v, σ') → noConflict e = true → k1 ≤ K →
      EvX off toff K code σ σ' (fun r => Represents t r v) (wr e) k0 k1 (depthX e) := by
  induction e with
  | lit t0 v0 =>
    intro σ t code v σ' k0 k1 hc hv _ _
    simp only [compileX, Option.some.injEq, Prod.mk.injEq] at hc
    obtain ⟨rfl, rfl, rfl⟩ := hc
    simp only [evalE] at hv
    split at hv
    · rename_i hr
      simp only [Option.some.injEq, Prod.mk.injEq] at hv
      obtain ⟨rfl, rfl⟩ := hv
      exact EvX.lit σ t0 v0 hr k0
    · simp at hv
  | var i =>
    intro σ t code v σ' k0 k1 hc hv _ _
    simp only [compileX, Option.map_eq_some_iff, Prod.mk.injEq] at hc
    obtain ⟨t0, h0, rfl, rfl, rfl⟩ := hc
    simp only [evalE, Env.val?, Option.map_eq_some_iff, Prod.mk.injEq] at hv
    obtain ⟨v0, hv0, rfl, rfl⟩ := hv
    exact EvX.var σ i t0 v0 h0 hv0 k0
  | cast t0 e ih =>
    intro σ t code v σ' k0 k1 hc hv hn hK
    simp only [compileX, Option.map_eq_some_iff, Prod.mk.injEq] at hc
    obtain ⟨⟨te, c, k⟩, h0, rfl, rfl, rfl⟩ := hc
    simp only [evalE, Option.bind_eq_bind, Option.bind_eq_some_iff] at hv
    obtain ⟨⟨v1, σ1⟩, he, hv⟩ := hv
    simp only [Option.some.injEq, Prod.mk.injEq] at hv
    obtain ⟨rfl, rfl⟩ := hv
    exact (ih σ te c v1 σ1 k0 k h0 he hn hK).then_same (fun s hs => cast_run te t0 s v1 hs)
  | un op e ih =>
    intro σ t code v σ' k0 k1 hc hv hn hK
    simp only [compileX, Option.map_eq_some_iff] at hc
    obtain ⟨⟨te, c, k⟩, h0, h1⟩ := hc
    have hty := (compileX_facts σ.tys off toff e k0 te c k h0).2.2 σ rfl
    simp only [evalE, hty, Option.bind_eq_bind, Option.bind_eq_some_iff, Option.some.injEq, exists_eq_left'] at hv
    obtain ⟨⟨v1, σ1⟩, he, x, hx, hv⟩ := hv
    simp only [Prod.mk.injEq] at hv
    obtain ⟨rfl, rfl⟩ := hv
    cases op with
    | plus =>
      simp only [Prod.mk.injEq] at h1
      obtain ⟨rfl, rfl, rfl⟩ := h1
      have E := ih σ te c v1 σ1 k0 k h0 he hn hK
      simp only [unop, Option.some.injEq] at hx
      subst hx
      exact E.then_same (fun s hs => cast_run te _ s v1 hs)
    | lognot =>
      simp only [Prod.mk.injEq] at h1
      obtain ⟨rfl, rfl, rfl⟩ := h1
      have E := ih σ te c v1 σ1 k0 k h0 he hn hK
      simp only [unop, Option.some.injEq] at hx
      subst hx
      exact E.then_same (fun s hs => lognot_run te s v1 hs)
    | neg =>
      simp only [Prod.mk.injEq] at h1
      obtain ⟨rfl, rfl, rfl⟩ := h1
      have E := ih σ te c v1 σ1 k0 k h0 he hn hK
      rw [unop_promote .neg (by decide)] at hx
      exact (E.then_same (R2 := fun r => Represents (promote te) r (convert (promote te) v1))
        (fun s hs => cast_run te _ s v1 hs)).then_same (fun s hs => neg_run _ (promote_mem te) s _ x hs hx)
    | bitnot =>
      simp only [Prod.mk.injEq] at h1
      obtain ⟨rfl, rfl, rfl⟩ := h1
      have E := ih σ te c v1 σ1 k0 k h0 he hn hK
      rw [unop_promote .bitnot (by decide)] at hx
      exact (E.then_same (R2 := fun r => Represents (promote te) r (convert (promote te) v1))
        (fun s hs => cast_run te _ s v1 hs)).then_same (fun s hs => bitnot_run _ (promote_mem te) s _ x hs hx)
  | comma a b iha ihb =>
    intro σ t code v σ' k0 k1 hc hv hn hK
    simp only [noConflict, Bool.and_eq_true] at hn
    simp only [compileX] at hc
    cases ha : compileX σ.tys off toff k0 a with
    | none => simp [ha] at hc
    | some pa =>
      obtain ⟨ta, ca, ka⟩ := pa
      simp only [ha, Option.map_eq_some_iff, Prod.mk.injEq] at hc
      obtain ⟨⟨tb, cb, kb⟩, hb, rfl, rfl, rfl⟩ := hc
      simp only [evalE, Option.bind_eq_bind, Option.bind_eq_some_iff] at hv
      obtain ⟨⟨va, σ1⟩, hea, heb⟩ := hv
      simp only at heb
      simp only at hK
      have fa := compileX_facts σ.tys off toff a k0 ta ca ka ha
      have fb := compileX_facts σ.tys off toff b ka tb cb kb hb
      have f1 := evalE_frm a σ va σ1 fa.1 hea
      have Ea := iha σ ta ca va σ1 k0 ka ha hea hn.1 (by omega)
      have Eb := ihb σ1 tb cb v σ' ka kb (by rw [f1.tys]; exact hb) heb hn.2 hK
      have := EvX.seq (k0 := k0) (k1 := kb) Ea Eb ⟨Nat.le_refl _, fb.2.1, fa.2.1, Nat.le_refl _⟩
      simpa [depthX, wr] using this
  | assign i e ih =>
    intro σ t code v σ' k0 k1 hc hv hn hK
    simp only [noConflict] at hn
    simp only [compileX] at hc
    cases hti : σ.tys[i]? with
    | none => simp [hti] at hc
    | some ti =>
      cases he : compileX σ.tys off toff k0 e with
      | none => simp [hti, he] at hc
      | some pe =>
        obtain ⟨te, c, k⟩ := pe
        simp only [hti, he, Option.some.injEq, Prod.mk.injEq] at hc
        obtain ⟨rfl, rfl, rfl⟩ := hc
        simp only [evalE, Env.ty?, hti, Option.bind_eq_bind, Option.bind_eq_some_iff, Option.some.injEq, exists_eq_left'] at hv
        obtain ⟨⟨v1, σ1⟩, hev, hv⟩ := hv
        simp only [Option.some.injEq, Prod.mk.injEq] at hv
        obtain ⟨rfl, rfl⟩ := hv
        have E := (ih σ te c v1 σ1 k0 k he hev hn hK).then_same (R2 := fun r => Represents ti r (convert ti v1))
          (fun s hs => cast_run te ti s v1 hs)
        have := EvX.assign hti E hK
        simpa [depthX, wr, List.append_assoc] using this
  | bin op a b iha ihb =>
    intro σ t code v σ' k0 k1 hc hv hn hK
    simp only [noConflict, Bool.and_eq_true] at hn
    obtain ⟨⟨⟨hd1, hd2⟩, hna⟩, hnb⟩ := hn
    simp only [compileX] at hc
    cases ha : compileX σ.tys off toff k0 a with
    | none => simp [ha] at hc
    | some pa =>
      obtain ⟨ta, ca, ka⟩ := pa
      simp only [ha] at hc
      cases hb : compileX σ.tys off toff ka b with
      | none => simp [hb] at hc
      | some pb =>
        obtain ⟨tb, cb, kb⟩ := pb
        simp only [hb, Option.some.injEq, Prod.mk.injEq] at hc
        have fa := compileX_facts σ.tys off toff a k0 ta ca ka ha
        have fb := compileX_facts σ.tys off toff b ka tb cb kb hb
        simp only [evalE, fa.2.2 σ rfl, fb.2.2 σ rfl, Option.bind_eq_bind, Option.bind_eq_some_iff, Option.some.injEq,
          exists_eq_left'] at hv
        obtain ⟨⟨va, σ1⟩, hea, ⟨vb, σ2⟩, heb, x, hx, hv⟩ := hv
        simp only [Prod.mk.injEq] at hv heb hx
        obtain ⟨rfl, rfl⟩ := hv
        obtain ⟨rfl, rfl, rfl⟩ := hc
        have f1 := evalE_frm a σ va σ1 fa.1 hea
        -- machine order = evalE order (a first): used by `>` `>=`
        have EaF := iha σ ta ca va σ1 k0 ka ha hea hna (by omega)
        have EbF := ihb σ1 tb cb vb σ2 ka kb (by rw [f1.tys]; exact hb) heb hnb hK
        -- machine order b first
        obtain ⟨σb, heb', hea'⟩ := swap_eval a b fa.1 fb.1 σ σ1 σ2 va vb hd1 hd2 hea heb
        have fbf := evalE_frm b σ vb σb fb.1 heb'
        have EbS := ihb σ tb cb vb σb ka kb hb heb' hnb hK
        have EaS := iha σb ta ca va σ2 k0 ka (by rw [fbf.tys]; exact ha) hea' hna (by omega)
        have hkS : k0 ≤ ka ∧ kb ≤ kb ∧ k0 ≤ k0 ∧ ka ≤ kb := ⟨fa.2.1, Nat.le_refl _, Nat.le_refl _, fb.2.1⟩
        have hkF : k0 ≤ k0 ∧ ka ≤ kb ∧ k0 ≤ ka ∧ kb ≤ kb := ⟨Nat.le_refl _, fb.2.1, fa.2.1, Nat.le_refl _⟩
        cases op
        case gt =>
          have hx' : binop .lt tb ta vb va = some x := by
            simpa [binop, binopOperandType, BinOp.isShift, usualArith_comm tb ta, arith] using hx
          have := EvX.bin_arith hx' .ND_LT rfl rfl EaF EbF hkF hK
          simpa [nodeOf, BinOp.isShift, binopOperandType, binopType, BinOp.isRel, depthX, wr, List.append_assoc] using this
        case ge =>
          have hx' : binop .le tb ta vb va = some x := by
            simpa [binop, binopOperandType, BinOp.isShift, usualArith_comm tb ta, arith] using hx
          have := EvX.bin_arith hx' .ND_LE rfl rfl EaF EbF hkF hK
          simpa [nodeOf, BinOp.isShift, binopOperandType, binopType, BinOp.isRel, depthX, wr, List.append_assoc] using this
        case shl =>
          have := (EvX.bin_shift hx .ND_SHL rfl rfl EbS EaS hkS hK).weaken
              perm_mem (Nat.le_refl _) (Nat.le_refl _) (Nat.le_refl _)
          simpa [nodeOf, BinOp.isShift, depthX, wr, List.append_assoc] using this
        case shr =>
          have := (EvX.bin_shift hx .ND_SHR rfl rfl EbS EaS hkS hK).weaken
              perm_mem (Nat.le_refl _) (Nat.le_refl _) (Nat.le_refl _)
          simpa [nodeOf, BinOp.isShift, depthX, wr, List.append_assoc] using this
        all_goals
          have := (EvX.bin_arith hx _ (specOp_nodeOf _ rfl) rfl EbS EaS hkS hK).weaken
              perm_mem (Nat.le_refl _) (Nat.le_refl _) (Nat.le_refl _)
          simpa [nodeOf, BinOp.isShift, depthX, wr, List.append_assoc] using this
  | opassign op i e ih =>
    intro σ t code v σ' k0 k1 hc hv hn hK
    simp only [noConflict] at hn
    simp only [compileX] at hc
    cases hti : σ.tys[i]? with
    | none => simp [hti] at hc
    | some ti =>
      cases he : compileX σ.tys off toff k0 e with
      | none => simp [hti, he] at hc
      | some pe =>
        obtain ⟨te, c, k⟩ := pe
        simp only [hti, he] at hc
        split at hc
        · rename_i hcomp
          simp only [Option.some.injEq, Prod.mk.injEq] at hc
          obtain ⟨rfl, rfl, rfl⟩ := hc
          have fe := compileX_facts σ.tys off toff e k0 te c k he
          simp only [evalE, Env.ty?, Env.val?, hti, fe.2.2 σ rfl, Option.bind_eq_bind, Option.bind_eq_some_iff,
            Option.some.injEq, exists_eq_left'] at hv
          obtain ⟨⟨vb, σ1⟩, hev, x, hx, r, hr, hv⟩ := hv
          simp only [Prod.mk.injEq] at hv hx hr
          obtain ⟨rfl, rfl⟩ := hv
          simp only [compound, Option.map_eq_some_iff] at hr
          obtain ⟨y, hy, rfl⟩ := hr
          have E := ih σ te c vb σ1 k0 k he hev hn (by omega)
          rw [opAssignCode_eq]
          have hrel : op.isRel = false := by simpa [compoundable] using hcomp
          have hsw : (nodeOf op).2 = false := by cases op <;> simp [BinOp.isRel] at hrel <;> rfl
          by_cases hs : op.isShift = true
          · simp only [hs, if_true]
            have := EvX.opassign (castB := []) (Rr := fun r => Represents te r vb) (t := binopOperandType op ti te)
              (tres := binopType op ti te) (y := y) (nk := (nodeOf op).1) hti E (fun s h => ⟨s, rfl, h, Same.refl s⟩) hx
              (fun s h1 h2 => shift_step _ op (specOp_nodeOf op hsw) hs ti te x vb y hy s h1 h2) fe.2.1 (by omega)
            simpa [depthX, wr] using this
          · have hs' : op.isShift = false := by simpa using hs
            simp only [hs', Bool.false_eq_true, if_false]
            have := EvX.opassign (castB := castSeq te (binopOperandType op ti te))
              (Rr := fun r => Represents (binopOperandType op ti te) r (convert (binopOperandType op ti te) vb))
              (t := binopOperandType op ti te) (tres := binopType op ti te) (y := y) (nk := (nodeOf op).1) hti E
              (fun s h => cast_run te _ s vb h) hx
              (fun s h1 h2 => arith_step _ op (specOp_nodeOf op hsw) hs' ti te x vb y hy s h1 h2) fe.2.1 (by omega)
            simpa [depthX, wr] using this
        · simp at hc
  | preinc i =>
    intro σ t code v σ' k0 k1 hc hv _ hK
    simp only [compileX, Option.map_eq_some_iff, Prod.mk.injEq] at hc
    obtain ⟨ti, hti, rfl, rfl, rfl⟩ := hc
    simp only [evalE, Env.ty?, Env.val?, hti, Option.bind_eq_bind, Option.bind_eq_some_iff, Option.some.injEq,
      exists_eq_left'] at hv
    obtain ⟨x, hx, r, hr, hv⟩ := hv
    simp only [Prod.mk.injEq] at hv
    obtain ⟨rfl, rfl⟩ := hv
    simp only [compound, Option.map_eq_some_iff] at hr
    obtain ⟨y, hy, rfl⟩ := hr
    have E := EvX.lit (off := off) (toff := toff) (K := K) σ .i32 1 (by decide) k0
    rw [opAssignCode_eq]
    have := EvX.opassign (castB := castSeq .i32 (binopOperandType .add ti .i32))
      (Rr := fun r => Represents (binopOperandType .add ti .i32) r (convert (binopOperandType .add ti .i32) 1))
      (t := binopOperandType .add ti .i32) (tres := binopType .add ti .i32) (y := y) (nk := .ND_ADD) hti E
      (fun s h => cast_run .i32 _ s 1 h) hx
      (fun s h1 h2 => arith_step .ND_ADD .add rfl rfl ti .i32 x 1 y hy s h1 h2) (Nat.le_refl _) (by omega)
    simpa [depthX, wr, BinOp.isShift] using this
  | predec i =>
    intro σ t code v σ' k0 k1 hc hv _ hK
    simp only [compileX, Option.map_eq_some_iff, Prod.mk.injEq] at hc
    obtain ⟨ti, hti, rfl, rfl, rfl⟩ := hc
    simp only [evalE, Env.ty?, Env.val?, hti, Option.bind_eq_bind, Option.bind_eq_some_iff, Option.some.injEq,
      exists_eq_left'] at hv
    obtain ⟨x, hx, r, hr, hv⟩ := hv
    simp only [Prod.mk.injEq] at hv
    obtain ⟨rfl, rfl⟩ := hv
    simp only [compound, Option.map_eq_some_iff] at hr
    obtain ⟨y, hy, rfl⟩ := hr
    have E := EvX.lit (off := off) (toff := toff) (K := K) σ .i32 1 (by decide) k0
    rw [opAssignCode_eq]
    have := EvX.opassign (castB := castSeq .i32 (binopOperandType .sub ti .i32))
      (Rr := fun r => Represents (binopOperandType .sub ti .i32) r (convert (binopOperandType .sub ti .i32) 1))
      (t := binopOperandType .sub ti .i32) (tres := binopType .sub ti .i32) (y := y) (nk := .ND_SUB) hti E
      (fun s h => cast_run .i32 _ s 1 h) hx
      (fun s h1 h2 => arith_step .ND_SUB .sub rfl rfl ti .i32 x 1 y hy s h1 h2) (Nat.le_refl _) (by omega)
    simpa [depthX, wr, BinOp.isShift] using this
  | postinc i =>
    intro σ t code v σ' k0 k1 hc hv _ hK
    simp only [compileX] at hc
    cases hti : σ.tys[i]? with
    | none => simp [hti] at hc
    | some ti =>
      simp only [hti] at hc
      split at hc
      · simp at hc
      · rename_i hnb
        simp only [Option.some.injEq, Prod.mk.injEq] at hc
        obtain ⟨rfl, rfl, rfl⟩ := hc
        simp only [evalE, Env.ty?, Env.val?, hti, Option.bind_eq_bind, Option.bind_eq_some_iff, Option.some.injEq,
          exists_eq_left'] at hv
        obtain ⟨x, hx, r, hr, hv⟩ := hv
        simp only [Prod.mk.injEq] at hv
        obtain ⟨rfl, rfl⟩ := hv
        refine ⟨rfl, ?_⟩
        intro m n B l hd hsp hB hH
        have hrx : ti.inRange x := (hH i ti x hti hx).1
        obtain ⟨y, hy, hcv⟩ := postfix_key ti hnb x 1 r hrx (Or.inl rfl) hr
        simp only [compound, Option.map_eq_some_iff] at hr
        obtain ⟨y0, hy0, rfl⟩ := hr
        have E1 := EvX.opassign (off := off) (toff := toff) (K := K) (castB := castSeq .i32 (binopOperandType .add ti .i32))
          (Rr := fun r => Represents (binopOperandType .add ti .i32) r (convert (binopOperandType .add ti .i32) 1))
          (t := binopOperandType .add ti .i32) (tres := binopType .add ti .i32) (y := y0) (nk := .ND_ADD) hti
          (EvX.lit σ .i32 1 (by decide) k0) (fun s h => cast_run .i32 _ s 1 h) hx
          (fun s h1 h2 => arith_step .ND_ADD .add rfl rfl ti .i32 x 1 y0 hy0 s h1 h2) (Nat.le_refl _) (by omega)
        have E0 := EvX.lit (off := off) (toff := toff) (K := K) σ .i32 (-1) (by decide) k0
        have E3 := ((EvX.bin_arith (k0 := k0) (k1 := k0 + 1) hy .ND_ADD rfl rfl E0 E1 (by omega) hK).then_same
          (R2 := fun r => Represents ti r (convert ti y)) (fun s h => cast_run _ ti s y h)).weaken (W' := [i])
            (by simp) (Nat.le_refl _) (Nat.le_refl _) (d' := 3) (by simp)
        rw [hcv] at E3
        have := E3.2 m n B l (by simpa [depthX] using hd) hsp hB hH
        simpa [depthX, wr, List.append_assoc, opAssignCode_eq, BinOp.isShift, binopType, BinOp.isRel] using this
  | postdec i =>
    intro σ t code v σ' k0 k1 hc hv _ hK
    simp only [compileX] at hc
    cases hti : σ.tys[i]? with
    | none => simp [hti] at hc
    | some ti =>
      simp only [hti] at hc
      split at hc
      · simp at hc
      · rename_i hnb
        simp only [Option.some.injEq, Prod.mk.injEq] at hc
        obtain ⟨rfl, rfl, rfl⟩ := hc
        simp only [evalE, Env.ty?, Env.val?, hti, Option.bind_eq_bind, Option.bind_eq_some_iff, Option.some.injEq,
          exists_eq_left'] at hv
        obtain ⟨x, hx, r, hr, hv⟩ := hv
        simp only [Prod.mk.injEq] at hv
        obtain ⟨rfl, rfl⟩ := hv
        refine ⟨rfl, ?_⟩
        intro m n B l hd hsp hB hH
        have hrx : ti.inRange x := (hH i ti x hti hx).1
        rw [compound_sub_one ti x hrx] at hr
        obtain ⟨y, hy, hcv⟩ := postfix_key ti hnb x (-1) r hrx (Or.inr rfl) hr
        simp only [Int.neg_neg] at hy
        simp only [compound, Option.map_eq_some_iff] at hr
        obtain ⟨y0, hy0, rfl⟩ := hr
        have E1 := EvX.opassign (off := off) (toff := toff) (K := K) (castB := castSeq .i32 (binopOperandType .add ti .i32))
          (Rr := fun r => Represents (binopOperandType .add ti .i32) r (convert (binopOperandType .add ti .i32) (-1)))
          (t := binopOperandType .add ti .i32) (tres := binopType .add ti .i32) (y := y0) (nk := .ND_ADD) hti
          (EvX.lit σ .i32 (-1) (by decide) k0) (fun s h => cast_run .i32 _ s (-1) h) hx
          (fun s h1 h2 => arith_step .ND_ADD .add rfl rfl ti .i32 x (-1) y0 hy0 s h1 h2) (Nat.le_refl _) (by omega)
        have E0 := EvX.lit (off := off) (toff := toff) (K := K) σ .i32 1 (by decide) k0
        have E3 := ((EvX.bin_arith (k0 := k0) (k1 := k0 + 1) hy .ND_ADD rfl rfl E0 E1 (by omega) hK).then_same
          (R2 := fun r => Represents ti r (convert ti y)) (fun s h => cast_run _ ti s y h)).weaken (W' := [i])
            (by simp) (Nat.le_refl _) (Nat.le_refl _) (d' := 3) (by simp)
        rw [hcv] at E3
        have := E3.2 m n B l (by simpa [depthX] using hd) hsp hB hH
        simpa [depthX, wr, List.append_assoc, opAssignCode_eq, BinOp.isShift, binopType, BinOp.isRel] using this
  | land a b => intro σ t code v σ' k0 k1 hc; simp [compileX] at hc
  | lor a b => intro σ t code v σ' k0 k1 hc; simp [compileX] at hc
  | cond c a b => intro σ t code v σ' k0 k1 hc; simp [compileX] at hc

/-! ### statement-level packaging -/

/-- the frame for expressions with side effects: `n` free stack slots below `%rsp`, all variables and the `K` hidden
    temporaries at or above `%rsp`, pairwise disjoint (`Lay`), and the variables hold the store -/
def FrameX (σ : Env) (off toff : Nat → Int) (K n : Nat) (m : State) : Prop :=
  8 * n ≤ (m.get .rsp).toNat ∧ Lay σ.tys off toff K (m.get .rsp).toNat (m.get .rbp) ∧ Holds off σ m

/-- on side-effect-free expressions `compileX` is `compileE` (no temporaries) -/
theorem compileX_pure (tys : List ITy) (off toff : Nat → Int) (e : E) : ∀ (t : ITy) (code : List Ins) (k : Nat),
    compileE tys off e = some (t, code) → compileX tys off toff k e = some (t, code, k) := by
  induction e with
  | lit t0 v0 => intro t code k h; simp only [compileE, Option.some.injEq, Prod.mk.injEq] at h; simp [compileX, iMovImm, h.1, ← h.2]
  | var i =>
    intro t code k h
    simp only [compileE, Option.map_eq_some_iff, Prod.mk.injEq] at h
    obtain ⟨t0, h0, rfl, rfl⟩ := h
    simp [compileX, iLea, h0]
  | cast t0 e ih =>
    intro t code k h
    simp only [compileE, Option.map_eq_some_iff, Prod.mk.injEq] at h
    obtain ⟨⟨te, c⟩, h0, rfl, rfl⟩ := h
    simp [compileX, ih te c k h0]
  | un op e ih =>
    intro t code k h
    simp only [compileE, Option.map_eq_some_iff] at h
    obtain ⟨⟨te, c⟩, h0, h1⟩ := h
    cases op <;> simp only [Prod.mk.injEq] at h1 <;> obtain ⟨rfl, rfl⟩ := h1 <;> simp [compileX, ih te c k h0]
  | bin op a b iha ihb =>
    intro t code k h
    simp only [compileE] at h
    cases ha : compileE tys off a with
    | none => simp [ha] at h
    | some pa =>
      cases hb : compileE tys off b with
      | none => simp [ha, hb] at h
      | some pb =>
        obtain ⟨ta, ca⟩ := pa
        obtain ⟨tb, cb⟩ := pb
        simp only [ha, hb, Option.some.injEq, Prod.mk.injEq] at h
        obtain ⟨rfl, rfl⟩ := h
        simp [compileX, iha ta ca k ha, ihb tb cb k hb, iPush, iPopRdi]
  | land a b => intro t code k h; simp [compileE] at h
  | lor a b => intro t code k h; simp [compileE] at h
  | cond c a b => intro t code k h; simp [compileE] at h
  | comma a b => intro t code k h; simp [compileE] at h
  | assign i e => intro t code k h; simp [compileE] at h
  | opassign op i e => intro t code k h; simp [compileE] at h
  | preinc i => intro t code k h; simp [compileE] at h
  | predec i => intro t code k h; simp [compileE] at h
  | postinc i => intro t code k h; simp [compileE] at h
  | postdec i => intro t code k h; simp [compileE] at h

/-! ### the layout hypothesis, from offsets -/

theorem addrOf_toNat (bp : BitVec 64) (d N : Int) (h1 : -N ≤ d) (h2 : d ≤ 0) (hN : N ≤ bp.toNat) :
    ((addrOf bp d).toNat : Int) = bp.toNat + d := by
  have := bp.isLt
  simp only [addrOf, BitVec.toNat_add, BitVec.toNat_ofInt]
  omega

theorem szOf_eq {tys : List ITy} {i : Nat} {t : ITy} (h : tys[i]? = some t) : szOf tys i = t.size := by
  simp [szOf, h]

theorem lt_of_getElem? {tys : List ITy} {i : Nat} {t : ITy} (h : tys[i]? = some t) : i < tys.length := by
  by_cases hl : i < tys.length
  · exact hl
  · simp [List.getElem?_eq_none (Nat.le_of_not_lt hl)] at h

/-- **a frame whose offsets pass `layoutOK` satisfies the layout hypothesis of `C01_value_effects`** whenever
    `%rbp = %rsp + N` (what the prologue `push %rbp; mov %rsp, %rbp; sub $N, %rsp` establishes) -/
theorem lay_of_layoutOK (tys : List ITy) (off toff : Nat → Int) (K : Nat) (N : Int) (h : layoutOK tys off toff K N = true)
    (bp : BitVec 64) (sp : Nat) (hbp : (bp.toNat : Int) = sp + N) (hhi : bp.toNat + 8 ≤ 2 ^ 64) :
    Lay tys off toff K sp bp := by
  simp only [layoutOK, Bool.and_eq_true, List.all_eq_true, List.mem_range, Bool.or_eq_true, beq_iff_eq, inFrame, disjI,
    decide_eq_true_eq] at h
  obtain ⟨⟨⟨⟨hv, ht⟩, hvv⟩, hvt⟩, htt⟩ := h
  have av : ∀ i t, tys[i]? = some t → ((addrOf bp (off i)).toNat : Int) = bp.toNat + off i ∧ -N ≤ off i ∧ off i + t.size ≤ 0 := by
    intro i t hi
    have := hv i (lt_of_getElem? hi)
    rw [szOf_eq hi] at this
    exact ⟨addrOf_toNat bp _ N this.1 (by omega) (by omega), this.1, this.2⟩
  have at' : ∀ k, k < K → ((addrOf bp (toff k)).toNat : Int) = bp.toNat + toff k ∧ -N ≤ toff k ∧ toff k + 8 ≤ 0 := by
    intro k hk
    have := ht k hk
    exact ⟨addrOf_toNat bp _ N this.1 (by omega) (by omega), this.1, by simpa using this.2⟩
  refine ⟨?_, ?_, ?_, ?_, ?_⟩
  · intro i t hi
    obtain ⟨e, h1, h2⟩ := av i t hi
    have := size_pos t
    omega
  · intro k hk
    obtain ⟨e, h1, h2⟩ := at' k hk
    omega
  · intro i j ti tj hij hi hj
    obtain ⟨ei, _, _⟩ := av i ti hi
    obtain ⟨ej, _, _⟩ := av j tj hj
    have := hvv i (lt_of_getElem? hi) j (lt_of_getElem? hj)
    rw [szOf_eq hi, szOf_eq hj] at this
    unfold sep
    rcases this with h | h | h
    · exact absurd h hij
    · left; omega
    · right; omega
  · intro i ti k hi hk
    obtain ⟨ei, _, _⟩ := av i ti hi
    obtain ⟨ek, _, _⟩ := at' k hk
    have := hvt i (lt_of_getElem? hi) k hk
    rw [szOf_eq hi] at this
    unfold sep
    rcases this with h | h
    · left; omega
    · right; omega
  · intro k l hk hl hkl
    obtain ⟨ek, _, _⟩ := at' k hk
    obtain ⟨el, _, _⟩ := at' l hl
    have := htt k hk l hl
    unfold sep
    rcases this with h | h | h
    · exact absurd h hkl
    · left; omega
    · right; omega

/-! ### a concrete instance (non-vacuity of `C01_value_effects`): `(v1 += v0, v0++ + v1)`, `signed char v0 = -3`, `unsigned v1 = 7` -/

def exXE : E := .comma (.opassign .add 1 (.var 0)) (.bin .add (.postinc 0) (.var 1))
def exXOff : Nat → Int := fun i => if i = 0 then -1 else -8
def exXToff : Nat → Int := fun k => -16 - 8 * (k : Int)
/-- `%rsp` = 0x1000, `%rbp` = 0x2000, `v0` (0xfd) at -1(%rbp), `v1` (7,0,0,0) at -8(%rbp), temporaries at -16, -24(%rbp) -/
def exXState : State :=
  { regs := fun r => match r with | .rsp => 0x1000#64 | .rbp => 0x2000#64 | _ => 0xdeadbeef#64,
    mem := fun a => if a = 0x1fff#64 then 0xfd#8 else if a = 0x1ff8#64 then 7#8 else 0#8 }

theorem exXFrame : FrameX exEnv exXOff exXToff 2 (depthX exXE) exXState := by
  refine ⟨by decide, ⟨?_, ?_, ?_, ?_, ?_⟩, ?_⟩
  · intro i t ht
    match i with
    | 0 => decide
    | 1 => decide
    | k + 2 => simp [exEnv] at ht
  · intro k hk
    match k with
    | 0 => decide
    | 1 => decide
    | k + 2 => omega
  · intro i j ti tj hij hi hj
    match i, j with
    | 0, 0 => exact absurd rfl hij
    | 1, 1 => exact absurd rfl hij
    | 0, 1 => simp [exEnv] at hi hj; subst hi; subst hj; unfold sep; decide
    | 1, 0 => simp [exEnv] at hi hj; subst hi; subst hj; unfold sep; decide
    | k + 2, _ => simp [exEnv] at hi
    | 0, k + 2 => simp [exEnv] at hj
    | 1, k + 2 => simp [exEnv] at hj
  · intro i ti k hi hk
    match i, k with
    | 0, 0 => simp [exEnv] at hi; subst hi; unfold sep; decide
    | 0, 1 => simp [exEnv] at hi; subst hi; unfold sep; decide
    | 1, 0 => simp [exEnv] at hi; subst hi; unfold sep; decide
    | 1, 1 => simp [exEnv] at hi; subst hi; unfold sep; decide
    | j + 2, _ => simp [exEnv] at hi
    | 0, j + 2 => omega
    | 1, j + 2 => omega
  · intro k l hk hl hkl
    match k, l with
    | 0, 0 => exact absurd rfl hkl
    | 1, 1 => exact absurd rfl hkl
    | 0, 1 => unfold sep; decide
    | 1, 0 => unfold sep; decide
    | j + 2, _ => omega
    | 0, j + 2 => omega
    | 1, j + 2 => omega
  · intro i t v ht hv
    match i with
    | 0 =>
      simp [exEnv] at ht hv; subst ht; subst hv
      exact ⟨by decide, by decide⟩
    | 1 =>
      simp [exEnv] at ht hv; subst ht; subst hv
      exact ⟨by decide, by decide⟩
    | k + 2 => simp [exEnv] at ht

end ChibiVerif.C01
