/-
C14, two drivers on one file system: frame and locality of a driver step, and the non-interference
induction over interleavings.
-/
import ChibiVerif.Model.DriverProc
import ChibiVerif.Lemmas.DriverProcLemmas

set_option linter.unusedSimpArgs false
set_option linter.unusedVariables false
set_option linter.unusedSectionVars false

namespace ChibiVerif.DriverProc

variable {P : Type} [DecidableEq P]

def Ref.paths : Ref P → List P
  | .path p => [p]
  | .tmp _ => []

/-- command-line paths the remaining actions may write -/
def actOuts : List (Act P) → List P
  | [] => []
  | .run _ _ (some r) :: t => r.paths ++ actOuts t
  | .link o :: t => o :: actOuts t
  | _ :: t => actOuts t

/-- command-line paths the remaining actions may read -/
def actIns : List (Act P) → List P
  | [] => []
  | .run _ i _ :: t => i.paths ++ actIns t
  | .pushLd r :: t => r.paths ++ actIns t
  | _ :: t => actIns t

/-- everything the driver in state `s` may still write lies in `W`, everything it may read in `F ⊇ W` -/
structure Inside (env : Env P) (W F : P → Prop) (s : DState P) : Prop where
  tmp : ∀ p ∈ s.tmpfiles, W p
  fresh : ∀ k p, env.fresh k = some p → W p
  outs : ∀ p ∈ actOuts s.acts, W p
  ins : ∀ p ∈ actIns s.acts, F p
  ld : ∀ p ∈ s.ldArgs, F p
  ph : match s.phase with
       | .waiting _ inp out => (∀ p ∈ inp, F p) ∧ (∀ o, out = some o → W o)
       | .exiting _ todo => ∀ p ∈ todo, W p
       | _ => True
  sub : ∀ p, W p → F p

omit [DecidableEq P] in
theorem resolve_mem {tf : List P} {r : Ref P} {p : P} (h : resolve tf r = some p) :
    p ∈ r.paths ∨ p ∈ tf := by
  cases r with
  | path q => simp [resolve] at h; subst h; left; simp [Ref.paths]
  | tmp i =>
    right
    simp only [resolve] at h
    exact List.mem_of_getElem? h

/-- the driver's own state never depends on file contents -/
theorem step_state_indep (env : Env P) (s : DState P) (fs gs : FS P) :
    (step env s fs).1 = (step env s gs).1 := by
  unfold step
  cases hp : s.phase with
  | done c => rfl
  | stuck => rfl
  | exiting c todo => cases todo <;> rfl
  | waiting prog inp out =>
    simp only [stepWait]
    split <;> rfl
  | run =>
    simp only [stepRun]
    cases ha : s.acts with
    | nil => rfl
    | cons a r =>
      cases a with
      | mktemp => simp only; cases env.fresh s.nTemp <;> rfl
      | run prog inp out =>
        simp only
        cases resolve s.tmpfiles inp <;> cases resolveOut s.tmpfiles out <;> rfl
      | pushLd ref => simp only; cases resolve s.tmpfiles ref <;> rfl
      | link o => simp only; split <;> rfl
      | fail why => rfl

theorem childEffect_frame (mode : Mode) (prog : Prog) (oc : Outcome) (fs : FS P) (inp : List P)
    (out : Option P) (p : P) (h : ∀ o, out = some o → p ≠ o) :
    (childEffect mode prog oc fs inp out).get p = fs.get p := by
  cases out with
  | none => rfl
  | some o =>
    have hpo := h o rfl
    simp only [childEffect]
    split
    · exact FS.get_set_ne fs _ hpo
    · split
      · rfl
      · split
        · rfl
        · exact FS.get_set_ne fs _ hpo
        · exact FS.get_erase_ne fs hpo
        · rfl

theorem childOut_congr (mode : Mode) (prog : Prog) (fs gs : FS P) (inp : List P)
    (h : ∀ p ∈ inp, fs.get p = gs.get p) : childOut mode prog fs inp = childOut mode prog gs inp := by
  have : inp.flatMap (fun p => fs.origins p) = inp.flatMap (fun p => gs.origins p) := by
    induction inp with
    | nil => rfl
    | cons a r ih =>
      simp only [List.flatMap_cons]
      rw [FS.origins_congr (h a (by simp)), ih (fun p hp => h p (by simp [hp]))]
  simp only [childOut, this]

theorem childEffect_congr (mode : Mode) (prog : Prog) (oc : Outcome) (fs gs : FS P) (inp : List P)
    (out : Option P) (p : P) (hin : ∀ q ∈ inp, fs.get q = gs.get q) (hp : fs.get p = gs.get p) :
    (childEffect mode prog oc fs inp out).get p = (childEffect mode prog oc gs inp out).get p := by
  cases out with
  | none => exact hp
  | some o =>
    simp only [childEffect]
    split
    · rw [FS.get_set, FS.get_set, childOut_congr mode prog fs gs inp hin, hp]
    · split
      · exact hp
      · split
        · exact hp
        · rw [FS.get_set, FS.get_set, hp]
        · rw [FS.get_erase, FS.get_erase, hp]
        · exact hp

/-- frame: a step changes nothing outside the write set -/
theorem step_frame (env : Env P) (W F : P → Prop) (s : DState P) (fs : FS P) (hin : Inside env W F s)
    (p : P) (hp : ¬ W p) : (step env s fs).2.get p = fs.get p := by
  unfold step
  cases hph : s.phase with
  | done c => rfl
  | stuck => rfl
  | exiting c todo =>
    cases todo with
    | nil => rfl
    | cons t ts =>
      have := hin.ph
      simp only [hph] at this
      have hne : p ≠ t := fun e => hp (e ▸ this t (by simp))
      exact FS.get_erase_ne fs hne
  | waiting prog inp out =>
    have := hin.ph
    simp only [hph] at this
    simp only [stepWait]
    have key := childEffect_frame env.mode prog (env.sched prog (s.count prog)) fs inp out p
      (fun o ho e => hp (e ▸ this.2 o ho))
    split <;> exact key
  | run =>
    simp only [stepRun]
    cases ha : s.acts with
    | nil => rfl
    | cons a r =>
      cases a with
      | mktemp =>
        simp only
        cases hf : env.fresh s.nTemp with
        | none => rfl
        | some t =>
          have hne : p ≠ t := fun e => hp (e ▸ hin.fresh _ _ hf)
          exact FS.get_set_ne fs _ hne
      | run prog inp out =>
        simp only
        cases resolve s.tmpfiles inp <;> cases resolveOut s.tmpfiles out <;> rfl
      | pushLd ref => simp only; cases resolve s.tmpfiles ref <;> rfl
      | link o => simp only; split <;> rfl
      | fail why => rfl

/-- locality: what a step writes inside `F` depends only on the contents inside `F` -/
theorem step_local (env : Env P) (W F : P → Prop) (s : DState P) (fs gs : FS P) (hin : Inside env W F s)
    (hag : ∀ p, F p → fs.get p = gs.get p) (p : P) (hp : F p) :
    (step env s fs).2.get p = (step env s gs).2.get p := by
  unfold step
  cases hph : s.phase with
  | done c => exact hag p hp
  | stuck => exact hag p hp
  | exiting c todo =>
    cases todo with
    | nil => exact hag p hp
    | cons t ts => simp only; rw [FS.get_erase, FS.get_erase, hag p hp]
  | waiting prog inp out =>
    have := hin.ph
    simp only [hph] at this
    simp only [stepWait]
    have key := childEffect_congr env.mode prog (env.sched prog (s.count prog)) fs gs inp out p
      (fun q hq => hag q (this.1 q hq)) (hag p hp)
    split <;> exact key
  | run =>
    simp only [stepRun]
    cases ha : s.acts with
    | nil => exact hag p hp
    | cons a r =>
      cases a with
      | mktemp =>
        simp only
        cases hf : env.fresh s.nTemp with
        | none => exact hag p hp
        | some t => simp only; rw [FS.get_set, FS.get_set, hag p hp]
      | run prog inp out =>
        simp only
        cases resolve s.tmpfiles inp <;> cases resolveOut s.tmpfiles out <;> exact hag p hp
      | pushLd ref => simp only; cases resolve s.tmpfiles ref <;> exact hag p hp
      | link o => simp only; split <;> exact hag p hp
      | fail why => exact hag p hp

omit [DecidableEq P] in
theorem actOuts_tail (a : Act P) (r : List (Act P)) {p : P} (h : p ∈ actOuts r) : p ∈ actOuts (a :: r) := by
  cases a with
  | run prog i o => cases o <;> simp [actOuts, h]
  | _ => simp [actOuts, h]

omit [DecidableEq P] in
theorem actIns_tail (a : Act P) (r : List (Act P)) {p : P} (h : p ∈ actIns r) : p ∈ actIns (a :: r) := by
  cases a <;> simp [actIns, h]

/-- the footprint invariant is preserved -/
theorem step_inside (env : Env P) (W F : P → Prop) (s : DState P) (fs : FS P) (hin : Inside env W F s) :
    Inside env W F (step env s fs).1 := by
  unfold step
  cases hph : s.phase with
  | done c => simpa [hph] using hin
  | stuck => simpa [hph] using hin
  | exiting c todo =>
    have hp := hin.ph
    simp only [hph] at hp
    cases todo with
    | nil => exact ⟨hin.tmp, hin.fresh, hin.outs, hin.ins, hin.ld, by simp [DState.emit], hin.sub⟩
    | cons t ts =>
      exact ⟨hin.tmp, hin.fresh, hin.outs, hin.ins, hin.ld,
        by simp only [DState.emit]; exact fun q hq => hp q (by simp [hq]), hin.sub⟩
  | waiting prog inp out =>
    simp only [stepWait]
    split
    · exact ⟨by cases prog <;> exact hin.tmp, hin.fresh, by cases prog <;> exact hin.outs,
        by cases prog <;> exact hin.ins, by cases prog <;> exact hin.ld, by simp, hin.sub⟩
    · exact ⟨by cases prog <;> exact hin.tmp, hin.fresh, by cases prog <;> exact hin.outs,
        by cases prog <;> exact hin.ins, by cases prog <;> exact hin.ld,
        by cases prog <;> exact hin.tmp, hin.sub⟩
  | run =>
    simp only [stepRun]
    cases ha : s.acts with
    | nil =>
      exact ⟨hin.tmp, hin.fresh, hin.outs, hin.ins, hin.ld, by simp only [DState.exitWith]; exact hin.tmp, hin.sub⟩
    | cons a r =>
      have houts := hin.outs
      have hins := hin.ins
      rw [ha] at houts hins
      have houtsR : ∀ p ∈ actOuts r, W p := fun p hp => houts p (actOuts_tail a r hp)
      have hinsR : ∀ p ∈ actIns r, F p := fun p hp => hins p (actIns_tail a r hp)
      cases a with
      | mktemp =>
        simp only
        cases hf : env.fresh s.nTemp with
        | none =>
          exact ⟨hin.tmp, hin.fresh, by simpa [DState.emit, DState.exitWith] using houtsR,
            by simpa [DState.emit, DState.exitWith] using hinsR, hin.ld,
            by simp only [DState.exitWith, DState.emit]; exact hin.tmp, hin.sub⟩
        | some t =>
          refine ⟨?_, hin.fresh, by simpa [DState.emit] using houtsR, by simpa [DState.emit] using hinsR, hin.ld,
            by simp [DState.emit, hph], hin.sub⟩
          intro q hq
          simp only [DState.emit, List.mem_append, List.mem_singleton] at hq
          rcases hq with hq | rfl
          · exact hin.tmp q hq
          · exact hin.fresh _ _ hf
      | run prog inp out =>
        simp only
        cases hi : resolve s.tmpfiles inp with
        | none =>
          exact ⟨hin.tmp, hin.fresh, houtsR, hinsR, hin.ld, by simp, hin.sub⟩
        | some i =>
          cases ho : resolveOut s.tmpfiles out with
          | none =>
            exact ⟨hin.tmp, hin.fresh, houtsR, hinsR, hin.ld, by simp, hin.sub⟩
          | some o =>
            refine ⟨hin.tmp, hin.fresh, by simpa [DState.emit] using houtsR, by simpa [DState.emit] using hinsR,
              hin.ld, ?_, hin.sub⟩
            simp only [DState.emit]
            constructor
            · intro q hq
              simp only [List.mem_singleton] at hq
              subst hq
              rcases resolve_mem hi with h | h
              · exact hins q (by simp [actIns, h])
              · exact hin.sub q (hin.tmp q h)
            · intro q hq
              subst hq
              cases out with
              | none => simp [resolveOut] at ho
              | some rf =>
                simp only [resolveOut, Option.map_eq_some_iff] at ho
                obtain ⟨x, hx, hxe⟩ := ho
                injection hxe with hxe
                subst hxe
                rcases resolve_mem hx with h | h
                · exact houts x (by simp [actOuts, h])
                · exact hin.tmp x h
      | pushLd ref =>
        simp only
        cases hi : resolve s.tmpfiles ref with
        | none => exact ⟨hin.tmp, hin.fresh, houtsR, hinsR, hin.ld, by simp, hin.sub⟩
        | some q =>
          refine ⟨hin.tmp, hin.fresh, houtsR, hinsR, ?_, by simp [hph], hin.sub⟩
          intro x hx
          simp only [List.mem_append, List.mem_singleton] at hx
          rcases hx with hx | rfl
          · exact hin.ld x hx
          · rcases resolve_mem hi with h | h
            · exact hins x (by simp [actIns, h])
            · exact hin.sub x (hin.tmp x h)
      | link o =>
        simp only
        split
        · exact ⟨hin.tmp, hin.fresh, houtsR, hinsR, hin.ld, by simp [hph], hin.sub⟩
        · refine ⟨hin.tmp, hin.fresh, by simpa [DState.emit] using houtsR, by simpa [DState.emit] using hinsR,
            hin.ld, ?_, hin.sub⟩
          simp only [DState.emit]
          exact ⟨hin.ld, fun q hq => by injection hq with hq; subst hq; exact houts _ (by simp [actOuts])⟩
      | fail why =>
        exact ⟨hin.tmp, hin.fresh, by simpa [DState.emit, DState.exitWith] using houtsR,
          by simpa [DState.emit, DState.exitWith] using hinsR, hin.ld,
          by simp only [DState.exitWith, DState.emit]; exact hin.tmp, hin.sub⟩

/-! ### interleavings -/

def countB (b : Bool) : List Bool → Nat
  | [] => 0
  | x :: r => (if x = b then 1 else 0) + countB b r

/-- the joint configuration projects onto the two solo configurations -/
structure Rel (envA envB : Env P) (WA FA WB FB : P → Prop)
    (x : DState P × DState P × FS P) (a b : DState P × FS P) : Prop where
  sa : x.1 = a.1
  sb : x.2.1 = b.1
  fa : ∀ p, FA p → x.2.2.get p = a.2.get p
  fb : ∀ p, FB p → x.2.2.get p = b.2.get p
  ia : Inside envA WA FA a.1
  ib : Inside envB WB FB b.1

theorem istep_rel (envA envB : Env P) (WA FA WB FB : P → Prop)
    (hAB : ∀ p, WA p → ¬ FB p) (hBA : ∀ p, WB p → ¬ FA p)
    (x : DState P × DState P × FS P) (a b : DState P × FS P) (c : Bool)
    (h : Rel envA envB WA FA WB FB x a b) :
    Rel envA envB WA FA WB FB (istep envA envB c x)
      (if c then step envA a.1 a.2 else a) (if c then b else step envB b.1 b.2) := by
  obtain ⟨xa, xb, xf⟩ := x
  obtain ⟨sa, ga⟩ := a
  obtain ⟨sb, gb⟩ := b
  obtain ⟨h1, h2, h3, h4, h5, h6⟩ := h
  simp only at h1 h2 h3 h4 h5 h6
  subst h1 h2
  cases c with
  | true =>
    simp only [istep, if_true]
    refine ⟨step_state_indep envA xa xf ga, rfl, ?_, ?_, step_inside envA WA FA xa ga h5, h6⟩
    · intro p hp
      exact step_local envA WA FA xa xf ga h5 h3 p hp
    · intro p hp
      have : ¬ WA p := fun hw => hAB p hw hp
      rw [step_frame envA WA FA xa xf h5 p this]
      exact h4 p hp
  | false =>
    simp only [istep, Bool.false_eq_true, if_false]
    refine ⟨rfl, step_state_indep envB xb xf gb, ?_, ?_, h5, step_inside envB WB FB xb gb h6⟩
    · intro p hp
      have : ¬ WB p := fun hw => hBA p hw hp
      rw [step_frame envB WB FB xb xf h6 p this]
      exact h3 p hp
    · intro p hp
      exact step_local envB WB FB xb xf gb h6 h4 p hp

theorem irun_rel (envA envB : Env P) (WA FA WB FB : P → Prop)
    (hAB : ∀ p, WA p → ¬ FB p) (hBA : ∀ p, WB p → ¬ FA p) (il : List Bool) :
    ∀ (x : DState P × DState P × FS P) (a b : DState P × FS P),
      Rel envA envB WA FA WB FB x a b →
      Rel envA envB WA FA WB FB (irun envA envB il x)
        (iter envA (countB true il) a) (iter envB (countB false il) b) := by
  induction il with
  | nil => intro x a b h; simpa [irun, countB, iter] using h
  | cons c r ih =>
    intro x a b h
    have h' := istep_rel envA envB WA FA WB FB hAB hBA x a b c h
    have := ih _ _ _ h'
    cases c with
    | true =>
      simp only [if_true] at this
      simp only [irun, countB, if_true, Bool.true_eq_false, if_false, Nat.zero_add]
      rw [Nat.add_comm 1, show iter envA (countB true r + 1) a = iter envA (countB true r) (step envA a.1 a.2) from rfl]
      exact this
    | false =>
      simp only [Bool.false_eq_true, if_false] at this
      simp only [irun, countB, if_true, Bool.false_eq_true, if_false, Nat.zero_add]
      rw [Nat.add_comm 1, show iter envB (countB false r + 1) b = iter envB (countB false r) (step envB b.1 b.2) from rfl]
      exact this

/-- outside both write sets nothing ever changes -/
theorem irun_frame (envA envB : Env P) (WA FA WB FB : P → Prop) (il : List Bool) :
    ∀ (x : DState P × DState P × FS P), Inside envA WA FA x.1 → Inside envB WB FB x.2.1 →
      ∀ p, ¬ WA p → ¬ WB p → (irun envA envB il x).2.2.get p = x.2.2.get p := by
  induction il with
  | nil => intro x _ _ p _ _; rfl
  | cons c r ih =>
    intro x ha hb p hpa hpb
    simp only [irun]
    cases c with
    | true =>
      have := ih (istep envA envB true x) (by simpa [istep] using step_inside envA WA FA x.1 x.2.2 ha)
        (by simpa [istep] using hb) p hpa hpb
      rw [this]
      simpa [istep] using step_frame envA WA FA x.1 x.2.2 ha p hpa
    | false =>
      have := ih (istep envA envB false x) (by simpa [istep] using ha)
        (by simpa [istep] using step_inside envB WB FB x.2.1 x.2.2 hb) p hpa hpb
      rw [this]
      simpa [istep] using step_frame envB WB FB x.2.1 x.2.2 hb p hpb

/-! ### the footprint of a command -/

/-- paths a run of `cmd` may write: its requested outputs and the temporaries mkstemp hands out -/
def Writes (env : Env P) (cmd : Cmd P) (p : P) : Prop :=
  p ∈ requested cmd ∨ ∃ k, env.fresh k = some p

/-- paths a run of `cmd` may read or write -/
def Touches (env : Env P) (cmd : Cmd P) (p : P) : Prop :=
  Writes env cmd p ∨ p ∈ cmd.inputs.map (·.path)

theorem plan_outs (cmd : Cmd P) (n : Nat) (i : Input P) :
    ∀ p ∈ actOuts (plan cmd n i), cmd.mode ≠ .link ∧ isUnit cmd i = true ∧ p = unitOutput cmd i := by
  intro p hp
  unfold plan at hp
  unfold isUnit unitOutput
  cases hd : cmd.depsOnly <;> simp only [hd] at hp ⊢ <;>
  cases hk : effKind cmd.mode i.kind <;> simp only [hk] at hp ⊢ <;>
    cases hm : cmd.mode <;> simp only [hm] at hp ⊢ <;>
    cases ho : cmd.out <;> simp_all [unitOutput, actOuts, Ref.paths]

theorem plan_ins (cmd : Cmd P) (n : Nat) (i : Input P) : ∀ p ∈ actIns (plan cmd n i), p = i.path := by
  intro p hp
  unfold plan at hp
  cases hd : cmd.depsOnly <;> simp only [hd] at hp <;>
  cases hk : effKind cmd.mode i.kind <;> simp only [hk] at hp <;>
    cases hm : cmd.mode <;> simp_all [actIns, Ref.paths]

omit [DecidableEq P] in
theorem actOuts_append (a b : List (Act P)) : actOuts (a ++ b) = actOuts a ++ actOuts b := by
  induction a with
  | nil => rfl
  | cons x r ih =>
    cases x with
    | run prog i o => cases o <;> simp [actOuts, ih]
    | _ => simp [actOuts, ih]

omit [DecidableEq P] in
theorem actIns_append (a b : List (Act P)) : actIns (a ++ b) = actIns a ++ actIns b := by
  induction a with
  | nil => rfl
  | cons x r ih => cases x <;> simp [actIns, ih]

theorem compileLoop_outs (cmd : Cmd P) (n : Nat) (l : List (Input P)) :
    ∀ p ∈ actOuts (compileLoop cmd n l),
      (cmd.mode = .link ∧ cmd.depsOnly = false ∧ p = cmd.out.getD cmd.aout) ∨
      (cmd.mode ≠ .link ∧ p ∈ (l.filter (isUnit cmd)).map (unitOutput cmd)) := by
  induction l generalizing n with
  | nil =>
    intro p hp
    simp only [compileLoop] at hp
    split at hp
    · rename_i hc
      left; simp [actOuts] at hp; exact ⟨hc.1, hc.2, hp⟩
    · simp [actOuts] at hp
  | cons i r ih =>
    intro p hp
    simp only [compileLoop, actOuts_append, List.mem_append] at hp
    rcases hp with hp | hp
    · obtain ⟨h1, h2, h3⟩ := plan_outs cmd n i p hp
      right
      exact ⟨h1, by simp [List.filter_cons, h2, h3]⟩
    · rcases ih _ p hp with h | ⟨h1, h2⟩
      · exact Or.inl h
      · right
        refine ⟨h1, ?_⟩
        simp only [List.filter_cons]
        split
        · simp only [List.map_cons, List.mem_cons]; exact Or.inr h2
        · exact h2

theorem compileLoop_ins (cmd : Cmd P) (n : Nat) (l : List (Input P)) :
    ∀ p ∈ actIns (compileLoop cmd n l), p ∈ l.map (·.path) := by
  induction l generalizing n with
  | nil =>
    intro p hp
    simp only [compileLoop] at hp
    split at hp <;> simp [actIns] at hp
  | cons i r ih =>
    intro p hp
    simp only [compileLoop, actIns_append, List.mem_append] at hp
    rcases hp with hp | hp
    · simp [plan_ins cmd n i p hp]
    · simp only [List.map_cons, List.mem_cons]; exact Or.inr (ih _ p hp)

theorem compile_outs (cmd : Cmd P) : ∀ p ∈ actOuts (compile cmd), p ∈ requested cmd := by
  intro p hp
  unfold compile at hp
  split at hp
  · simp [actOuts] at hp
  · split at hp
    · simp [actOuts] at hp
    · unfold requested
      rcases compileLoop_outs cmd 0 cmd.inputs p hp with ⟨h1, h2, h3⟩ | ⟨h1, h2⟩
      · simp [h1, h2, h3]
      · cases hd : cmd.depsOnly with
        | true =>
          exfalso
          obtain ⟨u, hu, _⟩ := List.mem_map.mp h2
          have := (List.mem_filter.mp hu).2
          simp [isUnit, hd] at this
        | false => simp only [h1, if_false, Bool.false_eq_true]; exact h2

theorem compile_ins (cmd : Cmd P) : ∀ p ∈ actIns (compile cmd), p ∈ cmd.inputs.map (·.path) := by
  intro p hp
  unfold compile at hp
  split at hp
  · simp [actIns] at hp
  · split at hp
    · simp [actIns] at hp
    · exact compileLoop_ins cmd 0 cmd.inputs p hp

theorem init_inside (env : Env P) (cmd : Cmd P) :
    Inside env (Writes env cmd) (Touches env cmd) (init cmd) where
  tmp := by simp [init]
  fresh := fun k p h => Or.inr ⟨k, h⟩
  outs := fun p hp => Or.inl (compile_outs cmd p hp)
  ins := fun p hp => Or.inr (compile_ins cmd p hp)
  ld := by simp [init]
  ph := by simp [init]
  sub := fun p h => Or.inl h

end ChibiVerif.DriverProc
