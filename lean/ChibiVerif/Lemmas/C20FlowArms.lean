/-
C20: the arms of `gen_expr` / `gen_stmt` whose code has labels, in the label-height calculus of
Lemmas/C20Flow.lean.  Each lemma says: if the code of the operands is consistent (closed, or relative
to the labels of the enclosing region), then so is the code of the arm, with the labels the arm
itself prints (`.L.else.k`, `.L.end.k`, `.L.begin.k`, … from `count()`; the `break`/`continue`/`case`
labels of the node) at the heights at which they are reached.
-/
import ChibiVerif.Lemmas.C20Flow

namespace ChibiVerif.Lemmas.C20
open ChibiVerif ChibiVerif.Codegen ChibiVerif.Effect ChibiVerif.Asm ChibiVerif.Ast ChibiVerif.C20Scope

/-- membership of one of the first three entries of a literal list (up to unfolding `ctr`) -/
syntax "mem_head" : tactic
macro_rules
  | `(tactic| mem_head) => `(tactic| first
      | exact List.mem_cons_self
      | exact List.mem_cons_of_mem _ List.mem_cons_self
      | exact List.mem_cons_of_mem _ (List.mem_cons_of_mem _ List.mem_cons_self))


/-! ### label spellings -/

theorem startsDot_append (a b : String) (h : startsDot a = true) : startsDot (a ++ b) = true := by
  obtain ⟨rest, hl⟩ := startsDot_elim h
  unfold startsDot
  rw [String.toList_append, hl]
  rfl

theorem startsDot_count (tag : String) (k : Nat) (h : startsDot tag = true) :
    startsDot (toString tag ++ toString k) = true := startsDot_append _ _ h

/-- first action prints nothing and its value is not constrained -/
theorem SemF_pre {own : List String} {A : List (String × H)} {ro xo : Int} {m : M α} {f : α → M β}
    {G : List (String × H)}
    {r x dd : Int} (h1 : SemP FlowP m 0 0 0) (h2 : ∀ a, SemF own A ro xo (f a) G r x dd) :
    SemF own A ro xo (m >>= f) G r x dd :=
  (SemF_bind (SemF_of_SemP h1) (fun a => (h2 a).conv (ro' := ro - 0) (xo' := xo - 0) (by omega) (by omega) rfl rfl rfl
    (fun _ _ hm => Or.inr hm) (fun _ _ hm => hm))).conv rfl rfl (by omega) (by omega) (by omega)
    (fun _ _ hm => Or.inr hm) (fun _ _ hm => by simpa using hm)

/-- a counter label of the enclosing arm, stated with an explicit height -/
theorem SemF_label_ctr' {A : List (String × H)} {ro xo : Int} {t : String} (ht : t ∈ ctrTags) (k : Nat) {v : H}
    (hv : v.rsp = -ro ∧ v.x87 = -xo) :
    SemF [ctr t k] A ro xo (emit (.label (ctr t k))) [(ctr t k, v)] 0 0 0 := by
  have : v = ⟨-ro, -xo⟩ := by harith
  rw [this]
  exact SemF_label_ctr ht k

/-- a parser label, stated with an explicit height -/
theorem SemF_label_user' {A : List (String × H)} {ro xo : Int} {l : String} {v : H} (hu : userLabel l = true)
    (hv : v.rsp = -ro ∧ v.x87 = -xo) : SemF [] A ro xo (emit (.label l)) [(l, v)] 0 0 0 := by
  have : v = ⟨-ro, -xo⟩ := by harith
  rw [this]
  exact SemF_label_user hu

theorem own2_nodup {t1 t2 : String} (h1 : t1 ∈ ctrTags) (h2 : t2 ∈ ctrTags) (hne : t1 ≠ t2) (k : Nat) :
    [ctr t1 k, ctr t2 k].Nodup := by
  simp only [List.nodup_cons, List.mem_singleton, List.not_mem_nil, not_false_eq_true, List.nodup_nil, and_true]
  intro e
  exact hne (ctr_inj h1 h2 e).1

theorem own2_mem {t1 t2 : String} (h1 : t1 ∈ ctrTags) (h2 : t2 ∈ ctrTags) (k : Nat) :
    ∀ l, l ∈ [ctr t1 k, ctr t2 k] → ∃ t, t ∈ ctrTags ∧ l = ctr t k := by
  intro l hl
  simp only [List.mem_cons, List.not_mem_nil, or_false] at hl
  rcases hl with rfl | rfl
  · exact ⟨t1, h1, rfl⟩
  · exact ⟨t2, h2, rfl⟩

theorem own1_mem {t1 : String} (h1 : t1 ∈ ctrTags) (k : Nat) :
    ∀ l, l ∈ [ctr t1 k] → ∃ t, t ∈ ctrTags ∧ l = ctr t k := by
  intro l hl
  simp only [List.mem_singleton] at hl
  exact ⟨t1, h1, hl⟩

theorem SemP_condArm {c t e : M Unit} (cty : Option Ty) {x : Int}
    (hc : SemP FlowP c 0 (xOf cty) 0) (ht : SemP FlowP t 0 x 0) (he : SemP FlowP e 0 x 0) :
    SemP FlowP (condArm c cty t e) 0 x 0 := by
  unfold condArm
  refine SemP_of_SemF (ro := 0) (xo := 0) (SemF_count (own := fun k => [(ctr ".L.else." k), (ctr ".L.end." k)]) (fun k => ?_)
    (fun k => own2_nodup (by decide) (by decide) (by decide) k) (fun k => own2_mem (by decide) (by decide) k))
  have s1 : startsDot (ctr ".L.else." k) = true := startsDot_ctr (by decide) k
  have s2 : startsDot (ctr ".L.end." k) = true := startsDot_ctr (by decide) k
  refine SemF.conv (A := [(ctr ".L.else." k, ⟨0, 0⟩), (ctr ".L.end." k, ⟨0, x⟩)])
    (SemF_bind (SemF_of_SemP hc) fun _ =>
     SemF_bind (SemF_of_SemP (Sem_cmpZero cty)) fun _ =>
     SemF_bind (SemF_je s1 (v := ⟨0, 0⟩) (by mem_head) (by constructor <;> simp <;> omega)) fun _ =>
     SemF_bind (SemF_of_SemP ht) fun _ =>
     SemF_bind (SemF_jmp (r := 0) (x := -x) s2 (v := ⟨0, x⟩) (by mem_head) (by constructor <;> simp <;> omega)) fun _ =>
     SemF_bind (SemF_label_ctr' (t := ".L.else.") (by decide) k (v := ⟨0, 0⟩) (by constructor <;> simp <;> omega)) fun _ =>
     SemF_bind (SemF_of_SemP he) fun _ =>
     SemF_label_ctr' (t := ".L.end.") (by decide) k (v := ⟨0, x⟩) (by constructor <;> simp <;> omega))
    rfl rfl (by omega) (by omega) (by omega) ?_ ?_
  · intro l v hm
    left
    simp only [List.mem_cons, List.not_mem_nil, or_false] at hm
    rcases hm with hm | hm <;> rw [hm] <;> simp
  · intro l v hm
    exact (List.not_mem_nil hm).elim


/-! ### sequencing helpers -/

/-- `a ⨾ b`: the judgment of `a >>= fun _ => b` -/
macro:50 a:term:51 " ⨾ " b:term:50 : term => `(SemF_bind $a (fun _ => $b))

/-- closed code inside a region -/
theorem cl {A : List (String × H)} {ro xo : Int} {m : M α} {r x dd : Int}
    (h : SemP FlowP m r x dd) : SemF [] A ro xo m [] r x dd := SemF_of_SemP h

/-- a closed straight-line line -/
theorem cle {A : List (String × H)} {ro xo : Int} {l : Line} {r x : Int} (h : lineDelta l = some ⟨r, x⟩) :
    SemF [] A ro xo (emit l) [] r x 0 := SemF_of_SemP (Sem_emit h)

theorem SemF.weak {A A' : List (String × H)} {ro xo ro' xo' : Int} {m : M α} {G : List (String × H)}
    {r x dd : Int} (h : SemF [] A ro xo m G r x dd) (hA : ∀ l v, (l, v) ∈ A → (l, v) ∈ A')
    (hro : ro = ro') (hxo : xo = xo') : SemF [] A' ro' xo' m G r x dd :=
  h.conv hro hxo rfl rfl rfl (fun l v hm => Or.inr (hA l v hm)) (fun _ _ hm => hm)

/-- an optional sub-statement -/
def optRun (o : Option (M Unit)) : M Unit :=
  match o with
  | some x => x
  | none => pure ()

theorem SemF_optRun {A : List (String × H)} (e : Option (M Unit)) {Ge : List (String × H)}
    (he : ∀ y, e = some y → SemF [] A 0 0 y Ge 0 0 0) (hen : e = none → Ge = []) :
    SemF [] A 0 0 (optRun e) Ge 0 0 0 := by
  cases e with
  | none => rw [hen rfl]; exact cl (Sem_pure ())
  | some y => exact he y rfl

/-! ### `&&`, `||` -/

theorem SemP_logandArm {lhs rhs : M Unit} (lty rty : Option Ty)
    (hl : SemP FlowP lhs 0 (xOf lty) 0) (hr : SemP FlowP rhs 0 (xOf rty) 0) :
    SemP FlowP (logandArm lhs lty rhs rty) 0 0 0 := by
  unfold logandArm
  refine SemP_of_SemF (ro := 0) (xo := 0) (SemF_count (own := fun k => [(ctr ".L.false." k), (ctr ".L.end." k)]) (fun k => ?_)
    (fun k => own2_nodup (by decide) (by decide) (by decide) k) (fun k => own2_mem (by decide) (by decide) k))
  have s1 : startsDot (ctr ".L.false." k) = true := startsDot_ctr (by decide) k
  have s2 : startsDot (ctr ".L.end." k) = true := startsDot_ctr (by decide) k
  refine SemF.conv (A := [(ctr ".L.false." k, ⟨0, 0⟩), (ctr ".L.end." k, ⟨0, 0⟩)])
    (cl hl ⨾ cl (Sem_cmpZero lty) ⨾
     SemF_je s1 (v := ⟨0, 0⟩) (by mem_head) (by constructor <;> simp <;> omega) ⨾
     cl hr ⨾ cl (Sem_cmpZero rty) ⨾
     SemF_je s1 (v := ⟨0, 0⟩) (by mem_head) (by constructor <;> simp <;> omega) ⨾
     cle (r := 0) (x := 0) rfl ⨾
     SemF_jmp (r := 0) (x := 0) s2 (v := ⟨0, 0⟩) (by mem_head) (by constructor <;> simp <;> omega) ⨾
     SemF_label_ctr' (t := ".L.false.") (by decide) k (v := ⟨0, 0⟩) (by constructor <;> simp <;> omega) ⨾
     cle (r := 0) (x := 0) rfl ⨾
     SemF_label_ctr' (t := ".L.end.") (by decide) k (v := ⟨0, 0⟩) (by constructor <;> simp <;> omega))
    rfl rfl (by omega) (by omega) (by omega) ?_ ?_
  · intro l v hm
    left
    simp only [List.mem_cons, List.not_mem_nil, or_false] at hm
    rcases hm with hm | hm <;> rw [hm] <;> simp
  · intro l v hm
    exact (List.not_mem_nil hm).elim

theorem SemP_logorArm {lhs rhs : M Unit} (lty rty : Option Ty)
    (hl : SemP FlowP lhs 0 (xOf lty) 0) (hr : SemP FlowP rhs 0 (xOf rty) 0) :
    SemP FlowP (logorArm lhs lty rhs rty) 0 0 0 := by
  unfold logorArm
  refine SemP_of_SemF (ro := 0) (xo := 0) (SemF_count (own := fun k => [(ctr ".L.true." k), (ctr ".L.end." k)]) (fun k => ?_)
    (fun k => own2_nodup (by decide) (by decide) (by decide) k) (fun k => own2_mem (by decide) (by decide) k))
  have s1 : startsDot (ctr ".L.true." k) = true := startsDot_ctr (by decide) k
  have s2 : startsDot (ctr ".L.end." k) = true := startsDot_ctr (by decide) k
  refine SemF.conv (A := [(ctr ".L.true." k, ⟨0, 0⟩), (ctr ".L.end." k, ⟨0, 0⟩)])
    (cl hl ⨾ cl (Sem_cmpZero lty) ⨾
     SemF_jne s1 (v := ⟨0, 0⟩) (by mem_head) (by constructor <;> simp <;> omega) ⨾
     cl hr ⨾ cl (Sem_cmpZero rty) ⨾
     SemF_jne s1 (v := ⟨0, 0⟩) (by mem_head) (by constructor <;> simp <;> omega) ⨾
     cle (r := 0) (x := 0) rfl ⨾
     SemF_jmp (r := 0) (x := 0) s2 (v := ⟨0, 0⟩) (by mem_head) (by constructor <;> simp <;> omega) ⨾
     SemF_label_ctr' (t := ".L.true.") (by decide) k (v := ⟨0, 0⟩) (by constructor <;> simp <;> omega) ⨾
     cle (r := 0) (x := 0) rfl ⨾
     SemF_label_ctr' (t := ".L.end.") (by decide) k (v := ⟨0, 0⟩) (by constructor <;> simp <;> omega))
    rfl rfl (by omega) (by omega) (by omega) ?_ ?_
  · intro l v hm
    left
    simp only [List.mem_cons, List.not_mem_nil, or_false] at hm
    rcases hm with hm | hm <;> rw [hm] <;> simp
  · intro l v hm
    exact (List.not_mem_nil hm).elim


/-! ### numeric local labels: the compare-and-swap tail and the builtin alloca -/

theorem localRef_1f : localRef "1f" = some ("1", true) := by decide
theorem localRef_2f : localRef "2f" = some ("2", true) := by decide
theorem localRef_1b : localRef "1b" = some ("1", false) := by decide
theorem isNumLabel_1 : isNumLabel "1" = true := by decide
theorem isNumLabel_2 : isNumLabel "2" = true := by decide

/-- `je 1f; <one straight-line instruction without effect>; 1:` -/
theorem FlowR_local1 (o : H) : FlowR [] o [.cond "1f", .delta H.zero, .label "1"] [] H.zero := by
  intro c seen
  simp only [renameLocals, localRef_1f, isNumLabel_1, if_true]
  generalize (s!"{"1"}#{(List.lookup "1" seen).getD 0 + 1}" : String) = L
  refine ⟨[(L, c)], rfl, fun l r hm => (List.not_mem_nil hm).elim, ?_⟩
  intro h hx _ cur hc
  have hlk := hx _ _ (List.mem_singleton.mpr rfl)
  refine ⟨some c, ?_, Or.inr (by rw [H.add_zero'])⟩
  rcases hc with rfl | rfl <;> simp [scanRel, hlk]

/-- the tail of the ND_CAS arm: store the value found back through `%r8` when the exchange failed -/
def casTail (sz : Int) : M Unit := do
  emit (ins1 "je" (.s "1f"))
  emit (ins2 "mov" (.r (← regAx sz)) (.m0 "%r8"))
  emit (.label "1")
  emit (ins2 "movzbl" (.r "%cl") (.r "%eax"))

theorem bind_ok {m : M α} {f : α → M β} {s : St} {b : β} {s' : St} {ls : List Line}
    (h : (m >>= f) s = .ok (b, s', ls)) :
    ∃ a s1 l1 l2, m s = .ok (a, s1, l1) ∧ f a s1 = .ok (b, s', l2) ∧ ls = l1 ++ l2 := by
  simp only [bind, M.bind] at h
  split at h
  · cases h
  · rename_i a s1 l1 hm
    split at h
    · cases h
    · rename_i b' s2 l2 hf
      simp only [Except.ok.injEq, Prod.mk.injEq] at h
      obtain ⟨rfl, rfl, rfl⟩ := h
      exact ⟨a, s1, l1, l2, hm, hf, rfl⟩

theorem emit_ok {l : Line} {s : St} {a : Unit} {s' : St} {ls : List Line}
    (h : emit l s = .ok (a, s', ls)) : s' = s ∧ ls = [l] := by
  simp only [emit, Except.ok.injEq, Prod.mk.injEq] at h
  exact ⟨h.2.1.symm, h.2.2.symm⟩

/-- an action that prints nothing and leaves the state alone -/
def Quiet (m : M α) : Prop := ∀ s a s' ls, m s = .ok (a, s', ls) → s' = s ∧ ls = []

theorem Quiet_pure (a : α) : Quiet (pure a : M α) := by
  intro s a' s' ls h
  simp only [pure, M.pure, Except.ok.injEq, Prod.mk.injEq] at h
  exact ⟨h.2.1.symm, h.2.2.symm⟩

theorem Quiet_fail (msg : String) : Quiet (fail msg : M α) := by
  intro s a s' ls h; cases h

theorem Quiet_regAx (sz : Int) : Quiet (regAx sz) := by
  unfold regAx
  repeat' split
  all_goals first | exact Quiet_pure _ | exact Quiet_fail _

theorem casTail_lines {sz : Int} {s : St} {a : Unit} {s' : St} {ls : List Line}
    (hm : casTail sz s = .ok (a, s', ls)) :
    ∃ ax, ls = [ins1 "je" (.s "1f"), ins2 "mov" (.r ax) (.m0 "%r8"), .label "1",
                ins2 "movzbl" (.r "%cl") (.r "%eax")] ∧ s' = s := by
  unfold casTail at hm
  obtain ⟨_, s1, l1, r1, h1, hm1, e1⟩ := bind_ok hm
  obtain ⟨rfl, rfl⟩ := emit_ok h1
  obtain ⟨ax, s2, l2, r2, h2, hm2, e2⟩ := bind_ok hm1
  obtain ⟨rfl, rfl⟩ := Quiet_regAx sz _ _ _ _ h2
  obtain ⟨_, s3, l3, r3, h3, hm3, e3⟩ := bind_ok hm2
  obtain ⟨rfl, rfl⟩ := emit_ok h3
  obtain ⟨_, s4, l4, r4, h4, hm4, e4⟩ := bind_ok hm3
  obtain ⟨rfl, rfl⟩ := emit_ok h4
  obtain ⟨rfl, rfl⟩ := emit_ok hm4
  subst e4 e3 e2 e1
  exact ⟨ax, rfl, rfl⟩

theorem SemP_casTail (sz : Int) : SemP FlowP (casTail sz) 0 0 0 := by
  unfold SemP
  intro s a s' ls hm
  obtain ⟨ax, rfl, rfl⟩ := casTail_lines hm
  refine ⟨?_, by simp⟩
  unfold FlowP
  have hsk : [ins1 "je" (.s "1f"), ins2 "mov" (.r ax) (.m0 "%r8"), .label "1",
      ins2 "movzbl" (.r "%cl") (.r "%eax")].flatMap classify =
      [.cond "1f", .delta H.zero, .label "1"] ++ [Step.delta H.zero] := rfl
  rw [hsk]
  refine ⟨?_, ?_⟩
  · exact (FlowR_append (FlowR_local1 _) (FlowR_deltas ⟨0, 0⟩ [H.zero]) (by harith)).conv (by rfl)
      (fun l r hm => (List.not_mem_nil hm).elim) (fun l r hm => (List.not_mem_nil hm).elim)
  · refine LabsR_numeric ?_ (Nat.le_refl _)
    intro l hl
    simp only [List.cons_append, List.nil_append, labelNames, List.mem_singleton] at hl
    subst hl
    exact ⟨by decide, by decide⟩

theorem casArm_eq (env : Env) (addr : M Unit) (addrTy : Option Ty) (old : M Unit) (oldTy : Option Ty)
    (new : M Unit) (newTy : Option Ty) :
    casArm env addr addrTy old oldTy new newTy = (do
      addr
      push
      new
      let nty ← needTy "node->cas_new->ty" newTy
      if nty.kind == .float then emit (ins2 "movd" (xmm 0) (.r "%eax"))
      else if nty.kind == .double then emit (ins2 "movq" (xmm 0) rax)
      else pure ()
      push
      old
      emit (ins2 "mov" rax (.r "%r8"))
      let oty ← needTy "node->cas_old->ty" oldTy
      let obase ← needTy "node->cas_old->ty->base" (env.ty? oty.base)
      if isFlonum obase then emit (ins2 "mov" (.m0 "%rax") (.r (← regAx obase.size)))
      else load (some obase)
      pop "%rdx"
      pop "%rdi"
      let aty ← needTy "node->cas_addr->ty" addrTy
      let bty ← needTy "node->cas_addr->ty->base" (env.ty? aty.base)
      emit (ins2 "lock cmpxchg" (.r (← regDx bty.size)) (.m0 "%rdi"))
      emit (ins1 "sete" (.r "%cl"))
      casTail bty.size) := rfl


macro_rules
  | `(tactic| sem_leaf) => `(tactic| exact SemP_casTail _)

theorem xOf_not_flonum {t : Ty} (h : ¬ isFlonum t = true) : xOf (some t) = 0 := by
  rw [xOf_some]
  simp only [isFlonum, Bool.or_eq_true, beq_iff_eq, not_or] at h
  simp [h.2]

theorem Ret_regAx (sz : Int) : Ret (regAx sz) (fun a => a ≠ "%rsp") := by
  unfold regAx
  repeat' split
  all_goals first | exact Ret_pure (by decide) | exact Ret_fail _

theorem Sem_regAx_bind {K : CodeK} [CodePred K] {sz : Int} {f : String → M β} {r x d : Int}
    (h : ∀ a, a ≠ "%rsp" → SemP K (f a) r x d) : SemP K (regAx sz >>= f) r x d :=
  (Sem_bind_ret (Sem_regAx sz) (Ret_regAx sz) h).cast (by omega) (by omega) (by omega)

theorem lineDelta_mov_to_reg {a : String} (src : Opd) (h : a ≠ "%rsp") :
    lineDelta (ins2 "mov" src (.r a)) = some ⟨0, 0⟩ := by
  simp [lineDelta, ins2, insDelta, dstIsRsp, isRsp, h, x87Push, x87Pop, x87Same, plainOps]

/-- `sem`, keeping what `reg_ax` returns apart from `%rsp` -/
syntax "semr" : tactic
macro_rules
  | `(tactic| semr) => `(tactic| repeat' (first
      | exact Sem_fail _
      | exact Sem_nullDeref _
      | (refine Sem_regAx_bind (fun _ hreg => ?_))
      | (refine Sem_bind_td (Sem_emit (lineDelta_mov_to_reg _ (by assumption))) (fun _ => ?_))
      | (refine SemP.cast (by sem_leaf) ?_ ?_ ?_ <;> sem_arith)
      | (refine Sem_bind_td (by sem_leaf) (fun _ => ?_))
      | dsimp only
      | split
      | (exfalso; simp_all; done)))

theorem SemP_casArm (env : Env) {addr old new : M Unit} (aty oty nty : Option Ty)
    (ha : SemP FlowP addr 0 0 0) (ho : SemP FlowP old 0 0 0) (hn : SemP FlowP new 0 0 0) :
    SemP FlowP (casArm env addr aty old oty new nty) 0 0 0 := by
  rw [casArm_eq]
  semr
  all_goals
    (rename_i hnf _ _ _ _ _ _ _ _
     refine SemP.cast (SemP_casTail _) ?_ ?_ ?_ <;> first | omega | (rw [xOf_not_flonum hnf]; omega))


/-! ### the builtin alloca -/

def allocaLines (off : Int) : List Line :=
  [ins2 "add" (.i 15) rdi, ins2 "and" (.s "$0xfffffff0") (.r "%edi"), ins2 "mov" (rbp off) (.r "%rcx"),
   ins2 "sub" rsp (.r "%rcx"), ins2 "mov" rsp rax, ins2 "sub" rdi rsp, ins2 "mov" rsp (.r "%rdx"),
   .label "1", ins2 "cmp" (.i 0) (.r "%rcx"), ins1 "je" (.s "2f"), ins2 "mov" (.m0 "%rax") (.r "%r8b"),
   ins2 "mov" (.r "%r8b") (.m0 "%rdx"), ins1 "inc" (.r "%rdx"), ins1 "inc" rax, ins1 "dec" (.r "%rcx"),
   ins1 "jmp" (.s "1b"), .label "2", ins2 "mov" (rbp off) rax, ins2 "sub" rdi rax, ins2 "mov" rax (rbp off)]

theorem builtinAlloca_some (env : Env) (ab : Var) (h : env.allocaBottom = some ab) (s : St) :
    builtinAlloca env s = .ok ((), s, allocaLines (env.off ab)) := by
  unfold builtinAlloca
  rw [h]
  rfl

/-- the byte-copy loop of alloca -/
def allocaLoop : List Step :=
  [.label "1", .delta H.zero, .cond "2f", .delta H.zero, .delta H.zero, .delta H.zero, .delta H.zero,
   .delta H.zero, .jump "1b", .label "2"]

theorem allocaLines_steps (off : Int) :
    (allocaLines off).flatMap classify =
      (List.replicate 7 H.zero).map Step.delta ++ (allocaLoop ++ (List.replicate 3 H.zero).map Step.delta) := rfl

theorem lookup_2_skip (n : Nat) (seen : List (String × Nat)) :
    List.lookup "2" (("1", n) :: seen) = List.lookup "2" seen := by
  simp [List.lookup]

theorem lookup_1_hit (n : Nat) (seen : List (String × Nat)) :
    List.lookup "1" (("1", n) :: seen) = some n := by
  simp [List.lookup]

theorem FlowR_allocaLoop (o : H) : FlowR [] o allocaLoop [] H.zero := by
  intro c seen
  simp only [allocaLoop, renameLocals, localRef_2f, localRef_1b, isNumLabel_1, isNumLabel_2, if_true,
    lookup_2_skip, lookup_1_hit, Option.getD_some]
  generalize (s!"{"1"}#{(List.lookup "1" seen).getD 0 + 1}" : String) = L1
  generalize (s!"{"2"}#{(List.lookup "2" seen).getD 0 + 1}" : String) = L2
  refine ⟨[(L1, c), (L2, c)], rfl, fun l r hm => (List.not_mem_nil hm).elim, ?_⟩
  intro h hx _ cur hc
  have hlk1 := hx L1 c (by simp)
  have hlk2 := hx L2 c (by simp)
  refine ⟨some c, ?_, Or.inr (by rw [H.add_zero'])⟩
  rcases hc with rfl | rfl <;> simp [scanRel, hlk1, hlk2, H.add_zero']

theorem SemP_builtinAlloca (env : Env) : SemP FlowP (builtinAlloca env) 0 0 0 := by
  unfold SemP
  intro s a s' ls hm
  cases hab : env.allocaBottom with
  | none =>
    unfold builtinAlloca at hm
    rw [hab] at hm
    cases hm
  | some ab =>
    rw [builtinAlloca_some env ab hab] at hm
    simp only [Except.ok.injEq, Prod.mk.injEq] at hm
    obtain ⟨_, rfl, rfl⟩ := hm
    refine ⟨?_, by simp⟩
    unfold FlowP
    rw [allocaLines_steps]
    have h1 := FlowR_deltas ⟨0, 0⟩ (List.replicate 7 H.zero)
    have h2 := FlowR_allocaLoop ⟨0, 0⟩
    have h3 := FlowR_deltas ⟨0, 0⟩ (List.replicate 3 H.zero)
    refine ⟨?_, ?_⟩
    · exact (FlowR_append h1 (FlowR_append h2 h3 (by harith)) (by decide)).conv (by decide)
        (fun l r hm => (List.not_mem_nil hm).elim) (fun l r hm => (List.not_mem_nil hm).elim)
    · refine LabsR_numeric ?_ (Nat.le_refl _)
      intro l hl
      have : labelNames ((List.replicate 7 H.zero).map Step.delta ++ (allocaLoop ++ (List.replicate 3 H.zero).map Step.delta))
          = ["1", "2"] := rfl
      rw [this] at hl
      simp only [List.mem_cons, List.not_mem_nil, or_false] at hl
      rcases hl with rfl | rfl <;> exact ⟨by decide, by decide⟩

macro_rules
  | `(tactic| sem_leaf) => `(tactic| exact SemP_builtinAlloca _)


/-- a call of the builtin `alloca`: the size argument, then the code of `builtin_alloca` -/
theorem SemP_funcallArm_alloca (env : Env) (i : NInfo) {isAlloca : M Bool} {fn : M Unit} (rb : Option Var)
    (args : List Arg) (hia : SemP FlowP isAlloca 0 0 0) (hna : Ret isAlloca (fun b => b = true))
    (harg : ∀ a rest, args = a :: rest → SemP FlowP a.gen 0 0 0) :
    SemP FlowP (funcallArm env i isAlloca fn rb args) 0 0 0 := by
  unfold funcallArm
  refine (Sem_bind_ret hia hna (fun b hb => ?_)).cast (r := 0 + 0) (x := 0 + 0) (d := 0 + 0)
    (by omega) (by omega) (by omega)
  subst hb
  simp only [if_true]
  cases args with
  | nil => sem
  | cons a rest =>
    have := harg a rest rfl
    sem


/-! ### statements -/

/-- list membership side conditions of `SemF.conv` -/
syntax "mem_solve" : tactic
macro_rules
  | `(tactic| mem_solve) => `(tactic|
      (intro l v hm
       simp only [List.mem_append, List.mem_cons, List.mem_singleton, List.not_mem_nil, or_false, false_or,
         List.nil_append, List.append_nil, Prod.mk.injEq] at hm ⊢
       grind))

theorem toList_sp : " ".toList = [' '] := by decide

theorem jumpTarget_sp (op : String) {a : String} (ha : startsDot a = true) :
    jumpTarget ⟨op, [.s (" " ++ a)]⟩ = some a := by
  obtain ⟨rest, hl⟩ := startsDot_elim ha
  simp only [jumpTarget, String.toList_append, toList_sp, hl]
  have : List.dropWhile (fun x => x == ' ') ([' '] ++ '.' :: rest) = '.' :: rest := by
    simp [List.dropWhile]
  rw [this]
  split
  · rename_i tail heq
    simp at heq
  · rw [← hl, String.ofList_toList]

/-- the `je  .L.else.k` of `gen_stmt`'s ND_IF arm (two spaces in the C text) -/
theorem SemF_je_else {A : List (String × H)} {ro xo : Int} {k : Nat} {v : H}
    (hm : (ctr ".L.else." k, v) ∈ A) (hv : v.rsp = -ro ∧ v.x87 = -xo) :
    SemF [] A ro xo (emit (ins1 "je" (.s s!" .L.else.{k}"))) [] 0 0 0 := by
  have hs : startsDot (ctr ".L.else." k) = true := startsDot_ctr (by decide) k
  have e : (s!" .L.else.{k}" : String) = " " ++ (ctr ".L.else." k) := by
    show (" " ++ ".L.else.") ++ toString k = " " ++ (".L.else." ++ toString k)
    rw [String.append_assoc]
  refine SemF_emit ?_ ?_
  · rw [e, classify_je (jumpTarget_sp _ hs)]
    exact FlowR_cond (localRef_of_startsDot hs) hm (by harith)
  · rw [e, classify_je (jumpTarget_sp _ hs)]
    exact fun n => LabsR_noLabels rfl (Nat.le_refl n)

theorem ifArm_eq (c : M Unit) (cty : Option Ty) (t : M Unit) (e : Option (M Unit)) :
    ifArm c cty t e = (do
      let k ← count
      c
      cmpZero cty
      emit (ins1 "je" (.s s!" .L.else.{k}"))
      t
      emit (ins1 "jmp" (.s s!".L.end.{k}"))
      emit (.label s!".L.else.{k}")
      optRun e
      emit (.label s!".L.end.{k}")) := by
  unfold ifArm optRun
  cases e <;> simp only [M_pure_bind]

theorem SemF_ifArm {A : List (String × H)} {c t : M Unit} (cty : Option Ty) (e : Option (M Unit))
    {Gt Ge : List (String × H)} (hc : SemP FlowP c 0 (xOf cty) 0) (ht : SemF [] A 0 0 t Gt 0 0 0)
    (he : SemF [] A 0 0 (optRun e) Ge 0 0 0) : SemF [] A 0 0 (ifArm c cty t e) (Gt ++ Ge) 0 0 0 := by
  rw [ifArm_eq]
  refine (SemF_count (own := fun k => [(ctr ".L.else." k), (ctr ".L.end." k)]) (fun k => ?_)
    (fun k => own2_nodup (by decide) (by decide) (by decide) k) (fun k => own2_mem (by decide) (by decide) k))
  have s1 : startsDot (ctr ".L.else." k) = true := startsDot_ctr (by decide) k
  have s2 : startsDot (ctr ".L.end." k) = true := startsDot_ctr (by decide) k
  refine SemF.conv (A := (ctr ".L.else." k, ⟨0, 0⟩) :: (ctr ".L.end." k, ⟨0, 0⟩) :: A)
    (cl hc ⨾ cl (Sem_cmpZero cty) ⨾
     SemF_je_else (v := ⟨0, 0⟩) (by mem_head) (by constructor <;> simp <;> omega) ⨾
     ht.weak (by mem_solve) (by omega) (by omega) ⨾
     SemF_jmp (r := 0) (x := 0) s2 (v := ⟨0, 0⟩) (by mem_head) (by constructor <;> simp <;> omega) ⨾
     SemF_label_ctr' (t := ".L.else.") (by decide) k (v := ⟨0, 0⟩) (by constructor <;> simp <;> omega) ⨾
     he.weak (by mem_solve) (by omega) (by omega) ⨾
     SemF_label_ctr' (t := ".L.end.") (by decide) k (v := ⟨0, 0⟩) (by constructor <;> simp <;> omega))
    rfl rfl (by omega) (by omega) (by omega) (by mem_solve) (by mem_solve)


/-! ### loops -/

/-- the controlling expression of a `for` with its exit jump -/
def forCond (c : Option (M Unit × Option Ty)) (brk : Option String) : M Unit :=
  match c with
  | some (c, cty) => do c; cmpZero cty; emit (ins1 "je" (.s (cstr brk)))
  | none => pure ()

/-- the increment of a `for`, its value discarded -/
def forInc (inc : Option (M Unit × Option Ty)) : M Unit :=
  match inc with
  | some (x, ty) => do x; Codegen.discard ty
  | none => pure ()

theorem forArm_eq (init : Option (M Unit)) (c : Option (M Unit × Option Ty)) (t : M Unit)
    (inc : Option (M Unit × Option Ty)) (brk cont : Option String) :
    forArm init c t inc brk cont = (do
      let k ← count
      optRun init
      emit (.label s!".L.begin.{k}")
      forCond c brk
      t
      emit (.label (cstr cont))
      forInc inc
      emit (ins1 "jmp" (.s s!".L.begin.{k}"))
      emit (.label (cstr brk))) := by
  unfold forArm optRun forCond forInc
  cases init <;> cases c <;> cases inc <;> simp only [M_pure_bind, M_bind_assoc]

theorem SemF_forCond {A : List (String × H)} (c : Option (M Unit × Option Ty)) (brk : Option String)
    (hc : ∀ y, c = some y → SemP FlowP y.1 0 (xOf y.2) 0) (hb : startsDot (cstr brk) = true)
    (hm : (cstr brk, (⟨0, 0⟩ : H)) ∈ A) : SemF [] A 0 0 (forCond c brk) [] 0 0 0 := by
  unfold forCond
  cases c with
  | none => exact cl (Sem_pure ())
  | some y =>
    obtain ⟨c, cty⟩ := y
    have hcc : SemP FlowP c 0 (xOf cty) 0 := hc _ rfl
    exact (cl hcc ⨾ cl (Sem_cmpZero cty) ⨾
      SemF_je hb (v := ⟨0, 0⟩) hm (by constructor <;> simp <;> omega)).conv rfl rfl (by omega) (by omega)
      (by omega) (fun _ _ hm => Or.inr hm) (fun _ _ hm => (List.not_mem_nil hm).elim)

theorem SemP_forInc (inc : Option (M Unit × Option Ty))
    (hi : ∀ y, inc = some y → SemP FlowP y.1 0 (xOf y.2) 0) : SemP FlowP (forInc inc) 0 0 0 := by
  unfold forInc
  cases inc with
  | none => exact Sem_pure ()
  | some y =>
    obtain ⟨x, ty⟩ := y
    have := hi _ rfl
    sem

theorem SemF_forArm {A : List (String × H)} {t : M Unit} (init : Option (M Unit))
    (c inc : Option (M Unit × Option Ty)) (brk cont : Option String) {Gi Gt : List (String × H)}
    (hi : SemF [] A 0 0 (optRun init) Gi 0 0 0) (hc : ∀ y, c = some y → SemP FlowP y.1 0 (xOf y.2) 0)
    (ht : SemF [] A 0 0 t Gt 0 0 0) (hinc : ∀ y, inc = some y → SemP FlowP y.1 0 (xOf y.2) 0)
    (hb : userLabel (cstr brk) = true) (hcn : userLabel (cstr cont) = true)
    (hm : (cstr brk, (⟨0, 0⟩ : H)) ∈ A) :
    SemF [] A 0 0 (forArm init c t inc brk cont) (Gi ++ (Gt ++ [(cstr cont, ⟨0, 0⟩), (cstr brk, ⟨0, 0⟩)])) 0 0 0 := by
  rw [forArm_eq]
  refine (SemF_count (own := fun k => [(ctr ".L.begin." k)]) (fun k => ?_)
    (fun k => by simp) (fun k => own1_mem (by decide) k))
  have s1 : startsDot (ctr ".L.begin." k) = true := startsDot_ctr (by decide) k
  have hfc := SemF_forCond (A := (ctr ".L.begin." k, ⟨0, 0⟩) :: A) c brk hc (userLabel_elim hb).1 (List.mem_cons_of_mem _ hm)
  refine SemF.conv (A := (ctr ".L.begin." k, ⟨0, 0⟩) :: A)
    (hi.weak (by mem_solve) (by omega) (by omega) ⨾
     SemF_label_ctr' (t := ".L.begin.") (by decide) k (v := ⟨0, 0⟩) (by constructor <;> simp <;> omega) ⨾
     hfc.weak (fun _ _ h => h) (by omega) (by omega) ⨾
     ht.weak (by mem_solve) (by omega) (by omega) ⨾
     SemF_label_user' (v := ⟨0, 0⟩) hcn (by constructor <;> simp <;> omega) ⨾
     cl (SemP_forInc inc hinc) ⨾
     SemF_jmp (r := 0) (x := 0) s1 (v := ⟨0, 0⟩) (by mem_head) (by constructor <;> simp <;> omega) ⨾
     SemF_label_user' (v := ⟨0, 0⟩) hb (by constructor <;> simp <;> omega))
    rfl rfl (by omega) (by omega) (by omega) (by mem_solve) (by mem_solve)

theorem SemF_doArm {A : List (String × H)} {t c : M Unit} (cty : Option Ty) (brk cont : Option String)
    {Gt : List (String × H)} (ht : SemF [] A 0 0 t Gt 0 0 0) (hc : SemP FlowP c 0 (xOf cty) 0)
    (hb : userLabel (cstr brk) = true) (hcn : userLabel (cstr cont) = true) :
    SemF [] A 0 0 (doArm t c cty brk cont) (Gt ++ [(cstr cont, ⟨0, 0⟩), (cstr brk, ⟨0, 0⟩)]) 0 0 0 := by
  unfold doArm
  refine (SemF_count (own := fun k => [(ctr ".L.begin." k)]) (fun k => ?_)
    (fun k => by simp) (fun k => own1_mem (by decide) k))
  have s1 : startsDot (ctr ".L.begin." k) = true := startsDot_ctr (by decide) k
  refine SemF.conv (A := (ctr ".L.begin." k, ⟨0, 0⟩) :: A)
    (SemF_label_ctr' (t := ".L.begin.") (by decide) k (v := ⟨0, 0⟩) (by constructor <;> simp <;> omega) ⨾
     ht.weak (by mem_solve) (by omega) (by omega) ⨾
     SemF_label_user' (v := ⟨0, 0⟩) hcn (by constructor <;> simp <;> omega) ⨾
     cl hc ⨾ cl (Sem_cmpZero cty) ⨾
     SemF_jne s1 (v := ⟨0, 0⟩) (by mem_head) (by constructor <;> simp <;> omega) ⨾
     SemF_label_user' (v := ⟨0, 0⟩) hb (by constructor <;> simp <;> omega))
    rfl rfl (by omega) (by omega) (by omega) (by mem_solve) (by mem_solve)


/-! ### switch -/

theorem SemF_emits {A : List (String × H)} {ro xo : Int} {ls : List Line} {G : List (String × H)} {r x : Int}
    (h : FlowR A ⟨ro, xo⟩ (ls.flatMap classify) G ⟨r, x⟩) (hl : labelNames (ls.flatMap classify) = []) :
    SemF [] A ro xo (emits ls) G r x 0 := by
  intro s a s' l hm
  simp only [emits, Except.ok.injEq, Prod.mk.injEq] at hm
  obtain ⟨_, rfl, rfl⟩ := hm
  exact ⟨h, by simp, LabsR_noLabels hl (Nat.le_refl _)⟩

theorem FlowR_nil {A : List (String × H)} {o : H} : FlowR A o [] [] H.zero :=
  FlowR_closed (FlowR_deltas o [])

/-- straight-line code followed by a conditional jump to a label of the region -/
theorem FlowR_then_jcc {A : List (String × H)} {l : String} (pre : List Line) (op : String)
    (hop : op = "je" ∨ op = "jbe") (hp : delta pre = some H.zero) (hs : startsDot l = true)
    (hm : (l, (⟨0, 0⟩ : H)) ∈ A) :
    FlowR A ⟨0, 0⟩ ((pre ++ [ins1 op (.s l)]).flatMap classify) [] H.zero := by
  rw [List.flatMap_append]
  have h1 : FlowR A ⟨0, 0⟩ (pre.flatMap classify) [] H.zero := FlowR_closed (FlowR_of_delta ⟨0, 0⟩ hp)
  have h2 : FlowR A ⟨0, 0⟩ ([ins1 op (.s l)].flatMap classify) [] H.zero := by
    simp only [List.flatMap_cons, List.flatMap_nil, List.append_nil]
    rcases hop with rfl | rfl
    · rw [classify_je (jumpTarget_of_startsDot _ hs)]
      exact FlowR_cond (localRef_of_startsDot hs) hm (by decide)
    · rw [classify_jbe (jumpTarget_of_startsDot _ hs)]
      exact FlowR_cond (localRef_of_startsDot hs) hm (by decide)
  exact (FlowR_append h1 h2 (by decide)).conv (by decide) (fun _ _ h => Or.inr h) (fun _ _ h => by simpa using h)

theorem nolab_then_jcc {l : String} (pre : List Line) (op : String)
    (hop : op = "je" ∨ op = "jbe") (hp : delta pre = some H.zero) (hs : startsDot l = true) :
    labelNames ((pre ++ [ins1 op (.s l)]).flatMap classify) = [] := by
  rw [List.flatMap_append, labelNames_append, labelNames_of_delta hp]
  simp only [List.flatMap_cons, List.flatMap_nil, List.append_nil, List.nil_append]
  rcases hop with rfl | rfl
  · rw [classify_je (jumpTarget_of_startsDot _ hs)]; rfl
  · rw [classify_jbe (jumpTarget_of_startsDot _ hs)]; rfl

theorem nolab_caseLadder (wide : Bool) (c : Case) (hs : startsDot (cstr c.label) = true) :
    labelNames ((caseLadder wide c).flatMap classify) = [] := by
  unfold caseLadder
  dsimp only
  split
  · cases wide <;> (repeat' split) <;>
      exact nolab_then_jcc _ "je" (Or.inl rfl) rfl hs
  · cases wide <;> (repeat' split) <;>
      exact nolab_then_jcc _ "jbe" (Or.inr rfl) rfl hs

theorem nolab_ladder (wide : Bool) : ∀ cases : List Case,
    (∀ c ∈ cases, startsDot (cstr c.label) = true) →
    labelNames ((cases.flatMap (caseLadder wide)).flatMap classify) = []
  | [], _ => rfl
  | c :: rest, h => by
    rw [List.flatMap_cons, List.flatMap_append, labelNames_append,
      nolab_caseLadder wide c (h c List.mem_cons_self),
      nolab_ladder wide rest (fun c' hc' => h c' (List.mem_cons_of_mem _ hc'))]
    rfl

theorem FlowR_caseLadder {A : List (String × H)} (wide : Bool) (c : Case) (hs : startsDot (cstr c.label) = true)
    (hm : (cstr c.label, (⟨0, 0⟩ : H)) ∈ A) :
    FlowR A ⟨0, 0⟩ ((caseLadder wide c).flatMap classify) [] H.zero := by
  unfold caseLadder
  dsimp only
  split
  · cases wide <;> (repeat' split) <;>
      exact FlowR_then_jcc _ "je" (Or.inl rfl) rfl hs hm
  · cases wide <;> (repeat' split) <;>
      exact FlowR_then_jcc _ "jbe" (Or.inr rfl) rfl hs hm

theorem FlowR_ladder {A : List (String × H)} (wide : Bool) : ∀ cases : List Case,
    (∀ c ∈ cases, startsDot (cstr c.label) = true ∧ (cstr c.label, (⟨0, 0⟩ : H)) ∈ A) →
    FlowR A ⟨0, 0⟩ ((cases.flatMap (caseLadder wide)).flatMap classify) [] H.zero
  | [], _ => FlowR_nil
  | c :: rest, h => by
    rw [List.flatMap_cons, List.flatMap_append]
    have h1 := FlowR_caseLadder wide c (h c List.mem_cons_self).1 (h c List.mem_cons_self).2
    have h2 := FlowR_ladder wide rest (fun c' hc' => h c' (List.mem_cons_of_mem _ hc'))
    exact (FlowR_append h1 h2 (by decide)).conv (by decide) (fun _ _ h => Or.inr h) (fun _ _ h => by simpa using h)

/-- the compare ladder of a `switch` -/
def swLadder (cty : Option Ty) (cases : List Case) : M Unit :=
  match cases with
  | [] => pure ()
  | _ => do
    let ty ← needTy "node->cond->ty" cty
    emits (cases.flatMap (caseLadder (ty.size == 8)))

/-- the jump to the `default` label -/
def swDflt (dflt : Option (Option String)) : M Unit :=
  match dflt with
  | some l => emit (ins1 "jmp" (.s (cstr l)))
  | none => pure ()

theorem switchArm_eq (c : M Unit) (cty : Option Ty) (t : M Unit) (brk : Option String) (cases : List Case)
    (dflt : Option (Option String)) :
    switchArm c cty t brk cases dflt = (do
      c
      swLadder cty cases
      swDflt dflt
      emit (ins1 "jmp" (.s (cstr brk)))
      t
      emit (.label (cstr brk))) := by
  unfold switchArm swLadder swDflt
  cases cases <;> cases dflt <;> simp only [M_pure_bind, M_bind_assoc]

theorem SemF_swLadder {A : List (String × H)} (cty : Option Ty) (cases : List Case)
    (h : ∀ c ∈ cases, startsDot (cstr c.label) = true ∧ (cstr c.label, (⟨0, 0⟩ : H)) ∈ A) :
    SemF [] A 0 0 (swLadder cty cases) [] 0 0 0 := by
  unfold swLadder
  split
  · exact cl (Sem_pure ())
  · exact SemF_pre (Sem_needTy _ _) fun ty => SemF_emits (FlowR_ladder _ cases h)
      (nolab_ladder _ cases (fun c hc => (h c hc).1))

theorem SemF_swDflt {A : List (String × H)} (dflt : Option (Option String))
    (h : ∀ l, dflt = some l → startsDot (cstr l) = true ∧ (cstr l, (⟨0, 0⟩ : H)) ∈ A) :
    SemF [] A 0 0 (swDflt dflt) [] 0 0 0 := by
  unfold swDflt
  cases dflt with
  | none => exact cl (Sem_pure ())
  | some l => exact SemF_jmp (h l rfl).1 (v := ⟨0, 0⟩) (h l rfl).2 (by constructor <;> simp)

theorem SemF_switchArm {A : List (String × H)} {c t : M Unit} (cty : Option Ty) (brk : Option String)
    (cases : List Case) (dflt : Option (Option String)) {Gt : List (String × H)}
    (hc : SemP FlowP c 0 0 0) (ht : SemF [] A 0 0 t Gt 0 0 0)
    (hb : userLabel (cstr brk) = true) (hm : (cstr brk, (⟨0, 0⟩ : H)) ∈ A)
    (hcs : ∀ c ∈ cases, startsDot (cstr c.label) = true ∧ (cstr c.label, (⟨0, 0⟩ : H)) ∈ A)
    (hd : ∀ l, dflt = some l → startsDot (cstr l) = true ∧ (cstr l, (⟨0, 0⟩ : H)) ∈ A) :
    SemF [] A 0 0 (switchArm c cty t brk cases dflt) (Gt ++ [(cstr brk, ⟨0, 0⟩)]) 0 0 0 := by
  rw [switchArm_eq]
  exact (cl hc ⨾ (SemF_swLadder cty cases hcs).weak (fun _ _ h => h) (by omega) (by omega) ⨾
     (SemF_swDflt dflt hd).weak (fun _ _ h => h) (by omega) (by omega) ⨾
     SemF_jmp (r := 0) (x := 0) (userLabel_elim hb).1 (v := ⟨0, 0⟩) hm (by constructor <;> simp <;> omega) ⨾
     ht.weak (fun _ _ h => h) (by omega) (by omega) ⨾
     SemF_label_user' (v := ⟨0, 0⟩) hb (by constructor <;> simp <;> omega)).conv
    rfl rfl (by omega) (by omega) (by omega) (fun _ _ h => Or.inr h) (by mem_solve)


/-! ### return, goto, labels -/

theorem delta_regBytes (reg1 reg2 : String) (h1 : reg1 ≠ "%rsp") (h2 : reg2 ≠ "%rsp") (lo n : Nat) :
    delta (regBytes reg1 reg2 lo n) = some ⟨0, 0⟩ := by
  induction n with
  | zero => simp [regBytes, delta, H.zero]
  | succ n ih =>
    have e1 : lineDelta (ins2 "shl" (.i 8) (.r reg2)) = some ⟨0, 0⟩ := by
      simp [lineDelta, ins2, insDelta, dstIsRsp, isRsp, h2, x87Push, x87Pop, x87Same, plainOps]
    have e2 : ∀ d : Int, lineDelta (ins2 "mov" (.m d "%rdi") (.r reg1)) = some ⟨0, 0⟩ := by
      intro d
      simp [lineDelta, ins2, insDelta, dstIsRsp, isRsp, h1, x87Push, x87Pop, x87Same, plainOps]
    simp [regBytes, delta, e1, e2, ih]

section
variable {K : CodeK} [CodePred K]

theorem Sem_regBytes (reg1 reg2 : String) (h1 : reg1 ≠ "%rsp") (h2 : reg2 ≠ "%rsp") (lo n : Nat) :
    SemP K (emits (regBytes reg1 reg2 lo n)) 0 0 0 :=
  Sem_emits (delta_regBytes reg1 reg2 h1 h2 lo n)

macro_rules
  | `(tactic| sem_leaf) => `(tactic| exact Sem_regBytes _ _ (by decide) (by decide) _ _)

theorem Sem_copyStructReg (env : Env) : SemP K (copyStructReg env) 0 0 0 := by
  unfold copyStructReg
  sem

theorem Sem_copyStructMem (env : Env) : SemP K (copyStructMem env) 0 0 0 := by
  unfold copyStructMem
  sem

/-- the value part of `return`: evaluate the operand, move a struct into its return registers / buffer -/
def retVal (env : Env) (lhs : Option (M Unit × Option Ty)) : M Unit :=
  match lhs with
  | some (x, ty?) => do
    x
    let ty ← needTy "node->lhs->ty" ty?
    match ty.kind with
    | .struct | .union =>
      if ty.size ≤ 16 then copyStructReg env else copyStructMem env
    | _ => pure ()
  | none => pure ()

theorem returnArm_eq (env : Env) (lhs : Option (M Unit × Option Ty)) :
    returnArm env lhs = (do
      retVal env lhs
      emit (ins1 "jmp" (.s s!".L.return.{cstr env.fnName}"))) := by
  unfold returnArm retVal
  cases lhs with
  | none => simp only [M_pure_bind]
  | some y =>
    obtain ⟨x, ty?⟩ := y
    simp only [M_bind_assoc]
    congr 1; funext _; congr 1; funext ty
    cases ty.kind <;> simp only [M_pure_bind] <;> split <;> rfl

/-- x87 height at the jump of a `return` -/
def retX (lhs : Option (M Unit × Option Ty)) : Int :=
  match lhs with
  | some y => xOf y.2
  | none => 0

theorem Sem_retVal (env : Env) (lhs : Option (M Unit × Option Ty))
    (h : ∀ y, lhs = some y → SemP K y.1 0 (xOf y.2) 0) : SemP K (retVal env lhs) 0 (retX lhs) 0 := by
  unfold retVal retX
  cases lhs with
  | none => exact Sem_pure ()
  | some y =>
    obtain ⟨x, ty?⟩ := y
    have hx : SemP K x 0 (xOf ty?) 0 := h _ rfl
    have c1 := Sem_copyStructReg (K := K) env
    have c2 := Sem_copyStructMem (K := K) env
    dsimp only
    sem
end

theorem startsDot_retLabel (env : Env) : startsDot (retLabel env) = true :=
  startsDot_append _ _ (by decide)

theorem SemF_returnArm {A : List (String × H)} (env : Env) (lhs : Option (M Unit × Option Ty)) {xr : Int}
    (h : ∀ y, lhs = some y → SemP FlowP y.1 0 (xOf y.2) 0) (hx : retX lhs = xr)
    (hm : (retLabel env, (⟨0, xr⟩ : H)) ∈ A) : SemF [] A 0 0 (returnArm env lhs) [] 0 0 0 := by
  rw [returnArm_eq]
  exact (cl (Sem_retVal env lhs h) ⨾
    SemF_jmp (r := 0) (x := -xr) (startsDot_retLabel env) (v := ⟨0, xr⟩) hm
      (by constructor <;> simp <;> omega)).conv rfl rfl (by omega) (by omega) (by omega)
    (fun _ _ h => Or.inr h) (fun _ _ h => (List.not_mem_nil h).elim)

/-- `goto` / `break` / `continue`: a jump to a label of the region -/
theorem SemF_goto {A : List (String × H)} (i : NInfo) (l : String) (hs : startsDot l = true)
    (hm : (l, (⟨0, 0⟩ : H)) ∈ A) :
    SemF [] A 0 0 (do loc i; emit (ins1 "jmp" (.s l))) [] 0 0 0 :=
  (cl (Sem_loc i) ⨾ SemF_jmp (r := 0) (x := 0) hs (v := ⟨0, 0⟩) hm (by constructor <;> simp)).conv
    rfl rfl (by omega) (by omega) (by omega) (fun _ _ h => Or.inr h) (fun _ _ h => (List.not_mem_nil h).elim)

/-- `goto *p`: control leaves -/
theorem SemF_gotoExpr {A : List (String × H)} (i : NInfo) {e : M Unit} (he : SemP FlowP e 0 0 0) :
    SemF [] A 0 0 (do loc i; e; emit (ins1 "jmp" (.s "*%rax"))) [] 0 0 0 := by
  have hl : SemF [] A (0 - 0 - 0) (0 - 0 - 0) (emit (ins1 "jmp" (.s "*%rax"))) [] 0 0 0 := by
    have : classify (ins1 "jmp" (.s "*%rax")) = [.leave] := rfl
    refine SemF_emit ?_ ?_
    · rw [this]
      exact FlowR_leave
    · rw [this]
      exact fun n => LabsR_noLabels rfl (Nat.le_refl n)
  exact (cl (Sem_loc i) ⨾ cl he ⨾ hl).conv rfl rfl (by omega) (by omega) (by omega)
    (fun _ _ h => Or.inr h) (fun _ _ h => (List.not_mem_nil h).elim)

/-- a labelled statement / a `case` -/
theorem SemF_labelled {A : List (String × H)} (i : NInfo) (l : String) {t : M Unit} {Gt : List (String × H)}
    (hs : userLabel l = true) (ht : SemF [] A 0 0 t Gt 0 0 0) :
    SemF [] A 0 0 (do loc i; emit (.label l); t) ((l, ⟨0, 0⟩) :: Gt) 0 0 0 :=
  (cl (Sem_loc i) ⨾ SemF_label_user' (v := ⟨0, 0⟩) hs (by constructor <;> simp) ⨾
    ht.weak (fun _ _ h => h) (by omega) (by omega)).conv rfl rfl (by omega) (by omega) (by omega)
    (fun _ _ h => Or.inr h) (by mem_solve)

/-! ### regions -/

/-- labels at the region base -/
def at0 (L : List String) : List (String × H) := L.map (fun l => (l, (⟨0, 0⟩ : H)))

theorem mem_at0 {L : List String} {l : String} {v : H} : (l, v) ∈ at0 L ↔ l ∈ L ∧ v = ⟨0, 0⟩ := by
  unfold at0
  simp only [List.mem_map, Prod.mk.injEq]
  constructor
  · rintro ⟨a, ha, rfl, rfl⟩; exact ⟨ha, rfl⟩
  · rintro ⟨h1, rfl⟩; exact ⟨l, h1, rfl, rfl⟩

theorem at0_append (a b : List String) : at0 (a ++ b) = at0 a ++ at0 b := by simp [at0]

/-- a region whose own labels are all it assumes is closed -/
theorem SemP_of_region {R : List String} {m : M α} {G : List (String × H)} {x : Int}
    (h : SemF [] (at0 R) 0 0 m G 0 x 0) (hg : ∀ l, l ∈ R → (l, (⟨0, 0⟩ : H)) ∈ G) : SemP FlowP m 0 x 0 :=
  SemP_of_SemF (h.conv (A' := []) (G' := []) rfl rfl rfl rfl rfl
    (fun l v hm => Or.inl (by obtain ⟨h1, rfl⟩ := mem_at0.mp hm; exact hg l h1))
    (fun _ _ h => (List.not_mem_nil h).elim))

end ChibiVerif.Lemmas.C20
