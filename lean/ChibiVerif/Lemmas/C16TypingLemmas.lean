/-
C16: lemmas about the typing arms of ND_CAS / ND_EXCH (Model/C16Typing.lean) and the bridge from the byte-exact
code-generation model (Model/Codegen.lean: `casArm`, `exchArm`, `load`, `store`) to the instruction sequences of the
interleaving model (Model/Atomics.lean: `casArmLines`, `xchgLines`, `aloadLines`, `astoreLines`).
-/
import ChibiVerif.Model.C16Typing
import ChibiVerif.Model.Codegen

set_option linter.unusedSimpArgs false

namespace ChibiVerif.C16Typing
open ChibiVerif.Ast ChibiVerif.Atomics ChibiVerif.Asm ChibiVerif.Codegen
open ChibiVerif.Gen

/-- what an accepted ND_CAS has passed -/
theorem casCheck_ok {types : List Ty} {addr old : Option Ty} {ab ob : Ty}
    (h : casCheck types addr old = .ok (ab, ob)) :
    ∃ a o, addr = some a ∧ old = some o ∧ a.kind = .ptr ∧ o.kind = .ptr ∧
      baseOf types a = some ab ∧ baseOf types o = some ob ∧
      ab.size ≤ 8 ∧ isAtomicOperand ab = true ∧ isAtomicOperand ob = true ∧ ob.size = ab.size := by
  unfold casCheck at h
  split at h
  · rename_i a o
    refine ⟨a, o, rfl, rfl, ?_⟩
    split at h; · cases h
    split at h; · cases h
    split at h; · cases h
    split at h; · cases h
    split at h; · cases h
    split at h; · cases h
    split at h; · cases h
    split at h; · cases h
    rename_i h1 h2 _ ab' hab h3 h4 _ ob' hob h5 h6
    cases h
    simp at h1 h2 h3 h4 h5 h6
    exact ⟨h1, h2, hab, hob, by omega, h4, h5, h6⟩
  · cases h

theorem exchCheck_ok {types : List Ty} {lhs : Option Ty} {ab : Ty} (h : exchCheck types lhs = .ok ab) :
    ∃ a, lhs = some a ∧ a.kind = .ptr ∧ baseOf types a = some ab ∧ ab.size ≤ 8 ∧ isAtomicOperand ab = true := by
  unfold exchCheck at h
  split at h
  · rename_i a
    refine ⟨a, rfl, ?_⟩
    split at h; · cases h
    split at h; · cases h
    split at h; · cases h
    split at h; · cases h
    rename_i h1 _ ab' hab h3 h4
    cases h
    simp at h1 h3 h4
    exact ⟨h1, hab, by omega, h4⟩
  · cases h

/-- the unsigned `Type` literals of type.c have the sizes of the signed ones (so `scalarSize`, which reads the
    signed literal, is the size of every object of the kind) -/
theorem scalarSize_unsigned :
    (Declspec.primInfo .uchar).1 = (Declspec.primInfo .char).1 ∧ (Declspec.primInfo .ushort).1 = (Declspec.primInfo .short).1 ∧
    (Declspec.primInfo .uint).1 = (Declspec.primInfo .int).1 ∧ (Declspec.primInfo .ulong).1 = (Declspec.primInfo .long).1 := by
  decide

/-- an accepted operand type of a well-formed table has one of the four widths -/
theorem width_of_operand {b : Ty} (hop : isAtomicOperand b = true) (hwf : SizeWf b = true) (hsz : b.size ≤ 8) :
    ∃ w, widthOf b = some w ∧ b.size = (w.bytes : Int) := by
  unfold isAtomicOperand isNumeric isInteger isFlonum at hop
  unfold SizeWf scalarSize primOf at hwf
  unfold widthOf
  cases hk : b.kind <;> simp [hk] at hop hwf <;>
    simp [Declspec.primInfo, Declspec.ENUM_SIZE, Declspec.PTR_SIZE] at hwf <;>
    first
      | (exfalso; omega)
      | (simp [hwf, Width.ofBytes?, Width.bytes])

/-! ### running the code-generation monad -/

theorem run_bind {α β : Type} (m : M α) (f : α → M β) (s : St) :
    (m >>= f) s = match m s with
      | .error e => .error e
      | .ok (a, s1, l1) =>
        match f a s1 with
        | .error e => .error e
        | .ok (b, s2, l2) => .ok (b, s2, l1 ++ l2) := rfl

theorem run_pure {α : Type} (a : α) (s : St) : (pure a : M α) s = .ok (a, s, []) := rfl
theorem run_emit (l : Line) (s : St) : emit l s = .ok ((), s, [l]) := rfl
theorem run_emits (ls : List Line) (s : St) : emits ls s = .ok ((), s, ls) := rfl
theorem run_addDepth (d : Int) (s : St) : addDepth d s = .ok ((), { s with depth := s.depth + d }, []) := rfl
theorem run_push (s : St) : push s = .ok ((), { s with depth := s.depth + 1 }, [pushRax]) := rfl
theorem run_pop (r : String) (s : St) : Codegen.pop r s = .ok ((), { s with depth := s.depth + -1 }, [Atomics.pop r]) := rfl
theorem run_needTy (what : String) (t : Ty) (s : St) : needTy what (some t) s = .ok (t, s, []) := rfl

theorem regAx_width (w : Width) (s : St) : Codegen.regAx (w.bytes : Int) s = .ok (Atomics.regAx w, s, []) := by
  cases w <;> rfl

theorem regDx_width (w : Width) (s : St) : Codegen.regDx (w.bytes : Int) s = .ok (Atomics.regDx w, s, []) := by
  cases w <;> rfl

theorem env_ty?_eq (env : Env) (t : Ty) : env.ty? t.base = baseOf env.types t := rfl

/-- the load of the expected value in ND_CAS -/
theorem casOld_load {ob : Ty} {w : Width} (hop : isAtomicOperand ob = true) (hwf : SizeWf ob = true)
    (hsz : ob.size = (w.bytes : Int)) (s : St) :
    (if Codegen.isFlonum ob then (do emit (ins2 "mov" (.m0 "%rax") (.r (← Codegen.regAx ob.size)))) else load (some ob)) s
      = .ok ((), s, [casOldLoadLine w (kindOf ob)]) := by
  unfold isAtomicOperand isNumeric isInteger isFlonum at hop
  unfold SizeWf scalarSize primOf at hwf
  cases hk : ob.kind <;> simp [hk] at hop hwf <;>
    simp [Declspec.primInfo, Declspec.ENUM_SIZE, Declspec.PTR_SIZE] at hwf <;>
    cases w <;> simp [Width.bytes, hwf] at hsz <;>
    cases hu : ob.isUnsigned <;>
    simp [Codegen.isFlonum, load, hk, hu, hwf, run_bind, run_emit, run_needTy, kindOf, casOldLoadLine, loadLine, Codegen.regAx,
      Atomics.regAx, Codegen.rax, pure, M.pure]

theorem xmm0_eq : xmm 0 = .r "%xmm0" := by decide

/-- ND_CAS: the bits of a floating desired value go to %rax (`node->cas_new->ty->kind`; `cas_new` has been cast to the
    object type) -/
theorem flonumToRax_eq {nt ab : Ty} {w : Width} (hnk : nt.kind = ab.kind) (hop : isAtomicOperand ab = true)
    (hwf : SizeWf ab = true) (hsz : ab.size = (w.bytes : Int)) :
    flonumToRax w (kindOf ab) =
      (if nt.kind = .float then [ins2 "movd" (.r "%xmm0") (.r "%eax")]
       else if nt.kind = .double then [ins2 "movq" (.r "%xmm0") (.r "%rax")] else []) := by
  unfold isAtomicOperand isNumeric isInteger isFlonum at hop
  unfold SizeWf scalarSize primOf at hwf
  rw [hnk]
  cases hk : ab.kind <;> simp [hk] at hop hwf <;>
    simp [Declspec.primInfo, Declspec.ENUM_SIZE, Declspec.PTR_SIZE] at hwf <;>
    cases w <;> simp [Width.bytes, hwf] at hsz <;>
    cases hu : ab.isUnsigned <;>
    simp [hk, hu, kindOf, flonumToRax]

theorem load_operand {ob : Ty} {w : Width} (hop : isAtomicOperand ob = true) (hwf : SizeWf ob = true)
    (hsz : ob.size = (w.bytes : Int)) (hnf : Codegen.isFlonum ob = false) (s : St) :
    load (some ob) s = .ok ((), s, [casOldLoadLine w (kindOf ob)]) := by
  have := casOld_load hop hwf hsz s
  simpa [hnf] using this

theorem casOld_flo {ob : Ty} {w : Width} (hop : isAtomicOperand ob = true) (hwf : SizeWf ob = true)
    (hsz : ob.size = (w.bytes : Int)) (hf : Codegen.isFlonum ob = true) :
    casOldLoadLine w (kindOf ob) = ins2 "mov" (.m0 "%rax") (.r (Atomics.regAx w)) := by
  unfold isAtomicOperand isNumeric isInteger isFlonum at hop
  unfold SizeWf scalarSize primOf at hwf
  cases hk : ob.kind <;> simp [hk, Codegen.isFlonum] at hop hwf hf <;>
    simp [Declspec.primInfo] at hwf <;>
    cases w <;> simp [Width.bytes, hwf] at hsz <;>
    simp [kindOf, hk, casOldLoadLine]

/-- **bridge for ND_CAS.**  For an ND_CAS the type checker accepts (well-formed type table), whatever the three
    argument expressions print, `casArm` prints: `addr`; `push %rax`; `new`; the move of a floating value to %rax;
    `push %rax`; `old`; and then exactly `casArmLines w k` of the interleaving model, where `w` is the ONE width
    `|*addr| = |*old|` and `k` the kind of `*old`. -/
theorem casArm_lines (env : Env) (addr old new : M Unit) (aty oty nty : Option Ty) (ab ob nt : Ty)
    (hchk : casCheck env.types aty oty = .ok (ab, ob))
    (hwa : SizeWf ab = true) (hwo : SizeWf ob = true)
    (hnty : nty = some nt) (hnk : nt.kind = ab.kind)
    (s0 s1 s2 s3 : St) (la ln lo : List Line)
    (ha : addr s0 = .ok ((), s1, la))
    (hn : new { s1 with depth := s1.depth + 1 } = .ok ((), s2, ln))
    (ho : old { s2 with depth := s2.depth + 1 } = .ok ((), s3, lo)) :
    ∃ w, widthOf ab = some w ∧ widthOf ob = some w ∧
      casArm env addr aty old oty new nty s0 =
        .ok ((), { s3 with depth := s3.depth + -1 + -1 },
          la ++ [pushRax] ++ ln ++ flonumToRax w (kindOf ab) ++ [pushRax] ++ lo ++ casArmLines w (kindOf ob)) := by
  obtain ⟨a, o, rfl, rfl, hak, hok, hab, hob, hle, hopa, hopo, hsz⟩ := casCheck_ok hchk
  obtain ⟨w, hw, hws⟩ := width_of_operand hopa hwa hle
  have hwo' : widthOf ob = some w := by unfold widthOf at hw ⊢; rw [hsz]; exact hw
  refine ⟨w, hw, hwo', ?_⟩
  subst hnty
  have hos : ob.size = (w.bytes : Int) := by rw [hsz, hws]
  rw [flonumToRax_eq hnk hopa hwa hws]
  unfold casArm
  simp only [run_bind, ha, run_push, hn, run_needTy]
  cases hfo : Codegen.isFlonum ob
  · by_cases hf : nt.kind = .float
    · simp [hf, run_bind, run_emit, run_push, ho, run_needTy, env_ty?_eq, hob, hab, hfo, load_operand hopo hwo hos hfo,
        run_pop, hws, regDx_width, regAx_width, casArmLines, rmwLines, Codegen.rax, pushRax, Atomics.pop, xmm0_eq]
    · by_cases hd : nt.kind = .double
      · simp [hd, run_bind, run_emit, run_push, ho, run_needTy, env_ty?_eq, hob, hab, hfo, load_operand hopo hwo hos hfo,
          run_pop, hws, regDx_width, regAx_width, casArmLines, rmwLines, Codegen.rax, pushRax, Atomics.pop, xmm0_eq]
      · simp [hf, hd, run_bind, run_emit, run_push, ho, run_needTy, env_ty?_eq, hob, hab, hfo,
          load_operand hopo hwo hos hfo, run_pop, hws, regDx_width, regAx_width, casArmLines, rmwLines, Codegen.rax,
          pushRax, Atomics.pop]
  · by_cases hf : nt.kind = .float
    · simp [hf, run_bind, run_emit, run_push, ho, run_needTy, env_ty?_eq, hob, hab, hfo, casOld_flo hopo hwo hos hfo,
        run_pop, hws, hos, regDx_width, regAx_width, casArmLines, rmwLines, Codegen.rax, pushRax, Atomics.pop, xmm0_eq]
    · by_cases hd : nt.kind = .double
      · simp [hd, run_bind, run_emit, run_push, ho, run_needTy, env_ty?_eq, hob, hab, hfo, casOld_flo hopo hwo hos hfo,
          run_pop, hws, hos, regDx_width, regAx_width, casArmLines, rmwLines, Codegen.rax, pushRax, Atomics.pop, xmm0_eq]
      · simp [hf, hd, run_bind, run_emit, run_push, ho, run_needTy, env_ty?_eq, hob, hab, hfo,
          casOld_flo hopo hwo hos hfo, run_pop, hws, hos, regDx_width, regAx_width, casArmLines, rmwLines, Codegen.rax,
          pushRax, Atomics.pop]

/-- **bridge for ND_EXCH.**  For an ND_EXCH the type checker accepts, `exchArm` prints `lhs`; `push %rax`; `rhs`; and then
    exactly `xchgLines w k` of the interleaving model (`pop %rdi`, the move of a floating value to %rax, the `xchg` on the
    `w`-bit sub-register, the move back / the extension of a 1- or 2-byte value). -/
theorem exchArm_lines (env : Env) (lhs rhs : M Unit) (lty : Option Ty) (ab : Ty)
    (hchk : exchCheck env.types lty = .ok ab) (hwa : SizeWf ab = true)
    (s0 s1 s2 : St) (ll lr : List Line)
    (hl : lhs s0 = .ok ((), s1, ll))
    (hr : rhs { s1 with depth := s1.depth + 1 } = .ok ((), s2, lr)) :
    ∃ w, widthOf ab = some w ∧
      exchArm env lhs lty rhs s0 =
        .ok ((), { s2 with depth := s2.depth + -1 }, ll ++ [pushRax] ++ lr ++ xchgLines w (kindOf ab)) := by
  obtain ⟨a, rfl, hak, hab, hle, hopa⟩ := exchCheck_ok hchk
  obtain ⟨w, hw, hws⟩ := width_of_operand hopa hwa hle
  refine ⟨w, hw, ?_⟩
  unfold exchArm
  simp only [run_bind, hl, run_push, hr, run_pop, run_needTy, env_ty?_eq, hab]
  unfold isAtomicOperand isNumeric isInteger isFlonum at hopa
  unfold SizeWf scalarSize primOf at hwa
  cases hk : ab.kind <;> simp [hk] at hopa hwa <;>
    simp [Declspec.primInfo, Declspec.ENUM_SIZE, Declspec.PTR_SIZE] at hwa <;>
    cases w <;> simp [Width.bytes, hwa] at hws <;>
    cases hu : ab.isUnsigned <;>
    simp [hk, hu, hwa, run_bind, run_emit, run_pure, Codegen.regAx, kindOf, xchgLines, flonumToRax, Atomics.regAx,
      Codegen.rax, xmm0_eq, pushRax, Atomics.pop, pure, M.pure]

/-- plain read of an object the read-modify-write checker accepts: `load` prints exactly one instruction, the one of
    the interleaving model's `atomic_load` step -/
theorem load_single {b : Ty} (hop : isAtomicOperand b = true) (hwf : SizeWf b = true) (hle : b.size ≤ 8) (s : St) :
    ∃ w, widthOf b = some w ∧ load (some b) s = .ok ((), s, aloadLines w (kindOf b)) := by
  obtain ⟨w, hw, hws⟩ := width_of_operand hop hwf hle
  refine ⟨w, hw, ?_⟩
  unfold isAtomicOperand isNumeric isInteger isFlonum at hop
  unfold SizeWf scalarSize primOf at hwf
  cases hk : b.kind <;> simp [hk] at hop hwf <;>
    simp [Declspec.primInfo, Declspec.ENUM_SIZE, Declspec.PTR_SIZE] at hwf <;>
    cases w <;> simp [Width.bytes, hwf] at hws <;>
    cases hu : b.isUnsigned <;>
    simp [load, hk, hu, hwf, run_bind, run_emit, run_needTy, kindOf, aloadLines, loadLine, Codegen.rax, xmm0_eq, pure, M.pure]

/-- plain write: `store` prints `pop %rdi` and exactly one store instruction of the object's width -/
theorem store_single {b : Ty} (hop : isAtomicOperand b = true) (hwf : SizeWf b = true) (hle : b.size ≤ 8) (s : St) :
    ∃ w, widthOf b = some w ∧
      store (some b) s = .ok ((), { s with depth := s.depth + -1 }, astoreLines w (kindOf b)) := by
  obtain ⟨w, hw, hws⟩ := width_of_operand hop hwf hle
  refine ⟨w, hw, ?_⟩
  unfold isAtomicOperand isNumeric isInteger isFlonum at hop
  unfold SizeWf scalarSize primOf at hwf
  cases hk : b.kind <;> simp [hk] at hop hwf <;>
    simp [Declspec.primInfo, Declspec.ENUM_SIZE, Declspec.PTR_SIZE] at hwf <;>
    cases w <;> simp [Width.bytes, hwf] at hws <;>
    cases hu : b.isUnsigned <;>
    simp [store, hk, hu, hwf, run_bind, run_emit, run_pop, run_needTy, kindOf, astoreLines, storeLine, Atomics.regAx,
      Codegen.rax, xmm0_eq, Atomics.pop, pure, M.pure]

/-- the converse of `casCheck_ok`: the checker accepts exactly these operands -/
theorem casCheck_accepts {types : List Ty} {a o ab ob : Ty} (hak : a.kind = .ptr) (hok : o.kind = .ptr)
    (hab : baseOf types a = some ab) (hob : baseOf types o = some ob) (hle : ab.size ≤ 8)
    (hopa : isAtomicOperand ab = true) (hopo : isAtomicOperand ob = true) (hsz : ob.size = ab.size) :
    casCheck types (some a) (some o) = .ok (ab, ob) := by
  have : ¬ ab.size > 8 := by omega
  simp [casCheck, hak, hok, hab, hob, this, hopa, hopo, hsz]

end ChibiVerif.C16Typing
