/-
C19 — lemmas for the second preprocessing pass (Model/C19Bridge.lean):

* `preprocess2_inert`: the loop of `preprocess2` (Model/PP.lean) returns its input list unchanged — every field of every
  token, and the state — when no token is a directive `#` and `find_macro` finds none of them.
* the bridge: for a freshly tokenized token, `is_hash` / `find_macro` in the table of `init_macros` are decided by the
  spelling (`isInitMacro`, `[35]`), with no assumption on the code points; the way back (`ofPP ∘ toPP = id`) needs every
  code point to be a Unicode scalar value.
* `preprocess2_out_not_hash`: no token the loop of `preprocess2` emits is a directive `#` (at_bol, no origin).
-/
import ChibiVerif.Model.C19Bridge
import ChibiVerif.Lemmas.LexSeq

namespace ChibiVerif.C19Bridge
open ChibiVerif ChibiVerif.PP

/-! ### `preprocess2` on a list with nothing to do -/

theorem preprocess2_inert (lx : String → LexOne) (st : St) :
    ∀ (us : List PP.Tok) (n : Nat), us.length ≤ n →
      (∀ u ∈ us, isHash u = false ∧ findMacro st.defs u = none) →
      preprocess2 lx n st us = .ok (us, st) := by
  intro us
  induction us with
  | nil => intro n _ _; cases n <;> rfl
  | cons u us ih =>
    intro n hn h
    cases n with
    | zero => simp at hn
    | succ n =>
      have hu := h u (List.mem_cons_self ..)
      have hi := ih n (by simpa using hn) (fun x hx => h x (List.mem_cons_of_mem _ hx))
      have he : expandMacro lx (fun st ts => preprocess2 lx n st ts) st u us = .ok none := by
        unfold expandMacro
        rw [hu.2]
        split <;> rfl
      rw [preprocess2, he]
      simp only [hu.1, hi]
      rfl

/-- every token of the output of `preprocess2` went through the pass-through arm: it is not a directive `#` -/
theorem preprocess2_out_not_hash (lx : String → LexOne) :
    ∀ (n : Nat) (st : St) (ts out : List PP.Tok) (st' : St),
      preprocess2 lx n st ts = .ok (out, st') → ∀ u ∈ out, isHash u = false := by
  intro n
  induction n with
  | zero =>
    intro st ts out st' h u hu
    cases ts with
    | nil => simp only [preprocess2, Except.ok.injEq, Prod.mk.injEq] at h; rw [← h.1] at hu; cases hu
    | cons t r => simp [preprocess2] at h
  | succ n ih =>
    intro st ts out st' h u hu
    cases ts with
    | nil => simp only [preprocess2, Except.ok.injEq, Prod.mk.injEq] at h; rw [← h.1] at hu; cases hu
    | cons t r =>
      rw [preprocess2] at h
      split at h
      · cases h
      · exact ih _ _ _ _ h u hu
      · split at h
        · rename_i hnh
          cases hr : preprocess2 lx n st r with
          | error e => rw [hr] at h; cases h
          | ok p =>
            rw [hr] at h
            simp only [Except.map, Except.ok.injEq, Prod.mk.injEq] at h
            rw [← h.1] at hu
            cases hu with
            | head => simpa using hnh
            | tail _ hm => exact ih st r p.1 p.2 (by rw [hr]) u hm
        · split at h
          · cases h
          · exact ih _ _ _ _ h u hu

/-! ### spellings: `String` ↔ code points -/

theorem ofNat_eq (x : Nat) (c : Char) (h : Char.ofNat x = c) (hc : c ≠ '\x00') : x = c.toNat := by
  unfold Char.ofNat at h
  split at h
  · subst h; rfl
  · exact absurd h.symm hc

theorem toNat_ofNat (x : Nat) (h : Nat.isValidChar x) : (Char.ofNat x).toNat = x := by
  unfold Char.ofNat
  rw [dif_pos h]; rfl

theorem map_ofNat_eq : ∀ (a : List Nat) (l : List Char), a.map Char.ofNat = l → (∀ c ∈ l, c ≠ '\x00') →
    a = l.map Char.toNat := by
  intro a
  induction a with
  | nil => intro l h _; subst h; rfl
  | cons x a ih =>
    intro l h hl
    cases l with
    | nil => simp at h
    | cons c l =>
      simp only [List.map_cons, List.cons.injEq] at h
      simp only [List.map_cons]
      rw [ofNat_eq x c h.1 (hl c (List.mem_cons_self ..)), ← ih l h.2 (fun d hd => hl d (List.mem_cons_of_mem _ hd))]

/-- a spelling whose `String` form is a NUL-free string IS that string's code points (no validity assumption: an invalid
    code point becomes NUL under `Char.ofNat`) -/
theorem str_eq (a : List Nat) (s : String) (h : str a = s) (hs : ∀ c ∈ s.toList, c ≠ '\x00') : a = cps s := by
  unfold str at h
  have : a.map Char.ofNat = s.toList := by rw [← h, String.toList_ofList]
  exact map_ofNat_eq a _ this hs

theorem cps_str (a : List Nat) (h : ∀ c ∈ a, Nat.isValidChar c) : cps (str a) = a := by
  unfold cps str
  rw [String.toList_ofList, List.map_map]
  induction a with
  | nil => rfl
  | cons x a ih =>
    simp only [List.map_cons, Function.comp]
    rw [toNat_ofNat x (h x (List.mem_cons_self ..))]
    congr 1
    exact ih (fun c hc => h c (List.mem_cons_of_mem _ hc))

/-! ### `find_macro` and `is_hash` on a freshly tokenized token, in the table of `init_macros` -/

theorem initNames_nul_free : ∀ n ∈ initNames, ∀ c ∈ n.toList, c ≠ '\x00' := by
  have h : initNames.all (fun n => n.toList.all (· ≠ '\x00')) = true := by decide
  intro n hn c hc
  have := List.all_eq_true.mp h n hn
  have := List.all_eq_true.mp this c hc
  simpa using this

theorem lookup_init_none (a : List Nat) (h : isInitMacro a = false) : PP.initDefs.lookup (str a) = none := by
  rw [List.lookup_eq_none_iff]
  intro p hp
  rw [bne_iff_ne]
  intro he
  have hn : p.1 ∈ initNames := List.mem_map.mpr ⟨p, hp, rfl⟩
  have ha := str_eq a p.1 he (initNames_nul_free p.1 hn)
  have : isInitMacro a = true := by
    unfold isInitMacro
    rw [List.any_eq_true]
    exact ⟨p.1, hn, by rw [ha]; exact beq_self_eq_true _⟩
  rw [h] at this; cases this

theorem findMacro_toPP_none (t : Lex.Tok) (l : Nat) (h : isInitMacro t.text = false) :
    PP.findMacro PP.initDefs (toPP t l) = none := by
  unfold PP.findMacro
  split
  · exact lookup_init_none t.text h
  · rfl

theorem isHash_toPP (t : Lex.Tok) (l : Nat) (h : (t.atBol && t.text == [35]) = false) :
    PP.isHash (toPP t l) = false := by
  unfold PP.isHash
  cases hb : t.atBol
  · simp [toPP, hb]
  · rw [hb, Bool.true_and] at h
    have hne : str t.text ≠ "#" := by
      intro he
      have := str_eq t.text "#" he (by decide)
      rw [this] at h
      revert h; decide
    simp [toPP, hne]

/-! ### the token list handed to the second pass -/

theorem mem_toPPsFrom : ∀ (ts : List Lex.Tok) (l : Nat) (u : PP.Tok), u ∈ toPPsFrom l ts → ∃ t ∈ ts, ∃ l', u = toPP t l' := by
  intro ts
  induction ts with
  | nil => intro l u h; cases h
  | cons t ts ih =>
    intro l u h
    simp only [toPPsFrom] at h
    cases h with
    | head => exact ⟨t, List.mem_cons_self .., _, rfl⟩
    | tail _ hm =>
      obtain ⟨t', ht', l', hl'⟩ := ih _ u hm
      exact ⟨t', List.mem_cons_of_mem _ ht', l', hl'⟩

theorem length_toPPsFrom : ∀ (ts : List Lex.Tok) (l : Nat), (toPPsFrom l ts).length = ts.length := by
  intro ts
  induction ts with
  | nil => intro l; rfl
  | cons t ts ih => intro l; simp [toPPsFrom, ih]

theorem kindOfPP_kindToPP (k : Lex.Kind) : kindOfPP (kindToPP k) = k := by cases k <;> rfl

theorem ofPP_toPP (t : Lex.Tok) (l : Nat) (h : ∀ c ∈ t.text, Nat.isValidChar c) : ofPP (toPP t l) = t := by
  cases t with
  | mk k a b s =>
    simp only [ofPP, toPP, kindOfPP_kindToPP]
    rw [cps_str a h]

theorem map_ofPP_toPPsFrom : ∀ (ts : List Lex.Tok) (l : Nat), validText ts = true → (toPPsFrom l ts).map ofPP = ts := by
  intro ts
  induction ts with
  | nil => intro l _; rfl
  | cons t ts ih =>
    intro l h
    simp only [validText, List.all_cons, Bool.and_eq_true] at h
    have ht : ∀ c ∈ t.text, Nat.isValidChar c := by
      intro c hc
      have := List.all_eq_true.mp h.1 c hc
      simpa using this
    simp only [toPPsFrom, List.map_cons]
    rw [ofPP_toPP t _ ht, ih _ h.2]

/-- **the second pass is the identity on an inert list** — on every field of every token (kind, spelling, flags, hide
    set, origin, line), for every display name and every sufficient amount of fuel -/
theorem secondPassX_inert (fuel : Nat) (file : String) (ts' : List Lex.Tok) (hf : ts'.length ≤ fuel)
    (hin : inertInit ts' = true) : secondPassX fuel file ts' = .ok (toPPs ts') := by
  unfold secondPassX PP.preprocess
  have := preprocess2_inert Lex.lexOne (PP.initSt file) (toPPs ts') fuel
    (by unfold toPPs; rw [length_toPPsFrom]; exact hf)
    (by
      intro u hu
      obtain ⟨t, ht, l, rfl⟩ := mem_toPPsFrom ts' 0 u hu
      have h := List.all_eq_true.mp hin t ht
      simp only [Bool.and_eq_true, Bool.not_eq_true'] at h
      exact ⟨isHash_toPP t l h.1, findMacro_toPP_none t l h.2⟩)
  rw [this]
  rfl

theorem secondPass_inert (fuel : Nat) (file : String) (ts' : List Lex.Tok) (hf : ts'.length ≤ fuel)
    (hin : inertInit ts' = true) (hv : validText ts' = true) : secondPass fuel file ts' = ts' := by
  unfold secondPass
  rw [secondPassX_inert fuel file ts' hf hin]
  exact map_ofPP_toPPsFrom ts' 0 hv

/-! ### `inertInit` and `validText` only read spellings and `at_bol` -/

theorem validText_congr : ∀ (us ts : List Lex.Tok), us.map (·.text) = ts.map (·.text) → validText us = validText ts := by
  intro us
  induction us with
  | nil => intro ts h; cases ts with
    | nil => rfl
    | cons t ts => simp at h
  | cons u us ih =>
    intro ts h
    cases ts with
    | nil => simp at h
    | cons t ts =>
      simp only [List.map_cons, List.cons.injEq] at h
      simp only [validText, List.all_cons, h.1] at ih ⊢
      rw [ih ts h.2]

theorem length_eq_of_map_text (us ts : List Lex.Tok) (h : us.map (·.text) = ts.map (·.text)) : us.length = ts.length := by
  have := congrArg List.length h
  simpa using this

/-! ### re-reading a printed list whose first token is not at the beginning of a line -/

open ChibiVerif.Lex in
theorem sepBefore_prev_congr (p p' : Lex.Tok) (t : Lex.Tok) (h : p.text = p'.text) :
    sepBefore (some p) t = sepBefore (some p') t := by
  simp [sepBefore, h]

open ChibiVerif.Lex in
theorem printFrom_prev_congr (p p' : Lex.Tok) (ts : List Lex.Tok) (h : p.text = p'.text) :
    printFrom (some p) ts = printFrom (some p') ts := by
  cases ts with
  | nil => rfl
  | cons t r => simp only [printFrom, sepBefore_prev_congr p p' t h]

open ChibiVerif.Lex in
theorem relexed_cons (t : Lex.Tok) (r : List Lex.Tok) :
    ∃ s, relexed (t :: r) = ⟨kindOf t.text, t.text, true, s⟩ :: tokensOf (false, false) (itemsOf (some t) r) := by
  unfold relexed
  simp only [itemsOf, tokensOf]
  cases hb : t.atBol <;> cases hs : t.hasSpace <;> simp [sepBefore, blankFlags, hb, hs]

open ChibiVerif.Lex in
/-- the text printed from the re-read list is the text printed from the list with `at_bol` set on its first token -/
theorem printTokens_relexed (ts : List Lex.Tok) : printTokens (relexed ts) = printTokens (normFirst ts) := by
  cases ts with
  | nil => rfl
  | cons t r =>
    obtain ⟨s, hs⟩ := relexed_cons t r
    rw [hs]
    have hr := printFrom_relex r (some t) (some ⟨kindOf t.text, t.text, true, s⟩) rfl (fun e => by cases e)
    have hsf : startFlags (some t) = (false, false) := rfl
    rw [hsf] at hr
    simp only [printTokens, normFirst, printFrom]
    rw [hr.1, printFrom_prev_congr { t with atBol := true } t r rfl]
    simp [sepBefore]

open ChibiVerif.Lex in
theorem relexed_atBol (ts : List Lex.Tok) : (relexed ts).map (·.atBol) = (normFirst ts).map (·.atBol) := by
  cases ts with
  | nil => rfl
  | cons t r =>
    obtain ⟨s, hs⟩ := relexed_cons t r
    rw [hs]
    have hr := printFrom_relex r (some t) (some ⟨kindOf t.text, t.text, true, s⟩) rfl (fun e => by cases e)
    have hsf : startFlags (some t) = (false, false) := rfl
    rw [hsf] at hr
    simp only [normFirst, List.map_cons, hr.2]

theorem normFirst_text (ts : List Lex.Tok) : (normFirst ts).map (·.text) = ts.map (·.text) := by
  cases ts <;> rfl

open ChibiVerif.Lex in
/-- what the blank costs: the printed text is that of the normalised list, possibly after one blank -/
theorem printTokens_normFirst (ts : List Lex.Tok) :
    printTokens ts = printTokens (normFirst ts) ∨ printTokens ts = 32 :: printTokens (normFirst ts) := by
  cases ts with
  | nil => exact .inl rfl
  | cons t r =>
    simp only [printTokens, normFirst, printFrom]
    rw [printFrom_prev_congr { t with atBol := true } t r rfl]
    cases hb : t.atBol <;> cases hs : t.hasSpace <;> simp [sepBefore, hb, hs]

end ChibiVerif.C19Bridge
