/-
Helper lemmas for C10, #include resolution and re-inclusion shortcuts (Model/IncludeSearch.lean):
* search order: `includePaths_eq_chain`, `resolveInclude_eq_search`, `searchIncludeNext_eq`, `dirPrefixIdx_found`
* cache: `searchIncludePaths_cache`
* shortcuts: `runInc_guarded_file`, `runInc_guards_transparent`, pragma once
* command line: `run_duLines`
-/
import ChibiVerif.Spec.IncludeSearchSpec
import ChibiVerif.Lemmas.CondInclLemmas
namespace ChibiVerif.IncludeSearch
open ChibiVerif.CondIncl ChibiVerif.Spec.IncludeSearch
variable {ε β : Type}

theorem includePaths_eq_chain (c : Config) : includePaths c = chain c := by
  simp [includePaths, ChibiVerif.Gen.C10Incl.pathOrder, Config.seg, chain]

theorem firstExisting_eq_firstIn (fsx : String → Bool) (dirs : List String) (name : String) :
    firstExisting fsx dirs name = firstIn fsx dirs name := by
  induction dirs with
  | nil => rfl
  | cons d ds ih =>
    simp only [firstExisting, List.map_cons, List.find?_cons, firstIn] at ih ⊢
    cases fsx (joinPath d name) <;> simp [ih]

/-- every cache entry is what an uncached search would return now -/
def CacheOK (fsx : String → Bool) (paths : List String) (cache : Cache) : Prop :=
  ∀ n p, cache.get n = some p → firstExisting fsx paths n = some p

theorem CacheOK_nil (fsx : String → Bool) (paths : List String) : CacheOK fsx paths [] := by
  intro n p h; simp [Cache.get] at h

theorem Cache.get_cons (n p : String) (c : Cache) (m : String) :
    Cache.get ((n, p) :: c) m = if n == m then some p else Cache.get c m := by
  simp only [Cache.get, List.find?_cons]
  cases h : (n == m) <;> simp

/-- the cache never changes an answer, and stays sound -/
theorem searchIncludePaths_cache (fsx : String → Bool) (paths : List String) (cache : Cache) (name : String)
    (hc : CacheOK fsx paths cache) :
    (searchIncludePaths fsx paths cache name).1 = (searchIncludePaths fsx paths [] name).1 ∧
    CacheOK fsx paths (searchIncludePaths fsx paths cache name).2 := by
  unfold searchIncludePaths
  by_cases ha : isAbs name = true
  · simp [ha, hc]
  · simp only [ha, Bool.false_eq_true, if_false]
    have hnil : Cache.get [] name = none := by simp [Cache.get]
    rw [hnil]
    cases hg : cache.get name with
    | some p =>
      have := hc name p hg
      simp [this, hc]
    | none =>
      cases hf : firstExisting fsx paths name with
      | none => simp [hc]
      | some p =>
        refine ⟨rfl, ?_⟩
        intro n q hq
        rw [Cache.get_cons] at hq
        by_cases hn : (name == n) = true
        · simp only [hn, if_true, Option.some.injEq] at hq
          have : name = n := by simpa using hn
          subst this; subst hq; exact hf
        · simp only [hn, Bool.false_eq_true, if_false] at hq
          exact hc n q hq

theorem searchIncludePaths_nil (fsx : String → Bool) (paths : List String) (name : String) :
    (searchIncludePaths fsx paths [] name).1 = if isAbs name then some name else firstExisting fsx paths name := by
  unfold searchIncludePaths
  by_cases ha : isAbs name = true
  · simp [ha]
  · simp only [ha, Bool.false_eq_true, if_false]
    have hnil : Cache.get [] name = none := by simp [Cache.get]
    rw [hnil]
    cases firstExisting fsx paths name <;> rfl

/-- `#include`: the model opens the file the documented order names (or, when there is none, hands
    the name itself to `include_file`) -/
theorem resolveInclude_eq_search (fsx : String → Bool) (c : Config) (cache : Cache) (cur : String) (dq : Bool)
    (name : String) (hc : CacheOK fsx (includePaths c) cache) :
    (resolveInclude fsx (includePaths c) cache cur dq name).1 = (search fsx c (dirname cur) dq name).getD name := by
  unfold resolveInclude search
  have hs := (searchIncludePaths_cache fsx (includePaths c) cache name hc).1
  rw [searchIncludePaths_nil] at hs
  by_cases ha : isAbs name = true
  · simp [ha, hs]
  · simp only [ha, Bool.false_eq_true, if_false, Bool.not_false, Bool.true_and] at hs ⊢
    rw [← includePaths_eq_chain]
    cases dq with
    | false =>
      simp only [Bool.false_and, Bool.false_eq_true, if_false, List.nil_append, hs, firstExisting_eq_firstIn]
    | true =>
      simp only [Bool.true_and, if_true, List.singleton_append, firstIn]
      cases hx : fsx (joinPath (dirname cur) name) with
      | true => simp
      | false => simp [hs, firstExisting_eq_firstIn]

theorem searchIncludeNext_eq (fsx : String → Bool) (c : Config) (name cur : String) :
    searchIncludeNext fsx (includePaths c) name cur = searchNext fsx c (dirPrefixIdx (includePaths c) cur) name := by
  simp only [searchIncludeNext, searchNext, firstExisting_eq_firstIn, includePaths_eq_chain]
  cases dirPrefixIdx (chain c) cur <;> rfl

theorem isDirPrefix_join (d n : String) : isDirPrefix d (joinPath d n) = true := by
  simp [isDirPrefix, joinPath, String.toList_append, List.isPrefixOf_iff_prefix]

/-- if the current file was found in directory number `i` of the chain and no earlier directory of
    the chain is a path prefix of it (no nested include directories), the prefix rule of
    `search_include_next` recovers `i` -/
theorem dirPrefixIdx_found (paths : List String) (i : Nat) (hi : i < paths.length) (n : String)
    (hno : ∀ j (hj : j < i), isDirPrefix (paths[j]'(Nat.lt_trans hj hi)) (joinPath paths[i] n) = false) :
    dirPrefixIdx paths (joinPath paths[i] n) = some i := by
  unfold dirPrefixIdx
  have : paths.findIdx (isDirPrefix · (joinPath paths[i] n)) = i := by
    rw [List.findIdx_eq hi]
    refine ⟨isDirPrefix_join _ _, ?_⟩
    intro j hj
    simpa using hno j hj
  simp [this, hi]


-- ------------------------------------------------------------------ guard table

/-- every entry of `include_guards` was computed by `detect_include_guard` from the file's content -/
def GuardsOK (fs : FS ε β) (guards : List (String × String)) : Prop :=
  ∀ p g, guardOf guards p = some g → ∃ ls, fs.get p = some ls ∧ detectGuard (ls.map ILine.toLine) = some g

theorem GuardsOK_nil (fs : FS ε β) : GuardsOK fs [] := by
  intro p g h; simp [guardOf] at h

theorem guardOf_putGuard (guards : List (String × String)) (path g p : String) :
    guardOf (putGuard guards path g) p = if path = p then some g else guardOf guards p := by
  unfold putGuard
  by_cases h : guardOf guards path = some g
  · simp only [h, if_true]
    by_cases hp : path = p
    · subst hp; simp [h]
    · simp [hp]
  · simp only [h, if_false]
    by_cases hp : path = p
    · subst hp; simp [guardOf]
    · have hbeq : (path == p) = false := by simpa using hp
      simp only [guardOf, List.find?_cons, hbeq, hp, if_false, List.find?_filter]
      have hfun : (fun (a : String × String) => decide ((a.1 != path) = true ∧ (a.1 == p) = true)) = (fun a => a.1 == p) := by
        funext a
        by_cases ha : a.1 = p
        · have h2 : ¬ p = path := fun h => hp h.symm
          simp [ha, h2]
        · simp [ha]
      rw [hfun]

theorem GuardsOK_put (fs : FS ε β) (guards : List (String × String)) (path g : String) (ls : List (ILine ε β))
    (hok : GuardsOK fs guards) (hget : fs.get path = some ls) (hd : detectGuard (ls.map ILine.toLine) = some g) :
    GuardsOK fs (putGuard guards path g) := by
  intro p g' h
  rw [guardOf_putGuard] at h
  by_cases hp : path = p
  · subst hp; simp at h; subst h; exact ⟨ls, hget, hd⟩
  · simp [hp] at h; exact hok p g' h

-- ------------------------------------------------------------------ fuel

theorem runInc_nil (ev : ε → Defs β → Except Diag Bool) (fs : FS ε β) (paths : List String) (b : Bool) (f : Nat)
    (m : Mode) (s : IState β) : runInc ev fs paths b f [] m s = .ok (s, m) := by
  cases f <;> rfl

/-- more fuel does not change a finished run -/
theorem runInc_mono (ev : ε → Defs β → Except Diag Bool) (fs : FS ε β) (paths : List String) (b : Bool) :
    ∀ (f : Nat) (lines : List (String × ILine ε β)) (m : Mode) (s : IState β) (r : IState β × Mode),
      runInc ev fs paths b f lines m s = .ok r → runInc ev fs paths b (f+1) lines m s = .ok r := by
  intro f
  induction f with
  | zero =>
    intro lines m s r h
    cases lines with
    | nil => simpa [runInc_nil] using h
    | cons x rest => simp [runInc] at h
  | succ f ih =>
    intro lines m s r h
    cases lines with
    | nil => simpa [runInc_nil] using h
    | cons x rest =>
      obtain ⟨file, l⟩ := x
      simp only [runInc] at h ⊢
      cases hs : stepInc ev fs paths b file l m s with
      | error e => simp [hs] at h
      | ok p =>
        obtain ⟨ls, s', m'⟩ := p
        simp only [hs] at h ⊢
        exact ih _ _ _ _ h

theorem runInc_mono_le (ev : ε → Defs β → Except Diag Bool) (fs : FS ε β) (paths : List String) (b : Bool)
    (f f' : Nat) (hle : f ≤ f') (lines : List (String × ILine ε β)) (m : Mode) (s : IState β) (r : IState β × Mode)
    (h : runInc ev fs paths b f lines m s = .ok r) : runInc ev fs paths b f' lines m s = .ok r := by
  induction hle with
  | refl => exact h
  | step _ ih => exact runInc_mono ev fs paths b _ _ _ _ _ ih

-- ------------------------------------------------------------------ a guarded file, its guard defined

/-- in a skip mode every line (also #include, #include_next, #pragma once) is only looked at through
    its directive name -/
theorem stepInc_skip (ev : ε → Defs β → Except Diag Bool) (fs : FS ε β) (paths : List String) (b : Bool)
    (file : String) (l : ILine ε β) (d : Nat) (s : IState β) :
    stepInc ev fs paths b file l (.skip d) s =
      (match stepLine ev l.toLine (.skip d) s.st with
       | .error e => .error e
       | .ok (st', m') => .ok ([], { s with st := st' }, m')) := by
  cases l <;> rfl

/-- `run_guardScan` for the machine with includes: from inside the skipped #ifndef group the machine
    reaches the end of the file, pops the #ifndef's record and changes nothing else; it needs at most
    the fuel it had -/
theorem runInc_guardScan (ev : ε → Defs β → Except Diag Bool) (fs : FS ε β) (paths : List String) (b : Bool)
    (path : String) (rest : List (String × ILine ε β)) (r : IState β × Mode) :
    ∀ (ls : List (ILine ε β)) (k : Nat) (fuel : Nat) (s : IState β) (o : Obs β) (f : Frame) (st : List Frame),
      guardScan (k+1) (ls.map ILine.toLine) = true → s.st = ⟨o, f :: st⟩ →
      runInc ev fs paths b fuel (ls.map (fun l => (path, l)) ++ rest) (.skip k) s = .ok r →
      ∃ fuel', fuel' ≤ fuel ∧ runInc ev fs paths b fuel' rest .proc { s with st := ⟨o, st⟩ } = .ok r := by
  intro ls
  induction ls with
  | nil => intro k fuel s o f st h; simp [guardScan] at h
  | cons l ls ih =>
    intro k fuel s o f st hscan hst hrun
    cases fuel with
    | zero => simp [runInc] at hrun
    | succ fuel =>
      simp only [List.map_cons, List.cons_append, runInc, stepInc_skip] at hrun
      simp only [List.map_cons] at hscan
      -- what the line is, seen through its directive name
      cases hl : l.toLine with
      | plain p =>
        rw [hl] at hscan hrun
        simp only [guardScan] at hscan
        have hstep : stepLine ev (Line.plain p) (.skip k) s.st = .ok (s.st, .skip k) := by cases k <;> rfl
        simp only [hstep, List.nil_append] at hrun
        obtain ⟨f', hle, hr⟩ := ih k fuel { s with st := s.st } o f st hscan hst hrun
        exact ⟨f', Nat.le_succ_of_le hle, hr⟩
      | opens hd =>
        rw [hl] at hscan hrun
        simp only [guardScan] at hscan
        have hstep : stepLine ev (Line.opens hd) (.skip k) s.st = .ok (s.st, .skip (k+1)) := by cases k <;> rfl
        simp only [hstep, List.nil_append] at hrun
        obtain ⟨f', hle, hr⟩ := ih (k+1) fuel { s with st := s.st } o f st hscan hst hrun
        exact ⟨f', Nat.le_succ_of_le hle, hr⟩
      | part ph =>
        rw [hl] at hscan hrun
        simp only [guardScan] at hscan
        cases k with
        | zero => simp at hscan
        | succ k =>
          simp at hscan
          have hstep : stepLine ev (Line.part ph) (.skip (k+1)) s.st = .ok (s.st, .skip (k+1)) := rfl
          simp only [hstep, List.nil_append] at hrun
          obtain ⟨f', hle, hr⟩ := ih (k+1) fuel { s with st := s.st } o f st hscan hst hrun
          exact ⟨f', Nat.le_succ_of_le hle, hr⟩
      | endif x =>
        rw [hl] at hscan hrun
        simp only [guardScan] at hscan
        cases k with
        | zero =>
          simp at hscan
          obtain ⟨hx, hnil⟩ := hscan
          have hls : ls = [] := by simpa using hnil
          subst hls
          have hstep : stepLine ev (Line.endif x) (.skip 0) s.st = .ok (⟨o, st⟩, .proc) := by
            simp [stepLine, procLine, hst, pure, Except.pure]
          simp only [hstep, List.map_nil, List.nil_append] at hrun
          exact ⟨fuel, Nat.le_succ _, hrun⟩
        | succ k =>
          simp at hscan
          have hstep : stepLine ev (Line.endif x) (.skip (k+1)) s.st = .ok (s.st, .skip k) := rfl
          simp only [hstep, List.nil_append] at hrun
          obtain ⟨f', hle, hr⟩ := ih k fuel { s with st := s.st } o f st hscan hst hrun
          exact ⟨f', Nat.le_succ_of_le hle, hr⟩

/-- a file accepted by `detect_include_guard`, spliced in while its guard macro is defined: the
    machine is back in front of the rest of the input with nothing changed -/
theorem runInc_guarded_file (ev : ε → Defs β → Except Diag Bool) (fs : FS ε β) (paths : List String) (b : Bool)
    (path : String) (rest : List (String × ILine ε β)) (r : IState β × Mode)
    (ls : List (ILine ε β)) (g : String) (hg : detectGuard (ls.map ILine.toLine) = some g)
    (fuel : Nat) (s : IState β) (hdef : s.st.obs.defs.isDef g = true)
    (hrun : runInc ev fs paths b fuel (ls.map (fun l => (path, l)) ++ rest) .proc s = .ok r) :
    ∃ fuel', fuel' ≤ fuel ∧ runInc ev fs paths b fuel' rest .proc s = .ok r := by
  match ls, hg with
  | l0 :: l1 :: ls', hg =>
    simp only [List.map_cons] at hg
    cases h0 : l0.toLine with
    | opens hd =>
      cases hd with
      | ifndef g0 x =>
        cases x with
        | true => rw [h0] at hg; simp [detectGuard] at hg
        | false =>
          cases h1 : l1.toLine with
          | plain p1 =>
            cases p1 with
            | define g' body =>
              rw [h0, h1] at hg
              simp only [detectGuard] at hg
              split at hg
              · rename_i hgg
                split at hg
                · rename_i hscan
                  simp at hg
                  subst hgg; subst hg
                  -- first line: #ifndef g0 with g0 defined
                  have hl0 : l0 = .c (.opens (.ifndef g0 false)) := by
                    cases l0 <;> simp_all [ILine.toLine]
                  subst hl0
                  cases fuel with
                  | zero => simp [runInc] at hrun
                  | succ fuel =>
                    obtain ⟨st0, once, guards, cache⟩ := s
                    obtain ⟨o, stk⟩ := st0
                    simp only [List.map_cons, List.cons_append, runInc, stepInc, ILine.toLine, stepLine, procLine,
                      evalHead, bind, Except.bind, pure, Except.pure] at hrun
                    simp only at hdef
                    simp only [hdef, Bool.not_true, Bool.false_eq_true, if_false, List.nil_append] at hrun
                    have hscan' : guardScan (0+1) ((l1 :: ls').map ILine.toLine) = true := by
                      simpa [h1] using hscan
                    have := runInc_guardScan ev fs paths b path rest r (l1 :: ls') 0 fuel
                      ⟨⟨o, ⟨.inThen, false⟩ :: stk⟩, once, guards, cache⟩ o ⟨.inThen, false⟩ stk hscan' rfl
                      (by simpa using hrun)
                    obtain ⟨f', hle, hr⟩ := this
                    exact ⟨f', Nat.le_succ_of_le hle, hr⟩
                · simp at hg
              · simp at hg
            | text t => rw [h0, h1] at hg; simp [detectGuard] at hg
            | undef n x => rw [h0, h1] at hg; simp [detectGuard] at hg
            | error => rw [h0, h1] at hg; simp [detectGuard] at hg
            | bad => rw [h0, h1] at hg; simp [detectGuard] at hg
            | other => rw [h0, h1] at hg; simp [detectGuard] at hg
          | opens h => rw [h0, h1] at hg; simp [detectGuard] at hg
          | part h => rw [h0, h1] at hg; simp [detectGuard] at hg
          | endif x => rw [h0, h1] at hg; simp [detectGuard] at hg
      | ifE c => rw [h0] at hg; simp [detectGuard] at hg
      | ifdef n x => rw [h0] at hg; simp [detectGuard] at hg
      | noName => rw [h0] at hg; simp [detectGuard] at hg
    | plain p => rw [h0] at hg; simp [detectGuard] at hg
    | part h => rw [h0] at hg; simp [detectGuard] at hg
    | endif x => rw [h0] at hg; simp [detectGuard] at hg
  | [], hg => simp [detectGuard] at hg
  | [l0], hg => simp only [List.map_cons, List.map_nil] at hg; cases h0 : l0.toLine <;> simp [detectGuard, h0] at hg

-- ------------------------------------------------------------------ the shortcut is transparent

theorem includeFile_cases (fs : FS ε β) (path : String) (s : IState β) (hok : GuardsOK fs s.guards) :
    includeFile fs true path s = includeFile fs false path s ∨
    ∃ (ls : List (ILine ε β)) (g : String), includeFile fs true path s = .ok ([], s) ∧
      includeFile fs false path s = .ok (ls.map (fun l => (path, l)), s) ∧
      detectGuard (ls.map ILine.toLine) = some g ∧ s.st.obs.defs.isDef g = true := by
  unfold includeFile
  by_cases honce : s.once.contains path = true
  · left; rw [if_pos honce, if_pos honce]
  · simp only [honce, Bool.false_eq_true, if_false, Bool.true_and, Bool.false_and]
    cases hgo : guardOf s.guards path with
    | none => left; simp
    | some g =>
      simp only
      by_cases hdef : s.st.obs.defs.isDef g = true
      · right
        obtain ⟨ls, hget, hd⟩ := hok path g hgo
        refine ⟨ls, g, by simp [hdef], ?_, hd, hdef⟩
        have hput : putGuard s.guards path g = s.guards := by simp [putGuard, hgo]
        simp [hget, hd, hput]
      · left; simp [hdef]

theorem includeFile_guardsOK (fs : FS ε β) (b : Bool) (path : String) (s s' : IState β)
    (ls : List (String × ILine ε β)) (hok : GuardsOK fs s.guards)
    (h : includeFile fs b path s = .ok (ls, s')) : GuardsOK fs s'.guards := by
  unfold includeFile at h
  by_cases honce : s.once.contains path = true
  · rw [if_pos honce] at h
    simp only [Except.ok.injEq, Prod.mk.injEq] at h
    rw [← h.2]; exact hok
  · rw [if_neg honce] at h
    dsimp only at h
    have hrest : ∀ (h2 : (match fs.get path with
        | none => (Except.error Diag.cannotOpen : Except Diag (List (String × ILine ε β) × IState β))
        | some ls => Except.ok (ls.map (fun l => (path, l)),
            match detectGuard (ls.map ILine.toLine) with
            | some g => { s with guards := putGuard s.guards path g }
            | none => s)) = Except.ok (ls, s')), GuardsOK fs s'.guards := by
      intro h2
      cases hget : fs.get path with
      | none => rw [hget] at h2; simp at h2
      | some fl =>
        rw [hget] at h2
        cases hd : detectGuard (fl.map ILine.toLine) with
        | none =>
          simp only [hd, Except.ok.injEq, Prod.mk.injEq] at h2
          rw [← h2.2]; exact hok
        | some g =>
          simp only [hd, Except.ok.injEq, Prod.mk.injEq] at h2
          rw [← h2.2]
          exact GuardsOK_put fs s.guards path g fl hok hget hd
    cases hgo : guardOf s.guards path with
    | none =>
      simp only [hgo, Bool.and_false, Bool.false_eq_true, if_false] at h
      exact hrest h
    | some g0 =>
      simp only [hgo] at h
      split at h
      · simp only [Except.ok.injEq, Prod.mk.injEq] at h
        rw [← h.2]; exact hok
      · exact hrest h

theorem stepInc_guardsOK (ev : ε → Defs β → Except Diag Bool) (fs : FS ε β) (paths : List String) (b : Bool)
    (file : String) (l : ILine ε β) (m m' : Mode) (s s' : IState β) (ls : List (String × ILine ε β))
    (hok : GuardsOK fs s.guards) (h : stepInc ev fs paths b file l m s = .ok (ls, s', m')) :
    GuardsOK fs s'.guards := by
  have hline : ∀ (l0 : Line ε β), (match stepLine ev l0 m s.st with
       | Except.error e => (Except.error e : Except Diag (List (String × ILine ε β) × IState β × Mode))
       | Except.ok (st', m1) => Except.ok ([], { s with st := st' }, m1))
        = Except.ok (ls, s', m') → GuardsOK fs s'.guards := by
    intro l0 h0
    cases hst : stepLine ev l0 m s.st with
    | error e => simp [hst] at h0
    | ok p =>
      simp only [hst, Except.ok.injEq, Prod.mk.injEq] at h0
      rw [← h0.2.1]; exact hok
  cases m with
  | skip d => rw [stepInc_skip] at h; exact hline _ h
  | proc =>
    cases l with
    | c l0 => exact hline l0 h
    | pragmaOnce =>
      simp only [stepInc, Except.ok.injEq, Prod.mk.injEq] at h
      rw [← h.2.1]; exact hok
    | incl dq name =>
      simp only [stepInc] at h
      cases hinc : includeFile fs b (resolveInclude fs.has paths s.cache file dq name).1
          { s with cache := (resolveInclude fs.has paths s.cache file dq name).2 } with
      | error e => simp [hinc] at h
      | ok p =>
        obtain ⟨ls0, s0⟩ := p
        simp only [hinc, Except.ok.injEq, Prod.mk.injEq] at h
        rw [← h.2.1]
        exact includeFile_guardsOK fs b _ { s with cache := (resolveInclude fs.has paths s.cache file dq name).2 } _ _ hok hinc
    | includeNext name =>
      simp only [stepInc] at h
      cases hinc : includeFile fs b (resolveIncludeNext fs.has paths file name) s with
      | error e => simp [hinc] at h
      | ok p =>
        obtain ⟨ls0, s0⟩ := p
        simp only [hinc, Except.ok.injEq, Prod.mk.injEq] at h
        rw [← h.2.1]
        exact includeFile_guardsOK fs b _ _ _ _ hok hinc

/-- **the include-guard shortcut is transparent**: whenever plain textual inclusion finishes, the
    machine with the `include_guards` table finishes with the same state (same emitted text, same
    macro table, same conditional stack, same tables) -/
theorem runInc_guards_transparent (ev : ε → Defs β → Except Diag Bool) (fs : FS ε β) (paths : List String) :
    ∀ (fuel : Nat) (lines : List (String × ILine ε β)) (m : Mode) (s : IState β) (r : IState β × Mode),
      GuardsOK fs s.guards →
      runInc ev fs paths false fuel lines m s = .ok r → runInc ev fs paths true fuel lines m s = .ok r := by
  intro fuel
  induction fuel using Nat.strongRecOn with
  | _ fuel ih =>
    intro lines m s r hok hrun
    cases lines with
    | nil => simpa [runInc_nil] using hrun
    | cons x rest =>
      obtain ⟨file, l⟩ := x
      cases fuel with
      | zero => simp [runInc] at hrun
      | succ fuel =>
        simp only [runInc] at hrun ⊢
        -- the two machines take the same step unless the shortcut fires
        have key : stepInc ev fs paths true file l m s = stepInc ev fs paths false file l m s ∨
            ∃ (s0 : IState β) (path : String) (ls : List (ILine ε β)) (g : String),
              GuardsOK fs s0.guards ∧
              stepInc ev fs paths true file l m s = .ok ([], s0, .proc) ∧
              stepInc ev fs paths false file l m s = .ok (ls.map (fun l => (path, l)), s0, .proc) ∧
              detectGuard (ls.map ILine.toLine) = some g ∧ s0.st.obs.defs.isDef g = true := by
          cases m with
          | skip d => left; simp [stepInc_skip]
          | proc =>
            cases l with
            | c l0 => left; rfl
            | pragmaOnce => left; rfl
            | incl dq name =>
              have hok0 : GuardsOK fs ({ s with cache := (resolveInclude fs.has paths s.cache file dq name).2 } : IState β).guards := hok
              rcases includeFile_cases fs (resolveInclude fs.has paths s.cache file dq name).1 _ hok0 with h | ⟨ls, g, h1, h2, h3, h4⟩
              · left; simp only [stepInc, h]
              · right
                exact ⟨{ s with cache := (resolveInclude fs.has paths s.cache file dq name).2 },
                  (resolveInclude fs.has paths s.cache file dq name).1, ls, g, hok0,
                  by simp only [stepInc, h1], by simp only [stepInc, h2], h3, h4⟩
            | includeNext name =>
              rcases includeFile_cases fs (resolveIncludeNext fs.has paths file name) s hok with h | ⟨ls, g, h1, h2, h3, h4⟩
              · left; simp only [stepInc, h]
              · right
                exact ⟨s, resolveIncludeNext fs.has paths file name, ls, g, hok,
                  by simp only [stepInc, h1], by simp only [stepInc, h2], h3, h4⟩
        rcases key with heq | ⟨s0, path, ls, g, hok0, ht, hf, hd, hdef⟩
        · rw [heq]
          cases hs : stepInc ev fs paths false file l m s with
          | error e => simp [hs] at hrun
          | ok p =>
            obtain ⟨ls, s', m'⟩ := p
            simp only [hs] at hrun ⊢
            exact ih fuel (Nat.lt_succ_self _) _ _ _ _ (stepInc_guardsOK ev fs paths false file l m m' s s' ls hok hs) hrun
        · rw [ht]
          rw [hf] at hrun
          simp only [List.nil_append] at hrun ⊢
          obtain ⟨f', hle, hr⟩ := runInc_guarded_file ev fs paths false path rest r ls g hd fuel s0 hdef hrun
          have := ih f' (Nat.lt_succ_of_le hle) rest .proc s0 r hok0 hr
          exact runInc_mono_le ev fs paths true f' fuel hle _ _ _ _ this


-- ------------------------------------------------------------------ #pragma once

theorem includeFile_once (fs : FS ε β) (b : Bool) (path : String) (s : IState β)
    (h : s.once.contains path = true) : includeFile fs b path s = .ok ([], s) := by
  unfold includeFile; rw [if_pos h]

theorem stepInc_pragmaOnce (ev : ε → Defs β → Except Diag Bool) (fs : FS ε β) (paths : List String) (b : Bool)
    (file : String) (s : IState β) :
    stepInc ev fs paths b file .pragmaOnce .proc s = .ok ([], { s with once := file :: s.once }, .proc) := rfl

theorem includeFile_once_mono (fs : FS ε β) (b : Bool) (path : String) (s s' : IState β)
    (ls : List (String × ILine ε β)) (h : includeFile fs b path s = .ok (ls, s')) : s'.once = s.once := by
  unfold includeFile at h
  by_cases honce : s.once.contains path = true
  · rw [if_pos honce] at h
    simp only [Except.ok.injEq, Prod.mk.injEq] at h
    rw [← h.2]
  · rw [if_neg honce] at h
    dsimp only at h
    have hrest : ∀ (h2 : (match fs.get path with
        | none => (Except.error Diag.cannotOpen : Except Diag (List (String × ILine ε β) × IState β))
        | some ls => Except.ok (ls.map (fun l => (path, l)),
            match detectGuard (ls.map ILine.toLine) with
            | some g => { s with guards := putGuard s.guards path g }
            | none => s)) = Except.ok (ls, s')), s'.once = s.once := by
      intro h2
      cases hget : fs.get path with
      | none => rw [hget] at h2; simp at h2
      | some fl =>
        rw [hget] at h2
        cases hd : detectGuard (fl.map ILine.toLine) with
        | none => simp only [hd, Except.ok.injEq, Prod.mk.injEq] at h2; rw [← h2.2]
        | some g => simp only [hd, Except.ok.injEq, Prod.mk.injEq] at h2; rw [← h2.2]
    cases hgo : guardOf s.guards path with
    | none =>
      simp only [hgo, Bool.and_false, Bool.false_eq_true, if_false] at h
      exact hrest h
    | some g0 =>
      simp only [hgo] at h
      split at h
      · simp only [Except.ok.injEq, Prod.mk.injEq] at h; rw [← h.2]
      · exact hrest h

-- ------------------------------------------------------------------ command line

/-- the `#define` / `#undef` lines that correspond to the -D / -U options, in command-line order -/
def duLines (os : List (Opt β)) : List (Line ε β) :=
  os.filterMap (fun o => match o with
    | .D n b => some (.plain (.define n b))
    | .U n => some (.plain (.undef n false))
    | _ => none)

theorem run_duLines (ev : ε → Defs β → Except Diag Bool) (os : List (Opt β)) (d : Defs β) (out : List (List String))
    (st : List Frame) :
    run ev (duLines (ε := ε) os) .proc ⟨⟨d, out⟩, st⟩ = .ok (⟨⟨applyDU d os, out⟩, st⟩, .proc) := by
  induction os generalizing d with
  | nil => rfl
  | cons o os ih =>
    cases o with
    | D n b => simpa [duLines, run, stepLine, procLine, procPlain, applyDU, bind, Except.bind, pure, Except.pure] using ih (d.define n b)
    | U n => simpa [duLines, run, stepLine, procLine, procPlain, applyDU, bind, Except.bind, pure, Except.pure] using ih (d.undef n)
    | I dir => simpa [duLines, applyDU] using ih d
    | idirafter dir => simpa [duLines, applyDU] using ih d
    | inc f => simpa [duLines, applyDU] using ih d

end ChibiVerif.IncludeSearch
