/-
C01: the spelling of the labels of Model/X86Jump is injective — two structured labels `(kind, n)` are printed alike
(`.L.else.7`) only if they are the same label.  So resolving structured labels by position (`findLbl`) is resolving the
printed labels by position, which is what the assembler does with the text the tie compares.

(The same argument as `ctr_inj` in Lemmas/C20Labels.lean, for the four tags of `gen_expr`; kept separate so that C01 does
not depend on C20's models.)
-/
import ChibiVerif.Model.X86Jump
import Std.Data.String.ToNat

namespace ChibiVerif.X86J

theorem toList_toString_nat (k : Nat) : (toString k).toList = Nat.toDigits 10 k := by
  show (Nat.repr k).toList = _
  rw [Nat.repr_eq_ofList_toDigits, String.toList_ofList]

theorem digits_all (k : Nat) : ∀ c ∈ (toString k).toList, c.isDigit = true := by
  intro c hc
  rw [toList_toString_nat] at hc
  exact Nat.isDigit_of_mem_toDigits (by decide) (by decide) hc

theorem takeWhile_append_of {p : Char → Bool} : ∀ (a x : List Char), (∀ c ∈ a, p c = true) →
    (∀ c ∈ x, p c = false) → (a ++ x).takeWhile p = a
  | [], [], _, _ => rfl
  | [], c :: x, _, hx => by
    have := hx c List.mem_cons_self
    simp [List.takeWhile, this]
  | c :: a, x, ha, hx => by
    have h1 := ha c List.mem_cons_self
    simp only [List.cons_append, List.takeWhile, h1]
    rw [takeWhile_append_of a x (fun d hd => ha d (List.mem_cons_of_mem _ hd)) hx]

theorem tag_no_digit (k : LKind) : ∀ c ∈ k.tag.toList, (!c.isDigit) = true := by cases k <;> decide

theorem tag_inj {k k' : LKind} (h : k.tag = k'.tag) : k = k' := by
  cases k <;> cases k' <;> first | rfl | exact absurd h (by decide)

theorem render_toList (l : Lbl) : l.render.toList = l.kind.tag.toList ++ (toString l.n).toList := by
  unfold Lbl.render
  rw [String.toList_append]

/-- **the printed label determines the structured label** -/
theorem Lbl.render_inj {l l' : Lbl} (h : l.render = l'.render) : l = l' := by
  have hl : l.kind.tag.toList ++ (toString l.n).toList = l'.kind.tag.toList ++ (toString l'.n).toList := by
    rw [← render_toList, ← render_toList, h]
  have e1 := takeWhile_append_of (p := fun c => !c.isDigit) l.kind.tag.toList (toString l.n).toList (tag_no_digit l.kind)
    (fun c hc => by simp [digits_all l.n c hc])
  have e2 := takeWhile_append_of (p := fun c => !c.isDigit) l'.kind.tag.toList (toString l'.n).toList (tag_no_digit l'.kind)
    (fun c hc => by simp [digits_all l'.n c hc])
  rw [hl, e2] at e1
  have ett : l.kind.tag = l'.kind.tag := by
    rw [← String.ofList_toList (s := l.kind.tag), ← String.ofList_toList (s := l'.kind.tag), e1]
  have hk : l.kind = l'.kind := tag_inj ett
  rw [ett] at hl
  have := List.append_cancel_left hl
  have hs : toString l.n = toString l'.n := by
    rw [← String.ofList_toList (s := toString l.n), ← String.ofList_toList (s := toString l'.n), this]
  have hn : l.n = l'.n := Nat.repr_inj.mp hs
  cases l; cases l'; simp only at hk hn; subst hk; subst hn; rfl

end ChibiVerif.X86J
