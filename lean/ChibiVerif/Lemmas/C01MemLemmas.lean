/-
C01: sign- or zero-extending loads and truncating stores (codegen.c `load`, `store`) against byte-addressed memory.
-/
import ChibiVerif.Lemmas.C01Select

namespace ChibiVerif.C01
open ChibiVerif.X86 ChibiVerif.Asm ChibiVerif.Spec.IntSpec ChibiVerif.Gen.CommonType ChibiVerif.C01Codegen

/-! ### reading back what was written (little endian) -/

theorem split16 (v : BitVec 16) : ((v >>> 8).setWidth 8 ++ v.setWidth 8 : BitVec 16) = v := by
  apply BitVec.eq_of_getLsbD_eq
  intro i hi
  simp only [BitVec.getLsbD_append, BitVec.getLsbD_setWidth, BitVec.getLsbD_ushiftRight]
  by_cases h : i < 8
  · simp [h]
  · have e : 8 + (i - 8) = i := by omega
    have e2 : i - 8 < 8 := by omega
    simp [h, e, e2]
theorem split32 (v : BitVec 32) : ((v >>> 16).setWidth 16 ++ v.setWidth 16 : BitVec 32) = v := by
  apply BitVec.eq_of_getLsbD_eq
  intro i hi
  simp only [BitVec.getLsbD_append, BitVec.getLsbD_setWidth, BitVec.getLsbD_ushiftRight]
  by_cases h : i < 16
  · simp [h]
  · have e : 16 + (i - 16) = i := by omega
    have e2 : i - 16 < 16 := by omega
    simp [h, e, e2]
theorem split64 (v : BitVec 64) : ((v >>> 32).setWidth 32 ++ v.setWidth 32 : BitVec 64) = v := by
  apply BitVec.eq_of_getLsbD_eq
  intro i hi
  simp only [BitVec.getLsbD_append, BitVec.getLsbD_setWidth, BitVec.getLsbD_ushiftRight]
  by_cases h : i < 32
  · simp [h]
  · have e : 32 + (i - 32) = i := by omega
    have e2 : i - 32 < 32 := by omega
    simp [h, e, e2]

theorem add_ne (a : BitVec 64) (k : Nat) (hk : 0 < k) (hk2 : k < 2 ^ 64) : a + BitVec.ofNat 64 k ≠ a := by
  intro h
  have := congrArg BitVec.toNat h
  simp [BitVec.toNat_add] at this
  have := a.isLt
  omega

theorem read8_write8_same (s : State) (a : BitVec 64) (v : BitVec 8) : (s.write8 a v).read8 a = v := by
  simp [State.read8, State.write8]
theorem read8_write8_ne (s : State) (a b : BitVec 64) (v : BitVec 8) (h : b ≠ a) : (s.write8 a v).read8 b = s.read8 b := by
  simp [State.read8, State.write8, h]

theorem read16_write16 (s : State) (a : BitVec 64) (v : BitVec 16) : (s.write16 a v).read16 a = v := by
  have h1 : a + 1 ≠ a := add_ne a 1 (by decide) (by decide)
  have h1' : a ≠ a + 1 := fun h => h1 h.symm
  simp [State.read16, State.write16, State.write8, h1, split16]


theorem sw8_16 {n : Nat} (x : BitVec n) : BitVec.setWidth 8 x = BitVec.setWidth 8 (BitVec.setWidth 16 x) := by
  apply BitVec.eq_of_toNat_eq; simp
theorem sw16_32 {n : Nat} (x : BitVec n) : BitVec.setWidth 16 x = BitVec.setWidth 16 (BitVec.setWidth 32 x) := by
  apply BitVec.eq_of_toNat_eq; simp

theorem read32_write32 (s : State) (a : BitVec 64) (v : BitVec 32) : (s.write32 a v).read32 a = v := by
  simp [State.read32, State.read16, State.write32, State.write16, State.write8, BitVec.add_assoc]
  rw [sw8_16 (v >>> 16), split16, sw8_16 v, split16, split32]

theorem read64_write64 (s : State) (a : BitVec 64) (v : BitVec 64) : (s.write64 a v).read64 a = v := by
  simp [State.read64, State.read32, State.read16, State.write64, State.write32, State.write16, State.write8, BitVec.add_assoc]
  rw [sw8_16 (BitVec.setWidth 32 (v >>> 32) >>> 16), split16, sw8_16 (v >>> 32), split16, sw16_32 (v >>> 32), split32,
    sw8_16 (BitVec.setWidth 32 v >>> 16), split16, sw8_16 v, split16, sw16_32 v, split32, split64]

/-- the object of type `t` at address `a` holds the value `v` (little endian, two's complement; `_Bool`: the byte 0 or 1) -/
def MemHolds (t : ITy) (s : State) (a : BitVec 64) (v : Int) : Prop :=
  t.inRange v ∧
  match t with
  | .bool | .i8 | .u8 => ((s.read8 a).toNat : Int) = v % 256
  | .i16 | .u16 => ((s.read16 a).toNat : Int) = v % 65536
  | .i32 | .u32 => ((s.read32 a).toNat : Int) = v % 4294967296
  | .i64 | .u64 => ((s.read64 a).toNat : Int) = v % 18446744073709551616

theorem load_ok (t : ITy) (s : State) (v : Int) (h : MemHolds t s (s.get .rax) v) :
    ∃ s', X86.run (loadSeq t) s = some s' ∧ Represents t (s'.get .rax) v ∧ s'.mem = s.mem := by
  cases t <;> refine ⟨_, rfl, ?_, rfl⟩
  all_goals
    simp only [MemHolds] at h
    simp [State.setW, State.src, State.readW, State.ea]
    generalize hb : s.read8 (s.get Reg.rax) = b8 at *
    generalize hw : s.read16 (s.get Reg.rax) = b16 at *
    generalize hl : s.read32 (s.get Reg.rax) = b32 at *
    generalize hq : s.read64 (s.get Reg.rax) = b64 at *
    unfold_spec
    bv_ints'

theorem store_ok (t : ITy) (s : State) (p : BitVec 64) (v : Int) (hp : s.read64 (s.get .rsp) = p)
    (h : Represents t (s.get .rax) v) :
    ∃ s', X86.run (storeSeq t) s = some s' ∧ MemHolds t s' p v ∧ s'.get .rax = s.get .rax ∧
      s'.get .rsp = s.get .rsp + 8 := by
  cases t <;> refine ⟨_, rfl, ?_, rfl, rfl⟩
  all_goals
    subst hp
    simp only [MemHolds]
    simp [State.dst, State.src, State.ea, State.writeW, State.getW, State.get_set_ne, read8_write8_same, read16_write16,
      read32_write32, read64_write64]
    generalize s.get Reg.rax = r at *
    unfold_spec
    bv_ints'

end ChibiVerif.C01
