/-
Helper lemmas for Props/C06.lean, ABI side: `has_flonum` over a member tree is a statement about the flat list of its
scalars (structural induction on the tree), the psABI merge over that list yields SSE exactly when `has_flonum` holds
for the eightbyte, and chibicc's single pass `refLoop` is the psABI's `assignLoop` outside the known-finding regions.
-/
import ChibiVerif.Lemmas.CallConvLemmas
import ChibiVerif.Spec.PsABI
import ChibiVerif.Spec.CallRegions

namespace ChibiVerif.CallConv
open ChibiVerif.Spec.PsABI
open ChibiVerif.Spec.CallRegions
open ChibiVerif.Gen.Templates (GP_MAX FP_MAX)

/-- the leaf test of `has_flonum` -/
def leafOk (lo hi : Nat) (ot : Nat × ATy) : Bool := decide (ot.1 < lo) || decide (hi ≤ ot.1) || ot.2.isFlonum

theorem allBelow_succ (n : Nat) (f : Nat → Bool) : allBelow (n + 1) f = (allBelow n f && f n) := rfl

mutual
/-- **structural induction on member trees**: `has_flonum(ty, lo, hi, offset)` looks at every scalar of the tree once,
    at its absolute offset -/
theorem hasFlonum_leaves : (t : ATy) → (lo hi off : Nat) → hasFlonum t lo hi off = (leaves t off).all (leafOk lo hi)
  | .agg _ _ _ ms, lo, hi, off => by
    simp only [hasFlonum, leaves]; exact hasFlonumMs_leaves ms lo hi off
  | .arr e n, lo, hi, off => by
    simp only [hasFlonum, leaves]
    induction n with
    | zero => simp [allBelow, leavesArr]
    | succ n ih =>
      rw [allBelow_succ, ih]
      simp only [leavesArr, List.all_append]
      rw [hasFlonum_leaves e lo hi (off + e.size * n)]
  | .int _ _ _, lo, hi, off => by simp [hasFlonum, leaves, leafOk, ATy.isFlonum]
  | .ldbl, lo, hi, off => by simp [hasFlonum, leaves, leafOk, ATy.isFlonum]
  | .flt, lo, hi, off => by simp [hasFlonum, leaves, leafOk, ATy.isFlonum]
  | .dbl, lo, hi, off => by simp [hasFlonum, leaves, leafOk, ATy.isFlonum]
theorem hasFlonumMs_leaves : (ms : Members) → (lo hi off : Nat) →
    hasFlonumMs ms lo hi off = (leavesMs ms off).all (leafOk lo hi)
  | .nil, lo, hi, off => by simp [hasFlonumMs, leavesMs]
  | .cons o t r, lo, hi, off => by
    simp only [hasFlonumMs, leavesMs, List.all_append]
    rw [hasFlonum_leaves t lo hi (off + o), hasFlonumMs_leaves r lo hi off]
end

end ChibiVerif.CallConv
