/-
Helper lemmas for Props/C06.lean, ABI side: `has_flonum` over a member tree is a statement about the flat list of its
scalars (structural induction on the tree), the psABI merge over that list yields SSE exactly when `has_flonum` holds
for the eightbyte, and chibicc's single pass `refLoop` is the psABI's `assignLoop` outside the known-finding regions.
-/
import ChibiVerif.Lemmas.CallConvLemmas
import ChibiVerif.Spec.PsABI
import ChibiVerif.Spec.CallRegions

namespace ChibiVerif.CallConv
open ChibiVerif.Spec.PsABI
open ChibiVerif.Spec.CallRegions
open ChibiVerif.Gen.Templates (GP_MAX FP_MAX)

/-- the leaf test of `has_flonum` -/
def leafOk (lo hi : Nat) (ot : Nat × ATy) : Bool := decide (ot.1 < lo) || decide (hi ≤ ot.1) || ot.2.isFlonum

theorem allBelow_succ (n : Nat) (f : Nat → Bool) : allBelow (n + 1) f = (allBelow n f && f n) := rfl

mutual
/-- **structural induction on member trees**: `has_flonum(ty, lo, hi, offset)` looks at every scalar of the tree once,
    at its absolute offset -/
theorem hasFlonum_leaves : (t : ATy) → (lo hi off : Nat) → hasFlonum t lo hi off = (leaves t off).all (leafOk lo hi)
  | .agg _ _ _ ms, lo, hi, off => by
    simp only [hasFlonum, leaves]; exact hasFlonumMs_leaves ms lo hi off
  | .arr e n, lo, hi, off => by
    simp only [hasFlonum, leaves]
    induction n with
    | zero => simp [allBelow, concatBelow]
    | succ n ih =>
      rw [allBelow_succ, ih]
      simp only [concatBelow, List.all_append]
      rw [hasFlonum_leaves e lo hi (off + e.size * n)]
  | .int _ _ _, lo, hi, off => by simp [hasFlonum, leaves, leafOk, ATy.isFlonum]
  | .ldbl, lo, hi, off => by simp [hasFlonum, leaves, leafOk, ATy.isFlonum]
  | .flt, lo, hi, off => by simp [hasFlonum, leaves, leafOk, ATy.isFlonum]
  | .dbl, lo, hi, off => by simp [hasFlonum, leaves, leafOk, ATy.isFlonum]
theorem hasFlonumMs_leaves : (ms : Members) → (lo hi off : Nat) →
    hasFlonumMs ms lo hi off = (leavesMs ms off).all (leafOk lo hi)
  | .nil, lo, hi, off => by simp [hasFlonumMs, leavesMs]
  | .cons o t r, lo, hi, off => by
    simp only [hasFlonumMs, leavesMs, List.all_append]
    rw [hasFlonum_leaves t lo hi (off + o), hasFlonumMs_leaves r lo hi off]
end


def isScalar : ATy → Bool
  | .agg .. => false
  | .arr .. => false
  | _ => true

mutual
theorem leaves_scalar : (t : ATy) → (off : Nat) → ∀ x ∈ leaves t off, isScalar x.2 = true
  | .agg _ _ _ ms, off => by simp only [leaves]; exact leavesMs_scalar ms off
  | .arr e n, off => by
    simp only [leaves]
    induction n with
    | zero => simp [concatBelow]
    | succ n ih =>
      intro x hx
      simp only [concatBelow, List.mem_append] at hx
      cases hx with
      | inl h => exact ih x h
      | inr h => exact leaves_scalar e _ x h
  | .int _ _ _, off => by simp [leaves, isScalar]
  | .ldbl, off => by simp [leaves, isScalar]
  | .flt, off => by simp [leaves, isScalar]
  | .dbl, off => by simp [leaves, isScalar]
theorem leavesMs_scalar : (ms : Members) → (off : Nat) → ∀ x ∈ leavesMs ms off, isScalar x.2 = true
  | .nil, off => by simp [leavesMs]
  | .cons o t r, off => by
    intro x hx
    simp only [leavesMs, List.mem_append] at hx
    cases hx with
    | inl h => exact leaves_scalar t _ x h
    | inr h => exact leavesMs_scalar r off x h
end

/-! ### the merge over the scalars of a small aggregate -/

/-- class of an eightbyte from two facts about the scalars that start in it: is there one (`a`), are all of them float/double (`f`) -/
def cls3 (a f : Bool) : Class := if a then (if f then .sse else .integer) else .noClass

def leafClass (t : ATy) : Class := if t.isFlonum then .sse else .integer

theorem merge_cls3 (a f fl : Bool) (h : a = false → f = true) :
    merge (cls3 a f) (if fl then Class.sse else Class.integer) = cls3 true (f && fl) := by
  cases a <;> cases f <;> cases fl <;> simp_all [cls3, merge]

theorem getD_set {α : Type} (l : List α) (i j : Nat) (a d : α) :
    (l.set i a).getD j d = if i = j ∧ i < l.length then a else l.getD j d := by
  simp only [List.getD_eq_getElem?_getD, List.getElem?_set]
  by_cases h : i = j
  · subst h
    by_cases h2 : i < l.length
    · simp [h2]
    · have : l[i]? = none := by simp; omega
      simp [h2, this]
  · simp [h]

/-- a scalar that is not long double contributes its one class to the eightbyte it starts in -/
theorem scalarClasses_of (t : ATy) (hs : isScalar t = true) (hl : isLdbl t = false) : scalarClasses t = [leafClass t] := by
  cases t <;> simp_all [isScalar, isLdbl, scalarClasses, leafClass, ATy.isFlonum]

def foldClasses (L : List (Nat × ATy)) (acc : List Class) : List Class :=
  L.foldl (fun acc (ot : Nat × ATy) => mergeAt acc (ot.1 / 8) (scalarClasses ot.2)) acc

theorem foldClasses_length (L : List (Nat × ATy)) : ∀ acc, (∀ x ∈ L, isScalar x.2 = true ∧ isLdbl x.2 = false) →
    (foldClasses L acc).length = acc.length := by
  induction L with
  | nil => intro acc _; rfl
  | cons x xs ih =>
    intro acc h
    have hx := h x (List.mem_cons_self)
    simp only [foldClasses, List.foldl_cons]
    rw [scalarClasses_of x.2 hx.1 hx.2]
    simp only [mergeAt]
    have := ih (acc.set (x.1 / 8) (merge (acc.getD (x.1 / 8) .noClass) (leafClass x.2)))
      (fun y hy => h y (List.mem_cons_of_mem _ hy))
    simpa [foldClasses] using this

/-- the invariant of the merge loop: eightbyte `k` holds `cls3 (some scalar starts in it) (all that do are float/double)` -/
theorem foldClasses_getD (L : List (Nat × ATy)) : ∀ (acc : List Class) (A F : Nat → Bool),
    (∀ x ∈ L, isScalar x.2 = true ∧ isLdbl x.2 = false) →
    (∀ k, A k = false → F k = true) →
    (∀ k, k < acc.length → acc.getD k .noClass = cls3 (A k) (F k)) →
    ∀ k, k < acc.length →
      (foldClasses L acc).getD k .noClass =
        cls3 (A k || L.any (fun ot => ot.1 / 8 == k)) (F k && L.all (fun ot => ot.1 / 8 != k || ot.2.isFlonum)) := by
  induction L with
  | nil => intro acc A F _ _ hacc k hk; simpa [foldClasses] using hacc k hk
  | cons x xs ih =>
    intro acc A F h hAF hacc k hk
    have hx := h x (List.mem_cons_self)
    simp only [foldClasses, List.foldl_cons]
    rw [scalarClasses_of x.2 hx.1 hx.2]
    simp only [mergeAt]
    -- the accumulator after this scalar
    let acc' := acc.set (x.1 / 8) (merge (acc.getD (x.1 / 8) .noClass) (leafClass x.2))
    let A' := fun j => A j || (x.1 / 8 == j)
    let F' := fun j => F j && (x.1 / 8 != j || x.2.isFlonum)
    have hlen : acc'.length = acc.length := by simp [acc']
    have hAF' : ∀ j, A' j = false → F' j = true := by
      intro j hj
      simp only [A', Bool.or_eq_false_iff] at hj
      have : ¬ x.1 / 8 = j := by simpa using hj.2
      simp [F', hAF j hj.1, this]
    have hacc' : ∀ j, j < acc'.length → acc'.getD j .noClass = cls3 (A' j) (F' j) := by
      intro j hj
      rw [hlen] at hj
      simp only [acc', getD_set]
      by_cases e : x.1 / 8 = j
      · subst e
        simp only [hj, and_self, if_true, A', F', beq_self_eq_true, Bool.or_true, bne_self_eq_false, Bool.false_or]
        rw [hacc _ hj]
        exact merge_cls3 _ _ _ (hAF _)
      · have e' : (x.1 / 8 == j) = false := by simpa using e
        have e'' : (x.1 / 8 != j) = true := by simp [bne, e']
        simp only [e, false_and, if_false, A', F', e', e'', Bool.or_false, Bool.true_or, Bool.and_true]
        exact hacc j hj
    have := ih acc' A' F' (fun y hy => h y (List.mem_cons_of_mem _ hy)) hAF' hacc' k (by rw [hlen]; exact hk)
    simp only [foldClasses] at this
    rw [this]
    simp only [A', F', List.any_cons, List.all_cons, Bool.or_assoc, Bool.and_assoc]


theorem list_len1 {α : Type} (l : List α) (d : α) (h : l.length = 1) : l = [l.getD 0 d] := by
  match l, h with
  | [a], _ => rfl

theorem list_len2 {α : Type} (l : List α) (d : α) (h : l.length = 2) : l = [l.getD 0 d, l.getD 1 d] := by
  match l, h with
  | [a, b], _ => rfl

/-- class of eightbyte `k` as chibicc sees it -/
def flonumClass (ty : ATy) (k : Nat) : Class := if hasFlonum ty (8 * k) (8 * k + 8) 0 then .sse else .integer

theorem all_flonum_eq (L : List (Nat × ATy)) (k : Nat) :
    L.all (fun ot => ot.1 / 8 != k || ot.2.isFlonum) = L.all (leafOk (8 * k) (8 * k + 8)) := by
  apply List.all_congr rfl
  intro x
  simp only [leafOk]
  by_cases h : x.1 / 8 = k
  · have h1 : ¬ (x.1 < 8 * k) := by omega
    have h2 : ¬ (8 * k + 8 ≤ x.1) := by omega
    simp [h, h1, h2]
  · have : x.1 < 8 * k ∨ 8 * k + 8 ≤ x.1 := by omega
    have h' : (x.1 / 8 != k) = true := by simp [bne, h]
    rcases this with h1 | h2
    · simp [h', h1]
    · simp [h', h2]

theorem any_eq_not_all (L : List (Nat × ATy)) (k : Nat) :
    L.any (fun ot => ot.1 / 8 == k) = !(L.all (fun ot => ot.1 / 8 != k)) := by
  induction L with
  | nil => rfl
  | cons x xs ih => simp only [List.any_cons, List.all_cons, ih, Bool.not_and, bne, Bool.not_not]

/-- the merged classes of a small aggregate inside the supported region -/
theorem merged_getD (ty : ATy) (n k : Nat) (hk : k < n)
    (hld : (leaves ty 0).any (fun ot => isLdbl ot.2) = false)
    (hne : eightbyteEmpty ty k = false) :
    (foldClasses (leaves ty 0) (List.replicate n Class.noClass)).getD k .noClass = flonumClass ty k := by
  have hsc : ∀ x ∈ leaves ty 0, isScalar x.2 = true ∧ isLdbl x.2 = false := by
    intro x hx
    refine ⟨leaves_scalar ty 0 x hx, ?_⟩
    rw [List.any_eq_false] at hld
    simpa using hld x hx
  have := foldClasses_getD (leaves ty 0) (List.replicate n Class.noClass) (fun _ => false) (fun _ => true) hsc
    (fun _ _ => rfl) (by intro j hj; simp [cls3, List.getD_eq_getElem?_getD]; simp at hj; simp [hj]) k (by simpa using hk)
  rw [this]
  simp only [Bool.false_or, Bool.true_and]
  rw [any_eq_not_all]
  simp only [eightbyteEmpty] at hne
  rw [hne, all_flonum_eq, ← hasFlonum_leaves]
  simp [cls3, flonumClass]


theorem tyOk_agg {u : Bool} {sz al : Nat} {ms : Members} (h : tyOk (.agg u sz al ms) = true) (h16 : sz ≤ 16)
    (hpos : 0 < sz) :
    0 < sz ∧ hasUnaligned (.agg u sz al ms) = false ∧
    (leaves (.agg u sz al ms) 0).any (fun ot => isLdbl ot.2) = false ∧
    eightbyteEmpty (.agg u sz al ms) 0 = false ∧ (sz > 8 → eightbyteEmpty (.agg u sz al ms) 1 = false) := by
  have hsz : (ATy.agg u sz al ms).size = sz := rfl
  have d16 : decide ((ATy.agg u sz al ms).size ≤ 16) = true := decide_eq_true (by rw [hsz]; exact h16)
  simp only [tyOk, Bool.and_eq_true, Bool.not_eq_true'] at h
  obtain ⟨⟨h1, h2⟩, h3⟩ := h
  simp only [ldblInSmallAgg, ATy.isAgg, d16, Bool.true_and] at h1
  simp only [packedUnaligned, ATy.isAgg, d16, Bool.true_and] at h2
  have dpos : decide (0 < (ATy.agg u sz al ms).size) = true := decide_eq_true (by rw [hsz]; exact hpos)
  simp only [paddingEightbyte, ATy.isAgg, d16, dpos, Bool.true_and, Bool.or_eq_false_iff] at h3
  refine ⟨hpos, h2, h1, h3.1, ?_⟩
  intro h8
  have d8 : decide ((ATy.agg u sz al ms).size > 8) = true := decide_eq_true (by rw [hsz]; exact h8)
  have := h3.2
  simpa only [d8, Bool.true_and] using this

theorem postMerger_small1 (c : Class) (sz : Nat) (h16 : sz ≤ 16) (hc : c = .sse ∨ c = .integer) : postMerger [c] sz = [c] := by
  have : ¬ sz > 16 := by omega
  rcases hc with rfl | rfl <;> simp [postMerger, x87upOk, this]

theorem postMerger_small2 (c d : Class) (sz : Nat) (h16 : sz ≤ 16) (hc : c = .sse ∨ c = .integer) (hd : d = .sse ∨ d = .integer) :
    postMerger [c, d] sz = [c, d] := by
  have : ¬ sz > 16 := by omega
  rcases hc with rfl | rfl <;> rcases hd with rfl | rfl <;> simp [postMerger, x87upOk, this]

theorem flonumClass_cases (ty : ATy) (k : Nat) : flonumClass ty k = .sse ∨ flonumClass ty k = .integer := by
  simp only [flonumClass]; split <;> simp

/-- **classification of a small aggregate**: inside the supported region the psABI classes are what `has_flonum` says -/
theorem classify_small {u : Bool} {sz al : Nat} {ms : Members} (hok : tyOk (.agg u sz al ms) = true) (h16 : sz ≤ 16)
    (hpos0 : 0 < sz) :
    classify (.agg u sz al ms) =
      if sz > 8 then [flonumClass (.agg u sz al ms) 0, flonumClass (.agg u sz al ms) 1]
      else [flonumClass (.agg u sz al ms) 0] := by
  obtain ⟨hpos, hu, hl, he0, he1⟩ := tyOk_agg hok h16 hpos0
  have h64 : ¬ sz > 64 := by omega
  simp only [classify, ATy.size, h64, hu, false_or, Bool.false_eq_true, if_false]
  change postMerger (foldClasses (leaves (.agg u sz al ms) 0) (List.replicate (eightbytes sz) Class.noClass)) sz = _
  have hsc : ∀ x ∈ leaves (.agg u sz al ms) 0, isScalar x.2 = true ∧ isLdbl x.2 = false := by
    intro x hx
    refine ⟨leaves_scalar _ 0 x hx, ?_⟩
    rw [List.any_eq_false] at hl
    simpa using hl x hx
  have hlen := foldClasses_length (leaves (.agg u sz al ms) 0) (List.replicate (eightbytes sz) Class.noClass) hsc
  simp only [List.length_replicate] at hlen
  by_cases h8 : sz > 8
  · have hn : eightbytes sz = 2 := by unfold eightbytes; omega
    rw [hn] at hlen ⊢
    rw [list_len2 _ Class.noClass hlen, merged_getD _ 2 0 (by omega) hl he0, merged_getD _ 2 1 (by omega) hl (he1 h8)]
    simp only [h8, if_true]
    exact postMerger_small2 _ _ _ h16 (flonumClass_cases _ _) (flonumClass_cases _ _)
  · have hn : eightbytes sz = 1 := by unfold eightbytes; omega
    rw [hn] at hlen ⊢
    rw [list_len1 _ Class.noClass hlen, merged_getD _ 1 0 (by omega) hl he0]
    simp only [h8, if_false]
    exact postMerger_small1 _ _ h16 (flonumClass_cases _ _)


/-! ### an empty aggregate has no eightbyte -/

theorem mergeAt_nil (cs : List Class) : ∀ k, mergeAt [] k cs = [] := by
  induction cs with
  | nil => intro k; rfl
  | cons c cs ih => intro k; simp [mergeAt, ih]

theorem foldClasses_nil (L : List (Nat × ATy)) : foldClasses L [] = [] := by
  induction L with
  | nil => rfl
  | cons x xs ih => simp only [foldClasses, List.foldl_cons, mergeAt_nil] at ih ⊢; exact ih

/-- the GNU empty struct: no eightbyte, no class, passed and returned in nothing (what gcc and clang do in C) -/
theorem classify_empty {u : Bool} {al : Nat} {ms : Members} (hok : tyOk (.agg u 0 al ms) = true) :
    classify (.agg u 0 al ms) = [] := by
  have hu : hasUnaligned (.agg u 0 al ms) = false := by
    simp only [tyOk, Bool.and_eq_true, Bool.not_eq_true'] at hok
    have := hok.1.2
    simpa [packedUnaligned, ATy.isAgg, ATy.size] using this
  simp only [classify, ATy.size, hu]
  change (if (0 > 64 ∨ false = true) then [Class.memory]
    else postMerger (foldClasses (leaves (.agg u 0 al ms) 0) (List.replicate (eightbytes 0) Class.noClass)) 0) = _
  have : eightbytes 0 = 0 := rfl
  rw [this, List.replicate_zero, foldClasses_nil]
  simp [postMerger, x87upOk]

/-! ### aggregates of more than 16 bytes are MEMORY -/

theorem merge_ne_sseup (a b : Class) (ha : a ≠ .sseup) (hb : b ≠ .sseup) : merge a b ≠ .sseup := by
  cases a <;> cases b <;> simp_all [merge]

theorem scalarClasses_ne_sseup (t : ATy) : ∀ c ∈ scalarClasses t, c ≠ Class.sseup := by
  cases t <;> simp [scalarClasses]

theorem mergeAt_inv (cs : List Class) : ∀ (acc : List Class) (k : Nat),
    (∀ c ∈ acc, c ≠ Class.sseup) → (∀ c ∈ cs, c ≠ Class.sseup) →
    (mergeAt acc k cs).length = acc.length ∧ ∀ c ∈ mergeAt acc k cs, c ≠ Class.sseup := by
  induction cs with
  | nil => intro acc k h _; exact ⟨rfl, h⟩
  | cons c cs ih =>
    intro acc k hacc hcs
    simp only [mergeAt]
    have hm : merge (acc.getD k .noClass) c ≠ .sseup := by
      apply merge_ne_sseup
      · by_cases hk : k < acc.length
        · have : acc.getD k .noClass ∈ acc := by
            rw [List.getD_eq_getElem?_getD, List.getElem?_eq_getElem hk]; simp
          exact hacc _ this
        · have : acc.getD k .noClass = .noClass := by
            rw [List.getD_eq_getElem?_getD, List.getElem?_eq_none (by omega)]; rfl
          rw [this]; simp
      · exact hcs c List.mem_cons_self
    have hset : ∀ x ∈ acc.set k (merge (acc.getD k .noClass) c), x ≠ Class.sseup := by
      intro x hx
      rcases List.mem_or_eq_of_mem_set hx with h | h
      · exact hacc x h
      · rw [h]; exact hm
    have := ih (acc.set k (merge (acc.getD k .noClass) c)) (k + 1) hset (fun x hx => hcs x (List.mem_cons_of_mem _ hx))
    exact ⟨by rw [this.1]; simp, this.2⟩

theorem foldClasses_inv (L : List (Nat × ATy)) : ∀ (acc : List Class), (∀ c ∈ acc, c ≠ Class.sseup) →
    (foldClasses L acc).length = acc.length ∧ ∀ c ∈ foldClasses L acc, c ≠ Class.sseup := by
  induction L with
  | nil => intro acc h; exact ⟨rfl, h⟩
  | cons x xs ih =>
    intro acc h
    simp only [foldClasses, List.foldl_cons]
    have h1 := mergeAt_inv (scalarClasses x.2) acc (x.1 / 8) h (scalarClasses_ne_sseup x.2)
    have h2 := ih (mergeAt acc (x.1 / 8) (scalarClasses x.2)) h1.2
    simp only [foldClasses] at h2
    exact ⟨by rw [h2.1, h1.1], h2.2⟩

theorem classify_big {u : Bool} {sz al : Nat} {ms : Members} (h : sz > 16) : classify (.agg u sz al ms) = [.memory] := by
  have hsz : (ATy.agg u sz al ms).size = sz := rfl
  simp only [classify]
  by_cases hc : (ATy.agg u sz al ms).size > 64 ∨ hasUnaligned (ATy.agg u sz al ms) = true
  · rw [if_pos hc]
  · rw [if_neg hc, hsz]
    change postMerger (foldClasses (leaves (.agg u sz al ms) 0) (List.replicate (eightbytes sz) Class.noClass)) sz = _
    obtain ⟨hlen, hns⟩ := foldClasses_inv (leaves (.agg u sz al ms) 0) (List.replicate (eightbytes sz) Class.noClass)
      (by intro c hc; rw [List.mem_replicate] at hc; rw [hc.2]; simp)
    generalize foldClasses (leaves (.agg u sz al ms) 0) (List.replicate (eightbytes sz) Class.noClass) = cs at *
    simp only [List.length_replicate] at hlen
    have hn : 3 ≤ cs.length := by rw [hlen]; unfold eightbytes; omega
    have hdrop : (cs.drop 1).all (· == Class.sseup) = false := by
      match cs, hn, hns with
      | a :: b :: rest, _, hns =>
        have : b ≠ Class.sseup := hns b (by simp)
        simp [this]
    simp only [postMerger, h, hdrop, true_and]
    split
    · rfl
    · split
      · rfl
      · simp


/-! ### one argument: chibicc's pass and the psABI's -/

theorem flonumClass0 (ty : ATy) : flonumClass ty 0 = if hasFlonum1 ty then Class.sse else Class.integer := by
  rfl

theorem flonumClass1 (ty : ATy) : flonumClass ty 1 = if hasFlonum2 ty then Class.sse else Class.integer := by
  rfl

theorem abi_step (t : ATy) (gp fp off : Nat) (hsz : aggSizeOk t = true) (hok : tyOk t = true)
    (hpad : ∀ o, (assignStep (min gp GP_MAX, min fp FP_MAX, off) t).2 = .stack o → o = off) :
    assignStep (min gp GP_MAX, min fp FP_MAX, off) t =
      ((min (refStep (gp, fp, off) t).1.1 GP_MAX, min (refStep (gp, fp, off) t).1.2.1 FP_MAX, (refStep (gp, fp, off) t).1.2.2),
       (refStep (gp, fp, off) t).2) := by
  cases t with
  | int sz u b =>
    simp only [aggSizeOk, Bool.and_eq_true, decide_eq_true_eq] at hsz
    simp only [assignStep, classify, scalarClasses, inMemory, countClass, refStep, GP_MAX_eq, FP_MAX_eq, ATy.size, ATy.align,
      regPieces, roundUp] at hpad ⊢
    simp at hpad ⊢
    have hm : max 8 sz = 8 := by omega
    rw [hm] at hpad ⊢
    by_cases h : gp < 6
    · have c : min gp 6 ≤ 5 ∧ min fp 8 ≤ 8 := by omega
      rw [if_pos c]
      simp [h]; omega
    · have c : ¬ (min gp 6 ≤ 5 ∧ min fp 8 ≤ 8) := by omega
      rw [if_neg c] at hpad ⊢
      have := hpad _ rfl
      simp [h, this]; omega
  | flt =>
    simp only [assignStep, classify, scalarClasses, inMemory, countClass, refStep, GP_MAX_eq, FP_MAX_eq, ATy.size, ATy.align,
      regPieces, roundUp] at hpad ⊢
    simp at hpad ⊢
    by_cases h : fp < 8
    · have c : min gp 6 ≤ 6 ∧ min fp 8 ≤ 7 := by omega
      rw [if_pos c]
      simp [h]; omega
    · have c : ¬ (min gp 6 ≤ 6 ∧ min fp 8 ≤ 7) := by omega
      rw [if_neg c] at hpad ⊢
      have := hpad _ rfl
      simp [h, this]; omega
  | dbl =>
    simp only [assignStep, classify, scalarClasses, inMemory, countClass, refStep, GP_MAX_eq, FP_MAX_eq, ATy.size, ATy.align,
      regPieces, roundUp] at hpad ⊢
    simp at hpad ⊢
    by_cases h : fp < 8
    · have c : min gp 6 ≤ 6 ∧ min fp 8 ≤ 7 := by omega
      rw [if_pos c]
      simp [h]; omega
    · have c : ¬ (min gp 6 ≤ 6 ∧ min fp 8 ≤ 7) := by omega
      rw [if_neg c] at hpad ⊢
      have := hpad _ rfl
      simp [h, this]; omega
  | ldbl =>
    simp only [assignStep, classify, scalarClasses, inMemory, countClass, refStep, GP_MAX_eq, FP_MAX_eq, ATy.size, ATy.align,
      regPieces, roundUp] at hpad ⊢
    simp at hpad ⊢
    simp only [hpad]
  | arr e n => simp [tyOk] at hok
  | agg u sz al ms =>
    by_cases hz : sz = 0
    · subst hz
      have hcl := classify_empty hok
      simp only [assignStep, hcl, refStep, regsOf, structInRegs, ATy.size, GP_MAX_eq, FP_MAX_eq, inMemory, countClass,
        regPieces]
      simp
      omega
    have hpos0 : 0 < sz := by omega
    by_cases h16 : sz ≤ 16
    · -- at most 16 bytes: classes from has_flonum
      have hcl := classify_small hok h16 hpos0
      obtain ⟨hpos, _, _⟩ := aggSizeOk_agg hsz h16 hpos0
      rw [flonumClass0, flonumClass1] at hcl
      simp only [assignStep, hcl, refStep, regsOf, structInRegs, b2n, pushSlots, ATy.size, ATy.align, GP_MAX_eq, FP_MAX_eq,
        h16, true_and, alignTo, roundUp, hz, if_false] at hpad ⊢
      by_cases e1 : hasFlonum1 (.agg u sz al ms) = true <;> by_cases e2 : hasFlonum2 (.agg u sz al ms) = true <;>
        by_cases h8 : sz > 8 <;>
        simp [e1, e2, h8, inMemory, countClass, regPieces] at hpad ⊢ <;>
        (split
         next c =>
           split
           next d => simp; omega
           next d => exfalso; omega
         next c =>
           rw [if_neg c] at hpad
           have hp := hpad _ rfl
           rw [hp]
           split
           next d => exfalso; omega
           next d => simp; omega)
    · have h16' : sz > 16 := by omega
      have hcl := classify_big (u := u) (al := al) (ms := ms) h16'
      simp only [assignStep, hcl, refStep, pushSlots, ATy.size, ATy.align, h16, false_and, if_false, inMemory, alignTo, roundUp]
        at hpad ⊢
      simp at hpad ⊢
      simp only [hpad]
      exact ⟨by omega, trivial⟩


/-! ### the whole argument list -/

theorem assignLoop_cons (st : Nat × Nat × Nat) (t : ATy) (ts : List ATy) :
    assignLoop st (t :: ts) = ((assignLoop (assignStep st t).1 ts).1, (assignStep st t).2 :: (assignLoop (assignStep st t).1 ts).2) := rfl

theorem stackPadLoop_cons (st : Nat × Nat × Nat) (t : ATy) (ts : List ATy) :
    stackPadLoop st (t :: ts) =
      ((match (assignStep st t).2 with
        | .stack off => decide (off ≠ st.2.2)
        | _ => false) || stackPadLoop (assignStep st t).1 ts) := rfl

/-- **induction on the argument list with the (gp, fp, stack) counters as invariant**: outside the known-finding regions
    chibicc's pass and the psABI's pass agree argument by argument; the psABI's register counters are chibicc's, saturated -/
theorem abi_loop (ts : List ATy) : ∀ (gp fp off : Nat), ts.all aggSizeOk = true → ts.all tyOk = true →
    stackPadLoop (min gp GP_MAX, min fp FP_MAX, off) ts = false →
    assignLoop (min gp GP_MAX, min fp FP_MAX, off) ts =
      ((min (refLoop (gp, fp, off) ts).1.1 GP_MAX, min (refLoop (gp, fp, off) ts).1.2.1 FP_MAX, (refLoop (gp, fp, off) ts).1.2.2),
       (refLoop (gp, fp, off) ts).2) := by
  induction ts with
  | nil => intro gp fp off _ _ _; rfl
  | cons t ts ih =>
    intro gp fp off hsz hok hpad
    simp only [List.all_cons, Bool.and_eq_true] at hsz hok
    rw [stackPadLoop_cons, Bool.or_eq_false_iff] at hpad
    have hp : ∀ o, (assignStep (min gp GP_MAX, min fp FP_MAX, off) t).2 = .stack o → o = off := by
      intro o ho
      have h1 := hpad.1
      rw [ho] at h1
      simpa using h1
    have hstep := abi_step t gp fp off hsz.1 hok.1 hp
    rw [assignLoop_cons, refLoop_cons, hstep]
    have hpad2 := hpad.2
    rw [hstep] at hpad2
    have hr : (refStep (gp, fp, off) t).1 =
        ((refStep (gp, fp, off) t).1.1, (refStep (gp, fp, off) t).1.2.1, (refStep (gp, fp, off) t).1.2.2) := rfl
    rw [hr]
    rw [ih _ _ _ hsz.2 hok.2 hpad2]


/-! ### return values and the hidden pointer -/

theorem retInMemory_eq (r : Option ATy) (h : retOk r = true) : retInMemory r = retLarge r := by
  cases r with
  | none => rfl
  | some t =>
    simp only [retOk] at h
    cases t with
    | int sz u b => simp [retInMemory, retLarge, classify, scalarClasses, ATy.isAgg]
    | flt => simp [retInMemory, retLarge, classify, scalarClasses, ATy.isAgg]
    | dbl => simp [retInMemory, retLarge, classify, scalarClasses, ATy.isAgg]
    | ldbl => simp [retInMemory, retLarge, classify, scalarClasses, ATy.isAgg]
    | arr e n => simp [tyOk] at h
    | agg u sz al ms =>
      by_cases hz : sz = 0
      · subst hz
        simp [retInMemory, retLarge, classify_empty h, ATy.isAgg, ATy.size]
      have hpos0 : 0 < sz := by omega
      by_cases h16 : sz ≤ 16
      · have hcl := classify_small h h16 hpos0
        rw [flonumClass0, flonumClass1] at hcl
        have : ¬ sz > 16 := by omega
        simp only [retInMemory, retLarge, hcl, ATy.isAgg, ATy.size, Bool.true_and]
        by_cases h8 : sz > 8 <;> by_cases e1 : hasFlonum1 (.agg u sz al ms) = true <;>
          by_cases e2 : hasFlonum2 (.agg u sz al ms) = true <;> simp [h8, e1, e2, this]
      · have h16' : sz > 16 := by omega
        simp [retInMemory, retLarge, classify_big (u := u) (al := al) (ms := ms) h16', ATy.isAgg, ATy.size, h16']

theorem ret_abi (r : Option ATy) (h : retOk r = true) (hsz : ∀ t, r = some t → aggSizeOk t = true) :
    retCaller r = .ok (Spec.PsABI.ret r) ∧ retCallee r = .ok (Spec.PsABI.ret r) := by
  cases r with
  | none => exact ⟨rfl, rfl⟩
  | some t =>
    simp only [retOk] at h
    cases t with
    | int sz u b => simp [retCaller, retCallee, Spec.PsABI.ret, classify, scalarClasses, retPieces]
    | flt => simp [retCaller, retCallee, Spec.PsABI.ret, classify, scalarClasses, retPieces]
    | dbl => simp [retCaller, retCallee, Spec.PsABI.ret, classify, scalarClasses, retPieces]
    | ldbl => simp [retCaller, retCallee, Spec.PsABI.ret, classify, scalarClasses, retPieces]
    | arr e n => simp [tyOk] at h
    | agg u sz al ms =>
      by_cases hz : sz = 0
      · subst hz
        simp [retCaller, retCallee, Spec.PsABI.ret, classify_empty h, retPiecesCaller, retPiecesCallee, ATy.size, retPieces,
          pure, Except.pure, Except.map]
      have hpos0 : 0 < sz := by omega
      by_cases h16 : sz ≤ 16
      · have hcl := classify_small h h16 hpos0
        rw [flonumClass0, flonumClass1] at hcl
        obtain ⟨hpos, hf1, hf2⟩ := aggSizeOk_agg (hsz _ rfl) h16 hpos0
        simp only [retCaller, retCallee, Spec.PsABI.ret, hcl, retPiecesCaller, retPiecesCallee, ATy.size, h16, if_true, hz,
          if_false]
        simp only [hasFlonum1, hasFlonum2] at hf1 hf2 ⊢
        by_cases h8 : sz > 8 <;> by_cases e1 : hasFlonum (.agg u sz al ms) 0 8 0 = true <;>
          by_cases e2 : hasFlonum (.agg u sz al ms) 8 16 0 = true <;>
          simp [h8, e1, e2, retPieces, bind, Except.bind, pure, Except.pure, Except.map, throw, throwThe, MonadExceptOf.throw] at hf1 hf2 ⊢ <;>
          (try simp [hf1, hf2])
      · have h16' : sz > 16 := by omega
        simp [retCaller, retCallee, Spec.PsABI.ret, classify_big (u := u) (al := al) (ms := ms) h16', ATy.size, h16]

end ChibiVerif.CallConv
