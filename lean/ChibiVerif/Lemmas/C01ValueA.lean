/-
C01: the composition theorem for expressions whose objects are reached through lvalues other than plain variables
(`C01_value_lvalues` in Props/C01.lean): `value_a`, the induction of `value_j` with the address of every object computed by
the `gen_addr` code of its lvalue (`Acc`, Model/C01ExprA.lean), over the lvalue combinators of Lemmas/C01Lvalue.lean.

The address code may read variables (the pointer of `*p`, the index of `a[i]`): the set `D` of these dependencies must not
be assigned by the expression (`∀ i ∈ wr e, i ∉ D`), so the objects designated stay the same while the expression is
evaluated; `Agr D σ σr` (the stores agree with a reference store on `D`) is the invariant carried through the induction.
-/
import ChibiVerif.Lemmas.C01ExprAFacts

namespace ChibiVerif.C01
open ChibiVerif.X86 ChibiVerif.Asm ChibiVerif.Spec.IntSpec ChibiVerif.Gen.CommonType ChibiVerif.C01Codegen ChibiVerif.X86J

/-- agreement on `D` survives an evaluation that does not assign `D` -/
theorem Agr.frm {D W : List Nat} {σ σ1 σr : Env} (h : Agr D σ σr) (f : Frm W σ σ1) (hd : ∀ i, i ∈ W → i ∉ D) : Agr D σ1 σr :=
  ⟨f.tys.trans h.tys, f.len.trans h.len, fun i hi => (f.same i (fun hw => hd i hw hi)).trans (h.on i hi)⟩

/-- the access table reaches object `i`: in every store that agrees with `σr` on `D`, `pcode i` computes (without side
    effects) an address `ap`, and `dsuf i` adds the member offset that makes it the address of `i` -/
def AccOK (bp0 : BitVec 64) (off toff : Nat → Int) (K : Nat) (A : Acc) (D : List Nat) (σr : Env) (i : Nat) : Prop :=
  ∃ (ap : BitVec 64) (dd : Int), ap + BitVec.ofInt 64 dd = addrOf bp0 (off i) ∧ DS (A.dsuf i) dd ∧
    ∀ σ, Agr D σ σr → ∀ k, k ≤ K → EvJ (AtBp bp0) off toff K (J (A.pcode i)) σ σ (fun r => r = ap) [] k k (A.adep i)

section
variable {bp0 : BitVec 64} {off toff : Nat → Int} {K : Nat} {A : Acc} {D : List Nat} {σr : Env}

/-- the address of object `i` -/
theorem acc_addr {i : Nat} (h : AccOK bp0 off toff K A D σr i) (σ : Env) (hI : Agr D σ σr) (k : Nat) (hk : k ≤ K) :
    EvJ (AtBp bp0) off toff K (J (A.pcode i) ++ J (A.dsuf i)) σ σ (fun r => r = addrOf bp0 (off i)) [] k k (A.adep i) := by
  obtain ⟨ap, dd, hsum, hds, hp⟩ := h
  exact (hp σ hI k hk).then_same (R2 := fun r => r = addrOf bp0 (off i)) (fun s hs => by
    obtain ⟨s', r, hax, sm⟩ := hds s
    exact ⟨s', r, by rw [hax, hs, hsum], sm⟩)

/-- **`++A` / `--A` / `A += literal`** on an object reached through the access table -/
theorem acc_incdec (op : BinOp) (nk : NK) (hop : specOp nk = some op) (hns : op.isShift = false) {i : Nat}
    (h : AccOK bp0 off toff K A D σr i) (σ : Env) (hI : Agr D σ σr) {ti : ITy} {x y : Int}
    (hti : σ.tys[i]? = some ti) (hx : σ.vals[i]? = some x) (a : Int) (ha : ITy.i32.inRange a)
    (hy : binop op ti .i32 x a = some y) (k0 : Nat) (hK : k0 + 1 ≤ K) :
    EvJ (AtBp bp0) off toff K (opAssignCodeL nk op ti .i32 (toff k0) (J (A.pcode i)) (A.dsuf i) (J [iMovImm a])) σ
      (σ.set i (convert ti y)) (fun r => Represents ti r (convert ti y)) [i] k0 (k0 + 1) (max (A.adep i + 1) 2) := by
  obtain ⟨ap, dd, hsum, hds, hp⟩ := h
  rw [opAssignCodeL_eq]
  simp only [hns, Bool.false_eq_true, if_false]
  have E := EvJ.of_EvX (P := AtBp bp0) (EvX.lit (off := off) (toff := toff) (K := K) σ .i32 a ha k0)
  have := EvJ.opassignL (castB := castSeq .i32 (binopOperandType op ti .i32))
    (Rr := fun r => Represents (binopOperandType op ti .i32) r (convert (binopOperandType op ti .i32) a))
    (t := binopOperandType op ti .i32) (tres := binopType op ti .i32) (y := y) (nk := nk) (k0 := k0) hti (hp σ hI k0 (by omega)) hsum hds E
    (fun s h => cast_run .i32 _ s a h) hx
    (fun s h1 h2 => arith_step nk op hop hns ti .i32 x a y hy s h1 h2)
    ⟨Nat.le_refl _, Nat.le_refl _, Nat.le_refl _, Nat.le_refl _⟩ (Nat.le_refl _) (by omega)
  simpa [opAssignNFL] using this

/-- **`A++` / `A--`** on a non-`_Bool` object reached through the access table: `(T)((A += ±1) + ∓1)` has the old value -/
theorem acc_postfix (isDec : Bool) {i : Nat} (h : AccOK bp0 off toff K A D σr i) (σ : Env) (hI : Agr D σ σr) {ti : ITy}
    {x r : Int} (hti : σ.tys[i]? = some ti) (hnb : ¬ ti = .bool) (hx : σ.vals[i]? = some x)
    (hr : compound (if isDec then .sub else .add) ti .i32 x 1 = some r) (k0 : Nat) (hK : k0 + 1 ≤ K) :
    EvJ (AtBp bp0) off toff K (postCodeA A ti i (toff k0) (if isDec then -1 else 1)) σ (σ.set i r)
      (fun q => Represents ti q x) [i] k0 (k0 + 1) (max (A.adep i + 1) 2 + 1) := by
  refine ⟨rfl, ?_⟩
  intro m n B hP l hd hsp hB hH
  have hrx : ti.inRange x := (hH i ti x hti hx).1
  have ha : (if isDec then (-1 : Int) else 1) = 1 ∨ (if isDec then (-1 : Int) else 1) = -1 := by cases isDec <;> simp
  have hr' : compound .add ti .i32 x (if isDec then -1 else 1) = some r := by
    cases isDec
    · simpa using hr
    · simp only [if_true] at hr ⊢; rw [← compound_sub_one ti x hrx]; exact hr
  obtain ⟨y, hy, hcv⟩ := postfix_key ti hnb x _ r hrx ha hr'
  simp only [compound, Option.map_eq_some_iff] at hr'
  obtain ⟨y0, hy0, rfl⟩ := hr'
  have hai : ITy.i32.inRange (if isDec then (-1 : Int) else 1) := by cases isDec <;> decide
  have hbi : ITy.i32.inRange (-(if isDec then (-1 : Int) else 1)) := by cases isDec <;> decide
  have E1 := acc_incdec .add .ND_ADD rfl rfl h σ hI hti hx _ hai hy0 k0 hK
  have E0 := EvJ.of_EvX (P := AtBp bp0) (EvX.lit (off := off) (toff := toff) (K := K) σ .i32 _ hbi k0)
  have E3 := ((EvJ.bin_arith (k0 := k0) (k1 := k0 + 1) hy .ND_ADD rfl rfl E0 E1 (by omega) hK).then_same
    (R2 := fun q => Represents ti q (convert ti y)) (fun s h => cast_run _ ti s y h)).weaken (W' := [i])
      (by simp) (Nat.le_refl _) (Nat.le_refl _) (d' := max (A.adep i + 1) 2 + 1) (by omega)
  rw [hcv] at E3
  have := E3.2 m n B hP l hd hsp hB hH
  simpa [postCodeA, J_append, J_cons, J_nil, List.append_assoc, BinOp.isShift, binopType, BinOp.isRel] using this

end

/-- **the induction**: every expression of the full type `E` whose objects are reached through the access table `A` -/
theorem value_a (bp0 : BitVec 64) (off toff : Nat → Int) (K : Nat) (A : Acc) (D : List Nat) (σr : Env) (e : E) :
    ∀ (σ : Env) (t : ITy) (code : List JI) (v : Int) (σ' : Env) (k0 k1 c0 c1 : Nat),
      Agr D σ σr → (∀ i, i ∈ wr e → i ∉ D) → (∀ i, i ∈ objs e → AccOK bp0 off toff K A D σr i) →
      compileA σ.tys toff A k0 c0 e = some (t, code, k1, c1) → evalE σ e = some (v, σ') → noConflict e = true → k1 ≤ K →
      EvJ (AtBp bp0) off toff K code σ σ' (fun r => Represents t r v) (wr e) k0 k1 (depthA A e) := by
  induction e with
  | lit t0 v0 =>
    intro σ t code v σ' k0 k1 c0 c1 hI hD hA hc hv hn hK
    have hx : compileX σ.tys off toff k0 (.lit t0 v0) = some (t, [iMovImm v0], k1) := by
      simp only [compileA, Option.some.injEq, Prod.mk.injEq] at hc
      obtain ⟨rfl, _, rfl, _⟩ := hc; rfl
    have hcode : code = J [iMovImm v0] := by
      simp only [compileA, Option.some.injEq, Prod.mk.injEq] at hc; exact hc.2.1.symm
    rw [hcode]
    exact EvJ.of_EvX (value_x off toff K _ σ t _ v σ' k0 k1 hx hv hn hK)
  | var i =>
    intro σ t code v σ' k0 k1 c0 c1 hI hD hA hc hv hn hK
    simp only [compileA, Option.map_eq_some_iff, Prod.mk.injEq] at hc
    obtain ⟨t0, h0, rfl, rfl, rfl, rfl⟩ := hc
    simp only [evalE, Env.val?, Option.map_eq_some_iff, Prod.mk.injEq] at hv
    obtain ⟨v0, hv0, rfl, rfl⟩ := hv
    have Ea := acc_addr (hA i (by simp [objs])) σ hI k0 hK
    have := EvJ.loadL (t := t0) (v := v0) Ea h0 hv0
    simpa [loadCodeL, Acc.acode, J_append, List.append_assoc, depthA, wr] using this
  | preinc i =>
    intro σ t code v σ' k0 k1 c0 c1 hI hD hA hc hv _ hK
    simp only [compileA, Option.map_eq_some_iff, Prod.mk.injEq] at hc
    obtain ⟨ti, hti, rfl, rfl, rfl, rfl⟩ := hc
    simp only [evalE, Env.ty?, Env.val?, hti, Option.bind_eq_bind, Option.bind_eq_some_iff, Option.some.injEq,
      exists_eq_left'] at hv
    obtain ⟨x, hx, r, hr, hv⟩ := hv
    simp only [Prod.mk.injEq] at hv
    obtain ⟨rfl, rfl⟩ := hv
    simp only [compound, Option.map_eq_some_iff] at hr
    obtain ⟨y, hy, rfl⟩ := hr
    have := acc_incdec .add .ND_ADD rfl rfl (hA i (by simp [objs])) σ hI hti hx 1 (by decide) hy k0 hK
    simpa [depthA, wr] using this
  | predec i =>
    intro σ t code v σ' k0 k1 c0 c1 hI hD hA hc hv _ hK
    simp only [compileA, Option.map_eq_some_iff, Prod.mk.injEq] at hc
    obtain ⟨ti, hti, rfl, rfl, rfl, rfl⟩ := hc
    simp only [evalE, Env.ty?, Env.val?, hti, Option.bind_eq_bind, Option.bind_eq_some_iff, Option.some.injEq,
      exists_eq_left'] at hv
    obtain ⟨x, hx, r, hr, hv⟩ := hv
    simp only [Prod.mk.injEq] at hv
    obtain ⟨rfl, rfl⟩ := hv
    simp only [compound, Option.map_eq_some_iff] at hr
    obtain ⟨y, hy, rfl⟩ := hr
    have := acc_incdec .sub .ND_SUB rfl rfl (hA i (by simp [objs])) σ hI hti hx 1 (by decide) hy k0 hK
    simpa [depthA, wr] using this
  | postinc i =>
    intro σ t code v σ' k0 k1 c0 c1 hI hD hA hc hv _ hK
    simp only [compileA] at hc
    cases hti : σ.tys[i]? with
    | none => simp [hti] at hc
    | some ti =>
      simp only [hti] at hc
      split at hc
      · simp at hc
      · rename_i hnb
        simp only [Option.some.injEq, Prod.mk.injEq] at hc
        obtain ⟨rfl, rfl, rfl, rfl⟩ := hc
        simp only [evalE, Env.ty?, Env.val?, hti, Option.bind_eq_bind, Option.bind_eq_some_iff, Option.some.injEq,
          exists_eq_left'] at hv
        obtain ⟨x, hx, r, hr, hv⟩ := hv
        simp only [Prod.mk.injEq] at hv
        obtain ⟨rfl, rfl⟩ := hv
        have := acc_postfix false (hA i (by simp [objs])) σ hI hti hnb hx (by simpa using hr) k0 hK
        simpa [depthA, wr] using this
  | postdec i =>
    intro σ t code v σ' k0 k1 c0 c1 hI hD hA hc hv _ hK
    simp only [compileA] at hc
    cases hti : σ.tys[i]? with
    | none => simp [hti] at hc
    | some ti =>
      simp only [hti] at hc
      split at hc
      · simp at hc
      · rename_i hnb
        simp only [Option.some.injEq, Prod.mk.injEq] at hc
        obtain ⟨rfl, rfl, rfl, rfl⟩ := hc
        simp only [evalE, Env.ty?, Env.val?, hti, Option.bind_eq_bind, Option.bind_eq_some_iff, Option.some.injEq,
          exists_eq_left'] at hv
        obtain ⟨x, hx, r, hr, hv⟩ := hv
        simp only [Prod.mk.injEq] at hv
        obtain ⟨rfl, rfl⟩ := hv
        have := acc_postfix true (hA i (by simp [objs])) σ hI hti hnb hx (by simpa using hr) k0 hK
        simpa [depthA, wr] using this
  | cast t0 e ih =>
    intro σ t code v σ' k0 k1 c0 c1 hI hD hA hc hv hn hK
    simp only [compileA, Option.map_eq_some_iff, Prod.mk.injEq] at hc
    obtain ⟨⟨te, c, k, cc⟩, h0, rfl, rfl, rfl, rfl⟩ := hc
    simp only [evalE, Option.bind_eq_bind, Option.bind_eq_some_iff] at hv
    obtain ⟨⟨v1, σ1⟩, he, hv⟩ := hv
    simp only [Option.some.injEq, Prod.mk.injEq] at hv
    obtain ⟨rfl, rfl⟩ := hv
    exact (ih σ te c v1 σ1 k0 k c0 cc hI hD hA h0 he hn hK).then_same (fun s hs => cast_run te t0 s v1 hs)
  | un op e ih =>
    intro σ t code v σ' k0 k1 c0 c1 hI hD hA hc hv hn hK
    simp only [compileA, Option.map_eq_some_iff] at hc
    obtain ⟨⟨te, c, k, cc⟩, h0, h1⟩ := hc
    have hty := (compileA_facts σ.tys toff A e k0 c0 te c k cc h0).ty σ rfl
    simp only [evalE, hty, Option.bind_eq_bind, Option.bind_eq_some_iff, Option.some.injEq, exists_eq_left'] at hv
    obtain ⟨⟨v1, σ1⟩, he, x, hx, hv⟩ := hv
    simp only [Prod.mk.injEq] at hv
    obtain ⟨rfl, rfl⟩ := hv
    cases op with
    | plus =>
      simp only [Prod.mk.injEq] at h1
      obtain ⟨rfl, rfl, rfl, rfl⟩ := h1
      have E := ih σ te c v1 σ1 k0 k c0 cc hI hD hA h0 he hn hK
      simp only [unop, Option.some.injEq] at hx
      subst hx
      exact E.then_same (fun s hs => cast_run te _ s v1 hs)
    | lognot =>
      simp only [Prod.mk.injEq] at h1
      obtain ⟨rfl, rfl, rfl, rfl⟩ := h1
      have E := ih σ te c v1 σ1 k0 k c0 cc hI hD hA h0 he hn hK
      simp only [unop, Option.some.injEq] at hx
      subst hx
      exact E.then_same (fun s hs => lognot_run te s v1 hs)
    | neg =>
      simp only [Prod.mk.injEq] at h1
      obtain ⟨rfl, rfl, rfl, rfl⟩ := h1
      have E := ih σ te c v1 σ1 k0 k c0 cc hI hD hA h0 he hn hK
      rw [unop_promote .neg (by decide)] at hx
      have := (E.then_same (R2 := fun r => Represents (promote te) r (convert (promote te) v1))
        (fun s hs => cast_run te _ s v1 hs)).then_same (c2 := unSeq .ND_NEG (promote te))
        (R2 := fun r => Represents (promote te) r x) (fun s hs => neg_run _ (promote_mem te) s _ x hs hx)
      simpa [J_append, List.append_assoc, wr, depthA] using this
    | bitnot =>
      simp only [Prod.mk.injEq] at h1
      obtain ⟨rfl, rfl, rfl, rfl⟩ := h1
      have E := ih σ te c v1 σ1 k0 k c0 cc hI hD hA h0 he hn hK
      rw [unop_promote .bitnot (by decide)] at hx
      have := (E.then_same (R2 := fun r => Represents (promote te) r (convert (promote te) v1))
        (fun s hs => cast_run te _ s v1 hs)).then_same (c2 := unSeq .ND_BITNOT (promote te))
        (R2 := fun r => Represents (promote te) r x) (fun s hs => bitnot_run _ (promote_mem te) s _ x hs hx)
      simpa [J_append, List.append_assoc, wr, depthA] using this
  | comma a b iha ihb =>
    intro σ t code v σ' k0 k1 c0 c1 hI hD hA hc hv hn hK
    simp only [noConflict, Bool.and_eq_true] at hn
    simp only [compileA] at hc
    cases ha : compileA σ.tys toff A k0 c0 a with
    | none => simp [ha] at hc
    | some pa =>
      obtain ⟨ta, ca, ka, cca⟩ := pa
      simp only [ha, Option.map_eq_some_iff, Prod.mk.injEq] at hc
      obtain ⟨⟨tb, cb, kb, ccb⟩, hb, h1, h2, h3, h4⟩ := hc
      simp only at h1 h2 h3 h4
      subst h1 h2 h3 h4
      simp only [evalE, Option.bind_eq_bind, Option.bind_eq_some_iff] at hv
      obtain ⟨⟨va, σ1⟩, hea, heb⟩ := hv
      simp only at heb
      have fa := compileA_facts σ.tys toff A a k0 c0 ta ca ka cca ha
      have fb := compileA_facts σ.tys toff A b ka cca tb cb kb ccb hb
      have f1 := evalE_frm_all a σ va σ1 hea
      have Ea := iha σ ta ca va σ1 k0 ka c0 cca hI (fun i hi => hD i (by simp [wr, hi])) (fun i hi => hA i (by simp [objs, hi])) ha hea hn.1
        (by have := fb.k; omega)
      have Eb := ihb σ1 tb cb v σ' ka kb cca ccb (hI.frm f1 (fun i hi => hD i (by simp [wr, hi]))) (fun i hi => hD i (by simp [wr, hi]))
        (fun i hi => hA i (by simp [objs, hi])) (by rw [f1.tys]; exact hb) heb hn.2 hK
      have := EvJ.seq (k0 := k0) (k1 := kb) Ea Eb ⟨Nat.le_refl _, fb.k, fa.k, Nat.le_refl _⟩
      simpa [depthA, wr] using this
  | assign i e ih =>
    intro σ t code v σ' k0 k1 c0 c1 hI hD hA hc hv hn hK
    simp only [noConflict] at hn
    simp only [compileA] at hc
    cases hti : σ.tys[i]? with
    | none => simp [hti] at hc
    | some ti =>
      cases he : compileA σ.tys toff A k0 c0 e with
      | none => simp [hti, he] at hc
      | some pe =>
        obtain ⟨te, c, k, cc⟩ := pe
        simp only [hti, he, Option.some.injEq, Prod.mk.injEq] at hc
        obtain ⟨rfl, rfl, rfl, rfl⟩ := hc
        simp only [evalE, Env.ty?, hti, Option.bind_eq_bind, Option.bind_eq_some_iff, Option.some.injEq, exists_eq_left'] at hv
        obtain ⟨⟨v1, σ1⟩, hev, hv⟩ := hv
        simp only [Option.some.injEq, Prod.mk.injEq] at hv
        obtain ⟨rfl, rfl⟩ := hv
        have E := (ih σ te c v1 σ1 k0 k c0 cc hI (fun j hj => hD j (by simp [wr, hj])) (fun j hj => hA j (by simp [objs, hj])) he hev hn
          hK).then_same (R2 := fun r => Represents ti r (convert ti v1)) (fun s hs => cast_run te ti s v1 hs)
        have fe := compileA_facts σ.tys toff A e k0 c0 te c k cc he
        have Ea := acc_addr (hA i (by simp [objs])) σ hI k0 (by have := fe.k; omega)
        have := EvJ.assignL (k0 := k0) (k1 := k) hti Ea E ⟨Nat.le_refl _, fe.k, Nat.le_refl _, Nat.le_refl _⟩ hK
        simpa [depthA, wr, Acc.acode, J_append, List.append_assoc] using this
  | bin op a b iha ihb =>
    intro σ t code v σ' k0 k1 c0 c1 hI hD hA hc hv hn hK
    simp only [noConflict, Bool.and_eq_true] at hn
    obtain ⟨⟨⟨hd1, hd2⟩, hna⟩, hnb⟩ := hn
    simp only [compileA] at hc
    cases ha : compileA σ.tys toff A k0 (if (nodeOf op).2 = true then c0 else c0 + nlbl b) a with
    | none => simp [ha] at hc
    | some pa =>
      obtain ⟨ta, ca, ka, cca⟩ := pa
      simp only [ha] at hc
      cases hb : compileA σ.tys toff A ka (if (nodeOf op).2 = true then c0 + nlbl a else c0) b with
      | none => simp [hb] at hc
      | some pb =>
        obtain ⟨tb, cb, kb, ccb⟩ := pb
        simp only [hb, Option.some.injEq, Prod.mk.injEq] at hc
        have fa := compileA_facts σ.tys toff A a k0 _ ta ca ka cca ha
        have fb := compileA_facts σ.tys toff A b ka _ tb cb kb ccb hb
        simp only [evalE, fa.ty σ rfl, fb.ty σ rfl, Option.bind_eq_bind, Option.bind_eq_some_iff, Option.some.injEq,
          exists_eq_left'] at hv
        obtain ⟨⟨va, σ1⟩, hea, ⟨vb, σ2⟩, heb, x, hx, hv⟩ := hv
        simp only [Prod.mk.injEq] at hv heb hx
        obtain ⟨rfl, rfl⟩ := hv
        obtain ⟨rfl, rfl, rfl, rfl⟩ := hc
        have f1 := evalE_frm_all a σ va σ1 hea
        -- machine order = evalE order (a first): used by `>` `>=`
        have hDa : ∀ i, i ∈ wr a → i ∉ D := fun i hi => hD i (by simp [wr, hi])
        have hDb : ∀ i, i ∈ wr b → i ∉ D := fun i hi => hD i (by simp [wr, hi])
        have hAa : ∀ i, i ∈ objs a → AccOK bp0 off toff K A D σr i := fun i hi => hA i (by simp [objs, hi])
        have hAb : ∀ i, i ∈ objs b → AccOK bp0 off toff K A D σr i := fun i hi => hA i (by simp [objs, hi])
        have EaF := iha σ ta ca va σ1 k0 ka _ cca hI hDa hAa ha hea hna (by have := fb.k; omega)
        have EbF := ihb σ1 tb cb vb σ2 ka kb _ ccb (hI.frm f1 hDa) hDb hAb (by rw [f1.tys]; exact hb) heb hnb hK
        -- machine order b first
        obtain ⟨σb, heb', hea'⟩ := swap_eval_all a b σ σ1 σ2 va vb hd1 hd2 hea heb
        have fbf := evalE_frm_all b σ vb σb heb'
        have EbS := ihb σ tb cb vb σb ka kb _ ccb hI hDb hAb hb heb' hnb hK
        have EaS := iha σb ta ca va σ2 k0 ka _ cca (hI.frm fbf hDb) hDa hAa (by rw [fbf.tys]; exact ha) hea' hna (by have := fb.k; omega)
        have hkS : k0 ≤ ka ∧ kb ≤ kb ∧ k0 ≤ k0 ∧ ka ≤ kb := ⟨fa.k, Nat.le_refl _, Nat.le_refl _, fb.k⟩
        have hkF : k0 ≤ k0 ∧ ka ≤ kb ∧ k0 ≤ ka ∧ kb ≤ kb := ⟨Nat.le_refl _, fb.k, fa.k, Nat.le_refl _⟩
        cases op
        case gt =>
          have hx' : binop .lt tb ta vb va = some x := by
            simpa [binop, binopOperandType, BinOp.isShift, usualArith_comm tb ta, arith] using hx
          have := EvJ.bin_arith hx' .ND_LT rfl rfl EaF EbF hkF hK
          simpa [nodeOf, BinOp.isShift, binopOperandType, binopType, BinOp.isRel, depthA, wr, List.append_assoc] using this
        case ge =>
          have hx' : binop .le tb ta vb va = some x := by
            simpa [binop, binopOperandType, BinOp.isShift, usualArith_comm tb ta, arith] using hx
          have := EvJ.bin_arith hx' .ND_LE rfl rfl EaF EbF hkF hK
          simpa [nodeOf, BinOp.isShift, binopOperandType, binopType, BinOp.isRel, depthA, wr, List.append_assoc] using this
        case shl =>
          have := (EvJ.bin_shift hx .ND_SHL rfl rfl EbS EaS hkS hK).weaken
              perm_mem (Nat.le_refl _) (Nat.le_refl _) (Nat.le_refl _)
          simpa [nodeOf, BinOp.isShift, depthA, wr, List.append_assoc] using this
        case shr =>
          have := (EvJ.bin_shift hx .ND_SHR rfl rfl EbS EaS hkS hK).weaken
              perm_mem (Nat.le_refl _) (Nat.le_refl _) (Nat.le_refl _)
          simpa [nodeOf, BinOp.isShift, depthA, wr, List.append_assoc] using this
        all_goals
          have := (EvJ.bin_arith hx _ (specOp_nodeOf _ rfl) rfl EbS EaS hkS hK).weaken
              perm_mem (Nat.le_refl _) (Nat.le_refl _) (Nat.le_refl _)
          simpa [nodeOf, BinOp.isShift, depthA, wr, List.append_assoc] using this
  | opassign op i e ih =>
    intro σ t code v σ' k0 k1 c0 c1 hI hD hA hc hv hn hK
    simp only [noConflict] at hn
    simp only [compileA] at hc
    cases hti : σ.tys[i]? with
    | none => simp [hti] at hc
    | some ti =>
      cases he : compileA σ.tys toff A k0 c0 e with
      | none => simp [hti, he] at hc
      | some pe =>
        obtain ⟨te, c, k, cc⟩ := pe
        simp only [hti, he] at hc
        split at hc
        · rename_i hcomp
          simp only [Option.some.injEq, Prod.mk.injEq] at hc
          obtain ⟨rfl, rfl, rfl, rfl⟩ := hc
          have fe := compileA_facts σ.tys toff A e k0 c0 te c k cc he
          simp only [evalE, Env.ty?, Env.val?, hti, fe.ty σ rfl, Option.bind_eq_bind, Option.bind_eq_some_iff,
            Option.some.injEq, exists_eq_left'] at hv
          obtain ⟨⟨vb, σ1⟩, hev, x, hx, r, hr, hv⟩ := hv
          simp only [Prod.mk.injEq] at hv hx hr
          obtain ⟨rfl, rfl⟩ := hv
          simp only [compound, Option.map_eq_some_iff] at hr
          obtain ⟨y, hy, rfl⟩ := hr
          have E := ih σ te c vb σ1 k0 k c0 cc hI (fun j hj => hD j (by simp [wr, hj])) (fun j hj => hA j (by simp [objs, hj])) he hev hn
            (by omega)
          obtain ⟨ap, dd, hsum, hds, hp⟩ := hA i (by simp [objs])
          rw [opAssignCodeL_eq]
          have hrel : op.isRel = false := by simpa [compoundable] using hcomp
          have hsw : (nodeOf op).2 = false := by cases op <;> simp [BinOp.isRel] at hrel <;> rfl
          have hk : k0 ≤ k0 ∧ k0 ≤ k ∧ k0 ≤ k0 ∧ k ≤ k := ⟨Nat.le_refl _, fe.k, Nat.le_refl _, Nat.le_refl _⟩
          by_cases hs : op.isShift = true
          · simp only [hs, if_true]
            have := EvJ.opassignL (castB := []) (Rr := fun r => Represents te r vb) (t := binopOperandType op ti te)
              (tres := binopType op ti te) (y := y) (nk := (nodeOf op).1) (k0 := k0) hti (hp σ hI k0 (by have := fe.k; omega)) hsum hds E
              (fun s h => ⟨s, rfl, h, Same.refl s⟩) hx
              (fun s h1 h2 => shift_step _ op (specOp_nodeOf op hsw) hs ti te x vb y hy s h1 h2) hk fe.k (by omega)
            simpa [depthA, wr, opAssignNFL] using this
          · have hs' : op.isShift = false := by simpa using hs
            simp only [hs', Bool.false_eq_true, if_false]
            have := EvJ.opassignL (castB := castSeq te (binopOperandType op ti te))
              (Rr := fun r => Represents (binopOperandType op ti te) r (convert (binopOperandType op ti te) vb))
              (t := binopOperandType op ti te) (tres := binopType op ti te) (y := y) (nk := (nodeOf op).1) (k0 := k0) hti
              (hp σ hI k0 (by have := fe.k; omega)) hsum hds E (fun s h => cast_run te _ s vb h) hx
              (fun s h1 h2 => arith_step _ op (specOp_nodeOf op hsw) hs' ti te x vb y hy s h1 h2) hk fe.k (by omega)
            simpa [depthA, wr, opAssignNFL] using this
        · simp at hc
  | land a b iha ihb =>
    intro σ t code v σ' k0 k1 c0 c1 hI hD hA hc hv hn hK
    simp only [noConflict, Bool.and_eq_true] at hn
    simp only [compileA] at hc
    cases ha : compileA σ.tys toff A k0 (c0 + 1) a with
    | none => simp [ha] at hc
    | some pa =>
      obtain ⟨ta, ca, ka, cca⟩ := pa
      simp only [ha, Option.map_eq_some_iff, Prod.mk.injEq] at hc
      obtain ⟨⟨tb, cb, kb, ccb⟩, hb, h1, h2, h3, h4⟩ := hc
      simp only at h1 h2 h3 h4
      subst h1 h2 h3 h4
      have fa := compileA_facts σ.tys toff A a k0 _ ta ca ka cca ha
      have fb := compileA_facts σ.tys toff A b ka cca tb cb kb ccb hb
      simp only [evalE, Option.bind_eq_bind, Option.bind_eq_some_iff] at hv
      obtain ⟨⟨va, σ1⟩, hea, hv⟩ := hv
      simp only at hv
      have f1 := evalE_frm_all a σ va σ1 hea
      have hDa : ∀ i, i ∈ wr a → i ∉ D := fun i hi => hD i (by simp [wr, hi])
      have hDb : ∀ i, i ∈ wr b → i ∉ D := fun i hi => hD i (by simp [wr, hi])
      have Ea := iha σ ta ca va σ1 k0 ka _ cca hI hDa (fun i hi => hA i (by simp [objs, hi])) ha hea hn.1 (by have := fb.k; omega)
      by_cases hz : va = 0
      · rw [if_pos hz] at hv
        simp only [Option.some.injEq, Prod.mk.injEq] at hv
        obtain ⟨rfl, rfl⟩ := hv
        rw [hz] at Ea
        exact (EvJ.land_short (tb := tb) (cb := cb) (c := c0) Ea).weaken (fun i hi => by simp [wr, hi]) (Nat.le_refl _) fb.k
          (by simp [depthA]; omega)
      · rw [if_neg hz] at hv
        simp only [Option.bind_eq_some_iff] at hv
        obtain ⟨⟨vb, σ2⟩, heb, hv⟩ := hv
        simp only [Option.some.injEq, Prod.mk.injEq] at hv
        obtain ⟨rfl, rfl⟩ := hv
        have Eb := ihb σ1 tb cb vb σ2 ka kb cca ccb (hI.frm f1 hDa) hDb (fun i hi => hA i (by simp [objs, hi])) (by rw [f1.tys]; exact hb) heb hn.2 hK
        have := EvJ.land_full (c := c0) (k0 := k0) (k1 := kb) hz Ea Eb ⟨Nat.le_refl _, fb.k, fa.k, Nat.le_refl _⟩
        simpa [depthA, wr] using this
  | lor a b iha ihb =>
    intro σ t code v σ' k0 k1 c0 c1 hI hD hA hc hv hn hK
    simp only [noConflict, Bool.and_eq_true] at hn
    simp only [compileA] at hc
    cases ha : compileA σ.tys toff A k0 (c0 + 1) a with
    | none => simp [ha] at hc
    | some pa =>
      obtain ⟨ta, ca, ka, cca⟩ := pa
      simp only [ha, Option.map_eq_some_iff, Prod.mk.injEq] at hc
      obtain ⟨⟨tb, cb, kb, ccb⟩, hb, h1, h2, h3, h4⟩ := hc
      simp only at h1 h2 h3 h4
      subst h1 h2 h3 h4
      have fa := compileA_facts σ.tys toff A a k0 _ ta ca ka cca ha
      have fb := compileA_facts σ.tys toff A b ka cca tb cb kb ccb hb
      simp only [evalE, Option.bind_eq_bind, Option.bind_eq_some_iff] at hv
      obtain ⟨⟨va, σ1⟩, hea, hv⟩ := hv
      simp only at hv
      have f1 := evalE_frm_all a σ va σ1 hea
      have hDa : ∀ i, i ∈ wr a → i ∉ D := fun i hi => hD i (by simp [wr, hi])
      have hDb : ∀ i, i ∈ wr b → i ∉ D := fun i hi => hD i (by simp [wr, hi])
      have Ea := iha σ ta ca va σ1 k0 ka _ cca hI hDa (fun i hi => hA i (by simp [objs, hi])) ha hea hn.1 (by have := fb.k; omega)
      by_cases hz : va ≠ 0
      · rw [if_pos hz] at hv
        simp only [Option.some.injEq, Prod.mk.injEq] at hv
        obtain ⟨rfl, rfl⟩ := hv
        exact (EvJ.lor_short (tb := tb) (cb := cb) (c := c0) hz Ea).weaken (fun i hi => by simp [wr, hi]) (Nat.le_refl _) fb.k
          (by simp [depthA]; omega)
      · rw [if_neg hz] at hv
        simp only [Option.bind_eq_some_iff] at hv
        obtain ⟨⟨vb, σ2⟩, heb, hv⟩ := hv
        simp only [Option.some.injEq, Prod.mk.injEq] at hv
        obtain ⟨rfl, rfl⟩ := hv
        have hz0 : va = 0 := by simpa using hz
        rw [hz0] at Ea
        have Eb := ihb σ1 tb cb vb σ2 ka kb cca ccb (hI.frm f1 hDa) hDb (fun i hi => hA i (by simp [objs, hi])) (by rw [f1.tys]; exact hb) heb hn.2 hK
        have := EvJ.lor_full (c := c0) (k0 := k0) (k1 := kb) Ea Eb ⟨Nat.le_refl _, fb.k, fa.k, Nat.le_refl _⟩
        simpa [depthA, wr] using this
  | cond cnd a b ihc iha ihb =>
    intro σ t code v σ' k0 k1 c0 c1 hI hD hA hc hv hn hK
    simp only [noConflict, Bool.and_eq_true] at hn
    obtain ⟨⟨hnc, hna⟩, hnb⟩ := hn
    simp only [compileA] at hc
    cases hcc : compileA σ.tys toff A k0 (c0 + 1) cnd with
    | none => simp [hcc] at hc
    | some pc =>
      obtain ⟨tc, cc, kc, ccc⟩ := pc
      simp only [hcc] at hc
      cases ha : compileA σ.tys toff A kc ccc a with
      | none => simp [ha] at hc
      | some pa =>
        obtain ⟨ta, ca, ka, cca⟩ := pa
        simp only [ha, Option.map_eq_some_iff, Prod.mk.injEq] at hc
        obtain ⟨⟨tb, cb, kb, ccb⟩, hb, h1, h2, h3, h4⟩ := hc
        simp only at h1 h2 h3 h4
        subst h1 h2 h3 h4
        have fc := compileA_facts σ.tys toff A cnd k0 _ tc cc kc ccc hcc
        have fa := compileA_facts σ.tys toff A a kc ccc ta ca ka cca ha
        have fb := compileA_facts σ.tys toff A b ka cca tb cb kb ccb hb
        have hty : typeOf σ (.cond cnd a b) = some (usualArith ta tb) := by simp [typeOf, fa.ty σ rfl, fb.ty σ rfl]
        simp only [evalE, hty, Option.bind_eq_bind, Option.bind_eq_some_iff, Option.some.injEq, exists_eq_left'] at hv
        obtain ⟨⟨vc, σ1⟩, hec, hv⟩ := hv
        simp only at hv
        have f1 := evalE_frm_all cnd σ vc σ1 hec
        have hDc : ∀ i, i ∈ wr cnd → i ∉ D := fun i hi => hD i (by simp [wr, hi])
        have Ec := ihc σ tc cc vc σ1 k0 kc _ ccc hI hDc (fun i hi => hA i (by simp [objs, hi])) hcc hec hnc (by have := fa.k; have := fb.k; omega)
        by_cases hz : vc ≠ 0
        · rw [if_pos hz] at hv
          simp only [Option.bind_eq_some_iff] at hv
          obtain ⟨⟨x, σ2⟩, hea, hv⟩ := hv
          simp only [Option.some.injEq, Prod.mk.injEq] at hv
          obtain ⟨rfl, rfl⟩ := hv
          have Ea := (iha σ1 ta ca x σ2 kc ka ccc cca (hI.frm f1 hDc) (fun i hi => hD i (by simp [wr, hi])) (fun i hi => hA i (by simp [objs, hi]))
            (by rw [f1.tys]; exact ha) hea hna (by have := fb.k; omega)).then_same
            (R2 := fun r => Represents (usualArith ta tb) r (convert (usualArith ta tb) x)) (fun s hs => cast_run ta _ s x hs)
          have := EvJ.cond_then (cb := cb ++ J (castSeq tb (usualArith ta tb))) (c := c0) (k0 := k0) (k1 := kb) hz Ec Ea
            ⟨Nat.le_refl _, by have := fa.k; have := fb.k; omega, fc.k, fb.k⟩
          exact this.weaken mem_append_mid (Nat.le_refl _) (Nat.le_refl _) (by simp [depthA]; omega)
        · rw [if_neg hz] at hv
          simp only [Option.bind_eq_some_iff] at hv
          obtain ⟨⟨x, σ2⟩, heb, hv⟩ := hv
          simp only [Option.some.injEq, Prod.mk.injEq] at hv
          obtain ⟨rfl, rfl⟩ := hv
          have hz0 : vc = 0 := by simpa using hz
          rw [hz0] at Ec
          have f1a : σ1.tys = σ.tys := f1.tys
          have Eb := (ihb σ1 tb cb x σ2 ka kb cca ccb (hI.frm f1 hDc) (fun i hi => hD i (by simp [wr, hi])) (fun i hi => hA i (by simp [objs, hi]))
            (by rw [f1a]; exact hb) heb hnb hK).then_same
            (R2 := fun r => Represents (usualArith ta tb) r (convert (usualArith ta tb) x)) (fun s hs => cast_run tb _ s x hs)
          have := EvJ.cond_else (ca := ca ++ J (castSeq ta (usualArith ta tb))) (c := c0) (k0 := k0) (k1 := kb) Ec Eb
            ⟨Nat.le_refl _, by have := fa.k; have := fb.k; omega, by have := fc.k; have := fa.k; omega, Nat.le_refl _⟩
          exact this.weaken mem_append_skip (Nat.le_refl _) (Nat.le_refl _) (by simp [depthA]; omega)


end ChibiVerif.C01
