/-
C09 — the placemarker loop of `subst` (`skipEmptyOperands`, Model/PP.lean; `fix:` 5a15c0f in /repo): basic facts.
-/
import ChibiVerif.Model.PP

namespace ChibiVerif.PP

/-- the loop only moves forward: what is left after it is no longer than what it started from -/
theorem skipEmptyOperands_length (args : List MacroArg) (rest : List Tok) (rhs : Tok) :
    (skipEmptyOperands args rhs rest).2.length ≤ rest.length := by
  fun_induction skipEmptyOperands args rhs rest with
  | case1 rhs h q rest hc ih => simp only [List.length_cons]; omega
  | case2 rhs h q rest hc => simp
  | case3 rhs rest hne => simp

/-- the loop only looks at `emptyParam` of the operands -/
theorem skipEmptyOperands_congr {args args' : List MacroArg} (h : ∀ t, emptyParam args t = emptyParam args' t)
    (rest : List Tok) (rhs : Tok) : skipEmptyOperands args rhs rest = skipEmptyOperands args' rhs rest := by
  fun_induction skipEmptyOperands args rhs rest with
  | case1 rhs x q rest hc ih => rw [ih]; conv => rhs; rw [skipEmptyOperands]; simp only [← h, hc, if_true]
  | case2 rhs x q rest hc => rw [skipEmptyOperands.eq_def]; simp [← h, hc]
  | case3 rhs rest hne =>
    match rest, hne with
    | [], _ => simp [skipEmptyOperands]
    | [_], _ => simp [skipEmptyOperands]
    | x :: q :: r, hne => exact absurd rfl (hne x q r)

/-- one turn of the loop -/
theorem skipEmptyOperands_step {args : List MacroArg} {rhs h q : Tok} {rest : List Tok}
    (he : emptyParam args rhs = true) (hh : h.text = "##") :
    skipEmptyOperands args rhs (h :: q :: rest) = skipEmptyOperands args q rest := by
  rw [skipEmptyOperands]
  simp [he, hh]

/-- the loop stops at once -/
theorem skipEmptyOperands_stop {args : List MacroArg} {rhs : Tok} {rest : List Tok}
    (hs : emptyParam args rhs = false ∨ textIs rest.head? "##" = false ∨ rest.length < 2) :
    skipEmptyOperands args rhs rest = (rhs, rest) := by
  match rest with
  | [] => simp [skipEmptyOperands]
  | [_] => simp [skipEmptyOperands]
  | h :: q :: rest =>
    rw [skipEmptyOperands]
    rcases hs with hs | hs | hs
    · simp [hs]
    · have : (h.text == "##") = false := by simpa [textIs] using hs
      simp [this]
    · simp only [List.length_cons] at hs; omega

end ChibiVerif.PP
