/-
Helper lemmas for C15: what every step of `declAll` preserves (function objects have distinct names, no
`is_live` flag is set before the root loop), and what `mark_live` leaves unchanged.
-/
import ChibiVerif.Lemmas.LinkageLemmas

namespace ChibiVerif.Linkage

variable [Rules]

/-- the name of a function object -/
def fnName (o : Obj) : Option Name :=
  if o.isFunction then (match o.sym with | .named n => some n | .anon _ => none) else none

def fnNamesOf (gs : List Obj) : List Name := gs.filterMap fnName

/-- function objects are never tentative definitions -/
def FnNotTent (gs : List Obj) : Prop := ∀ o, o ∈ gs → o.isFunction = true → o.isTentative = false

/-- well-formed parser state: one object per function name, no `is_live` flag set -/
structure WF (gs : List Obj) : Prop where
  nodup : (fnNamesOf gs).Nodup
  noneLive : NoneLive gs
  fnNotTent : FnNotTent gs

/-- updates that touch neither the identity of an object nor its `is_live` flag -/
def Keeps (u : Obj → Obj) : Prop :=
  ∀ o, (u o).isFunction = o.isFunction ∧ (u o).sym = o.sym ∧ (u o).isLive = o.isLive ∧ (u o).isTentative = o.isTentative

omit [Rules] in
theorem fnName_keeps {u : Obj → Obj} (hu : Keeps u) (o : Obj) : fnName (u o) = fnName o := by
  unfold fnName
  rw [(hu o).1, (hu o).2.1]

omit [Rules] in
theorem fnNamesOf_updFirst {u : Obj → Obj} (hu : Keeps u) (p : Obj → Bool) (gs : List Obj) :
    fnNamesOf (updFirst p u gs) = fnNamesOf gs := by
  induction gs with
  | nil => rfl
  | cons o os ih =>
    unfold updFirst
    split
    · simp [fnNamesOf, List.filterMap_cons, fnName_keeps hu]
    · simp only [fnNamesOf, List.filterMap_cons] at ih ⊢
      rw [ih]

omit [Rules] in
theorem mem_updFirst {p : Obj → Bool} {u : Obj → Obj} {gs : List Obj} {o' : Obj} (h : o' ∈ updFirst p u gs) :
    ∃ o, o ∈ gs ∧ (o' = o ∨ o' = u o) := by
  induction gs with
  | nil => simp [updFirst] at h
  | cons a as ih =>
    unfold updFirst at h
    split at h
    · rcases List.mem_cons.mp h with h | h
      · exact ⟨a, List.mem_cons_self, Or.inr h⟩
      · exact ⟨o', List.mem_cons_of_mem _ h, Or.inl rfl⟩
    · rcases List.mem_cons.mp h with h | h
      · exact ⟨a, List.mem_cons_self, Or.inl h⟩
      · obtain ⟨o, ho, hh⟩ := ih h
        exact ⟨o, List.mem_cons_of_mem _ ho, hh⟩

omit [Rules] in
theorem noneLive_updFirst {u : Obj → Obj} (hu : Keeps u) (p : Obj → Bool) {gs : List Obj} (h : NoneLive gs) :
    NoneLive (updFirst p u gs) := by
  intro o' ho'
  obtain ⟨o, ho, hh⟩ := mem_updFirst ho'
  rcases hh with rfl | rfl
  · exact h _ ho
  · rw [(hu o).2.2.1]; exact h _ ho

omit [Rules] in
theorem fnNotTent_updFirst {u : Obj → Obj} (hu : Keeps u) (p : Obj → Bool) {gs : List Obj} (h : FnNotTent gs) :
    FnNotTent (updFirst p u gs) := by
  intro o' ho' hf
  obtain ⟨o, ho, hh⟩ := mem_updFirst ho'
  rcases hh with rfl | rfl
  · exact h _ ho hf
  · rw [(hu o).2.2.2]; rw [(hu o).1] at hf; exact h _ ho hf

omit [Rules] in
theorem mem_fnNamesOf {gs : List Obj} {f : Name} :
    f ∈ fnNamesOf gs ↔ ∃ o, o ∈ gs ∧ o.isFunction = true ∧ o.sym = .named f := by
  unfold fnNamesOf
  rw [List.mem_filterMap]
  constructor
  · rintro ⟨o, ho, hn⟩
    refine ⟨o, ho, ?_⟩
    unfold fnName at hn
    cases hfun : o.isFunction
    · simp [hfun] at hn
    · cases hs : o.sym with
      | named n => simp [hfun, hs] at hn; exact ⟨rfl, by rw [hn]⟩
      | anon k => simp [hfun, hs] at hn
  · rintro ⟨o, ho, hfun, hs⟩
    exact ⟨o, ho, by simp [fnName, hfun, hs]⟩

omit [Rules] in
theorem findFunc_none_iff {gs : List Obj} {f : Name} : findFunc gs f = none ↔ f ∉ fnNamesOf gs := by
  rw [mem_fnNamesOf, findFunc]
  simp only [List.find?_eq_none, Bool.and_eq_true, beq_iff_eq, not_and, not_exists]

omit [Rules] in
/-- with distinct function names, `find_func(name of o)` is `o` -/
theorem findFunc_of_mem {gs : List Obj} (hn : (fnNamesOf gs).Nodup) {o : Obj} {f : Name} (ho : o ∈ gs)
    (hfun : o.isFunction = true) (hs : o.sym = .named f) : findFunc gs f = some o := by
  induction gs with
  | nil => cases ho
  | cons a as ih =>
    have hfn : fnName o = some f := by simp [fnName, hfun, hs]
    simp only [findFunc, List.find?]
    rcases List.mem_cons.mp ho with rfl | ho'
    · simp [hfun, hs]
    · cases hp : (a.isFunction && a.sym == Sym.named f)
      · simp only
        have hn' : (fnNamesOf as).Nodup := by
          unfold fnNamesOf at hn ⊢
          simp only [List.filterMap_cons] at hn
          split at hn
          · exact hn
          · exact (List.nodup_cons.mp hn).2
        exact ih hn' ho'
      · exfalso
        simp only [Bool.and_eq_true, beq_iff_eq] at hp
        have ha : fnName a = some f := by simp [fnName, hp.1, hp.2]
        unfold fnNamesOf at hn
        simp only [List.filterMap_cons, ha] at hn
        have := (List.nodup_cons.mp hn).1
        exact this (List.mem_filterMap.mpr ⟨o, ho', hfn⟩)

/-- `gs'` is reached from `gs` by the kinds of mutation the parser performs -/
inductive Evolves : List Obj → List Obj → Prop where
  | refl {gs} : Evolves gs gs
  | upd {gs gs1} (p : Obj → Bool) (u : Obj → Obj) (hu : Keeps u) : Evolves gs gs1 → Evolves gs (updFirst p u gs1)
  | consData {gs gs1} (o : Obj) (hf : o.isFunction = false) (hl : o.isLive = false) : Evolves gs gs1 → Evolves gs (o :: gs1)
  | consFn {gs gs1} (o : Obj) (f : Name) (hf : o.isFunction = true) (hs : o.sym = .named f) (hl : o.isLive = false)
      (ht : o.isTentative = false) (hnew : findFunc gs1 f = none) : Evolves gs gs1 → Evolves gs (o :: gs1)

omit [Rules] in
theorem Evolves.trans {a b c : List Obj} (h1 : Evolves a b) (h2 : Evolves b c) : Evolves a c := by
  induction h2 with
  | refl => exact h1
  | upd p u hu _ ih => exact Evolves.upd p u hu ih
  | consData o hf hl _ ih => exact Evolves.consData o hf hl ih
  | consFn o f hf hs hl ht hnew _ ih => exact Evolves.consFn o f hf hs hl ht hnew ih

omit [Rules] in
theorem WF.evolves {gs gs' : List Obj} (h : Evolves gs gs') (w : WF gs) : WF gs' := by
  induction h with
  | refl => exact w
  | upd p u hu _ ih =>
    exact ⟨by rw [fnNamesOf_updFirst hu]; exact ih.nodup, noneLive_updFirst hu p ih.noneLive, fnNotTent_updFirst hu p ih.fnNotTent⟩
  | @consData gs1 o hf hl _ ih =>
    refine ⟨?_, ?_, ?_⟩
    · have : fnNamesOf (o :: gs1) = fnNamesOf gs1 := by simp [fnNamesOf, fnName, hf]
      rw [this]; exact ih.nodup
    · intro x hx
      rcases List.mem_cons.mp hx with rfl | hx
      · exact hl
      · exact ih.noneLive x hx
    · intro x hx hfx
      rcases List.mem_cons.mp hx with rfl | hx
      · rw [hf] at hfx; cases hfx
      · exact ih.fnNotTent x hx hfx
  | @consFn gs1 o f hf hs hl ht hnew _ ih =>
    refine ⟨?_, ?_, ?_⟩
    · have : fnNamesOf (o :: gs1) = f :: fnNamesOf gs1 := by simp [fnNamesOf, fnName, hf, hs]
      rw [this]
      exact List.nodup_cons.mpr ⟨findFunc_none_iff.mp hnew, ih.nodup⟩
    · intro x hx
      rcases List.mem_cons.mp hx with rfl | hx
      · exact hl
      · exact ih.noneLive x hx
    · intro x hx hfx
      rcases List.mem_cons.mp hx with rfl | hx
      · exact ht
      · exact ih.fnNotTent x hx hfx

omit [Rules] in
theorem wf_nil : WF [] :=
  ⟨List.nodup_nil, fun _ h => absurd h List.not_mem_nil, fun _ h => absurd h List.not_mem_nil⟩

/-! ### every parser step evolves the state -/

omit [Rules] in
theorem evolves_updFunc {gs : List Obj} (f : Name) {u : Obj → Obj} (hu : Keeps u) : Evolves gs (updFunc gs f u) :=
  Evolves.upd _ u hu Evolves.refl

theorem evolves_newAnon (cur : Option Name) (st : PState) (ty : ObjTy) (hi : Bool) (uses : List Sym) :
    Evolves st.globals (newAnon cur st ty hi uses).1.globals :=
  Evolves.consData _ rfl rfl Evolves.refl

omit [Rules] in
theorem evolves_recordFnRef {cur : Option Name} {st st' : PState} {g : Name} (h : recordFnRef cur st g = .ok st') :
    Evolves st.globals st'.globals := by
  unfold recordFnRef at h
  split at h
  · cases h
  · split at h
    · cases h
      exact evolves_updFunc _ (fun _ => ⟨rfl, rfl, rfl, rfl⟩)
    · cases h
      exact evolves_updFunc _ (fun _ => ⟨rfl, rfl, rfl, rfl⟩)

omit [Rules] in
theorem evolves_useRef {cur : Option Name} {st st' : PState} {r : Ref} {s : Sym} (h : useRef cur st r = .ok (st', s)) :
    Evolves st.globals st'.globals := by
  cases r with
  | fn g =>
    simp only [useRef, bind, Except.bind] at h
    split at h
    · cases h
    · rename_i st1 h1
      simp only [pure, Except.pure, Except.ok.injEq, Prod.mk.injEq] at h
      rw [← h.1]
      exact evolves_recordFnRef h1
  | obj x =>
    simp only [useRef] at h
    split at h
    · cases h
    · simp only [pure, Except.pure, Except.ok.injEq, Prod.mk.injEq] at h
      rw [← h.1]
      exact Evolves.refl

theorem evolves_initItems {cur : Option Name} : ∀ (items : List InitItem) {st st' : PState} {ss : List Sym},
    initItems cur st items = .ok (st', ss) → Evolves st.globals st'.globals := by
  intro items
  induction items with
  | nil =>
    intro st st' ss h
    simp only [initItems, pure, Except.pure, Except.ok.injEq, Prod.mk.injEq] at h
    rw [← h.1]; exact Evolves.refl
  | cons it rest ih =>
    intro st st' ss h
    cases it with
    | ref r =>
      simp only [initItems, bind, Except.bind] at h
      split at h
      · cases h
      · rename_i p1 h1
        split at h
        · cases h
        · rename_i p2 h2
          simp only [pure, Except.pure, Except.ok.injEq, Prod.mk.injEq] at h
          rw [← h.1]
          exact (evolves_useRef (st' := p1.1) (s := p1.2) (by simpa using h1)).trans (ih (by simpa using h2))
    | str n =>
      simp only [initItems, bind, Except.bind] at h
      split at h
      · cases h
      · rename_i p2 h2
        simp only [pure, Except.pure, Except.ok.injEq, Prod.mk.injEq] at h
        rw [← h.1]
        exact (evolves_newAnon cur st (strTy n) true []).trans (ih (by simpa using h2))

omit [Rules] in
theorem keeps_setUses (uses : List Sym) : Keeps (fun o => { o with uses := uses }) := fun _ => ⟨rfl, rfl, rfl, rfl⟩

theorem evolves_bodyItem {f : Name} {st st' : PState} {b : BodyItem} {us : List Sym}
    (h : bodyItem f st b = .ok (st', us)) : Evolves st.globals st'.globals := by
  cases b with
  | ref r =>
    simp only [bodyItem, bind, Except.bind] at h
    split at h
    · cases h
    · rename_i p1 h1
      simp only [pure, Except.pure, Except.ok.injEq, Prod.mk.injEq] at h
      rw [← h.1]
      exact evolves_useRef (st' := p1.1) (s := p1.2) (by simpa using h1)
  | staticLocal tls ty init =>
    have e1 : Evolves st.globals
        ({ (newAnon (some f) st ty init.isSome).1 with
            globals := updFirst (fun o => o.sym == (newAnon (some f) st ty init.isSome).2 && !o.isFunction) (fun o => { o with isTls := tls })
              (newAnon (some f) st ty init.isSome).1.globals } : PState).globals :=
      Evolves.upd _ _ (fun _ => ⟨rfl, rfl, rfl, rfl⟩) (evolves_newAnon (some f) st ty init.isSome [])
    cases init with
    | none =>
      simp only [bodyItem, pure, Except.pure, Except.ok.injEq, Prod.mk.injEq] at h
      rw [← h.1]
      exact e1
    | some items =>
      simp only [bodyItem, bind, Except.bind] at h
      split at h
      · cases h
      · rename_i p1 h1
        simp only [pure, Except.pure, Except.ok.injEq, Prod.mk.injEq] at h
        rw [← h.1]
        exact (e1.trans (evolves_initItems items (by simpa using h1))).trans
          (Evolves.upd _ _ (keeps_setUses _) Evolves.refl)
  | str n =>
    simp only [bodyItem, pure, Except.pure, Except.ok.injEq, Prod.mk.injEq] at h
    rw [← h.1]
    exact evolves_newAnon (some f) st (strTy n) true []
  | externObj x tls ty =>
    simp only [bodyItem, pure, Except.pure, Except.ok.injEq, Prod.mk.injEq] at h
    rw [← h.1]
    exact Evolves.consData _ rfl rfl Evolves.refl

theorem evolves_bodyItems {f : Name} : ∀ (items : List BodyItem) {st st' : PState} {us : List Sym},
    bodyItems f st items = .ok (st', us) → Evolves st.globals st'.globals := by
  intro items
  induction items with
  | nil =>
    intro st st' us h
    simp only [bodyItems, pure, Except.pure, Except.ok.injEq, Prod.mk.injEq] at h
    rw [← h.1]; exact Evolves.refl
  | cons b rest ih =>
    intro st st' us h
    simp only [bodyItems, bind, Except.bind] at h
    split at h
    · cases h
    · rename_i p1 h1
      split at h
      · cases h
      · rename_i p2 h2
        simp only [pure, Except.pure, Except.ok.injEq, Prod.mk.injEq] at h
        rw [← h.1]
        exact (evolves_bodyItem (st' := p1.1) (us := p1.2) (by simpa using h1)).trans (ih (by simpa using h2))

theorem keeps_rootIf : Keeps rootIfO := by
  intro o
  unfold rootIfO
  split
  · exact ⟨rfl, rfl, rfl, rfl⟩
  · split <;> exact ⟨rfl, rfl, rfl, rfl⟩

theorem keeps_redeclFlags (e i : Bool) : Keeps (redeclFlags e i) := by
  intro o
  unfold redeclFlags
  split
  · dsimp only
    split <;> split <;> exact ⟨rfl, rfl, rfl, rfl⟩
  · exact ⟨rfl, rfl, rfl, rfl⟩

theorem evolves_declFunctionHead {st st' : PState} {f : Name} {s e i b : Bool}
    (h : declFunctionHead st f s e i b = .ok st') : Evolves st.globals st'.globals := by
  unfold declFunctionHead at h
  split at h
  · split at h
    · cases h
    · split at h
      · cases h
      · cases h
        exact Evolves.upd _ _ keeps_rootIf (Evolves.upd _ _ (fun _ => ⟨rfl, rfl, rfl, rfl⟩) (evolves_updFunc _ (keeps_redeclFlags _ _)))
  · rename_i hfn
    cases h
    exact Evolves.upd _ _ keeps_rootIf (Evolves.consFn _ f rfl rfl rfl rfl hfn Evolves.refl)

theorem evolves_declFunction {st st' : PState} {f n : Name} {s e i : Bool} {body : Option (List BodyItem)}
    (h : declFunction st f n s e i body = .ok st') : Evolves st.globals st'.globals := by
  unfold declFunction at h
  split at h
  · cases h
  · rename_i st1 h1
    have e1 := evolves_declFunctionHead h1
    cases body with
    | none =>
      cases h; exact e1
    | some items =>
      simp only at h
      split at h
      · cases h
      · rename_i st2 uses hp
        cases h
        exact ((e1.trans (Evolves.consData _ rfl rfl (Evolves.consData _ rfl rfl Evolves.refl))).trans
          (evolves_bodyItems items hp)).trans (evolves_updFunc _ (keeps_setUses _))

theorem evolves_declObject {st st' : PState} {x : Name} {s e t : Bool} {ty : ObjTy} {init : Option (List InitItem)}
    (h : declObject st x s e t ty init = .ok st') : Evolves st.globals st'.globals := by
  unfold declObject at h
  cases init with
  | some items =>
    simp only [bind, Except.bind] at h
    split at h
    · cases h
    · rename_i p hp
      simp only [pure, Except.pure, Except.ok.injEq] at h
      rw [← h]
      exact ((Evolves.consData _ rfl rfl Evolves.refl).trans
        (evolves_initItems items (st' := p.1) (ss := p.2) (by simpa using hp))).trans
        (Evolves.upd _ _ (keeps_setUses _) Evolves.refl)
  | none =>
    simp only [pure, Except.pure, Except.ok.injEq] at h
    rw [← h]
    exact Evolves.consData _ rfl rfl Evolves.refl

theorem evolves_declAll : ∀ (ds : List Decl) {st st' : PState}, declAll st ds = .ok st' → Evolves st.globals st'.globals := by
  intro ds
  induction ds with
  | nil =>
    intro st st' h
    simp only [declAll, pure, Except.pure, Except.ok.injEq] at h
    rw [← h]; exact Evolves.refl
  | cons d rest ih =>
    intro st st' h
    simp only [declAll, bind, Except.bind] at h
    split at h
    · cases h
    · rename_i st1 h1
      have e1 : Evolves st.globals st1.globals := by
        cases d with
        | func f n s e i body => exact evolves_declFunction h1
        | obj x s e t ty init => exact evolves_declObject h1
      exact e1.trans (ih h)

/-- the state `parse` reaches before the root loop is well formed -/
theorem wf_declAll {ds : List Decl} {st : PState} (h : declAll {} ds = .ok st) : WF st.globals :=
  WF.evolves (evolves_declAll ds h) wf_nil

end ChibiVerif.Linkage
