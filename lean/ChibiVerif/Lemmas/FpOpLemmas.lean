/-
C02: negation, floating constants, the arithmetic operators and the comparisons of the TY_FLOAT/TY_DOUBLE and TY_LDOUBLE
arms of `gen_expr` (Model/FpCodegen), executed on Model/FpMachine, for every start state and every `F : FpuSpec`.
-/
import ChibiVerif.Lemmas.FpCastLemmas

set_option linter.unusedSimpArgs false
set_option linter.unusedVariables false

namespace ChibiVerif.Fp
open ChibiVerif.Asm ChibiVerif.X86 ChibiVerif.Spec.Fpu ChibiVerif.FpCodegen ChibiVerif.Spec.FpC11
open ChibiVerif.Spec.IntSpec ChibiVerif.Gen.CommonType ChibiVerif.Gen.CastTable

/-! ### unary minus -/

theorem neg_f32 (F : FpuSpec) (s : FState) : ∃ s', Fp.run F (instrsOf (negLines ty_float)) s = some s' ∧
    s'.xmm0.setWidth 32 = s.xmm0.setWidth 32 ^^^ (1#32 <<< 31) ∧ s'.st = s.st ∧ s'.cw = s.cw ∧ s'.x.get .rsp = s.x.get .rsp := by
  refine ⟨_, rfl, ?_, rfl, rfl, rfl⟩
  dsimp only
  simp [State.get, State.set, State.setW, State.getW, State.src, BitVec.setWidth_xor]

theorem neg_f64 (F : FpuSpec) (s : FState) : ∃ s', Fp.run F (instrsOf (negLines ty_double)) s = some s' ∧
    s'.xmm0 = s.xmm0 ^^^ (1#64 <<< 63) ∧ s'.st = s.st ∧ s'.cw = s.cw ∧ s'.x.get .rsp = s.x.get .rsp := by
  refine ⟨_, rfl, ?_, rfl, rfl, rfl⟩
  dsimp only
  simp [State.get, State.set, State.setW, State.getW, State.src]

theorem neg_f80 (F : FpuSpec) (s : FState) (v : BitVec 80) (rest : List (BitVec 80)) (h : s.st = v :: rest) :
    ∃ s', Fp.run F (instrsOf (negLines ty_ldouble)) s = some s' ∧
    s'.st = (v ^^^ (1#80 <<< 79)) :: rest ∧ s'.cw = s.cw ∧ s'.x.get .rsp = s.x.get .rsp := by
  obtain ⟨x, xmm0, xmm1, st, cw⟩ := s
  simp only at h; subst h
  exact ⟨_, rfl, by simp [F.fchs_spec], rfl, rfl⟩

/-! ### floating constants: the union punning of `ND_NUM`, for every bit pattern -/

theorem num_f32 (F : FpuSpec) (bits : BitVec 32) (s : FState) : ∃ s', Fp.run F (instrsOf (numF32 bits)) s = some s' ∧
    s'.xmm0.setWidth 32 = bits ∧ s'.st = s.st ∧ s'.cw = s.cw ∧ s'.x.get .rsp = s.x.get .rsp := by
  refine ⟨_, rfl, ?_, rfl, rfl, rfl⟩
  dsimp only
  simp [State.get, State.set, State.setW, State.getW, State.src]

theorem num_f64 (F : FpuSpec) (bits : BitVec 64) (s : FState) : ∃ s', Fp.run F (instrsOf (numF64 bits)) s = some s' ∧
    s'.xmm0 = bits ∧ s'.st = s.st ∧ s'.cw = s.cw ∧ s'.x.get .rsp = s.x.get .rsp := by
  refine ⟨_, rfl, ?_, rfl, rfl, rfl⟩
  dsimp only
  simp [State.get, State.set, State.setW, State.getW, State.src]

theorem num_f80 (F : FpuSpec) (bits : BitVec 80) (s : FState) : ∃ s', Fp.run F (instrsOf (numF80 bits)) s = some s' ∧
    s'.st = bits :: s.st ∧ s'.cw = s.cw ∧ s'.x.get .rsp = s.x.get .rsp := by
  obtain ⟨x, xmm0, xmm1, st, cw⟩ := s
  refine ⟨_, rfl, ?_, rfl, ?_⟩
  · dsimp only
    x86_norm
    simp only [read80, BitVec.ofInt_natCast, BitVec.ofNat_toNat, BitVec.setWidth_eq]
    simp only [State.read8, State.read16, State.read32, State.read64, State.write16, State.write32, State.write64,
      State.mem_write8, State.mem_set, BitVec.add_assoc, BitVec.add_right_inj, BitVec.add_right_eq_self,
      BitVec.self_eq_add_right, BitVec.reduceAdd, BitVec.reduceEq, if_true, if_false, ite_true, ite_false,
      BitVec.ofNat_eq_ofNat]
    simp only [split16, split32, split64]
    have e : BitVec.setWidth 16 (BitVec.setWidth 32 (BitVec.setWidth 64 (bits >>> 64))) = BitVec.setWidth 16 (bits >>> 64) := by
      apply BitVec.eq_of_getLsbD_eq
      intro i hi
      simp [BitVec.getLsbD_setWidth, hi]
    rw [e, split80]
  · dsimp only
    x86_norm

/-! ### + − × ÷ : operand order (lhs in %xmm0 / %st(1), rhs in %xmm1 / %st(0)) -/

def sseArith32 (F : FpuSpec) : FOp → BitVec 32 → BitVec 32 → BitVec 32
  | .add => F.addss | .sub => F.subss | .mul => F.mulss | .div => F.divss
  | _ => fun a _ => a

def sseArith64 (F : FpuSpec) : FOp → BitVec 64 → BitVec 64 → BitVec 64
  | .add => F.addsd | .sub => F.subsd | .mul => F.mulsd | .div => F.divsd
  | _ => fun a _ => a

def x87Arith (F : FpuSpec) (cw : BitVec 16) : FOp → BitVec 80 → BitVec 80 → BitVec 80
  | .add => F.fadd cw | .sub => F.fsub cw | .mul => F.fmul cw | .div => F.fdiv cw
  | _ => fun a _ => a

theorem arith_f32 (F : FpuSpec) (op : FOp) (hop : op.isCmp = false) (s : FState) :
    ∃ s', Fp.run F (instrsOf (sseOp true op)) s = some s' ∧
      s'.xmm0.setWidth 32 = sseArith32 F op (s.xmm0.setWidth 32) (s.xmm1.setWidth 32) ∧
      s'.st = s.st ∧ s'.cw = s.cw ∧ s'.x.get .rsp = s.x.get .rsp := by
  cases op <;> simp [FOp.isCmp] at hop <;> exact ⟨_, rfl, setLow32_low _ _, rfl, rfl, rfl⟩

theorem arith_f64 (F : FpuSpec) (op : FOp) (hop : op.isCmp = false) (s : FState) :
    ∃ s', Fp.run F (instrsOf (sseOp false op)) s = some s' ∧
      s'.xmm0 = sseArith64 F op s.xmm0 s.xmm1 ∧
      s'.st = s.st ∧ s'.cw = s.cw ∧ s'.x.get .rsp = s.x.get .rsp := by
  cases op <;> simp [FOp.isCmp] at hop <;> exact ⟨_, rfl, rfl, rfl, rfl, rfl⟩

theorem arith_f80 (F : FpuSpec) (op : FOp) (hop : op.isCmp = false) (s : FState) (l r : BitVec 80) (rest : List (BitVec 80))
    (h : s.st = r :: l :: rest) :
    ∃ s', Fp.run F (instrsOf (x87Op op)) s = some s' ∧
      s'.st = x87Arith F s.cw op l r :: rest ∧ s'.cw = s.cw ∧ s'.x.get .rsp = s.x.get .rsp := by
  obtain ⟨x, xmm0, xmm1, st, cw⟩ := s
  simp only at h; subst h
  cases op <;> simp [FOp.isCmp] at hop <;> exact ⟨_, rfl, rfl, rfl, rfl⟩

/-! ### == != < <= : the compare instruction, the `setcc` lines, the widening of %al -/

theorem holds_swap_swap (op : CmpOp) (r : Rel) : op.holds r.swap.swap = op.holds r := by
  cases r <;> rfl

theorem cmp_f64 (F : FpuSpec) (op : FOp) (hop : op.isCmp = true) (s : FState) :
    ∃ s', Fp.run F (instrsOf (sseOp false op)) s = some s' ∧
      s'.x.get .rax = b2bv (op.cmpOp.holds (Val.cmp (F.val64 s.xmm0) (F.val64 s.xmm1))) := by
  obtain ⟨x, xmm0, xmm1, st, cw⟩ := s
  have hseq : instrsOf (sseOp false op) = ⟨"ucomisd", [.r "%xmm0", .r "%xmm1"]⟩ ::
      instrsOf (setccLines op ++ [ins2 "and" (.i 1) (.r "%al"), ins2 "movzb" (.r "%al") (.r "%rax")]) := by
    cases op <;> simp [FOp.isCmp] at hop <;> rfl
  simp only [hseq, Fp.run]
  rw [runFrom_step F _ _ _ _ rfl rfl rfl]
  obtain ⟨s', hrun, hrax⟩ := sse_tail F op hop (F.ucomisd xmm1 xmm0) ⟨x, xmm0, xmm1, st, cw⟩
  refine ⟨s', hrun, ?_⟩
  rw [hrax, F.ucomisd_spec, ← Val.cmp_swap]

theorem cmp_f32 (F : FpuSpec) (op : FOp) (hop : op.isCmp = true) (s : FState) :
    ∃ s', Fp.run F (instrsOf (sseOp true op)) s = some s' ∧
      s'.x.get .rax = b2bv (op.cmpOp.holds (Val.cmp (F.val32 (s.xmm0.setWidth 32)) (F.val32 (s.xmm1.setWidth 32)))) := by
  obtain ⟨x, xmm0, xmm1, st, cw⟩ := s
  have hseq : instrsOf (sseOp true op) = ⟨"ucomiss", [.r "%xmm0", .r "%xmm1"]⟩ ::
      instrsOf (setccLines op ++ [ins2 "and" (.i 1) (.r "%al"), ins2 "movzb" (.r "%al") (.r "%rax")]) := by
    cases op <;> simp [FOp.isCmp] at hop <;> rfl
  simp only [hseq, Fp.run]
  rw [runFrom_step F _ _ _ _ rfl rfl rfl]
  obtain ⟨s', hrun, hrax⟩ := sse_tail F op hop (F.ucomiss (xmm1.setWidth 32) (xmm0.setWidth 32)) ⟨x, xmm0, xmm1, st, cw⟩
  refine ⟨s', hrun, ?_⟩
  rw [hrax, F.ucomiss_spec, ← Val.cmp_swap]

theorem cmp_f80 (F : FpuSpec) (op : FOp) (hop : op.isCmp = true) (s : FState) (l r : BitVec 80) (rest : List (BitVec 80))
    (h : s.st = r :: l :: rest) :
    ∃ s', Fp.run F (instrsOf (x87Op op)) s = some s' ∧
      s'.x.get .rax = b2bv (op.cmpOp.holds (Val.cmp (F.val80 l) (F.val80 r))) := by
  obtain ⟨x, xmm0, xmm1, st, cw⟩ := s
  simp only at h; subst h
  have hseq : instrsOf (x87Op op) = ⟨"fcomip", []⟩ :: ⟨"fstp", [.r "%st(0)"]⟩ ::
      instrsOf (setccLines op ++ [ins2 "movzb" (.r "%al") (.r "%rax")]) := by
    cases op <;> simp [FOp.isCmp] at hop <;> rfl
  simp only [hseq, Fp.run]
  rw [runFrom_step F _ _ _ _ rfl rfl rfl, runFrom_step F _ _ _ _ rfl rfl rfl]
  obtain ⟨s', hrun, hrax⟩ := x87_tail F op hop (F.fcomi r l) ⟨x, xmm0, xmm1, rest, cw⟩
  refine ⟨s', hrun, ?_⟩
  rw [hrax, F.fcomi_spec, ← Val.cmp_swap]

/-- source-level `>` / `>=` are `<` / `<=` with exchanged operands (parse.c `relational`) -/
def SrcOp.cmpOp : SrcOp → Option CmpOp
  | .eq => some .eq | .ne => some .ne | .lt => some .lt | .le => some .le | .gt => some .gt | .ge => some .ge
  | _ => none

/-- the answer the node computes on the exchanged operands is the source operator's answer -/
theorem srcop_node (op : SrcOp) (c : CmpOp) (hc : SrcOp.cmpOp op = some c) (a b : Val) :
    (op.node.1.cmpOp.holds (if op.node.2 then Val.cmp b a else Val.cmp a b)) = c.holds (Val.cmp a b) := by
  cases op <;> simp [SrcOp.cmpOp] at hc <;> subst hc <;> simp [SrcOp.node, FOp.cmpOp]
  all_goals (rw [Val.cmp_swap b a]; cases Val.cmp a b <;> rfl)

/-! ### truth tests on values: `!e`, and the conditional jumps of `if`/`?:`/`&&`/`||`/loops -/

/-- `!e` for `e : f32` -/
theorem not_f32 (F : FpuSpec) (s : FState)  :
    ∃ s', Fp.run F (instrsOf (cmpZero ty_float ++ [ins1 "sete" (.r "%al"), ins2 "movzx" (.r "%al") (.r "%rax")])) s = some s' ∧
      s'.x.get .rax = b2bv (F.val32 (s.xmm0.setWidth 32)).isZero ∧ s'.st = s.st ∧ s'.cw = s.cw ∧ s'.x.get .rsp = s.x.get .rsp := by
  obtain ⟨x, xmm0, xmm1, st, cw⟩ := s
  skip
  have hseq : instrsOf (cmpZero ty_float ++ [ins1 "sete" (.r "%al"), ins2 "movzx" (.r "%al") (.r "%rax")]) = ⟨"xorps", [.r "%xmm1", .r "%xmm1"]⟩ :: ⟨"ucomiss", [.r "%xmm1", .r "%xmm0"]⟩ ::
      instrsOf (cmpZeroTail ++ [ins1 "sete" (.r "%al"), ins2 "movzx" (.r "%al") (.r "%rax")]) := rfl
  simp only [hseq, Fp.run]
  rw [runFrom_step F _ _ _ _ rfl rfl rfl, runFrom_step F _ _ _ _ rfl rfl rfl]
  obtain ⟨s', hrun, hrax, hst, hcw, hrsp⟩ := truth_not F (F.ucomiss (xmm0.setWidth 32) ((xmm1 ^^^ xmm1).setWidth 32)) ⟨x, xmm0, xmm1 ^^^ xmm1, st, cw⟩
  refine ⟨s', hrun, ?_, hst, hcw, hrsp⟩
  rw [hrax, BitVec.xor_self, BitVec.setWidth_zero, F.ucomiss_spec, F.val32_zero, truth_cmp_zero]
  simp

/-- the branches on `e : f32`: `cmp_zero` then `je` (taken iff `e` is a zero) / `jne` (taken iff it is not; a NaN is not) -/
theorem branch_f32 (F : FpuSpec) (s : FState) (l : String)  :
    ∃ s', Fp.run F (instrsOf (cmpZero ty_float)) s = some s' ∧
      jumpOf ⟨"je", [.s l]⟩ s' = some (true, (F.val32 (s.xmm0.setWidth 32)).isZero, l) ∧
      jumpOf ⟨"jne", [.s l]⟩ s' = some (true, !(F.val32 (s.xmm0.setWidth 32)).isZero, l) ∧
      s'.x.flagsValid = true ∧ s'.st = s.st ∧ s'.cw = s.cw ∧ s'.x.get .rsp = s.x.get .rsp := by
  obtain ⟨x, xmm0, xmm1, st, cw⟩ := s
  skip
  have hseq : instrsOf (cmpZero ty_float) = ⟨"xorps", [.r "%xmm1", .r "%xmm1"]⟩ :: ⟨"ucomiss", [.r "%xmm1", .r "%xmm0"]⟩ :: instrsOf cmpZeroTail := rfl
  simp only [hseq, Fp.run]
  rw [runFrom_step F _ _ _ _ rfl rfl rfl, runFrom_step F _ _ _ _ rfl rfl rfl]
  obtain ⟨s', hrun, hje, hjne, hfv, _, _, hst, hcw, hrsp⟩ := truth_jcc F (F.ucomiss (xmm0.setWidth 32) ((xmm1 ^^^ xmm1).setWidth 32)) ⟨x, xmm0, xmm1 ^^^ xmm1, st, cw⟩ l
  refine ⟨s', hrun, ?_, ?_, hfv, hst, hcw, hrsp⟩
  · rw [hje, BitVec.xor_self, BitVec.setWidth_zero, F.ucomiss_spec, F.val32_zero, truth_cmp_zero]; simp
  · rw [hjne, BitVec.xor_self, BitVec.setWidth_zero, F.ucomiss_spec, F.val32_zero, truth_cmp_zero]

/-- `!e` for `e : f64` -/
theorem not_f64 (F : FpuSpec) (s : FState)  :
    ∃ s', Fp.run F (instrsOf (cmpZero ty_double ++ [ins1 "sete" (.r "%al"), ins2 "movzx" (.r "%al") (.r "%rax")])) s = some s' ∧
      s'.x.get .rax = b2bv (F.val64 s.xmm0).isZero ∧ s'.st = s.st ∧ s'.cw = s.cw ∧ s'.x.get .rsp = s.x.get .rsp := by
  obtain ⟨x, xmm0, xmm1, st, cw⟩ := s
  skip
  have hseq : instrsOf (cmpZero ty_double ++ [ins1 "sete" (.r "%al"), ins2 "movzx" (.r "%al") (.r "%rax")]) = ⟨"xorpd", [.r "%xmm1", .r "%xmm1"]⟩ :: ⟨"ucomisd", [.r "%xmm1", .r "%xmm0"]⟩ ::
      instrsOf (cmpZeroTail ++ [ins1 "sete" (.r "%al"), ins2 "movzx" (.r "%al") (.r "%rax")]) := rfl
  simp only [hseq, Fp.run]
  rw [runFrom_step F _ _ _ _ rfl rfl rfl, runFrom_step F _ _ _ _ rfl rfl rfl]
  obtain ⟨s', hrun, hrax, hst, hcw, hrsp⟩ := truth_not F (F.ucomisd xmm0 (xmm1 ^^^ xmm1)) ⟨x, xmm0, xmm1 ^^^ xmm1, st, cw⟩
  refine ⟨s', hrun, ?_, hst, hcw, hrsp⟩
  rw [hrax, BitVec.xor_self, F.ucomisd_spec, F.val64_zero, truth_cmp_zero]
  simp

/-- the branches on `e : f64`: `cmp_zero` then `je` (taken iff `e` is a zero) / `jne` (taken iff it is not; a NaN is not) -/
theorem branch_f64 (F : FpuSpec) (s : FState) (l : String)  :
    ∃ s', Fp.run F (instrsOf (cmpZero ty_double)) s = some s' ∧
      jumpOf ⟨"je", [.s l]⟩ s' = some (true, (F.val64 s.xmm0).isZero, l) ∧
      jumpOf ⟨"jne", [.s l]⟩ s' = some (true, !(F.val64 s.xmm0).isZero, l) ∧
      s'.x.flagsValid = true ∧ s'.st = s.st ∧ s'.cw = s.cw ∧ s'.x.get .rsp = s.x.get .rsp := by
  obtain ⟨x, xmm0, xmm1, st, cw⟩ := s
  skip
  have hseq : instrsOf (cmpZero ty_double) = ⟨"xorpd", [.r "%xmm1", .r "%xmm1"]⟩ :: ⟨"ucomisd", [.r "%xmm1", .r "%xmm0"]⟩ :: instrsOf cmpZeroTail := rfl
  simp only [hseq, Fp.run]
  rw [runFrom_step F _ _ _ _ rfl rfl rfl, runFrom_step F _ _ _ _ rfl rfl rfl]
  obtain ⟨s', hrun, hje, hjne, hfv, _, _, hst, hcw, hrsp⟩ := truth_jcc F (F.ucomisd xmm0 (xmm1 ^^^ xmm1)) ⟨x, xmm0, xmm1 ^^^ xmm1, st, cw⟩ l
  refine ⟨s', hrun, ?_, ?_, hfv, hst, hcw, hrsp⟩
  · rw [hje, BitVec.xor_self, F.ucomisd_spec, F.val64_zero, truth_cmp_zero]; simp
  · rw [hjne, BitVec.xor_self, F.ucomisd_spec, F.val64_zero, truth_cmp_zero]

/-- `!e` for `e : f80` -/
theorem not_f80 (F : FpuSpec) (s : FState) (b : BitVec 80) (rest : List (BitVec 80)) (h : s.st = b :: rest) :
    ∃ s', Fp.run F (instrsOf (cmpZero ty_ldouble ++ [ins1 "sete" (.r "%al"), ins2 "movzx" (.r "%al") (.r "%rax")])) s = some s' ∧
      s'.x.get .rax = b2bv (F.val80 b).isZero ∧ s'.st = rest ∧ s'.cw = s.cw ∧ s'.x.get .rsp = s.x.get .rsp := by
  obtain ⟨x, xmm0, xmm1, st, cw⟩ := s
  simp only at h; subst h
  have hseq : instrsOf (cmpZero ty_ldouble ++ [ins1 "sete" (.r "%al"), ins2 "movzx" (.r "%al") (.r "%rax")]) = ⟨"fldz", []⟩ :: ⟨"fucomip", []⟩ :: ⟨"fstp", [.r "%st(0)"]⟩ ::
      instrsOf (cmpZeroTail ++ [ins1 "sete" (.r "%al"), ins2 "movzx" (.r "%al") (.r "%rax")]) := rfl
  simp only [hseq, Fp.run]
  rw [runFrom_step F _ _ _ _ rfl rfl rfl, runFrom_step F _ _ _ _ rfl rfl rfl, runFrom_step F _ _ _ _ rfl rfl rfl]
  obtain ⟨s', hrun, hrax, hst, hcw, hrsp⟩ := truth_not F (F.fcomi F.fldz b) ⟨x, xmm0, xmm1, rest, cw⟩
  refine ⟨s', hrun, ?_, hst, hcw, hrsp⟩
  rw [hrax, F.fcomi_spec, F.val80_fldz, truth_cmp_zero_left]
  simp

/-- the branches on `e : f80`: `cmp_zero` then `je` (taken iff `e` is a zero) / `jne` (taken iff it is not; a NaN is not) -/
theorem branch_f80 (F : FpuSpec) (s : FState) (l : String) (b : BitVec 80) (rest : List (BitVec 80)) (h : s.st = b :: rest) :
    ∃ s', Fp.run F (instrsOf (cmpZero ty_ldouble)) s = some s' ∧
      jumpOf ⟨"je", [.s l]⟩ s' = some (true, (F.val80 b).isZero, l) ∧
      jumpOf ⟨"jne", [.s l]⟩ s' = some (true, !(F.val80 b).isZero, l) ∧
      s'.x.flagsValid = true ∧ s'.st = rest ∧ s'.cw = s.cw ∧ s'.x.get .rsp = s.x.get .rsp := by
  obtain ⟨x, xmm0, xmm1, st, cw⟩ := s
  simp only at h; subst h
  have hseq : instrsOf (cmpZero ty_ldouble) = ⟨"fldz", []⟩ :: ⟨"fucomip", []⟩ :: ⟨"fstp", [.r "%st(0)"]⟩ :: instrsOf cmpZeroTail := rfl
  simp only [hseq, Fp.run]
  rw [runFrom_step F _ _ _ _ rfl rfl rfl, runFrom_step F _ _ _ _ rfl rfl rfl, runFrom_step F _ _ _ _ rfl rfl rfl]
  obtain ⟨s', hrun, hje, hjne, hfv, _, _, hst, hcw, hrsp⟩ := truth_jcc F (F.fcomi F.fldz b) ⟨x, xmm0, xmm1, rest, cw⟩ l
  refine ⟨s', hrun, ?_, ?_, hfv, hst, hcw, hrsp⟩
  · rw [hje, F.fcomi_spec, F.val80_fldz, truth_cmp_zero_left]; simp
  · rw [hjne, F.fcomi_spec, F.val80_fldz, truth_cmp_zero_left]

end ChibiVerif.Fp
