/-
C08 — inside the `int` range the loops of struct_decl / union_decl with explicit 32-bit arithmetic (Model/Layout32.lean,
either mode: strict = signed overflow is an outcome, wrap = two's complement) compute what the unbounded model computes,
i.e. the specification.  "Inside the range": the end of the aggregate plus one rounding step stays below 2^31 bits.

Core Lean only.
-/
import ChibiVerif.Model.Layout32
import ChibiVerif.Lemmas.LayoutLemmas

set_option linter.unusedSimpArgs false

namespace ChibiVerif.Layout
open ChibiVerif.Gen.Declspec ChibiVerif.Spec.Layout

/-! ### single operations -/

theorem inInt_iff (x : Int) : inInt x = true ↔ (-2147483648 ≤ x ∧ x ≤ 2147483647) := by
  simp [inInt]

theorem int32_of_inInt {x : Int} (h : inInt x = true) : int32 x = x := by
  rw [inInt_iff] at h
  unfold int32; omega

theorem op32_ok (md : IntMode) {x : Int} (h : inInt x = true) : op32 md x = .ok x := by
  cases md with
  | wrap => simp [op32, int32_of_inInt h]
  | strict => simp [op32, h]

theorem inInt_nat {n : Nat} (h : n < 2147483648) : inInt (n : Int) = true := by
  rw [inInt_iff]; omega

theorem op32_nat (md : IntMode) {n : Nat} (h : n < 2147483648) : op32 md (n : Int) = .ok (n : Int) :=
  op32_ok md (inInt_nat h)

theorem div32_nat (n a : Nat) (ha : 0 < a) : div32 (n : Int) (a : Int) = .ok (((n / a : Nat)) : Int) := by
  have h1 : ¬ ((a : Int) = 0) := by omega
  have h2 : ¬ ((n : Int) = -2147483648 ∧ (a : Int) = -1) := by omega
  simp only [div32, h1, h2, if_false, tdiv_natCast]

theorem div32_nat8 (n : Nat) : div32 (n : Int) 8 = .ok (((n / 8 : Nat)) : Int) := div32_nat n 8 (by omega)

theorem mod32_nat (n a : Nat) (ha : 0 < a) : mod32 (n : Int) (a : Int) = .ok (((n % a : Nat)) : Int) := by
  have h1 : ¬ ((a : Int) = 0) := by omega
  have h2 : ¬ ((n : Int) = -2147483648 ∧ (a : Int) = -1) := by omega
  simp only [mod32, h1, h2, if_false, tmod_natCast]

/-- `align_to` on naturals: no operation leaves the `int` range if `n + a` does not -/
theorem alignTo32_nat (md : IntMode) (n a : Nat) (ha : 0 < a) (hb : n + a < 2147483648) :
    alignTo32 md (n : Int) (a : Int) = .ok ((roundUp n a : Nat) : Int) := by
  have e1 : ((n : Int) + (a : Int)) = ((n + a : Nat) : Int) := by omega
  have e2 : (((n + a : Nat) : Int) - 1) = ((n + a - 1 : Nat) : Int) := by omega
  have hr := roundUp_eq n a ha
  have hlt := roundUp_lt n a ha
  have e3 : (((n + a - 1) / a : Nat) : Int) * (a : Int) = ((roundUp n a : Nat) : Int) := by
    rw [hr, Int.natCast_mul]
  simp only [alignTo32, e1, op32_nat md hb, bind, Except.bind, e2, op32_nat md (show n + a - 1 < 2147483648 by omega),
    div32_nat _ _ ha, e3, op32_nat md (show roundUp n a < 2147483648 by omega)]

/-- `align_down` on naturals -/
theorem alignDown32_nat (md : IntMode) (d a : Nat) (ha : 0 < a) (hd : d + 1 < 2147483648) (hsz : a < 2147483648) :
    alignDown32 md (d : Int) (a : Int) = .ok ((d / a * a : Nat) : Int) := by
  have i1 : inInt ((d : Int) - (a : Int)) = true := by rw [inInt_iff]; omega
  have i2 : inInt ((d : Int) - (a : Int) + 1) = true := by rw [inInt_iff]; omega
  have e1 : ((d : Int) - (a : Int) + 1 + (a : Int)) = ((d + 1 : Nat) : Int) := by omega
  have e2 : (((d + 1 : Nat) : Int) - 1) = ((d : Nat) : Int) := by omega
  have hle : d / a * a ≤ d := Nat.div_mul_le_self d a
  simp only [alignDown32, op32_ok md i1, bind, Except.bind, op32_ok md i2, alignTo32, e1, op32_nat md hd, e2,
    op32_nat md (show d < 2147483648 by omega), div32_nat _ _ ha, ← Int.natCast_mul,
    op32_nat md (show d / a * a < 2147483648 by omega)]

/-! ### one member -/

/-- the divisor `struct_decl` uses for the member, in bits: the storage unit of a bit-field, `mem->align * 8` (8 in a packed
    struct) otherwise -/
def _root_.ChibiVerif.Spec.Layout.SMem.step (packed : Bool) (m : SMem) : Nat :=
  match m.bitWidth with
  | some _ => 8 * m.size
  | none => if packed then 8 else 8 * (if m.alignas ≠ 0 then m.alignas else m.tyAlign)

theorem placeMember32_eq (md : IntMode) (packed : Bool) (cur S : Nat) (m : SMem) (hwf : m.WF)
    (hsc : MemInScope packed cur m) (hstep : m.step packed ≤ S) (hb : (allocate packed cur m).2 + S < 2147483648) :
    placeMember32 md packed cur m.toMem =
      .ok (((allocate packed cur m).2 : Nat), (placedAt m (allocate packed cur m).1).toPlaced) := by
  obtain ⟨size, tyAlign, alignas, bw, named⟩ := m
  obtain ⟨hta, hbf⟩ := hwf
  unfold MemInScope at hsc
  simp only at hta hbf hsc
  cases bw with
  | none =>
    cases packed with
    | false =>
      have hA : 0 < (if alignas ≠ 0 then alignas else tyAlign) := by split <;> omega
      simp only [SMem.step, Bool.false_eq_true, if_false] at hstep
      simp only [allocate, SMem.reqAlign, Bool.false_eq_true, if_false] at hb
      simp only [placeMember32, SMem.toMem, allocate, placedAt, SMem.reqAlign, Bool.false_eq_true, if_false]
      generalize (if alignas ≠ 0 then alignas else tyAlign) = A at hA hstep hb ⊢
      have hge := roundUp_ge cur (8 * A)
      have e1 : ((A : Int) * 8) = ((8 * A : Nat) : Int) := by omega
      have e2 : ((size : Int) * 8) = ((8 * size : Nat) : Int) := by omega
      have e3 : ((roundUp cur (8 * A) : Nat) : Int) + ((8 * size : Nat) : Int) = ((roundUp cur (8 * A) + 8 * size : Nat) : Int) := by omega
      simp only [e1, op32_nat md (show 8 * A < 2147483648 by omega), bind, Except.bind,
        alignTo32_nat md cur (8 * A) (by omega) (by omega), div32_nat8, e2,
        op32_nat md (show 8 * size < 2147483648 by omega), e3,
        op32_nat md (show roundUp cur (8 * A) + 8 * size < 2147483648 by omega), pure, Except.pure, SPlaced.toPlaced]
      rfl
    | true =>
      have ⟨ha1, _⟩ := hsc rfl
      have hr : (if alignas ≠ 0 then alignas else 1) = 1 := by split <;> omega
      simp only [SMem.step, if_true] at hstep
      simp only [allocate, SMem.reqAlign, if_true, hr, Nat.mul_one] at hb
      simp only [placeMember32, SMem.toMem, allocate, placedAt, SMem.reqAlign, if_true, hr, Nat.mul_one]
      have hge := roundUp_ge cur 8
      have e8 : (8 : Int) = ((8 : Nat) : Int) := rfl
      have e2 : ((size : Int) * ((8 : Nat) : Int)) = ((8 * size : Nat) : Int) := by omega
      have e3 : ((roundUp cur 8 : Nat) : Int) + ((8 * size : Nat) : Int) = ((roundUp cur 8 + 8 * size : Nat) : Int) := by omega
      rw [e8]
      simp only [pure, Except.pure, bind, Except.bind, alignTo32_nat md cur 8 (by omega) (by omega), div32_nat8, e2,
        op32_nat md (show 8 * size < 2147483648 by omega), e3,
        op32_nat md (show roundUp cur 8 + 8 * size < 2147483648 by omega), SPlaced.toPlaced]
      rfl
  | some w =>
    obtain ⟨hsz, ha0, hts, hw8, hnm⟩ := hbf
    subst ha0
    subst hts
    simp only [SMem.step] at hstep
    have e1 : ((tyAlign : Int) * 8) = ((8 * tyAlign : Nat) : Int) := by omega
    by_cases hw : w = 0
    · subst hw
      simp only [allocate, if_true] at hb
      have hge := roundUp_ge cur (8 * tyAlign)
      simp only [placeMember32, SMem.toMem, allocate, placedAt, if_true, Int.natCast_eq_zero, e1,
        op32_nat md (show 8 * tyAlign < 2147483648 by omega), bind, Except.bind,
        alignTo32_nat md cur (8 * tyAlign) (by omega) (by omega), pure, Except.pure, SPlaced.toPlaced, Int.natCast_zero]
    · have hwz : ¬ ((w : Int) = 0) := by omega
      have hpk : packed = true → cur % (8 * tyAlign) + w ≤ 8 * tyAlign := by
        intro hp
        have := (hsc hp).2 w rfl
        simpa [straddlesAt, hw] using this
      have hal : allocate packed cur ⟨tyAlign, tyAlign, 0, some w, named⟩ =
          (if cur % (8 * tyAlign) + w ≤ 8 * tyAlign then (cur, cur + w)
           else (roundUp cur (8 * tyAlign), roundUp cur (8 * tyAlign) + w)) := by
        cases packed with
        | false => simp [allocate, hw]
        | true => simp [allocate, hw, hpk rfl]
      rw [hal] at hb ⊢
      have hge := roundUp_ge cur (8 * tyAlign)
      have hst := straddle_iff cur w (8 * tyAlign) (by omega) (by omega)
      have e2 : ((cur : Int) + (w : Int)) = ((cur + w : Nat) : Int) := by omega
      have e3 : (((cur + w : Nat) : Int) - 1) = ((cur + w - 1 : Nat) : Int) := by omega
      have hu0 : 0 < 8 * tyAlign := by omega
      by_cases hfit : cur % (8 * tyAlign) + w ≤ 8 * tyAlign
      · rw [if_pos hfit] at hb ⊢
        simp only at hb
        have hno : ¬ (((cur / (8 * tyAlign) : Nat) : Int) ≠ ((cur + w - 1) / (8 * tyAlign) : Nat)) := by
          intro h; exact (hst.mp (fun h' => h (by rw [h']))) hfit
        have hd : cur / 8 + 1 < 2147483648 := by omega
        simp only [placeMember32, SMem.toMem, hw, hwz, if_false, e1,
          op32_nat md (show 8 * tyAlign < 2147483648 by omega), bind, Except.bind, div32_nat _ _ hu0,
          e2, op32_nat md (show cur + w < 2147483648 by omega), e3, op32_nat md (show cur + w - 1 < 2147483648 by omega)]
        rw [if_neg hno]
        simp only [pure, Except.pure, div32_nat8, alignDown32_nat md (cur / 8) tyAlign hta hd (by omega),
          mod32_nat _ _ hu0, e2, op32_nat md (show cur + w < 2147483648 by omega), placedAt, hw, if_false, SPlaced.toPlaced]
        simp [Nat.div_div_eq_div_mul]
      · rw [if_neg hfit] at hb ⊢
        simp only at hb
        have hyes : (((cur / (8 * tyAlign) : Nat) : Int) ≠ ((cur + w - 1) / (8 * tyAlign) : Nat)) := by
          intro h; exact (hst.mpr hfit) (by exact_mod_cast h)
        have hd : roundUp cur (8 * tyAlign) / 8 + 1 < 2147483648 := by omega
        have e4 : ((roundUp cur (8 * tyAlign) : Nat) : Int) + (w : Int) = ((roundUp cur (8 * tyAlign) + w : Nat) : Int) := by omega
        simp only [placeMember32, SMem.toMem, hw, hwz, if_false, e1,
          op32_nat md (show 8 * tyAlign < 2147483648 by omega), bind, Except.bind, div32_nat _ _ hu0,
          e2, op32_nat md (show cur + w < 2147483648 by omega), e3, op32_nat md (show cur + w - 1 < 2147483648 by omega)]
        rw [if_pos hyes]
        simp only [alignTo32_nat md cur (8 * tyAlign) hu0 (by omega), pure, Except.pure, div32_nat8,
          alignDown32_nat md (roundUp cur (8 * tyAlign) / 8) tyAlign hta hd (by omega),
          mod32_nat _ _ hu0, e4, op32_nat md (show roundUp cur (8 * tyAlign) + w < 2147483648 by omega), placedAt, hw, if_false,
          SPlaced.toPlaced]
        simp [Nat.div_div_eq_div_mul]

/-! ### all members, struct_decl -/

theorem allocate_mono (p : Bool) (cur : Nat) (m : SMem) : cur ≤ (allocate p cur m).2 := by
  unfold allocate
  cases m.bitWidth with
  | none => have := roundUp_ge cur (8 * m.reqAlign p); simp only; omega
  | some w =>
    have := roundUp_ge cur (8 * m.size)
    simp only
    split
    · simpa using this
    · split
      · simp
      · split
        · simp
        · simp only; omega

theorem allocateAll_mono (p : Bool) (ms : List SMem) : ∀ cur, cur ≤ (allocateAll p cur ms).1 := by
  induction ms with
  | nil => intro cur; exact Nat.le_refl _
  | cons m ms ih =>
    intro cur
    rw [allocateAll_cons]
    exact Nat.le_trans (allocate_mono p cur m) (ih _)

theorem structLoop32_eq (md : IntMode) (packed : Bool) (S : Nat) (ms : List SMem) : ∀ (cur al : Nat), 0 < al →
    (∀ m ∈ ms, m.WF) → AllInScope packed cur ms → (∀ m ∈ ms, m.step packed ≤ S) →
    (allocateAll packed cur ms).1 + S < 2147483648 →
    structLoop32 md packed cur al (ms.map SMem.toMem) =
      .ok (((allocateAll packed cur ms).1 : Nat), ((aggAlign packed al ms : Nat) : Int),
           (allocateAll packed cur ms).2.map SPlaced.toPlaced) := by
  induction ms with
  | nil => intro cur al _ _ _ _ _; rfl
  | cons m ms ih =>
    intro cur al hal hwf hsc hS hb
    have hwm := hwf m (List.mem_cons_self ..)
    rw [allocateAll_cons] at hb
    simp only at hb
    have hmono := allocateAll_mono packed ms (allocate packed cur m).2
    have h1 := placeMember32_eq md packed cur S m hwm hsc.1 (hS m (List.mem_cons_self ..)) (by omega)
    have h2 := ih (allocate packed cur m).2 (max al (m.contrib packed)) (by omega)
      (fun x hx => hwf x (List.mem_cons_of_mem _ hx)) hsc.2 (fun x hx => hS x (List.mem_cons_of_mem _ hx)) hb
    simp only [List.map_cons, structLoop32, h1, bind, Except.bind, stepAlign_eq packed al cur m hwm hsc.1 hal, h2, pure, Except.pure]
    rw [allocateAll_cons, aggAlign_cons]
    rfl

/-- **struct_decl in `int` arithmetic.**  In scope, with every divisor at most `S` bits and the end of the struct plus `S`
    below 2^31 bits, no operation of the loop or of the final rounding leaves the `int` range (strict mode: no signed overflow;
    wrap mode: the same numbers), and the result is the specification's layout. -/
theorem structLayout32_eq (md : IntMode) (packed : Bool) (aligned : Option Nat) (ms : List SMem) (S : Nat)
    (hal : ∀ n, aligned = some n → 0 < n) (hwf : ∀ m ∈ ms, m.WF) (hsc : AllInScope packed 0 ms)
    (hS : ∀ m ∈ ms, m.step packed ≤ S) (hA : 8 * (specStruct packed aligned ms).align ≤ S)
    (hb : 8 * (specStruct packed aligned ms).size + S < 2147483648) :
    structLayout32 md packed ((aligned.getD STRUCT_INIT_ALIGN : Nat) : Int) (ms.map SMem.toMem) =
      .ok (specStruct packed aligned ms).toLayout := by
  have h1 : STRUCT_INIT_ALIGN = 1 := rfl
  have ha0 : 0 < aligned.getD 1 := by
    cases aligned with
    | none => simp
    | some n => simpa using hal n rfl
  have hpos : 0 < aggAlign packed (aligned.getD 1) ms := Nat.lt_of_lt_of_le ha0 (aggAlign_ge ..)
  simp only [specStruct] at hA hb
  generalize hAL : aggAlign packed (aligned.getD 1) ms = AL at hA hb hpos
  generalize hE : (allocateAll packed 0 ms).1 = e at hb
  have hge := roundUp_ge e (8 * AL)
  obtain ⟨k, hk⟩ := roundUp_dvd e (8 * AL) (by omega)
  have hdiv : 8 * (roundUp e (8 * AL) / 8) = roundUp e (8 * AL) := by
    rw [hk, Nat.mul_assoc, Nat.mul_div_cancel_left _ (by omega : 0 < 8)]
  have hloop := structLoop32_eq md packed S ms 0 (aligned.getD 1) ha0 hwf hsc hS (by rw [hE]; omega)
  rw [h1]
  simp only [Int.natCast_zero] at hloop
  have e1 : ((AL : Nat) : Int) * 8 = ((8 * AL : Nat) : Int) := by omega
  simp only [structLayout32, hloop, bind, Except.bind, hAL, hE, e1, op32_nat md (show 8 * AL < 2147483648 by omega),
    alignTo32_nat md e (8 * AL) (by omega) (by omega), div32_nat8, pure, Except.pure, specStruct, SLayout.toLayout]

/-! ### union_decl -/

theorem unionStep32_eq (md : IntMode) (packed : Bool) (sm a : Nat) (m : SMem) (hwf : m.WF) (hsc : UMemInScope packed m)
    (ha : 0 < a) (hsz : 8 * m.size + 7 < 2147483648) :
    unionStep32 md packed sm a m.toMem =
      .ok (((max sm (codeExtent m) : Nat) : Int), ((max a (m.contrib packed) : Nat) : Int)) := by
  have h := unionStep_eq packed sm a m hwf hsc ha
  obtain ⟨size, tyAlign, alignas, bw, named⟩ := m
  obtain ⟨hta, hbf⟩ := hwf
  simp only at hsz hbf
  cases bw with
  | none =>
    simp only [unionStep32, SMem.toMem, pure, Except.pure]
    simp only [unionStep, SMem.toMem] at h
    rw [h]
  | some w =>
    cases named with
    | true =>
      simp only [unionStep32, SMem.toMem, pure, Except.pure]
      simp only [unionStep, SMem.toMem] at h
      rw [h]
    | false =>
      obtain ⟨_, _, hts, hw8, _⟩ := hbf
      have e7 : ((w : Int) + 7) = ((w + 7 : Nat) : Int) := by omega
      simp only [unionStep32, SMem.toMem, e7, op32_nat md (show w + 7 < 2147483648 by omega), bind, Except.bind, div32_nat8,
        pure, Except.pure]
      simp only [unionStep, SMem.toMem, e7, tdiv_natCast8] at h
      rw [h]

theorem unionLoop32_eq (md : IntMode) (packed : Bool) (ms : List SMem) : ∀ (sm a : Nat), 0 < a → (∀ m ∈ ms, m.WF) →
    (∀ m ∈ ms, UMemInScope packed m) → (∀ m ∈ ms, 8 * m.size + 7 < 2147483648) →
    unionLoop32 md packed sm a (ms.map SMem.toMem) = .ok (unionLoop packed sm a (ms.map SMem.toMem)) := by
  induction ms with
  | nil => intro sm a _ _ _ _; rfl
  | cons m ms ih =>
    intro sm a ha hwf hsc hsz
    have hwm := hwf m (List.mem_cons_self ..)
    have hsm := hsc m (List.mem_cons_self ..)
    have h1 := unionStep32_eq md packed sm a m hwm hsm ha (hsz m (List.mem_cons_self ..))
    have h0 := unionStep_eq packed sm a m hwm hsm ha
    simp only [List.map_cons, unionLoop32, h1, bind, Except.bind, unionLoop, h0]
    exact ih _ _ (by omega) (fun x hx => hwf x (List.mem_cons_of_mem _ hx))
      (fun x hx => hsc x (List.mem_cons_of_mem _ hx)) (fun x hx => hsz x (List.mem_cons_of_mem _ hx))

theorem codeExtent_le (m : SMem) (hwf : m.WF) : codeExtent m ≤ m.size := by
  obtain ⟨size, tyAlign, alignas, bw, named⟩ := m
  obtain ⟨_, hbf⟩ := hwf
  simp only at hbf
  cases bw with
  | none => simp [codeExtent]
  | some w =>
    cases named with
    | true => simp [codeExtent]
    | false => simp only [codeExtent]; omega

/-- **union_decl in `int` arithmetic.** -/
theorem unionLayout32_eq (md : IntMode) (packed : Bool) (aligned : Option Nat) (ms : List SMem) (S : Nat)
    (hal : ∀ n, aligned = some n → 0 < n) (hwf : ∀ m ∈ ms, m.WF) (hsc : ∀ m ∈ ms, UMemInScope packed m)
    (hS : ∀ m ∈ ms, 8 * m.size + 7 ≤ S) (hb : S + (specUnion packed aligned ms).align < 2147483648) :
    unionLayout32 md packed ((aligned.getD STRUCT_INIT_ALIGN : Nat) : Int) (ms.map SMem.toMem) =
      .ok (specUnion packed aligned ms).toLayout := by
  have h1 : STRUCT_INIT_ALIGN = 1 := rfl
  have h0 : STRUCT_INIT_SIZE = 0 := rfl
  have ha0 : 0 < aligned.getD 1 := by
    cases aligned with
    | none => simp
    | some n => simpa using hal n rfl
  have hU := unionLayout_eq packed aligned ms hal hwf hsc
  obtain ⟨sm', hloop, hle, hinv⟩ := unionLoop_eq packed ms 0 0 (aligned.getD 1) ha0 hwf hsc ⟨Nat.le_refl _, Or.inl rfl⟩
  have hpos : 0 < aggAlign packed (aligned.getD 1) ms := Nat.lt_of_lt_of_le ha0 (aggAlign_ge ..)
  have hl32 := unionLoop32_eq md packed ms 0 (aligned.getD 1) ha0 hwf hsc (fun m hm => by have := hS m hm; simp only [specUnion] at hb; omega)
  -- the code's running size is at most the largest member size
  have hsm : ∀ (l : List SMem) (s0 a0 : Nat) (B : Nat), s0 ≤ B → (∀ m ∈ l, m.WF) → (∀ m ∈ l, UMemInScope packed m) → 0 < a0 →
      (∀ m ∈ l, m.size ≤ B) → ∃ s1 a1 : Nat, unionLoop packed s0 a0 (l.map SMem.toMem) = ((s1 : Int), (a1 : Int)) ∧ s1 ≤ B := by
    intro l
    induction l with
    | nil => intro s0 a0 B hs _ _ _ _; exact ⟨s0, a0, rfl, hs⟩
    | cons m l ih =>
      intro s0 a0 B hs hw hs' ha hB
      have hwm := hw m (List.mem_cons_self ..)
      simp only [List.map_cons, unionLoop, unionStep_eq packed s0 a0 m hwm (hs' m (List.mem_cons_self ..)) ha]
      refine ih _ _ B ?_ (fun x hx => hw x (List.mem_cons_of_mem _ hx)) (fun x hx => hs' x (List.mem_cons_of_mem _ hx)) (by omega)
        (fun x hx => hB x (List.mem_cons_of_mem _ hx))
      have := codeExtent_le m hwm
      have := hB m (List.mem_cons_self ..)
      simp only [Nat.max_def]; split <;> omega
  obtain ⟨s1, a1, hl, hs1⟩ := hsm ms 0 (aligned.getD 1) (S / 8) (by omega) hwf hsc ha0 (fun m hm => by have := hS m hm; omega)
  simp only [Int.natCast_zero] at hloop hl
  rw [hloop] at hl
  simp only [Prod.mk.injEq, Int.natCast_inj] at hl
  obtain ⟨rfl, rfl⟩ := hl
  simp only [specUnion] at hb
  unfold unionLayout at hU
  rw [h1, h0] at hU
  simp only [Int.natCast_zero] at hU hl32
  simp only [hloop, alignToE_natCast _ _ hpos] at hU
  unfold unionLayout32
  rw [h1, h0]
  simp only [Int.natCast_zero, hl32, hloop, bind, Except.bind,
    alignTo32_nat md sm' (aggAlign packed (aligned.getD 1) ms) hpos (by omega), pure, Except.pure]
  rw [Except.ok.injEq] at hU ⊢
  exact hU

/-! ### whole type descriptions -/

/-- the struct fits the `int` arithmetic of struct_decl: its end, plus one rounding step of its own alignment, plus one
    storage unit of the widest bit-field type, is below 2^31 bits (i.e. sizeof + _Alignof + 8 < 2^28 bytes) -/
def structInRange (p : Bool) (al : Option Nat) (ms : List SMem) : Bool :=
  decide (8 * (specStruct p al ms).size + (8 * (specStruct p al ms).align + 64) < 2147483648)

/-- the union fits the `int` arithmetic of union_decl: every member size in bits (+ 7) plus the alignment is below 2^31 -/
def unionInRange (p : Bool) (al : Option Nat) (ms : List SMem) : Bool :=
  decide ((specUnion p al ms).align + 7 < 2147483648) &&
    ms.all fun m => decide (8 * m.size + 7 + (specUnion p al ms).align < 2147483648)

mutual
  /-- every array and aggregate of the description — at any depth, `_Alignas(type-name)` operands included — is small enough
      for the `int` arithmetic of array_of / struct_decl / union_decl (roughly: below 256 MiB) -/
  def Ty.inRange : Ty → Bool
    | .prim _ => true
    | .enum => true
    | .ptr => true
    | .arr e n => e.inRange && decide ((specSizeAlign e).1 * n.toNat < 2147483648)
    | .flex e => e.inRange
    | .struct p al ms => ms.inRange && structInRange p (specAligned al) (specMembers ms)
    | .union p al ms => ms.inRange && unionInRange p (specAligned al) (specMembers ms)
  def Aligns.inRange : Aligns → Bool
    | .nil => true
    | .const _ rest => rest.inRange
    | .type t rest => t.inRange && rest.inRange
  def Members.inRange : Members → Bool
    | .nil => true
    | .cons _ as ty rest => as.inRange && ty.inRange && rest.inRange
end

theorem bitfieldBase_size_le {ty : Ty} (h : isBitfieldBase ty = true) : (specSizeAlign ty).1 ≤ 8 := by
  cases ty with
  | prim t => cases t <;> first | (simp [isBitfieldBase] at h; done) | decide
  | enum => decide
  | _ => simp [isBitfieldBase] at h

/-- the bit-field members of a well-formed member list have declared types of at most 8 bytes -/
theorem specMembers_bf_size : ∀ (r : Bool) (ms : Members), ms.ok r = true →
    ∀ m ∈ specMembers ms, m.bitWidth.isSome = true → m.size ≤ 8
  | _, .nil, _ => by intro m hm; simp [specMembers] at hm
  | r, .cons d as ty rest, h => by
    simp only [Members.ok, Bool.and_eq_true] at h
    obtain ⟨⟨⟨hty, hrest⟩, has⟩, hbf⟩ := h
    have hsm : specMembers (.cons d as ty rest) =
        { size := (specSizeAlign ty).1, tyAlign := (specSizeAlign ty).2, alignas := specAligns as,
          bitWidth := d.bitWidth.map Int.toNat, named := d.named } :: specMembers rest := by
      simp [specMembers]
    intro m hm hb
    rw [hsm] at hm
    rcases List.mem_cons.mp hm with rfl | hm'
    · cases hd : d.bitWidth with
      | none => simp [hd] at hb
      | some w =>
        rw [hd] at hbf
        simp only [Bool.and_eq_true] at hbf
        exact bitfieldBase_size_le hbf.1.1.1.1
    · exact specMembers_bf_size r rest hrest m hm' hb

theorem step_le_struct (p : Bool) (a0 : Nat) (ms : List SMem) (hbf : ∀ m ∈ ms, m.bitWidth.isSome = true → m.size ≤ 8) :
    ∀ m ∈ ms, m.step p ≤ 8 * aggAlign p a0 ms + 64 := by
  intro m hm
  have hc := contrib_le_aggAlign p ms a0 m hm
  unfold SMem.step
  cases hb : m.bitWidth with
  | some w => have := hbf m hm (by simp [hb]); simp only; omega
  | none =>
    simp only
    cases p with
    | true => simp
    | false =>
      simp only [SMem.contrib, hb, SMem.reqAlign, Bool.false_eq_true, if_false] at hc
      simp only [Bool.false_eq_true, if_false]
      omega

mutual
  theorem ty_eq32 (md : IntMode) : ∀ (t : Ty), t.ok true = true → t.inRange = true →
      t.sizeAlign32 md = .ok (((specSizeAlign t).1 : Nat), ((specSizeAlign t).2 : Nat))
    | .prim t, _, _ => by
      have := prim_eq t
      simp only [Ty.sizeAlign32, specSizeAlign, this.1, this.2.1]
    | .enum, _, _ => rfl
    | .ptr, _, _ => rfl
    | .arr e n, h, hr => by
      simp only [Ty.ok, Bool.and_eq_true, decide_eq_true_eq] at h
      simp only [Ty.inRange, Bool.and_eq_true, decide_eq_true_eq] at hr
      have ih := ty_eq32 md e h.1 hr.1
      have hn : ((n.toNat : Nat) : Int) = n := Int.toNat_of_nonneg h.2
      have e1 : (((specSizeAlign e).1 : Nat) : Int) * n = (((specSizeAlign e).1 * n.toNat : Nat) : Int) := by
        rw [Int.natCast_mul, hn]
      simp only [Ty.sizeAlign32, ih, bind, Except.bind, e1, op32_nat md hr.2, lift32, pure, Except.pure, specSizeAlign]
    | .flex e, h, hr => by
      simp only [Ty.ok] at h
      simp only [Ty.inRange] at hr
      have ih := ty_eq32 md e h hr
      simp only [Ty.sizeAlign32, ih, bind, Except.bind, Int.mul_zero, op32_ok md (show inInt 0 = true by decide), lift32,
        pure, Except.pure, specSizeAlign, Int.natCast_zero]
    | .struct p al ms, h, hr => by
      simp only [Ty.ok, Bool.not_true, Bool.false_or, Bool.and_eq_true, Bool.not_eq_true'] at h
      obtain ⟨⟨hms, hal⟩, hB, hA⟩ := h
      simp only [Ty.inRange, Bool.and_eq_true, structInRange, decide_eq_true_eq] at hr
      have ih := ms_eq32 md ms hms hr.1
      have hwf := (ms_eq ms hms).2
      have hc := aligned_cast hal
      have hst := step_le_struct p ((specAligned al).getD 1) (specMembers ms) (specMembers_bf_size true ms hms)
      have := structLayout32_eq md p (specAligned al) (specMembers ms) (8 * (specStruct p (specAligned al) (specMembers ms)).align + 64)
        hc.2 hwf (memInScope_of_regions hB hA) hst (by omega) hr.2
      rw [specSizeAlign_struct]
      simp only [Ty.sizeAlign32, hc.1, liftTy, ih, bind, Except.bind, this, lift32, pure, Except.pure, SLayout.toLayout]
    | .union p al ms, h, hr => by
      simp only [Ty.ok, Bool.not_true, Bool.false_or, Bool.and_eq_true, Bool.not_eq_true'] at h
      obtain ⟨⟨hms, hal⟩, hU, hA⟩ := h
      simp only [Ty.inRange, Bool.and_eq_true, unionInRange, decide_eq_true_eq, List.all_eq_true] at hr
      have ih := ms_eq32 md ms hms hr.1
      have hwf := (ms_eq ms hms).2
      have hc := aligned_cast hal
      have := unionLayout32_eq md p (specAligned al) (specMembers ms)
        (2147483647 - (specUnion p (specAligned al) (specMembers ms)).align)
        hc.2 hwf (uMemInScope_of_regions hU hA) (fun m hm => by have := hr.2.2 m hm; omega) (by omega)
      rw [specSizeAlign_union]
      simp only [Ty.sizeAlign32, hc.1, liftTy, ih, bind, Except.bind, this, lift32, pure, Except.pure, SLayout.toLayout]
  theorem as_eq32 (md : IntMode) : ∀ (as : Aligns), as.ok true = true → as.inRange = true → ∀ acc : Int,
      as.eval32 md acc = liftTy (as.eval acc)
    | .nil, _, _, acc => rfl
    | .const n rest, h, hr, acc => by
      simp only [Aligns.ok, Bool.and_eq_true] at h
      simp only [Aligns.inRange] at hr
      simp only [Aligns.eval32, Aligns.eval]
      by_cases hb : alignasConstBad n = true
      · rw [if_pos hb, if_pos hb]; rfl
      · rw [if_neg hb, if_neg hb]; exact as_eq32 md rest h.2 hr _
    | .type t rest, h, hr, acc => by
      simp only [Aligns.ok, Bool.and_eq_true] at h
      simp only [Aligns.inRange, Bool.and_eq_true] at hr
      have i1 := ty_eq32 md t h.1 hr.1
      have i0 := (ty_eq t h.1).1
      simp only [Aligns.eval32, Aligns.eval, i1, i0, bind, Except.bind]
      exact as_eq32 md rest h.2 hr.2 _
  theorem ms_eq32 (md : IntMode) : ∀ (ms : Members), ms.ok true = true → ms.inRange = true →
      ms.toMems32 md = .ok ((specMembers ms).map SMem.toMem)
    | .nil, _, _ => rfl
    | .cons d as ty rest, h, hr => by
      have h0 := (ms_eq (.cons d as ty rest) h).1
      simp only [Members.ok, Bool.and_eq_true] at h
      obtain ⟨⟨⟨hty, hrest⟩, has⟩, hbf⟩ := h
      simp only [Members.inRange, Bool.and_eq_true] at hr
      have i1 := ty_eq32 md ty hty hr.1.2
      have i0 := (ty_eq ty hty).1
      have ia := as_eq32 md as has hr.1.1 0
      have ia0 := as_eq as has 0
      simp only [Nat.zero_max, Int.natCast_zero] at ia0
      have ir := ms_eq32 md rest hrest hr.2
      have ir0 := (ms_eq rest hrest).1
      rw [ia0] at ia
      have hneg : ¬ ((((specSizeAlign ty).1 : Nat) : Int) < 0) := by omega
      simp only [Members.toMems, ia0, i0, ir0, bind, Except.bind, pure, Except.pure] at h0
      simp only [Members.toMems32, ia, liftTy, i1, ir, bind, Except.bind, pure, Except.pure, hneg, decide_false, Bool.and_false,
        Bool.false_eq_true, if_false]
      split
      · rename_i hg; rw [if_pos hg] at h0; cases h0
      · rename_i hg; rw [if_neg hg] at h0; rw [Except.ok.injEq] at h0 ⊢; exact h0
end

/-- whole types in `int` arithmetic: a well-formed, in-scope description all of whose arrays and aggregates are in range
    gets the specification's layout from the 32-bit model, in either mode -/
theorem layout32_eq (md : IntMode) (t : Ty) (h : t.ok true = true) (hr : t.inRange = true) :
    t.layout32 md = .ok (specTy t).toLayout := by
  cases t with
  | struct p al ms =>
    simp only [Ty.ok, Bool.not_true, Bool.false_or, Bool.and_eq_true, Bool.not_eq_true'] at h
    obtain ⟨⟨hms, hal⟩, hB, hA⟩ := h
    simp only [Ty.inRange, Bool.and_eq_true, structInRange, decide_eq_true_eq] at hr
    have ih := ms_eq32 md ms hms hr.1
    have hwf := (ms_eq ms hms).2
    have hc := aligned_cast hal
    have hst := step_le_struct p ((specAligned al).getD 1) (specMembers ms) (specMembers_bf_size true ms hms)
    have := structLayout32_eq md p (specAligned al) (specMembers ms) (8 * (specStruct p (specAligned al) (specMembers ms)).align + 64)
      hc.2 hwf (memInScope_of_regions hB hA) hst (by omega) hr.2
    simp only [Ty.layout32, hc.1, liftTy, ih, bind, Except.bind, this, lift32, specTy]
  | union p al ms =>
    simp only [Ty.ok, Bool.not_true, Bool.false_or, Bool.and_eq_true, Bool.not_eq_true'] at h
    obtain ⟨⟨hms, hal⟩, hU, hA⟩ := h
    simp only [Ty.inRange, Bool.and_eq_true, unionInRange, decide_eq_true_eq, List.all_eq_true] at hr
    have ih := ms_eq32 md ms hms hr.1
    have hwf := (ms_eq ms hms).2
    have hc := aligned_cast hal
    have := unionLayout32_eq md p (specAligned al) (specMembers ms)
      (2147483647 - (specUnion p (specAligned al) (specMembers ms)).align)
      hc.2 hwf (uMemInScope_of_regions hU hA) (fun m hm => by have := hr.2.2 m hm; omega) (by omega)
    simp only [Ty.layout32, hc.1, liftTy, ih, bind, Except.bind, this, lift32, specTy]
  | prim t => have := ty_eq32 md (.prim t) h hr; simp only [Ty.layout32, this, bind, Except.bind, pure, Except.pure, specTy, SLayout.toLayout, List.map_nil]
  | enum => have := ty_eq32 md .enum h hr; simp only [Ty.layout32, this, bind, Except.bind, pure, Except.pure, specTy, SLayout.toLayout, List.map_nil]
  | ptr => have := ty_eq32 md .ptr h hr; simp only [Ty.layout32, this, bind, Except.bind, pure, Except.pure, specTy, SLayout.toLayout, List.map_nil]
  | arr e n => have := ty_eq32 md (.arr e n) h hr; simp only [Ty.layout32, this, bind, Except.bind, pure, Except.pure, specTy, SLayout.toLayout, List.map_nil]
  | flex e => have := ty_eq32 md (.flex e) h hr; simp only [Ty.layout32, this, bind, Except.bind, pure, Except.pure, specTy, SLayout.toLayout, List.map_nil]

end ChibiVerif.Layout
