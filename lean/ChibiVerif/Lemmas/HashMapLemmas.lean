/-
Helper lemmas and the representation invariant for the model of /repo/hashmap.c
(`Model/HashMap.lean`).  Property theorems are in `Props/C17.lean`.

Core Lean only.  The generated constants `INIT_SIZE`, `HIGH_WATERMARK`,
`LOW_WATERMARK` are used through their definitions (`unfold … ; omega`), so the
proofs stop checking if the constants in hashmap.c change to values for which the
argument is no longer valid (e.g. `HIGH_WATERMARK = 100`).
-/
import ChibiVerif.Model.HashMap

set_option linter.unusedSectionVars false

namespace ChibiVerif.HashMap
open ChibiVerif.Gen.HashMap (INIT_SIZE HIGH_WATERMARK LOW_WATERMARK)

variable {α β : Type}

/-! ### Slots -/

/-- the key stored in a slot (`none` for empty slots and tombstones) -/
def Slot.key : Slot α β → Option α
  | .full k _ => some k
  | _ => none

/-- the slot is not `.empty` (it is full or a tombstone): `ent->key != NULL` -/
def Slot.occ : Slot α β → Bool
  | .empty => false
  | _ => true

/-- the slot at probe offset `i` for hash `hk` -/
def probe (b : List (Slot α β)) (hk i : Nat) : Slot α β :=
  HM.slotAt b ((hk + i) % b.length)

@[simp] theorem Slot.key_full (k : α) (v : β) : (Slot.full k v).key = some k := rfl
@[simp] theorem Slot.key_tomb : (Slot.tomb : Slot α β).key = none := rfl
@[simp] theorem Slot.key_empty : (Slot.empty : Slot α β).key = none := rfl
@[simp] theorem Slot.occ_full (k : α) (v : β) : (Slot.full k v).occ = true := rfl
@[simp] theorem Slot.occ_tomb : (Slot.tomb : Slot α β).occ = true := rfl
@[simp] theorem Slot.occ_empty : (Slot.empty : Slot α β).occ = false := rfl

theorem Slot.key_eq_some {s : Slot α β} {k : α} : s.key = some k ↔ ∃ v, s = .full k v := by
  cases s <;> simp [Slot.key]

theorem Slot.occ_eq_false {s : Slot α β} : s.occ = false ↔ s = .empty := by
  cases s <;> simp [Slot.occ]

theorem slotAt_eq_getElem?_getD (b : List (Slot α β)) (i : Nat) :
    HM.slotAt b i = (b[i]?).getD .empty := by
  simp [HM.slotAt]

theorem slotAt_of_length_le {b : List (Slot α β)} {i : Nat} (hi : b.length ≤ i) :
    HM.slotAt b i = .empty := by
  simp [HM.slotAt, List.getD_eq_getElem?_getD, List.getElem?_eq_none hi]

theorem lt_length_of_occ {b : List (Slot α β)} {i : Nat} (ho : (HM.slotAt b i).occ = true) :
    i < b.length := by
  apply Nat.lt_of_not_le
  intro hle
  rw [slotAt_of_length_le hle] at ho
  simp at ho

theorem lt_length_of_key {b : List (Slot α β)} {i : Nat} {k : α}
    (hk : (HM.slotAt b i).key = some k) : i < b.length := by
  apply lt_length_of_occ
  obtain ⟨v, hv⟩ := Slot.key_eq_some.1 hk
  rw [hv]; rfl

theorem slotAt_eq_getElem {b : List (Slot α β)} {i : Nat} (hi : i < b.length) :
    HM.slotAt b i = b[i] := by
  simp [HM.slotAt, List.getD_eq_getElem?_getD, List.getElem?_eq_getElem hi]

theorem slotAt_set {b : List (Slot α β)} {j : Nat} (hj : j < b.length) (s : Slot α β) (x : Nat) :
    HM.slotAt (b.set j s) x = if x = j then s else HM.slotAt b x := by
  simp only [HM.slotAt, List.getD_eq_getElem?_getD, List.getElem?_set]
  by_cases hx : x = j
  · subst hx; simp [hj]
  · have : ¬ j = x := fun e => hx e.symm
    simp [hx, this]

theorem slotAt_replicate_empty (n i : Nat) :
    HM.slotAt (List.replicate n (Slot.empty : Slot α β)) i = .empty := by
  simp only [HM.slotAt, List.getD_eq_getElem?_getD, List.getElem?_replicate]
  split <;> rfl

/-! ### Probe sequence arithmetic -/

theorem probe_inj {c hk i d : Nat} (hid : i ≤ d) (hd : d < c)
    (he : (hk + i) % c = (hk + d) % c) : i = d := by
  have h1 := Nat.sub_mod_eq_zero_of_mod_eq he.symm
  have h2 : hk + d - (hk + i) = d - i := by omega
  rw [h2, Nat.mod_eq_of_lt (by omega)] at h1
  omega

theorem probe_inj' {c hk i d : Nat} (hi : i < c) (hd : d < c)
    (he : (hk + i) % c = (hk + d) % c) : i = d := by
  rcases Nat.le_total i d with h | h
  · exact probe_inj h hd he
  · exact (probe_inj h hi he.symm).symm

theorem probe_surj {c : Nat} (hk : Nat) {e : Nat} (he : e < c) :
    ∃ i, i < c ∧ (hk + i) % c = e := by
  have hc : 0 < c := by omega
  have hr : hk % c < c := Nat.mod_lt _ hc
  refine ⟨(e + c - hk % c) % c, Nat.mod_lt _ hc, ?_⟩
  have : hk % c + (e + c - hk % c) = e + c := by omega
  rw [Nat.add_mod_mod, ← Nat.mod_add_mod, this, Nat.add_mod_right, Nat.mod_eq_of_lt he]

/-! ### The probe loops on an arbitrary bucket list -/

variable [DecidableEq α]

theorem insLoop_succ (b : List (Slot α β)) (hk : Nat) (k : α) (n i : Nat) (t : Option Nat) :
    HM.insLoop b hk k (n + 1) i t =
      match HM.slotAt b ((hk + i) % b.length) with
      | .full k' _ =>
        if k' = k then .ok (.found ((hk + i) % b.length)) else HM.insLoop b hk k n (i + 1) t
      | .tomb => HM.insLoop b hk k n (i + 1)
          (match t with | some j => some j | none => some ((hk + i) % b.length))
      | .empty => match t with
        | some j => .ok (.reuse j)
        | none => .ok (.fresh ((hk + i) % b.length)) := by
  cases t <;> rfl

theorem getLoop_found (b : List (Slot α β)) (hk : Nat) (k : α) (v : β) (d : Nat) :
    ∀ n i, i ≤ d → d < i + n → probe b hk d = .full k v →
      (∀ j, i ≤ j → j < d → (probe b hk j).occ = true ∧ (probe b hk j).key ≠ some k) →
      HM.getLoop b hk k n i = .ok (some ((hk + d) % b.length)) := by
  intro n
  induction n with
  | zero => intro i h1 h2; omega
  | succ n ih =>
    intro i h1 h2 hd hpre
    rw [HM.getLoop]
    by_cases hid : i = d
    · subst hid
      simp only [probe] at hd
      simp [hd]
    · have hlt : i < d := by omega
      have hp := hpre i (Nat.le_refl _) hlt
      have hrec := ih (i + 1) (by omega) (by omega) hd
        (fun j hj1 hj2 => hpre j (by omega) hj2)
      simp only [probe] at hp
      revert hp
      cases hs : HM.slotAt b ((hk + i) % b.length) with
      | empty => simp
      | tomb => intro _; simpa using hrec
      | full k' v' =>
        intro hp
        have : k' ≠ k := by simpa using hp.2
        simp [this, hrec]

theorem getLoop_absent (b : List (Slot α β)) (hk : Nat) (k : α)
    (habs : ∀ j, (probe b hk j).key ≠ some k) :
    ∀ n i, (∃ e, i ≤ e ∧ e < i + n ∧ (probe b hk e).occ = false) →
      HM.getLoop b hk k n i = .ok none := by
  intro n
  induction n with
  | zero => intro i ⟨e, h1, h2, _⟩; omega
  | succ n ih =>
    intro i ⟨e, h1, h2, he⟩
    rw [HM.getLoop]
    have ha := habs i
    simp only [probe] at ha
    revert ha
    cases hs : HM.slotAt b ((hk + i) % b.length) with
    | empty => simp
    | tomb =>
      intro _
      have : e ≠ i := by
        intro hei; subst hei; simp [probe, hs] at he
      simpa using ih (i + 1) ⟨e, by omega, by omega, he⟩
    | full k' v' =>
      intro ha
      have hne : k' ≠ k := by simpa using ha
      have : e ≠ i := by
        intro hei; subst hei; simp [probe, hs] at he
      simp [hne, ih (i + 1) ⟨e, by omega, by omega, he⟩]

theorem insLoop_found (b : List (Slot α β)) (hk : Nat) (k : α) (v : β) (d : Nat) :
    ∀ n i t, i ≤ d → d < i + n → probe b hk d = .full k v →
      (∀ j, i ≤ j → j < d → (probe b hk j).occ = true ∧ (probe b hk j).key ≠ some k) →
      HM.insLoop b hk k n i t = .ok (.found ((hk + d) % b.length)) := by
  intro n
  induction n with
  | zero => intro i t h1 h2; omega
  | succ n ih =>
    intro i t h1 h2 hd hpre
    rw [insLoop_succ]
    by_cases hid : i = d
    · subst hid
      simp only [probe] at hd
      simp [hd]
    · have hlt : i < d := by omega
      have hp := hpre i (Nat.le_refl _) hlt
      have hrec := fun t => ih (i + 1) t (by omega) (by omega) hd
        (fun j hj1 hj2 => hpre j (by omega) hj2)
      simp only [probe] at hp
      revert hp
      cases hs : HM.slotAt b ((hk + i) % b.length) with
      | empty => simp
      | tomb => intro _; simpa using hrec _
      | full k' v' =>
        intro hp
        have : k' ≠ k := by simpa using hp.2
        simp [this, hrec]

theorem insLoop_absent_some (b : List (Slot α β)) (hk : Nat) (k : α)
    (habs : ∀ j, (probe b hk j).key ≠ some k) (j0 : Nat) :
    ∀ n i, (∃ e, i ≤ e ∧ e < i + n ∧ (probe b hk e).occ = false) →
      HM.insLoop b hk k n i (some j0) = .ok (.reuse j0) := by
  intro n
  induction n with
  | zero => intro i ⟨e, h1, h2, _⟩; omega
  | succ n ih =>
    intro i ⟨e, h1, h2, he⟩
    rw [insLoop_succ]
    have ha := habs i
    simp only [probe] at ha
    revert ha
    cases hs : HM.slotAt b ((hk + i) % b.length) with
    | empty => simp
    | tomb =>
      intro _
      have : e ≠ i := by
        intro hei; subst hei; simp [probe, hs] at he
      simpa using ih (i + 1) ⟨e, by omega, by omega, he⟩
    | full k' v' =>
      intro ha
      have hne : k' ≠ k := by simpa using ha
      have : e ≠ i := by
        intro hei; subst hei; simp [probe, hs] at he
      simp [hne, ih (i + 1) ⟨e, by omega, by omega, he⟩]

/-- Key absent: the loop stops at the first non-full slot `d` on the probe path if that
    is an empty slot (`fresh`), or remembers it if it is a tombstone (`reuse`). -/
theorem insLoop_absent_none (b : List (Slot α β)) (hk : Nat) (k : α)
    (habs : ∀ j, (probe b hk j).key ≠ some k) :
    ∀ n i, (∃ e, i ≤ e ∧ e < i + n ∧ (probe b hk e).occ = false) →
      ∃ d, i ≤ d ∧ d < i + n ∧
        (∀ j, i ≤ j → j < d → (probe b hk j).occ = true) ∧
        ((probe b hk d = .empty ∧
            HM.insLoop b hk k n i none = .ok (.fresh ((hk + d) % b.length))) ∨
         (probe b hk d = .tomb ∧
            HM.insLoop b hk k n i none = .ok (.reuse ((hk + d) % b.length)))) := by
  intro n
  induction n with
  | zero => intro i ⟨e, h1, h2, _⟩; omega
  | succ n ih =>
    intro i ⟨e, h1, h2, he⟩
    rw [insLoop_succ]
    have ha := habs i
    simp only [probe] at ha
    revert ha
    cases hs : HM.slotAt b ((hk + i) % b.length) with
    | empty =>
      intro _
      exact ⟨i, Nat.le_refl _, by omega, fun j h1 h2 => by omega, Or.inl ⟨by simp [probe, hs], by simp⟩⟩
    | tomb =>
      intro _
      have hei : e ≠ i := by
        intro hei; subst hei; simp [probe, hs] at he
      refine ⟨i, Nat.le_refl _, by omega, fun j h1 h2 => by omega, Or.inr ⟨by simp [probe, hs], ?_⟩⟩
      simpa using insLoop_absent_some b hk k habs _ n (i + 1) ⟨e, by omega, by omega, he⟩
    | full k' v' =>
      intro ha
      have hne : k' ≠ k := by simpa using ha
      have hei : e ≠ i := by
        intro hei; subst hei; simp [probe, hs] at he
      obtain ⟨d, hd1, hd2, hd3, hd4⟩ := ih (i + 1) ⟨e, by omega, by omega, he⟩
      refine ⟨d, by omega, by omega, ?_, ?_⟩
      · intro j hj1 hj2
        by_cases hji : j = i
        · subst hji; simp [probe, hs]
        · exact hd3 j (by omega) hj2
      · simpa [hne] using hd4

/-! ### The abstract dictionary -/

theorem find?_erase_ne (l : List (α × β)) {k k' : α} (hk : k' ≠ k) :
    (l.filter (fun kv => !(kv.1 == k))).find? (fun kv => kv.1 == k') =
      l.find? (fun kv => kv.1 == k') := by
  rw [List.find?_filter]
  congr 1
  funext a
  by_cases ha' : a.1 = k'
  · simp [ha', hk]
  · simp [ha']

theorem AMap.mem_of_get_eq_some {l : List (α × β)} {k : α} {v : β}
    (hg : AMap.get (α := α) (β := β) l k = some v) : (k, v) ∈ l := by
  simp only [AMap.get, Option.map_eq_some_iff] at hg
  obtain ⟨⟨k', v'⟩, hf, hv⟩ := hg
  have h1 := List.find?_some hf
  have h2 := List.mem_of_find?_eq_some hf
  simp at h1 hv
  subst h1; subst hv
  exact h2

theorem AMap.get_eq_none_iff {l : List (α × β)} {k : α} :
    AMap.get (α := α) (β := β) l k = none ↔ ∀ v, (k, v) ∉ l := by
  simp only [AMap.get, Option.map_eq_none_iff, List.find?_eq_none]
  constructor
  · intro hn v hm
    have := hn (k, v) hm
    simp at this
  · intro hn ⟨k', v'⟩ hm hk
    simp at hk
    subst hk
    exact hn v' hm

theorem AMap.get_put (m : AMap α β) (k : α) (v : β) (k' : α) :
    (m.put k v).get k' = if k' = k then some v else m.get k' := by
  simp only [AMap.put, AMap.get, AMap.erase]
  by_cases hk : k' = k
  · subst hk; simp
  · have hk' : ¬ k = k' := fun e => hk e.symm
    rw [List.find?_cons]
    have : ((k, v).1 == k') = false := by simpa using hk'
    rw [this]
    simp only [hk, if_false]
    exact congrArg _ (find?_erase_ne _ hk)

theorem AMap.get_erase (m : AMap α β) (k : α) (k' : α) :
    (m.erase k).get k' = if k' = k then none else m.get k' := by
  simp only [AMap.get, AMap.erase]
  by_cases hk : k' = k
  · subst hk
    simp only [if_true, Option.map_eq_none_iff, List.find?_eq_none]
    intro x hx
    simpa using (List.mem_filter.1 hx).2
  · simp only [hk, if_false]
    exact congrArg _ (find?_erase_ne _ hk)

theorem AMap.get_empty (k : α) : (AMap.empty : AMap α β).get k = none := rfl

/-! ### Abstraction function and representation invariant -/

/-- the value of a full slot holding key `k` (the first one in bucket order; under the
    invariant there is at most one) -/
def absGet (m : HM α β) (k : α) : Option β := AMap.get (HM.liveEntries m.buckets) k

/-- number of slots that are full or tombstones -/
def occCount (b : List (Slot α β)) : Nat := b.countP Slot.occ

/-- Representation invariant of a table with allocated buckets.
* capacity is at least `INIT_SIZE`;
* (I1) no two different slots hold the same key;
* (I2) every stored key is reachable from its hash by linear probing without passing
  an empty slot;
* (I3) `used` counts the non-empty slots and at least one slot is empty. -/
def WF (h : α → Nat) (m : HM α β) : Prop :=
  INIT_SIZE ≤ m.buckets.length ∧
  (∀ i, i < m.buckets.length → ∀ j, j < m.buckets.length → ∀ k,
      (HM.slotAt m.buckets i).key = some k → (HM.slotAt m.buckets j).key = some k → i = j) ∧
  (∀ j, j < m.buckets.length → ∀ k, (HM.slotAt m.buckets j).key = some k →
      ∃ d, d < m.buckets.length ∧ ((h k + d) % m.buckets.length = j ∧
        ∀ i, i < d → (probe m.buckets (h k) i).occ = true)) ∧
  m.used = occCount m.buckets ∧
  m.used < m.buckets.length

/-- Representation invariant: the zero-initialised map (`buckets == NULL`), or a
    well-formed allocated table. -/
def Inv (h : α → Nat) (m : HM α β) : Prop :=
  (m.buckets.length = 0 ∧ m.used = 0) ∨ WF h m

instance (h : α → Nat) (m : HM α β) : Decidable (WF h m) := by
  unfold WF; infer_instance

instance (h : α → Nat) (m : HM α β) : Decidable (Inv h m) := by
  unfold Inv; infer_instance

theorem Inv_empty (h : α → Nat) : Inv h (HM.empty : HM α β) := Or.inl ⟨rfl, rfl⟩

namespace WF
variable {h : α → Nat} {m : HM α β}

theorem cap_ge (w : WF h m) : INIT_SIZE ≤ m.buckets.length := w.1

theorem cap_pos (w : WF h m) : 0 < m.buckets.length := by
  have := w.1; unfold INIT_SIZE at this; omega

theorem uniq (w : WF h m) {i j : Nat} {k : α} (hi : (HM.slotAt m.buckets i).key = some k)
    (hj : (HM.slotAt m.buckets j).key = some k) : i = j :=
  w.2.1 i (lt_length_of_key hi) j (lt_length_of_key hj) k hi hj

theorem path (w : WF h m) {j : Nat} {k : α} (hj : (HM.slotAt m.buckets j).key = some k) :
    ∃ d, d < m.buckets.length ∧ (h k + d) % m.buckets.length = j ∧
      ∀ i, i < d → (probe m.buckets (h k) i).occ = true := by
  obtain ⟨d, h1, h2, h3⟩ := w.2.2.1 j (lt_length_of_key hj) k hj
  exact ⟨d, h1, h2, h3⟩

theorem used_eq (w : WF h m) : m.used = occCount m.buckets := w.2.2.2.1
theorem used_lt (w : WF h m) : m.used < m.buckets.length := w.2.2.2.2

end WF

/-! ### `absGet` in terms of slots -/

theorem mem_liveEntries {b : List (Slot α β)} {k : α} {v : β} :
    (k, v) ∈ HM.liveEntries b ↔ ∃ j, HM.slotAt b j = .full k v := by
  simp only [HM.liveEntries, List.mem_filterMap]
  constructor
  · rintro ⟨s, hs, hf⟩
    cases s with
    | empty => simp at hf
    | tomb => simp at hf
    | full k' v' =>
      simp at hf
      obtain ⟨rfl, rfl⟩ := hf
      obtain ⟨j, hj⟩ := List.mem_iff_getElem?.1 hs
      exact ⟨j, by simp [HM.slotAt, List.getD_eq_getElem?_getD, hj]⟩
  · rintro ⟨j, hj⟩
    refine ⟨.full k v, ?_, rfl⟩
    have hlt : j < b.length := lt_length_of_occ (by rw [hj]; rfl)
    rw [slotAt_eq_getElem hlt] at hj
    rw [← hj]
    exact List.getElem_mem hlt

theorem slot_of_absGet_eq_some {m : HM α β} {k : α} {v : β} (hg : absGet m k = some v) :
    ∃ j, HM.slotAt m.buckets j = .full k v :=
  mem_liveEntries.1 (AMap.mem_of_get_eq_some hg)

theorem absGet_eq_none_iff {m : HM α β} {k : α} :
    absGet m k = none ↔ ∀ j, (HM.slotAt m.buckets j).key ≠ some k := by
  unfold absGet
  rw [AMap.get_eq_none_iff]
  constructor
  · intro hn j hj
    obtain ⟨v, hv⟩ := Slot.key_eq_some.1 hj
    exact hn v (mem_liveEntries.2 ⟨j, hv⟩)
  · intro hn v hm
    obtain ⟨j, hj⟩ := mem_liveEntries.1 hm
    exact hn j (by rw [hj]; rfl)

/-- only (I1) is needed: the value of *the* slot holding `k` -/
theorem absGet_eq_some_of_slot {m : HM α β}
    (huniq : ∀ i j k, (HM.slotAt m.buckets i).key = some k →
      (HM.slotAt m.buckets j).key = some k → i = j)
    {j : Nat} {k : α} {v : β} (hj : HM.slotAt m.buckets j = .full k v) :
    absGet m k = some v := by
  cases hg : absGet m k with
  | none =>
    exact absurd (by rw [hj]; rfl) (absGet_eq_none_iff.1 hg j)
  | some v' =>
    obtain ⟨j', hj'⟩ := slot_of_absGet_eq_some hg
    have := huniq j j' k (by rw [hj]; rfl) (by rw [hj']; rfl)
    subst this
    rw [hj] at hj'
    injection hj' with _ hv
    rw [hv]

theorem WF.absGet_of_slot {h : α → Nat} {m : HM α β} (w : WF h m) {j : Nat} {k : α} {v : β}
    (hj : HM.slotAt m.buckets j = .full k v) : absGet m k = some v :=
  absGet_eq_some_of_slot (fun _ _ _ hi hj => w.uniq hi hj) hj

theorem absGet_of_length_zero {m : HM α β} (h0 : m.buckets.length = 0) (k : α) :
    absGet m k = none := by
  have : m.buckets = [] := List.eq_nil_of_length_eq_zero h0
  simp [absGet, this, HM.liveEntries, AMap.get]

/-! ### An empty slot exists on every probe path -/

theorem exists_empty_of_occCount_lt {b : List (Slot α β)} (hlt : occCount b < b.length) :
    ∃ e, e < b.length ∧ (HM.slotAt b e).occ = false := by
  have hne : ¬ (∀ a, a ∈ b → Slot.occ a = true) := by
    intro hall
    have := List.countP_eq_length.2 hall
    unfold occCount at hlt
    omega
  have : ∃ a, a ∈ b ∧ Slot.occ a = false := by
    apply Classical.byContradiction
    intro hcon
    apply hne
    intro a ha
    cases hoa : Slot.occ a with
    | true => rfl
    | false => exact absurd ⟨a, ha, hoa⟩ hcon
  obtain ⟨a, ha, hoa⟩ := this
  obtain ⟨e, he, hea⟩ := List.mem_iff_getElem.1 ha
  exact ⟨e, he, by rw [slotAt_eq_getElem he, hea]; exact hoa⟩

theorem WF.exists_empty_probe {h : α → Nat} {m : HM α β} (w : WF h m) (hk : Nat) :
    ∃ e, e < m.buckets.length ∧ (probe m.buckets hk e).occ = false := by
  have hlt : occCount m.buckets < m.buckets.length := by
    rw [← w.used_eq]; exact w.used_lt
  obtain ⟨e, he, hoe⟩ := exists_empty_of_occCount_lt hlt
  obtain ⟨i, hi, hie⟩ := probe_surj hk he
  exact ⟨i, hi, by simp only [probe]; rw [hie]; exact hoe⟩

/-- a stored key is found at the end of an all-occupied, non-matching probe prefix -/
theorem WF.probe_of_slot {h : α → Nat} {m : HM α β} (w : WF h m) {j : Nat} {k : α}
    (hj : (HM.slotAt m.buckets j).key = some k) :
    ∃ d, d < m.buckets.length ∧ (h k + d) % m.buckets.length = j ∧
      ∀ i, i < d → (probe m.buckets (h k) i).occ = true ∧ (probe m.buckets (h k) i).key ≠ some k := by
  obtain ⟨d, hd, hdj, hpre⟩ := w.path hj
  refine ⟨d, hd, hdj, fun i hi => ⟨hpre i hi, ?_⟩⟩
  intro hki
  have := w.uniq hki hj
  rw [← hdj] at this
  have := probe_inj (Nat.le_of_lt hi) hd this
  omega

/-! ### Lookup -/

theorem WF.getEntry_of_slot {h : α → Nat} {m : HM α β} (w : WF h m) {j : Nat} {k : α}
    (hj : (HM.slotAt m.buckets j).key = some k) : HM.getEntry h m k = .ok (some j) := by
  obtain ⟨v, hv⟩ := Slot.key_eq_some.1 hj
  obtain ⟨d, hd, hdj, hpre⟩ := w.probe_of_slot hj
  have hne : m.buckets.isEmpty = false := by
    have := w.cap_pos
    cases hb : m.buckets with
    | nil => simp [hb] at this
    | cons _ _ => rfl
  unfold HM.getEntry
  rw [hne]
  have := getLoop_found m.buckets (h k) k v d m.buckets.length 0 (Nat.zero_le _) (by omega)
    (by simp only [probe]; rw [hdj]; exact hv) (fun i _ hi => hpre i hi)
  rw [hdj] at this
  simpa using this

theorem WF.getEntry_absent {h : α → Nat} {m : HM α β} (w : WF h m) {k : α}
    (habs : ∀ j, (HM.slotAt m.buckets j).key ≠ some k) : HM.getEntry h m k = .ok none := by
  have hne : m.buckets.isEmpty = false := by
    have := w.cap_pos
    cases hb : m.buckets with
    | nil => simp [hb] at this
    | cons _ _ => rfl
  unfold HM.getEntry
  rw [hne]
  obtain ⟨e, he, hoe⟩ := w.exists_empty_probe (h k)
  have := getLoop_absent m.buckets (h k) k (fun j => habs _) m.buckets.length 0
    ⟨e, Nat.zero_le _, by omega, hoe⟩
  simpa using this

/-- `hashmap_get2` on a table satisfying the invariant -/
theorem Inv.get_eq {h : α → Nat} {m : HM α β} (hinv : Inv h m) (k : α) :
    HM.get h m k = .ok (absGet m k) := by
  rcases hinv with ⟨h0, _⟩ | w
  · have hb : m.buckets = [] := List.eq_nil_of_length_eq_zero h0
    rw [absGet_of_length_zero h0]
    simp [HM.get, HM.getEntry, hb, bind, Except.bind, pure, Except.pure]
  · cases hg : absGet m k with
    | none =>
      have := w.getEntry_absent (absGet_eq_none_iff.1 hg)
      simp [HM.get, this, bind, Except.bind, pure, Except.pure]
    | some v =>
      obtain ⟨j, hj⟩ := slot_of_absGet_eq_some hg
      have := w.getEntry_of_slot (k := k) (j := j) (by rw [hj]; rfl)
      simp [HM.get, this, hj, bind, Except.bind, pure, Except.pure]

/-! ### Overwriting one slot -/

theorem occCount_set_occ {b : List (Slot α β)} {j : Nat} (hj : j < b.length) {s : Slot α β}
    (hold : (HM.slotAt b j).occ = true) (hs : s.occ = true) :
    occCount (b.set j s) = occCount b := by
  rw [slotAt_eq_getElem hj] at hold
  have hpos : 0 < occCount b :=
    List.countP_pos_iff.2 ⟨b[j], List.getElem_mem hj, hold⟩
  unfold occCount at *
  rw [List.countP_set hj]
  simp only [hold, hs, if_true]
  omega

theorem occCount_set_empty {b : List (Slot α β)} {j : Nat} (hj : j < b.length) {s : Slot α β}
    (hold : (HM.slotAt b j).occ = false) (hs : s.occ = true) :
    occCount (b.set j s) = occCount b + 1 := by
  rw [slotAt_eq_getElem hj] at hold
  unfold occCount
  rw [List.countP_set hj]
  simp [hold, hs]

theorem probe_set_occ {b : List (Slot α β)} {j : Nat} (hj : j < b.length) {s : Slot α β}
    (hs : s.occ = true) {hk i : Nat} (ho : (probe b hk i).occ = true) :
    (probe (b.set j s) hk i).occ = true := by
  simp only [probe, List.length_set] at *
  rw [slotAt_set hj]
  split
  · exact hs
  · exact ho

/-- Overwriting slot `j` by a non-empty slot `s` keeps the invariant if the key of `s`
    (if any) is stored nowhere else and is reachable at `j`, and `u` is the new count. -/
theorem WF.set {h : α → Nat} {m : HM α β} (w : WF h m) {j : Nat} (hj : j < m.buckets.length)
    {s : Slot α β} {u : Nat} (hs : s.occ = true)
    (huniq : ∀ k, s.key = some k → ∀ x, x ≠ j → (HM.slotAt m.buckets x).key ≠ some k)
    (hpath : ∀ k, s.key = some k → ∃ d, d < m.buckets.length ∧
      (h k + d) % m.buckets.length = j ∧ ∀ i, i < d → (probe m.buckets (h k) i).occ = true)
    (hu : u = occCount (m.buckets.set j s)) (hult : u < m.buckets.length) :
    WF h ⟨m.buckets.set j s, u⟩ := by
  refine ⟨?_, ?_, ?_, hu, ?_⟩
  · simp only [List.length_set]; exact w.cap_ge
  · simp only [List.length_set]
    intro i _ j' _ k hi hj'
    rw [slotAt_set hj] at hi hj'
    by_cases hij : i = j <;> by_cases hjj : j' = j
    · rw [hij, hjj]
    · simp only [hij, hjj, if_true, if_false] at hi hj'
      exact absurd hj' (huniq k hi j' hjj)
    · simp only [hij, hjj, if_true, if_false] at hi hj'
      exact absurd hi (huniq k hj' i hij)
    · simp only [hij, hjj, if_false] at hi hj'
      exact w.uniq hi hj'
  · simp only [List.length_set]
    intro x _ k hx
    rw [slotAt_set hj] at hx
    by_cases hxj : x = j
    · simp only [hxj, if_true] at hx
      obtain ⟨d, hd, hdj, hpre⟩ := hpath k hx
      exact ⟨d, hd, by rw [hxj]; exact hdj, fun i hi => probe_set_occ hj hs (hpre i hi)⟩
    · simp only [hxj, if_false] at hx
      obtain ⟨d, hd, hdj, hpre⟩ := w.path hx
      exact ⟨d, hd, hdj, fun i hi => probe_set_occ hj hs (hpre i hi)⟩
  · simp only [List.length_set]; exact hult

/-- keys other than the overwritten/new one keep their value -/
theorem absGet_set_other {h : α → Nat} {m : HM α β} (w : WF h m) {j : Nat}
    (hj : j < m.buckets.length) {s : Slot α β} {u : Nat} (w' : WF h ⟨m.buckets.set j s, u⟩)
    {k' : α} (hs : s.key ≠ some k') (hold : (HM.slotAt m.buckets j).key ≠ some k') :
    absGet ⟨m.buckets.set j s, u⟩ k' = absGet m k' := by
  apply Option.ext
  intro v
  constructor
  · intro hg
    obtain ⟨x, hx⟩ := slot_of_absGet_eq_some hg
    simp only at hx
    rw [slotAt_set hj] at hx
    by_cases hxj : x = j
    · simp only [hxj, if_true] at hx
      rw [hx] at hs
      exact absurd rfl hs
    · simp only [hxj, if_false] at hx
      exact w.absGet_of_slot hx
  · intro hg
    obtain ⟨x, hx⟩ := slot_of_absGet_eq_some hg
    have hxj : x ≠ j := by
      intro e; rw [e] at hx; rw [hx] at hold; exact hold rfl
    apply w'.absGet_of_slot (j := x)
    simp only
    rw [slotAt_set hj]
    simp only [hxj, if_false]
    exact hx

/-! ### Insertion (`get_or_insert_entry` after the capacity check, plus the store) -/

/-- no tombstones (the fresh table built by `rehash`) -/
def NoTomb (m : HM α β) : Prop := ∀ j, HM.slotAt m.buckets j ≠ .tomb

theorem WF.insert_spec {h : α → Nat} {m : HM α β} (w : WF h m) (k : α) (v : β)
    (hroom : m.used + 1 < m.buckets.length) :
    ∃ p, HM.insLoop m.buckets (h k) k m.buckets.length 0 none = .ok p ∧
      WF h (HM.applyIns m k v p) ∧
      (HM.applyIns m k v p).buckets.length = m.buckets.length ∧
      (∀ k', absGet (HM.applyIns m k v p) k' = if k' = k then some v else absGet m k') ∧
      (NoTomb m → NoTomb (HM.applyIns m k v p) ∧
        (absGet m k = none → (HM.applyIns m k v p).used = m.used + 1)) := by
  -- common tail: once the chosen position is known to be slot `j`
  have tail : ∀ (j u : Nat) (hj : j < m.buckets.length),
      WF h ⟨m.buckets.set j (.full k v), u⟩ →
      (∀ k', k' ≠ k → (HM.slotAt m.buckets j).key ≠ some k') →
      ∀ k', absGet ⟨m.buckets.set j (.full k v), u⟩ k' = if k' = k then some v else absGet m k' := by
    intro j u hj w' hold k'
    by_cases hk : k' = k
    · subst hk
      simp only [if_true]
      apply w'.absGet_of_slot (j := j)
      simp only
      rw [slotAt_set hj]; simp
    · simp only [hk, if_false]
      exact absGet_set_other w hj w' (by simpa using fun e => hk e.symm) (hold k' hk)
  have notomb : ∀ (j u : Nat) (hj : j < m.buckets.length), NoTomb m →
      NoTomb ⟨m.buckets.set j (.full k v), u⟩ := by
    intro j u hj hn x
    simp only
    rw [slotAt_set hj]
    split
    · intro e; cases e
    · exact hn x
  by_cases hpres : ∃ j, (HM.slotAt m.buckets j).key = some k
  · obtain ⟨j, hj⟩ := hpres
    obtain ⟨v0, hv0⟩ := Slot.key_eq_some.1 hj
    have hjlt := lt_length_of_key hj
    obtain ⟨d, hd, hdj, hpre⟩ := w.probe_of_slot hj
    have hloop := insLoop_found m.buckets (h k) k v0 d m.buckets.length 0 none (Nat.zero_le _)
      (by omega) (by simp only [probe]; rw [hdj]; exact hv0) (fun i _ hi => hpre i hi)
    rw [hdj] at hloop
    have w' : WF h ⟨m.buckets.set j (.full k v), m.used⟩ := by
      apply w.set hjlt rfl
      · intro k1 hk1 x hxj hx
        simp at hk1; subst hk1
        exact hxj (w.uniq hx hj)
      · intro k1 hk1
        simp at hk1; subst hk1
        exact w.path hj
      · rw [occCount_set_occ hjlt (by rw [hv0]; rfl) rfl]; exact w.used_eq
      · exact w.used_lt
    refine ⟨.found j, hloop, w', by simp [HM.applyIns], ?_, ?_⟩
    · apply tail j m.used hjlt w'
      intro k' hk' e
      rw [hj] at e
      injection e with e
      exact hk' e.symm
    · intro hn
      refine ⟨notomb j m.used hjlt hn, ?_⟩
      intro hnone
      exact absurd hj (absGet_eq_none_iff.1 hnone j)
  · have habs : ∀ j, (HM.slotAt m.buckets j).key ≠ some k := fun j hj => hpres ⟨j, hj⟩
    obtain ⟨e, he, hoe⟩ := w.exists_empty_probe (h k)
    obtain ⟨d, _, hd, hpre, hcase⟩ := insLoop_absent_none m.buckets (h k) k (fun j => habs _)
      m.buckets.length 0 ⟨e, Nat.zero_le _, by omega, hoe⟩
    have hjlt : (h k + d) % m.buckets.length < m.buckets.length := Nat.mod_lt _ w.cap_pos
    have hold : ∀ k', k' ≠ k →
        (HM.slotAt m.buckets ((h k + d) % m.buckets.length)).key ≠ some k' := by
      intro k' _
      rcases hcase with ⟨hs, _⟩ | ⟨hs, _⟩ <;> (simp only [probe] at hs; rw [hs]; simp)
    have hwf : ∀ u, u = occCount (m.buckets.set ((h k + d) % m.buckets.length) (.full k v)) →
        u < m.buckets.length →
        WF h ⟨m.buckets.set ((h k + d) % m.buckets.length) (.full k v), u⟩ := by
      intro u hu hult
      apply w.set hjlt rfl
      · intro k1 hk1 x _
        simp at hk1; subst hk1
        exact habs x
      · intro k1 hk1
        simp at hk1; subst hk1
        exact ⟨d, by omega, rfl, fun i hi => hpre i (Nat.zero_le _) hi⟩
      · exact hu
      · exact hult
    rcases hcase with ⟨hs, hloop⟩ | ⟨hs, hloop⟩
    · have w' := hwf (m.used + 1)
        (by rw [occCount_set_empty hjlt (by simp only [probe] at hs; rw [hs]; rfl) rfl, w.used_eq])
        (by omega)
      refine ⟨_, hloop, w', by simp [HM.applyIns], tail _ _ hjlt w' hold, ?_⟩
      intro hn
      exact ⟨notomb _ _ hjlt hn, fun _ => rfl⟩
    · have w' := hwf m.used
        (by rw [occCount_set_occ hjlt (by simp only [probe] at hs; rw [hs]; rfl) rfl, w.used_eq])
        w.used_lt
      refine ⟨_, hloop, w', by simp [HM.applyIns], tail _ _ hjlt w' hold, ?_⟩
      intro hn
      simp only [probe] at hs
      exact absurd hs (hn _)

/-! ### Deletion -/

theorem isEmpty_eq_false_of_WF {h : α → Nat} {m : HM α β} (w : WF h m) :
    m.buckets.isEmpty = false := by
  have := w.cap_pos
  cases hb : m.buckets with
  | nil => simp [hb] at this
  | cons _ _ => rfl

theorem Inv.delete_spec {h : α → Nat} {m : HM α β} (hinv : Inv h m) (k : α) :
    ∃ m', HM.delete h m k = .ok m' ∧ Inv h m' ∧
      ∀ k', absGet m' k' = if k' = k then none else absGet m k' := by
  rcases hinv with ⟨h0, hu⟩ | w
  · have hb : m.buckets = [] := List.eq_nil_of_length_eq_zero h0
    refine ⟨m, ?_, Or.inl ⟨h0, hu⟩, ?_⟩
    · simp [HM.delete, HM.getEntry, hb, bind, Except.bind, pure, Except.pure]
    · intro k'; rw [absGet_of_length_zero h0]; simp
  · by_cases hpres : ∃ j, (HM.slotAt m.buckets j).key = some k
    · obtain ⟨j, hj⟩ := hpres
      have hjlt := lt_length_of_key hj
      have hocc : (HM.slotAt m.buckets j).occ = true := by
        obtain ⟨v0, hv0⟩ := Slot.key_eq_some.1 hj
        rw [hv0]; rfl
      have w' : WF h ⟨m.buckets.set j .tomb, m.used⟩ := by
        apply w.set hjlt rfl
        · intro k1 hk1; simp at hk1
        · intro k1 hk1; simp at hk1
        · rw [occCount_set_occ hjlt hocc rfl]; exact w.used_eq
        · exact w.used_lt
      refine ⟨⟨m.buckets.set j .tomb, m.used⟩, ?_, Or.inr w', ?_⟩
      · simp [HM.delete, w.getEntry_of_slot hj, bind, Except.bind, pure, Except.pure]
      · intro k'
        by_cases hk : k' = k
        · subst hk
          simp only [if_true]
          rw [absGet_eq_none_iff]
          intro x hx
          simp only at hx
          rw [slotAt_set hjlt] at hx
          by_cases hxj : x = j
          · simp [hxj] at hx
          · simp only [hxj, if_false] at hx
            exact hxj (w.uniq hx hj)
        · simp only [hk, if_false]
          apply absGet_set_other w hjlt w' (by simp)
          rw [hj]
          intro e; injection e with e; exact hk e.symm
    · have habs : ∀ j, (HM.slotAt m.buckets j).key ≠ some k := fun j hj => hpres ⟨j, hj⟩
      refine ⟨m, ?_, Or.inr w, ?_⟩
      · simp [HM.delete, w.getEntry_absent habs, bind, Except.bind, pure, Except.pure]
      · intro k'
        by_cases hk : k' = k
        · subst hk; simp only [if_true]; exact absGet_eq_none_iff.2 habs
        · simp [hk]

/-! ### `rehash` -/

theorem growCap_spec (nkeys : Nat) : ∀ f cap, 0 < cap →
    nkeys * 100 < LOW_WATERMARK * cap * 2 ^ f →
    cap ≤ HM.growCap nkeys f cap ∧ nkeys * 100 / HM.growCap nkeys f cap < LOW_WATERMARK := by
  intro f
  induction f with
  | zero =>
    intro cap hc hlt
    simp only [HM.growCap, Nat.pow_zero, Nat.mul_one] at *
    exact ⟨Nat.le_refl _, (Nat.div_lt_iff_lt_mul hc).2 hlt⟩
  | succ f ih =>
    intro cap hc hlt
    rw [HM.growCap]
    split
    · have h2 : nkeys * 100 < LOW_WATERMARK * (cap * 2) * 2 ^ f := by
        have : LOW_WATERMARK * (cap * 2) * 2 ^ f = LOW_WATERMARK * cap * 2 ^ (f + 1) := by
          rw [Nat.pow_succ, Nat.mul_comm (2 ^ f) 2, ← Nat.mul_assoc, ← Nat.mul_assoc]
        rw [this]; exact hlt
      obtain ⟨h3, h4⟩ := ih (cap * 2) (by omega) h2
      exact ⟨by omega, h4⟩
    · exact ⟨Nat.le_refl _, by omega⟩

theorem growCap_top (nkeys cap : Nat) (hc : 0 < cap) :
    cap ≤ HM.growCap nkeys (nkeys + 2) cap ∧
      nkeys * 100 / HM.growCap nkeys (nkeys + 2) cap < LOW_WATERMARK := by
  apply growCap_spec nkeys (nkeys + 2) cap hc
  have h1 : nkeys < 2 ^ nkeys := Nat.lt_two_pow_self
  have h2 : 2 ^ (nkeys + 2) = 2 ^ nkeys * 4 := by rw [Nat.pow_add]
  have h3 : LOW_WATERMARK * 1 * 2 ^ (nkeys + 2) ≤ LOW_WATERMARK * cap * 2 ^ (nkeys + 2) :=
    Nat.mul_le_mul_right _ (Nat.mul_le_mul_left _ hc)
  rw [h2] at h3 ⊢
  unfold LOW_WATERMARK at h3 ⊢
  omega

theorem WF.live_pairwise {h : α → Nat} {m : HM α β} (w : WF h m) :
    (HM.liveEntries m.buckets).Pairwise (fun a b => a.1 ≠ b.1) := by
  have hp : m.buckets.Pairwise (fun s t => ∀ k, s.key = some k → t.key ≠ some k) := by
    rw [List.pairwise_iff_getElem]
    intro i j hi hj hij k hik hjk
    rw [← slotAt_eq_getElem hi] at hik
    rw [← slotAt_eq_getElem hj] at hjk
    have := w.uniq hik hjk
    omega
  unfold HM.liveEntries
  refine List.Pairwise.filterMap _ ?_ hp
  intro a a' hR b hb b' hb'
  cases a with
  | empty => simp at hb
  | tomb => simp at hb
  | full k v =>
    cases a' with
    | empty => simp at hb'
    | tomb => simp at hb'
    | full k' v' =>
      simp at hb hb'
      subst hb; subst hb'
      intro e
      have e' : k = k' := e
      exact hR k rfl (by rw [e']; rfl)

theorem WF_replicate (h : α → Nat) {cap : Nat} (hc : INIT_SIZE ≤ cap) :
    WF h (⟨List.replicate cap .empty, 0⟩ : HM α β) := by
  have hpos : 0 < cap := by unfold INIT_SIZE at hc; omega
  refine ⟨by simpa using hc, ?_, ?_, ?_, by simpa using hpos⟩
  · intro i _ j _ k hi
    simp only [slotAt_replicate_empty] at hi
    simp at hi
  · intro j _ k hj
    simp only [slotAt_replicate_empty] at hj
    simp at hj
  · simp [occCount, List.countP_replicate]

theorem rehash_fold {h : α → Nat} (N cap : Nat) (hN : N * 100 / cap < LOW_WATERMARK) :
    ∀ (l : List (α × β)) (acc : HM α β), WF h acc → NoTomb acc → acc.buckets.length = cap →
      l.Pairwise (fun a b => a.1 ≠ b.1) → (∀ kv, kv ∈ l → absGet acc kv.1 = none) →
      acc.used + l.length ≤ N →
      ∃ r, l.foldlM (fun acc kv => HM.putNoRehash h acc kv.1 kv.2) acc = .ok r ∧
        WF h r ∧ NoTomb r ∧ r.buckets.length = cap ∧ r.used = acc.used + l.length ∧
        ∀ k v, absGet r k = some v ↔ ((k, v) ∈ l ∨ absGet acc k = some v) := by
  intro l
  induction l with
  | nil =>
    intro acc w hn hc _ _ _
    exact ⟨acc, rfl, w, hn, hc, rfl, by simp⟩
  | cons kv l ih =>
    intro acc w hn hc hpw hnone hle
    obtain ⟨k1, v1⟩ := kv
    have hcpos : 0 < cap := by rw [← hc]; exact w.cap_pos
    have hN' : N * 100 < LOW_WATERMARK * cap := (Nat.div_lt_iff_lt_mul hcpos).1 hN
    simp only [List.length_cons] at hle
    have hroom : acc.used + 1 < acc.buckets.length := by
      rw [hc]; unfold LOW_WATERMARK at hN'; omega
    obtain ⟨p, hloop, w', hlen', habs', hnt'⟩ := w.insert_spec k1 v1 hroom
    have hk1none : absGet acc k1 = none := hnone (k1, v1) (List.mem_cons_self)
    obtain ⟨hn', hused'⟩ := hnt' hn
    have hused' := hused' hk1none
    have hguard : ¬ (acc.used * 100 / acc.buckets.length ≥ HIGH_WATERMARK) := by
      have h1 : acc.used * 100 / cap ≤ N * 100 / cap :=
        Nat.div_le_div_right (Nat.mul_le_mul_right _ (by omega))
      rw [hc]
      unfold LOW_WATERMARK at hN
      unfold HIGH_WATERMARK
      omega
    have hstep : HM.putNoRehash h acc k1 v1 = .ok (HM.applyIns acc k1 v1 p) := by
      simp [HM.putNoRehash, isEmpty_eq_false_of_WF w, hguard, hloop, bind, Except.bind, pure,
        Except.pure]
    rw [List.pairwise_cons] at hpw
    obtain ⟨r, hr, wr, hnr, hcr, hur, har⟩ := ih (HM.applyIns acc k1 v1 p) w' hn'
      (by rw [hlen', hc]) hpw.2
      (by
        intro kv hkv
        rw [habs']
        have : kv.1 ≠ k1 := fun e => hpw.1 kv hkv e.symm
        simp only [this, if_false]
        exact hnone kv (List.mem_cons_of_mem _ hkv))
      (by rw [hused']; omega)
    refine ⟨r, ?_, wr, hnr, hcr, by rw [hur, hused', List.length_cons]; omega, ?_⟩
    · rw [List.foldlM_cons]
      simp only [bind, Except.bind, hstep]
      exact hr
    · intro k v
      rw [har, habs', List.mem_cons]
      by_cases hk : k = k1
      · subst hk
        simp only [if_true, hk1none, Prod.mk.injEq, true_and]
        constructor
        · rintro (hm | hv)
          · exact Or.inl (Or.inr hm)
          · injection hv with hv; exact Or.inl (Or.inl hv.symm)
        · rintro ((hv | hm) | hf)
          · exact Or.inr (by rw [hv])
          · exact Or.inl hm
          · simp at hf
      · simp [hk]

theorem WF.rehash_spec {h : α → Nat} {m : HM α β} (w : WF h m) :
    ∃ m2, HM.rehash h m = .ok m2 ∧ WF h m2 ∧ (∀ k, absGet m2 k = absGet m k) ∧
      m2.used + 1 < m2.buckets.length := by
  have hg := growCap_top (HM.liveEntries m.buckets).length m.buckets.length w.cap_pos
  obtain ⟨hge, hlow⟩ := hg
  have hcap : INIT_SIZE ≤ HM.growCap (HM.liveEntries m.buckets).length
      ((HM.liveEntries m.buckets).length + 2) m.buckets.length := Nat.le_trans w.cap_ge hge
  have w0 := WF_replicate (β := β) h hcap
  have hnt0 : NoTomb (⟨List.replicate (HM.growCap (HM.liveEntries m.buckets).length
      ((HM.liveEntries m.buckets).length + 2) m.buckets.length) .empty, 0⟩ : HM α β) := by
    intro j; simp only [slotAt_replicate_empty]; intro e; cases e
  have habs0 : ∀ k, absGet (⟨List.replicate (HM.growCap (HM.liveEntries m.buckets).length
      ((HM.liveEntries m.buckets).length + 2) m.buckets.length) .empty, 0⟩ : HM α β) k = none := by
    intro k; rw [absGet_eq_none_iff]; intro j; simp only [slotAt_replicate_empty]; simp
  obtain ⟨r, hr, wr, _, hcr, hur, har⟩ := rehash_fold (h := h) _ _ hlow
    (HM.liveEntries m.buckets) _ w0 hnt0 (by simp) w.live_pairwise
    (fun kv _ => habs0 kv.1) (by simp)
  simp only [Nat.zero_add] at hur
  have hcpos : 0 < HM.growCap (HM.liveEntries m.buckets).length
      ((HM.liveEntries m.buckets).length + 2) m.buckets.length := by
    unfold INIT_SIZE at hcap; omega
  refine ⟨r, ?_, wr, ?_, ?_⟩
  · have hc0 : ¬ HM.growCap (HM.liveEntries m.buckets).length
      ((HM.liveEntries m.buckets).length + 2) m.buckets.length = 0 := by omega
    simp [HM.rehash, isEmpty_eq_false_of_WF w, hc0, hr, hur, bind, Except.bind, pure,
      Except.pure]
  · intro k
    apply Option.ext
    intro v
    rw [har, habs0]
    constructor
    · rintro (hm | hf)
      · obtain ⟨j, hj⟩ := mem_liveEntries.1 hm
        exact w.absGet_of_slot hj
      · simp at hf
    · intro hg
      exact Or.inl (mem_liveEntries.2 (slot_of_absGet_eq_some hg))
  · rw [hur, hcr]
    have := (Nat.div_lt_iff_lt_mul hcpos).1 hlow
    unfold LOW_WATERMARK at this
    unfold INIT_SIZE at hcap
    omega

/-! ### `hashmap_put2` -/

theorem Inv.put_spec {h : α → Nat} {m : HM α β} (hinv : Inv h m) (k : α) (v : β) :
    ∃ m', HM.put h m k v = .ok m' ∧ WF h m' ∧
      ∀ k', absGet m' k' = if k' = k then some v else absGet m k' := by
  rcases hinv with ⟨h0, hu⟩ | w
  · have hb : m.buckets = [] := List.eq_nil_of_length_eq_zero h0
    have w0 := WF_replicate (β := β) h (Nat.le_refl INIT_SIZE)
    have hroom : (⟨List.replicate INIT_SIZE .empty, 0⟩ : HM α β).used + 1 <
        (⟨List.replicate INIT_SIZE .empty, 0⟩ : HM α β).buckets.length := by
      simp only [List.length_replicate]; unfold INIT_SIZE; omega
    obtain ⟨p, hloop, w', _, habs', _⟩ := w0.insert_spec k v hroom
    refine ⟨_, ?_, w', ?_⟩
    · simp only [List.length_replicate] at hloop
      simp [HM.put, hb, hu, hloop, bind, Except.bind, pure, Except.pure]
    · intro k'
      rw [habs', absGet_of_length_zero h0]
      have : absGet (⟨List.replicate INIT_SIZE .empty, 0⟩ : HM α β) k' = none := by
        rw [absGet_eq_none_iff]; intro j; simp only [slotAt_replicate_empty]; simp
      rw [this]
  · by_cases hhigh : m.used * 100 / m.buckets.length ≥ HIGH_WATERMARK
    · obtain ⟨m2, hm2, w2, habs2, hroom2⟩ := w.rehash_spec
      obtain ⟨p, hloop, w', _, habs', _⟩ := w2.insert_spec k v hroom2
      refine ⟨_, ?_, w', ?_⟩
      · simp [HM.put, isEmpty_eq_false_of_WF w, hhigh, hm2, hloop, bind, Except.bind, pure,
          Except.pure]
      · intro k'; rw [habs', habs2]
    · have hroom : m.used + 1 < m.buckets.length := by
        have h1 := w.cap_ge
        have h2 : m.used * 100 / m.buckets.length < HIGH_WATERMARK := by omega
        have h3 := (Nat.div_lt_iff_lt_mul w.cap_pos).1 h2
        unfold INIT_SIZE at h1
        unfold HIGH_WATERMARK at h3
        omega
      obtain ⟨p, hloop, w', _, habs', _⟩ := w.insert_spec k v hroom
      refine ⟨_, ?_, w', habs'⟩
      simp [HM.put, isEmpty_eq_false_of_WF w, hhigh, hloop, bind, Except.bind, pure,
        Except.pure]

/-! ### Histories -/

theorem run_refines (h : α → Nat) (ops : List (Op α β)) :
    ∀ (m : HM α β) (A : AMap α β), Inv h m → (∀ k, absGet m k = A.get k) →
      ∃ s, run h m ops = .ok (s, (arun A ops).2) ∧ Inv h s ∧
        ∀ k, absGet s k = (arun A ops).1.get k := by
  induction ops with
  | nil =>
    intro m A hinv habs
    exact ⟨m, rfl, hinv, habs⟩
  | cons op ops ih =>
    intro m A hinv habs
    cases op with
    | put k v =>
      obtain ⟨m', hm', w', habs'⟩ := hinv.put_spec k v
      obtain ⟨s, hs, hinvs, habss⟩ := ih m' (A.put k v) (Or.inr w')
        (by intro k'; rw [habs', AMap.get_put, habs])
      refine ⟨s, ?_, hinvs, habss⟩
      simp [run, step, hm', hs, arun, bind, Except.bind, pure, Except.pure]
    | del k =>
      obtain ⟨m', hm', hinv', habs'⟩ := hinv.delete_spec k
      obtain ⟨s, hs, hinvs, habss⟩ := ih m' (A.erase k) hinv'
        (by intro k'; rw [habs', AMap.get_erase, habs])
      refine ⟨s, ?_, hinvs, habss⟩
      simp [run, step, hm', hs, arun, bind, Except.bind, pure, Except.pure]
    | get k =>
      obtain ⟨s, hs, hinvs, habss⟩ := ih m A hinv habs
      refine ⟨s, ?_, hinvs, habss⟩
      simp [run, step, hinv.get_eq k, hs, arun, habs k, bind, Except.bind, pure, Except.pure]

theorem arun_append (ops1 ops2 : List (Op α β)) : ∀ A : AMap α β,
    arun A (ops1 ++ ops2) =
      ((arun (arun A ops1).1 ops2).1, (arun A ops1).2 ++ (arun (arun A ops1).1 ops2).2) := by
  induction ops1 with
  | nil => intro A; simp [arun]
  | cons op ops ih =>
    intro A
    cases op with
    | put k v => simp [arun, ih]
    | del k => simp [arun, ih]
    | get k => simp [arun, ih]

/-- the abstract dictionary after a history answers `k` with the last write to `k`
    (the fold is `Props.C17.lastWrite` started from the initial answer) -/
theorem arun_get_eq_foldl (ops : List (Op α β)) (k : α) : ∀ A : AMap α β,
    (arun A ops).1.get k =
      ops.foldl (fun acc op => match op with
        | .put k' v => if k' = k then some v else acc
        | .del k' => if k' = k then none else acc
        | .get _ => acc) (A.get k) := by
  induction ops with
  | nil => intro A; rfl
  | cons op ops ih =>
    intro A
    cases op with
    | put k' v =>
      simp only [arun, List.foldl_cons]
      rw [ih, AMap.get_put]
      by_cases hk : k' = k
      · subst hk; simp
      · have : ¬ k = k' := fun e => hk e.symm
        simp [hk, this]
    | del k' =>
      simp only [arun, List.foldl_cons]
      rw [ih, AMap.get_erase]
      by_cases hk : k' = k
      · subst hk; simp
      · have : ¬ k = k' := fun e => hk e.symm
        simp [hk, this]
    | get k' =>
      simp only [arun, List.foldl_cons]
      rw [ih]

end ChibiVerif.HashMap
