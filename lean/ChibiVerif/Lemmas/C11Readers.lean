/-
The string-literal readers (`read_string_literal`, `read_utf16_string_literal`, `read_utf32_string_literal`) and
`read_char_literal` of the hand model (Model/Literals.lean: `narrowLoop`, `utf16Loop`, `utf32Loop`, `readString`,
`readCharLiteral`) are equal, on every input, to the functions translated from tokenize.c (Gen/LitReadersGen.lean).
-/
import ChibiVerif.Lemmas.C11Translated

set_option linter.unusedSimpArgs false
set_option linter.unusedVariables false

namespace ChibiVerif.Lemmas.ReadersT
open ChibiVerif.Gen.Literals
open ChibiVerif.Literals
open ChibiVerif.LitReaders
open ChibiVerif.Lemmas.Literals
open ChibiVerif.Lemmas.Readers
open ChibiVerif.Lemmas.Translated
open ChibiVerif.Gen.LitReaders (readStringLiteral_loop1 readUtf16StringLiteral_loop1 readUtf32StringLiteral_loop1 strchrFrom)

theorem bsl_test (b : Byte) : (b.signExtend 32 = 0x5C#32) ↔ b = 92#8 := (sext_eq_iff b).2.2.2.2

theorem zero_test (b : Byte) : (b.signExtend 32 = 0#32) ↔ b = 0#8 := (sext_eq_iff b).2.2.2.1

theorem decodeAt_eq (p : List Byte) (i : Nat) :
    decodeAt p i = match decodeUtf8 (p.drop i) with
      | .error _ => .error .invalidUtf8
      | .ok r => .ok r := by
  unfold decodeAt
  cases decodeUtf8 (p.drop i) <;> rfl

theorem decodeLead_len (x : List Byte) (len : Nat) (c0 : BitVec 32) (h : decodeLead x = some (len, c0)) : 1 ≤ len := by
  unfold decodeLead at h
  split at h
  · injection h with h; injection h with h _; omega
  · split at h
    · injection h with h; injection h with h _; omega
    · split at h
      · injection h with h; injection h with h _; omega
      · simp at h

theorem decode_len_pos (x : List Byte) (c : BitVec 32) (n : Nat) (h : decodeUtf8 x = .ok (c, n)) : 1 ≤ n := by
  unfold decodeUtf8 at h
  by_cases ha : ((byteAt x 0).zeroExtend 32).toInt < (0x80#32).toInt
  · rw [if_pos ha] at h
    injection h with h; injection h with _ h; omega
  · rw [if_neg ha] at h
    cases hl : decodeLead x with
    | none => rw [hl] at h; simp at h
    | some v =>
      obtain ⟨len, c0⟩ := v
      rw [hl] at h
      simp only at h
      cases hd : decodeCont x (len - 1) 1 c0 with
      | error e => rw [hd] at h; simp [Except.map] at h
      | ok w =>
        rw [hd] at h
        simp only [Except.map] at h
        injection h with h; injection h with _ h
        have := decodeLead_len x len c0 hl
        omega

-- ------------------------------------------------------------------ the three loops

theorem narrowLoop_eq (p : List Byte) (endp : Nat) : ∀ (fuel i : Nat) (acc : List Nat), endp - i < fuel →
    narrowLoop p endp fuel i acc = (readStringLiteral_loop1 p endp fuel i acc).mapError ofReadErr := by
  intro fuel
  induction fuel with
  | zero => intro i acc h; omega
  | succ fuel ih =>
    intro i acc h
    rw [narrowLoop, readStringLiteral_loop1]
    by_cases hi : i < endp
    · rw [if_pos hi, if_pos hi]
      simp only [bsl_test]
      by_cases hb : byteAt p i = 92#8
      · rw [if_pos hb, if_pos hb, readEscapedChar_eq]
        cases hr : ChibiVerif.Gen.LitReaders.readEscapedChar (p.drop (i + 1)) with
        | error e => simp [Except.mapError, bind, Except.bind]
        | ok v =>
          obtain ⟨c, n⟩ := v
          simp only [Except.mapError, bind, Except.bind]
          exact ih _ _ (by omega)
      · rw [if_neg hb, if_neg hb]
        exact ih _ _ (by omega)
    · rw [if_neg hi, if_neg hi]; rfl

theorem utf16_push (c : BitVec 32) (acc : List Nat) :
    ((utf16Units c).map BitVec.toNat).reverse ++ acc =
      if c < 0x10000#32 then (c.setWidth 16).toNat :: acc
      else ((0xDC00#32 + ((c - 0x10000#32) &&& 0x3FF#32)).setWidth 16).toNat ::
           ((0xD800#32 + (((c - 0x10000#32) >>> 10) &&& 0x3FF#32)).setWidth 16).toNat :: acc := by
  unfold utf16Units
  split <;> simp

theorem utf16Loop_eq (p : List Byte) (endp : Nat) : ∀ (fuel i : Nat) (acc : List Nat), endp - i < fuel →
    utf16Loop p endp fuel i acc = (readUtf16StringLiteral_loop1 p endp fuel i acc).mapError ofReadErr := by
  intro fuel
  induction fuel with
  | zero => intro i acc h; omega
  | succ fuel ih =>
    intro i acc h
    rw [utf16Loop, readUtf16StringLiteral_loop1]
    by_cases hi : i < endp
    · rw [if_pos hi, if_pos hi]
      simp only [bsl_test]
      by_cases hb : byteAt p i = 92#8
      · rw [if_pos hb, if_pos hb, readEscapedChar_eq]
        cases hr : ChibiVerif.Gen.LitReaders.readEscapedChar (p.drop (i + 1)) with
        | error e => simp [Except.mapError, bind, Except.bind]
        | ok v =>
          obtain ⟨c, n⟩ := v
          simp only [Except.mapError, bind, Except.bind]
          exact ih _ _ (by omega)
      · rw [if_neg hb, if_neg hb, decodeAt_eq]
        cases hd : decodeUtf8 (p.drop i) with
        | error e => simp [Except.mapError, bind, Except.bind, ofReadErr]
        | ok v =>
          obtain ⟨c, n⟩ := v
          have hn := decode_len_pos _ _ _ hd
          simp only [bind, Except.bind, utf16_push]
          by_cases hc : c < 0x10000#32
          · simp only [hc, if_true]; exact ih _ _ (by omega)
          · simp only [hc, if_false]; exact ih _ _ (by omega)
    · rw [if_neg hi, if_neg hi]; rfl

theorem utf32Loop_eq (p : List Byte) (endp : Nat) : ∀ (fuel i : Nat) (acc : List Nat), endp - i < fuel →
    utf32Loop p endp fuel i acc = (readUtf32StringLiteral_loop1 p endp fuel i acc).mapError ofReadErr := by
  intro fuel
  induction fuel with
  | zero => intro i acc h; omega
  | succ fuel ih =>
    intro i acc h
    rw [utf32Loop, readUtf32StringLiteral_loop1]
    by_cases hi : i < endp
    · rw [if_pos hi, if_pos hi]
      simp only [bsl_test]
      by_cases hb : byteAt p i = 92#8
      · rw [if_pos hb, if_pos hb, readEscapedChar_eq]
        cases hr : ChibiVerif.Gen.LitReaders.readEscapedChar (p.drop (i + 1)) with
        | error e => simp [Except.mapError, bind, Except.bind]
        | ok v =>
          obtain ⟨c, n⟩ := v
          simp only [Except.mapError, bind, Except.bind]
          exact ih _ _ (by omega)
      · rw [if_neg hb, if_neg hb, decodeAt_eq]
        cases hd : decodeUtf8 (p.drop i) with
        | error e => simp [Except.mapError, bind, Except.bind, ofReadErr]
        | ok v =>
          obtain ⟨c, n⟩ := v
          have hn := decode_len_pos _ _ _ hd
          simp only [bind, Except.bind]
          exact ih _ _ (by omega)
    · rw [if_neg hi, if_neg hi]; rfl

-- ------------------------------------------------------------------ the whole readers

/-- the token the hand model builds from what the translated reader returns -/
def mkTok (ty : Ty) (p : List Byte) (r : List Nat × Nat) : StrTok := ⟨ty, r.1, r.2, p.take r.2⟩

/-- the translated reader for each `StrReader` of the dispatch table -/
def readerT : StrReader → List Byte → Nat → Except ChibiVerif.Gen.LitReaders.ReadErr (List Nat × Nat)
  | .narrow => ChibiVerif.Gen.LitReaders.readStringLiteral
  | .utf16 => ChibiVerif.Gen.LitReaders.readUtf16StringLiteral
  | .utf32 => ChibiVerif.Gen.LitReaders.readUtf32StringLiteral

/-- `read_string_literal` / `read_utf16_string_literal` / `read_utf32_string_literal`: hand model = translation -/
theorem readString_eq (r : StrReader) (ty : Ty) (p : List Byte) (q : Nat) :
    readString r ty p q = ((readerT r p q).mapError ofReadErr).map (mkTok ty p) := by
  unfold readString
  rw [stringLiteralEnd_eq]
  cases r with
  | narrow =>
    simp only [readerT, ChibiVerif.Gen.LitReaders.readStringLiteral]
    cases hs : ChibiVerif.Gen.LitReaders.stringLiteralEnd p (q + 1) with
    | error e => simp [Except.mapError, Except.map, bind, Except.bind]
    | ok endp =>
      simp only [Except.mapError, bind, Except.bind]
      rw [narrowLoop_eq p endp (endp + 1) (q + 1) [] (by omega)]
      cases ChibiVerif.Gen.LitReaders.readStringLiteral_loop1 p endp (endp + 1) (q + 1) [] <;>
        simp [Except.mapError, Except.map, mkTok, pure, Except.pure]
  | utf16 =>
    simp only [readerT, ChibiVerif.Gen.LitReaders.readUtf16StringLiteral]
    cases hs : ChibiVerif.Gen.LitReaders.stringLiteralEnd p (q + 1) with
    | error e => simp [Except.mapError, Except.map, bind, Except.bind]
    | ok endp =>
      simp only [Except.mapError, bind, Except.bind]
      rw [utf16Loop_eq p endp (endp + 1) (q + 1) [] (by omega)]
      cases ChibiVerif.Gen.LitReaders.readUtf16StringLiteral_loop1 p endp (endp + 1) (q + 1) [] <;>
        simp [Except.mapError, Except.map, mkTok, pure, Except.pure]
  | utf32 =>
    simp only [readerT, ChibiVerif.Gen.LitReaders.readUtf32StringLiteral]
    cases hs : ChibiVerif.Gen.LitReaders.stringLiteralEnd p (q + 1) with
    | error e => simp [Except.mapError, Except.map, bind, Except.bind]
    | ok endp =>
      simp only [Except.mapError, bind, Except.bind]
      rw [utf32Loop_eq p endp (endp + 1) (q + 1) [] (by omega)]
      cases ChibiVerif.Gen.LitReaders.readUtf32StringLiteral_loop1 p endp (endp + 1) (q + 1) [] <;>
        simp [Except.mapError, Except.map, mkTok, pure, Except.pure]

-- ------------------------------------------------------------------ read_char_literal

theorem findQuote_eq (p : List Byte) : ∀ (fuel i : Nat), findQuote p fuel i = strchrFrom p 39#8 fuel i := by
  intro fuel
  induction fuel with
  | zero => intro i; rfl
  | succ fuel ih => intro i; simp only [findQuote, strchrFrom, ih]

/-- `read_char_literal`: hand model = translation -/
theorem readCharLiteral_eq (p : List Byte) (q : Nat) :
    readCharLiteral p q = (ChibiVerif.Gen.LitReaders.readCharLiteral p q).mapError ofReadErr := by
  unfold readCharLiteral ChibiVerif.Gen.LitReaders.readCharLiteral
  simp only [bsl_test, zero_test, findQuote_eq, readEscapedChar_eq, decodeAt_eq]
  by_cases h0 : byteAt p (q + 1) = 0#8
  · simp [h0, throw, throwThe, MonadExceptOf.throw, bind, Except.bind, Except.mapError, ofReadErr]
  · simp only [h0, if_false, pure, Except.pure, bind, Except.bind]
    by_cases hb : byteAt p (q + 1) = 92#8
    · by_cases h1 : byteAt p (q + 1 + 1) = 0#8
      · simp [hb, h1, throw, throwThe, MonadExceptOf.throw, Except.mapError, ofReadErr]
      · simp only [hb, h1, and_false, true_and, if_false, if_true]
        cases hr : ChibiVerif.Gen.LitReaders.readEscapedChar (p.drop (q + 1 + 1)) with
        | error e => simp [Except.mapError]
        | ok v =>
          obtain ⟨c, n⟩ := v
          simp only [Except.mapError]
          cases strchrFrom p 39#8 (p.length + 1) (q + 1 + 1 + n) <;>
            simp [throw, throwThe, MonadExceptOf.throw, Except.mapError, ofReadErr]
    · simp only [hb, false_and, if_false]
      cases hd : decodeUtf8 (p.drop (q + 1)) with
      | error e => simp [Except.mapError, ofReadErr]
      | ok v =>
        obtain ⟨c, n⟩ := v
        simp only
        cases strchrFrom p 39#8 (p.length + 1) (q + 1 + n) <;>
          simp [throw, throwThe, MonadExceptOf.throw, Except.mapError, ofReadErr]

end ChibiVerif.Lemmas.ReadersT
