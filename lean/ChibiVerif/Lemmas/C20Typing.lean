/-
C20: the typing side condition of the full statements is defined in Model/C20Scope.lean
(`typedE/typedA/typedS`); this module only keeps the import path of earlier revisions.
-/
import ChibiVerif.Lemmas.C20Induction
