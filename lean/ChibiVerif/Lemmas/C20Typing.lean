/-
C20: the typing side condition of the full statements, for every node kind.

`typedE/typedA/typedS` say that the long-double-ness of every node's type agrees with that of its
operands the way `add_type` (type.c) and the parser build trees.  The x87 half of C20 ("+1 iff the
node's type is long double") is meaningless on trees `parse()` cannot produce (a `long double` ADD
with an `int` operand would pop a register nobody pushed).  The predicates are decidable; the
check runs them on every tree the real front end dumps (`drv_c20 scope`), so the hypothesis of
the theorems is validated against the implementation, not assumed.
-/
import ChibiVerif.Lemmas.C20Induction

namespace ChibiVerif.Lemmas.C20
open ChibiVerif ChibiVerif.Codegen ChibiVerif.Ast

def isNull : Node → Bool
  | .null => true
  | _ => false

mutual
def typedE (env : Env) : Node → Bool
  | .nullExpr i => !isLD i.ty
  | .num _ _ _ _ _ _ => true
  | .neg i lhs => typedE env lhs && (isLD i.ty == isLD lhs.ty?)
  | .var _ _ => true
  | .member _ lhs _ => typedA env lhs
  | .deref _ lhs => typedE env lhs && !isLD lhs.ty?
  | .addr i lhs => typedA env lhs && !isLD i.ty
  | .assign i lhs rhs => typedA env lhs && typedE env rhs && (isLD i.ty == isLD rhs.ty?) && bfOK env lhs
  | .stmtExpr i body => typedBody env body (isLD i.ty)
  | .comma i lhs rhs => typedE env lhs && typedE env rhs && (isLD i.ty == isLD rhs.ty?)
  | .cast _ lhs => typedE env lhs
  | .memzero i _ => !isLD i.ty
  | .cond i c t e => typedE env c && typedE env t && typedE env e && (isLD i.ty == isLD t.ty?)
      && (isLD i.ty == isLD e.ty?)
  | .not i lhs => typedE env lhs && !isLD i.ty
  | .bitnot i lhs => typedE env lhs && !isLD lhs.ty? && !isLD i.ty
  | .logand i lhs rhs => typedE env lhs && typedE env rhs && !isLD i.ty
  | .logor i lhs rhs => typedE env lhs && typedE env rhs && !isLD i.ty
  | .funcall _ lhs _ _ args => typedE env lhs && !isLD lhs.ty? && typedArgs env args
  | .labelVal i _ _ => !isLD i.ty
  | .cas i addr old new => typedE env addr && typedE env old && typedE env new && !isLD addr.ty?
      && !isLD old.ty? && !isLD new.ty? && !isLD i.ty
  | .exch i lhs rhs => typedE env lhs && typedE env rhs && !isLD lhs.ty? && !isLD rhs.ty? && !isLD i.ty
  | .binop i op lhs rhs => typedE env lhs && typedE env rhs && notNull lhs && binopTyped i op lhs rhs
  | _ => false
def typedA (env : Env) : Node → Bool
  | .var _ _ => true
  | .deref _ lhs => typedE env lhs && !isLD lhs.ty?
  | .comma _ lhs rhs => typedE env lhs && typedA env rhs
  | .member _ lhs _ => typedA env lhs
  | .vlaPtr _ _ => true
  | .assign _ lhs rhs => typedA env lhs && typedE env rhs && !isLD rhs.ty? && bfOK env lhs
  | .cond i c t e => typedE env c && typedE env t && typedE env e && !isLD t.ty? && !isLD e.ty?
      && !isLD i.ty
  | .funcall _ lhs _ _ args => typedE env lhs && !isLD lhs.ty? && typedArgs env args
  | _ => false
def typedS (env : Env) : Node → Bool
  | .if_ _ c t e => typedE env c && typedS env t && (isNull e || typedS env e)
  | .for_ _ init c inc t _ _ => (isNull init || typedS env init) && (isNull c || typedE env c)
      && (isNull inc || typedE env inc) && typedS env t
  | .do_ _ t c _ _ => typedS env t && typedE env c
  | .switch_ _ c t _ _ _ => typedE env c && !isLD c.ty? && typedS env t
  | .case_ _ _ _ _ lhs => typedS env lhs
  | .block _ body => typedSs env body
  | .goto_ _ _ _ => true
  | .gotoExpr _ lhs => typedE env lhs && !isLD lhs.ty?
  | .label _ _ _ lhs => typedS env lhs
  | .ret _ lhs => isNull lhs || typedE env lhs
  | .exprStmt _ lhs => typedE env lhs
  | .asm_ _ _ => true
  | _ => false
def typedSs (env : Env) : NodeList → Bool
  | .nil => true
  | .cons n rest => typedS env n && typedSs env rest
/-- the body of a statement expression whose value is (`ld = true`) / is not a long double -/
def typedBody (env : Env) : NodeList → Bool → Bool
  | .nil, ld => !ld
  | .cons (.exprStmt _ lhs) .nil, ld => typedE env lhs && (ld == isLD lhs.ty?)
  | .cons n rest, ld => typedS env n && typedBody env rest ld
def typedArgs (env : Env) : NodeList → Bool
  | .nil => true
  | .cons a rest => typedE env a && typedArgs env rest
end

/-! counting, for the scope report of the driver -/

instance : Add (Nat × Nat) := ⟨fun a b => (a.1 + b.1, a.2 + b.2)⟩

mutual
/-- (expression statements in the tree, those in scope of the `_partial` theorems) -/
def countStmts (env : Env) : Node → Nat × Nat
  | .if_ _ _ t e => countStmts env t + countStmts env e + (1, 0)
  | .for_ _ init _ _ t _ _ => countStmts env init + countStmts env t + (1, 0)
  | .do_ _ t _ _ _ => countStmts env t + (1, 0)
  | .switch_ _ _ t _ _ _ => countStmts env t + (1, 0)
  | .case_ _ _ _ _ lhs => countStmts env lhs + (1, 0)
  | .block _ body => countStmtList env body
  | .label _ _ _ lhs => countStmts env lhs + (1, 0)
  | .exprStmt i lhs => (1, if covS env (.exprStmt i lhs) then 1 else 0)
  | .asm_ _ _ => (1, 1)
  | .null => (0, 0)
  | _ => (1, 0)
def countStmtList (env : Env) : NodeList → Nat × Nat
  | .nil => (0, 0)
  | .cons n rest => countStmts env n + countStmtList env rest
end

end ChibiVerif.Lemmas.C20
