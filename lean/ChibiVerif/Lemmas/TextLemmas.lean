/-
Helper lemmas for the C11 text-phase theorems (Model/Text.lean against the phase 1-2 wording of
C11 5.1.1.2 in Spec/LiteralsSpec.lean).
-/
import ChibiVerif.Model.Text
import ChibiVerif.Spec.LiteralsSpec
import ChibiVerif.Lemmas.LiteralsLemmas

set_option linter.unusedSimpArgs false

namespace ChibiVerif.Lemmas.Text
open ChibiVerif.Text
open ChibiVerif.Gen.Literals
open ChibiVerif.Spec.Literals
open ChibiVerif.Literals (Byte isXDigit fromHex isDigit)
open ChibiVerif.Lemmas.Literals

-- ------------------------------------------------------------------ canonicalize_newline

theorem cr_ne_lf : CR ≠ LF := by decide
theorem lf_ne_cr : LF ≠ CR := by decide

theorem canon_lines (t : List Byte) : splitOn LF (canonicalizeNewline t) = splitLines CR LF t := by
  induction t using canonicalizeNewline.induct with
  | case1 => rfl
  | case2 => simp [canonicalizeNewline, splitOn, splitLines]
  | case3 a h =>
    by_cases h2 : a = LF
    · subst h2; simp [canonicalizeNewline, splitOn, splitLines, h]
    · simp [canonicalizeNewline, splitOn, splitLines, consLine, h, h2]
  | case4 rest ih => simp [canonicalizeNewline, splitOn, splitLines, ih]
  | case5 b rest h ih => simp [canonicalizeNewline, splitOn, splitLines, ih, h]
  | case6 a b rest h ih =>
    by_cases h2 : a = LF
    · subst h2; simp [canonicalizeNewline, splitOn, splitLines, ih, h]
    · simp [canonicalizeNewline, splitOn, splitLines, ih, h, h2]

theorem canon_no_cr (t : List Byte) : CR ∉ canonicalizeNewline t := by
  induction t using canonicalizeNewline.induct with
  | case1 => simp [canonicalizeNewline]
  | case2 => simp [canonicalizeNewline, cr_ne_lf]
  | case3 a h => simp [canonicalizeNewline, h]; exact fun h' => h h'.symm
  | case4 rest ih => simp [canonicalizeNewline, ih, cr_ne_lf]
  | case5 b rest h ih => simp [canonicalizeNewline, h, cr_ne_lf]; simpa using ih
  | case6 a b rest h ih => simp [canonicalizeNewline, h]; exact ⟨fun h' => h h'.symm, by simpa using ih⟩

/-- a text without CR is unchanged -/
theorem canon_id (t : List Byte) (h : CR ∉ t) : canonicalizeNewline t = t := by
  induction t using canonicalizeNewline.induct with
  | case1 => rfl
  | case2 => simp at h
  | case3 a h1 => simp [canonicalizeNewline, h1]
  | case4 rest ih => simp at h
  | case5 b rest h1 ih => simp at h
  | case6 a b rest h1 ih =>
    simp [canonicalizeNewline, h1]
    exact ih (fun hm => h (List.mem_cons_of_mem _ hm))

-- ------------------------------------------------------------------ remove_backslash_newline

theorem bsl_ne_lf : BSL ≠ LF := by decide
theorem lf_ne_bsl : LF ≠ BSL := by decide

theorem splitOn_ne_nil {α : Type} [DecidableEq α] (lf : α) (x : List α) : ∃ l ls, splitOn lf x = l :: ls := by
  cases x with
  | nil => exact ⟨[], [], rfl⟩
  | cons a rest =>
    simp only [splitOn]
    by_cases h : a = lf
    · simp [h]
    · simp only [h, if_false]
      cases hs : splitOn lf rest with
      | nil => exact ⟨[a], [], rfl⟩
      | cons l ls => exact ⟨a :: l, ls, rfl⟩

theorem splitOn_replicate (x : List Byte) (n : Nat) :
    splitOn LF (List.replicate n LF ++ x) = List.replicate n [] ++ splitOn LF x := by
  induction n with
  | zero => simp
  | succ n ih => simp [List.replicate_succ, splitOn, ih]

theorem filter_replicate_nil (n : Nat) (ls : List (List Byte)) :
    (List.replicate n [] ++ ls).filter (· ≠ []) = ls.filter (· ≠ []) := by
  induction n with
  | zero => simp
  | succ n ih => simp [List.replicate_succ, ih]

/-- all lines without the empty ones, from `logicalLines` -/
theorem filter_of_logical {a b : List (List Byte)} (h : logicalLines a = logicalLines b) :
    a.filter (· ≠ []) = b.filter (· ≠ []) := by
  cases a with
  | nil => cases b with
    | nil => rfl
    | cons l ls => simp [logicalLines] at h
  | cons l ls => cases b with
    | nil => simp [logicalLines] at h
    | cons l' ls' =>
      simp only [logicalLines, List.cons.injEq] at h
      simp only [List.filter_cons, h.1, h.2]

theorem splice_lines (t : List Byte) (n : Nat) :
    logicalLines (splitOn LF (removeBackslashNewlineAux t n)) = logicalLines (splitOn LF (unsplice BSL LF t)) := by
  induction t, n using removeBackslashNewlineAux.induct with
  | case1 n =>
    have := splitOn_replicate [] n
    simp only [List.append_nil] at this
    simp only [removeBackslashNewlineAux, unsplice, this, splitOn]
    cases n with
    | zero => rfl
    | succ n => simp [List.replicate_succ, logicalLines]
  | case2 a n =>
    have := splitOn_replicate [] n
    simp only [List.append_nil] at this
    simp only [removeBackslashNewlineAux, unsplice]
    by_cases h : a = LF
    · subst h
      simp only [splitOn, if_true, this, logicalLines, List.cons.injEq, true_and]
      have := filter_replicate_nil n [[]]
      simp at this ⊢
    · simp only [splitOn, h, if_false, this]
      cases n with
      | zero => rfl
      | succ n =>
        simp only [List.replicate_succ, List.cons_append, consLine, logicalLines, List.cons.injEq, true_and]
        have := filter_replicate_nil n [[]]
        simp at this ⊢
  | case3 a b rest n h ih =>
    simp only [removeBackslashNewlineAux, unsplice, h, and_self, if_true]
    exact ih
  | case4 b rest n h ih =>
    have hb : ¬ (LF = BSL ∧ b = LF) := h
    simp only [removeBackslashNewlineAux, unsplice, hb, if_false, if_true, splitOn, splitOn_replicate, logicalLines,
      List.cons.injEq, true_and, filter_replicate_nil]
    exact filter_of_logical ih
  | case5 a b rest n h h2 ih =>
    simp only [removeBackslashNewlineAux, unsplice, h, h2, if_false, splitOn]
    obtain ⟨l1, ls1, e1⟩ := splitOn_ne_nil LF (removeBackslashNewlineAux (b :: rest) n)
    obtain ⟨l2, ls2, e2⟩ := splitOn_ne_nil LF (unsplice BSL LF (b :: rest))
    rw [e1, e2] at ih
    rw [e1, e2]
    simp only [logicalLines, consLine, List.cons.injEq] at ih ⊢
    refine ⟨?_, ih.2⟩
    simp [ih.1]

theorem splice_count (t : List Byte) (n : Nat) :
    (removeBackslashNewlineAux t n).count LF = t.count LF + n := by
  induction t, n using removeBackslashNewlineAux.induct with
  | case1 n => simp [removeBackslashNewlineAux]
  | case2 a n =>
    by_cases h : a = LF
    · subst h; simp [removeBackslashNewlineAux]; omega
    · simp [removeBackslashNewlineAux, h]
  | case3 a b rest n h ih =>
    simp only [removeBackslashNewlineAux, h, and_self, if_true, ih]
    simp [List.count_cons, h.1, h.2, bsl_ne_lf]; omega
  | case4 b rest n h ih =>
    have hb : ¬ (LF = BSL ∧ b = LF) := h
    simp only [removeBackslashNewlineAux, hb, if_false, if_true]
    simp [List.count_cons, List.count_append, ih]; omega
  | case5 a b rest n h h2 ih =>
    simp only [removeBackslashNewlineAux, h, h2, if_false]
    have h3 : ¬ LF = a := fun h' => h2 h'.symm
    simp [List.count_cons, ih, h2, h3] at ih ⊢

/-- a text without splices is unchanged -/
theorem unsplice_length (t : List Byte) : (unsplice BSL LF t).length ≤ t.length := by
  induction t using unsplice.induct BSL LF with
  | case1 => simp [unsplice]
  | case2 a => simp [unsplice]
  | case3 a b rest h ih => simp only [unsplice, h, and_self, if_true, List.length_cons]; omega
  | case4 a b rest h ih => simp only [unsplice, h, if_false, List.length_cons] at ih ⊢; omega

theorem splice_id_aux (t : List Byte) (n : Nat) (hn : n = 0) (h : unsplice BSL LF t = t) :
    removeBackslashNewlineAux t n = t := by
  induction t, n using removeBackslashNewlineAux.induct with
  | case1 n => subst hn; rfl
  | case2 a n => subst hn; rfl
  | case3 a b rest n hs ih =>
    exfalso
    have := unsplice_length rest
    simp only [unsplice, hs, and_self, if_true] at h
    rw [h] at this
    simp at this
    omega
  | case4 b rest n hs ih =>
    subst hn
    have hb : ¬ (LF = BSL ∧ b = LF) := hs
    simp only [unsplice, hb, if_false, List.cons.injEq, true_and] at h
    simp only [removeBackslashNewlineAux, hb, if_false, if_true, List.replicate_zero, List.nil_append, ih rfl h]
  | case5 a b rest n hs h2 ih =>
    subst hn
    simp only [unsplice, hs, if_false, List.cons.injEq, true_and] at h
    simp only [removeBackslashNewlineAux, hs, h2, if_false, ih rfl h]

/-- a text without splices is unchanged -/
theorem splice_id (t : List Byte) (h : unsplice BSL LF t = t) : removeBackslashNewline t = t :=
  splice_id_aux t 0 rfl h

-- ------------------------------------------------------------------ convert_universal_chars

theorem ucnStep_length (a : Byte) (rest : List Byte) : (ucnStep (a :: rest)).2.length < (a :: rest).length := by
  unfold ucnStep
  by_cases h : a = BSL
  · simp only [h, if_true]
    cases rest with
    | nil => simp
    | cons b rest' =>
      simp only
      split
      · split <;> simp [List.length_drop] <;> omega
      · split
        · split <;> simp [List.length_drop] <;> omega
        · simp only [List.length_cons]; omega
  · simp [h]

theorem cucAux_fuel : ∀ (f1 f2 : Nat) (p : List Byte), p.length ≤ f1 → p.length ≤ f2 →
    convertUniversalCharsAux f1 p = convertUniversalCharsAux f2 p := by
  intro f1
  induction f1 with
  | zero =>
    intro f2 p h1 h2
    have : p = [] := by cases p with | nil => rfl | cons a t => simp at h1
    subst this
    cases f2 <;> rfl
  | succ f1 ih =>
    intro f2 p h1 h2
    cases p with
    | nil => cases f2 <;> rfl
    | cons a rest =>
      cases f2 with
      | zero => simp at h2
      | succ f2 =>
        have hl := ucnStep_length a rest
        simp only [convertUniversalCharsAux]
        rw [ih f2 _ (by simp at h1 hl; omega) (by simp at h2 hl; omega)]

/-- text without backslashes is copied -/
theorem cuc_append (pre x : List Byte) (hpre : BSL ∉ pre) :
    convertUniversalChars (pre ++ x) = pre ++ convertUniversalChars x := by
  induction pre with
  | nil => rfl
  | cons a pre ih =>
    have ha : a ≠ BSL := fun h => hpre (by simp [h])
    have hp : BSL ∉ pre := fun h => hpre (List.mem_cons_of_mem _ h)
    unfold convertUniversalChars at ih ⊢
    simp only [List.cons_append, List.length_cons, convertUniversalCharsAux, ucnStep, ha, if_false]
    rw [ih hp]
    simp

theorem ruc_append (ds post : List Byte) : ∀ (n : Nat) (c : BitVec 32), ds.length = n →
    readUniversalChar (ds ++ post) n c = readUniversalChar ds n c := by
  induction ds with
  | nil => intro n c h; simp at h; subst h; simp [readUniversalChar]
  | cons d ds ih =>
    intro n c h
    cases n with
    | zero => simp at h
    | succ n =>
      simp only [List.cons_append, readUniversalChar]
      split
      · rfl
      · exact ih n _ (by simpa using h)

/-- value of a hexadecimal digit character -/
abbrev hexVal (b : Byte) : Nat := hexDigitValue b.toNat

theorem fromHex_eq (b : Byte) : isXDigit b = true → fromHex b = BitVec.ofNat 32 (hexVal b) ∧ hexVal b < 16 := by
  revert b; apply forall_byte; decide +kernel

theorem shl4_or_toNat (c : BitVec 32) (x : Nat) (hc : c.toNat < 2 ^ 28) (hx : x < 16) :
    ((c <<< 4) ||| BitVec.ofNat 32 x).toNat = c.toNat * 16 + x := by
  simp only [BitVec.toNat_or, BitVec.toNat_shiftLeft, BitVec.toNat_ofNat, Nat.shiftLeft_eq, Nat.reducePow] at *
  rw [or_eq_add_of_lt _ _ 4 (by omega) (by omega)]
  omega

theorem ruc_step (d : Byte) (ds : List Byte) (n : Nat) (c : BitVec 32) (hx : isXDigit d = true) :
    readUniversalChar (d :: ds) (n + 1) c = readUniversalChar ds n ((c <<< 4) ||| BitVec.ofNat 32 (hexVal d)) := by
  simp only [readUniversalChar, hx, Bool.not_true, Bool.false_eq_true, if_false, (fromHex_eq d hx).1]

theorem ruc4 (d0 d1 d2 d3 : Byte) (h0 : isXDigit d0 = true) (h1 : isXDigit d1 = true) (h2 : isXDigit d2 = true)
    (h3 : isXDigit d3 = true) :
    readUniversalChar [d0, d1, d2, d3] 4 0 =
      BitVec.ofNat 32 (digitsValue 16 [hexVal d0, hexVal d1, hexVal d2, hexVal d3]) := by
  rw [ruc_step _ _ _ _ h0, ruc_step _ _ _ _ h1, ruc_step _ _ _ _ h2, ruc_step _ _ _ _ h3]
  simp only [readUniversalChar]
  have b0 := (fromHex_eq d0 h0).2
  have b1 := (fromHex_eq d1 h1).2
  have b2 := (fromHex_eq d2 h2).2
  have b3 := (fromHex_eq d3 h3).2
  apply BitVec.eq_of_toNat_eq
  have e0 := shl4_or_toNat 0 (hexVal d0) (by decide) b0
  have e1 := shl4_or_toNat _ (hexVal d1) (by rw [e0]; simp; omega) b1
  have e2 := shl4_or_toNat _ (hexVal d2) (by rw [e1, e0]; simp; omega) b2
  have e3 := shl4_or_toNat _ (hexVal d3) (by rw [e2, e1, e0]; simp; omega) b3
  rw [e3, e2, e1, e0]
  simp [digitsValue]
  omega

theorem ruc8 (d0 d1 d2 d3 d4 d5 d6 d7 : Byte) (h0 : isXDigit d0 = true) (h1 : isXDigit d1 = true) (h2 : isXDigit d2 = true)
    (h3 : isXDigit d3 = true) (h4 : isXDigit d4 = true) (h5 : isXDigit d5 = true) (h6 : isXDigit d6 = true)
    (h7 : isXDigit d7 = true) :
    readUniversalChar [d0, d1, d2, d3, d4, d5, d6, d7] 8 0 =
      BitVec.ofNat 32 (digitsValue 16 [hexVal d0, hexVal d1, hexVal d2, hexVal d3, hexVal d4, hexVal d5, hexVal d6, hexVal d7]) := by
  rw [ruc_step _ _ _ _ h0, ruc_step _ _ _ _ h1, ruc_step _ _ _ _ h2, ruc_step _ _ _ _ h3,
    ruc_step _ _ _ _ h4, ruc_step _ _ _ _ h5, ruc_step _ _ _ _ h6, ruc_step _ _ _ _ h7]
  simp only [readUniversalChar]
  have b0 := (fromHex_eq d0 h0).2
  have b1 := (fromHex_eq d1 h1).2
  have b2 := (fromHex_eq d2 h2).2
  have b3 := (fromHex_eq d3 h3).2
  have b4 := (fromHex_eq d4 h4).2
  have b5 := (fromHex_eq d5 h5).2
  have b6 := (fromHex_eq d6 h6).2
  have b7 := (fromHex_eq d7 h7).2
  apply BitVec.eq_of_toNat_eq
  have e0 := shl4_or_toNat 0 (hexVal d0) (by decide) b0
  have e1 := shl4_or_toNat _ (hexVal d1) (by rw [e0]; simp; omega) b1
  have e2 := shl4_or_toNat _ (hexVal d2) (by rw [e1, e0]; simp; omega) b2
  have e3 := shl4_or_toNat _ (hexVal d3) (by rw [e2, e1, e0]; simp; omega) b3
  have e4 := shl4_or_toNat _ (hexVal d4) (by rw [e3, e2, e1, e0]; simp; omega) b4
  have e5 := shl4_or_toNat _ (hexVal d5) (by rw [e4, e3, e2, e1, e0]; simp; omega) b5
  have e6 := shl4_or_toNat _ (hexVal d6) (by rw [e5, e4, e3, e2, e1, e0]; simp; omega) b6
  have e7 := shl4_or_toNat _ (hexVal d7) (by rw [e6, e5, e4, e3, e2, e1, e0]; simp; omega) b7
  rw [e7, e6, e5, e4, e3, e2, e1, e0]
  simp [digitsValue]
  omega

/-- `\uXXXX`: replaced by the UTF-8 encoding of the value of the four digits -/
theorem cuc_ucn4 (pre post : List Byte) (d0 d1 d2 d3 : Byte) (hpre : BSL ∉ pre)
    (h0 : isXDigit d0 = true) (h1 : isXDigit d1 = true) (h2 : isXDigit d2 = true) (h3 : isXDigit d3 = true)
    (hv : digitsValue 16 [hexVal d0, hexVal d1, hexVal d2, hexVal d3] ≠ 0)
    (hv10 : digitsValue 16 [hexVal d0, hexVal d1, hexVal d2, hexVal d3] ≠ 10) :
    convertUniversalChars (pre ++ BSL :: 117#8 :: d0 :: d1 :: d2 :: d3 :: post) =
      pre ++ encodeUtf8 (BitVec.ofNat 32 (digitsValue 16 [hexVal d0, hexVal d1, hexVal d2, hexVal d3])) ++
        convertUniversalChars post := by
  rw [cuc_append _ _ hpre, List.append_assoc]
  congr 1
  have hr : readUniversalChar (d0 :: d1 :: d2 :: d3 :: post) 4 0 =
      BitVec.ofNat 32 (digitsValue 16 [hexVal d0, hexVal d1, hexVal d2, hexVal d3]) := by
    have := ruc_append [d0, d1, d2, d3] post 4 0 rfl
    simp only [List.cons_append, List.nil_append] at this
    rw [this, ruc4 _ _ _ _ h0 h1 h2 h3]
  have b0 := (fromHex_eq d0 h0).2
  have b1 := (fromHex_eq d1 h1).2
  have b2 := (fromHex_eq d2 h2).2
  have b3 := (fromHex_eq d3 h3).2
  have hne : BitVec.ofNat 32 (digitsValue 16 [hexVal d0, hexVal d1, hexVal d2, hexVal d3]) ≠ 0#32 := by
    intro h
    have := congrArg BitVec.toNat h
    simp [digitsValue] at this hv
    omega
  have hne10 : BitVec.ofNat 32 (digitsValue 16 [hexVal d0, hexVal d1, hexVal d2, hexVal d3]) ≠ 10#32 := by
    intro h
    have := congrArg BitVec.toNat h
    simp [digitsValue] at this hv10
    omega
  unfold convertUniversalChars
  simp only [List.length_cons, convertUniversalCharsAux, ucnStep, if_true, hr, hne, hne10, ne_eq, not_false_eq_true, and_self,
    List.drop_succ_cons, List.drop_zero]
  congr 1
  exact cucAux_fuel _ _ _ (by omega) (by omega)

/-- `\\UXXXXXXXX`: replaced by the UTF-8 encoding of the value of the eight digits -/
theorem cuc_ucn8 (pre post : List Byte) (d0 d1 d2 d3 d4 d5 d6 d7 : Byte) (hpre : BSL ∉ pre)
    (h0 : isXDigit d0 = true) (h1 : isXDigit d1 = true) (h2 : isXDigit d2 = true) (h3 : isXDigit d3 = true)
    (h4 : isXDigit d4 = true) (h5 : isXDigit d5 = true) (h6 : isXDigit d6 = true) (h7 : isXDigit d7 = true)
    (hv : digitsValue 16 [hexVal d0, hexVal d1, hexVal d2, hexVal d3, hexVal d4, hexVal d5, hexVal d6, hexVal d7] ≠ 0)
    (hv10 : digitsValue 16 [hexVal d0, hexVal d1, hexVal d2, hexVal d3, hexVal d4, hexVal d5, hexVal d6, hexVal d7] ≠ 10) :
    convertUniversalChars (pre ++ BSL :: 85#8 :: d0 :: d1 :: d2 :: d3 :: d4 :: d5 :: d6 :: d7 :: post) =
      pre ++ encodeUtf8 (BitVec.ofNat 32
          (digitsValue 16 [hexVal d0, hexVal d1, hexVal d2, hexVal d3, hexVal d4, hexVal d5, hexVal d6, hexVal d7])) ++
        convertUniversalChars post := by
  rw [cuc_append _ _ hpre, List.append_assoc]
  congr 1
  have hr : readUniversalChar (d0 :: d1 :: d2 :: d3 :: d4 :: d5 :: d6 :: d7 :: post) 8 0 =
      BitVec.ofNat 32 (digitsValue 16 [hexVal d0, hexVal d1, hexVal d2, hexVal d3, hexVal d4, hexVal d5, hexVal d6, hexVal d7]) := by
    have := ruc_append [d0, d1, d2, d3, d4, d5, d6, d7] post 8 0 rfl
    simp only [List.cons_append, List.nil_append] at this
    rw [this, ruc8 _ _ _ _ _ _ _ _ h0 h1 h2 h3 h4 h5 h6 h7]
  have b0 := (fromHex_eq d0 h0).2
  have b1 := (fromHex_eq d1 h1).2
  have b2 := (fromHex_eq d2 h2).2
  have b3 := (fromHex_eq d3 h3).2
  have b4 := (fromHex_eq d4 h4).2
  have b5 := (fromHex_eq d5 h5).2
  have b6 := (fromHex_eq d6 h6).2
  have b7 := (fromHex_eq d7 h7).2
  have hne : BitVec.ofNat 32
      (digitsValue 16 [hexVal d0, hexVal d1, hexVal d2, hexVal d3, hexVal d4, hexVal d5, hexVal d6, hexVal d7]) ≠ 0#32 := by
    intro h
    have := congrArg BitVec.toNat h
    simp [digitsValue] at this hv
    omega
  have hne10 : BitVec.ofNat 32
      (digitsValue 16 [hexVal d0, hexVal d1, hexVal d2, hexVal d3, hexVal d4, hexVal d5, hexVal d6, hexVal d7]) ≠ 10#32 := by
    intro h
    have := congrArg BitVec.toNat h
    simp [digitsValue] at this hv10
    omega
  have hu : (117#8 : Byte) ≠ 85#8 := by decide
  unfold convertUniversalChars
  simp only [List.length_cons, convertUniversalCharsAux, ucnStep, if_true, hr, hne, hne10, ne_eq, not_false_eq_true, and_self,
    List.drop_succ_cons, List.drop_zero, hu.symm, if_false]
  congr 1
  exact cucAux_fuel _ _ _ (by omega) (by omega)

end ChibiVerif.Lemmas.Text
