/-
`canonicalize_newline` and `remove_backslash_newline` rewrite the text in place.  Gen/LitReadersGen.lean holds their
translation with the exact array semantics (the buffer is threaded through every store; a store outside the text is
`none`).  This file proves that, on a text without NUL, the translated functions return `some` of what the functional
hand models of Model/Text.lean compute — so (1) the hand models *are* the code, and (2) every store of the two C loops
lands inside the text, behind the read position (memory safety of the in-place rewriting).
-/
import ChibiVerif.Lemmas.C11Translated
import ChibiVerif.Lemmas.C11Splice

set_option linter.unusedSimpArgs false
set_option linter.unusedVariables false

namespace ChibiVerif.Lemmas.Rewrite
open ChibiVerif.Gen.Literals
open ChibiVerif.Literals (Byte)
open ChibiVerif.Text
open ChibiVerif.Lemmas.Literals
open ChibiVerif.Lemmas.Readers
open ChibiVerif.Lemmas.Splice
open ChibiVerif.Lemmas.Text
open ChibiVerif.Lemmas.Translated
open ChibiVerif.Gen.LitReaders (storeAt fillAt terminateAt storeList canonicalizeNewline_loop1 removeBackslashNewline_loop1
  convertUniversalChars_loop1)

-- ------------------------------------------------------------------ the array: written part, gap, unread text

theorem byteAt_at (w g t : List Byte) (k : Nat) : byteAt (w ++ g ++ t) (w.length + g.length + k) = byteAt t k := by
  have : w.length + g.length + k = (w ++ g).length + k := by simp
  rw [this, byteAt_append_right]

theorem byteAt_at0 (w g t : List Byte) : byteAt (w ++ g ++ t) (w.length + g.length) = byteAt t 0 := by
  have := byteAt_at w g t 0
  simpa using this

theorem set_mid (w : List Byte) (x : Byte) (r : List Byte) (v : Byte) : (w ++ x :: r).set w.length v = w ++ v :: r := by
  induction w with
  | nil => rfl
  | cons a w ih => simp [List.set, ih]

/-- a store at the write index `|w|`, after at least one byte has been consumed: the gap keeps its length + consumed - 1 -/
theorem store_step (w g c t : List Byte) (v : Byte) (hc : c ≠ []) :
    ∃ g', g'.length + 1 = g.length + c.length ∧
      storeAt (w ++ g ++ (c ++ t)) w.length v = some ((w ++ [v]) ++ g' ++ t) := by
  have hne : g ++ c ≠ [] := by simp [hc]
  obtain ⟨x, g', hx⟩ : ∃ x g', g ++ c = x :: g' := by
    cases h : g ++ c with
    | nil => exact absurd h hne
    | cons x g' => exact ⟨x, g', rfl⟩
  refine ⟨g', ?_, ?_⟩
  · have := congrArg List.length hx
    simp only [List.length_append, List.length_cons] at this
    omega
  · have e : w ++ g ++ (c ++ t) = w ++ x :: (g' ++ t) := by
      rw [List.append_assoc w g, ← List.append_assoc g c t, hx]; rfl
    unfold storeAt
    rw [e, set_mid]
    simp

theorem terminate_at (w r : List Byte) : terminateAt (w ++ r) w.length = some w := by
  unfold terminateAt
  simp

theorem fill_at (v : Byte) : ∀ (n : Nat) (w g t : List Byte), n ≤ g.length →
    fillAt v n (w ++ g ++ t) w.length = some ((w ++ List.replicate n v) ++ g.drop n ++ t) := by
  intro n
  induction n with
  | zero => intro w g t _; simp [fillAt]
  | succ n ih =>
    intro w g t hn
    cases g with
    | nil => simp at hn
    | cons x g' =>
      have hs : storeAt (w ++ (x :: g') ++ t) w.length v = some ((w ++ [v]) ++ g' ++ t) := by
        have e : w ++ (x :: g') ++ t = w ++ x :: (g' ++ t) := by simp
        unfold storeAt
        rw [e, set_mid]
        simp
      simp only [fillAt, hs]
      have hl : w.length + 1 = (w ++ [v]).length := by simp
      rw [hl, ih (w ++ [v]) g' t (by simpa using hn)]
      simp [List.replicate_succ]

-- ------------------------------------------------------------------ byte tests as emitted by the translator

theorem sext_tests (b : Byte) :
    (b.signExtend 32 = 0xD#32 ↔ b = 13#8) ∧ (b.signExtend 32 = 0xA#32 ↔ b = 10#8) ∧ (b.signExtend 32 = 0x5C#32 ↔ b = 92#8) ∧
    (b.signExtend 32 ≠ 0#32 ↔ b ≠ 0#8) := by
  revert b; apply forall_byte; decide +kernel

theorem lf_byte : ((0xA#32 : BitVec 32).setWidth 8) = LF := by decide

theorem byteAt_nil (k : Nat) : byteAt ([] : List Byte) k = 0#8 := by simp [byteAt]

-- ------------------------------------------------------------------ canonicalize_newline

theorem canon_cons_ne (a : Byte) (t : List Byte) (h : a ≠ CR) : canonicalizeNewline (a :: t) = a :: canonicalizeNewline t := by
  cases t with
  | nil => simp [canonicalizeNewline, h]
  | cons b rest => simp [canonicalizeNewline, h]

theorem canon_cr_lf (t : List Byte) : canonicalizeNewline (CR :: LF :: t) = LF :: canonicalizeNewline t := by
  simp [canonicalizeNewline]

theorem canon_cr_other (t : List Byte) (h : byteAt t 0 ≠ LF) : canonicalizeNewline (CR :: t) = LF :: canonicalizeNewline t := by
  cases t with
  | nil => simp [canonicalizeNewline]
  | cons b rest =>
    have hb : b ≠ LF := by simpa [byteAt_zero] using h
    simp [canonicalizeNewline, hb]

theorem canon_loop : ∀ (fuel : Nat) (t w g : List Byte), (0#8 : Byte) ∉ t → t.length < fuel →
    canonicalizeNewline_loop1 fuel (w ++ g ++ t) (w.length + g.length) w.length = some (w ++ canonicalizeNewline t) := by
  intro fuel
  induction fuel with
  | zero => intro t w g _ h; omega
  | succ fuel ih =>
    intro t w g h0 hf
    cases t with
    | nil =>
      simp only [canonicalizeNewline_loop1, byteAt_at0, byteAt_nil, (sext_tests _).2.2.2, ne_eq, not_true_eq_false, if_false]
      rw [List.append_nil, terminate_at]
      simp [canonicalizeNewline]
    | cons a t' =>
      have ha0 : a ≠ 0#8 := fun h => h0 (by simp [h])
      have h0' : (0#8 : Byte) ∉ t' := fun h => h0 (List.mem_cons_of_mem _ h)
      have e0 : byteAt (w ++ g ++ a :: t') (w.length + g.length) = a := by rw [byteAt_at0]; rfl
      have e1 : byteAt (w ++ g ++ a :: t') (w.length + g.length + 1) = byteAt t' 0 := by
        rw [byteAt_at]; exact byteAt_succ a t' 0
      simp only [canonicalizeNewline_loop1, e0, e1, (sext_tests _).1, (sext_tests _).2.1, (sext_tests _).2.2.2, ne_eq, ha0,
        not_false_eq_true, if_true, lf_byte]
      by_cases hcr : a = 13#8
      · subst hcr
        by_cases hlf : byteAt t' 0 = 10#8
        · -- CR LF
          cases t' with
          | nil => simp [byteAt_nil] at hlf
          | cons b t'' =>
            have hb : b = LF := by simpa [byteAt_zero, LF] using hlf
            subst hb
            obtain ⟨g', hg', hs⟩ := store_step w g [13#8, LF] t'' LF (by simp)
            have hs' : storeAt (w ++ g ++ 13#8 :: LF :: t'') w.length LF = some ((w ++ [LF]) ++ g' ++ t'') := by simpa using hs
            simp only [hlf, and_self, if_true, hs']
            have i1 : w.length + g.length + 2 = (w ++ [LF]).length + g'.length := by simp at hg' ⊢; omega
            have j1 : w.length + 1 = (w ++ [LF]).length := by simp
            rw [i1, j1, ih t'' (w ++ [LF]) g' (fun h => h0' (List.mem_cons_of_mem _ h)) (by simp at hf; omega)]
            rw [show (13#8 : Byte) = CR from rfl, canon_cr_lf]
            simp
        · -- lone CR
          obtain ⟨g', hg', hs⟩ := store_step w g [13#8] t' LF (by simp)
          have hs' : storeAt (w ++ g ++ 13#8 :: t') w.length LF = some ((w ++ [LF]) ++ g' ++ t') := by simpa using hs
          simp only [hlf, and_false, if_false, if_true, hs']
          have i1 : w.length + g.length + 1 = (w ++ [LF]).length + g'.length := by simp at hg' ⊢; omega
          have j1 : w.length + 1 = (w ++ [LF]).length := by simp
          rw [i1, j1, ih t' (w ++ [LF]) g' h0' (by simp at hf; omega)]
          rw [show (13#8 : Byte) = CR from rfl, canon_cr_other t' hlf]
          simp
      · obtain ⟨g', hg', hs⟩ := store_step w g [a] t' a (by simp)
        have hs' : storeAt (w ++ g ++ a :: t') w.length a = some ((w ++ [a]) ++ g' ++ t') := by simpa using hs
        simp only [hcr, false_and, if_false, hs']
        have i1 : w.length + g.length + 1 = (w ++ [a]).length + g'.length := by simp at hg' ⊢; omega
        have j1 : w.length + 1 = (w ++ [a]).length := by simp
        rw [i1, j1, ih t' (w ++ [a]) g' h0' (by simp at hf; omega)]
        rw [canon_cons_ne a t' hcr]
        simp

/-- `canonicalize_newline`: the in-place C loop computes the functional hand model and never stores outside the text -/
theorem canonicalizeNewline_eq (t : List Byte) (h0 : (0#8 : Byte) ∉ t) :
    ChibiVerif.Gen.LitReaders.canonicalizeNewline t = some (canonicalizeNewline t) := by
  have := canon_loop (t.length + 1) t [] [] h0 (by omega)
  simpa [ChibiVerif.Gen.LitReaders.canonicalizeNewline] using this

-- ------------------------------------------------------------------ remove_backslash_newline

theorem rbn_splice (t : List Byte) (n : Nat) :
    removeBackslashNewlineAux (BSL :: LF :: t) n = removeBackslashNewlineAux t (n + 1) := by
  simp [removeBackslashNewlineAux]

theorem rbn_lf (t : List Byte) (n : Nat) :
    removeBackslashNewlineAux (LF :: t) n = LF :: (List.replicate n LF ++ removeBackslashNewlineAux t 0) := by
  cases t with
  | nil => simp [removeBackslashNewlineAux]
  | cons b rest =>
    have : ¬ (LF = BSL ∧ b = LF) := fun h => lf_ne_bsl h.1
    simp [removeBackslashNewlineAux, this]
where lf_ne_bsl : LF ≠ BSL := by decide

theorem rbn_other (a : Byte) (t : List Byte) (n : Nat) (hlf : a ≠ LF) (hs : ¬ (a = BSL ∧ byteAt t 0 = LF)) :
    removeBackslashNewlineAux (a :: t) n = a :: removeBackslashNewlineAux t n := by
  cases t with
  | nil => simp [removeBackslashNewlineAux]
  | cons b rest =>
    have : ¬ (a = BSL ∧ b = LF) := by simpa [byteAt_zero] using hs
    simp [removeBackslashNewlineAux, this, hlf]

theorem rbn_loop : ∀ (fuel : Nat) (t w g : List Byte) (n : Nat), (0#8 : Byte) ∉ t → t.length < fuel → n ≤ g.length →
    removeBackslashNewline_loop1 fuel (w ++ g ++ t) (w.length + g.length) w.length n =
      some (w ++ removeBackslashNewlineAux t n) := by
  intro fuel
  induction fuel with
  | zero => intro t w g n _ h; omega
  | succ fuel ih =>
    intro t w g n h0 hf hn
    cases t with
    | nil =>
      simp only [removeBackslashNewline_loop1, byteAt_at0, byteAt_nil, (sext_tests _).2.2.2, ne_eq, not_true_eq_false, if_false,
        lf_byte]
      rw [fill_at LF n w g [] hn]
      simp only
      have : w.length + n = (w ++ List.replicate n LF).length := by simp
      rw [this, List.append_assoc, terminate_at]
      simp [removeBackslashNewlineAux]
    | cons a t' =>
      have ha0 : a ≠ 0#8 := fun h => h0 (by simp [h])
      have h0' : (0#8 : Byte) ∉ t' := fun h => h0 (List.mem_cons_of_mem _ h)
      have e0 : byteAt (w ++ g ++ a :: t') (w.length + g.length) = a := by rw [byteAt_at0]; rfl
      have e1 : byteAt (w ++ g ++ a :: t') (w.length + g.length + 1) = byteAt t' 0 := by
        rw [byteAt_at]; exact byteAt_succ a t' 0
      simp only [removeBackslashNewline_loop1, e0, e1, (sext_tests _).2.1, (sext_tests _).2.2.1, (sext_tests _).2.2.2, ne_eq, ha0,
        not_false_eq_true, if_true, lf_byte]
      by_cases hsp : a = 92#8 ∧ byteAt t' 0 = 10#8
      · -- backslash newline: nothing is stored, the gap grows by two
        obtain ⟨ha, hb⟩ := hsp
        subst ha
        cases t' with
        | nil => simp [byteAt_nil] at hb
        | cons b t'' =>
          have hb' : b = LF := by simpa [byteAt_zero, LF] using hb
          subst hb'
          simp only [hb, and_self, if_true]
          have eb : w ++ g ++ 92#8 :: LF :: t'' = w ++ (g ++ [92#8, LF]) ++ t'' := by simp
          have i1 : w.length + g.length + 2 = w.length + (g ++ [92#8, LF]).length := by simp; omega
          rw [eb, i1, ih t'' w (g ++ [92#8, LF]) (n + 1) (fun h => h0' (List.mem_cons_of_mem _ h)) (by simp at hf; omega)
            (by simp; omega)]
          rw [show (92#8 : Byte) = BSL from rfl, rbn_splice]
      · simp only [hsp, if_false]
        by_cases hlf : a = 10#8
        · -- newline: stored, followed by the n pending newlines
          subst hlf
          obtain ⟨g', hg', hs⟩ := store_step w g [10#8] t' 10#8 (by simp)
          have hs' : storeAt (w ++ g ++ 10#8 :: t') w.length 10#8 = some ((w ++ [10#8]) ++ g' ++ t') := by simpa using hs
          have hgl : g'.length = g.length := by simp at hg'; omega
          simp only [if_true, hs']
          have j1 : w.length + 1 = (w ++ [10#8]).length := by simp
          rw [j1, fill_at LF n (w ++ [10#8]) g' t' (by omega)]
          simp only
          have i2 : w.length + g.length + 1 = ((w ++ [10#8]) ++ List.replicate n LF).length + (g'.drop n).length := by
            simp; omega
          have j2 : (w ++ [10#8]).length + n = ((w ++ [10#8]) ++ List.replicate n LF).length := by simp; omega
          rw [i2, j2, ih t' _ (g'.drop n) 0 h0' (by simp at hf; omega) (Nat.zero_le _)]
          rw [show (10#8 : Byte) = LF from rfl, rbn_lf]
          simp
        · obtain ⟨g', hg', hs⟩ := store_step w g [a] t' a (by simp)
          have hs' : storeAt (w ++ g ++ a :: t') w.length a = some ((w ++ [a]) ++ g' ++ t') := by simpa using hs
          have hgl : g'.length = g.length := by simp at hg'; omega
          simp only [hlf, if_false, hs']
          have i1 : w.length + g.length + 1 = (w ++ [a]).length + g'.length := by simp; omega
          have j1 : w.length + 1 = (w ++ [a]).length := by simp
          rw [i1, j1, ih t' (w ++ [a]) g' n h0' (by simp at hf; omega) (by omega)]
          rw [rbn_other a t' n hlf hsp]
          simp

/-- `remove_backslash_newline`: the in-place C loop computes the functional hand model and never stores outside the text -/
theorem removeBackslashNewline_eq (t : List Byte) (h0 : (0#8 : Byte) ∉ t) :
    ChibiVerif.Gen.LitReaders.removeBackslashNewline t = some (removeBackslashNewline t) := by
  have := rbn_loop (t.length + 1) t [] [] 0 h0 (by omega) (Nat.le_refl _)
  simpa [ChibiVerif.Gen.LitReaders.removeBackslashNewline, removeBackslashNewline] using this

-- ------------------------------------------------------------------ convert_universal_chars

theorem drop_at (w g t : List Byte) (k : Nat) : (w ++ g ++ t).drop (w.length + g.length + k) = t.drop k := by
  have : w.length + g.length + k = (w ++ g).length + k := by simp
  rw [this, List.drop_append]
  simp

/-- several stores at the write index, after at least as many bytes have been consumed -/
theorem store_list_step : ∀ (bs w g c t : List Byte), bs.length ≤ g.length + c.length →
    ∃ g', g'.length + bs.length = g.length + c.length ∧
      storeList bs (w ++ g ++ (c ++ t)) w.length = some ((w ++ bs) ++ g' ++ t) := by
  intro bs
  induction bs with
  | nil =>
    intro w g c t _
    exact ⟨g ++ c, by simp, by simp [storeList]⟩
  | cons b bs ih =>
    intro w g c t hl
    have hne : g ++ c ≠ [] := by
      intro h
      have h2 := congrArg List.length h
      simp only [List.length_append, List.length_nil] at h2
      simp only [List.length_cons] at hl
      omega
    obtain ⟨x, r, hx⟩ : ∃ x r, g ++ c = x :: r := by
      cases h : g ++ c with
      | nil => exact absurd h hne
      | cons x r => exact ⟨x, r, rfl⟩
    have hr : r.length + 1 = g.length + c.length := by
      have := congrArg List.length hx
      simp only [List.length_append, List.length_cons] at this
      omega
    have e : w ++ g ++ (c ++ t) = w ++ x :: (r ++ t) := by
      rw [List.append_assoc w g, ← List.append_assoc g c t, hx]; rfl
    have hs : storeAt (w ++ g ++ (c ++ t)) w.length b = some ((w ++ [b]) ++ r ++ ([] ++ t)) := by
      unfold storeAt
      rw [e, set_mid]
      simp
    obtain ⟨g', hg', hst⟩ := ih (w ++ [b]) r [] t (by
      simp only [List.length_cons] at hl
      simp only [List.length_nil, Nat.add_zero]
      omega)
    refine ⟨g', by
      have h1 := hg'
      simp only [List.length_nil, Nat.add_zero, List.length_cons] at h1 ⊢
      omega, ?_⟩
    simp only [storeList, hs]
    have hl1 : w.length + 1 = (w ++ [b]).length := by simp
    rw [hl1, hst]
    simp

theorem encode_length_le (c : BitVec 32) : (encodeUtf8 c).length ≤ 4 := by
  unfold encodeUtf8
  split
  · simp
  · split
    · simp
    · split <;> simp

theorem ends_lf_tail (a : Byte) (t : List Byte) (h : (a :: t) = [] ∨ (a :: t).getLast? = some LF) :
    t = [] ∨ t.getLast? = some LF := by
  cases t with
  | nil => left; rfl
  | cons b r =>
    right
    rcases h with h | h
    · simp at h
    · simpa [List.getLast?_cons_cons] using h

theorem ends_lf_drop : ∀ (k : Nat) (t : List Byte), (t = [] ∨ t.getLast? = some LF) →
    (t.drop k = [] ∨ (t.drop k).getLast? = some LF) := by
  intro k
  induction k with
  | zero => intro t h; simpa using h
  | succ k ih =>
    intro t h
    cases t with
    | nil => left; rfl
    | cons a t' =>
      simp only [List.drop_succ_cons]
      exact ih t' (ends_lf_tail a t' h)

theorem ucnStep_u (t : List Byte) :
    ucnStep (92#8 :: 117#8 :: t) =
      if readUniversalChar t 4 0 ≠ 0#32 ∧ readUniversalChar t 4 0 ≠ 10#32 then
        (encodeUtf8 (readUniversalChar t 4 0), t.drop 4)
      else ([92#8], 117#8 :: t) := by
  simp [ucnStep, BSL]

theorem ucnStep_U (t : List Byte) :
    ucnStep (92#8 :: 85#8 :: t) =
      if readUniversalChar t 8 0 ≠ 0#32 ∧ readUniversalChar t 8 0 ≠ 10#32 then
        (encodeUtf8 (readUniversalChar t 8 0), t.drop 8)
      else ([92#8], 85#8 :: t) := by
  have h1 : ¬ ((85#8 : Byte) = 117#8) := by decide
  simp [ucnStep, BSL, h1]

theorem cuc_loop : ∀ (fuel : Nat) (t w g : List Byte), (0#8 : Byte) ∉ t → (t = [] ∨ t.getLast? = some LF) → t.length < fuel →
    convertUniversalChars_loop1 fuel (w ++ g ++ t) (w.length + g.length) w.length = some (w ++ convertUniversalChars t) := by
  intro fuel
  induction fuel with
  | zero => intro t w g _ _ h; omega
  | succ fuel ih =>
    intro t w g h0 hend hf
    cases t with
    | nil =>
      simp only [convertUniversalChars_loop1, byteAt_at0, byteAt_nil, (sext_tests _).2.2.2, ne_eq, not_true_eq_false, if_false]
      rw [List.append_nil, terminate_at]
      simp [cuc_nil]
    | cons a t' =>
      have ha0 : a ≠ 0#8 := fun h => h0 (by simp [h])
      have h0' : (0#8 : Byte) ∉ t' := fun h => h0 (List.mem_cons_of_mem _ h)
      have hend' := ends_lf_tail a t' hend
      have e0 : byteAt (w ++ g ++ a :: t') (w.length + g.length) = a := by rw [byteAt_at0]; rfl
      have e1 : byteAt (w ++ g ++ a :: t') (w.length + g.length + 1) = byteAt t' 0 := by
        rw [byteAt_at]; exact byteAt_succ a t' 0
      have e00 : byteAt (w ++ g ++ a :: t') (w.length + g.length + 0) = a := by simpa using e0
      have ed : (w ++ g ++ a :: t').drop (w.length + g.length + 2) = t'.drop 1 := by
        rw [drop_at]; rfl
      -- the plain copy of one byte, used by three arms
      have copy1 : convertUniversalChars (a :: t') = a :: convertUniversalChars t' →
          (match storeAt (w ++ g ++ a :: t') w.length a with
            | none => none
            | some buf => convertUniversalChars_loop1 fuel buf (w.length + g.length + 1) (w.length + 1)) =
          some (w ++ convertUniversalChars (a :: t')) := by
        intro hc
        obtain ⟨g', hg', hs⟩ := store_step w g [a] t' a (by simp)
        have hs' : storeAt (w ++ g ++ a :: t') w.length a = some ((w ++ [a]) ++ g' ++ t') := by simpa using hs
        have i1 : w.length + g.length + 1 = (w ++ [a]).length + g'.length := by simp at hg' ⊢; omega
        have j1 : w.length + 1 = (w ++ [a]).length := by simp
        simp only [hs']
        rw [i1, j1, ih t' (w ++ [a]) g' h0' hend' (by simp at hf; omega), hc]
        simp
      simp only [convertUniversalChars_loop1, e0, e1, e00, ed, (sext_tests _).2.2.1, (sext_tests _).2.2.2, ne_eq, ha0,
        not_false_eq_true, if_true, ← readUniversalChar_eq]
      by_cases hbs : a = 92#8
      · subst hbs
        cases t' with
        | nil =>
          exfalso
          rcases hend with h | h
          · simp at h
          · simp [LF] at h
        | cons b t'' =>
          have hb0 : b ≠ 0#8 := fun h => h0' (by simp [h])
          have h0'' : (0#8 : Byte) ∉ t'' := fun h => h0' (List.mem_cons_of_mem _ h)
          simp only [byteAt_zero, List.drop_succ_cons, List.drop_zero, true_and]
          -- a universal character name with `n` digits after the letter `l`
          have ucn : ∀ (l : Byte) (n : Nat), b = l → (l = 117#8 ∧ n = 4 ∨ l = 85#8 ∧ n = 8) →
              (let c := readUniversalChar t'' n 0
               if c ≠ 0#32 ∧ c ≠ 10#32 then
                 match storeList (encodeUtf8 c) (w ++ g ++ 92#8 :: b :: t'') w.length with
                 | none => none
                 | some buf => convertUniversalChars_loop1 fuel buf (w.length + g.length + (n + 2)) (w.length + (encodeUtf8 c).length)
               else
                 match storeAt (w ++ g ++ 92#8 :: b :: t'') w.length 92#8 with
                 | none => none
                 | some buf => convertUniversalChars_loop1 fuel buf (w.length + g.length + 1) (w.length + 1)) =
              some (w ++ convertUniversalChars (92#8 :: b :: t'')) := by
            intro l n hbl hln
            subst hbl
            simp only
            by_cases hv : readUniversalChar t'' n 0 ≠ 0#32 ∧ readUniversalChar t'' n 0 ≠ 10#32
            · have hlen : n ≤ t''.length := by
                apply Nat.le_of_not_lt
                intro hl
                exact hv.1 (ruc_short n t'' 0 hl)
              have hsplit : (92#8 : Byte) :: b :: t'' = (92#8 :: b :: t''.take n) ++ t''.drop n := by simp
              obtain ⟨g', hg', hs⟩ := store_list_step (encodeUtf8 (readUniversalChar t'' n 0)) w g (92#8 :: b :: t''.take n)
                (t''.drop n) (by
                  have := encode_length_le (readUniversalChar t'' n 0)
                  simp only [List.length_cons, List.length_take]
                  rcases hln with ⟨_, hn⟩ | ⟨_, hn⟩ <;> omega)
              rw [← hsplit] at hs
              rw [if_pos hv]
              simp only [hs]
              have hcl : (92#8 :: b :: t''.take n).length = n + 2 := by simp [List.length_take]; omega
              have i1 : w.length + g.length + (n + 2) =
                  (w ++ encodeUtf8 (readUniversalChar t'' n 0)).length + g'.length := by
                simp only [List.length_append]; rw [hcl] at hg'; omega
              have j1 : w.length + (encodeUtf8 (readUniversalChar t'' n 0)).length =
                  (w ++ encodeUtf8 (readUniversalChar t'' n 0)).length := by simp
              rw [i1, j1, ih (t''.drop n) _ g' (fun h => h0'' (List.mem_of_mem_drop h))
                (ends_lf_drop n t'' (ends_lf_tail _ _ hend')) (by simp at hf ⊢; omega)]
              rw [cuc_cons (92#8 : Byte) (b :: t'')]
              rcases hln with ⟨hl, hn⟩ | ⟨hl, hn⟩
              · subst hl; subst hn
                rw [ucnStep_u, if_pos hv]
                simp only [List.append_assoc]
              · subst hl; subst hn
                rw [ucnStep_U, if_pos hv]
                simp only [List.append_assoc]
            · have hv' : ¬ (readUniversalChar t'' n 0 ≠ 0#32 ∧ readUniversalChar t'' n 0 ≠ 10#32) := hv
              rw [if_neg hv']
              apply copy1
              rw [cuc_cons (92#8 : Byte) (b :: t'')]
              rcases hln with ⟨hl, hn⟩ | ⟨hl, hn⟩
              · subst hl; subst hn
                rw [ucnStep_u, if_neg hv']
                rfl
              · subst hl; subst hn
                rw [ucnStep_U, if_neg hv']
                rfl
          by_cases hu : b = 117#8
          · have := ucn 117#8 4 hu (Or.inl ⟨rfl, rfl⟩)
            simp only [hu, if_true] at this ⊢
            exact this
          · simp only [hu, if_false]
            by_cases hU : b = 85#8
            · have := ucn 85#8 8 hU (Or.inr ⟨rfl, rfl⟩)
              simp only [hU, if_true] at this ⊢
              exact this
            · -- a backslash and the byte after it are copied together
              simp only [hU, if_false, if_true]
              obtain ⟨g1, hg1, hs1⟩ := store_step w g [92#8] (b :: t'') 92#8 (by simp)
              have hs1' : storeAt (w ++ g ++ 92#8 :: b :: t'') w.length 92#8 = some ((w ++ [92#8]) ++ g1 ++ b :: t'') := by
                simpa using hs1
              have hb1 : byteAt ((w ++ [92#8]) ++ g1 ++ b :: t'') (w.length + g.length + 1) = b := by
                have : w.length + g.length + 1 = (w ++ [92#8]).length + g1.length := by simp at hg1 ⊢; omega
                rw [this, byteAt_at0]; rfl
              obtain ⟨g2, hg2, hs2⟩ := store_step (w ++ [92#8]) g1 [b] t'' b (by simp)
              have hs2' : storeAt ((w ++ [92#8]) ++ g1 ++ b :: t'') (w.length + 1) b =
                  some (((w ++ [92#8]) ++ [b]) ++ g2 ++ t'') := by
                have : w.length + 1 = (w ++ [92#8]).length := by simp
                rw [this]; simpa using hs2
              simp only [hs1', hb1, hs2']
              have i1 : w.length + g.length + 1 + 1 = ((w ++ [92#8]) ++ [b]).length + g2.length := by
                simp at hg1 hg2 ⊢; omega
              have j1 : w.length + 1 + 1 = ((w ++ [92#8]) ++ [b]).length := by simp
              rw [i1, j1, ih t'' _ g2 h0'' (ends_lf_tail _ _ hend') (by simp at hf; omega)]
              rw [cuc_cons (92#8 : Byte) (b :: t'')]
              simp [ucnStep, BSL, hu, hU]
      · have hc : convertUniversalChars (a :: t') = a :: convertUniversalChars t' := by
          rw [cuc_cons]; simp [ucnStep, BSL, hbs]
        have := copy1 hc
        simp only [hbs, false_and, if_false]
        exact this

/-- `convert_universal_chars`: on a text that ends with a newline (what `tokenize_file` passes: `read_file` ends the text
    with one and the earlier phases keep it) the in-place C loop computes the functional hand model and never stores
    outside the text -/
theorem convertUniversalChars_eq (t : List Byte) (h0 : (0#8 : Byte) ∉ t) (hend : t = [] ∨ t.getLast? = some LF) :
    ChibiVerif.Gen.LitReaders.convertUniversalChars t = some (convertUniversalChars t) := by
  have := cuc_loop (t.length + 1) t [] [] h0 hend (by omega)
  simpa [ChibiVerif.Gen.LitReaders.convertUniversalChars] using this

-- ------------------------------------------------------------------ the three loops in sequence (tokenize_file)

theorem mem_canon (t : List Byte) : ∀ x ∈ canonicalizeNewline t, x ∈ t ∨ x = LF := by
  induction t using canonicalizeNewline.induct with
  | case1 => intro x hx; simp [canonicalizeNewline] at hx
  | case2 => intro x hx; right; simpa [canonicalizeNewline] using hx
  | case3 a ha => intro x hx; left; simpa [canonicalizeNewline, ha] using hx
  | case4 rest ih =>
    intro x hx
    simp only [canonicalizeNewline, if_true, List.mem_cons] at hx
    rcases hx with h | h
    · right; exact h
    · rcases ih x h with h' | h'
      · left; exact List.mem_cons_of_mem _ (List.mem_cons_of_mem _ h')
      · right; exact h'
  | case5 b rest hb ih =>
    intro x hx
    simp only [canonicalizeNewline, hb, if_true, if_false, List.mem_cons] at hx
    rcases hx with h | h
    · right; exact h
    · rcases ih x h with h' | h'
      · left; exact List.mem_cons_of_mem _ h'
      · right; exact h'
  | case6 a b rest ha ih =>
    intro x hx
    simp only [canonicalizeNewline, ha, if_false, List.mem_cons] at hx
    rcases hx with h | h
    · left; simp [h]
    · rcases ih x h with h' | h'
      · left; exact List.mem_cons_of_mem _ h'
      · right; exact h'

theorem mem_rbn (t : List Byte) (n : Nat) : ∀ x ∈ removeBackslashNewlineAux t n, x ∈ t ∨ x = LF := by
  induction t, n using removeBackslashNewlineAux.induct with
  | case1 n => intro x hx; right; simpa [removeBackslashNewlineAux] using (List.eq_of_mem_replicate hx)
  | case2 a n =>
    intro x hx
    simp only [removeBackslashNewlineAux, List.mem_cons] at hx
    rcases hx with h | h
    · left; simp [h]
    · right; exact List.eq_of_mem_replicate h
  | case3 a b rest n h ih =>
    intro x hx
    simp only [removeBackslashNewlineAux, h, and_self, if_true] at hx
    rcases ih x hx with h' | h'
    · left; exact List.mem_cons_of_mem _ (List.mem_cons_of_mem _ h')
    · right; exact h'
  | case4 b rest n h ih =>
    intro x hx
    have hb : ¬ (LF = BSL ∧ b = LF) := h
    simp only [removeBackslashNewlineAux, hb, if_false, if_true, List.mem_cons, List.mem_append] at hx
    rcases hx with h' | h' | h'
    · right; exact h'
    · right; exact List.eq_of_mem_replicate h'
    · rcases ih x h' with h'' | h''
      · left; exact List.mem_cons_of_mem _ h''
      · right; exact h''
  | case5 a b rest n h h2 ih =>
    intro x hx
    simp only [removeBackslashNewlineAux, h, h2, if_false, List.mem_cons] at hx
    rcases hx with h' | h'
    · left; simp [h']
    · rcases ih x h' with h'' | h''
      · left; exact List.mem_cons_of_mem _ h''
      · right; exact h''

theorem getLast?_cons_ne_nil (a : Byte) (t : List Byte) (h : t ≠ []) : (a :: t).getLast? = t.getLast? := by
  cases t with
  | nil => exact absurd rfl h
  | cons b r => simp [List.getLast?_cons_cons]

theorem getLast?_replicate_lf (n : Nat) (h : 0 < n) : (List.replicate n LF).getLast? = some LF := by
  cases n with
  | zero => omega
  | succ n => simp [List.getLast?_replicate]

/-- `remove_backslash_newline` keeps the final newline (a text whose last newline was spliced away gets the pending ones) -/
theorem rbn_last (t : List Byte) (n : Nat) : ((t = [] ∧ 0 < n) ∨ t.getLast? = some LF) →
    (removeBackslashNewlineAux t n).getLast? = some LF := by
  induction t, n using removeBackslashNewlineAux.induct with
  | case1 n =>
    intro h
    rcases h with ⟨_, hn⟩ | h
    · simpa [removeBackslashNewlineAux] using getLast?_replicate_lf n hn
    · simp at h
  | case2 a n =>
    intro h
    rcases h with ⟨h, _⟩ | h
    · simp at h
    · have ha : a = LF := by simpa using h
      subst ha
      simp only [removeBackslashNewlineAux]
      cases n with
      | zero => simp
      | succ n => rw [getLast?_cons_ne_nil _ _ (by simp)]; exact getLast?_replicate_lf _ (by omega)
  | case3 a b rest n h ih =>
    intro hp
    simp only [removeBackslashNewlineAux, h, and_self, if_true]
    apply ih
    by_cases hr : rest = []
    · left; exact ⟨hr, by omega⟩
    · right
      rcases hp with ⟨hp, _⟩ | hp
      · simp at hp
      · rw [getLast?_cons_ne_nil _ _ (by simp), getLast?_cons_ne_nil _ _ hr] at hp; exact hp
  | case4 b rest n h ih =>
    intro hp
    have hb : ¬ (LF = BSL ∧ b = LF) := h
    simp only [removeBackslashNewlineAux, hb, if_false, if_true]
    have hl : (b :: rest).getLast? = some LF := by
      rcases hp with ⟨hp, _⟩ | hp
      · simp at hp
      · rw [getLast?_cons_ne_nil _ _ (by simp)] at hp; exact hp
    have := ih (Or.inr hl)
    have hne : removeBackslashNewlineAux (b :: rest) 0 ≠ [] := by
      intro e; rw [e] at this; simp at this
    rw [getLast?_cons_ne_nil _ _ (by simp [hne]), List.getLast?_append, this]; rfl
  | case5 a b rest n h h2 ih =>
    intro hp
    simp only [removeBackslashNewlineAux, h, h2, if_false]
    have hl : (b :: rest).getLast? = some LF := by
      rcases hp with ⟨hp, _⟩ | hp
      · simp at hp
      · rw [getLast?_cons_ne_nil _ _ (by simp)] at hp; exact hp
    have := ih (Or.inr hl)
    have hne : removeBackslashNewlineAux (b :: rest) n ≠ [] := by
      intro e; rw [e] at this; simp at this
    rw [getLast?_cons_ne_nil _ _ hne, this]

/-- `canonicalize_newline` keeps the final newline -/
theorem canon_last (t : List Byte) : t.getLast? = some LF → (canonicalizeNewline t).getLast? = some LF := by
  induction t using canonicalizeNewline.induct with
  | case1 => intro h; simp at h
  | case2 => intro h; simp [canonicalizeNewline]
  | case3 a ha => intro h; simpa [canonicalizeNewline, ha] using h
  | case4 rest ih =>
    intro h
    simp only [canonicalizeNewline, if_true]
    by_cases hr : rest = []
    · subst hr; simp [canonicalizeNewline]
    · have h' : rest.getLast? = some LF := by
        rw [getLast?_cons_ne_nil _ _ (by simp), getLast?_cons_ne_nil _ _ hr] at h; exact h
      have := ih h'
      have hne : canonicalizeNewline rest ≠ [] := by intro e; rw [e] at this; simp at this
      rw [getLast?_cons_ne_nil _ _ hne, this]
  | case5 b rest hb ih =>
    intro h
    simp only [canonicalizeNewline, hb, if_true, if_false]
    have h' : (b :: rest).getLast? = some LF := by
      rw [getLast?_cons_ne_nil _ _ (by simp)] at h; exact h
    have := ih h'
    have hne : canonicalizeNewline (b :: rest) ≠ [] := by intro e; rw [e] at this; simp at this
    rw [getLast?_cons_ne_nil _ _ hne, this]
  | case6 a b rest ha ih =>
    intro h
    simp only [canonicalizeNewline, ha, if_false]
    have h' : (b :: rest).getLast? = some LF := by
      rw [getLast?_cons_ne_nil _ _ (by simp)] at h; exact h
    have := ih h'
    have hne : canonicalizeNewline (b :: rest) ≠ [] := by intro e; rw [e] at this; simp at this
    rw [getLast?_cons_ne_nil _ _ hne, this]

theorem efn_last (s : List Byte) : (ensureFinalNewline s).getLast? = some LF := by
  unfold ensureFinalNewline
  cases h : s.getLast? with
  | none => simp
  | some b =>
    simp only
    split
    · rename_i hb; rw [h, hb]
    · rw [List.getLast?_append]; rfl

theorem skipBOM_last_lf (t : List Byte) (h : t.getLast? = some LF) : (skipBOM t).getLast? = some LF := by
  rcases skipBOM_cases t with e | e
  · rw [e]; exact h
  · by_cases hr : skipBOM t = []
    · rw [hr] at e; rw [e] at h; simp [BOM, LF] at h
    · rw [e, List.getLast?_append] at h
      cases hl : (skipBOM t).getLast? with
      | none => exact absurd (List.getLast?_eq_none_iff.mp hl) hr
      | some b => rw [hl] at h; simpa using h

theorem phase1_last (s : List Byte) : (phase1 s).getLast? = some LF :=
  canon_last _ (skipBOM_last_lf _ (efn_last s))

theorem phase1_no_nul (s : List Byte) (h0 : (0#8 : Byte) ∉ s) : (0#8 : Byte) ∉ phase1 s := by
  intro h
  rcases mem_canon _ _ h with h1 | h1
  · rcases mem_efn s _ (mem_skipBOM _ _ h1) with h2 | h2
    · exact h0 h2
    · revert h2; decide
  · revert h1; decide

theorem rbn_no_nul (t : List Byte) (h0 : (0#8 : Byte) ∉ t) : (0#8 : Byte) ∉ removeBackslashNewline t := by
  intro h
  rcases mem_rbn t 0 _ h with h1 | h1
  · exact h0 h1
  · revert h1; decide

/-- **`tokenize_file`, phases 1-2 as translated from the C source**: on a file content without NUL the three in-place
    loops, run one after the other on the same array, produce `phase12 s`; no store leaves the text. -/
theorem translated_pipeline (s : List Byte) (h0 : (0#8 : Byte) ∉ s) :
    (ChibiVerif.Gen.LitReaders.canonicalizeNewline (skipBOM (ensureFinalNewline s)) >>=
      ChibiVerif.Gen.LitReaders.removeBackslashNewline >>=
      ChibiVerif.Gen.LitReaders.convertUniversalChars) = some (phase12 s) := by
  have z1 : (0#8 : Byte) ∉ skipBOM (ensureFinalNewline s) := by
    intro h
    rcases mem_efn s _ (mem_skipBOM _ _ h) with h2 | h2
    · exact h0 h2
    · revert h2; decide
  have z2 := phase1_no_nul s h0
  have z3 := rbn_no_nul (phase1 s) z2
  have hl : (removeBackslashNewline (phase1 s)).getLast? = some LF := rbn_last _ 0 (Or.inr (phase1_last s))
  rw [canonicalizeNewline_eq _ z1]
  show (ChibiVerif.Gen.LitReaders.removeBackslashNewline (phase1 s) >>= _) = _
  rw [removeBackslashNewline_eq _ z2]
  show ChibiVerif.Gen.LitReaders.convertUniversalChars (removeBackslashNewline (phase1 s)) = _
  rw [convertUniversalChars_eq _ z3 (Or.inr hl)]
  rfl

end ChibiVerif.Lemmas.Rewrite
