/-
Lemmas about argument identification (`read_macro_arg_one`, `read_macro_args`) for property C09.
-/
import ChibiVerif.Model.PP

namespace ChibiVerif.PP

/-- parenthesis depth after `ts`, starting at depth `d`; `none` when a `)` occurs at depth 0 -/
def scanDepth : Nat → List Tok → Option Nat
  | d, [] => some d
  | d, t :: r =>
    if t.text = "(" then scanDepth (d + 1) r
    else if t.text = ")" then (if d = 0 then none else scanDepth (d - 1) r)
    else scanDepth d r

/-- the parentheses of `ts` match (every `)` closes an earlier `(`, none is left open) -/
def Balanced (ts : List Tok) : Prop := scanDepth 0 ts = some 0

instance (ts : List Tok) : Decidable (Balanced ts) := by unfold Balanced; infer_instance

/-- no `,` at depth 0 (depth starting at `d`) -/
def noTopComma : Nat → List Tok → Bool
  | _, [] => true
  | d, t :: r =>
    if t.text = "(" then noTopComma (d + 1) r
    else if t.text = ")" then noTopComma (d - 1) r
    else (d != 0 || t.text != ",") && noTopComma d r

/-- the tokens at which `read_macro_arg_one` stops -/
def isTerm (readRest : Bool) (t : Tok) : Bool := t.text == ")" || (!readRest && t.text == ",")

theorem argOne_sound (rr : Bool) : ∀ (ts : List Tok) (lvl : Nat) (a r : List Tok),
    readMacroArgOne rr lvl ts = .ok (a, r) →
      ts = a ++ r ∧ scanDepth lvl a = some 0 ∧ (rr = true ∨ noTopComma lvl a = true) ∧
      ∃ t r', r = t :: r' ∧ isTerm rr t = true := by
  intro ts
  induction ts with
  | nil => intro lvl a r h; simp [readMacroArgOne] at h
  | cons tok rest ih =>
    intro lvl a r h
    unfold readMacroArgOne at h
    split at h
    · rename_i hc
      simp only [Except.ok.injEq, Prod.mk.injEq] at h
      obtain ⟨rfl, rfl⟩ := h
      simp only [Bool.and_eq_true, beq_iff_eq] at hc
      exact ⟨by simp, by simp [scanDepth, hc.1], Or.inr (by simp [noTopComma]), tok, rest, rfl, by simp [isTerm, hc.2]⟩
    · split at h
      · rename_i hc1 hc
        simp only [Except.ok.injEq, Prod.mk.injEq] at h
        obtain ⟨rfl, rfl⟩ := h
        simp only [Bool.and_eq_true, beq_iff_eq, Bool.not_eq_true'] at hc
        exact ⟨by simp, by simp [scanDepth, hc.1.1], Or.inr (by simp [noTopComma]), tok, rest, rfl,
          by simp [isTerm, hc.1.2, hc.2]⟩
      · rename_i hc1 hc2
        simp only [Except.map] at h
        split at h
        · simp at h
        · rename_i v hrec
          obtain ⟨a', r'⟩ := v
          simp only [Except.ok.injEq, Prod.mk.injEq] at h
          obtain ⟨rfl, rfl⟩ := h
          obtain ⟨h1, h2, h3, h4⟩ := ih _ _ _ hrec
          simp only [Bool.and_eq_true, beq_iff_eq, not_and, Bool.not_eq_true'] at hc1 hc2
          refine ⟨by simp [h1], ?_, ?_, h4⟩
          · unfold scanDepth
            by_cases ho : tok.text = "("
            · simp [ho] at h2 ⊢; exact h2
            · by_cases hcl : tok.text = ")"
              · have : lvl ≠ 0 := fun h0 => hc1 h0 hcl
                simp [hcl, this] at h2 ⊢; exact h2
              · simp [ho, hcl] at h2 ⊢; exact h2
          · rcases h3 with h3 | h3
            · exact Or.inl h3
            · by_cases hrr : rr = true
              · exact Or.inl hrr
              · right
                unfold noTopComma
                by_cases ho : tok.text = "("
                · simp [ho] at h3 ⊢; exact h3
                · by_cases hcl : tok.text = ")"
                  · simp [hcl] at h3 ⊢; exact h3
                  · simp only [ho, hcl, if_false] at h3 ⊢
                    simp only [beq_iff_eq, ho, hcl, if_false] at h3
                    simp only [Bool.and_eq_true, Bool.or_eq_true, bne_iff_ne, ne_eq, h3, and_true]
                    by_cases h0 : lvl = 0
                    · right; intro hcomma
                      have hrr' : rr = false := by cases rr <;> simp_all
                      exact hc2 ⟨h0, hrr'⟩ hcomma
                    · left; exact h0

theorem argOne_complete (rr : Bool) : ∀ (a : List Tok) (lvl : Nat) (t : Tok) (r : List Tok),
    scanDepth lvl a = some 0 → (rr = true ∨ noTopComma lvl a = true) → isTerm rr t = true →
    readMacroArgOne rr lvl (a ++ t :: r) = .ok (a, t :: r) := by
  intro a
  induction a with
  | nil =>
    intro lvl t r hd _ ht
    simp only [scanDepth, Option.some.injEq] at hd
    subst hd
    simp only [isTerm, Bool.or_eq_true, beq_iff_eq, Bool.and_eq_true, Bool.not_eq_true'] at ht
    simp only [List.nil_append]
    unfold readMacroArgOne
    rcases ht with ht | ⟨hrr, ht⟩
    · simp [ht]
    · simp [ht, hrr]
  | cons x a' ih =>
    intro lvl t r hd hc ht
    simp only [List.cons_append]
    unfold readMacroArgOne
    unfold scanDepth at hd
    have hnc : rr = true ∨ ((lvl != 0 || x.text != ",") = true ∨ x.text = "(" ∨ x.text = ")") := by
      rcases hc with hc | hc
      · exact Or.inl hc
      · right
        unfold noTopComma at hc
        by_cases ho : x.text = "("
        · exact Or.inr (Or.inl ho)
        · by_cases hcl : x.text = ")"
          · exact Or.inr (Or.inr hcl)
          · simp only [ho, hcl, if_false, Bool.and_eq_true] at hc
            exact Or.inl hc.1
    have hc' : ∀ lvl', (x.text = "(" → lvl' = lvl + 1) → (x.text ≠ "(" → x.text = ")" → lvl' = lvl - 1) →
        (x.text ≠ "(" → x.text ≠ ")" → lvl' = lvl) → (rr = true ∨ noTopComma lvl' a' = true) := by
      intro lvl' h1 h2 h3
      rcases hc with hc | hc
      · exact Or.inl hc
      · right
        unfold noTopComma at hc
        by_cases ho : x.text = "("
        · simp only [ho, if_true] at hc; rw [h1 ho]; exact hc
        · by_cases hcl : x.text = ")"
          · simp only [ho, hcl, if_false, if_true] at hc; rw [h2 ho hcl]; exact hc
          · simp only [ho, hcl, if_false, Bool.and_eq_true] at hc; rw [h3 ho hcl]; exact hc.2
    by_cases ho : x.text = "("
    · simp only [ho, if_true] at hd
      have := ih (lvl + 1) t r hd (hc' _ (fun _ => rfl) (fun h => absurd ho h) (fun h => absurd ho h)) ht
      simp [ho, this, Except.map]
    · by_cases hcl : x.text = ")"
      · simp only [ho, hcl, if_false, if_true] at hd
        have hl : lvl ≠ 0 := by intro h0; simp [h0] at hd
        simp only [hl, if_false] at hd
        have := ih (lvl - 1) t r hd (hc' _ (fun h => absurd h ho) (fun _ _ => rfl) (fun _ h => absurd hcl h)) ht
        simp [hcl, hl, this, Except.map]
      · simp only [ho, hcl, if_false] at hd
        have := ih lvl t r hd (hc' _ (fun h => absurd h ho) (fun _ h => absurd h hcl) (fun _ _ => rfl)) ht
        have h2 : (lvl == 0 && !rr && x.text == ",") = false := by
          rcases hnc with h | h | h | h
          · simp [h]
          · simp only [Bool.or_eq_true, bne_iff_ne, ne_eq] at h
            rcases h with h | h
            · simp [h]
            · simp [h]
          · exact absurd h ho
          · exact absurd h hcl
        simp [ho, hcl, h2, this, Except.map]

theorem argOne_error (rr : Bool) : ∀ (ts : List Tok) (lvl : Nat) (e : Err),
    readMacroArgOne rr lvl ts = .error e → e = .prematureEnd := by
  intro ts
  induction ts with
  | nil => intro lvl e h; simp [readMacroArgOne] at h; exact h.symm
  | cons tok rest ih =>
    intro lvl e h
    unfold readMacroArgOne at h
    split at h
    · simp at h
    · split at h
      · simp at h
      · simp only [Except.map] at h
        split at h
        · rename_i e' hrec
          simp only [Except.error.injEq] at h
          exact h ▸ ih _ _ hrec
        · simp at h

/-- `Sep first as l`: `l` is the token lists `as` separated by tokens spelled `,`
    (with a leading `,` when `first = false`) -/
inductive Sep : Bool → List (List Tok) → List Tok → Prop
  | nil (first : Bool) : Sep first [] []
  | first (a : List Tok) (as : List (List Tok)) (l : List Tok) : Sep false as l → Sep true (a :: as) (a ++ l)
  | next (c : Tok) (a : List Tok) (as : List (List Tok)) (l : List Tok) :
      c.text = "," → Sep false as l → Sep false (a :: as) (c :: (a ++ l))

theorem Sep.snoc {first : Bool} {as : List (List Tok)} {l : List Tok} (h : Sep first as l) (c : Tok) (v : List Tok)
    (hc : c.text = ",") (hne : as ≠ []) : Sep first (as ++ [v]) (l ++ c :: v) := by
  induction h with
  | nil => exact absurd rfl hne
  | first a as l h ih =>
    cases as with
    | nil =>
      cases h
      simpa using Sep.first a [v] (c :: v) (by simpa using Sep.next c v [] [] hc (Sep.nil false))
    | cons a2 as2 =>
      have := ih (by simp)
      simpa [List.append_assoc] using Sep.first a _ _ this
  | next c' a as l hc' h ih =>
    cases as with
    | nil =>
      cases h
      simpa using Sep.next c' a [v] (c :: v) hc' (by simpa using Sep.next c v [] [] hc (Sep.nil false))
    | cons a2 as2 =>
      have := ih (by simp)
      simpa [List.append_assoc] using Sep.next c' a _ _ hc' this

theorem skip_ok {ts r : List Tok} {s : String} (h : skip ts s = .ok r) : ∃ c, c.text = s ∧ ts = c :: r := by
  unfold skip at h
  split at h
  · rename_i t r'
    split at h
    · rename_i hc
      simp only [Except.ok.injEq] at h
      exact ⟨t, by simpa using hc, by rw [h]⟩
    · simp at h
  · simp at h

theorem readNamedArgs_sound : ∀ (ps : List String) (first : Bool) (ts : List Tok) (args : List MacroArg) (r : List Tok),
    readNamedArgs ps first ts = .ok (args, r) →
      ∃ l, ts = l ++ r ∧ Sep first (args.map (·.toks)) l ∧ args.map (·.name) = ps ∧
        (∀ a ∈ args, scanDepth 0 a.toks = some 0 ∧ noTopComma 0 a.toks = true ∧ a.isVa = false) := by
  intro ps
  induction ps with
  | nil =>
    intro first ts args r h
    simp only [readNamedArgs, Except.ok.injEq, Prod.mk.injEq] at h
    obtain ⟨rfl, rfl⟩ := h
    exact ⟨[], by simp, Sep.nil _, rfl, by simp⟩
  | cons p ps ih =>
    intro first ts args r h
    unfold readNamedArgs at h
    split at h
    · simp at h
    · rename_i ts1 hskip
      split at h
      · simp at h
      · rename_i a r1 hone
        simp only [Except.map] at h
        split at h
        · simp at h
        · rename_i v hrec
          obtain ⟨as, r'⟩ := v
          simp only [Except.ok.injEq, Prod.mk.injEq] at h
          obtain ⟨rfl, rfl⟩ := h
          obtain ⟨l', hl', hsep, hnames, hgood⟩ := ih _ _ _ _ hrec
          obtain ⟨h1, h2, h3, _⟩ := argOne_sound false _ _ _ _ hone
          have h3' : noTopComma 0 a = true := by simpa using h3
          cases first with
          | true =>
            simp only [if_true, Except.ok.injEq] at hskip
            subst hskip
            refine ⟨a ++ l', by rw [h1, hl']; simp, ?_, by simp [hnames], ?_⟩
            · simpa using Sep.first a _ _ hsep
            · intro x hx
              simp only [List.mem_cons] at hx
              rcases hx with rfl | hx
              · exact ⟨h2, h3', rfl⟩
              · exact hgood x hx
          | false =>
            simp only [Bool.false_eq_true, if_false] at hskip
            obtain ⟨c, hc, rfl⟩ := skip_ok hskip
            refine ⟨c :: (a ++ l'), by rw [h1, hl']; simp, ?_, by simp [hnames], ?_⟩
            · simpa using Sep.next c a _ _ hc hsep
            · intro x hx
              simp only [List.mem_cons] at hx
              rcases hx with rfl | hx
              · exact ⟨h2, h3', rfl⟩
              · exact hgood x hx

theorem fin_ok {args args' : List MacroArg} {r rest : List Tok} {rp : Tok}
    (h : (match r with
          | t :: r' => if t.text == ")" then (Except.ok (args, t, r') : Except Err _) else .error (.expected ")")
          | [] => .error (.expected ")")) = .ok (args', rp, rest)) :
    args' = args ∧ rp.text = ")" ∧ r = rp :: rest := by
  split at h
  · rename_i t r'
    split at h
    · rename_i hc
      simp only [Except.ok.injEq, Prod.mk.injEq] at h
      obtain ⟨rfl, rfl, rfl⟩ := h
      exact ⟨rfl, by simpa using hc, rfl⟩
    · simp at h
  · simp at h

/-- what `read_macro_args` returns, read backwards: the consumed text is the arguments separated by commas -/
theorem readMacroArgs_sound (ps : List String) (va : Option String) (ts : List Tok)
    (args : List MacroArg) (rp : Tok) (rest : List Tok)
    (h : readMacroArgs ps va ts = .ok (args, rp, rest)) :
    rp.text = ")" ∧ args.map (·.name) = ps ++ va.toList ∧
    (∀ a ∈ args, Balanced a.toks) ∧ (∀ a ∈ args, a.isVa = false → noTopComma 0 a.toks = true) ∧
    ∃ l, ts = l ++ rp :: rest ∧
      match va with
      | none => Sep true (args.map (·.toks)) l
      | some _ => ∃ named vaArg, args = named ++ [vaArg] ∧ vaArg.isVa = true ∧ (∀ a ∈ named, a.isVa = false) ∧
          (Sep true (args.map (·.toks)) l ∨ (vaArg.toks = [] ∧ Sep true (named.map (·.toks)) l)) := by
  unfold readMacroArgs at h
  split at h
  · simp at h
  · rename_i nargs r hnamed
    obtain ⟨l, hl, hsep, hnames, hgood⟩ := readNamedArgs_sound _ _ _ _ _ hnamed
    cases va with
    | none =>
      simp only at h
      obtain ⟨rfl, hrp, rfl⟩ := fin_ok h
      exact ⟨hrp, by simp [hnames], fun a ha => (hgood a ha).1, fun a ha _ => (hgood a ha).2.1, l, hl, hsep⟩
    | some vn =>
      simp only at h
      split at h
      · obtain ⟨rfl, hrp, rfl⟩ := fin_ok h
        refine ⟨hrp, by simp [hnames], ?_, ?_, l, hl, nargs, _, rfl, rfl, fun a ha => (hgood a ha).2.2, Or.inr ⟨rfl, hsep⟩⟩
        · intro a ha
          simp only [List.mem_append, List.mem_singleton] at ha
          rcases ha with ha | rfl
          · exact (hgood a ha).1
          · simp [Balanced, scanDepth]
        · intro a ha hva
          simp only [List.mem_append, List.mem_singleton] at ha
          rcases ha with ha | rfl
          · exact (hgood a ha).2.1
          · simp at hva
      · split at h
        · simp at h
        · rename_i r1 hskip
          split at h
          · simp at h
          · rename_i a r2 hone
            obtain ⟨rfl, hrp, rfl⟩ := fin_ok h
            obtain ⟨h1, h2, _, _⟩ := argOne_sound true _ _ _ _ hone
            refine ⟨hrp, by simp [hnames], ?_, ?_, ?_⟩
            · intro x hx
              simp only [List.mem_append, List.mem_singleton] at hx
              rcases hx with hx | rfl
              · exact (hgood x hx).1
              · exact h2
            · intro x hx hva
              simp only [List.mem_append, List.mem_singleton] at hx
              rcases hx with hx | rfl
              · exact (hgood x hx).2.1
              · simp at hva
            · by_cases hemp : ps.isEmpty = true
              · simp only [hemp, if_true, Except.ok.injEq] at hskip
                subst hskip
                have hps : ps = [] := by simpa using hemp
                subst hps
                simp only [readNamedArgs, Except.ok.injEq, Prod.mk.injEq] at hnamed
                obtain ⟨rfl, rfl⟩ := hnamed
                cases hsep
                refine ⟨a, by rw [hl, h1]; simp, [], _, rfl, rfl, by simp, Or.inl ?_⟩
                simpa using Sep.first a [] [] (Sep.nil false)
              · simp only [hemp, Bool.false_eq_true, if_false] at hskip
                obtain ⟨c, hc, rfl⟩ := skip_ok hskip
                refine ⟨l ++ c :: a, by rw [hl, h1]; simp, nargs, _, rfl, rfl, fun x hx => (hgood x hx).2.2, Or.inl ?_⟩
                have hne : nargs.map (·.toks) ≠ [] := by
                  intro hnil
                  have : nargs = [] := by simpa using hnil
                  subst this
                  simp at hnames
                  exact hemp (by simp [← hnames])
                simpa using hsep.snoc c a hc hne

end ChibiVerif.PP
