/-
C13 — the initializer parser never reaches an abort site: induction over the recursion budget for the twelve mutually
recursive functions of Model/Init.lean (`designation` … `initializer2`), with the invariant "the tree has the shape of its
type" (`shape`) and "string tokens have a string element size" (`toksOK`).
-/
import ChibiVerif.Lemmas.C13InitBase
import ChibiVerif.Lemmas.InitBracedStr

namespace ChibiVerif.C13Init
open ChibiVerif.Init

/-- all functions of the block at one budget -/
structure NC (f : Nat) : Prop where
  designation : ∀ ty toks init, tyOK ty = true → shape ty init = true → toksOK toks = true →
    Safe (Post ty) (designation f ty toks init)
  countLoop : ∀ elem toks d i mx first, tyOK elem = true → shape elem d = true → toksOK toks = true →
    Safe (fun _ => True) (countLoop f elem toks d i mx first)
  countArrayInit : ∀ elem toks, tyOK elem = true → toksOK toks = true → Safe (fun _ => True) (countArrayInit f elem toks)
  arrayInit1Loop : ∀ elem toks init i first, tyOK elem = true → arrOK elem init → toksOK toks = true →
    Safe (PostA elem) (arrayInit1Loop f elem toks init i first)
  arrayInit1 : ∀ elem toks init, tyOK elem = true → (init = .flex ∨ arrOK elem init) → toksOK toks = true →
    Safe (PostA elem) (arrayInit1 f elem toks init)
  arrayInit2Loop : ∀ elem toks init i, tyOK elem = true → arrOK elem init → toksOK toks = true →
    Safe (PostA elem) (arrayInit2Loop f elem toks init i)
  arrayInit2 : ∀ elem toks init i, tyOK elem = true → (init = .flex ∨ arrOK elem init) → toksOK toks = true →
    Safe (PostA elem) (arrayInit2 f elem toks init i)
  structInit1Loop : ∀ u ms toks init mem first, msOK ms = true → aggOK u ms init → toksOK toks = true →
    Safe (PostG u ms) (structInit1Loop f ms toks init mem first)
  structInit1 : ∀ u ms toks init, msOK ms = true → aggOK u ms init → toksOK toks = true →
    Safe (PostG u ms) (structInit1 f ms toks init)
  structInit2 : ∀ u ms toks init mem first, msOK ms = true → aggOK u ms init → toksOK toks = true →
    Safe (PostG u ms) (structInit2 f ms toks init mem first)
  unionRest : ∀ ms toks init, msOK ms = true → unOK ms init → toksOK toks = true →
    Safe (PostU ms) (unionRest f ms toks init)
  unionInit : ∀ ms toks init, msOK ms = true → unOK ms init → toksOK toks = true →
    Safe (PostU ms) (unionInit f ms toks init)
  initializer2 : ∀ ty toks init, tyOK ty = true → shape ty init = true → toksOK toks = true →
    Safe (Post ty) (initializer2 f ty toks init)

theorem nc_zero : NC 0 where
  designation := fun _ _ _ _ _ _ => Safe.fuel
  countLoop := fun _ _ _ _ _ _ _ _ _ => Safe.fuel
  countArrayInit := fun _ _ _ _ => Safe.fuel
  arrayInit1Loop := fun _ _ _ _ _ _ _ _ => Safe.fuel
  arrayInit1 := fun _ _ _ _ _ _ => Safe.fuel
  arrayInit2Loop := fun _ _ _ _ _ _ _ => Safe.fuel
  arrayInit2 := fun _ _ _ _ _ _ _ => Safe.fuel
  structInit1Loop := fun _ _ _ _ _ _ _ _ _ => Safe.fuel
  structInit1 := fun _ _ _ _ _ _ _ => Safe.fuel
  structInit2 := fun _ _ _ _ _ _ _ _ _ => Safe.fuel
  unionRest := fun _ _ _ _ _ _ => Safe.fuel
  unionInit := fun _ _ _ _ _ _ => Safe.fuel
  initializer2 := fun _ _ _ _ _ _ => Safe.fuel

/-! ## pieces shared by several arms -/

theorem arrOK_children {elem : Ty} {init : Init} (h : arrOK elem init) : shapeAll elem init.children = true := by
  obtain ⟨cs, rfl, hcs⟩ := h; exact hcs

theorem arrOK_setChild {elem : Ty} {init : Init} (h : arrOK elem init) (i : Nat) (c : Init) (hc : shape elem c = true) :
    arrOK elem (init.setChild i c) := by
  obtain ⟨cs, rfl, hcs⟩ := h
  exact ⟨cs.set i c, rfl, shapeAll_set elem cs i c hcs hc⟩

theorem arrOK_setChild_len {elem : Ty} {init : Init} (h : arrOK elem init) (i : Nat) (c : Init) :
    (init.setChild i c).children.length = init.children.length := by
  obtain ⟨cs, rfl, _⟩ := h
  simp [Init.setChild, Init.children, Init.withChildren]

theorem stOK_setChild {ms : Members} {init : Init} (h : stOK ms init) (k : Nat) (mi : MemInfo) (t : Ty) (c : Init)
    (hk : ms[k]? = some (mi, t)) (hc : shape t c = true) : stOK ms (init.setChild k c) := by
  obtain ⟨e, cs, rfl, hcs⟩ := h
  exact ⟨e, cs.set k c, rfl, shapeMs_set ms cs k mi t c hcs hk hc⟩

theorem stOK_setExpr {ms : Members} {init : Init} (h : stOK ms init) (x : Option Expr) : stOK ms (init.setExpr x) := by
  obtain ⟨e, cs, rfl, hcs⟩ := h
  exact ⟨x, cs, rfl, hcs⟩

theorem unOK_setChild {ms : Members} {init : Init} (h : unOK ms init) (k : Nat) (mi : MemInfo) (t : Ty) (c : Init)
    (hk : ms[k]? = some (mi, t)) (hc : shape t c = true) : unOK ms (init.setChild k c) := by
  obtain ⟨e, m, cs, rfl, hcs⟩ := h
  exact ⟨e, m, cs.set k c, rfl, shapeMs_set ms cs k mi t c hcs hk hc⟩

theorem unOK_setMem {ms : Members} {init : Init} (h : unOK ms init) (k : Nat) : unOK ms (init.setMem k) := by
  obtain ⟨e, m, cs, rfl, hcs⟩ := h
  exact ⟨e, some k, cs, rfl, hcs⟩

theorem unOK_setExpr {ms : Members} {init : Init} (h : unOK ms init) (x : Option Expr) : unOK ms (init.setExpr x) := by
  obtain ⟨e, m, cs, rfl, hcs⟩ := h
  exact ⟨x, m, cs, rfl, hcs⟩

theorem aggOK_setChild {u : Bool} {ms : Members} {init : Init} (h : aggOK u ms init) (k : Nat) (mi : MemInfo) (t : Ty) (c : Init)
    (hk : ms[k]? = some (mi, t)) (hc : shape t c = true) : aggOK u ms (init.setChild k c) := by
  cases u
  · exact stOK_setChild h k mi t c hk hc
  · exact unOK_setChild h k mi t c hk hc

theorem get_of_lt (ms : Members) (k : Nat) (h : k < ms.length) : ∃ mi t, ms[k]? = some (mi, t) := by
  have := List.getElem?_eq_getElem h
  exact ⟨ms[k].1, ms[k].2, by rw [this]⟩

/-- `children[k]` of a struct/union node for a member index inside the list -/
theorem member_child {ms : Members} {cs : List Init} (hcs : shapeMs ms cs = true) {k : Nat} {mi : MemInfo} {t : Ty}
    (hk : ms[k]? = some (mi, t)) : ∃ c, getChild cs k = .ok c ∧ shape t c = true := by
  obtain ⟨c, hc, hs⟩ := shapeMs_get ms cs k mi t hcs hk
  exact ⟨c, getChild_of_get hc, hs⟩

/-- the designated-range loop of `designation` / `array_initializer1`:
    `for (i = begin; i <= end; i++) designation(&tok2, tok, init->children[i])` -/
theorem rangeLoop_safe (f : Nat) (ih : NC f) (elem : Ty) (hty : tyOK elem = true) (tok : List ITok) (htok : toksOK tok = true)
    (init : Init) (hinit : arrOK elem init) (b e : Nat) (he : e < init.children.length) :
    Safe (fun r => arrOK elem r.1 ∧ toksOK r.2 = true)
      ((List.range' b (e + 1 - b)).foldlM
        (fun (acc : Init × List ITok) i => do
          let c ← getChild acc.1.children i
          let (c', t2) ← designation f elem tok c
          pure (acc.1.setChild i c', t2)) (init, tok)) := by
  have key : Safe (fun r => (arrOK elem r.1 ∧ r.1.children.length = init.children.length) ∧ toksOK r.2 = true)
      ((List.range' b (e + 1 - b)).foldlM
        (fun (acc : Init × List ITok) i => do
          let c ← getChild acc.1.children i
          let (c', t2) ← designation f elem tok c
          pure (acc.1.setChild i c', t2)) (init, tok)) := by
    refine Safe.foldlM_mem (I := fun (r : Init × List ITok) =>
      (arrOK elem r.1 ∧ r.1.children.length = init.children.length) ∧ toksOK r.2 = true) _ _ ?_ ?_
    · intro acc i hi hacc
      obtain ⟨⟨hao, hlen⟩, _⟩ := hacc
      have hi' : i < acc.1.children.length := by
        rw [hlen]
        have := List.mem_range'_1.1 hi
        omega
      obtain ⟨c, hc, hsc⟩ := shapeAll_get elem _ i (arrOK_children hao) hi'
      rw [getChild_of_get hc]
      show Safe _ (designation f elem tok c >>= _)
      refine Safe.bind (ih.designation elem tok c hty hsc htok) ?_
      intro r hr
      obtain ⟨c', t2⟩ := r
      exact Safe.pure ⟨⟨arrOK_setChild hao i c' hr.1, by rw [arrOK_setChild_len hao]; exact hlen⟩, hr.2⟩
    · exact ⟨⟨hinit, rfl⟩, htok⟩
  exact key.mono (fun r hr => ⟨hr.1.1, hr.2⟩)

theorem Safe.ite {α : Type} {Q : α → Prop} {c : Prop} [Decidable c] {a b : Except Fail α}
    (ha : c → Safe Q a) (hb : ¬ c → Safe Q b) : Safe Q (if c then a else b) := by
  split
  · exact ha ‹_›
  · exact hb ‹_›

/-- `if (!first) tok = skip(tok, ",")` -/
theorem optComma_safe (c : Bool) (toks : List ITok) (h : toksOK toks = true) :
    Safe (fun r => toksOK r = true) (if c = true then (pure toks : Except Fail (List ITok)) else skipTok .comma "," toks) := by
  cases c with
  | true => exact Safe.pure h
  | false => exact skipTok_safe _ _ _ h

/-- the node `array_initializer1/2` work on: a `.flex` node gets its bound from count_array_init_elements -/
theorem resolveFlex_safe (f : Nat) (ih : NC f) (elem : Ty) (hty : tyOK elem = true) (toks : List ITok) (htoks : toksOK toks = true)
    (init : Init) : (init = .flex ∨ arrOK elem init) →
    Safe (arrOK elem) (match init with
      | .flex => do
        let len ← countArrayInit f elem toks
        pure (newInit (.array elem len) false)
      | i => pure i : Except Fail Init) := by
  intro hinit
  rcases hinit with rfl | ⟨cs, rfl, hcs⟩
  · refine Safe.bind (ih.countArrayInit elem toks hty htoks) ?_
    intro len _
    exact Safe.pure ⟨_, rfl, shapeAll_replicate elem _ (newInit_shape elem false hty) len⟩
  · exact Safe.pure ⟨cs, rfl, hcs⟩

theorem countArrayInit_succ (f : Nat) (ih : NC f) (elem : Ty) (toks : List ITok) (hty : tyOK elem = true)
    (htoks : toksOK toks = true) : Safe (fun _ => True) (countArrayInit (f + 1) elem toks) := by
  simp only [countArrayInit]
  exact Safe.bind (ih.countLoop elem toks _ 0 0 true hty (newInit_shape elem true hty) htoks) (fun _ _ => Safe.pure trivial)

theorem arrayInit1_succ (f : Nat) (ih : NC f) (elem : Ty) (toks : List ITok) (init : Init) (hty : tyOK elem = true)
    (hinit : init = .flex ∨ arrOK elem init) (htoks : toksOK toks = true) :
    Safe (PostA elem) (arrayInit1 (f + 1) elem toks init) := by
  simp only [arrayInit1]
  refine Safe.bind (skipTok_safe _ _ _ htoks) ?_
  intro toks' h'
  refine Safe.bind (resolveFlex_safe f ih elem hty toks' h' init hinit) ?_
  intro init' hi'
  exact ih.arrayInit1Loop elem toks' init' 0 true hty hi' h'

theorem arrayInit2_succ (f : Nat) (ih : NC f) (elem : Ty) (toks : List ITok) (init : Init) (i : Nat) (hty : tyOK elem = true)
    (hinit : init = .flex ∨ arrOK elem init) (htoks : toksOK toks = true) :
    Safe (PostA elem) (arrayInit2 (f + 1) elem toks init i) := by
  simp only [arrayInit2]
  refine Safe.bind (resolveFlex_safe f ih elem hty toks htoks init hinit) ?_
  intro init' hi'
  exact ih.arrayInit2Loop elem toks init' i hty hi' htoks

theorem arrayInit2Loop_succ (f : Nat) (ih : NC f) (elem : Ty) (toks : List ITok) (init : Init) (i : Nat) (hty : tyOK elem = true)
    (hinit : arrOK elem init) (htoks : toksOK toks = true) :
    Safe (PostA elem) (arrayInit2Loop (f + 1) elem toks init i) := by
  simp only [arrayInit2Loop]
  split
  · rename_i hc
    simp only [Bool.and_eq_true, decide_eq_true_eq] at hc
    have body : ∀ toks', toksOK toks' = true → Safe (PostA elem)
        (if isDesg toks' = true then pure (init, toks) else do
          let c ← getChild init.children i
          let __x ← initializer2 f elem toks' c
          arrayInit2Loop f elem __x.snd (init.setChild i __x.fst) (i + 1)) := by
      intro toks' h'
      apply Safe.ite
      · intro _; exact Safe.pure ⟨hinit, htoks⟩
      · intro _
        obtain ⟨c, hc', hsc⟩ := shapeAll_get elem _ i (arrOK_children hinit) hc.1
        rw [getChild_of_get hc']
        show Safe _ (initializer2 f elem toks' c >>= _)
        refine Safe.bind (ih.initializer2 elem toks' c hty hsc h') ?_
        intro r hr
        exact ih.arrayInit2Loop elem r.2 _ (i + 1) hty (arrOK_setChild hinit i r.1 hr.1) hr.2
    apply Safe.ite
    · intro _; exact Safe.bind (skipTok_safe _ _ _ htoks) body
    · intro _; exact Safe.bind (Safe.pure htoks) body
  · exact Safe.pure ⟨hinit, htoks⟩

theorem arrayInit1Loop_succ (f : Nat) (ih : NC f) (elem : Ty) (toks : List ITok) (init : Init) (i : Nat) (first : Bool)
    (hty : tyOK elem = true) (hinit : arrOK elem init) (htoks : toksOK toks = true) :
    Safe (PostA elem) (arrayInit1Loop (f + 1) elem toks init i first) := by
  simp only [arrayInit1Loop]
  split
  · rename_i rest hce
    exact ⟨hinit, consumeEnd_ok toks rest htoks hce⟩
  · have body : ∀ toks', toksOK toks' = true → Safe (PostA elem)
        (if isBracket toks' = true then do
          let __x ← arrayDesignator init.children.length toks'
          let __x_1 ←
            List.foldlM
                (fun acc j => do
                  let c ← getChild acc.fst.children j
                  let __x ← designation f elem __x.2.snd c
                  pure (acc.fst.setChild j __x.fst, __x.snd))
                (init, __x.2.snd) (List.range' __x.fst (__x.2.fst + 1 - __x.fst))
          arrayInit1Loop f elem __x_1.snd __x_1.fst (__x.2.fst + 1) false
        else
          if i < init.children.length then do
            let c ← getChild init.children i
            let __x ← initializer2 f elem toks' c
            arrayInit1Loop f elem __x.snd (init.setChild i __x.fst) (i + 1) false
          else do
            let toks ← skipExcess f toks'
            arrayInit1Loop f elem toks init (i + 1) false) := by
      intro toks' h'
      apply Safe.ite
      · intro hb
        refine Safe.bind (arrayDesignator_safe _ toks' h' hb) ?_
        intro r hr
        refine Safe.bind (rangeLoop_safe f ih elem hty r.2.2 hr.2.2 init hinit r.1 r.2.1 hr.2.1) ?_
        intro r2 hr2
        exact ih.arrayInit1Loop elem r2.2 r2.1 (r.2.1 + 1) false hty hr2.1 hr2.2
      · intro _
        apply Safe.ite
        · intro hlt
          obtain ⟨c, hc', hsc⟩ := shapeAll_get elem _ i (arrOK_children hinit) hlt
          rw [getChild_of_get hc']
          show Safe _ (initializer2 f elem toks' c >>= _)
          refine Safe.bind (ih.initializer2 elem toks' c hty hsc h') ?_
          intro r hr
          exact ih.arrayInit1Loop elem r.2 _ (i + 1) false hty (arrOK_setChild hinit i r.1 hr.1) hr.2
        · intro _
          refine Safe.bind (skipExcess_safe f toks' h') ?_
          intro t2 ht2
          exact ih.arrayInit1Loop elem t2 init (i + 1) false hty hinit ht2
    apply Safe.ite
    · intro _; exact Safe.bind (Safe.pure htoks) body
    · intro _; exact Safe.bind (skipTok_safe _ _ _ htoks) body

theorem Safe.ite' {α : Type} {Q : α → Prop} {c : Prop} [Decidable c] {a b : Except Fail α}
    (ha : Safe Q a) (hb : Safe Q b) : Safe Q (if c then a else b) := by
  split
  · exact ha
  · exact hb

theorem Safe.of_eq {α : Type} {x : Except Fail α} {a : α} (h : x = .ok a) : Safe (fun y => a = y) x := by
  rw [h]; exact rfl

theorem member_at {ms : Members} {cs : List Init} {k : Nat} (hms : msOK ms = true) (hcs : shapeMs ms cs = true)
    (hk : k < ms.length) :
    ∃ mi t c, ms[k]? = some (mi, t) ∧ memTy ms k = .ok t ∧ getChild cs k = .ok c ∧ shape t c = true ∧ tyOK t = true := by
  obtain ⟨mi, t, hk'⟩ := get_of_lt ms k hk
  obtain ⟨c, hc, hs⟩ := member_child hcs hk'
  exact ⟨mi, t, c, hk', memTy_of_get hk', hc, hs, msOK_get ms k mi t hms hk'⟩

theorem stOK_children {ms : Members} {init : Init} (h : stOK ms init) : shapeMs ms init.children = true := by
  obtain ⟨e, cs, rfl, hcs⟩ := h; exact hcs

theorem unOK_children {ms : Members} {init : Init} (h : unOK ms init) : shapeMs ms init.children = true := by
  obtain ⟨e, m, cs, rfl, hcs⟩ := h; exact hcs

theorem aggOK_children {u : Bool} {ms : Members} {init : Init} (h : aggOK u ms init) : shapeMs ms init.children = true := by
  cases u
  · exact stOK_children h
  · exact unOK_children h

theorem structInit1_succ (f : Nat) (ih : NC f) (u : Bool) (ms : Members) (toks : List ITok) (init : Init) (hms : msOK ms = true)
    (hinit : aggOK u ms init) (htoks : toksOK toks = true) : Safe (PostG u ms) (structInit1 (f + 1) ms toks init) := by
  simp only [structInit1]
  refine Safe.bind (skipTok_safe _ _ _ htoks) ?_
  intro toks' h'
  exact ih.structInit1Loop u ms toks' init 0 true hms hinit h'

theorem structInit1Loop_succ (f : Nat) (ih : NC f) (u : Bool) (ms : Members) (toks : List ITok) (init : Init) (mem : Nat) (first : Bool)
    (hms : msOK ms = true) (hinit : aggOK u ms init) (htoks : toksOK toks = true) :
    Safe (PostG u ms) (structInit1Loop (f + 1) ms toks init mem first) := by
  simp only [structInit1Loop]
  split
  · rename_i rest hce
    exact ⟨hinit, consumeEnd_ok toks rest htoks hce⟩
  · have body : ∀ toks', toksOK toks' = true → Safe (PostG u ms)
        (match toks' with
        | .dot name :: r => do
          let __x ← structDesignator name ms 0
          let tok := if __x.snd = true then toks' else r
          let mty ← memTy ms __x.fst
          let c ← getChild init.children __x.fst
          let __x_1 ← designation f mty tok c
          structInit1Loop f ms __x_1.snd (init.setChild __x.fst __x_1.fst) (__x.fst + 1) false
        | x =>
          if skipUnnamedBf ms ms.length mem < ms.length then do
            let mty ← memTy ms (skipUnnamedBf ms ms.length mem)
            let c ← getChild init.children (skipUnnamedBf ms ms.length mem)
            let __x ← initializer2 f mty toks' c
            structInit1Loop f ms __x.snd (init.setChild (skipUnnamedBf ms ms.length mem) __x.fst)
              (skipUnnamedBf ms ms.length mem + 1) false
          else do
            let toks ← skipExcess f toks'
            structInit1Loop f ms toks init (skipUnnamedBf ms ms.length mem) false) := by
      intro toks' h'
      split
      · rename_i name r
        refine Safe.bind (structDesignator_safe name ms 0) ?_
        intro x hx
        obtain ⟨mi, t, c, hk', hm, hg, hsc, hty⟩ := member_at hms (aggOK_children hinit) (k := x.1) (by omega)
        have htok : toksOK (if x.snd = true then (.dot name :: r) else r) = true := by
          split
          · exact h'
          · exact toksOK_tail h'
        refine Safe.bind (Safe.of_eq hm) ?_
        rintro _ rfl
        refine Safe.bind (Safe.of_eq hg) ?_
        rintro _ rfl
        refine Safe.bind (ih.designation t _ c hty hsc htok) ?_
        intro r1 hr1
        exact ih.structInit1Loop u ms r1.2 _ (x.1 + 1) false hms (aggOK_setChild hinit x.1 mi t r1.1 hk' hr1.1) hr1.2
      · apply Safe.ite
        · intro hlt
          obtain ⟨mi, t, c, hk', hm, hg, hsc, hty⟩ := member_at hms (aggOK_children hinit) hlt
          refine Safe.bind (Safe.of_eq hm) ?_
          rintro _ rfl
          refine Safe.bind (Safe.of_eq hg) ?_
          rintro _ rfl
          refine Safe.bind (ih.initializer2 t toks' c hty hsc h') ?_
          intro r1 hr1
          exact ih.structInit1Loop u ms r1.2 _ _ false hms (aggOK_setChild hinit _ mi t r1.1 hk' hr1.1) hr1.2
        · intro _
          refine Safe.bind (skipExcess_safe f toks' h') ?_
          intro t2 ht2
          exact ih.structInit1Loop u ms t2 init _ false hms hinit ht2
    apply Safe.ite'
    · exact Safe.bind (Safe.pure htoks) body
    · exact Safe.bind (skipTok_safe _ _ _ htoks) body

theorem structInit2_succ (f : Nat) (ih : NC f) (u : Bool) (ms : Members) (toks : List ITok) (init : Init) (mem : Nat) (first : Bool)
    (hms : msOK ms = true) (hinit : aggOK u ms init) (htoks : toksOK toks = true) :
    Safe (PostG u ms) (structInit2 (f + 1) ms toks init mem first) := by
  simp only [structInit2]
  split
  · exact Safe.pure ⟨hinit, htoks⟩
  · rename_i mi mty hget
    apply Safe.ite
    · intro _; exact Safe.pure ⟨hinit, htoks⟩
    · intro _
      apply Safe.ite
      · intro _; exact ih.structInit2 u ms toks init (mem + 1) first hms hinit htoks
      · intro _
        have body : ∀ toks', toksOK toks' = true → Safe (PostG u ms)
            (if isDesg toks' = true then pure (init, toks) else do
              let c ← getChild init.children mem
              let __x ← initializer2 f mty toks' c
              structInit2 f ms __x.snd (init.setChild mem __x.fst) (mem + 1) false) := by
          intro toks' h'
          apply Safe.ite
          · intro _; exact Safe.pure ⟨hinit, htoks⟩
          · intro _
            obtain ⟨c, hg, hsc⟩ := member_child (aggOK_children hinit) hget
            refine Safe.bind (Safe.of_eq hg) ?_
            rintro _ rfl
            refine Safe.bind (ih.initializer2 mty toks' c (msOK_get ms mem mi mty hms hget) hsc h') ?_
            intro r1 hr1
            exact ih.structInit2 u ms r1.2 _ (mem + 1) false hms (aggOK_setChild hinit mem mi mty r1.1 hget hr1.1) hr1.2
        apply Safe.ite'
        · exact Safe.bind (Safe.pure htoks) body
        · exact Safe.bind (skipTok_safe _ _ _ htoks) body

theorem firstNamed_lt (ms : Members) : ∀ (n i : Nat), i < ms.length → firstNamed ms n i < ms.length
  | 0, i, h => h
  | n + 1, i, h => by
    simp only [firstNamed]
    split
    · rename_i mi t x h1 h2
      split
      · apply firstNamed_lt ms n (i + 1)
        have := (List.getElem?_eq_some_iff.1 h2).1
        exact this
      · exact h
    · exact h

theorem elem_cases {ty elem : Ty} (h : ty.elem? = some elem) : (∃ n, ty = .array elem n) ∨ ty = .inc elem := by
  cases ty <;> simp [Ty.elem?] at h
  · left; exact ⟨_, by rw [h]⟩
  · right; rw [h]

theorem postA_array {elem : Ty} {n : Nat} {x : Except Fail (Init × List ITok)} (h : Safe (PostA elem) x) :
    Safe (Post (.array elem n)) x :=
  h.mono (fun r hr => ⟨(shape_array_iff elem n r.1).2 (Or.inr hr.1), hr.2⟩)

theorem postA_inc {elem : Ty} {x : Except Fail (Init × List ITok)} (h : Safe (PostA elem) x) :
    Safe (Post (.inc elem)) x :=
  h.mono (fun r hr => ⟨(shape_inc_iff elem r.1).2 (Or.inr hr.1), hr.2⟩)

theorem postS_struct {ms : Members} {n : Nat} {fl : Bool} {x : Except Fail (Init × List ITok)} (h : Safe (PostS ms) x) :
    Safe (Post (.struct ms n fl)) x :=
  h.mono (fun r hr => ⟨(shape_struct_iff ms n fl r.1).2 hr.1, hr.2⟩)

theorem postU_union {ms : Members} {n : Nat} {fl : Bool} {x : Except Fail (Init × List ITok)} (h : Safe (PostU ms) x) :
    Safe (Post (.union ms n fl)) x :=
  h.mono (fun r hr => ⟨(shape_union_iff ms n fl r.1).2 hr.1, hr.2⟩)

/-- the tail shared by the braced arms: `consume(&tok, tok, ","); *rest = skip(tok, "}")` -/
theorem closeBrace_safe {α : Type} (Q : α × List ITok → Prop) (v : α) (tok : List ITok) :
    toksOK tok = true → (∀ rest, toksOK rest = true → Q (v, rest)) →
    Safe Q (do
      let rest ← skipTok .rbrace "}" (match tok with | .comma :: t => t | t => t)
      pure (v, rest)) := by
  intro htok hq
  refine Safe.bind (skipTok_safe _ _ _ (dropComma_ok tok htok)) ?_
  intro rest hrest
  exact Safe.pure (hq rest hrest)

/-- `union_rest`: the loop over the remaining initializers of a union's list -/
theorem unionRest_succ (f : Nat) (ih : NC f) (ms : Members) (toks : List ITok) (init : Init) (hms : msOK ms = true)
    (hinit : unOK ms init) (htoks : toksOK toks = true) :
    Safe (PostU ms) (unionRest (f + 1) ms toks init) := by
  simp only [unionRest]
  split
  · rename_i rest hce
    exact Safe.ok ⟨hinit, consumeEnd_ok toks rest htoks hce⟩
  · refine Safe.bind (skipTok_safe _ _ _ htoks) ?_
    intro toks1 htoks1
    split
    · rename_i name r
      refine Safe.bind (structDesignator_safe name ms 0) ?_
      intro x hx
      obtain ⟨mi0, t0, hk0⟩ := get_of_lt ms x.1 (by omega)
      refine Safe.bind (Safe.of_eq (memTy_of_get hk0)) ?_
      rintro _ rfl
      have hinit1 : unOK ms (if init.mem? = some x.1 then init else init.setChild x.1 (newInit t0 false)) := by
        split
        · exact hinit
        · exact unOK_setChild hinit x.1 mi0 t0 _ hk0 (newInit_shape t0 false (msOK_get ms x.1 mi0 t0 hms hk0))
      have hinit' := unOK_setMem hinit1 x.1
      obtain ⟨mi, t, c, hk', hm, hg, hsc, hty⟩ := member_at hms (unOK_children hinit') (k := x.1) (by omega)
      rw [hk0] at hk'
      cases hk'
      have htok : toksOK (if x.snd = true then (.dot name :: r) else r) = true := by
        split
        · exact htoks1
        · exact toksOK_tail htoks1
      refine Safe.bind (Safe.of_eq hg) ?_
      rintro _ rfl
      refine Safe.bind (ih.designation _ _ c hty hsc htok) ?_
      intro r1 hr1
      exact ih.unionRest ms r1.2 _ hms (unOK_setChild hinit' x.1 mi0 t0 r1.1 hk0 hr1.1) hr1.2
    · refine Safe.bind (skipExcess_safe f toks1 htoks1) ?_
      intro toks2 htoks2
      exact ih.unionRest ms toks2 init hms hinit htoks2

theorem unionInit_succ (f : Nat) (ih : NC f) (ms : Members) (toks : List ITok) (init : Init) (hms : msOK ms = true)
    (hinit : unOK ms init) (htoks : toksOK toks = true) :
    Safe (PostU ms) (unionInit (f + 1) ms toks init) := by
  simp only [unionInit]
  split
  · rename_i name r
    refine Safe.bind (structDesignator_safe name ms 0) ?_
    intro x hx
    have hinit' := unOK_setMem hinit x.1
    obtain ⟨mi, t, c, hk', hm, hg, hsc, hty⟩ := member_at hms (unOK_children hinit') (k := x.1) (by omega)
    have htok : toksOK (if x.snd = true then (.dot name :: r) else r) = true := by
      split
      · exact toksOK_tail htoks
      · exact toksOK_tail (toksOK_tail htoks)
    refine Safe.bind (Safe.of_eq hm) ?_
    rintro _ rfl
    refine Safe.bind (Safe.of_eq hg) ?_
    rintro _ rfl
    refine Safe.bind (ih.designation t _ c hty hsc htok) ?_
    intro r1 hr1
    exact ih.unionRest ms r1.2 _ hms (unOK_setChild hinit' x.1 mi t r1.1 hk' hr1.1) hr1.2
  · apply Safe.ite
    · intro _
      apply Safe.ite
      · intro _; exact ih.structInit1 true ms toks init hms hinit htoks
      · intro _; exact Safe.pure ⟨hinit, htoks⟩
    · intro hne
      have hlen : 0 < ms.length := by
        cases ms with
        | nil => simp at hne
        | cons m r => simp
      have hk := firstNamed_lt ms ms.length 0 hlen
      have hinit' := unOK_setMem hinit (firstNamed ms ms.length 0)
      obtain ⟨mi, t, c, hk', hm, hg, hsc, hty⟩ := member_at hms (unOK_children hinit') hk
      split
      · rename_i r _
        refine Safe.bind (Safe.of_eq hm) ?_
        rintro _ rfl
        refine Safe.bind (Safe.of_eq hg) ?_
        rintro _ rfl
        refine Safe.bind (ih.initializer2 t r c hty hsc (toksOK_tail htoks)) ?_
        intro r1 hr1
        exact ih.unionRest ms r1.2 _ hms (unOK_setChild hinit' _ mi t r1.1 hk' hr1.1) hr1.2
      · refine Safe.bind (Safe.of_eq hm) ?_
        rintro _ rfl
        refine Safe.bind (Safe.of_eq hg) ?_
        rintro _ rfl
        refine Safe.bind (ih.initializer2 t toks c hty hsc htoks) ?_
        intro r1 hr1
        exact Safe.pure ⟨unOK_setChild hinit' _ mi t r1.1 hk' hr1.1, hr1.2⟩

/-- the braced-string branch of `initializer2` (C11 6.7.9p14-15): the literal has one of tokenize's element sizes and what
    follows the closing brace is a well-formed token list -/
theorem bracedStr_toksOK {elem : Ty} {r : List ITok} {id : Nat} {bytes : List Nat} {esz : Nat} {rest : List ITok}
    (h : bracedStr elem r = some (id, bytes, esz, rest)) (hr : toksOK r = true) :
    (esz = 1 ∨ esz = 2 ∨ esz = 4) ∧ toksOK rest = true := by
  obtain ⟨tail, rfl, hce, _, _⟩ := bracedStr_some h
  have h1 := toksOK_head hr
  simp only [tokOK, Bool.or_eq_true, beq_iff_eq] at h1
  refine ⟨by omega, ?_⟩
  have h2 := toksOK_tail hr
  unfold consumeEnd at hce
  split at hce
  · cases hce; exact toksOK_tail h2
  · cases hce; exact toksOK_tail (toksOK_tail h2)
  · cases hce

theorem initializer2_succ (f : Nat) (ih : NC f) (ty : Ty) (toks : List ITok) (init : Init) (hty : tyOK ty = true)
    (hinit : shape ty init = true) (htoks : toksOK toks = true) :
    Safe (Post ty) (initializer2 (f + 1) ty toks init) := by
  cases ty with
  | array elem n =>
    have hty' : tyOK elem = true := by simpa [tyOK] using hty
    have hi := (shape_array_iff elem n init).1 hinit
    simp only [initializer2]
    split
    · rename_i id bytes esz r
      apply Safe.ite
      · intro _
        have := toksOK_head htoks
        simp only [tokOK, Bool.or_eq_true, beq_iff_eq] at this
        exact postA_array (stringInitializer_safe elem bytes esz r init hty' (by omega) hi (toksOK_tail htoks))
      · intro _; exact postA_array (ih.arrayInit2 elem _ init 0 hty' hi htoks)
    · split
      · rename_i hbs
        obtain ⟨h1, h2⟩ := bracedStr_toksOK hbs (toksOK_tail htoks)
        exact postA_array (stringInitializer_safe elem _ _ _ init hty' h1 hi h2)
      · exact postA_array (ih.arrayInit1 elem _ init hty' hi htoks)
    · exact postA_array (ih.arrayInit2 elem _ init 0 hty' hi htoks)
  | inc elem =>
    have hty' : tyOK elem = true := by simpa [tyOK] using hty
    have hi := (shape_inc_iff elem init).1 hinit
    simp only [initializer2]
    split
    · rename_i id bytes esz r
      apply Safe.ite
      · intro _
        have := toksOK_head htoks
        simp only [tokOK, Bool.or_eq_true, beq_iff_eq] at this
        exact postA_inc (stringInitializer_safe elem bytes esz r init hty' (by omega) hi (toksOK_tail htoks))
      · intro _; exact postA_inc (ih.arrayInit2 elem _ init 0 hty' hi htoks)
    · split
      · rename_i hbs
        obtain ⟨h1, h2⟩ := bracedStr_toksOK hbs (toksOK_tail htoks)
        exact postA_inc (stringInitializer_safe elem _ _ _ init hty' h1 hi h2)
      · exact postA_inc (ih.arrayInit1 elem _ init hty' hi htoks)
    · exact postA_inc (ih.arrayInit2 elem _ init 0 hty' hi htoks)
  | struct ms n fl =>
    have hms : msOK ms = true := by
      simp only [tyOK, Bool.and_eq_true] at hty; exact hty.1
    have hi := (shape_struct_iff ms n fl init).1 hinit
    simp only [initializer2]
    apply Safe.ite
    · intro _; exact postS_struct (ih.structInit1 false ms toks init hms hi htoks)
    · intro _
      refine Safe.bind (parseAssign_safe toks htoks) ?_
      intro r hr
      apply Safe.ite
      · intro _; exact Safe.pure ⟨(shape_struct_iff ms n fl _).2 (stOK_setExpr hi _), hr⟩
      · intro _; exact postS_struct (ih.structInit2 false ms toks init 0 true hms hi htoks)
  | union ms n fl =>
    have hms : msOK ms = true := by
      simp only [tyOK, Bool.and_eq_true] at hty; exact hty.1
    have hi := (shape_union_iff ms n fl init).1 hinit
    simp only [initializer2]
    apply Safe.ite
    · intro _; exact postU_union (ih.unionInit ms toks init hms hi htoks)
    · intro _
      refine Safe.bind (parseAssign_safe toks htoks) ?_
      intro r hr
      apply Safe.ite
      · intro _; exact Safe.pure ⟨(shape_union_iff ms n fl _).2 (unOK_setExpr hi _), hr⟩
      · intro _; exact postU_union (ih.unionInit ms toks init hms hi htoks)
  | scalar sz k =>
    simp only [initializer2]
    split
    · rename_i r
      refine Safe.bind (ih.initializer2 (.scalar sz k) r init hty hinit (toksOK_tail htoks)) ?_
      intro r1 hr1
      exact closeBrace_safe (Post (.scalar sz k)) r1.1 r1.2 hr1.2 (fun rest hrest => ⟨hr1.1, hrest⟩)
    · refine Safe.bind (parseAssign_safe toks htoks) ?_
      intro r hr
      exact Safe.pure ⟨setExpr_shape _ init _ hinit, hr⟩

/-- the `[` arm of `designation` -/
theorem designation_idx (f : Nat) (ih : NC f) (ty : Ty) (toks : List ITok) (hty : tyOK ty = true)
    (htoks : toksOK toks = true) (hb : isBracket toks = true) : ∀ (init : Init), shape ty init = true →
    Safe (Post ty) (match ty.elem? with
      | none => .error (.diag "array index in non-array initializer")
      | some elem =>
        match init with
        | .flex => .error (.diag "array designator index exceeds array bounds")
        | _ => do
          let __x ← arrayDesignator init.children.length toks
          let __x_1 ←
            List.foldlM
                (fun acc i => do
                  let c ← getChild acc.fst.children i
                  let __x ← designation f elem __x.2.snd c
                  pure (acc.fst.setChild i __x.fst, __x.snd))
                (init, __x.2.snd) (List.range' __x.fst (__x.2.fst + 1 - __x.fst))
          arrayInit2 f elem __x_1.snd __x_1.fst (__x.2.fst + 1)) := by
  intro init hinit
  cases he : ty.elem? with
  | none => exact Safe.diag
  | some elem =>
    simp only
    have hcases := elem_cases he
    have hty' : tyOK elem = true := by
      rcases hcases with ⟨n, rfl⟩ | rfl <;> simpa [tyOK] using hty
    have hi : init = .flex ∨ arrOK elem init := by
      rcases hcases with ⟨n, rfl⟩ | rfl
      · exact (shape_array_iff elem n init).1 hinit
      · exact (shape_inc_iff elem init).1 hinit
    have hpost : ∀ x, Safe (PostA elem) x → Safe (Post ty) x := by
      intro x hx
      rcases hcases with ⟨n, rfl⟩ | rfl
      · exact postA_array hx
      · exact postA_inc hx
    rcases hi with rfl | hao
    · exact Safe.diag
    · obtain ⟨cs, rfl, hcs⟩ := hao
      simp only
      apply hpost
      refine Safe.bind (arrayDesignator_safe _ toks htoks hb) ?_
      intro r hr
      refine Safe.bind (rangeLoop_safe f ih elem hty' r.2.2 hr.2.2 (.arr cs) ⟨cs, rfl, hcs⟩ r.1 r.2.1 hr.2.1) ?_
      intro r2 hr2
      exact ih.arrayInit2 elem r2.2 r2.1 (r.2.1 + 1) hty' (Or.inr hr2.1) hr2.2

theorem designation_succ (f : Nat) (ih : NC f) (ty : Ty) (toks : List ITok) (init : Init) (hty : tyOK ty = true)
    (hinit : shape ty init = true) (htoks : toksOK toks = true) :
    Safe (Post ty) (designation (f + 1) ty toks init) := by
  cases toks with
  | nil => simp only [designation]; exact ih.initializer2 ty [] init hty hinit htoks
  | cons x r =>
    cases x with
    | idx a =>
      simp only [designation]
      exact designation_idx f ih ty _ hty htoks rfl init hinit
    | range a b =>
      simp only [designation]
      exact designation_idx f ih ty _ hty htoks rfl init hinit
    | eq => simp only [designation]; exact ih.initializer2 ty r init hty hinit (toksOK_tail htoks)
    | dot name =>
      cases ty with
      | struct ms n fl =>
        have hms : msOK ms = true := by
          simp only [tyOK, Bool.and_eq_true] at hty; exact hty.1
        have hi := (shape_struct_iff ms n fl init).1 hinit
        simp only [designation]
        refine Safe.bind (structDesignator_safe name ms 0) ?_
        intro x hx
        obtain ⟨mi, t, c, hk', hm, hg, hsc, hty'⟩ := member_at hms (stOK_children hi) (k := x.1) (by omega)
        have htok : toksOK (if x.snd = true then (.dot name :: r) else r) = true := by
          split
          · exact htoks
          · exact toksOK_tail htoks
        refine Safe.bind (Safe.of_eq hm) ?_
        rintro _ rfl
        refine Safe.bind (Safe.of_eq hg) ?_
        rintro _ rfl
        refine Safe.bind (ih.designation t _ c hty' hsc htok) ?_
        intro r1 hr1
        exact postS_struct (ih.structInit2 false ms r1.2 _ (x.1 + 1) false hms
          (stOK_setExpr (stOK_setChild hi x.1 mi t r1.1 hk' hr1.1) none) hr1.2)
      | union ms n fl =>
        have hms : msOK ms = true := by
          simp only [tyOK, Bool.and_eq_true] at hty; exact hty.1
        have hi := (shape_union_iff ms n fl init).1 hinit
        simp only [designation]
        refine Safe.bind (structDesignator_safe name ms 0) ?_
        intro x hx
        have hi' := unOK_setMem hi x.1
        obtain ⟨mi, t, c, hk', hm, hg, hsc, hty'⟩ := member_at hms (unOK_children hi') (k := x.1) (by omega)
        have htok : toksOK (if x.snd = true then (.dot name :: r) else r) = true := by
          split
          · exact htoks
          · exact toksOK_tail htoks
        refine Safe.bind (Safe.of_eq hm) ?_
        rintro _ rfl
        refine Safe.bind (Safe.of_eq hg) ?_
        rintro _ rfl
        refine Safe.bind (ih.designation t _ c hty' hsc htok) ?_
        intro r1 hr1
        exact Safe.pure ⟨(shape_union_iff ms n fl _).2 (unOK_setChild hi' x.1 mi t r1.1 hk' hr1.1), hr1.2⟩
      | scalar _ _ => simp only [designation]; exact Safe.diag
      | array _ _ => simp only [designation]; exact Safe.diag
      | inc _ => simp only [designation]; exact Safe.diag
    | lbrace => simp only [designation]; exact ih.initializer2 ty _ init hty hinit htoks
    | rbrace => simp only [designation]; exact ih.initializer2 ty _ init hty hinit htoks
    | comma => simp only [designation]; exact ih.initializer2 ty _ init hty hinit htoks
    | expr e => simp only [designation]; exact ih.initializer2 ty _ init hty hinit htoks
    | str id bytes esz => simp only [designation]; exact ih.initializer2 ty _ init hty hinit htoks

theorem countLoop_succ (f : Nat) (ih : NC f) (elem : Ty) (toks : List ITok) (d : Init) (i mx : Int) (first : Bool)
    (hty : tyOK elem = true) (hd : shape elem d = true) (htoks : toksOK toks = true) :
    Safe (fun _ => True) (countLoop (f + 1) elem toks d i mx first) := by
  simp only [countLoop]
  split
  · trivial
  · have step : ∀ toks', toksOK toks' = true → ∀ (i : Int),
        Safe (fun (r : Init × List ITok × Int) => shape elem r.1 = true ∧ toksOK r.2.1 = true)
          (match toks' with
            | .idx a :: r => do
              let (d, t) ← designation f elem r d
              pure (d, t, a)
            | .range _ b :: r => do
              let (d, t) ← designation f elem r d
              pure (d, t, b)
            | _ => do
              let (d, t) ← initializer2 f elem toks' d
              pure (d, t, i) : Except Fail (Init × List ITok × Int)) := by
      intro toks' h' i
      split
      · exact Safe.bind (ih.designation elem _ d hty hd (toksOK_tail h')) (fun r hr => Safe.pure ⟨hr.1, hr.2⟩)
      · exact Safe.bind (ih.designation elem _ d hty hd (toksOK_tail h')) (fun r hr => Safe.pure ⟨hr.1, hr.2⟩)
      · exact Safe.bind (ih.initializer2 elem _ d hty hd h') (fun r hr => Safe.pure ⟨hr.1, hr.2⟩)
    have body : ∀ toks', toksOK toks' = true → Safe (fun _ => True)
        (do
          let __x ← (match toks' with
            | .idx a :: r => do
              let (d, t) ← designation f elem r d
              pure (d, t, a)
            | .range _ b :: r => do
              let (d, t) ← designation f elem r d
              pure (d, t, b)
            | _ => do
              let (d, t) ← initializer2 f elem toks' d
              pure (d, t, i) : Except Fail (Init × List ITok × Int))
          countLoop f elem __x.2.1 __x.1 (__x.2.2 + 1) (max mx (__x.2.2 + 1)) false) := by
      intro toks' h'
      refine Safe.bind (step toks' h' i) ?_
      intro r hr
      exact ih.countLoop elem r.2.1 r.1 _ _ false hty hr.1 hr.2
    apply Safe.ite'
    · exact Safe.bind (Safe.pure htoks) body
    · exact Safe.bind (skipTok_safe _ _ _ htoks) body

theorem nc_succ (f : Nat) (ih : NC f) : NC (f + 1) where
  designation := designation_succ f ih
  countLoop := countLoop_succ f ih
  countArrayInit := countArrayInit_succ f ih
  arrayInit1Loop := arrayInit1Loop_succ f ih
  arrayInit1 := arrayInit1_succ f ih
  arrayInit2Loop := arrayInit2Loop_succ f ih
  arrayInit2 := arrayInit2_succ f ih
  structInit1Loop := structInit1Loop_succ f ih
  structInit1 := structInit1_succ f ih
  structInit2 := structInit2_succ f ih
  unionRest := unionRest_succ f ih
  unionInit := unionInit_succ f ih
  initializer2 := initializer2_succ f ih

theorem nc_all : ∀ f, NC f
  | 0 => nc_zero
  | f + 1 => nc_succ f (nc_all f)

end ChibiVerif.C13Init
