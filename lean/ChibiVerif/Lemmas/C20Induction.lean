/-
C20: the scope predicates of the `_partial` theorems and the structural induction over the Node
tree of `Model/Codegen` (the theorems of Props/C20.lean are this induction, unfolded).

`covE env n` / `covA env n` / `covS env n` are decidable (`Bool`) and say two things about a tree:

* coverage — which node kinds the induction reaches so far: every expression kind whose code is
  straight-line (no jump, no label): NULL_EXPR, NUM, VAR, MEMBER (bit-fields included), DEREF, ADDR,
  NEG, BITNOT, NOT, CAST, COMMA, ASSIGN (bit-field stores included), MEMZERO, LABEL_VAL, EXCH and the
  fourteen binary operators for integer, pointer, float, double and long double operands; the
  statements EXPR_STMT, BLOCK and ASM.  Not yet: FUNCALL, COND, LOGAND, LOGOR, STMT_EXPR, CAS and
  the control-flow statements (their code has labels; `Effect.checkBody` validates them on every
  function of the corpus instead).
* typing — the long-double-ness of a node's type agrees with that of its operands the way
  `add_type` (type.c) makes it: the x87 claim of C20 ("+1 iff the node's type is long double") is
  false on trees that `parse()` cannot produce, e.g. a `long double` ADD node with an `int`
  operand.  The tie run checks `typedOK` on every dumped tree (`drv_c20 scope`).
-/
import ChibiVerif.Lemmas.C20Lemmas
import ChibiVerif.Lemmas.C20Calls

namespace ChibiVerif.Lemmas.C20
open ChibiVerif ChibiVerif.Codegen ChibiVerif.Effect ChibiVerif.Asm ChibiVerif.Ast ChibiVerif.C20Scope

theorem bfX_zero {env : Env} {lhs : Node} (h : bfOK env lhs = true) : bfX env (bitfieldOf lhs) = 0 := by
  unfold bfOK at h
  unfold bfX
  split <;> simp_all [xOf]

theorem Sem_isAllocaCall {K : CodeK} [CodePred K] (lhs : Node) : SemP K (isAllocaCall lhs) 0 0 0 := by
  unfold isAllocaCall
  sem

theorem Ret_isAllocaCall {lhs : Node} (h : notAlloca lhs = true) : Ret (isAllocaCall lhs) (fun b => b = false) := by
  unfold isAllocaCall
  cases lhs <;> first | exact Ret_pure rfl | exact Ret_fail _ | skip
  rename_i i v
  cases v with
  | none =>
    intro s a s' ls hm
    simp [bind, M.bind, needVar, nullDeref, fail] at hm
  | some v =>
    simp only [needVar, M_pure_bind]
    cases hn : v.name with
    | none => exact Ret_fail _
    | some n =>
      simp only [notAlloca, hn, bne_iff_ne, ne_eq, Option.some.injEq] at h
      exact Ret_pure (by simpa using h)

theorem genArgs_tys (env : Env) : ∀ l : NodeList, (genArgs env l).map (·.ty) = l.toList.map Node.ty?
  | .nil => by rw [genArgs]; rfl
  | .cons a rest => by rw [genArgs]; simp [NodeList.toList, genArgs_tys env rest]

theorem structArgsOK_of_b : ∀ l : NodeList, structArgsOKb l = true → StructArgsOK (l.toList.map Node.ty?)
  | .nil, _ => by intro t ht; simp [NodeList.toList] at ht
  | .cons a rest, h => by
    simp only [structArgsOKb, Bool.and_eq_true] at h
    intro t ht hst
    simp only [NodeList.toList, List.map_cons, List.mem_cons] at ht
    rcases ht with ht | ht
    · rw [← ht] at h
      simpa [hst] using h.1
    · exact structArgsOK_of_b rest h.2 t ht hst

set_option maxHeartbeats 1000000 in
mutual
theorem expr_ok (env : Env) : (n : Node) → covE env n = true → Sem (genExpr env n) 0 (xOf n.ty?) 0
  | .nullExpr i, h => by
    rw [genExpr]
    simp only [covE, Bool.not_eq_true'] at h
    simp only [ty?_nullExpr, xOf_zero h]
    exact Sem_loc i
  | .num i a b c d e, _ => by
    rw [genExpr]
    have := Sem_numArm (K := Straight) i a b c d e
    simp only [ty?_num]
    sem
  | .neg i lhs, h => by
    rw [genExpr]
    simp only [covE, Bool.and_eq_true, beq_iff_eq] at h
    have ih := expr_ok env lhs h.1
    have := Sem_negArm (K := Straight) i ih
    simp only [ty?_neg, xOf_eq_of_isLD h.2]
    sem
  | .var i v, _ => by
    rw [genExpr]
    simp only [ty?_var]
    sem
  | .member i lhs mem, h => by
    rw [genExpr]
    simp only [covE] at h
    have := Sem_memberArm (K := Straight) i (addr_ok env lhs h) mem env
    simp only [ty?_member]
    sem
  | .deref i lhs, h => by
    rw [genExpr]
    simp only [covE, Bool.and_eq_true, Bool.not_eq_true'] at h
    have ih := expr_ok env lhs h.1
    rw [xOf_zero h.2] at ih
    simp only [ty?_deref]
    sem
  | .addr i lhs, h => by
    rw [genExpr]
    simp only [covE, Bool.and_eq_true, Bool.not_eq_true'] at h
    have ih := addr_ok env lhs h.1
    simp only [ty?_addr, xOf_zero h.2]
    sem
  | .assign i lhs rhs, h => by
    rw [genExpr]
    simp only [covE, Bool.and_eq_true, beq_iff_eq] at h
    obtain ⟨⟨⟨h1, h2⟩, h3⟩, h4⟩ := h
    have := Sem_assignArm (K := Straight) env i (bitfieldOf lhs) (addr_ok env lhs h1) (expr_ok env rhs h2)
    rw [bfX_zero h4] at this
    simp only [ty?_assign, xOf_eq_of_isLD h3]
    sem
  | .comma i lhs rhs, h => by
    rw [genExpr]
    simp only [covE, Bool.and_eq_true, beq_iff_eq] at h
    obtain ⟨⟨h1, h2⟩, h3⟩ := h
    have ih1 := expr_ok env lhs h1
    have ih2 := expr_ok env rhs h2
    simp only [ty?_comma, xOf_eq_of_isLD h3]
    sem
  | .cast i lhs, h => by
    rw [genExpr]
    simp only [covE] at h
    have ih := expr_ok env lhs h
    simp only [ty?_cast]
    sem
  | .memzero i v, h => by
    rw [genExpr]
    simp only [covE, Bool.not_eq_true'] at h
    have := Sem_memzeroArm (K := Straight) env v
    simp only [ty?_memzero, xOf_zero h]
    sem
  | .not i lhs, h => by
    rw [genExpr]
    simp only [covE, Bool.and_eq_true, Bool.not_eq_true'] at h
    have := Sem_notArm (K := Straight) lhs.ty? (expr_ok env lhs h.1)
    simp only [ty?_not, xOf_zero h.2]
    sem
  | .bitnot i lhs, h => by
    rw [genExpr]
    simp only [covE, Bool.and_eq_true, Bool.not_eq_true'] at h
    obtain ⟨⟨h1, h2⟩, h3⟩ := h
    have ih := expr_ok env lhs h1
    rw [xOf_zero h2] at ih
    simp only [ty?_bitnot, xOf_zero h3]
    sem
  | .exch i lhs rhs, h => by
    rw [genExpr]
    simp only [covE, Bool.and_eq_true, Bool.not_eq_true'] at h
    obtain ⟨⟨⟨⟨h1, h2⟩, h3⟩, h4⟩, h5⟩ := h
    have ih1 := expr_ok env lhs h1
    have ih2 := expr_ok env rhs h2
    rw [xOf_zero h3] at ih1
    rw [xOf_zero h4] at ih2
    have := Sem_exchArm (K := Straight) env lhs.ty? ih1 ih2
    simp only [ty?_exch, xOf_zero h5]
    sem
  | .labelVal i a b, h => by
    rw [genExpr]
    simp only [covE, Bool.not_eq_true'] at h
    simp only [ty?_labelVal, xOf_zero h]
    sem
  | .binop i op lhs rhs, h => by
    -- `node->lhs` is not NULL
    have hnn : lhs = Node.null → False := by
      intro e; subst e; simp [covE, notNull] at h
    rw [genExpr]
    case x_2 => exact hnn
    simp only [covE, Bool.and_eq_true, binopTyped, beq_iff_eq] at h
    obtain ⟨⟨⟨h1, h2⟩, h3⟩, h4, h5⟩ := h
    have ih1 := expr_ok env lhs h1
    have ih2 := expr_ok env rhs h2
    simp only [ty?_binop]
    refine Sem_bind_td (Sem_loc i) (fun _ => ?_)
    unfold binopArm
    refine Sem_needTy_bind fun lty hty => ?_
    by_cases hld : isLD lhs.ty? = true
    · -- long double operands
      have hk : lty.kind = .ldouble := by simpa [hty, isLD] using hld
      have hr : isLD rhs.ty? = true := by rw [← h4]; exact hld
      rw [xOf_one hld] at ih1
      rw [xOf_one hr] at ih2
      have := Sem_binopLd (K := Straight) op ih1 ih2
      simp only [hk]
      refine this.cast (by omega) ?_ (by omega)
      by_cases hc : isCmp op = true
      · have : isLD i.ty = false := by rw [h5, hld, hc]; rfl
        simp [hc, xOf_zero this]
      · have hc' : isCmp op = false := by simpa using hc
        have : isLD i.ty = true := by rw [h5, hld, hc']; rfl
        simp [hc', xOf_one this]
    · have hld' : isLD lhs.ty? = false := by simpa using hld
      have hk : lty.kind ≠ .ldouble := by
        intro hk; rw [hty] at hld'; simp [isLD, hk] at hld'
      have hr : isLD rhs.ty? = false := by rw [← h4]; exact hld'
      have hi : isLD i.ty = false := by rw [h5, hld']; rfl
      rw [xOf_zero hld'] at ih1
      rw [xOf_zero hr] at ih2
      have f1 := Sem_binopFlo (K := Straight) "ss" (Or.inl rfl) op ih1 ih2
      have f2 := Sem_binopFlo (K := Straight) "sd" (Or.inr rfl) op ih1 ih2
      have f3 := Sem_binopInt (K := Straight) i op lty ih1 ih2
      rw [xOf_zero hi]
      split
      · exact f1.cast (by omega) (by omega) (by omega)
      · exact f2.cast (by omega) (by omega) (by omega)
      · rename_i hk'; exact absurd hk' hk
      · exact f3.cast (by omega) (by omega) (by omega)
  | .funcall i lhs fty rb args, h => by
    rw [genExpr]
    simp only [covE, Bool.and_eq_true, Bool.not_eq_true'] at h
    obtain ⟨⟨⟨⟨h1, h2⟩, h3⟩, h4⟩, h5⟩ := h
    have ih := expr_ok env lhs h1
    rw [xOf_zero h2] at ih
    have hs : StructArgsOK ((genArgs env args).map (·.ty)) := by
      rw [genArgs_tys]; exact structArgsOK_of_b args h5
    have := Sem_funcallArm (K := Straight) env i rb (genArgs env args) (Sem_isAllocaCall lhs) (Ret_isAllocaCall h3) ih
      (args_ok env args h4) hs
    simp only [ty?_funcall]
    sem
  | .null, h | .cond .., h | .logand .., h | .logor .., h | .ret .., h | .if_ .., h | .for_ .., h
  | .do_ .., h | .switch_ .., h | .case_ .., h | .block .., h | .goto_ .., h | .gotoExpr .., h
  | .label .., h | .exprStmt .., h | .stmtExpr .., h | .vlaPtr .., h | .asm_ .., h
  | .cas .., h => by simp [covE] at h
theorem addr_ok (env : Env) : (n : Node) → covA env n = true → Sem (genAddr env n) 0 0 0
  | .var i v, _ => by
    rw [genAddr]
    exact Sem_addrVar env i v
  | .deref i lhs, h => by
    rw [genAddr]
    simp only [covA, Bool.and_eq_true, Bool.not_eq_true'] at h
    have ih := expr_ok env lhs h.1
    rw [xOf_zero h.2] at ih
    exact ih
  | .comma i lhs rhs, h => by
    rw [genAddr]
    simp only [covA, Bool.and_eq_true] at h
    have ih1 := expr_ok env lhs h.1
    have ih2 := addr_ok env rhs h.2
    sem
  | .member i lhs mem, h => by
    rw [genAddr]
    simp only [covA] at h
    exact Sem_addrMember (addr_ok env lhs h) mem
  | .vlaPtr i v, _ => by
    rw [genAddr]
    sem
  | .assign i lhs rhs, h => by
    rw [genAddr]
    simp only [covA, Bool.and_eq_true, Bool.not_eq_true'] at h
    obtain ⟨⟨⟨h1, h2⟩, h3⟩, h4⟩ := h
    have ih2 := expr_ok env rhs h2
    rw [xOf_zero h3] at ih2
    have := Sem_assignArm (K := Straight) env i (bitfieldOf lhs) (addr_ok env lhs h1) ih2
    rw [bfX_zero h4] at this
    sem
  | .funcall i lhs fty rb args, h => by
    simp only [covA, Bool.and_eq_true, Bool.not_eq_true'] at h
    obtain ⟨⟨⟨⟨⟨h1, h2⟩, h3⟩, h4⟩, h5⟩, h6⟩ := h
    have ih := expr_ok env lhs h1
    rw [xOf_zero h2] at ih
    have hs : StructArgsOK ((genArgs env args).map (·.ty)) := by
      rw [genArgs_tys]; exact structArgsOK_of_b args h5
    have := Sem_funcallArm (K := Straight) env i rb (genArgs env args) (Sem_isAllocaCall lhs) (Ret_isAllocaCall h3) ih
      (args_ok env args h4) hs
    rw [xOf_zero h6] at this
    cases rb with
    | none => rw [genAddr]; exact Sem_fail _
    | some v => rw [genAddr]; sem
  | .null, h | .nullExpr .., h | .num .., h | .neg .., h | .addr .., h | .binop .., h | .cond .., h
  | .not .., h | .bitnot .., h | .logand .., h | .logor .., h | .ret .., h | .if_ .., h | .for_ .., h
  | .do_ .., h | .switch_ .., h | .case_ .., h | .block .., h | .goto_ .., h | .gotoExpr .., h
  | .label .., h | .labelVal .., h | .exprStmt .., h | .stmtExpr .., h | .cast .., h
  | .memzero .., h | .asm_ .., h | .cas .., h | .exch .., h => by simp [covA] at h
theorem args_ok (env : Env) : (l : NodeList) → covArgs env l = true →
    ∀ a ∈ genArgs env l, Sem a.gen 0 (xOf a.ty) 0
  | .nil, _ => by
    rw [genArgs]
    intro a ha
    cases ha
  | .cons n rest, h => by
    rw [genArgs]
    simp only [covArgs, Bool.and_eq_true] at h
    intro a ha
    simp only [List.mem_cons] at ha
    rcases ha with rfl | ha
    · exact expr_ok env n h.1
    · exact args_ok env rest h.2 a ha
end

mutual
theorem stmt_ok (env : Env) : (n : Node) → covS env n = true → Sem (genStmt env n) 0 0 0
  | .exprStmt i lhs, h => by
    rw [genStmt]
    simp only [covS] at h
    have ih := expr_ok env lhs h
    sem
  | .block i body, h => by
    rw [genStmt]
    simp only [covS] at h
    have ih := stmts_ok env body h
    sem
  | .asm_ i s, _ => by
    rw [genStmt]
    sem
  | .null, h | .nullExpr .., h | .num .., h | .neg .., h | .addr .., h | .binop .., h | .cond .., h
  | .not .., h | .bitnot .., h | .logand .., h | .logor .., h | .ret .., h | .if_ .., h | .for_ .., h
  | .do_ .., h | .switch_ .., h | .case_ .., h | .goto_ .., h | .gotoExpr .., h | .assign .., h
  | .label .., h | .labelVal .., h | .funcall .., h | .stmtExpr .., h | .cast .., h | .comma .., h
  | .memzero .., h | .cas .., h | .exch .., h | .var .., h | .vlaPtr .., h | .member .., h
  | .deref .., h => by simp [covS] at h
theorem stmts_ok (env : Env) : (l : NodeList) → covSs env l = true → Sem (genStmts env l) 0 0 0
  | .nil, _ => by
    rw [genStmts]
    exact Sem_pure ()
  | .cons n rest, h => by
    rw [genStmts]
    simp only [covSs, Bool.and_eq_true] at h
    have ih1 := stmt_ok env n h.1
    have ih2 := stmts_ok env rest h.2
    sem
end

/-- what `Sem` says, unfolded (for the statements in Props/C20.lean) -/
theorem SemP.elim {K : CodeK} {m : M α} (h : SemP K m r x d) {s : St} {a : α} {s' : St} {ls : List Line}
    (hm : m s = .ok (a, s', ls)) : K s.count s'.count ls r x ∧ s'.depth = s.depth + d := by
  unfold SemP at h
  exact h s a s' ls hm

end ChibiVerif.Lemmas.C20
