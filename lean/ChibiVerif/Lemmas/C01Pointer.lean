/-
C01: pointer arithmetic (parse.c `new_add` / `new_sub`): the index is converted to `long` and multiplied by the element
size in 64 bits (`scale_ev`), `p ± i` is `p ± idx*size` modulo 2^64 (`ptr_add_ev`), `p - q` divides the byte difference by
the element size (`ptr_diff_ev`); for every index type, every index value, any (side-effect-free) operand code.
-/
import ChibiVerif.Lemmas.C01Value

namespace ChibiVerif.C01
open ChibiVerif.X86 ChibiVerif.Asm ChibiVerif.Spec.IntSpec ChibiVerif.Gen.CommonType ChibiVerif.C01Codegen

theorem ofInt_immOf (v : Int) : BitVec.ofInt 64 (immOf v) = BitVec.ofInt 64 v := by
  apply BitVec.eq_of_toNat_eq
  simp only [BitVec.toNat_ofInt, immOf, Int.bmod_def]
  omega

/-- a register representing `v` in `long` / `unsigned long` is `v` modulo 2^64 -/
theorem rep64_eq (t : ITy) (ht : t = .i64 ∨ t = .u64) (r : BitVec 64) (v : Int) (h : Represents t r (convert t v)) :
    r = BitVec.ofInt 64 v := by
  apply BitVec.eq_of_toNat_eq
  rcases ht with rfl | rfl <;>
    (simp only [Represents, convert, wrap, ITy.signed, ITy.bits, Int.bmod_def] at h
     simp only [BitVec.toNat_ofInt]
     have := h.2
     simp at this
     omega)

theorem usualArith_i64 (t : ITy) : usualArith t .i64 = .i64 ∨ usualArith t .i64 = .u64 := by cases t <;> decide

theorem opSeq_mul64 (t : ITy) (ht : t = .i64 ∨ t = .u64) : opSeq .ND_MUL t = OpKind.mul64.seq := by
  rcases ht with rfl | rfl
  · exact classifyOp_sound sel_ND_MUL_i64
  · exact classifyOp_sound sel_ND_MUL_u64

/-- 64-bit `imul %rdi, %rax`, for every register content -/
theorem mul64_run (s : State) :
    ∃ s', X86.run OpKind.mul64.seq s = some s' ∧ s'.get .rax = s.get .rax * s.get .rdi ∧ Same s s' := by
  obtain ⟨s', h1, h2⟩ := effect_mul64 s
  exact ⟨s', h1, h2, run_safe _ _ _ (opKind_safe _) h1⟩

theorem add64_run (s : State) :
    ∃ s', X86.run (opSeq .ND_ADD .u64) s = some s' ∧ s'.get .rax = s.get .rax + s.get .rdi ∧ Same s s' := by
  rw [classifyOp_sound sel_ND_ADD_u64]
  obtain ⟨s', h1, h2⟩ := effect_add64 s
  exact ⟨s', h1, h2, run_safe _ _ _ (opKind_safe _) h1⟩

theorem sub64_run (t : ITy) (ht : t = .i64 ∨ t = .u64) (s : State) :
    ∃ s', X86.run (opSeq .ND_SUB t) s = some s' ∧ s'.get .rax = s.get .rax - s.get .rdi ∧ Same s s' := by
  have : opSeq .ND_SUB t = OpKind.sub64.seq := by
    rcases ht with rfl | rfl
    · exact classifyOp_sound sel_ND_SUB_i64
    · exact classifyOp_sound sel_ND_SUB_u64
  rw [this]
  obtain ⟨s', h1, h2⟩ := effect_sub64 s
  exact ⟨s', h1, h2, run_safe _ _ _ (opKind_safe _) h1⟩

/-- the literal `v` of type `t0`, then a conversion to `t`: the register represents the converted value -/
theorem lit_cast_ev (m : State) (t0 t : ITy) (v : Int) (hr : t0.inRange v) :
    Ev ([iMovImm v] ++ castSeq t0 t) m (fun r => Represents t r (convert t v)) := by
  have h0 : Ev [iMovImm v] m (fun r => Represents t0 r v) := by
    refine ⟨_, run_cons_some (movimm_step _ _) rfl, ?_, (same_set _ _ _ rfl).keeps⟩
    rw [State.get_set_same]; exact lit_represents _ _ hr
  exact h0.then (fun s hs => cast_run t0 t s v hs)

/-- **the index scaling of pointer arithmetic is a 64-bit multiplication of the sign/zero-extended index**: for every
    index type, every index value, every element size, `%rax` ends up as `idx * size` modulo 2^64 -/
theorem scale_ev {σ : Env} {off : Nat → Int} {n : Nat} {m : State} (ti : ITy) (size : Int) (cidx : List Ins) (vi : Int)
    (hs : ITy.i64.inRange size) (hf : FrameHolds σ off (n + 1) m)
    (hidx : ∀ m2, FrameHolds σ off n m2 → Ev cidx m2 (fun r => Represents ti r vi)) :
    Ev (scaleCode ti size cidx) m (fun r => r = BitVec.ofInt 64 (vi * size)) := by
  have htm := usualArith_i64 ti
  unfold scaleCode
  simp only [List.append_assoc]
  rw [← List.append_assoc [iMovImm size], ← List.append_assoc cidx]
  refine bin_glue _ _ _ (fun r => Represents (usualArith ti .i64) r (convert (usualArith ti .i64) size))
    (fun r => Represents (usualArith ti .i64) r (convert (usualArith ti .i64) vi)) _ hf
    (lit_cast_ev m .i64 _ size hs)
    (fun m2 hf2 => (hidx m2 hf2).then (fun s h => cast_run ti _ s vi h)) ?_
  intro s hax hdi
  rw [opSeq_mul64 _ htm]
  obtain ⟨s', h1, h2, h3⟩ := mul64_run s
  refine ⟨s', h1, ?_, h3⟩
  rw [h2, rep64_eq _ htm _ _ hax, rep64_eq _ htm _ _ hdi, BitVec.ofInt_mul]

/-- **`p + i`, `p - i`** (`i + p`, `&p[i]`): `%rax` = `p ± idx * size` modulo 2^64, for every index type and value -/
theorem ptr_add_ev {σ : Env} {off : Nat → Int} {n : Nat} {m : State} (isSub : Bool) (ti : ITy) (size : Int)
    (cidx cptr : List Ins) (vi : Int) (p : BitVec 64) (hs : ITy.i64.inRange size) (hf : FrameHolds σ off (n + 2) m)
    (hidx : ∀ k m2, n ≤ k → FrameHolds σ off k m2 → Ev cidx m2 (fun r => Represents ti r vi))
    (hptr : ∀ k m2, n ≤ k → FrameHolds σ off k m2 → Ev cptr m2 (fun r => r = p)) :
    Ev (ptrAddCode isSub ti size cidx cptr) m
      (fun r => r = if isSub then p - BitVec.ofInt 64 (vi * size) else p + BitVec.ofInt 64 (vi * size)) := by
  unfold ptrAddCode
  simp only [List.append_assoc]
  refine bin_glue _ _ _ (fun r => r = BitVec.ofInt 64 (vi * size)) (fun r => r = p) _ hf
    (scale_ev ti size cidx vi hs hf (fun m2 hf2 => hidx _ m2 (Nat.le_succ n) hf2))
    (fun m2 hf2 => hptr _ m2 (Nat.le_succ n) hf2) ?_
  intro s hax hdi
  cases isSub
  · obtain ⟨s', h1, h2, h3⟩ := add64_run s
    exact ⟨s', h1, by simp [h2, hax, hdi], h3⟩
  · obtain ⟨s', h1, h2, h3⟩ := sub64_run .u64 (Or.inr rfl) s
    exact ⟨s', h1, by simp [h2, hax, hdi], h3⟩

theorem opSeq_div_i64 : opSeq .ND_DIV .i64 = OpKind.divs64.seq := classifyOp_sound sel_ND_DIV_i64

/-- **`p - q`**: the byte difference divided by the element size as a signed 64-bit division (`cqo; idiv`); when the two
    pointers are `k` elements apart the result is `k` -/
theorem ptr_diff_ev {σ : Env} {off : Nat → Int} {n : Nat} {m : State} (size : Int) (cp cq : List Ins) (p q : BitVec 64)
    (k : Int) (hs0 : 0 < size) (hs : ITy.i32.inRange size) (hk : ITy.i64.inRange (k * size))
    (hpq : p = q + BitVec.ofInt 64 (k * size)) (hf : FrameHolds σ off (n + 2) m)
    (hp : ∀ j m2, n ≤ j → FrameHolds σ off j m2 → Ev cp m2 (fun r => r = p))
    (hq : ∀ j m2, n ≤ j → FrameHolds σ off j m2 → Ev cq m2 (fun r => r = q)) :
    Ev (ptrDiffCode size cp cq) m (fun r => Represents .i64 r k) := by
  have hcode : ptrDiffCode size cp cq = ([iMovImm size] ++ castSeq .i32 .i64) ++ ([iPush] ++
      ((cq ++ ([iPush] ++ (cp ++ ([iPopRdi] ++ opSeq .ND_SUB .i64)))) ++ ([iPopRdi] ++ opSeq .ND_DIV .i64))) := by
    simp only [ptrDiffCode, List.append_assoc]
  rw [hcode]
  have inner : ∀ m2, FrameHolds σ off (n + 1) m2 →
      Ev (cq ++ ([iPush] ++ (cp ++ ([iPopRdi] ++ opSeq .ND_SUB .i64)))) m2 (fun r => r = p - q) := by
    intro m2 hf2
    refine bin_glue _ _ _ (fun r => r = q) (fun r => r = p) _ hf2 (hq _ m2 (Nat.le_succ n) hf2)
      (fun m3 hf3 => hp _ m3 (Nat.le_refl n) hf3) ?_
    intro s hax hdi
    obtain ⟨s', h1, h2, h3⟩ := sub64_run .i64 (Or.inl rfl) s
    exact ⟨s', h1, by simp [h2, hax, hdi], h3⟩
  refine bin_glue _ _ _ (fun r => Represents .i64 r (convert .i64 size)) (fun r => r = p - q) _ hf
    (lit_cast_ev m .i32 .i64 size hs) inner ?_
  intro s hax hdi
  rw [opSeq_div_i64]
  have hd : (s.get .rdi).toInt = size := by
    have := (rep_i64 _ _).1 hdi
    rw [this]
    simp only [convert, wrap, ITy.signed, ITy.bits, ITy.inRange, ITy.min, ITy.max, Int.bmod_def] at hs ⊢
    simp at hs ⊢
    split <;> omega
  have hn : (s.get .rax).toInt = k * size := by
    rw [hax, hpq]
    have : q + BitVec.ofInt 64 (k * size) - q = BitVec.ofInt 64 (k * size) := by
      rw [BitVec.add_comm, BitVec.add_sub_cancel]
    rw [this]
    exact ofInt64_toInt_of_range _ (by simpa [ITy.inRange, ITy.min, ITy.max, ITy.signed, ITy.bits] using hk)
  have hq' : Int.tdiv (k * size) size = k := Int.mul_tdiv_cancel _ (by omega)
  have hkr : ITy.i64.inRange k := by
    simp only [ITy.inRange, ITy.min, ITy.max, ITy.signed, ITy.bits] at hk ⊢
    simp at hk ⊢
    have h1 : (1 : Int) ≤ size := hs0
    rcases Int.le_total 0 k with hk0 | hk0
    · have := Int.mul_le_mul_of_nonneg_left h1 hk0
      simp only [Int.mul_one] at this
      omega
    · have := Int.mul_le_mul_of_nonpos_left hk0 h1
      simp only [Int.mul_one] at this
      omega
  have he := effect_divs64 s
  simp only [OpKind.fn, hd, hn, hq'] at he
  have c1 : ¬ size = 0 := by omega
  have c2 : ¬ (k < -(2 ^ 63) ∨ k ≥ 2 ^ 63) := by
    simp only [ITy.inRange, ITy.min, ITy.max, ITy.signed, ITy.bits] at hkr
    simp at hkr
    omega
  simp only [c1, c2, if_false] at he
  obtain ⟨s', h1, h2⟩ := he
  refine ⟨s', h1, ?_, run_safe _ _ _ (opKind_safe _) h1⟩
  rw [h2, rep_i64]
  exact ofInt64_toInt_of_range _ (by simpa [ITy.inRange, ITy.min, ITy.max, ITy.signed, ITy.bits] using hkr)


/-! ### operands that are expressions / `unsigned long`-sized variables holding the pointer -/

theorem Ev.imp {c : List Ins} {m : State} {R R' : BitVec 64 → Prop} (h : Ev c m R) (hi : ∀ r, R r → R' r) : Ev c m R' := by
  obtain ⟨m', r, p, k⟩ := h; exact ⟨m', r, hi _ p, k⟩

theorem rep_u64_eq (r : BitVec 64) (v : Int) (h : Represents .u64 r v) : r = BitVec.ofInt 64 v := by
  have := (rep_u64 r v).1 h
  apply BitVec.eq_of_toNat_eq
  simp only [BitVec.toNat_ofInt]
  omega

theorem ofInt_sub64 (a b : Int) : BitVec.ofInt 64 (a - b) = BitVec.ofInt 64 a - BitVec.ofInt 64 b := by
  apply BitVec.eq_of_toNat_eq
  simp only [BitVec.toNat_sub, BitVec.toNat_ofInt]
  omega

/-- a pointer held in the 8-byte variable `j` (type `unsigned long` in the store): `lea; mov (%rax), %rax` -/
theorem ptrVar_ev {σ : Env} {off : Nat → Int} (j : Nat) (pv : Int) (hj : σ.tys[j]? = some .u64) (hpv : σ.vals[j]? = some pv)
    (k : Nat) (m2 : State) (hf2 : FrameHolds σ off k m2) : Ev (ptrVarCode (off j)) m2 (fun r => r = BitVec.ofInt 64 pv) := by
  have hc : compileE σ.tys off (.var j) = some (.u64, ptrVarCode (off j)) := by simp [compileE, hj, ptrVarCode, iLea]
  have hv : evalE σ (.var j) = some (pv, σ) := by simp [evalE, Env.val?, hpv]
  exact ((value_pure σ off (.var j) .u64 _ pv σ m2 k hc hv (Nat.zero_le _) hf2).2).imp (fun r h => rep_u64_eq r pv h)

/-- `p ± e` for a side-effect-free index expression `e` and a pointer variable -/
theorem ptr_add_expr (isSub : Bool) (σ : Env) (off : Nat → Int) (ei : E) (ti : ITy) (ci : List Ins) (vi : Int) (j : Nat)
    (pv size : Int) (m : State) (hci : compileE σ.tys off ei = some (ti, ci)) (hvi : evalE σ ei = some (vi, σ))
    (hj : σ.tys[j]? = some .u64) (hpv : σ.vals[j]? = some pv) (hs : ITy.i64.inRange size)
    (hf : FrameHolds σ off (depthE ei + 2) m) :
    Ev (ptrAddCode isSub ti size ci (ptrVarCode (off j))) m
      (fun r => r = BitVec.ofInt 64 (if isSub then pv - vi * size else pv + vi * size)) := by
  have := ptr_add_ev isSub ti size ci (ptrVarCode (off j)) vi (BitVec.ofInt 64 pv) hs hf
    (fun k m2 hk hf2 => (value_pure σ off ei ti ci vi σ m2 k hci hvi hk hf2).2)
    (fun k m2 _ hf2 => ptrVar_ev j pv hj hpv k m2 hf2)
  refine this.imp (fun r h => ?_)
  rw [h]
  cases isSub <;> simp [BitVec.ofInt_add, ofInt_sub64]

/-! ### a concrete instance: `int *p = (int *)0x100000000000; int i = 600000000` -/

def ptrEnv : Env := ⟨[.u64, .i32], [0x100000000000, 600000000]⟩
/-- `%rsp` = 0x1000, `%rbp` = 0x2000; `p` at -8(%rbp) (bytes 00 00 00 00 00 10 00 00), `i` = 0x23c34600 at -16(%rbp) -/
def ptrState : State :=
  { regs := fun r => match r with | .rsp => 0x1000#64 | .rbp => 0x2000#64 | _ => 0#64,
    mem := fun a => if a = 0x1ffd#64 then 0x10#8 else if a = 0x1ff1#64 then 0x46#8 else if a = 0x1ff2#64 then 0xc3#8
      else if a = 0x1ff3#64 then 0x23#8 else 0#8 }

theorem ptrFrame : FrameHolds ptrEnv exOff (depthE (.var 1) + 2) ptrState := by
  refine ⟨by decide, ?_⟩
  intro i t v ht hv
  match i with
  | 0 =>
    simp [ptrEnv] at ht hv; subst ht; subst hv
    exact ⟨⟨by decide, by decide⟩, by decide, by decide⟩
  | 1 =>
    simp [ptrEnv] at ht hv; subst ht; subst hv
    exact ⟨⟨by decide, by decide⟩, by decide, by decide⟩
  | k + 2 => simp [ptrEnv] at ht

/-- two pointers 600 000 000 `int`s apart: `p` = 0x10008f0d1800 at -8(%rbp), `q` = 0x100000000000 at -16(%rbp) -/
def ptrEnv2 : Env := ⟨[.u64, .u64], [0x10008f0d1800, 0x100000000000]⟩
def ptrState2 : State :=
  { regs := fun r => match r with | .rsp => 0x1000#64 | .rbp => 0x2000#64 | _ => 0#64,
    mem := fun a => if a = 0x1ff9#64 then 0x18#8 else if a = 0x1ffa#64 then 0x0d#8 else if a = 0x1ffb#64 then 0x8f#8
      else if a = 0x1ffd#64 then 0x10#8 else if a = 0x1ff5#64 then 0x10#8 else 0#8 }

theorem ptrFrame2 : FrameHolds ptrEnv2 exOff 2 ptrState2 := by
  refine ⟨by decide, ?_⟩
  intro i t v ht hv
  match i with
  | 0 =>
    simp [ptrEnv2] at ht hv; subst ht; subst hv
    exact ⟨⟨by decide, by decide⟩, by decide, by decide⟩
  | 1 =>
    simp [ptrEnv2] at ht hv; subst ht; subst hv
    exact ⟨⟨by decide, by decide⟩, by decide, by decide⟩
  | k + 2 => simp [ptrEnv2] at ht

end ChibiVerif.C01
