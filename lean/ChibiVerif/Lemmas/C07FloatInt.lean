/- The floating Spec / elaboration (Spec/ConstFSpec.lean, Model/ConstElabF.lean) extend the integer ones
   (Spec/ConstSpec.lean, Model/ConstElab.lean): on an integer constant expression they are the same tree and the same value. -/
import ChibiVerif.Lemmas.C07FloatLemmas

namespace ChibiVerif.C07Float
open ChibiVerif.Host ChibiVerif.Gen.ConstEval ChibiVerif.Spec.ConstF ChibiVerif.Spec.Fpu
open ChibiVerif.Spec.Const hiding typeOf eval
open ChibiVerif.ConstElab ChibiVerif.ConstEvalLemmas

theorem typeOf_ofC (c : CExpr) : typeOf (ofC c) = .int (Spec.Const.typeOf c) := by
  induction c with
  | lit t v => rfl
  | un op e ih => cases op <;> simp only [ofC, typeOf, Spec.Const.typeOf, ih, promote]
  | bin op a b iha ihb => cases op <;> simp only [ofC, typeOf, Spec.Const.typeOf, iha, ihb, promote, usual]
  | land a b _ _ => rfl
  | lor a b _ _ => rfl
  | cond c a b _ iha ihb => simp only [ofC, typeOf, Spec.Const.typeOf, iha, ihb, usual]
  | cast t e _ => rfl

theorem gctA_int_descr (a b : ITy) : getCommonTypeA (descr a) (descr b) = getCommonType (descr a) (descr b) := by
  cases a <;> cases b <;> rfl

theorem gctA_tyInt_descr (a : ITy) : getCommonTypeA tyInt (descr a) = getCommonType tyInt (descr a) := by
  cases a <;> rfl

/-- the same tree -/
theorem elabA_ofC (c : CExpr) : elabA (ofC c) = elabE c := by
  induction c with
  | lit t v => rfl
  | un op e ih =>
    cases op <;> simp only [ofC, elabA, elabE, ih, mkPromotedA, mkPromoted, elab_ty, gctA_tyInt_descr]
  | bin op a b iha ihb =>
    cases op <;> simp only [ofC, elabA, elabE, iha, ihb, mkArithA, mkArith, mkCompareA, mkCompare, mkPromotedA, mkPromoted, elab_ty,
      gctA_int_descr, gctA_tyInt_descr]
  | land a b iha ihb => simp only [ofC, elabA, elabE, iha, ihb]
  | lor a b iha ihb => simp only [ofC, elabA, elabE, iha, ihb]
  | cond c a b ihc iha ihb => simp only [ofC, elabA, elabE, ihc, iha, ihb, elab_ty, gctA_int_descr]
  | cast t e ih => simp only [ofC, elabA, elabE, ih, descrA]

/-- the same value -/
theorem eval_ofC (O : FpOps) (c : CExpr) : Spec.ConstF.eval O (ofC c) = (Spec.Const.eval c).map .int := by
  induction c with
  | lit t v => simp only [ofC, Spec.ConstF.eval, Spec.Const.eval]; split <;> rfl
  | un op e ih =>
    simp only [ofC, Spec.ConstF.eval, Spec.Const.eval, ih, typeOf_ofC]
    cases Spec.Const.eval e <;> rfl
  | bin op a b iha ihb =>
    simp only [ofC, Spec.ConstF.eval, Spec.Const.eval, iha, ihb, typeOf_ofC]
    cases Spec.Const.eval a <;> cases Spec.Const.eval b <;> simp only [Option.map] <;> try rfl
    cases op <;> simp only [BinOp.isShift, Bool.false_eq_true, ite_false, ite_true, usual, convert] <;> rfl
  | land a b iha ihb =>
    simp only [ofC, Spec.ConstF.eval, Spec.Const.eval, iha, ihb]
    cases ha : Spec.Const.eval a with
    | none => rfl
    | some x =>
      simp only [Option.map, Spec.ConstF.truth]
      by_cases hx : x = 0
      · subst hx; rfl
      · have : (x != 0) = true := by simpa using hx
        simp only [this, Bool.not_true, Bool.false_eq_true, ite_false, hx]
        cases Spec.Const.eval b <;> rfl
  | lor a b iha ihb =>
    simp only [ofC, Spec.ConstF.eval, Spec.Const.eval, iha, ihb]
    cases ha : Spec.Const.eval a with
    | none => rfl
    | some x =>
      simp only [Option.map, Spec.ConstF.truth]
      by_cases hx : x = 0
      · subst hx
        simp only [show ((0 : Int) != 0) = false from rfl, Bool.false_eq_true, ite_false, ne_eq, not_true_eq_false]
        cases Spec.Const.eval b <;> rfl
      · have : (x != 0) = true := by simpa using hx
        simp only [this, ite_true, ne_eq, hx, not_false_eq_true]
  | cond c a b ihc iha ihb =>
    simp only [ofC, Spec.ConstF.eval, Spec.Const.eval, ihc, iha, ihb, typeOf_ofC]
    cases hc : Spec.Const.eval c with
    | none => rfl
    | some x =>
      simp only [Option.map, Spec.ConstF.truth, usual]
      by_cases hx : x = 0
      · subst hx
        simp only [show ((0 : Int) != 0) = false from rfl, Bool.false_eq_true, ite_false, ne_eq, not_true_eq_false]
        cases Spec.Const.eval b <;> rfl
      · have : (x != 0) = true := by simpa using hx
        simp only [this, ite_true, ne_eq, hx, not_false_eq_true]
        cases Spec.Const.eval a <;> rfl
  | cast t e ih =>
    simp only [ofC, Spec.ConstF.eval, Spec.Const.eval, ih]
    cases Spec.Const.eval e <;> rfl

end ChibiVerif.C07Float
