/-
C05, parser = specification: the simulation.

Every function of the mutually recursive parser (Model/Init.lean) is related to the run of the specification's cursor machine
(`initList`): a call that works on the subobject at path `p` of the current object corresponds to zero or more steps of the list
of the enclosing braces, after which the specification's object is the old one with the parser's new node at `p`
(`setAtM obj p c'`) and the cursor stands behind `p`.  `Sim f` states this for all functions with fuel `f`; `sim_all` proves it by
induction on the fuel.
-/
import ChibiVerif.Lemmas.InitParseLemmas

namespace ChibiVerif.InitSpec
open ChibiVerif.Init

/-! ### the parser's node and the specification's object -/

/-- the parser works on node `c` of type `ty`, which is the subobject at `p` of the specification's current object `obj`
    (of type `root`; when `root` is a struct with a flexible array member it is the declared object itself, `top`, and `p` is
    neither the struct nor the flexible member: those two nodes are handled by Lemmas/InitFlexLemmas.lean) -/
structure At (root : Ty) (top : Bool) (obj : Init) (p : List Nat) (ty : Ty) (c : Init) : Prop where
  rootOk : tyOk root = true
  topOk : isFlexRoot root = true → top = true
  pok : pathOk root p = true
  shp : shapedR root obj = true
  sub : subTy root p = some ty
  get : getAt obj p = some c
  ok : subOk ty = true

theorem At.shapedc {root : Ty} {top : Bool} {obj : Init} {p : List Nat} {ty : Ty} {c : Init} (h : At root top obj p ty c) :
    shaped ty c = true :=
  shapedR_getAt h.shp h.pok h.sub h.get

/-- nothing at the parser's node can grow -/
theorem At.ng {root : Ty} {top : Bool} {obj : Init} {p : List Nat} {ty : Ty} {c : Init} (h : At root top obj p ty c) :
    growable root top p = false :=
  growable_false_of h.rootOk h.pok h.sub h.ok

theorem At.modifyAt_eq {root : Ty} {top : Bool} {obj : Init} {p : List Nat} {ty : Ty} {c : Init} (h : At root top obj p ty c)
    (f : Ty → Init → Except Fail Init) (hsw : switchesUnion obj p = false) :
    modifyAt root top f root [] p obj = (f ty c >>= fun v => pure (setAtM obj p v)) :=
  modifyAt_eqR root top f h.rootOk h.topOk h.shp h.pok h.sub h.get hsw

theorem pathOk_snoc {root : Ty} {p : List Nat} (h : pathOk root p = true) (k : Nat) : pathOk root (p ++ [k]) = true := by
  cases root with
  | struct ms sz fl =>
    cases fl with
    | false => rfl
    | true =>
      cases p with
      | nil => simp [pathOk] at h
      | cons a p => cases p <;> simp [pathOk]
  | _ => rfl

theorem getAt_one {obj : Init} {k : Nat} {c : Init} (h : obj.children[k]? = some c) : getAt obj [k] = some c := by
  rw [getAt_cons_of_some _ h]; simp [getAt]

theorem subTy_one (t : Ty) (k : Nat) : subTy t [k] = childTy t k := by
  rw [subTy_cons]; cases childTy t k <;> simp [subTy]

theorem At.child {root : Ty} {top : Bool} {obj : Init} {p : List Nat} {ty : Ty} {c : Init} (h : At root top obj p ty c) {k : Nat} {tc : Ty} {ck : Init}
    (ht : childTy ty k = some tc) (hk : c.children[k]? = some ck) : At root top obj (p ++ [k]) tc ck where
  rootOk := h.rootOk
  topOk := h.topOk
  pok := pathOk_snoc h.pok k
  shp := h.shp
  sub := by rw [subTy_append p [k] root ty h.sub, subTy_one, ht]
  get := by rw [getAt_append p [k] obj c h.get, getAt_one hk]
  ok := tyOk_child (subOk_tyOk ty h.ok) ht

/-- after the parser has replaced the node at `p` -/
theorem At.set {root : Ty} {top : Bool} {obj : Init} {p : List Nat} {ty : Ty} {c : Init} (h : At root top obj p ty c) {v : Init}
    (hv : shaped ty v = true) : At root top (setAtM obj p v) p ty v where
  rootOk := h.rootOk
  topOk := h.topOk
  pok := h.pok
  shp := shapedR_setAtM h.shp h.pok h.sub h.get hv
  sub := h.sub
  get := getAt_setAtM p obj c v h.get
  ok := h.ok

theorem At.marked_set {root : Ty} {top : Bool} {obj : Init} {p : List Nat} {ty : Ty} {c : Init} (h : At root top obj p ty c) (v : Init) :
    setAtM (setAtM obj p v) p v = setAtM obj p v :=
  setAtM_setAtM p obj c v v h.get

/-- after the parser has replaced child `k` of the node at `p`: the node at `p` is the old one with that child replaced -/
theorem At.set_child {root : Ty} {top : Bool} {obj : Init} {p : List Nat} {ty : Ty} {c : Init} (h : At root top obj p ty c) {k : Nat} {tc : Ty}
    {ck v : Init} (ht : childTy ty k = some tc) (hk : c.children[k]? = some ck) (hv : shaped tc v = true) :
    setAtM obj (p ++ [k]) v = setAtM obj p (setAtM c [k] v) ∧ At root top (setAtM obj (p ++ [k]) v) p ty (setAtM c [k] v) ∧
      setAtM (setAtM obj (p ++ [k]) v) p (setAtM c [k] v) = setAtM obj (p ++ [k]) v := by
  have e : setAtM obj (p ++ [k]) v = setAtM obj p (setAtM c [k] v) := setAtM_append p [k] obj c v h.get
  have hs : shaped ty (setAtM c [k] v) = true := shaped_set_child h.shapedc ht hk hv
  rw [e]
  exact ⟨rfl, h.set hs, h.marked_set _⟩

theorem setAtM_over {root : Ty} {top : Bool} {obj : Init} {p : List Nat} {ty : Ty} {c : Init} (h : At root top obj p ty c) (v w : Init) :
    setAtM (setAtM obj p v) p w = setAtM obj p w :=
  setAtM_setAtM p obj c v w h.get

/-! ### shapes -/

theorem arr_of_shaped {elem : Ty} {len : Nat} {c : Init} (h : shaped (.array elem len) c = true) :
    ∃ cs, c = .arr cs ∧ cs.length = len ∧ shapedAll elem cs = true := by
  cases c <;> simp [shaped] at h
  exact ⟨_, rfl, h.1, h.2⟩

theorem struct_of_shaped {ms : Members} {sz : Nat} {fl0 : Bool} {c : Init} (h : shaped (.struct ms sz fl0) c = true) :
    ∃ e cs, c = .struct e cs ∧ shapedMs ms cs = true := by
  cases c <;> simp [shaped] at h
  exact ⟨_, _, rfl, h⟩

theorem union_of_shaped {ms : Members} {sz : Nat} {fl0 : Bool} {c : Init} (h : shaped (.union ms sz fl0) c = true) :
    ∃ e m cs, c = .union e m cs ∧ shapedMs ms cs = true := by
  cases c <;> simp [shaped] at h
  exact ⟨_, _, _, rfl, h.1⟩

theorem leaf_of_shaped {sz : Nat} {k : SKind} {c : Init} (h : shaped (.scalar sz k) c = true) : ∃ e, c = .leaf e := by
  cases c <;> simp [shaped] at h
  exact ⟨_, rfl⟩

theorem growable_false {root : Ty} {top : Bool} {obj : Init} {p : List Nat} {ty : Ty} {c : Init} (h : At root top obj p ty c) :
    growable root top p = false := h.ng

theorem skipTok_ok {t : ITok} {what : String} {toks r : List ITok} (h : skipTok t what toks = .ok r) : toks = t :: r := by
  unfold skipTok at h
  split at h
  · split at h
    · rename_i hx; cases h; rw [hx]
    · cases h
  · cases h


/-! ### the statements -/

/-- where the specification stands after the parser has finished the subobject at `p` with result `c'`, `toks'` left -/
abbrev After (root : Ty) (top : Bool) (obj : Init) (p : List Nat) (c' : Init) (toks' : List ITok) (fl : Flags) (g' : Nat) :
    Except Fail Result :=
  initList g' root top (setAtM obj p c') (next root top p.reverse) toks' false fl

/-- the token list starts with an initializer without braces that does not initialise the aggregate `t` as a whole -/
def Elides (t : Ty) (toks : List ITok) : Prop := ∀ tok r, toks = tok :: r → tok ≠ .lbrace ∧ stopsAt t tok = false

def Init2St (f : Nat) : Prop :=
  ∀ {root : Ty} {top : Bool} {obj : Init} {p : List Nat} {ty : Ty} {c : Init} {toks : List ITok} {c' : Init} {toks' : List ITok},
    At root top obj p ty c → initializer2 f ty toks c = .ok (c', toks') →
    shaped ty c' = true ∧ ∀ g fl, ∃ g', Imp (initItem g root top obj [p] toks fl) (After root top obj p c' toks' fl g')

def DesgSt (f : Nat) : Prop :=
  ∀ {root : Ty} {top : Bool} {obj : Init} {p : List Nat} {ty : Ty} {c : Init} {toks : List ITok} {c' : Init} {toks' : List ITok},
    At root top obj p ty c → designation f ty toks c = .ok (c', toks') →
    shaped ty c' = true ∧ ∀ g d fl, ∃ g', Imp (afterDesg g root top obj fl (desigPaths root top d [p] toks))
      (After root top obj p c' toks' fl g')

def Arr2LoopSt (f : Nat) : Prop :=
  ∀ {root : Ty} {top : Bool} {obj : Init} {p : List Nat} {elem : Ty} {len : Nat} {c : Init} {toks : List ITok} {i : Nat} {c' : Init}
    {toks' : List ITok},
    At root top obj p (.array elem len) c → 0 < i → arrayInit2Loop f elem toks c i = .ok (c', toks') →
    shaped (.array elem len) c' = true ∧ (setAtM obj p c = obj → ∀ g fl, ∃ g',
      Imp (initList g root top obj (cursorIn root top p i) toks false fl) (After root top obj p c' toks' fl g'))

def Arr2Loop0St (f : Nat) : Prop :=
  ∀ {root : Ty} {top : Bool} {obj : Init} {p : List Nat} {elem : Ty} {len : Nat} {c : Init} {toks : List ITok} {c' : Init}
    {toks' : List ITok},
    At root top obj p (.array elem len) c → Elides (.array elem len) toks → arrayInit2Loop f elem toks c 0 = .ok (c', toks') →
    shaped (.array elem len) c' = true ∧ ∀ g fl, ∃ g',
      Imp (initItem g root top obj [p] toks fl) (After root top obj p c' toks' fl g')

def Arr2St (f : Nat) : Prop :=
  ∀ {root : Ty} {top : Bool} {obj : Init} {p : List Nat} {elem : Ty} {len : Nat} {c : Init} {toks : List ITok} {i : Nat} {c' : Init}
    {toks' : List ITok},
    At root top obj p (.array elem len) c → 0 < i → arrayInit2 f elem toks c i = .ok (c', toks') →
    shaped (.array elem len) c' = true ∧ (setAtM obj p c = obj → ∀ g fl, ∃ g',
      Imp (initList g root top obj (cursorIn root top p i) toks false fl) (After root top obj p c' toks' fl g'))

def Arr20St (f : Nat) : Prop :=
  ∀ {root : Ty} {top : Bool} {obj : Init} {p : List Nat} {elem : Ty} {len : Nat} {c : Init} {toks : List ITok} {c' : Init}
    {toks' : List ITok},
    At root top obj p (.array elem len) c → Elides (.array elem len) toks → arrayInit2 f elem toks c 0 = .ok (c', toks') →
    shaped (.array elem len) c' = true ∧ ∀ g fl, ∃ g',
      Imp (initItem g root top obj [p] toks fl) (After root top obj p c' toks' fl g')

def Struct2St (f : Nat) : Prop :=
  ∀ {root : Ty} {top : Bool} {obj : Init} {p : List Nat} {ms : Members} {sz : Nat} {fl0 : Bool} {c : Init} {toks : List ITok}
    {mem : Nat} {c' : Init} {toks' : List ITok},
    At root top obj p (.struct ms sz fl0) c → structInit2 f ms toks c mem false = .ok (c', toks') →
    shaped (.struct ms sz fl0) c' = true ∧ (setAtM obj p c = obj → hasAggExpr c = false → ∀ g fl, ∃ g',
      Imp (initList g root top obj (cursorIn root top p mem) toks false fl) (After root top obj p c' toks' fl g'))

def Struct20St (f : Nat) : Prop :=
  ∀ {root : Ty} {top : Bool} {obj : Init} {p : List Nat} {ms : Members} {sz : Nat} {fl0 : Bool} {c : Init} {tok : ITok}
    {r : List ITok} {mem : Nat} {c' : Init} {toks' : List ITok},
    At root top obj p (.struct ms sz fl0) c → tok ≠ .lbrace → startable tok = true → stopsAt (.struct ms sz fl0) tok = false →
    (∀ j, j < mem → ∃ mi t, ms[j]? = some (mi, t) ∧ unnamedBf mi = true) →
    structInit2 f ms (tok :: r) c mem true = .ok (c', toks') →
    shaped (.struct ms sz fl0) c' = true ∧ ∀ g fl, ∃ g',
      Imp (initItem g root top obj [p] (tok :: r) fl) (After root top obj p c' toks' fl g')

def Union0St (f : Nat) : Prop :=
  ∀ {root : Ty} {top : Bool} {obj : Init} {p : List Nat} {ms : Members} {sz : Nat} {fl0 : Bool} {c : Init} {tok : ITok}
    {r : List ITok} {c' : Init} {toks' : List ITok},
    At root top obj p (.union ms sz fl0) c → tok ≠ .lbrace → startable tok = true → stopsAt (.union ms sz fl0) tok = false →
    unionInit f ms (tok :: r) c = .ok (c', toks') →
    shaped (.union ms sz fl0) c' = true ∧ ∀ g fl, ∃ g',
      Imp (initItem g root top obj [p] (tok :: r) fl) (After root top obj p c' toks' fl g')

def Arr1LoopSt (f : Nat) : Prop :=
  ∀ {elem : Ty} {len : Nat} {c : Init} {toks : List ITok} {i : Nat} {first : Bool} {c' : Init} {rest : List ITok},
    subOk (.array elem len) = true → shaped (.array elem len) c = true →
    arrayInit1Loop f elem toks c i first = .ok (c', rest) →
    shaped (.array elem len) c' = true ∧ ∀ top g fl,
      Imp (initList g (.array elem len) top c (cursorIn (.array elem len) top [] i) toks first fl) (.ok ⟨c', rest, fl⟩)

def Arr1St (f : Nat) : Prop :=
  ∀ {elem : Ty} {len : Nat} {c : Init} {toks : List ITok} {c' : Init} {rest : List ITok},
    subOk (.array elem len) = true → shaped (.array elem len) c = true →
    arrayInit1 f elem toks c = .ok (c', rest) →
    shaped (.array elem len) c' = true ∧ ∃ inner, toks = .lbrace :: inner ∧ ∀ top g fl,
      Imp (initList g (.array elem len) top c (firstCursor (.array elem len)) inner true fl) (.ok ⟨c', rest, fl⟩)

def Struct1LoopSt (f : Nat) : Prop :=
  ∀ {ms : Members} {sz : Nat} {fl0 : Bool} {c : Init} {toks : List ITok} {mem : Nat} {first : Bool} {c' : Init} {rest : List ITok},
    subOk (.struct ms sz fl0) = true → shaped (.struct ms sz fl0) c = true →
    structInit1Loop f ms toks c mem first = .ok (c', rest) →
    shaped (.struct ms sz fl0) c' = true ∧ (hasAggExpr c = false → ∀ top g fl,
      Imp (initList g (.struct ms sz fl0) top c (cursorIn (.struct ms sz fl0) top [] mem) toks first fl) (.ok ⟨c', rest, fl⟩))

def Struct1St (f : Nat) : Prop :=
  ∀ {ms : Members} {sz : Nat} {fl0 : Bool} {c : Init} {toks : List ITok} {c' : Init} {rest : List ITok},
    subOk (.struct ms sz fl0) = true → shaped (.struct ms sz fl0) c = true →
    structInit1 f ms toks c = .ok (c', rest) →
    shaped (.struct ms sz fl0) c' = true ∧ ∃ inner, toks = .lbrace :: inner ∧ (hasAggExpr c = false → ∀ top g fl,
      Imp (initList g (.struct ms sz fl0) top c (firstCursor (.struct ms sz fl0)) inner true fl) (.ok ⟨c', rest, fl⟩))

def Union1St (f : Nat) : Prop :=
  ∀ {ms : Members} {sz : Nat} {fl0 : Bool} {c : Init} {inner : List ITok} {c' : Init} {rest : List ITok},
    subOk (.union ms sz fl0) = true → shaped (.union ms sz fl0) c = true →
    unionInit f ms (.lbrace :: inner) c = .ok (c', rest) →
    shaped (.union ms sz fl0) c' = true ∧ (c = newInit (.union ms sz fl0) false → ∀ top g fl res,
      initList g (.union ms sz fl0) top c (firstCursor (.union ms sz fl0)) inner true fl = .ok res → res.fl.clean = true →
      defaultMember (.union ms sz fl0) res.obj = c' ∧ res.rest = rest ∧ res.fl = fl)

/-- `union_rest`: the remaining initializers of a union's list, after the member `k` has been initialised (the cursor of the
    union's list stands behind its one member: `none`) -/
def UnionRestSt (f : Nat) : Prop :=
  ∀ {ms : Members} {sz : Nat} {fl0 : Bool} {c : Init} {toks : List ITok} {c' : Init} {rest : List ITok},
    subOk (.union ms sz fl0) = true → shaped (.union ms sz fl0) c = true →
    unionRest f ms toks c = .ok (c', rest) →
    shaped (.union ms sz fl0) c' = true ∧
    ∀ k cs, c = .union none (some k) cs →
      (∃ k' cs', c' = .union none (some k') cs') ∧
      ∀ top g fl res, initList g (.union ms sz fl0) top c none toks false fl = .ok res → res.fl.clean = true →
        res.obj = c' ∧ res.rest = rest ∧ res.fl = fl

structure Sim (f : Nat) : Prop where
  init2 : Init2St f
  desg : DesgSt f
  arr2loop : Arr2LoopSt f
  arr2loop0 : Arr2Loop0St f
  arr2 : Arr2St f
  arr20 : Arr20St f
  struct2 : Struct2St f
  struct20 : Struct20St f
  union0 : Union0St f
  arr1loop : Arr1LoopSt f
  arr1 : Arr1St f
  struct1loop : Struct1LoopSt f
  struct1 : Struct1St f
  union1 : Union1St f
  unionrest : UnionRestSt f

theorem sim_zero : Sim 0 where
  init2 := fun _ h => by cases h
  desg := fun _ h => by cases h
  arr2loop := fun _ _ h => by cases h
  arr2loop0 := fun _ _ h => by cases h
  arr2 := fun _ _ h => by cases h
  arr20 := fun _ _ h => by cases h
  struct2 := fun _ h => by cases h
  struct20 := fun _ _ _ _ _ h => by cases h
  union0 := fun _ _ _ _ h => by cases h
  arr1loop := fun _ _ h => by cases h
  arr1 := fun _ _ h => by cases h
  struct1loop := fun _ _ h => by cases h
  struct1 := fun _ _ h => by cases h
  union1 := fun _ _ h => by cases h
  unionrest := fun _ _ h => by cases h

end ChibiVerif.InitSpec
