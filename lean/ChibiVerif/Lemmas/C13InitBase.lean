/-
C13 — the initializer parser of parse.c (Model/Init.lean) never reaches one of its abort sites: vocabulary and the facts
about the helpers.  The induction over the twelve mutually recursive functions is in Lemmas/C13Init.lean.

Abort sites of the model (`Fail.crash`): `children[i]` outside the allocated block (`getChild`, `strFill`), member index
outside the member list (`memTy`), `tok->str` read past its end, `unreachable()` in string_initializer, array_designator
on a token that is not `[`, and `init->mem->next` on a union without members (union_initializer).

Core Lean only.
-/
import ChibiVerif.Model.Init

namespace ChibiVerif.C13Init
open ChibiVerif.Init

/-! ## outcomes -/

/-- the outcome is a value satisfying `Q`, a diagnostic, or the exhausted recursion budget — never an abort site -/
def Safe {α : Type} (Q : α → Prop) : Except Fail α → Prop
  | .ok a => Q a
  | .error (.crash _) => False
  | .error (.diag _) => True
  | .error .fuel => True

theorem Safe.ok {α : Type} {Q : α → Prop} {a : α} (h : Q a) : Safe Q (.ok a) := h
theorem Safe.pure {α : Type} {Q : α → Prop} {a : α} (h : Q a) : Safe Q (Pure.pure a : Except Fail α) := h
theorem Safe.diag {α : Type} {Q : α → Prop} {m : String} : Safe Q (.error (.diag m) : Except Fail α) := trivial
theorem Safe.fuel {α : Type} {Q : α → Prop} : Safe Q (.error .fuel : Except Fail α) := trivial

theorem Safe.mono {α : Type} {P Q : α → Prop} {x : Except Fail α} (h : Safe P x) (hpq : ∀ a, P a → Q a) : Safe Q x := by
  cases x with
  | ok a => exact hpq a h
  | error e => cases e <;> first | trivial | exact h

theorem Safe.bind {α β : Type} {P : α → Prop} {Q : β → Prop} {x : Except Fail α} {k : α → Except Fail β}
    (hx : Safe P x) (hk : ∀ a, P a → Safe Q (k a)) : Safe Q (x >>= k) := by
  cases x with
  | ok a => exact hk a hx
  | error e => cases e <;> first | trivial | exact hx

theorem Safe.foldlM {α β : Type} {I : β → Prop} {s : β → α → Except Fail β}
    (hs : ∀ b a, I b → Safe I (s b a)) : ∀ (l : List α) (b : β), I b → Safe I (l.foldlM s b)
  | [], b, hb => hb
  | a :: l, b, hb => by
    simp only [List.foldlM]
    exact Safe.bind (hs b a hb) (fun b' hb' => Safe.foldlM hs l b' hb')

/-- like `foldlM`, for a step that is safe on the elements of the list only -/
theorem Safe.foldlM_mem {α β : Type} {I : β → Prop} {s : β → α → Except Fail β} :
    ∀ (l : List α) (b : β), (∀ b a, a ∈ l → I b → Safe I (s b a)) → I b → Safe I (l.foldlM s b)
  | [], b, _, hb => hb
  | a :: l, b, hs, hb => by
    simp only [List.foldlM]
    exact Safe.bind (hs b a (List.mem_cons_self ..) hb)
      (fun b' hb' => Safe.foldlM_mem l b' (fun b a ha => hs b a (List.mem_cons_of_mem _ ha)) hb')

theorem Safe.not_crash {α : Type} {Q : α → Prop} {x : Except Fail α} (h : Safe Q x) (w : String) : x ≠ .error (.crash w) := by
  intro e; rw [e] at h; exact h

/-! ## well-formed inputs -/

/-- a string-literal token has the element size of one of chibicc's string types -/
def tokOK : ITok → Bool
  | .str _ _ esz => esz == 1 || esz == 2 || esz == 4
  | _ => true

def toksOK (toks : List ITok) : Bool := toks.all tokOK

theorem toksOK_tail {t : ITok} {r : List ITok} (h : toksOK (t :: r) = true) : toksOK r = true := by
  simp only [toksOK, List.all_cons, Bool.and_eq_true] at h; exact h.2

theorem toksOK_head {t : ITok} {r : List ITok} (h : toksOK (t :: r) = true) : tokOK t = true := by
  simp only [toksOK, List.all_cons, Bool.and_eq_true] at h; exact h.1

/-- `ty->is_flexible` is set by struct_members only when the last member is an array of unknown bound -/
def lastIsArr : Members → Bool
  | [] => true
  | [(_, t)] => t.elem?.isSome
  | _ :: m :: r => lastIsArr (m :: r)

mutual
  /-- types as struct_members / union_decl build them: a flexible aggregate ends in an array member -/
  def tyOK : Ty → Bool
    | .scalar _ _ => true
    | .array e _ => tyOK e
    | .inc e => tyOK e
    | .struct ms _ fl => msOK ms && (!fl || lastIsArr ms)
    | .union ms _ fl => msOK ms && (!fl || lastIsArr ms)
  def msOK : Members → Bool
    | [] => true
    | (_, t) :: r => tyOK t && msOK r
end

mutual
  /-- the initializer tree has the shape `new_initializer` gives it for the type (an array node may have any number of
      children once its bound has been counted; `.flex` is a node whose bound is still unknown) -/
  def shape : Ty → Init → Bool
    | .scalar _ _, .leaf _ => true
    | .array e _, .arr cs => shapeAll e cs
    | .array _ _, .flex => true
    | .inc e, .arr cs => shapeAll e cs
    | .inc _, .flex => true
    | .struct ms _ _, .struct _ cs => shapeMs ms cs
    | .union ms _ _, .union _ _ cs => shapeMs ms cs
    | _, _ => false
  def shapeAll : Ty → List Init → Bool
    | _, [] => true
    | e, c :: cs => shape e c && shapeAll e cs
  def shapeMs : Members → List Init → Bool
    | [], [] => true
    | (_, t) :: ms, c :: cs => shape t c && shapeMs ms cs
    | _, _ => false
end

/-- an array node with its bound known -/
def arrOK (elem : Ty) (init : Init) : Prop := ∃ cs, init = .arr cs ∧ shapeAll elem cs = true
def stOK (ms : Members) (init : Init) : Prop := ∃ e cs, init = .struct e cs ∧ shapeMs ms cs = true
def unOK (ms : Members) (init : Init) : Prop := ∃ e m cs, init = .union e m cs ∧ shapeMs ms cs = true
/-- a struct node (`u = false`) or a union node (`u = true`): struct_initializer1/2 are also run on the node of a union
    without members -/
def aggOK : Bool → Members → Init → Prop
  | false, ms, init => stOK ms init
  | true, ms, init => unOK ms init

abbrev Post (ty : Ty) (r : Init × List ITok) : Prop := shape ty r.1 = true ∧ toksOK r.2 = true
abbrev PostA (elem : Ty) (r : Init × List ITok) : Prop := arrOK elem r.1 ∧ toksOK r.2 = true
abbrev PostS (ms : Members) (r : Init × List ITok) : Prop := stOK ms r.1 ∧ toksOK r.2 = true
abbrev PostU (ms : Members) (r : Init × List ITok) : Prop := unOK ms r.1 ∧ toksOK r.2 = true
abbrev PostG (u : Bool) (ms : Members) (r : Init × List ITok) : Prop := aggOK u ms r.1 ∧ toksOK r.2 = true

theorem shape_array_iff (e : Ty) (n : Nat) (init : Init) : shape (.array e n) init = true ↔ (init = .flex ∨ arrOK e init) := by
  cases init <;> simp [shape, arrOK]

theorem shape_inc_iff (e : Ty) (init : Init) : shape (.inc e) init = true ↔ (init = .flex ∨ arrOK e init) := by
  cases init <;> simp [shape, arrOK]

theorem shape_struct_iff (ms : Members) (n : Nat) (fl : Bool) (init : Init) : shape (.struct ms n fl) init = true ↔ stOK ms init := by
  cases init with
  | struct e cs =>
    simp only [shape, stOK]
    exact ⟨fun h => ⟨e, cs, rfl, h⟩, fun ⟨_, _, he, h⟩ => by cases he; exact h⟩
  | _ => simp [shape, stOK]

theorem shape_union_iff (ms : Members) (n : Nat) (fl : Bool) (init : Init) : shape (.union ms n fl) init = true ↔ unOK ms init := by
  cases init with
  | union e m cs =>
    simp only [shape, unOK]
    exact ⟨fun h => ⟨e, m, cs, rfl, h⟩, fun ⟨_, _, _, he, h⟩ => by cases he; exact h⟩
  | _ => simp [shape, unOK]

/-! ## shape of lists -/

theorem shapeAll_get : ∀ (e : Ty) (cs : List Init) (i : Nat), shapeAll e cs = true → i < cs.length →
    ∃ c, cs[i]? = some c ∧ shape e c = true
  | _, [], _, _, h => by simp at h
  | e, c :: cs, 0, hs, _ => by
    simp only [shapeAll, Bool.and_eq_true] at hs
    exact ⟨c, rfl, hs.1⟩
  | e, c :: cs, i + 1, hs, h => by
    simp only [shapeAll, Bool.and_eq_true] at hs
    simpa using shapeAll_get e cs i hs.2 (by simpa using h)

theorem shapeAll_set : ∀ (e : Ty) (cs : List Init) (i : Nat) (c' : Init), shapeAll e cs = true → shape e c' = true →
    shapeAll e (cs.set i c') = true
  | _, [], _, _, _, _ => by simp [shapeAll]
  | e, c :: cs, 0, c', hs, h => by
    simp only [shapeAll, Bool.and_eq_true] at hs
    simp [shapeAll, h, hs.2]
  | e, c :: cs, i + 1, c', hs, h => by
    simp only [shapeAll, Bool.and_eq_true] at hs
    simp [shapeAll, hs.1, shapeAll_set e cs i c' hs.2 h]

theorem shapeAll_replicate (e : Ty) (c : Init) (h : shape e c = true) : ∀ n, shapeAll e (List.replicate n c) = true
  | 0 => rfl
  | n + 1 => by simp [List.replicate_succ, shapeAll, h, shapeAll_replicate e c h n]

theorem shapeMs_length : ∀ (ms : Members) (cs : List Init), shapeMs ms cs = true → cs.length = ms.length
  | [], [], _ => rfl
  | [], _ :: _, h => by simp [shapeMs] at h
  | _ :: _, [], h => by simp [shapeMs] at h
  | (_, t) :: ms, c :: cs, h => by
    simp only [shapeMs, Bool.and_eq_true] at h
    simp [shapeMs_length ms cs h.2]

theorem shapeMs_get : ∀ (ms : Members) (cs : List Init) (k : Nat) (mi : MemInfo) (t : Ty), shapeMs ms cs = true →
    ms[k]? = some (mi, t) → ∃ c, cs[k]? = some c ∧ shape t c = true
  | [], _, _, _, _, _, h => by simp at h
  | _ :: _, [], _, _, _, hs, _ => by simp [shapeMs] at hs
  | (mi0, t0) :: ms, c :: cs, 0, mi, t, hs, h => by
    simp only [shapeMs, Bool.and_eq_true] at hs
    simp only [List.getElem?_cons_zero, Option.some.injEq, Prod.mk.injEq] at h
    exact ⟨c, rfl, by rw [← h.2]; exact hs.1⟩
  | (mi0, t0) :: ms, c :: cs, k + 1, mi, t, hs, h => by
    simp only [shapeMs, Bool.and_eq_true] at hs
    simpa using shapeMs_get ms cs k mi t hs.2 (by simpa using h)

theorem shapeMs_set : ∀ (ms : Members) (cs : List Init) (k : Nat) (mi : MemInfo) (t : Ty) (c' : Init), shapeMs ms cs = true →
    ms[k]? = some (mi, t) → shape t c' = true → shapeMs ms (cs.set k c') = true
  | [], _, _, _, _, _, _, h, _ => by simp at h
  | _ :: _, [], _, _, _, _, hs, _, _ => by simp [shapeMs] at hs
  | (mi0, t0) :: ms, c :: cs, 0, mi, t, c', hs, h, hc => by
    simp only [shapeMs, Bool.and_eq_true] at hs
    simp only [List.getElem?_cons_zero, Option.some.injEq, Prod.mk.injEq] at h
    simp only [List.set_cons_zero, shapeMs, Bool.and_eq_true]
    exact ⟨by rw [h.2]; exact hc, hs.2⟩
  | (mi0, t0) :: ms, c :: cs, k + 1, mi, t, c', hs, h, hc => by
    simp only [shapeMs, Bool.and_eq_true] at hs
    simp only [List.set_cons_succ, shapeMs, Bool.and_eq_true]
    exact ⟨hs.1, shapeMs_set ms cs k mi t c' hs.2 (by simpa using h) hc⟩

theorem msOK_get : ∀ (ms : Members) (k : Nat) (mi : MemInfo) (t : Ty), msOK ms = true → ms[k]? = some (mi, t) → tyOK t = true
  | [], _, _, _, _, h => by simp at h
  | (mi0, t0) :: ms, 0, mi, t, hs, h => by
    simp only [msOK, Bool.and_eq_true] at hs
    simp only [List.getElem?_cons_zero, Option.some.injEq, Prod.mk.injEq] at h
    rw [← h.2]; exact hs.1
  | (mi0, t0) :: ms, k + 1, mi, t, hs, h => by
    simp only [msOK, Bool.and_eq_true] at hs
    exact msOK_get ms k mi t hs.2 (by simpa using h)

/-! ## new_initializer -/

theorem elem_shape_flex (t : Ty) (h : t.elem?.isSome = true) : shape t .flex = true := by
  cases t <;> simp [Ty.elem?] at h <;> rfl

mutual
  theorem newInit_shape : ∀ (ty : Ty) (fl : Bool), tyOK ty = true → shape ty (newInit ty fl) = true
    | .scalar _ _, _, _ => rfl
    | .array e n, _, h => by
      simp only [tyOK] at h
      simp only [newInit, shape]
      exact shapeAll_replicate e _ (newInit_shape e false h) n
    | .inc e, fl, _ => by cases fl <;> simp [newInit, shape, shapeAll]
    | .struct ms _ f, fl, h => by
      simp only [tyOK, Bool.and_eq_true, Bool.or_eq_true, Bool.not_eq_true'] at h
      simp only [newInit, shape]
      apply newInitMs_shape ms (fl && f) h.1
      intro hf
      simp only [Bool.and_eq_true] at hf
      rcases h.2 with h2 | h2
      · rw [hf.2] at h2; cases h2
      · exact h2
    | .union ms _ f, fl, h => by
      simp only [tyOK, Bool.and_eq_true, Bool.or_eq_true, Bool.not_eq_true'] at h
      simp only [newInit, shape]
      apply newInitMs_shape ms (fl && f) h.1
      intro hf
      simp only [Bool.and_eq_true] at hf
      rcases h.2 with h2 | h2
      · rw [hf.2] at h2; cases h2
      · exact h2
  theorem newInitMs_shape : ∀ (ms : Members) (fl : Bool), msOK ms = true → (fl = true → lastIsArr ms = true) →
      shapeMs ms (newInitMs ms fl) = true
    | [], _, _, _ => rfl
    | [(_, t)], fl, h, hl => by
      simp only [msOK, Bool.and_eq_true] at h
      cases fl with
      | true =>
        simp only [newInitMs, if_true, shapeMs, Bool.and_true]
        exact elem_shape_flex t (by simpa [lastIsArr] using hl rfl)
      | false =>
        simp only [newInitMs, Bool.false_eq_true, if_false, shapeMs, Bool.and_true]
        exact newInit_shape t false h.1
    | (_, t) :: m :: r, fl, h, hl => by
      simp only [msOK, Bool.and_eq_true] at h
      simp only [newInitMs, shapeMs, Bool.and_eq_true]
      exact ⟨newInit_shape t false h.1, newInitMs_shape (m :: r) fl (by simp [msOK, h.2]) (fun hf => by simpa [lastIsArr] using hl hf)⟩
end

/-! ## token helpers never abort and return a suffix of their input -/

theorem skipTok_safe (t : ITok) (w : String) (toks : List ITok) (h : toksOK toks = true) :
    Safe (fun r => toksOK r = true) (skipTok t w toks) := by
  cases toks with
  | nil => exact Safe.diag
  | cons x r =>
    simp only [skipTok]
    split
    · exact toksOK_tail h
    · exact Safe.diag

theorem parseAssign_safe (toks : List ITok) (h : toksOK toks = true) :
    Safe (fun r => toksOK r.2 = true) (parseAssign toks) := by
  cases toks with
  | nil => exact Safe.diag
  | cons x r => cases x <;> first | exact Safe.diag | exact toksOK_tail h

theorem consumeEnd_ok (toks rest : List ITok) (h : toksOK toks = true) (hc : consumeEnd toks = some rest) : toksOK rest = true := by
  cases toks with
  | nil => simp [consumeEnd] at hc
  | cons x r =>
    cases x with
    | rbrace => simp only [consumeEnd, Option.some.injEq] at hc; rw [← hc]; exact toksOK_tail h
    | comma =>
      cases r with
      | nil => simp [consumeEnd] at hc
      | cons y r' =>
        cases y <;> simp only [consumeEnd, Option.some.injEq, reduceCtorEq] at hc
        rw [← hc]; exact toksOK_tail (toksOK_tail h)
    | _ => simp [consumeEnd] at hc

theorem dropComma_ok (toks : List ITok) : toksOK toks = true →
    toksOK (match toks with | .comma :: t => t | t => t) = true := by
  intro h
  cases toks with
  | nil => exact h
  | cons x r => cases x <;> first | exact toksOK_tail h | exact h

theorem skipExcess_safe : ∀ (f : Nat) (toks : List ITok), toksOK toks = true →
    Safe (fun r => toksOK r = true) (skipExcess f toks)
  | 0, _, _ => Safe.fuel
  | f + 1, toks, h => by
    cases toks with
    | nil =>
      simp only [skipExcess]
      exact Safe.bind (parseAssign_safe [] h) (fun a ha => Safe.pure ha)
    | cons x r =>
      cases x with
      | lbrace =>
        simp only [skipExcess]
        exact Safe.bind (skipExcess_safe f r (toksOK_tail h)) (fun t ht => skipTok_safe _ _ t ht)
      | _ =>
        simp only [skipExcess]
        exact Safe.bind (parseAssign_safe _ h) (fun a ha => Safe.pure ha)

/-! ## tree helpers -/

theorem getChild_of_get {cs : List Init} {i : Nat} {c : Init} (h : cs[i]? = some c) : getChild cs i = .ok c := by
  simp [getChild, h]

theorem memTy_of_get {ms : Members} {k : Nat} {mi : MemInfo} {t : Ty} (h : ms[k]? = some (mi, t)) : memTy ms k = .ok t := by
  simp [memTy, h]

theorem setExpr_shape (ty : Ty) (init : Init) (e : Option Expr) (h : shape ty init = true) : shape ty (init.setExpr e) = true := by
  cases init <;> cases ty <;> simp_all [Init.setExpr, shape]

theorem setMem_shape (ty : Ty) (init : Init) (k : Nat) (h : shape ty init = true) : shape ty (init.setMem k) = true := by
  cases init <;> cases ty <;> simp_all [Init.setMem, shape]

/-! ## designators -/

theorem arrayDesignator_safe (len : Nat) (toks : List ITok) (h : toksOK toks = true) (hb : isBracket toks = true) :
    Safe (fun r => r.1 ≤ r.2.1 ∧ r.2.1 < len ∧ toksOK r.2.2 = true) (arrayDesignator len toks) := by
  cases toks with
  | nil => simp [isBracket] at hb
  | cons x r =>
    cases x with
    | idx a =>
      simp only [arrayDesignator]
      split
      · exact Safe.diag
      · rename_i hn
        refine ⟨Nat.le_refl _, ?_, toksOK_tail h⟩
        show a.toNat < len
        omega
    | range a b =>
      simp only [arrayDesignator]
      split
      · exact Safe.diag
      · split
        · exact Safe.diag
        · split
          · exact Safe.diag
          · refine ⟨?_, ?_, toksOK_tail h⟩
            · show a.toNat ≤ b.toNat
              omega
            · show b.toNat < len
              omega
    | _ => simp [isBracket] at hb

theorem structDesignator_safe (name : String) : ∀ (ms : Members) (i : Nat),
    Safe (fun r => i ≤ r.1 ∧ r.1 < i + ms.length) (structDesignator name ms i)
  | [], _ => Safe.diag
  | (mi, t) :: r, i => by
    have ih := structDesignator_safe name r (i + 1)
    have ih' : Safe (fun x => i ≤ x.1 ∧ x.1 < i + ((mi, t) :: r).length) (structDesignator name r (i + 1)) :=
      ih.mono (fun a ha => ⟨by omega, by simp only [List.length_cons]; omega⟩)
    simp only [structDesignator]
    split
    · split
      · exact ⟨Nat.le_refl _, by simp⟩
      · exact ih'
    · split
      · exact ih'
      · split
        · exact ⟨Nat.le_refl _, by simp⟩
        · exact ih'

/-! ## string_initializer -/

theorem strElem_some (bytes : List Nat) (w i : Nat) (h : (i + 1) * w ≤ bytes.length) : ∃ v, strElem bytes w i = some v := by
  unfold strElem
  have : ((bytes.drop (i * w)).take w).length = w := by
    rw [List.length_take, List.length_drop]
    have : i * w + w ≤ bytes.length := by rw [Nat.add_mul] at h; omega
    omega
  simp [this]

theorem strFill_safe (bytes : List Nat) (w : Nat) (e : Ty) (he : ∀ c x, shape e c = true → shape e (c.setExpr x) = true) :
    ∀ (cs : List Init) (i n : Nat), shapeAll e cs = true → n ≤ cs.length → (i + n) * w ≤ bytes.length →
      Safe (fun r => shapeAll e r = true) (strFill bytes w cs i n)
  | cs, _, 0, hs, _, _ => by simp only [strFill]; exact hs
  | [], _, n + 1, _, hn, _ => by simp at hn
  | c :: cs, i, n + 1, hs, hn, hb => by
    simp only [shapeAll, Bool.and_eq_true] at hs
    obtain ⟨v, hv⟩ := strElem_some bytes w i (Nat.le_trans (Nat.mul_le_mul_right w (by omega)) hb)
    simp only [strFill, hv]
    refine Safe.bind (strFill_safe bytes w e he cs (i + 1) n hs.2 (by simpa using hn)
      (by have : i + 1 + n = i + (n + 1) := by omega
          rw [this]; exact hb)) ?_
    intro rest hrest
    exact Safe.pure (by simp [shapeAll, he c _ hs.1, hrest])

theorem stringInitializer_safe (elem : Ty) (bytes : List Nat) (esz : Nat) (rest : List ITok) (init : Init)
    (hty : tyOK elem = true) (hesz : esz = 1 ∨ esz = 2 ∨ esz = 4) (hi : init = .flex ∨ arrOK elem init) (hr : toksOK rest = true) :
    Safe (PostA elem) (stringInitializer elem bytes esz rest init) := by
  by_cases hsz : elem.size = (esz : Int)
  · have hw : (esz : Int) = 1 ∨ (esz : Int) = 2 ∨ (esz : Int) = 4 := by omega
    have hwn : (esz : Int).toNat = esz := by simp
    rcases hi with rfl | ⟨cs, rfl, hcs⟩
    · simp only [stringInitializer, ne_eq, hsz, not_true_eq_false, if_false, if_pos hw, hwn, newInit, Init.children, Init.withChildren]
      refine Safe.bind (strFill_safe bytes esz elem (fun c x h => setExpr_shape elem c x h) _ 0 _
        (shapeAll_replicate elem _ (newInit_shape elem false hty) _) (Nat.min_le_left ..) ?_) ?_
      · rw [Nat.zero_add]
        exact Nat.le_trans (Nat.mul_le_mul_right esz (Nat.min_le_right ..)) (Nat.div_mul_le_self ..)
      · intro cs' hcs'
        exact Safe.pure ⟨⟨cs', rfl, hcs'⟩, hr⟩
    · simp only [stringInitializer, ne_eq, hsz, not_true_eq_false, if_false, if_pos hw, hwn, Init.children, Init.withChildren]
      refine Safe.bind (strFill_safe bytes esz elem (fun c x h => setExpr_shape elem c x h) cs 0 _
        hcs (Nat.min_le_left ..) ?_) ?_
      · rw [Nat.zero_add]
        exact Nat.le_trans (Nat.mul_le_mul_right esz (Nat.min_le_right ..)) (Nat.div_mul_le_self ..)
      · intro cs' hcs'
        exact Safe.pure ⟨⟨cs', rfl, hcs'⟩, hr⟩
  · unfold stringInitializer
    rw [if_pos (show elem.size ≠ (esz : Int) from hsz)]
    exact Safe.diag

end ChibiVerif.C13Init
