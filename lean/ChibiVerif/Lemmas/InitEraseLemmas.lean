/-
C05: which tokens the parser consumes does not depend on what the `Initializer` tree holds.

`erase` forgets every expression and every chosen union member.  Every function of the parser commutes with it
(`Er f`, by induction on the fuel), so two runs on trees with the same skeleton stop at the same token
(`consume_indep_*`).  This is what makes `count_array_init_elements` - a dry run of the parser on a dummy tree - count
what the real run then writes.
-/
import ChibiVerif.Lemmas.InitFuelLemmas

namespace ChibiVerif.Init

mutual
  def erase : Init → Init
    | .leaf _ => .leaf none
    | .arr cs => .arr (eraseL cs)
    | .flex => .flex
    | .struct _ cs => .struct none (eraseL cs)
    | .union _ _ cs => .union none none (eraseL cs)
  def eraseL : List Init → List Init
    | [] => []
    | c :: cs => erase c :: eraseL cs
end

theorem eraseL_eq_map : ∀ (cs : List Init), eraseL cs = cs.map erase
  | [] => rfl
  | c :: cs => by rw [eraseL, eraseL_eq_map cs]; rfl

/-- result of a parser function with the tree erased -/
def mapE (x : Except Fail (Init × List ITok)) : Except Fail (Init × List ITok) :=
  x.map (fun r => (erase r.1, r.2))

@[simp] theorem mapE_ok (c : Init) (t : List ITok) : mapE (.ok (c, t)) = .ok (erase c, t) := rfl
@[simp] theorem mapE_error (e : Fail) : mapE (.error e) = .error e := rfl
@[simp] theorem mapE_pure (c : Init) (t : List ITok) : mapE (pure (c, t)) = pure (erase c, t) := rfl

theorem mapE_bind {α : Type} (x : Except Fail α) (k : α → Except Fail (Init × List ITok)) :
    mapE (x >>= k) = x >>= fun a => mapE (k a) := by
  cases x <;> rfl

@[simp] theorem erase_children (c : Init) : (erase c).children = c.children.map erase := by
  cases c <;> simp [erase, Init.children, eraseL_eq_map]

@[simp] theorem erase_withChildren (c : Init) (cs : List Init) : erase (c.withChildren cs) = (erase c).withChildren (cs.map erase) := by
  cases c <;> simp [erase, Init.withChildren, eraseL_eq_map]

@[simp] theorem erase_setChild (c : Init) (i : Nat) (v : Init) : erase (c.setChild i v) = (erase c).setChild i (erase v) := by
  simp [Init.setChild, List.map_set]

@[simp] theorem erase_setExpr (c : Init) (e : Option Expr) : erase (c.setExpr e) = erase c := by
  cases c <;> simp [erase, Init.setExpr]

@[simp] theorem erase_setMem (c : Init) (k : Nat) : erase (c.setMem k) = erase c := by
  cases c <;> simp [erase, Init.setMem]

@[simp] theorem erase_erase : ∀ (c : Init), erase (erase c) = erase c
  | .leaf _ => rfl
  | .flex => rfl
  | .arr cs => by simp only [erase, eraseL_eq_map, List.map_map]; congr 1; exact List.map_congr_left (fun c _ => erase_erase c)
  | .struct _ cs => by simp only [erase, eraseL_eq_map, List.map_map]; congr 1; exact List.map_congr_left (fun c _ => erase_erase c)
  | .union _ _ cs => by simp only [erase, eraseL_eq_map, List.map_map]; congr 1; exact List.map_congr_left (fun c _ => erase_erase c)

theorem getChild_erase (cs : List Init) (i : Nat) : getChild (cs.map erase) i = (getChild cs i).map erase := by
  unfold getChild
  simp only [List.getElem?_map]
  cases cs[i]? <;> rfl


/-! ### same skeleton -/

/-- the two trees differ at most in expressions and chosen union members -/
def Sm (a b : Init) : Prop := erase a = erase b

/-- two parser outcomes: the same error, or trees with the same skeleton and the same rest -/
def SmR (x y : Except Fail (Init × List ITok)) : Prop := mapE x = mapE y

theorem Sm.refl (a : Init) : Sm a a := rfl
theorem SmR.refl (x : Except Fail (Init × List ITok)) : SmR x x := rfl

theorem SmR.ok {a b : Init} {t : List ITok} (h : Sm a b) : SmR (.ok (a, t)) (.ok (b, t)) := by
  simp only [SmR, mapE_ok]; rw [h]

theorem SmR.pure {a b : Init} {t : List ITok} (h : Sm a b) : SmR (pure (a, t)) (pure (b, t)) := SmR.ok h

theorem SmR.ok_inv {a b : Init} {t t' : List ITok} (h : SmR (.ok (a, t)) (.ok (b, t'))) : Sm a b ∧ t = t' := by
  simp only [SmR, mapE_ok, Except.ok.injEq, Prod.mk.injEq] at h; exact h

theorem SmR.bind {x y : Except Fail (Init × List ITok)} {k k' : Init × List ITok → Except Fail (Init × List ITok)}
    (h : SmR x y) (hk : ∀ a b t, Sm a b → SmR (k (a, t)) (k' (b, t))) : SmR (x >>= k) (y >>= k') := by
  cases x with
  | error e =>
    cases y with
    | error e' => simp only [SmR, mapE_error, Except.error.injEq] at h; subst h; rfl
    | ok b => simp [SmR, mapE, Except.map] at h
  | ok a =>
    cases y with
    | error e' => simp [SmR, mapE, Except.map] at h
    | ok b =>
      obtain ⟨a1, t⟩ := a
      obtain ⟨b1, t'⟩ := b
      obtain ⟨h1, h2⟩ := SmR.ok_inv h
      subst h2
      exact hk a1 b1 t h1

/-- into a result that is not a tree (`count_array_init_elements`) -/
theorem SmR.bind_eq {β : Type} {x y : Except Fail (Init × List ITok)} {k k' : Init × List ITok → Except Fail β}
    (h : SmR x y) (hk : ∀ a b t, Sm a b → k (a, t) = k' (b, t)) : (x >>= k) = (y >>= k') := by
  cases x with
  | error e =>
    cases y with
    | error e' => simp only [SmR, mapE_error, Except.error.injEq] at h; subst h; rfl
    | ok b => simp [SmR, mapE, Except.map] at h
  | ok a =>
    cases y with
    | error e' => simp [SmR, mapE, Except.map] at h
    | ok b =>
      obtain ⟨a1, t⟩ := a
      obtain ⟨b1, t'⟩ := b
      obtain ⟨h1, h2⟩ := SmR.ok_inv h
      subst h2
      exact hk a1 b1 t h1

theorem SmR.bind_same {α : Type} (x : Except Fail α) {k k' : α → Except Fail (Init × List ITok)}
    (hk : ∀ a, SmR (k a) (k' a)) : SmR (x >>= k) (x >>= k') := by
  cases x with
  | error e => rfl
  | ok a => exact hk a

theorem SmR.ite {c : Prop} [Decidable c] {a a' b b' : Except Fail (Init × List ITok)} (h1 : c → SmR a a') (h2 : ¬ c → SmR b b') :
    SmR (if c then a else b) (if c then a' else b') := by
  by_cases h : c <;> simp only [h, ↓reduceIte]
  · exact h1 h
  · exact h2 h

theorem Sm.children {a b : Init} (h : Sm a b) : a.children.map erase = b.children.map erase := by
  have := congrArg Init.children h
  simpa using this

theorem Sm.length {a b : Init} (h : Sm a b) : a.children.length = b.children.length := by
  have := congrArg List.length h.children
  simpa using this

theorem Sm.setChild {a b v w : Init} (h : Sm a b) (hv : Sm v w) (i : Nat) : Sm (a.setChild i v) (b.setChild i w) := by
  simp only [Sm, erase_setChild]; rw [h, hv]

theorem Sm.setExpr {a b : Init} (h : Sm a b) (e e' : Option Expr) : Sm (a.setExpr e) (b.setExpr e') := by
  simp only [Sm, erase_setExpr]; exact h

theorem Sm.setMem {a b : Init} (h : Sm a b) (k : Nat) : Sm (a.setMem k) (b.setMem k) := by
  simp only [Sm, erase_setMem]; exact h

theorem Sm.flex_iff {a b : Init} (h : Sm a b) : a = .flex ↔ b = .flex := by
  cases a <;> cases b <;> simp [Sm, erase] at h ⊢

theorem getChild_rel {cs1 cs2 : List Init} (h : cs1.map erase = cs2.map erase) (i : Nat)
    {k k' : Init → Except Fail (Init × List ITok)} (hk : ∀ a b, Sm a b → SmR (k a) (k' b)) :
    SmR (getChild cs1 i >>= k) (getChild cs2 i >>= k') := by
  have h2 := getChild_erase cs1 i
  rw [h, getChild_erase] at h2
  cases h1 : getChild cs1 i with
  | error e =>
    cases h3 : getChild cs2 i with
    | error e' => rw [h1, h3] at h2; simp [Except.map] at h2; subst h2; rfl
    | ok b => rw [h1, h3] at h2; simp [Except.map] at h2
  | ok a =>
    cases h3 : getChild cs2 i with
    | error e' => rw [h1, h3] at h2; simp [Except.map] at h2
    | ok b =>
      rw [h1, h3] at h2
      simp only [Except.map, Except.ok.injEq] at h2
      exact hk a b h2.symm


/-! ### string literals -/

theorem strFill_rel (bytes : List Nat) (w : Nat) : ∀ (n : Nat) (cs1 cs2 : List Init) (i : Nat), cs1.map erase = cs2.map erase →
    (strFill bytes w cs1 i n).map (List.map erase) = (strFill bytes w cs2 i n).map (List.map erase)
  | 0, cs1, cs2, i, h => by simp only [strFill, Except.map]; rw [h]
  | n+1, [], [], i, _ => rfl
  | n+1, [], _ :: _, i, h => by simp at h
  | n+1, _ :: _, [], i, h => by simp at h
  | n+1, c1 :: cs1, c2 :: cs2, i, h => by
    simp only [List.map_cons, List.cons.injEq] at h
    rw [strFill, strFill]
    cases strElem bytes w i with
    | none => rfl
    | some v =>
      simp only
      have ih := strFill_rel bytes w n cs1 cs2 (i+1) h.2
      cases h1 : strFill bytes w cs1 (i+1) n with
      | error e =>
        cases h2 : strFill bytes w cs2 (i+1) n with
        | error e' => rw [h1, h2] at ih; simp [Except.map] at ih; subst ih; rfl
        | ok r2 => rw [h1, h2] at ih; simp [Except.map] at ih
      | ok r1 =>
        cases h2 : strFill bytes w cs2 (i+1) n with
        | error e' => rw [h1, h2] at ih; simp [Except.map] at ih
        | ok r2 =>
          rw [h1, h2] at ih
          simp only [Except.map, Except.ok.injEq] at ih
          simp only [bind, Except.bind, pure, Except.pure, Except.map, List.map_cons, erase_setExpr, h.1, ih]

theorem stringInitializer_rel (elem : Ty) (bytes : List Nat) (esz : Nat) (r : List ITok) {c1 c2 : Init} (h : Sm c1 c2) :
    SmR (stringInitializer elem bytes esz r c1) (stringInitializer elem bytes esz r c2) := by
  unfold stringInitializer
  split
  · rfl
  · have key : ∀ (a b : Init), Sm a b → SmR
        (if elem.size = 1 ∨ elem.size = 2 ∨ elem.size = 4 then do
            let cs' ← strFill bytes elem.size.toNat a.children 0 (min a.children.length (bytes.length / esz))
            pure (a.withChildren cs', r)
          else .error (.crash "unreachable: string_initializer element size"))
        (if elem.size = 1 ∨ elem.size = 2 ∨ elem.size = 4 then do
            let cs' ← strFill bytes elem.size.toNat b.children 0 (min b.children.length (bytes.length / esz))
            pure (b.withChildren cs', r)
          else .error (.crash "unreachable: string_initializer element size")) := by
      intro a b hab
      apply SmR.ite
      · intro _
        rw [hab.length]
        have := strFill_rel bytes elem.size.toNat (min b.children.length (bytes.length / esz)) _ _ 0 hab.children
        cases h1 : strFill bytes elem.size.toNat a.children 0 (min b.children.length (bytes.length / esz)) with
        | error e =>
          cases h2 : strFill bytes elem.size.toNat b.children 0 (min b.children.length (bytes.length / esz)) with
          | error e' => rw [h1, h2] at this; simp [Except.map] at this; subst this; rfl
          | ok r2 => rw [h1, h2] at this; simp [Except.map] at this
        | ok r1 =>
          cases h2 : strFill bytes elem.size.toNat b.children 0 (min b.children.length (bytes.length / esz)) with
          | error e' => rw [h1, h2] at this; simp [Except.map] at this
          | ok r2 =>
            rw [h1, h2] at this
            simp only [Except.map, Except.ok.injEq] at this
            apply SmR.ok
            simp only [Sm, erase_withChildren]; rw [hab, this]
      · intro _; rfl
    cases c1 <;> cases c2 <;> first | exact key _ _ h | exact SmR.refl _ | (simp [Sm, erase] at h)


/-! ### every parser function respects the skeleton -/

theorem foldlM_rel {α : Type} {step1 step2 : Init × List ITok → α → Except Fail (Init × List ITok)}
    (hstep : ∀ a b t j, Sm a b → SmR (step1 (a, t) j) (step2 (b, t) j)) :
    ∀ (l : List α) (a b : Init) (t : List ITok), Sm a b → SmR (l.foldlM step1 (a, t)) (l.foldlM step2 (b, t))
  | [], a, b, t, h => SmR.ok h
  | j :: l, a, b, t, h => by
    simp only [List.foldlM_cons]
    exact SmR.bind (hstep a b t j h) (fun a' b' t' h' => foldlM_rel hstep l a' b' t' h')

structure Ind (f : Nat) : Prop where
  designation : ∀ ty toks c1 c2, Sm c1 c2 → SmR (designation f ty toks c1) (designation f ty toks c2)
  countLoop : ∀ elem toks d1 d2 i mx first, Sm d1 d2 →
    countLoop f elem toks d1 i mx first = countLoop f elem toks d2 i mx first
  arrayInit1Loop : ∀ elem toks c1 c2 i first, Sm c1 c2 →
    SmR (arrayInit1Loop f elem toks c1 i first) (arrayInit1Loop f elem toks c2 i first)
  arrayInit1 : ∀ elem toks c1 c2, Sm c1 c2 → SmR (arrayInit1 f elem toks c1) (arrayInit1 f elem toks c2)
  arrayInit2Loop : ∀ elem toks c1 c2 i, Sm c1 c2 → SmR (arrayInit2Loop f elem toks c1 i) (arrayInit2Loop f elem toks c2 i)
  arrayInit2 : ∀ elem toks c1 c2 i, Sm c1 c2 → SmR (arrayInit2 f elem toks c1 i) (arrayInit2 f elem toks c2 i)
  structInit1Loop : ∀ ms toks c1 c2 mem first, Sm c1 c2 →
    SmR (structInit1Loop f ms toks c1 mem first) (structInit1Loop f ms toks c2 mem first)
  structInit1 : ∀ ms toks c1 c2, Sm c1 c2 → SmR (structInit1 f ms toks c1) (structInit1 f ms toks c2)
  structInit2 : ∀ ms toks c1 c2 mem first, Sm c1 c2 →
    SmR (structInit2 f ms toks c1 mem first) (structInit2 f ms toks c2 mem first)
  unionRest : ∀ ms toks c1 c2, Sm c1 c2 → c1.mem? = c2.mem? → SmR (unionRest f ms toks c1) (unionRest f ms toks c2)
  unionInit : ∀ ms toks c1 c2, Sm c1 c2 → SmR (unionInit f ms toks c1) (unionInit f ms toks c2)
  initializer2 : ∀ ty toks c1 c2, Sm c1 c2 → SmR (initializer2 f ty toks c1) (initializer2 f ty toks c2)

theorem ind_zero : Ind 0 where
  designation := fun _ _ _ _ _ => rfl
  countLoop := fun _ _ _ _ _ _ _ _ => rfl
  arrayInit1Loop := fun _ _ _ _ _ _ _ => rfl
  arrayInit1 := fun _ _ _ _ _ => rfl
  arrayInit2Loop := fun _ _ _ _ _ _ => rfl
  arrayInit2 := fun _ _ _ _ _ _ => rfl
  structInit1Loop := fun _ _ _ _ _ _ _ => rfl
  structInit1 := fun _ _ _ _ _ => rfl
  structInit2 := fun _ _ _ _ _ _ _ => rfl
  unionRest := fun _ _ _ _ _ _ => rfl
  unionInit := fun _ _ _ _ _ => rfl
  initializer2 := fun _ _ _ _ _ => rfl

/-- the per-element step of a designator range -/
theorem desgStep_rel {f : Nat} (ih : Ind f) (elem : Ty) (tok : List ITok) (a b : Init) (t : List ITok) (j : Nat) (h : Sm a b) :
    SmR (do
        let c ← getChild (a, t).1.children j
        let (c', t2) ← Init.designation f elem tok c
        pure ((a, t).1.setChild j c', t2))
      (do
        let c ← getChild (b, t).1.children j
        let (c', t2) ← Init.designation f elem tok c
        pure ((b, t).1.setChild j c', t2)) := by
  exact getChild_rel h.children j (fun ca cb hc =>
    SmR.bind (ih.designation _ _ _ _ hc) (fun a' b' t' h' => SmR.pure (h.setChild h' j)))


macro "sm_tree" : tactic => `(tactic| repeat' first
  | assumption
  | exact Sm.refl _
  | apply Sm.setChild
  | apply Sm.setExpr
  | apply Sm.setMem)

/-- after `init->mem = mem` both nodes name the same member (trees of one skeleton are nodes of one kind) -/
theorem mem?_setMem_setChild {a b : Init} (h : Sm a b) (k j : Nat) (x y : Init) :
    ((a.setMem k).setChild j x).mem? = ((b.setMem k).setChild j y).mem? := by
  cases a <;> cases b <;> first | rfl | (simp [Sm, erase] at h)

macro "sm_step" ih:ident : tactic => `(tactic| repeat' first
  | exact SmR.refl _
  | (apply ($ih).unionRest <;> first | (sm_tree; done) | (apply mem?_setMem_setChild; sm_tree; done))
  | (apply SmR.pure; sm_tree; done)
  | (apply SmR.ok; sm_tree; done)
  | (apply ($ih).designation; sm_tree; done)
  | (apply ($ih).arrayInit1Loop; sm_tree; done)
  | (apply ($ih).arrayInit1; sm_tree; done)
  | (apply ($ih).arrayInit2Loop; sm_tree; done)
  | (apply ($ih).arrayInit2; sm_tree; done)
  | (apply ($ih).structInit1Loop; sm_tree; done)
  | (apply ($ih).structInit1; sm_tree; done)
  | (apply ($ih).structInit2; sm_tree; done)
  | (apply ($ih).unionInit; sm_tree; done)
  | (apply ($ih).initializer2; sm_tree; done)
  | (apply stringInitializer_rel; sm_tree; done)
  | (apply Sm.children; sm_tree; done)
  | (apply SmR.ite <;> intro _)
  | (apply SmR.bind_same; intro _)
  | (apply getChild_rel)
  | (apply SmR.bind)
  | intro _)

theorem ind_arrayInit2Loop {f : Nat} (ih : Ind f) (elem : Ty) (toks : List ITok) (c1 c2 : Init) (i : Nat) (h : Sm c1 c2) :
    SmR (arrayInit2Loop (f+1) elem toks c1 i) (arrayInit2Loop (f+1) elem toks c2 i) := by
  simp only [arrayInit2Loop]
  rw [h.length]
  sm_step ih


theorem pure_bind'' {α β : Type} (a : α) (k : α → Except Fail β) : ((pure a : Except Fail α) >>= k) = k a := rfl

theorem ind_arrayInit2 {f : Nat} (ih : Ind f) (elem : Ty) (toks : List ITok) (c1 c2 : Init) (i : Nat) (h : Sm c1 c2) :
    SmR (arrayInit2 (f+1) elem toks c1 i) (arrayInit2 (f+1) elem toks c2 i) := by
  simp only [arrayInit2]
  cases c1 <;> cases c2 <;> first
    | (simp [Sm, erase] at h; done)
    | exact SmR.refl _
    | (simp only [pure_bind'']; exact ih.arrayInit2Loop _ _ _ _ _ h)

theorem ind_arrayInit1 {f : Nat} (ih : Ind f) (elem : Ty) (toks : List ITok) (c1 c2 : Init) (h : Sm c1 c2) :
    SmR (arrayInit1 (f+1) elem toks c1) (arrayInit1 (f+1) elem toks c2) := by
  simp only [arrayInit1]
  apply SmR.bind_same
  intro toks1
  cases c1 <;> cases c2 <;> first
    | (simp [Sm, erase] at h; done)
    | exact SmR.refl _
    | (simp only [pure_bind'']; exact ih.arrayInit1Loop _ _ _ _ _ _ h)

theorem ind_arrayInit1Loop {f : Nat} (ih : Ind f) (elem : Ty) (toks : List ITok) (c1 c2 : Init) (i : Nat) (first : Bool)
    (h : Sm c1 c2) : SmR (arrayInit1Loop (f+1) elem toks c1 i first) (arrayInit1Loop (f+1) elem toks c2 i first) := by
  simp only [arrayInit1Loop]
  rw [h.length]
  cases consumeEnd toks with
  | some rest => exact SmR.ok h
  | none =>
    simp only
    have body : ∀ toks1, SmR
        (if isBracket toks1 = true then do
            let __x ← arrayDesignator c2.children.length toks1
            let __x_1 ← (List.range' __x.1 (__x.2.1 + 1 - __x.1)).foldlM
                (fun (acc : Init × List ITok) j => do
                  let c ← getChild acc.1.children j
                  let __x ← Init.designation f elem __x.2.2 c
                  pure (acc.1.setChild j __x.1, __x.2)) (c1, __x.2.2)
            arrayInit1Loop f elem __x_1.2 __x_1.1 (__x.2.1 + 1) false
          else if i < c2.children.length then do
            let c ← getChild c1.children i
            let __x ← Init.initializer2 f elem toks1 c
            arrayInit1Loop f elem __x.2 (c1.setChild i __x.1) (i + 1) false
          else do
            let toks ← skipExcess f toks1
            arrayInit1Loop f elem toks c1 (i + 1) false)
        (if isBracket toks1 = true then do
            let __x ← arrayDesignator c2.children.length toks1
            let __x_1 ← (List.range' __x.1 (__x.2.1 + 1 - __x.1)).foldlM
                (fun (acc : Init × List ITok) j => do
                  let c ← getChild acc.1.children j
                  let __x ← Init.designation f elem __x.2.2 c
                  pure (acc.1.setChild j __x.1, __x.2)) (c2, __x.2.2)
            arrayInit1Loop f elem __x_1.2 __x_1.1 (__x.2.1 + 1) false
          else if i < c2.children.length then do
            let c ← getChild c2.children i
            let __x ← Init.initializer2 f elem toks1 c
            arrayInit1Loop f elem __x.2 (c2.setChild i __x.1) (i + 1) false
          else do
            let toks ← skipExcess f toks1
            arrayInit1Loop f elem toks c2 (i + 1) false) := by
      intro toks1
      apply SmR.ite
      · intro _
        apply SmR.bind_same
        intro x
        apply SmR.bind
        · exact foldlM_rel (fun a b t j hab => desgStep_rel ih elem x.2.2 a b t j hab) _ _ _ _ h
        · intro a b t hab
          exact ih.arrayInit1Loop _ _ _ _ _ _ hab
      · intro _
        sm_step ih
    cases first
    · simp only [Bool.false_eq_true, ↓reduceIte]
      exact SmR.bind_same _ body
    · simp only [↓reduceIte]
      exact SmR.bind_same _ body


theorem ind_structInit2 {f : Nat} (ih : Ind f) (ms : Members) (toks : List ITok) (c1 c2 : Init) (mem : Nat) (first : Bool)
    (h : Sm c1 c2) : SmR (structInit2 (f+1) ms toks c1 mem first) (structInit2 (f+1) ms toks c2 mem first) := by
  simp only [structInit2]
  cases ms[mem]? with
  | none => exact SmR.pure h
  | some m =>
    simp only
    cases first <;> simp only [Bool.false_eq_true, ↓reduceIte] <;> sm_step ih

theorem ind_structInit1 {f : Nat} (ih : Ind f) (ms : Members) (toks : List ITok) (c1 c2 : Init) (h : Sm c1 c2) :
    SmR (structInit1 (f+1) ms toks c1) (structInit1 (f+1) ms toks c2) := by
  simp only [structInit1]
  sm_step ih

theorem ind_structInit1Loop {f : Nat} (ih : Ind f) (ms : Members) (toks : List ITok) (c1 c2 : Init) (mem : Nat) (first : Bool)
    (h : Sm c1 c2) : SmR (structInit1Loop (f+1) ms toks c1 mem first) (structInit1Loop (f+1) ms toks c2 mem first) := by
  simp only [structInit1Loop]
  cases consumeEnd toks with
  | some rest => exact SmR.ok h
  | none =>
    simp only
    cases first
    · simp only [Bool.false_eq_true, ↓reduceIte]
      apply SmR.bind_same
      intro toks1
      split <;> sm_step ih
    · simp only [↓reduceIte, pure_bind'']
      split <;> sm_step ih


theorem ind_unionInit {f : Nat} (ih : Ind f) (ms : Members) (toks : List ITok) (c1 c2 : Init) (h : Sm c1 c2) :
    SmR (unionInit (f+1) ms toks c1) (unionInit (f+1) ms toks c2) := by
  simp only [unionInit]
  split
  · sm_step ih
  · apply SmR.ite
    · intro _; sm_step ih
    · intro _
      split <;> sm_step ih

theorem ind_unionRest {f : Nat} (ih : Ind f) (ms : Members) (toks : List ITok) (c1 c2 : Init) (h : Sm c1 c2) (hm : c1.mem? = c2.mem?) :
    SmR (unionRest (f+1) ms toks c1) (unionRest (f+1) ms toks c2) := by
  simp only [unionRest]
  split
  · exact SmR.ok h
  · apply SmR.bind_same
    intro toks1
    split
    · apply SmR.bind_same
      intro ka
      apply SmR.bind_same
      intro mty
      rw [hm]
      by_cases hc : c2.mem? = some ka.1
      · simp only [hc, ↓reduceIte]
        sm_step ih
      · simp only [hc, ↓reduceIte]
        sm_step ih
    · apply SmR.bind_same
      intro toks2
      exact ih.unionRest _ _ _ _ h hm

theorem ind_initializer2 {f : Nat} (ih : Ind f) (ty : Ty) (toks : List ITok) (c1 c2 : Init) (h : Sm c1 c2) :
    SmR (initializer2 (f+1) ty toks c1) (initializer2 (f+1) ty toks c2) := by
  simp only [initializer2]
  split
  · split <;> first | (split <;> sm_step ih) | sm_step ih
  · split <;> first | (split <;> sm_step ih) | sm_step ih
  · sm_step ih
  · sm_step ih
  · split <;> sm_step ih

theorem ind_designation {f : Nat} (ih : Ind f) (ty : Ty) (toks : List ITok) (c1 c2 : Init) (h : Sm c1 c2) :
    SmR (designation (f+1) ty toks c1) (designation (f+1) ty toks c2) := by
  have bracket : ∀ (elem : Ty) (toks : List ITok), c1 ≠ .flex → c2 ≠ .flex → SmR
      (do
        let __x ← arrayDesignator c1.children.length toks
        let __x_1 ← (List.range' __x.1 (__x.2.1 + 1 - __x.1)).foldlM
          (fun (acc : Init × List ITok) i => do
            let c ← getChild acc.1.children i
            let __x ← Init.designation f elem __x.2.2 c
            pure (acc.1.setChild i __x.1, __x.2)) (c1, __x.2.2)
        arrayInit2 f elem __x_1.2 __x_1.1 (__x.2.1 + 1))
      (do
        let __x ← arrayDesignator c2.children.length toks
        let __x_1 ← (List.range' __x.1 (__x.2.1 + 1 - __x.1)).foldlM
          (fun (acc : Init × List ITok) i => do
            let c ← getChild acc.1.children i
            let __x ← Init.designation f elem __x.2.2 c
            pure (acc.1.setChild i __x.1, __x.2)) (c2, __x.2.2)
        arrayInit2 f elem __x_1.2 __x_1.1 (__x.2.1 + 1)) := by
    intro elem toks _ _
    rw [h.length]
    apply SmR.bind_same
    intro x
    apply SmR.bind
    · exact foldlM_rel (fun a b t j hab => desgStep_rel ih elem x.2.2 a b t j hab) _ _ _ _ h
    · intro a b t hab
      exact ih.arrayInit2 _ _ _ _ _ hab
  simp only [designation]
  split
  ·
    cases ty.elem? with
    | none => rfl
    | some elem =>
      simp only
      cases c1 <;> cases c2 <;> first
        | (simp [Sm, erase] at h; done)
        | exact SmR.refl _
        | exact bracket elem _ (by simp) (by simp)
  ·
    cases ty.elem? with
    | none => rfl
    | some elem =>
      simp only
      cases c1 <;> cases c2 <;> first
        | (simp [Sm, erase] at h; done)
        | exact SmR.refl _
        | exact bracket elem _ (by simp) (by simp)
  · split <;> sm_step ih
  · sm_step ih
  · sm_step ih


theorem ind_countLoop {f : Nat} (ih : Ind f) (elem : Ty) (toks : List ITok) (d1 d2 : Init) (i mx : Int) (first : Bool)
    (h : Sm d1 d2) : countLoop (f+1) elem toks d1 i mx first = countLoop (f+1) elem toks d2 i mx first := by
  simp only [countLoop]
  cases consumeEnd toks with
  | some rest => rfl
  | none =>
    simp only
    have body : ∀ (toks1 : List ITok),
        ((match toks1 with
          | .idx a :: r => do
            let (d, t) ← Init.designation f elem r d1
            pure (d, t, a)
          | .range _ b :: r => do
            let (d, t) ← Init.designation f elem r d1
            pure (d, t, b)
          | _ => do
            let (d, t) ← Init.initializer2 f elem toks1 d1
            pure (d, t, i) : Except Fail (Init × List ITok × Int)) >>= fun x =>
          countLoop f elem x.2.1 x.1 (x.2.2 + 1) (max mx (x.2.2 + 1)) false) =
        ((match toks1 with
          | .idx a :: r => do
            let (d, t) ← Init.designation f elem r d2
            pure (d, t, a)
          | .range _ b :: r => do
            let (d, t) ← Init.designation f elem r d2
            pure (d, t, b)
          | _ => do
            let (d, t) ← Init.initializer2 f elem toks1 d2
            pure (d, t, i) : Except Fail (Init × List ITok × Int)) >>= fun x =>
          countLoop f elem x.2.1 x.1 (x.2.2 + 1) (max mx (x.2.2 + 1)) false) := by
      intro toks1
      split
      · simp only [bind_assoc, pure_bind]
        exact SmR.bind_eq (ih.designation _ _ _ _ h) (fun a b t hab => ih.countLoop _ _ _ _ _ _ _ hab)
      · simp only [bind_assoc, pure_bind]
        exact SmR.bind_eq (ih.designation _ _ _ _ h) (fun a b t hab => ih.countLoop _ _ _ _ _ _ _ hab)
      · simp only [bind_assoc, pure_bind]
        exact SmR.bind_eq (ih.initializer2 _ _ _ _ h) (fun a b t hab => ih.countLoop _ _ _ _ _ _ _ hab)
    cases first
    · simp only [Bool.false_eq_true, ↓reduceIte]
      cases skipTok ITok.comma "," toks with
      | error e => rfl
      | ok toks1 => exact body toks1
    · simp only [↓reduceIte]
      exact body toks

theorem ind_succ (f : Nat) (ih : Ind f) : Ind (f+1) where
  designation := ind_designation ih
  countLoop := ind_countLoop ih
  arrayInit1Loop := ind_arrayInit1Loop ih
  arrayInit1 := ind_arrayInit1 ih
  arrayInit2Loop := ind_arrayInit2Loop ih
  arrayInit2 := ind_arrayInit2 ih
  structInit1Loop := ind_structInit1Loop ih
  structInit1 := ind_structInit1 ih
  structInit2 := ind_structInit2 ih
  unionRest := ind_unionRest ih
  unionInit := ind_unionInit ih
  initializer2 := ind_initializer2 ih

theorem ind_all : ∀ f, Ind f
  | 0 => ind_zero
  | f+1 => ind_succ f (ind_all f)

/-! ### consequences -/

theorem designation_fuel_mono (ty : Ty) (toks : List ITok) (init : Init) :
    ∀ (f g : Nat), f ≤ g → Le (designation f ty toks init) (designation g ty toks init) := by
  intro f g h
  induction h with
  | refl => exact Le.refl _
  | step _ ih => exact ih.trans ((mono_all _).designation ty toks init)

theorem Le.ok {α : Type} {x y : Except Fail α} {a : α} (h : Le x y) (hx : x = .ok a) : y = .ok a := by
  rcases h with h | h
  · rw [hx] at h; cases h
  · rw [← h, hx]

/-- two runs of `initializer2` on trees with the same skeleton stop at the same token (any fuels) -/
theorem consume_indep_init2 {f1 f2 : Nat} {ty : Ty} {toks : List ITok} {c1 c2 c1' c2' : Init} {t1 t2 : List ITok}
    (h : Sm c1 c2) (h1 : initializer2 f1 ty toks c1 = .ok (c1', t1)) (h2 : initializer2 f2 ty toks c2 = .ok (c2', t2)) :
    t1 = t2 ∧ Sm c1' c2' := by
  have e1 := (initializer2_fuel_mono ty toks c1 f1 (max f1 f2) (Nat.le_max_left _ _)).ok h1
  have e2 := (initializer2_fuel_mono ty toks c2 f2 (max f1 f2) (Nat.le_max_right _ _)).ok h2
  have := (ind_all (max f1 f2)).initializer2 ty toks c1 c2 h
  rw [e1, e2] at this
  obtain ⟨h3, h4⟩ := SmR.ok_inv this
  exact ⟨h4, h3⟩

theorem consume_indep_desg {f1 f2 : Nat} {ty : Ty} {toks : List ITok} {c1 c2 c1' c2' : Init} {t1 t2 : List ITok}
    (h : Sm c1 c2) (h1 : designation f1 ty toks c1 = .ok (c1', t1)) (h2 : designation f2 ty toks c2 = .ok (c2', t2)) :
    t1 = t2 ∧ Sm c1' c2' := by
  have e1 := (designation_fuel_mono ty toks c1 f1 (max f1 f2) (Nat.le_max_left _ _)).ok h1
  have e2 := (designation_fuel_mono ty toks c2 f2 (max f1 f2) (Nat.le_max_right _ _)).ok h2
  have := (ind_all (max f1 f2)).designation ty toks c1 c2 h
  rw [e1, e2] at this
  obtain ⟨h3, h4⟩ := SmR.ok_inv this
  exact ⟨h4, h3⟩

end ChibiVerif.Init
